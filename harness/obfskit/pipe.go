package obfskit

import (
	"errors"
	"io"
	"net"
	"sync"
	"time"
)

// ErrReset is the injected "connection reset" read error of the end-of-stream cases.
var ErrReset = errors.New("read: connection reset by peer (injected)")

// half is one direction of a buffered in-memory pipe: Write never blocks, Read blocks until
// there is data or the pipe is closed (unlike net.Pipe, which is synchronous and would deadlock
// two endpoints that both write before they read, as obfs2/obfs3 handshakes do).
type half struct {
	mu     sync.Mutex
	cond   *sync.Cond
	buf    []byte
	closed bool
}

func newHalf() *half {
	h := &half{}
	h.cond = sync.NewCond(&h.mu)
	return h
}

// PipeConn is one end of a buffered, goroutine-safe in-memory duplex connection.
type PipeConn struct{ rd, wr *half }

// Pipe returns the two ends.
func Pipe() (*PipeConn, *PipeConn) {
	a, b := newHalf(), newHalf()
	return &PipeConn{rd: a, wr: b}, &PipeConn{rd: b, wr: a}
}

func (p *PipeConn) Read(b []byte) (int, error) {
	h := p.rd
	h.mu.Lock()
	defer h.mu.Unlock()
	for len(h.buf) == 0 && !h.closed {
		h.cond.Wait()
	}
	if len(h.buf) == 0 {
		return 0, io.EOF
	}
	n := copy(b, h.buf)
	h.buf = h.buf[n:]
	return n, nil
}

func (p *PipeConn) Write(b []byte) (int, error) {
	h := p.wr
	h.mu.Lock()
	defer h.mu.Unlock()
	if h.closed {
		return 0, io.ErrClosedPipe
	}
	h.buf = append(h.buf, b...)
	h.cond.Broadcast()
	return len(b), nil
}

func (p *PipeConn) Close() error {
	for _, h := range []*half{p.rd, p.wr} {
		h.mu.Lock()
		h.closed = true
		h.cond.Broadcast()
		h.mu.Unlock()
	}
	return nil
}

func (p *PipeConn) LocalAddr() net.Addr                { return &net.TCPAddr{IP: net.IPv4(127, 0, 0, 1), Port: 1} }
func (p *PipeConn) RemoteAddr() net.Addr               { return &net.TCPAddr{IP: net.IPv4(127, 0, 0, 1), Port: 2} }
func (p *PipeConn) SetDeadline(t time.Time) error      { return nil }
func (p *PipeConn) SetReadDeadline(t time.Time) error  { return nil }
func (p *PipeConn) SetWriteDeadline(t time.Time) error { return nil }

// PairResult is what one concurrently run client/server pair reports.
type PairResult struct {
	Err   string // "" = both sides completed and echoed their payloads intact
	Panic bool
}

// RunPairs starts `pairs` client/server pairs at the same instant (true parallelism: two
// goroutines per pair, released by one barrier) and waits for them. dial/wrap run the real
// transport over the given conn. Each client sends payloadC and expects payloadS back, each
// server expects payloadC and answers payloadS. limit bounds the whole batch.
func RunPairs(pairs int, payload func(i int) (c, s []byte),
	dial func(net.Conn) (net.Conn, error), wrap func(net.Conn) (net.Conn, error), limit time.Duration) []PairResult {
	res := make([]PairResult, pairs)
	var mu sync.Mutex
	fail := func(i int, msg string, p bool) {
		mu.Lock()
		if res[i].Err == "" {
			res[i] = PairResult{Err: msg, Panic: p}
		}
		mu.Unlock()
	}
	start := make(chan struct{})
	var wg sync.WaitGroup
	conns := make([]*PipeConn, 0, 2*pairs)
	finished := make([]int, pairs)
	for i := 0; i < pairs; i++ {
		i := i
		a, b := Pipe()
		conns = append(conns, a, b)
		pc, ps := payload(i)
		side := func(name string, raw net.Conn, mk func(net.Conn) (net.Conn, error), send, expect []byte, sendFirst bool) {
			defer wg.Done()
			defer func() {
				mu.Lock()
				finished[i]++
				mu.Unlock()
			}()
			defer func() {
				if p := recover(); p != nil {
					fail(i, name+" panicked: "+errString(p), true)
					raw.Close()
				}
			}()
			<-start
			conn, err := mk(raw)
			if err != nil {
				fail(i, name+" handshake: "+err.Error(), false)
				raw.Close()
				return
			}
			rd := func() {
				got := make([]byte, len(expect))
				if _, err := io.ReadFull(conn, got); err != nil {
					fail(i, name+" read: "+err.Error(), false)
					raw.Close()
				} else if string(got) != string(expect) {
					fail(i, name+" read garbled data", false)
				}
			}
			wr := func() {
				if _, err := conn.Write(send); err != nil {
					fail(i, name+" write: "+err.Error(), false)
					raw.Close()
				}
			}
			if sendFirst {
				wr()
				rd()
			} else {
				rd()
				wr()
			}
		}
		wg.Add(2)
		go side("client", a, dial, pc, ps, true)
		go side("server", b, wrap, ps, pc, false)
	}
	done := make(chan struct{})
	go func() { wg.Wait(); close(done) }()
	close(start)
	select {
	case <-done:
	case <-time.After(limit):
		for i := range res {
			mu.Lock()
			f := finished[i]
			mu.Unlock()
			if f < 2 {
				fail(i, "did not finish in time", false)
			}
		}
		for _, c := range conns {
			c.Close()
		}
		<-done
	}
	return res
}

func errString(p interface{}) string {
	if e, ok := p.(error); ok {
		return e.Error()
	}
	if s, ok := p.(string); ok {
		return s
	}
	return "panic"
}
