// Package obfskit: pieces shared by the obfs2 (C14) and obfs3 (C13) harnesses — a reader that
// drains a real transport conn until it blocks, segmentation generators, small helpers.
package obfskit

import (
	"encoding/binary"
	"fmt"
	"net"
	"strings"
	"time"

	"verif/harness/vlib"
)

// Reader drains a real endpoint: it keeps one Read outstanding and collects what completes.
type Reader struct {
	SC    *vlib.ScriptConn
	Conn  net.Conn
	Max   int
	Got   []byte
	Calls int
	Err   error       // first error a Read returned
	Panic interface{} // recovered panic of a Read
	Stuck bool        // Read blocked somewhere else than in the conn (safety timeout)

	op  *vlib.Op
	buf []byte
	n   int
	err error
}

// Pump reads until the endpoint blocks in the conn with nothing to read (or fails).
func (r *Reader) Pump() {
	if r.Err != nil || r.Panic != nil {
		return
	}
	if r.buf == nil {
		r.buf = make([]byte, r.Max)
	}
	for {
		if r.op == nil {
			r.op = r.SC.Start(func() { r.n, r.err = r.Conn.Read(r.buf) })
		}
		if !r.SC.Wait(r.op) {
			if r.SC.Pending() > 0 {
				r.Stuck = true
			}
			return
		}
		if r.op.Panic != nil {
			r.Panic = r.op.Panic
			r.op = nil
			return
		}
		r.Calls++
		r.Got = append(r.Got, r.buf[:r.n]...)
		r.op = nil
		if r.err != nil {
			r.Err = r.err
			return
		}
	}
}

// PumpReturn is Pump for the case in which the outstanding Read is known to return without new
// input (e.g. a deadline was just armed under virtual time): it first waits for that call to come
// back — ScriptConn.Wait alone could still see the reader parked from before the wake-up.
func (r *Reader) PumpReturn(limit time.Duration) {
	if r.Err != nil || r.Panic != nil {
		return
	}
	if r.buf == nil {
		r.buf = make([]byte, r.Max)
	}
	if r.op == nil {
		r.op = r.SC.Start(func() { r.n, r.err = r.Conn.Read(r.buf) })
	}
	for t0 := time.Now(); !r.op.Done() && time.Since(t0) < limit; {
		time.Sleep(20 * time.Microsecond)
	}
	if r.op.Done() {
		r.Pump()
	}
}

// TakeErr returns and forgets the error the last Read reported (used when the harness itself
// provoked it, e.g. a read-deadline timeout), so that pumping can continue.
func (r *Reader) TakeErr() error {
	e := r.Err
	r.Err, r.err = nil, nil
	return e
}

// Sizes returns the chunk sizes of one segmentation of `total` bytes. bounds are the
// interesting offsets (message boundaries). The rest after the listed sizes is one chunk.
func Sizes(rng *vlib.Rng, kind string, total int, bounds []int) []int {
	var cuts []int
	switch kind {
	case "whole":
	case "one":
		s := make([]int, total)
		for i := range s {
			s[i] = 1
		}
		return s
	case "bound-1", "bound", "bound+1":
		d := map[string]int{"bound-1": -1, "bound": 0, "bound+1": 1}[kind]
		for _, b := range bounds {
			cuts = append(cuts, b+d)
		}
	case "two":
		if total > 1 {
			cuts = []int{1 + rng.Intn(total-1)}
		}
	case "random":
		max := vlib.Pick(rng, []int{2, 7, 64, 1500, 9000})
		p := 0
		for p < total {
			p += 1 + rng.Intn(max)
			cuts = append(cuts, p)
		}
	case "mixed":
		// every boundary with a random offset in {-1,0,+1}, plus a few random cuts
		for _, b := range bounds {
			cuts = append(cuts, b+rng.Intn(3)-1)
		}
		for i := 0; i < 3 && total > 1; i++ {
			cuts = append(cuts, 1+rng.Intn(total-1))
		}
	default:
		panic("unknown chunker " + kind)
	}
	// sort, dedupe, clip
	ok := map[int]bool{}
	for _, c := range cuts {
		if c > 0 && c < total {
			ok[c] = true
		}
	}
	var sizes []int
	prev := 0
	for c := 1; c < total; c++ {
		if ok[c] {
			sizes = append(sizes, c-prev)
			prev = c
		}
	}
	return sizes
}

// Chunkers lists the segmentation kinds.
var Chunkers = []string{"whole", "one", "bound-1", "bound", "bound+1", "two", "random", "mixed"}

// SizesArg renders sizes as driver arguments (leading space, empty if none).
func SizesArg(sizes []int) string {
	var sb strings.Builder
	for _, s := range sizes {
		fmt.Fprintf(&sb, " %d", s)
	}
	return sb.String()
}

// Draw renders the 8 tape bytes that make csrand.IntRange(0, n-1) (n not a power of two,
// n ≤ 2^31-1) return v without a rejection.
func Draw(v int, fill []byte) []byte {
	b := make([]byte, 8)
	binary.BigEndian.PutUint32(b, uint32(v))
	copy(b[4:], fill)
	return b
}

// RejectedDraw renders 8 tape bytes whose Int31 is 2^31-1 (rejected for every n that does not divide 2^31).
func RejectedDraw(fill []byte) []byte {
	b := []byte{0xff, 0xff, 0xff, 0xff, 0, 0, 0, 0}
	copy(b[4:], fill)
	return b
}

// SizeClass buckets a length for the measured distribution.
func SizeClass(n int) string {
	switch {
	case n == 0:
		return "0"
	case n == 1:
		return "1"
	case n < 16:
		return "2-15"
	case n < 256:
		return "16-255"
	case n < 4096:
		return "256-4095"
	case n < 8192:
		return "4096-8191"
	default:
		return ">=8192"
	}
}

// DeadlineState replays the deadline events of a conn: SetDeadline sets both halves,
// SetReadDeadline / SetWriteDeadline one. It returns the armed offsets (0 = cleared).
func DeadlineState(ev []vlib.ConnEvent) (read, write time.Duration) {
	for _, e := range ev {
		switch e.Kind {
		case "deadline":
			read, write = e.Off, e.Off
		case "rdeadline":
			read = e.Off
		case "wdeadline":
			write = e.Off
		}
	}
	return
}

// Fields splits a driver reply.
func Fields(s string) []string { return strings.Fields(s) }
