// Package srvh: Go-side helpers shared by the obfs4 *server* checks (C03, C04): a scripted conn
// with virtual deadlines on top of vlib.ScriptConn, running the real WrapConn on it with a steered
// random tape, the typed wrapper of the Lean driver `o4srv`, probe building blocks.
package srvh

import (
	"encoding/hex"
	"fmt"
	"net"
	"runtime"
	"sync/atomic"
	"strconv"
	"strings"
	"sync"
	"time"

	"gitlab.com/yawning/obfs4.git/common/ntor"
	"gitlab.com/yawning/obfs4.git/transports/base"

	"verif/harness/o4h"
	"verif/harness/vlib"
)

// ---------------------------------------------------------------- clock

var epoch = time.Now()

// NowNs is the harness's monotonic clock (ns since process start, offset so that it is never
// near zero); the same readings are handed to the model as the replay filter's `now`.
func NowNs() int64 { return int64(time.Since(epoch)) + 1_000_000_000_000 }

// ---------------------------------------------------------------- scripted conn

// Step is one scripted network event on the server's conn.
type Step struct {
	K  string `json:"k"`            // "c" chunk | "t" the armed deadline fires | "e" EOF | "s" real pause | "g" wait for the gate
	B  []byte `json:"-"`            // chunk bytes (K=="c")
	N  int    `json:"n,omitempty"`  // chunk length (for replay files; B is rebuilt from the recipe)
	Ms int    `json:"ms,omitempty"` // K=="s"
}

// Conn: vlib.ScriptConn driven by a script. Each Read of the endpoint consumes the next step;
// when the script is exhausted the armed deadline fires at once (FireDeadlines), again and again,
// until the endpoint closes the conn or returns.
type Conn struct {
	*vlib.ScriptConn
	mu        sync.Mutex
	steps     []Step
	idx       int
	rdl       time.Time
	firstRead chan struct{}
	once      sync.Once

	// Gate: a "g" step announces itself on AtGate and blocks until Gate is closed (used to
	// release the last bytes of several conns at the same instant).
	Gate   chan struct{}
	AtGate chan struct{}
	Spin   *int32 // if set, after Gate the Read busy-waits until *Spin != 0 (release within ~100 ns on all cores)

	// Log: what every Read of the endpoint returned, with the harness clock at that moment —
	// exactly this goes to the model.
	Log []LogEv

	LastReadTimeout bool          // the most recent Read returned a timeout
	LastTimeoutOff  time.Duration // the deadline that was armed then, relative to the conn's creation
	TimeoutsFired   int
	FiredUnarmed    bool // a "t" step met no armed deadline (skipped)
}

// LogEv is one Read result as seen by the endpoint.
type LogEv struct {
	K  string // "r" data | "t" timeout | "e" EOF / other error
	B  []byte
	At int64 // NowNs()
}

func NewConn(steps []Step) *Conn {
	return &Conn{ScriptConn: vlib.NewScriptConn(), steps: append([]Step(nil), steps...), firstRead: make(chan struct{}),
		AtGate: make(chan struct{}, 1)}
}

func (c *Conn) SetDeadline(t time.Time) error {
	c.mu.Lock()
	c.rdl = t
	c.mu.Unlock()
	return c.ScriptConn.SetDeadline(t)
}

func (c *Conn) SetReadDeadline(t time.Time) error {
	c.mu.Lock()
	c.rdl = t
	c.mu.Unlock()
	return c.ScriptConn.SetReadDeadline(t)
}

func (c *Conn) noteRead(b []byte, n int, err error) {
	c.mu.Lock()
	defer c.mu.Unlock()
	switch {
	case err == nil:
		c.Log = append(c.Log, LogEv{K: "r", B: append([]byte(nil), b[:n]...), At: NowNs()})
	case err == net.ErrClosed:
	default:
		if _, ok := err.(vlib.TimeoutError); ok {
			c.Log = append(c.Log, LogEv{K: "t", At: NowNs()})
		} else {
			c.Log = append(c.Log, LogEv{K: "e", At: NowNs()})
		}
	}
	if _, ok := err.(vlib.TimeoutError); ok {
		c.LastReadTimeout = true
		c.LastTimeoutOff = c.rdl.Sub(c.ScriptConn.Created)
		c.TimeoutsFired++
	} else {
		c.LastReadTimeout = false
	}
}

func (c *Conn) Read(b []byte) (int, error) {
	c.once.Do(func() { close(c.firstRead) })
	for {
		if c.ScriptConn.Closed() || c.ScriptConn.Pending() > 0 {
			n, err := c.ScriptConn.Read(b)
			c.noteRead(b, n, err)
			return n, err
		}
		c.mu.Lock()
		if c.idx >= len(c.steps) {
			c.mu.Unlock()
			c.ScriptConn.FireDeadlines = true
			n, err := c.ScriptConn.Read(b)
			c.noteRead(b, n, err)
			return n, err
		}
		st := c.steps[c.idx]
		c.idx++
		armed := !c.rdl.IsZero()
		c.mu.Unlock()
		switch st.K {
		case "c":
			c.ScriptConn.Feed(st.B)
		case "g":
			select {
			case c.AtGate <- struct{}{}:
			default:
			}
			if c.Gate != nil {
				<-c.Gate
			}
			if c.Spin != nil {
				for i := 0; atomic.LoadInt32(c.Spin) == 0; i++ {
					if i&0xfffff == 0xfffff {
						runtime.Gosched()
					}
				}
			}
		case "s":
			// a real pause; the armed deadline is honoured in real time: if it comes first the
			// Read returns the timeout then, and the rest of the pause stays in the script
			wake := time.Now().Add(time.Duration(st.Ms) * time.Millisecond)
			c.mu.Lock()
			rdl := c.rdl
			c.mu.Unlock()
			if !rdl.IsZero() && rdl.Before(wake) {
				time.Sleep(time.Until(rdl))
				c.mu.Lock()
				c.idx--
				c.steps[c.idx].Ms = int(wake.Sub(rdl) / time.Millisecond)
				c.mu.Unlock()
				err := vlib.TimeoutError{}
				c.noteRead(nil, 0, err)
				return 0, err
			}
			time.Sleep(time.Until(wake))
		case "e":
			c.ScriptConn.FeedEOF()
			n, err := c.ScriptConn.Read(b)
			c.noteRead(b, n, err)
			return n, err
		case "t":
			if !armed {
				c.mu.Lock()
				c.FiredUnarmed = true
				c.mu.Unlock()
				continue
			}
			err := vlib.TimeoutError{}
			c.noteRead(nil, 0, err)
			return 0, err
		}
	}
}

// ModelEvents renders what the endpoint's Reads returned for the model driver.
func (c *Conn) ModelEvents(hour int64) []string {
	c.mu.Lock()
	defer c.mu.Unlock()
	var evs []string
	for _, l := range c.Log {
		switch l.K {
		case "r":
			evs = append(evs, fmt.Sprintf("r:%s:%d:%d", vlib.Hex(l.B), l.At, hour))
		default:
			evs = append(evs, fmt.Sprintf("%s:%d:%d", l.K, l.At, hour))
		}
	}
	return evs
}

// ---------------------------------------------------------------- running the real WrapConn

// WrapMu serialises the use of the process-wide random tape.
var WrapMu sync.Mutex

// Result is what one WrapConn call did, as the peer and the caller can observe it.
type Result struct {
	Tokens   []string // canonical conn actions: D+<ns> D0 RD+<ns> W:<n> CLOSE
	Offs     []time.Duration
	Written  int
	Wire     []byte
	Closes   int
	ErrClass string
	Blocked  bool // the endpoint sits in Read with nothing armed and nothing to read
	Panic    interface{}
	TapeUsed []byte
	StartNs  int64
	EndNs    int64
	Hour0    int64
	Hour1    int64

	// Slack: the real startTime is taken somewhere between the creation of the conn and the first
	// SetDeadline call (key generation, scheduling, GC in between); every offset measured from the
	// conn's creation is therefore late by an unknown amount in [0, Slack].
	Slack time.Duration

	CloseByTimeout bool
	CloseOff       time.Duration // the read deadline that fired right before the close
	Conn           *Conn
}

// RunWrap runs sf.WrapConn on a scripted conn. steer = bytes crypto/rand delivers first
// (session key attempts, IntRange draws, response padding); releaseEarly releases the tape lock
// as soon as the endpoint reaches its first Read (for scripts that really sleep).
func RunWrap(sf base.ServerFactory, steps []Step, steer []byte, releaseEarly bool) Result {
	var res Result
	WrapMu.Lock()
	locked := true
	unlock := func() {
		if locked {
			o4h.Tape.Steer = nil
			locked = false
			WrapMu.Unlock()
		}
	}
	defer unlock()
	o4h.Tape.Steer = append([]byte(nil), steer...)
	mark := o4h.Tape.Mark()
	res.Hour0 = o4h.Hour()
	res.StartNs = NowNs()
	c := NewConn(steps)
	res.Conn = c
	var werr error
	op := c.ScriptConn.Start(func() { _, werr = sf.WrapConn(c) })
	if releaseEarly {
		<-c.firstRead
		res.TapeUsed = o4h.Tape.Since(mark)
		unlock()
	}
	fin, _ := c.ScriptConn.WaitT(op, 120*time.Second)
	res.EndNs = NowNs()
	res.Hour1 = o4h.Hour()
	if !releaseEarly {
		res.TapeUsed = o4h.Tape.Since(mark)
	}
	collect(c, &res, fin, werr, op)
	return res
}

// collect fills in what the endpoint did on its conn.
func collect(c *Conn, resp *Result, fin bool, werr error, op *vlib.Op) {
	res := *resp
	res.Blocked = !fin
	res.Panic = op.Panic
	if fin {
		res.ErrClass = o4h.ErrClass(werr)
	} else {
		res.ErrClass = "blocked"
	}
	res.Slack = -1
	for _, e := range c.ScriptConn.EventsCopy() {
		if res.Slack < 0 && (e.Kind == "deadline" || e.Kind == "rdeadline") {
			res.Slack = e.At
		}
		switch e.Kind {
		case "deadline":
			if e.Off == 0 {
				res.Tokens = append(res.Tokens, "D0")
			} else {
				res.Tokens = append(res.Tokens, "D+")
			}
			res.Offs = append(res.Offs, e.Off)
		case "rdeadline":
			res.Tokens = append(res.Tokens, "RD+")
			res.Offs = append(res.Offs, e.Off)
		case "wdeadline":
			res.Tokens = append(res.Tokens, "WD+")
			res.Offs = append(res.Offs, e.Off)
		case "write":
			res.Tokens = append(res.Tokens, fmt.Sprintf("W:%d", e.N))
			res.Offs = append(res.Offs, 0)
			res.Written += e.N
		case "close":
			res.Tokens = append(res.Tokens, "CLOSE")
			res.Offs = append(res.Offs, 0)
			res.Closes++
		}
	}
	if res.Slack < 0 {
		res.Slack = time.Duration(res.EndNs - res.StartNs)
	}
	res.Wire = c.ScriptConn.TakeWritten()
	c.mu.Lock()
	res.CloseByTimeout = res.Closes > 0 && c.LastReadTimeout
	res.CloseOff = c.LastTimeoutOff
	c.mu.Unlock()
	*resp = res
}

// Pending is a WrapConn call that was started and now sits in Read at the gate of its script
// (a "g" step): a connection that was accepted earlier and completes its handshake later.
type Pending struct {
	c    *Conn
	op   *vlib.Op
	res  Result
	werr error
	gate chan struct{}
}

// StartWrap starts sf.WrapConn on a scripted conn whose script contains a "g" step and returns
// once the endpoint waits there. steer feeds what WrapConn draws before its first Read.
func StartWrap(sf base.ServerFactory, steps []Step, steer []byte) *Pending {
	p := &Pending{gate: make(chan struct{})}
	WrapMu.Lock()
	o4h.Tape.Steer = append([]byte(nil), steer...)
	mark := o4h.Tape.Mark()
	p.res.Hour0 = o4h.Hour()
	p.res.StartNs = NowNs()
	c := NewConn(steps)
	c.Gate = p.gate
	p.c = c
	p.res.Conn = c
	p.op = c.ScriptConn.Start(func() { _, p.werr = sf.WrapConn(c) })
	<-c.AtGate
	p.res.TapeUsed = o4h.Tape.Since(mark)
	o4h.Tape.Steer = nil
	WrapMu.Unlock()
	return p
}

// Finish opens the gate and waits for the call to end. steer feeds what a success draws (the
// response padding). FinishNs in the result's EndNs is taken right before the gate opens... the
// time handed to the model as the moment of the replay-filter submission is GateNs.
func (p *Pending) Finish(steer []byte) (Result, int64) {
	WrapMu.Lock()
	o4h.Tape.Steer = append([]byte(nil), steer...)
	mark := o4h.Tape.Mark()
	gateNs := NowNs()
	close(p.gate)
	fin, _ := p.c.ScriptConn.WaitT(p.op, 120*time.Second)
	p.res.EndNs = NowNs()
	p.res.Hour1 = o4h.Hour()
	p.res.TapeUsed = append(p.res.TapeUsed, o4h.Tape.Since(mark)...)
	o4h.Tape.Steer = nil
	WrapMu.Unlock()
	collect(p.c, &p.res, fin, p.werr, p.op)
	return p.res, gateNs
}

// BurstRes is what one of several simultaneously completing connections did.
type BurstRes struct {
	OK      bool
	Class   string
	Wire    []byte
	Closes  int
	Blocked bool
}

// BurstOf runs one WrapConn per blob on the same factory; every conn gets all but the last byte
// first, and the last bytes are released at the same instant (spin barrier) once all endpoints
// sit in Read waiting for them. The random tape is not steered (draws interleave).
func BurstOf(sf base.ServerFactory, blobs [][]byte) (out []BurstRes, h0, h1 int64) {
	WrapMu.Lock()
	defer WrapMu.Unlock()
	o4h.Tape.Steer = nil
	h0 = o4h.Hour()
	n := len(blobs)
	out = make([]BurstRes, n)
	var wg sync.WaitGroup
	gate := make(chan struct{})
	var spin int32
	conns := make([]*Conn, n)
	for i := 0; i < n; i++ {
		blob := blobs[i]
		c := NewConn([]Step{{K: "c", B: blob[:len(blob)-1]}, {K: "g"}, {K: "c", B: blob[len(blob)-1:]}})
		c.Gate = gate
		c.Spin = &spin
		conns[i] = c
		wg.Add(1)
		go func(i int) {
			defer wg.Done()
			_, err := sf.WrapConn(c)
			out[i].OK = err == nil
			out[i].Class = o4h.ErrClass(err)
		}(i)
	}
	for _, c := range conns {
		<-c.AtGate
	}
	close(gate)
	time.Sleep(200 * time.Microsecond)
	atomic.StoreInt32(&spin, 1)
	wg.Wait()
	for i, c := range conns {
		out[i].Wire = c.ScriptConn.TakeWritten()
		for _, e := range c.ScriptConn.EventsCopy() {
			if e.Kind == "close" {
				out[i].Closes++
			}
		}
	}
	h1 = o4h.Hour()
	return
}

// Render prints the Go-side trace with offsets.
func (r Result) Render() string {
	var sb strings.Builder
	for i, t := range r.Tokens {
		if i > 0 {
			sb.WriteByte(' ')
		}
		if strings.HasSuffix(t, "+") {
			fmt.Fprintf(&sb, "%s%.3fs", t, r.Offs[i].Seconds())
		} else {
			sb.WriteString(t)
		}
	}
	return sb.String() + " ret=" + r.ErrClass
}

// ---------------------------------------------------------------- the Lean model driver `o4srv`

type Srv struct {
	D   *vlib.Driver
	mu  sync.Mutex
	Log []string
}

func (s *Srv) call(format string, a ...interface{}) []string {
	s.mu.Lock()
	defer s.mu.Unlock()
	line := fmt.Sprintf(format, a...)
	rep := s.D.Call("%s", line)
	if len(line) > 200 {
		line = line[:200] + "…"
	}
	short := rep
	if len(short) > 200 {
		short = short[:200] + "…"
	}
	s.Log = append(s.Log, line+" -> "+short)
	if len(s.Log) > 30 {
		s.Log = s.Log[len(s.Log)-30:]
	}
	return strings.Fields(rep)
}

// FacNew returns the model's identity public key and close delay for the bridge.
func (s *Srv) FacNew(name string, id o4h.Identity) (pub []byte, closeDelay int, ok bool) {
	f := s.call("fac.new %s %s %s %s", name, vlib.Hex(id.NodeID), vlib.Hex(id.Priv), vlib.Hex(id.LenSeed))
	if len(f) != 3 || f[0] != "ok" {
		return nil, 0, false
	}
	cd, err := strconv.Atoi(f[2])
	if err != nil {
		return nil, 0, false
	}
	return vlib.UnHex(f[1]), cd, true
}

func (s *Srv) FacLen(name string) int {
	f := s.call("fac.len %s", name)
	if len(f) != 1 {
		return -1
	}
	v, err := strconv.Atoi(f[0])
	if err != nil {
		return -1
	}
	return v
}

// FacFill submits n fresh dummy values to the model's replay filter at nowNs; returns its size.
func (s *Srv) FacFill(name string, nowNs int64, n int) (int, string) {
	f := s.call("fac.fill %s %d %d", name, nowNs, n)
	if len(f) != 3 || f[0] != "ok" {
		return -1, strings.Join(f, " ")
	}
	v, err := strconv.Atoi(f[1])
	if err != nil {
		return -1, strings.Join(f, " ")
	}
	return v, f[2]
}

// ModelRun is the model's account of one WrapConn call.
type ModelRun struct {
	OK       bool
	Raw      string
	Used     int
	Phase    string
	Tokens   []string // D+ D0 RD+ W:<n> CLOSE
	Offs     []int64  // ns after start for D+/RD+
	ErrClass string   // class returned to the caller ("ok" for OK)
	Wire     []byte
}

// ConnRun feeds the model the same events. evs: "r:<hex>:<now>:<hour>" | "t:<now>:<hour>" | "e:<now>:<hour>".
func (s *Srv) ConnRun(fac string, startNs int64, tape []byte, evs []string) ModelRun {
	f := s.call("conn.run %s %d %s %s", fac, startNs, vlib.Hex(tape), strings.Join(evs, " "))
	m := ModelRun{Raw: strings.Join(f, " ")}
	if len(m.Raw) > 300 {
		m.Raw = m.Raw[:300]
	}
	if len(f) < 3 || f[0] != "ok" {
		return m
	}
	m.OK = true
	m.Used, _ = strconv.Atoi(f[1])
	m.Phase = f[2]
	m.ErrClass = "none"
	for _, t := range f[3:] {
		switch {
		case t == "D0":
			m.Tokens = append(m.Tokens, "D0")
			m.Offs = append(m.Offs, 0)
		case strings.HasPrefix(t, "D+"):
			v, _ := strconv.ParseInt(t[2:], 10, 64)
			m.Tokens = append(m.Tokens, "D+")
			m.Offs = append(m.Offs, v)
		case strings.HasPrefix(t, "RD+"):
			v, _ := strconv.ParseInt(t[3:], 10, 64)
			m.Tokens = append(m.Tokens, "RD+")
			m.Offs = append(m.Offs, v)
		case strings.HasPrefix(t, "W:"):
			m.Wire = vlib.UnHex(t[2:])
			m.Tokens = append(m.Tokens, fmt.Sprintf("W:%d", len(m.Wire)))
			m.Offs = append(m.Offs, 0)
		case t == "CLOSE":
			m.Tokens = append(m.Tokens, "CLOSE")
			m.Offs = append(m.Offs, 0)
		case strings.HasPrefix(t, "ERR:"):
			m.ErrClass = t[4:]
		case t == "OK":
			m.ErrClass = "ok"
		default:
			m.OK = false
		}
	}
	return m
}

func (m ModelRun) Render() string {
	var sb strings.Builder
	for i, t := range m.Tokens {
		if i > 0 {
			sb.WriteByte(' ')
		}
		if strings.HasSuffix(t, "+") {
			fmt.Fprintf(&sb, "%s%.3fs", t, float64(m.Offs[i])/1e9)
		} else {
			sb.WriteString(t)
		}
	}
	return sb.String() + " ret=" + m.ErrClass + " phase=" + m.Phase
}

// AccRep is the model's serverAccept outcome.
type AccRep struct {
	Class   string // "ok" | "need" | failure class
	Hour    int64  // hour echoed into MAC_S
	Wire    []byte // response ‖ seed frame
	RespLen int
	Raw     string
}

func (s *Srv) Acc(fac string, startNs int64, tape, blob []byte, hour, nowNs int64) AccRep {
	f := s.call("acc %s %d %s %s %d %d", fac, startNs, vlib.Hex(tape), vlib.Hex(blob), hour, nowNs)
	raw := strings.Join(f, " ")
	if len(raw) > 200 {
		raw = raw[:200]
	}
	switch {
	case len(f) == 1 && f[0] == "need":
		return AccRep{Class: "need", Raw: raw}
	case len(f) == 2 && f[0] == "fail":
		return AccRep{Class: f[1], Raw: raw}
	case len(f) == 4 && f[0] == "ok":
		h, _ := strconv.ParseInt(f[1], 10, 64)
		n, _ := strconv.Atoi(f[3])
		return AccRep{Class: "ok", Hour: h, Wire: vlib.UnHex(f[2]), RespLen: n, Raw: raw}
	}
	return AccRep{Class: "driver-error", Raw: raw}
}

// Blob crafts a client handshake around an arbitrary representative.
func (s *Srv) Blob(nodeID, idPub, repr, pad []byte, hour int64) []byte {
	f := s.call("blob %s %s %s %s %d", vlib.Hex(nodeID), vlib.Hex(idPub), vlib.Hex(repr), vlib.Hex(pad), hour)
	if len(f) != 2 || f[0] != "ok" {
		return nil
	}
	return vlib.UnHex(f[1])
}

// ---------------------------------------------------------------- comparison

// Tolerance for deadline offsets beyond the measured slack (the model's accept time is the
// conn's creation, the real startTime is taken up to Result.Slack later).
const Tolerance = 100 * time.Millisecond

// Compare returns "" when the conn-visible behaviour and the returned error class agree.
func Compare(g Result, m ModelRun) string {
	if !m.OK {
		return "model driver: " + m.Raw
	}
	if len(g.Tokens) != len(m.Tokens) {
		return "different conn actions"
	}
	for i := range g.Tokens {
		if g.Tokens[i] != m.Tokens[i] {
			return "different conn actions"
		}
		if strings.HasSuffix(g.Tokens[i], "+") {
			d := g.Offs[i] - time.Duration(m.Offs[i])
			if d < -Tolerance || d > g.Slack+Tolerance {
				return "different deadline value"
			}
		}
	}
	if g.ErrClass != m.ErrClass {
		return "different result class"
	}
	return ""
}

// ---------------------------------------------------------------- client handshakes

// ClientTape builds the reference client's tape: a key seed that yields a representative at the
// first attempt ‖ 24-byte provisional seed ‖ the IntRange draw selecting padLen ‖ padding.
func ClientTape(rng *vlib.Rng, keySeed []byte, padLen int) []byte {
	t := append([]byte(nil), keySeed...)
	t = append(t, rng.Bytes(24)...)
	t = append(t, o4h.IntRangeSteer(padLen-77)...)
	t = append(t, rng.Bytes(padLen)...)
	return t
}

// GoodKeySeeds precomputes n key seeds (32 bytes each on which NewKeypair(true) succeeds at once).
func GoodKeySeeds(rng *vlib.Rng, n int) [][]byte {
	WrapMu.Lock()
	defer WrapMu.Unlock()
	out := make([][]byte, n)
	for i := range out {
		out[i] = o4h.GoodKeySeed(rng)
	}
	return out
}

// Representatives of low-order points under the Elligator 2 map (computed offline, verified
// against the real code by LowOrderReprs): u = 0 and u = 1 (twice).
var lowOrderHex = []string{
	"0000000000000000000000000000000000000000000000000000000000000000",
	"ce396c5424c947d204df287d2c5c1bf41dbb57183ad5ba142c23d35351aea01d",
	"0febd3aaa878785101036804ec3fa24df2c6db0200407f055656ac5e2ffd371f",
}

// LowOrderReprs returns representatives whose public key (real Representative.ToPublic) is a
// low-order point (u ∈ {0,1}), plus variants with the two ignored top bits set.
func LowOrderReprs() [][]byte {
	var out [][]byte
	for _, h := range lowOrderHex {
		b, _ := hex.DecodeString(h)
		for _, top := range []byte{0, 0x80, 0x40, 0xc0} {
			r := append([]byte(nil), b...)
			r[31] |= top
			var rep ntor.Representative
			copy(rep.Bytes()[:], r)
			pub := rep.ToPublic().Bytes()
			low := true
			for i, v := range pub {
				if i == 0 && (v == 0 || v == 1) {
					continue
				}
				if v != 0 {
					low = false
				}
			}
			if low {
				out = append(out, r)
			}
		}
	}
	return out
}
