// C18 start-up helper: built from the tree under test, run by harness/c18 (under strace for
// the traced start, plainly for the recovery start of every crash state).
//
//	starter '<json request>'   → one JSON line on stdout
//
// {"cmd":"server","dir":D,"args":{k:v…},"seed":n}
//
//	runs transports.Get("obfs4").ServerFactory(D,args) and prints the identity it presents
//	(Args(): cert, iat-mode).  seed≠0 makes crypto/rand deterministic (fresh identities).
//
// {"cmd":"multi","starts":[{"dir":D,"args":{…}}…],"seed":n}
//
//	performs the ServerFactory calls one after the other in THIS process (several listeners /
//	in-process restarts, possibly over several directories) and prints, per call, what it
//	presents and the contents of its directory right after it.
//
// {"cmd":"tickets","dir":D,"ops":[{"op":"store","addr":A,"raw":hex}|{"op":"get","addr":A}]}
//
//	runs the ScrambleSuit ClientFactory(D) (ticket-store load), then the ops: store = the
//	packet decoder's storeTicket (hook VerifStoreTicket), get = a Dial through the public
//	API to a fake connection whose RemoteAddr is A (getTicket consumes the ticket and
//	checkpoints the store).  Prints the stored addresses after the load and after every op.
package main

import (
	"encoding/base32"
	"encoding/hex"
	"encoding/json"
	"fmt"
	"io"
	"net"
	"os"
	"os/signal"
	"path/filepath"
	"reflect"
	"sort"
	"syscall"
	"time"

	pt "gitlab.torproject.org/tpo/anti-censorship/pluggable-transports/goptlib"

	"gitlab.com/yawning/obfs4.git/common/csrand"
	"gitlab.com/yawning/obfs4.git/transports"
	"gitlab.com/yawning/obfs4.git/transports/scramblesuit"

	"verif/harness/vlib"
)

type ticketOp struct {
	Op   string `json:"op"`
	Addr string `json:"addr"`
	Raw  string `json:"raw,omitempty"`
}

type request struct {
	Cmd  string            `json:"cmd"`
	Dir  string            `json:"dir"`
	Args map[string]string `json:"args"`
	Seed uint64            `json:"seed"`
	Ops  []ticketOp        `json:"ops"`
	// Starts: cmd "multi" — ServerFactory calls performed one after the other in THIS process
	Starts []multiStart `json:"starts,omitempty"`
	// FsizeLimit, when set, makes every write(2) to a regular file fail (EFBIG) or come up
	// short beyond that many bytes per file: RLIMIT_FSIZE with SIGXFSZ ignored — the I/O-fault
	// family of the check (disk full / quota).
	FsizeLimit *uint64 `json:"fsize_limit,omitempty"`
}

type multiStart struct {
	Dir  string            `json:"dir"`
	Args map[string]string `json:"args,omitempty"`
}

type multiResult struct {
	Reply reply             `json:"reply"`
	Snap  map[string]string `json:"snap"` // the directory after the call: name → hex
}

type reply struct {
	Multi []multiResult `json:"multi,omitempty"`
	OK    bool       `json:"ok"`
	Err   string     `json:"err,omitempty"`
	Cert  string     `json:"cert,omitempty"`
	IAT   string     `json:"iat,omitempty"`
	InUse string     `json:"iat_in_use,omitempty"` // the factory's own iatMode field (read by reflection), "" if absent
	Keys  []string   `json:"keys,omitempty"`  // names of the advertised arguments, sorted
	Addrs [][]string `json:"addrs,omitempty"` // tickets: stored addresses after load, after op 1, …
}

func out(r reply) {
	b, _ := json.Marshal(r)
	fmt.Println(string(b))
	os.Exit(0)
}

type fakeAddr string

func (a fakeAddr) Network() string { return "tcp" }
func (a fakeAddr) String() string  { return string(a) }

// sinkConn swallows writes and reports EOF on read.
type sinkConn struct{ remote fakeAddr }

func (c *sinkConn) Read([]byte) (int, error)         { return 0, io.EOF }
func (c *sinkConn) Write(b []byte) (int, error)      { return len(b), nil }
func (c *sinkConn) Close() error                     { return nil }
func (c *sinkConn) LocalAddr() net.Addr              { return fakeAddr("127.0.0.1:1") }
func (c *sinkConn) RemoteAddr() net.Addr             { return c.remote }
func (c *sinkConn) SetDeadline(time.Time) error      { return nil }
func (c *sinkConn) SetReadDeadline(time.Time) error  { return nil }
func (c *sinkConn) SetWriteDeadline(time.Time) error { return nil }

// serverStart: one ServerFactory call and the identity it presents.
func serverStart(dir string, argMap map[string]string) reply {
	args := pt.Args{}
	keys := make([]string, 0, len(argMap))
	for k := range argMap {
		keys = append(keys, k)
	}
	sort.Strings(keys)
	for _, k := range keys {
		args.Add(k, argMap[k])
	}
	sf, err := transports.Get("obfs4").ServerFactory(dir, &args)
	if err != nil {
		return reply{Err: err.Error()}
	}
	a := sf.Args()
	r := reply{OK: true}
	r.Cert, _ = a.Get("cert")
	r.IAT, _ = a.Get("iat-mode")
	if v := reflect.ValueOf(sf); v.Kind() == reflect.Ptr && v.Elem().Kind() == reflect.Struct {
		if f := v.Elem().FieldByName("iatMode"); f.IsValid() && f.CanInt() {
			r.InUse = fmt.Sprint(f.Int())
		}
	}
	for k := range *a {
		r.Keys = append(r.Keys, k)
	}
	sort.Strings(r.Keys)
	return r
}

func main() {
	if len(os.Args) != 2 {
		out(reply{Err: "usage"})
	}
	var req request
	if err := json.Unmarshal([]byte(os.Args[1]), &req); err != nil {
		out(reply{Err: "bad request: " + err.Error()})
	}
	if req.Seed != 0 {
		csrand.Reader = vlib.InstallRandTape(req.Seed)
	}
	if err := transports.Init(); err != nil {
		out(reply{Err: "init: " + err.Error()})
	}
	if req.FsizeLimit != nil {
		signal.Ignore(syscall.SIGXFSZ)
		lim := syscall.Rlimit{Cur: *req.FsizeLimit, Max: *req.FsizeLimit}
		if err := syscall.Setrlimit(syscall.RLIMIT_FSIZE, &lim); err != nil {
			out(reply{Err: "setrlimit: " + err.Error()})
		}
	}
	switch req.Cmd {
	case "server":
		out(serverStart(req.Dir, req.Args))
	case "multi":
		r := reply{OK: true}
		for _, st := range req.Starts {
			res := multiResult{Reply: serverStart(st.Dir, st.Args), Snap: map[string]string{}}
			es, _ := os.ReadDir(st.Dir)
			for _, e := range es {
				if b, err := os.ReadFile(filepath.Join(st.Dir, e.Name())); err == nil && !e.IsDir() {
					res.Snap[e.Name()] = hex.EncodeToString(b)
					if len(b) == 0 {
						res.Snap[e.Name()] = "-"
					}
				}
			}
			r.Multi = append(r.Multi, res)
		}
		out(r)
	case "tickets":
		cf, err := transports.Get("scramblesuit").ClientFactory(req.Dir)
		if err != nil {
			out(reply{Err: err.Error()})
		}
		r := reply{OK: true}
		list := func() {
			a, err := scramblesuit.VerifTicketAddrs(cf)
			if err != nil {
				out(reply{Err: err.Error()})
			}
			if a == nil {
				a = []string{}
			}
			r.Addrs = append(r.Addrs, a)
		}
		list()
		for _, op := range req.Ops {
			switch op.Op {
			case "store":
				raw, err := hex.DecodeString(op.Raw)
				if err != nil {
					out(reply{Err: "bad raw"})
				}
				if err := scramblesuit.VerifStoreTicket(cf, op.Addr, raw); err != nil {
					out(reply{Err: err.Error()})
				}
			case "get":
				pw := pt.Args{}
				pw.Add("password", base32.StdEncoding.EncodeToString(make([]byte, 20)))
				ca, err := cf.ParseArgs(&pw)
				if err != nil {
					out(reply{Err: "parseargs: " + err.Error()})
				}
				dial := func(string, string) (net.Conn, error) { return &sinkConn{remote: fakeAddr(op.Addr)}, nil }
				// with a ticket the handshake is one write and Dial succeeds; without one the
				// UniformDH handshake hits EOF — either way the store has been consulted
				_, _ = cf.Dial("tcp", op.Addr, dial, ca)
			default:
				out(reply{Err: "bad op"})
			}
			list()
		}
		out(r)
	}
	out(reply{Err: "bad cmd"})
}
