// C18 — a bridge keeps its identity across restarts and crashes; bridge lines round-trip.
//
// Tie (C): the start-up helper (harness/c18/starter, built from the tree under test) is run
// under strace; the file-system mutating system calls of the start are mapped to the ops of the
// Lean model (lean/O4/Model/StateFile.lean, driver `statefs`) and compared with the op list the
// model's `start` predicts; the model enumerates every crash state of the traced op list (every
// prefix, every torn-write length), each one is materialised in a temporary directory and the
// real start-up is run on it; the outcome is compared with the model's recovery.  Bridge-line
// round trips (`Args()` → `ClientFactory.ParseArgs`, cert and legacy form) are compared with
// the model's cert encoder/decoder.
//
// Oracle (S), from the property text: once an identity has been written to the state
// directory, a start from ANY crash state presents that identity (an error or a different
// identity is a violation, reported with the crash point: which system call, how many bytes of
// the write survived); the ticket store never makes the ScrambleSuit ClientFactory fail; every
// restart presents the identity first persisted; a parsed bridge line yields exactly the node ID
// and public key of the bridge.
package main

import (
	"bytes"
	"encoding/base32"
	"encoding/base64"
	"encoding/hex"
	"encoding/json"
	"fmt"
	"os"
	"path/filepath"
	"reflect"
	"sort"
	"strconv"
	"strings"
	"sync"
	"time"

	pt "gitlab.torproject.org/tpo/anti-censorship/pluggable-transports/goptlib"

	"gitlab.com/yawning/obfs4.git/common/ntor"
	"gitlab.com/yawning/obfs4.git/transports"

	"verif/harness/vlib"
)

// modelFixed selects the start-up model the implementation is compared with: 1 = the repaired
// code (write <name>.tmp, fsync, close, rename), 0 = the code before the repair (os.WriteFile in
// place; kept in the Lean model for the counterexample theorem).
const modelFixed = 1

const (
	stateFile  = "obfs4_state.json"
	bridgeFile = "obfs4_bridgeline.txt"
	ticketFile = "scramblesuit_tickets.json"
)

// ---------------------------------------------------------------------------------------------
// scenarios and replay cases

type step struct {
	Args map[string]string `json:"args,omitempty"` // ServerFactory arguments
	Seed uint64            `json:"seed,omitempty"` // crypto/rand seed of the helper (fresh identities)
	TOps []ticketOp        `json:"tops,omitempty"` // ticket scenario: store / get operations
}

type scenario struct {
	Kind  string `json:"kind"` // "server" | "tickets"
	Steps []step `json:"steps"`
}

type replayCase struct {
	Type     string    `json:"type"` // crash | sequence | roundtrip | prefix
	Scenario *scenario `json:"scenario,omitempty"`
	Step     int       `json:"step"`
	K        int       `json:"k"` // system calls of the start that completed before the kill
	J        int       `json:"j"` // bytes of the write in flight that reached the file (0: killed between calls)
	Syscall  string    `json:"syscall,omitempty"`
	Note     string    `json:"note,omitempty"`
	// roundtrip
	NodeID string `json:"node_id,omitempty"`
	Priv   string `json:"priv,omitempty"`
	IAT    string `json:"iat,omitempty"`
	Text   string `json:"text,omitempty"` // malformed cert text
	// prefix
	File    string `json:"file,omitempty"`
	Content string `json:"content,omitempty"` // hex
	Len     int    `json:"len,omitempty"`
	// multi: a history of starts, several of them inside one helper process, over two directories
	Multi []mstep `json:"multi,omitempty"`
	// fault: a start / ticket checkpoint with every file write limited to Limit bytes
	Fault string            `json:"fault,omitempty"` // restart | first | tickets
	Args  map[string]string `json:"args,omitempty"`
	Limit uint64            `json:"limit,omitempty"`
	Seed  uint64            `json:"fault_seed,omitempty"`
}

// ---------------------------------------------------------------------------------------------
// oracle-side notions (independent of the model)

// stateRec is the identity record the property speaks about, as the oracle reads it from a
// state file: complete JSON object with the three secret fields present.
type stateRec struct {
	NodeID string `json:"node-id"`
	Priv   string `json:"private-key"`
	Pub    string `json:"public-key"`
	Seed   string `json:"drbg-seed"`
	IAT    int    `json:"iat-mode"`
}

func completeRec(content []byte) *stateRec {
	if len(content) == 0 || !json.Valid(content) {
		return nil
	}
	var r stateRec
	if json.Unmarshal(content, &r) != nil || r.NodeID == "" || r.Priv == "" || r.Seed == "" {
		return nil
	}
	return &r
}

// pubHex: Curve25519 public key of a private key (hex), "" if the text is not a private key.
func pubHex(privHex string) string {
	kp, err := ntor.KeypairFromHex(privHex)
	if err != nil {
		return ""
	}
	return kp.Public().Hex()
}

// oracleCert: the bridge line's cert as the property states it — base64(nodeID | publicKey)
// without the trailing padding.
func oracleCert(nodeIDHex, privHex string) string {
	id, err := hex.DecodeString(nodeIDHex)
	if err != nil || len(id) != 20 {
		return ""
	}
	pub, err := hex.DecodeString(pubHex(privHex))
	if err != nil || len(pub) != 32 {
		return ""
	}
	return strings.TrimSuffix(base64.StdEncoding.EncodeToString(append(id, pub...)), "==")
}

type presented struct {
	Cert string
	IAT  string
}

func (r *stateRec) presented() presented {
	return presented{oracleCert(r.NodeID, r.Priv), strconv.Itoa(r.IAT)}
}

// ---------------------------------------------------------------------------------------------
// directory helpers

func readDir(dir string) map[string][]byte {
	m := map[string][]byte{}
	es, _ := os.ReadDir(dir)
	for _, e := range es {
		if e.IsDir() {
			continue
		}
		b, err := os.ReadFile(filepath.Join(dir, e.Name()))
		if err == nil {
			m[e.Name()] = b
		}
	}
	return m
}

func writeDir(dir string, files map[string][]byte) error {
	for n, c := range files {
		if err := os.WriteFile(filepath.Join(dir, n), c, 0o600); err != nil {
			return err
		}
	}
	return nil
}

func dirText(files map[string][]byte) string {
	if len(files) == 0 {
		return "empty"
	}
	names := make([]string, 0, len(files))
	for n := range files {
		names = append(names, n)
	}
	sort.Strings(names)
	parts := make([]string, 0, len(names))
	for _, n := range names {
		parts = append(parts, n+"="+vlib.Hex(files[n]))
	}
	return strings.Join(parts, ",")
}

func parseDirText(s string) (map[string][]byte, error) {
	m := map[string][]byte{}
	if s == "empty" {
		return m, nil
	}
	for _, p := range strings.Split(s, ",") {
		kv := strings.SplitN(p, "=", 2)
		if len(kv) != 2 {
			return nil, fmt.Errorf("bad dir text %q", p)
		}
		m[kv[0]] = vlib.UnHex(kv[1])
	}
	return m, nil
}

// canonOps: the traced ops as text.
func canonOps(ops []sysOp) string {
	parts := make([]string, 0, len(ops))
	for _, o := range ops {
		parts = append(parts, o.canon())
	}
	return strings.Join(parts, " ")
}

func hexName(n string) string { return vlib.Hex([]byte(n)) }

func optHex(m map[string]string, k string) string {
	v, ok := m[k]
	if !ok {
		return "."
	}
	return vlib.Hex([]byte(v))
}

// ---------------------------------------------------------------------------------------------

type checker struct {
	r       *vlib.Run
	d       *vlib.Driver
	scratch string
	allTorn bool
	workers int
	// the discipline the traced starts were seen to follow (evidence)
	disc map[string]int
	// the comment block the code puts above the bridge line (read from a file it wrote)
	bridgePrefix []byte
}

func (c *checker) mkdir() string {
	d, err := os.MkdirTemp(c.scratch, "sd-")
	if err != nil {
		panic(err)
	}
	return d
}

func (c *checker) call(format string, a ...interface{}) string {
	rep := c.d.Call(format, a...)
	if rep == "bad-op" || strings.HasPrefix(rep, "driver-error") {
		c.r.Violate("driver-rejected-op", "correspondence", fmt.Sprintf("driver replied %q to %.200s", rep, fmt.Sprintf(format, a...)), replayCase{Type: "driver"})
	}
	return rep
}

// loadModel puts a directory, the key table and a traced op list into the driver.
func (c *checker) loadModel(files map[string][]byte, privs []string, ops []sysOp) {
	c.call("fs.reset %d %d %s", modelFixed, time.Now().Unix(), vlib.Hex(c.bridgePrefix))
	names := make([]string, 0, len(files))
	for n := range files {
		names = append(names, n)
	}
	sort.Strings(names)
	for _, n := range names {
		c.call("fs.file %s %s", hexName(n), vlib.Hex(files[n]))
	}
	seen := map[string]bool{}
	for _, p := range privs {
		pub := pubHex(p)
		if pub == "" || seen[strings.ToLower(p)] {
			continue
		}
		seen[strings.ToLower(p)] = true
		c.call("fs.pub %s %s", strings.ToLower(p), pub)
	}
	for _, o := range ops {
		switch o.Kind {
		case "W":
			c.call("fs.op W %s %s", hexName(o.Name), vlib.Hex(o.Data))
		case "R":
			c.call("fs.op R %s %s", hexName(o.Name), hexName(o.Name2))
		default:
			c.call("fs.op %s %s", o.Kind, hexName(o.Name))
		}
	}
}

func tornLengths(l int, all bool, rng *vlib.Rng) []int {
	if l <= 1 {
		return nil
	}
	if all || l <= 24 {
		js := make([]int, 0, l-1)
		for j := 1; j < l; j++ {
			js = append(js, j)
		}
		return js
	}
	set := map[int]bool{}
	for _, j := range []int{1, 2, 3, 7, l / 4, l / 2, 3 * l / 4, l - 3, l - 2, l - 1} {
		if j >= 1 && j < l {
			set[j] = true
		}
	}
	for i := 0; i < 6; i++ {
		set[rng.Range(1, l-1)] = true
	}
	js := make([]int, 0, len(set))
	for j := range set {
		js = append(js, j)
	}
	sort.Ints(js)
	return js
}

type crashPoint struct {
	k, j    int
	files   map[string][]byte
	class   string // model: absent | unparsable | valid
	next    string // model: ok <cert> <iat> | err | fresh
	tickets string // model: ok addrs | err
	rep     reply  // implementation
	err     error
}

func (c *checker) crashPointFromModel(k, j int) (*crashPoint, bool) {
	rep := c.call("fs.crash %d %d", k, j)
	if rep == "no-such-crash-point" {
		return nil, false
	}
	parts := strings.Split(rep, " ; ")
	if len(parts) != 4 {
		c.r.Violate("driver-rejected-op", "correspondence", "fs.crash reply: "+rep, replayCase{Type: "driver"})
		return nil, false
	}
	files, err := parseDirText(parts[0])
	if err != nil {
		panic(err)
	}
	return &crashPoint{k: k, j: j, files: files, class: parts[1], next: parts[2], tickets: strings.TrimPrefix(parts[3], "tickets ")}, true
}

// runAll materialises every crash point and runs the real start-up on it.
func (c *checker) runAll(cps []*crashPoint, req request) {
	var wg sync.WaitGroup
	ch := make(chan *crashPoint)
	for w := 0; w < c.workers; w++ {
		wg.Add(1)
		go func() {
			defer wg.Done()
			for cp := range ch {
				dir := c.mkdir()
				if err := writeDir(dir, cp.files); err != nil {
					cp.err = err
				} else {
					q := req
					q.Dir = dir
					cp.rep, _, cp.err = runHelper(q, false, c.scratch)
				}
				os.RemoveAll(dir)
			}
		}()
	}
	for _, cp := range cps {
		ch <- cp
	}
	close(ch)
	wg.Wait()
}

func implNext(rep reply) string {
	if !rep.OK {
		return "err"
	}
	return "ok " + vlib.Hex([]byte(rep.Cert)) + " " + rep.IAT
}

// ---------------------------------------------------------------------------------------------
// server scenarios

// serverScenario runs the starts of sc one after the other in one state directory; for every
// start (or only `only.Step`) it traces the system calls, compares them with the model and
// enumerates the crash states.  only != nil restricts the crash enumeration to one point.
func (c *checker) serverScenario(sc scenario, only *replayCase, rng *vlib.Rng) {
	dir := c.mkdir()
	defer os.RemoveAll(dir)
	var cur *presented // oracle: what the directory's persisted identity presents
	for si, st := range sc.Steps {
		before := readDir(dir)
		req := request{Cmd: "server", Dir: dir, Args: st.Args, Seed: st.Seed}
		rep, tr, err := runHelper(req, true, c.scratch)
		if err != nil {
			c.r.Violate("trace-unavailable", "correspondence", err.Error(), replayCase{Type: "sequence", Scenario: &sc, Step: si})
			return
		}
		after := readDir(dir)
		rcase := replayCase{Type: "sequence", Scenario: &sc, Step: si}
		if len(tr.Unmodelled) > 0 {
			c.r.Violate("unmodelled-syscall", "correspondence",
				fmt.Sprintf("start %d touches the state directory with a system call the model has no op for: %s", si, tr.Unmodelled[0]), rcase)
		}

		// ---- S: restart oracle
		cur = c.restartOracle(cur, st, rep, fmt.Sprintf("start %d", si), rcase)
		explicit := st.Args["node-id"] != "" && st.Args["private-key"] != "" && st.Args["drbg-seed"] != ""
		_ = explicit
		// ---- S: what this start presents = what it leaves behind = what the next start presents
		if rep.OK {
			trunc := scenario{Kind: sc.Kind, Steps: append([]step(nil), sc.Steps[:si+1]...)}
			c.consistency(replayCase{Type: "sequence", Scenario: &trunc, Step: si}, fmt.Sprintf("start %d (args %v, %s)", si, st.Args, map[bool]string{true: "first start on an empty directory", false: "restart"}[si == 0]), si == 0, st, rep, after)
		}
		// ---- S: a refused start must not change what later starts present
		if !rep.OK && cur != nil {
			trunc := scenario{Kind: sc.Kind, Steps: append([]step(nil), sc.Steps[:si+1]...)}
			c.refusedProbe(replayCase{Type: "sequence", Scenario: &trunc, Step: si}, fmt.Sprintf("start %d", si), st, rep, before, after, *cur)
		}
		if rep.OK && !reflect.DeepEqual(rep.Keys, []string{"cert", "iat-mode"}) {
			c.r.Violate("advertised-arguments-changed", "impl-oracle", fmt.Sprintf("Args() has keys %v", rep.Keys), rcase)
		}

		// ---- C: model of the start vs the traced system calls
		privs := []string{}
		if r := completeRec(before[stateFile]); r != nil {
			privs = append(privs, r.Priv)
		}
		fresh := stateRec{}
		if r := completeRec(after[stateFile]); r != nil {
			privs = append(privs, r.Priv)
			if _, had := before[stateFile]; !had {
				fresh = *r
			}
		}
		if p, ok := st.Args["private-key"]; ok {
			privs = append(privs, p)
		}
		c.loadModel(before, privs, tr.Ops)
		mrep := c.call("fs.start %s %s %s %s %s %s %s %s", optHex(st.Args, "node-id"), optHex(st.Args, "private-key"),
			optHex(st.Args, "drbg-seed"), optHex(st.Args, "iat-mode"),
			vlib.Hex([]byte(fresh.NodeID)), vlib.Hex([]byte(fresh.Priv)), vlib.Hex([]byte(fresh.Pub)), vlib.Hex([]byte(fresh.Seed)))
		mparts := strings.SplitN(mrep, " ; ", 2)
		mops := ""
		if len(mparts) == 2 {
			mops = strings.TrimSpace(mparts[1])
		}
		argKey := fmt.Sprintf("%v", st.Args)
		c.r.Case(fmt.Sprintf("start|%s|%v|%s", dirText(before), argKey, canonOps(tr.Ops)), si > 0)
		c.r.Validated(1)
		c.r.Count("start_args", argClass(st.Args))
		c.r.Count("start_outcome", map[bool]string{true: "ok", false: "error"}[rep.OK])
		c.r.Sample(4, map[string]interface{}{"start": si, "args": st.Args, "impl": implNext(rep), "model": mparts[0], "syscalls": opTexts(tr.Ops)})
		if mparts[0] != implNext(rep) {
			c.r.Violate("start-outcome-differs-from-model", "correspondence",
				fmt.Sprintf("start %d args %v: implementation %s, model %s", si, st.Args, implNext(rep), mparts[0]), rcase)
		}
		if mops != canonOps(tr.Ops) {
			c.r.Violate("start-syscalls-differ-from-model", "correspondence",
				fmt.Sprintf("start %d args %v: traced file-system calls [%s] but the model of the start-up performs [%s]", si, st.Args, shortOps(canonOps(tr.Ops)), shortOps(mops)), rcase)
		}
		if fin := c.call("fs.final"); fin != dirText(after) {
			c.r.Violate("fs-model-final-state-differs", "correspondence",
				fmt.Sprintf("start %d: directory after the start is {%s} but the file-system model run over the traced calls gives {%s}", si, shortOps(dirText(after)), shortOps(fin)), rcase)
		}
		cl := c.call("fs.classify")
		c.disc[cl]++
		c.r.Count("discipline", cl)

		// ---- crash states of this start
		if only == nil || only.Step == si {
			c.crashEnum(sc, si, before, after, tr.Ops, only, rng)
		}
		if only != nil && only.Step == si {
			return
		}
	}
}

// validSeed: drbg.SeedFromHex accepts any hex text of at least 24 bytes (and truncates it).
// restartOracle: the restart clause for one start, given what the directory's persisted identity
// presents (cur, nil if nothing is persisted yet); returns the new value of cur.
func (c *checker) restartOracle(cur *presented, st step, rep reply, label string, rcase replayCase) *presented {
	explicit := st.Args["node-id"] != "" && st.Args["private-key"] != "" && st.Args["drbg-seed"] != ""
	iatArg, hasIAT := st.Args["iat-mode"]
	iatValid := !hasIAT || iatArg == "0" || iatArg == "1" || iatArg == "2"
	argKeysOnlyIAT := true
	for k := range st.Args {
		if k != "iat-mode" {
			argKeysOnlyIAT = false
		}
	}
	switch {
	case explicit && iatValid && oracleCert(st.Args["node-id"], st.Args["private-key"]) != "" && validSeed(st.Args["drbg-seed"]):
		want := presented{oracleCert(st.Args["node-id"], st.Args["private-key"]), "0"}
		if hasIAT {
			want.IAT = iatArg
		}
		if !rep.OK || rep.Cert != want.Cert || rep.IAT != want.IAT {
			c.r.Violate("explicit-identity-not-presented", "impl-oracle",
				fmt.Sprintf("%s with explicit node-id/private-key/drbg-seed presents %s, expected cert=%s iat-mode=%s", label, implNext(rep), want.Cert, want.IAT), rcase)
		}
		if rep.OK {
			cur = &presented{rep.Cert, rep.IAT}
		}
	case argKeysOnlyIAT && iatValid && cur != nil:
		want := *cur
		if hasIAT {
			want.IAT = iatArg
			c.r.Count("iat_override_transition", cur.IAT+"->"+iatArg)
		}
		if !rep.OK {
			c.r.Violate("restart-fails-with-persisted-identity", "impl-oracle",
				fmt.Sprintf("%s (args %v) from a directory holding a persisted identity fails: %s", label, st.Args, rep.Err), rcase)
		} else if rep.Cert != want.Cert {
			c.r.Violate("restart-presents-different-identity", "impl-oracle",
				fmt.Sprintf("%s presents cert=%s, the persisted identity is cert=%s", label, rep.Cert, want.Cert), rcase)
		} else if rep.IAT != want.IAT {
			c.r.Violate("iat-mode-not-kept", "impl-oracle",
				fmt.Sprintf("%s (args %v; the directory held iat-mode=%s) presents iat-mode=%s, expected %s (the override if given, else the persisted value)", label, st.Args, cur.IAT, rep.IAT, want.IAT), rcase)
		}
		if rep.OK {
			cur = &presented{rep.Cert, rep.IAT}
		}
	case argKeysOnlyIAT && iatValid && cur == nil:
		if rep.OK {
			cur = &presented{rep.Cert, rep.IAT}
		}
	default:
		// invalid / partial arguments: the property says nothing about the outcome, but a
		// persisted identity must survive (checked by the following starts)
		if rep.OK && cur != nil && !explicit {
			cur = &presented{cur.Cert, rep.IAT}
		}
	}
	return cur
}

// consistency: a successful start must (a) honour a valid iat-mode argument, (b) run with the
// mode it advertises, (c) leave a state file that describes exactly the advertised identity,
// (d) leave a bridge-line file with exactly the advertised client arguments, and (e) be followed
// by a plain start (probed on a copy of the directory) that presents the same cert and iat-mode.
func (c *checker) consistency(rc replayCase, who string, first bool, st step, rep reply, after map[string][]byte) {
	rc.Note = fmt.Sprintf("%s presents cert=%s iat-mode=%s; compared with the state file / bridge-line file it leaves and with the next start without arguments", who, rep.Cert, rep.IAT)
	if v, ok := st.Args["iat-mode"]; ok && (v == "0" || v == "1" || v == "2") && rep.IAT != v {
		c.r.Violate("iat-override-not-applied", "impl-oracle",
			fmt.Sprintf("%s advertises iat-mode=%s although iat-mode=%s was requested", who, rep.IAT, v), rc)
	}
	if rep.InUse != "" && rep.InUse != rep.IAT {
		c.r.Violate("iat-mode-in-use-differs-from-advertised", "impl-oracle",
			fmt.Sprintf("%s advertises iat-mode=%s but runs with iat mode %s", who, rep.IAT, rep.InUse), rc)
	}
	if r := completeRec(after[stateFile]); r == nil {
		c.r.Violate("presented-identity-not-persisted", "impl-oracle",
			fmt.Sprintf("%s succeeds but leaves no complete state file (%d bytes)", who, len(after[stateFile])), rc)
	} else if p := r.presented(); p.Cert != rep.Cert || p.IAT != rep.IAT {
		c.r.Violate("presented-differs-from-persisted-state", "impl-oracle",
			fmt.Sprintf("%s presents cert=%s iat-mode=%s but the state file it leaves says cert=%s iat-mode=%s", who, rep.Cert, rep.IAT, p.Cert, p.IAT), rc)
	}
	line := ""
	for _, ln := range strings.Split(string(after[bridgeFile]), "\n") {
		if strings.HasPrefix(ln, "Bridge ") {
			line = ln
		}
	}
	if want := fmt.Sprintf("cert=%s iat-mode=%s", rep.Cert, rep.IAT); !strings.HasSuffix(line, " "+want) {
		c.r.Violate("bridge-line-file-differs-from-presented", "impl-oracle",
			fmt.Sprintf("%s presents %s but the bridge-line file it leaves reads %q", who, want, line), rc)
	}
	dir := c.mkdir()
	defer os.RemoveAll(dir)
	if err := writeDir(dir, after); err != nil {
		panic(err)
	}
	probe, _, err := runHelper(request{Cmd: "server", Dir: dir}, false, c.scratch)
	if err != nil {
		c.r.Violate("helper-failed", "correspondence", err.Error(), rc)
		return
	}
	c.r.Case(fmt.Sprintf("consistency|%s|%v", dirText(after), st.Args), true)
	c.r.Validated(1)
	c.r.Count("presented_vs_next", map[bool]string{true: "first-start", false: "restart"}[first]+":"+argClass(st.Args))
	if !probe.OK || probe.Cert != rep.Cert || probe.IAT != rep.IAT {
		c.r.Violate("next-start-presents-different-arguments", "impl-oracle",
			fmt.Sprintf("%s presents cert=%s iat-mode=%s but the next start without arguments presents %s", who, rep.Cert, rep.IAT,
				map[bool]string{true: "cert=" + probe.Cert + " iat-mode=" + probe.IAT, false: "an error: " + probe.Err}[probe.OK]), rc)
	}
}

func validSeed(s string) bool {
	b, err := hex.DecodeString(s)
	return err == nil && len(b) >= 24
}

// refusedProbe: start `si` was refused (ServerFactory returned an error) although the directory
// holds a persisted identity.  The property: every later start presents the persisted identity —
// so a plain start from the directory as the refused start left it (probed on a copy) must
// succeed and present exactly what was presented before, IAT mode included; and the persisted
// record itself must be untouched.
func (c *checker) refusedProbe(rc replayCase, label string, st step, rep reply, before, after map[string][]byte, cur presented) {
	rc.Note = fmt.Sprintf("%s (args %v) is refused (%s); then a start without arguments from the directory it left", label, st.Args, rep.Err)
	dir := c.mkdir()
	defer os.RemoveAll(dir)
	if err := writeDir(dir, after); err != nil {
		panic(err)
	}
	probe, _, err := runHelper(request{Cmd: "server", Dir: dir}, false, c.scratch)
	if err != nil {
		c.r.Violate("helper-failed", "correspondence", err.Error(), rc)
		return
	}
	c.r.Case(fmt.Sprintf("refused|%s|%v", dirText(before), st.Args), true)
	c.r.Validated(1)
	c.r.Count("refused_start", argClass(st.Args))
	c.r.Sample(12, map[string]interface{}{"refused_start": label, "args": st.Args, "error": rep.Err, "next_plain_start": implNext(probe), "persisted": cur})
	bRec, aRec := completeRec(before[stateFile]), completeRec(after[stateFile])
	recChanged := bRec != nil && (aRec == nil || *aRec != *bRec)
	switch {
	case !probe.OK:
		c.r.Violate("refused-start-loses-identity", "impl-oracle",
			fmt.Sprintf("%s with arguments %v is refused (%s) — but it has changed the state directory: the next start without arguments fails (%s); the persisted identity cert=%s iat-mode=%s is lost [state file before: %s | after: %s]",
				label, st.Args, rep.Err, probe.Err, cur.Cert, cur.IAT, before[stateFile], after[stateFile]), rc)
	case probe.Cert != cur.Cert:
		c.r.Violate("refused-start-replaces-identity", "impl-oracle",
			fmt.Sprintf("%s with arguments %v is refused (%s) — but the next start without arguments presents cert=%s, the persisted identity was cert=%s", label, st.Args, rep.Err, probe.Cert, cur.Cert), rc)
	case probe.IAT != cur.IAT:
		c.r.Violate("refused-start-changes-iat-mode", "impl-oracle",
			fmt.Sprintf("%s with arguments %v is refused (%s) — but the next start without arguments presents iat-mode=%s, the persisted mode was %s", label, st.Args, rep.Err, probe.IAT, cur.IAT), rc)
	case recChanged:
		c.r.Violate("refused-start-rewrites-state-file", "impl-oracle",
			fmt.Sprintf("%s with arguments %v is refused (%s) — but the persisted record changed: before %s | after %s", label, st.Args, rep.Err, before[stateFile], after[stateFile]), rc)
	}
}

func argClass(a map[string]string) string {
	ks := make([]string, 0, len(a))
	for k, v := range a {
		if k == "iat-mode" {
			ks = append(ks, "iat="+v)
		} else {
			ks = append(ks, k)
		}
	}
	sort.Strings(ks)
	if len(ks) == 0 {
		return "none"
	}
	return strings.Join(ks, "+")
}

func opTexts(ops []sysOp) []string {
	t := make([]string, len(ops))
	for i, o := range ops {
		t[i] = o.Text
	}
	return t
}

func shortOps(s string) string {
	parts := strings.Split(s, " ")
	for i, p := range parts {
		if len(p) > 70 {
			parts[i] = p[:60] + "…(" + strconv.Itoa(len(p)) + ")"
		}
	}
	s = strings.Join(parts, " ")
	if len(s) > 900 {
		s = s[:900] + "…"
	}
	return s
}

// crashEnum: every crash state of one traced start (the model is already loaded with it).
func (c *checker) crashEnum(sc scenario, si int, before, after map[string][]byte, ops []sysOp, only *replayCase, rng *vlib.Rng) {
	var cps []*crashPoint
	if only != nil && only.Type == "crash" {
		if cp, ok := c.crashPointFromModel(only.K, only.J); ok {
			// the oracle needs the completed-prefix states up to K as well
			for k := 0; k <= only.K; k++ {
				if k == only.K && only.J == 0 {
					break
				}
				if p, ok := c.crashPointFromModel(k, 0); ok {
					cps = append(cps, p)
				}
			}
			cps = append(cps, cp)
		} else {
			c.r.Notes["replay"] = fmt.Sprintf("crash point (%d,%d) does not exist in the current trace of start %d (%d calls)", only.K, only.J, si, len(ops))
			c.r.Count("replay", "stale-crash-point")
			return
		}
	} else {
		for k := 0; k <= len(ops); k++ {
			if cp, ok := c.crashPointFromModel(k, 0); ok {
				cps = append(cps, cp)
			}
			if k < len(ops) && ops[k].Kind == "W" {
				for _, j := range tornLengths(len(ops[k].Data), c.allTorn, rng) {
					if cp, ok := c.crashPointFromModel(k, j); ok {
						cps = append(cps, cp)
					}
				}
			}
		}
	}
	c.runAll(cps, request{Cmd: "server"})

	// the oracle's own bookkeeping: which identity records had been completely written to the
	// state file at or before each completed call
	upcoming := completeRec(after[stateFile])
	var persisted []*stateRec // distinct records in order of appearance
	for _, cp := range cps {
		if cp.j == 0 {
			if r := completeRec(cp.files[stateFile]); r != nil {
				if len(persisted) == 0 || *persisted[len(persisted)-1] != *r {
					persisted = append(persisted, r)
				}
			}
		}
		what := "killed after call " + strconv.Itoa(cp.k) + " of " + strconv.Itoa(len(ops))
		sys := ""
		if cp.k < len(ops) {
			sys = ops[cp.k].Text
		}
		if cp.j > 0 {
			what = fmt.Sprintf("killed during call %d (%s) after %d of %d bytes reached the file", cp.k, ops[cp.k].Kind+":"+ops[cp.k].Name, cp.j, len(ops[cp.k].Data))
		} else if cp.k > 0 {
			what += " (last completed: " + ops[cp.k-1].Kind + ":" + ops[cp.k-1].Name + ")"
		}
		rc := replayCase{Type: "crash", Scenario: &sc, Step: si, K: cp.k, J: cp.j, Syscall: sys, Note: what}
		if cp.err != nil {
			c.r.Violate("helper-failed", "correspondence", cp.err.Error(), rc)
			continue
		}
		impl := implNext(cp.rep)
		nontrivial := cp.k > 0 && cp.k < len(ops)
		c.r.Case(fmt.Sprintf("crash|%s", dirText(cp.files)), nontrivial)
		c.r.Validated(1)
		c.r.Count("crash_state_file", cp.class)
		c.r.Count("crash_kind", map[bool]string{true: "torn-write", false: "between-calls"}[cp.j > 0])
		if cp.k < len(ops) {
			c.r.Count("crash_before_op", ops[cp.k].Kind+":"+ops[cp.k].Name)
		}
		if cp.j > 0 || (cp.k > 0 && cp.k < len(ops)) {
			c.r.Sample(8, map[string]interface{}{"crash": what, "state_file": cp.class, "model_next_start": cp.next, "impl_next_start": impl})
		}

		// S: the property itself
		if len(persisted) > 0 {
			allowed := map[presented]bool{}
			for _, r := range persisted {
				allowed[r.presented()] = true
			}
			if upcoming != nil {
				allowed[upcoming.presented()] = true
			}
			switch {
			case !cp.rep.OK:
				c.r.Violate("identity-lost-after-crash", "impl-oracle",
					fmt.Sprintf("start %d %s: the persisted identity (cert=%s) is gone — the next start fails: %s [state file: %d bytes]",
						si, what, persisted[len(persisted)-1].presented().Cert, cp.rep.Err, len(cp.files[stateFile])), rc)
			case !allowed[presented{cp.rep.Cert, cp.rep.IAT}]:
				sig := "identity-replaced-after-crash"
				for a := range allowed {
					if a.Cert == cp.rep.Cert {
						sig = "iat-mode-lost-after-crash"
					}
				}
				c.r.Violate(sig, "impl-oracle",
					fmt.Sprintf("start %d %s: the next start presents cert=%s iat-mode=%s, the persisted identity was cert=%s iat-mode=%s",
						si, what, cp.rep.Cert, cp.rep.IAT, persisted[len(persisted)-1].presented().Cert, persisted[len(persisted)-1].presented().IAT), rc)
			}
		}

		// C: the model's recovery
		switch {
		case cp.next == "fresh":
			known := false
			for _, r := range persisted {
				if r.presented().Cert == cp.rep.Cert {
					known = true
				}
			}
			if !cp.rep.OK || known {
				c.r.Violate("recovery-differs-from-model", "correspondence",
					fmt.Sprintf("start %d %s: model: no state file, a fresh identity is generated; implementation: %s", si, what, impl), rc)
			}
		case cp.next != impl:
			c.r.Violate("recovery-differs-from-model", "correspondence",
				fmt.Sprintf("start %d %s: model recovery %s (state file %s), implementation %s", si, what, cp.next, cp.class, impl), rc)
		}
	}
}

// ---------------------------------------------------------------------------------------------
// ticket scenarios

type ticketJSON struct {
	KeyTicket string `json:"key-ticket"`
	IssuedAt  int64  `json:"issuedAt"`
}

func (c *checker) ticketScenario(sc scenario, only *replayCase, rng *vlib.Rng) {
	dir := c.mkdir()
	defer os.RemoveAll(dir)
	for si, st := range sc.Steps {
		before := readDir(dir)
		req := request{Cmd: "tickets", Dir: dir, Ops: st.TOps, Seed: st.Seed}
		rep, tr, err := runHelper(req, true, c.scratch)
		rcase := replayCase{Type: "sequence", Scenario: &sc, Step: si}
		if err != nil {
			c.r.Violate("trace-unavailable", "correspondence", err.Error(), rcase)
			return
		}
		after := readDir(dir)
		if len(tr.Unmodelled) > 0 {
			c.r.Violate("unmodelled-syscall", "correspondence",
				fmt.Sprintf("ticket step %d touches the state directory with a system call the model has no op for: %s", si, tr.Unmodelled[0]), rcase)
		}
		if !rep.OK {
			c.r.Violate("ticket-store-blocks-startup", "impl-oracle",
				fmt.Sprintf("ticket step %d: ClientFactory fails on a directory written by complete runs: %s", si, rep.Err), rcase)
			return
		}
		// issuedAt of the tickets stored in this step: read from the data of the checkpoint write
		// of that very operation (the i-th checkpointing operation ↔ the i-th write)
		var writes [][]byte
		for _, o := range tr.Ops {
			if o.Kind == "W" {
				writes = append(writes, o.Data)
			}
		}
		issuedOf := make([]int64, len(st.TOps))
		wi := 0
		for i, o := range st.TOps {
			checkpoints := false
			switch o.Op {
			case "store":
				checkpoints = len(o.Raw) == 288
			case "get":
				for _, a := range rep.Addrs[i] {
					if a == o.Addr {
						checkpoints = true
					}
				}
			}
			if !checkpoints {
				continue
			}
			if wi < len(writes) {
				m := map[string]*ticketJSON{}
				if json.Unmarshal(writes[wi], &m) == nil && m[o.Addr] != nil {
					issuedOf[i] = m[o.Addr].IssuedAt
				}
			}
			wi++
		}
		c.loadModel(before, nil, tr.Ops)
		// the model's load of the directory, then its run of the ops
		first := c.call("fs.crash 0 0")
		fparts := strings.Split(first, " ; ")
		mload := strings.TrimPrefix(fparts[len(fparts)-1], "tickets ")
		iload := "ok " + addrsText(rep.Addrs[0])
		if mload != iload {
			c.r.Violate("ticket-load-differs-from-model", "correspondence", fmt.Sprintf("ticket step %d: load gives %s, model %s", si, iload, mload), rcase)
		}
		store := "empty"
		if b, ok := before[ticketFile]; ok {
			m := map[string]*ticketJSON{}
			if json.Unmarshal(b, &m) == nil {
				store = storeText(m, time.Now().Unix())
			}
		}
		var tops []string
		for i, o := range st.TOps {
			switch o.Op {
			case "store":
				raw, _ := hex.DecodeString(o.Raw)
				if len(raw) != 144 {
					continue // storeTicket ignores it silently
				}
				tops = append(tops, fmt.Sprintf("s:%s:%s:%s", vlib.Hex([]byte(o.Addr)), vlib.Hex([]byte(base32.StdEncoding.EncodeToString(raw))),
					vlib.Hex([]byte(strconv.FormatInt(issuedOf[i], 10)))))
			case "get":
				tops = append(tops, "t:"+vlib.Hex([]byte(o.Addr)))
			}
		}
		topsText := "none"
		if len(tops) > 0 {
			topsText = strings.Join(tops, ",")
		}
		mrun := c.call("tk.run %s %s", store, topsText)
		mparts := strings.SplitN(mrun, " ; ", 2)
		c.r.Case(fmt.Sprintf("tickets|%s|%s", dirText(before), canonOps(tr.Ops)), si > 0 || len(st.TOps) > 1)
		c.r.Validated(1)
		c.r.Count("ticket_ops", strconv.Itoa(len(st.TOps)))
		c.r.Sample(6, map[string]interface{}{"ticket_step": si, "ops": len(st.TOps), "addrs": rep.Addrs, "syscalls": opTexts(tr.Ops)})
		if strings.TrimSpace(mparts[0]) != canonOps(tr.Ops) {
			c.r.Violate("ticket-syscalls-differ-from-model", "correspondence",
				fmt.Sprintf("ticket step %d: traced calls [%s], model [%s]", si, shortOps(canonOps(tr.Ops)), shortOps(mparts[0])), rcase)
		}
		if fin := c.call("fs.final"); fin != dirText(after) {
			c.r.Violate("fs-model-final-state-differs", "correspondence",
				fmt.Sprintf("ticket step %d: directory {%s}, file-system model {%s}", si, shortOps(dirText(after)), shortOps(fin)), rcase)
		}
		cl := c.call("fs.classify")
		c.disc[cl]++
		c.r.Count("discipline", cl)

		if only != nil && only.Step != si {
			continue
		}
		// crash states
		var cps []*crashPoint
		if only != nil && only.Type == "crash" {
			if cp, ok := c.crashPointFromModel(only.K, only.J); ok {
				cps = append(cps, cp)
			} else {
				c.r.Count("replay", "stale-crash-point")
				return
			}
		} else {
			for k := 0; k <= len(tr.Ops); k++ {
				if cp, ok := c.crashPointFromModel(k, 0); ok {
					cps = append(cps, cp)
				}
				if k < len(tr.Ops) && tr.Ops[k].Kind == "W" {
					for _, j := range tornLengths(len(tr.Ops[k].Data), c.allTorn, rng) {
						if cp, ok := c.crashPointFromModel(k, j); ok {
							cps = append(cps, cp)
						}
					}
				}
			}
		}
		c.runAll(cps, request{Cmd: "tickets"})
		for _, cp := range cps {
			ops := tr.Ops
			what := "killed after call " + strconv.Itoa(cp.k) + " of " + strconv.Itoa(len(ops))
			sys := ""
			if cp.k < len(ops) {
				sys = ops[cp.k].Text
			}
			if cp.j > 0 {
				what = fmt.Sprintf("killed during call %d (%s) after %d of %d bytes reached the file", cp.k, ops[cp.k].Kind+":"+ops[cp.k].Name, cp.j, len(ops[cp.k].Data))
			} else if cp.k > 0 {
				what += " (last completed: " + ops[cp.k-1].Kind + ":" + ops[cp.k-1].Name + ")"
			}
			rc := replayCase{Type: "crash", Scenario: &sc, Step: si, K: cp.k, J: cp.j, Syscall: sys, Note: what}
			if cp.err != nil {
				c.r.Violate("helper-failed", "correspondence", cp.err.Error(), rc)
				continue
			}
			impl := "err"
			if cp.rep.OK {
				impl = "ok " + addrsText(cp.rep.Addrs[0])
			}
			c.r.Case("tcrash|"+dirText(cp.files), cp.k > 0 && cp.k < len(ops))
			c.r.Validated(1)
			c.r.Count("ticket_crash_kind", map[bool]string{true: "torn-write", false: "between-calls"}[cp.j > 0])
			c.r.Count("ticket_crash_load", strings.SplitN(impl, " ", 2)[0])
			if cp.j > 0 {
				c.r.Sample(10, map[string]interface{}{"ticket_crash": what, "model_load": cp.tickets, "impl_load": impl})
			}
			if !cp.rep.OK {
				c.r.Violate("ticket-store-blocks-startup", "impl-oracle",
					fmt.Sprintf("ticket step %d %s: the ScrambleSuit ClientFactory fails: %s [ticket file: %d bytes]", si, what, cp.rep.Err, len(cp.files[ticketFile])), rc)
			}
			if impl != cp.tickets {
				c.r.Violate("ticket-recovery-differs-from-model", "correspondence",
					fmt.Sprintf("ticket step %d %s: model load %s, implementation %s", si, what, cp.tickets, impl), rc)
			}
		}
		if only != nil {
			return
		}
	}
}

func addrsText(a []string) string {
	if len(a) == 0 {
		return "empty"
	}
	h := make([]string, len(a))
	for i, s := range a {
		h[i] = vlib.Hex([]byte(s))
	}
	return strings.Join(h, ",")
}

func storeText(m map[string]*ticketJSON, now int64) string {
	addrs := make([]string, 0, len(m))
	for a, t := range m {
		if t != nil && t.IssuedAt+604800 > now {
			addrs = append(addrs, a)
		}
	}
	sort.Strings(addrs)
	if len(addrs) == 0 {
		return "empty"
	}
	parts := make([]string, len(addrs))
	for i, a := range addrs {
		parts[i] = fmt.Sprintf("%s:%s:%s", vlib.Hex([]byte(a)), vlib.Hex([]byte(m[a].KeyTicket)), vlib.Hex([]byte(strconv.FormatInt(m[a].IssuedAt, 10))))
	}
	return strings.Join(parts, ",")
}

// ---------------------------------------------------------------------------------------------
// prefixes of a persisted file: the JSON assumption of the model (a strict prefix of the
// encoded object never loads; the whole object does), checked on every prefix

func (c *checker) prefixTie(file string, content []byte, lens []int) {
	var cps []*crashPoint
	for _, l := range lens {
		c.loadModel(map[string][]byte{file: content[:l]}, privsOf(content), nil)
		if cp, ok := c.crashPointFromModel(0, 0); ok {
			cp.k = l
			cps = append(cps, cp)
		}
	}
	cmd := "server"
	if file == ticketFile {
		cmd = "tickets"
	}
	c.runAll(cps, request{Cmd: cmd})
	for _, cp := range cps {
		rc := replayCase{Type: "prefix", File: file, Content: hex.EncodeToString(content), Len: cp.k}
		if cp.err != nil {
			c.r.Violate("helper-failed", "correspondence", cp.err.Error(), rc)
			continue
		}
		impl, model := implNext(cp.rep), cp.next
		if file == ticketFile {
			model = cp.tickets
			impl = "err"
			if cp.rep.OK {
				impl = "ok " + addrsText(cp.rep.Addrs[0])
			}
		}
		c.r.Case(fmt.Sprintf("prefix|%s|%x", file, content[:cp.k]), cp.k > 0 && cp.k < len(content))
		c.r.Validated(1)
		c.r.Count("prefix_"+file, strings.SplitN(impl, " ", 2)[0])
		if impl != model {
			c.r.Violate("prefix-load-differs-from-model", "correspondence",
				fmt.Sprintf("%s cut to %d of %d bytes: implementation %s, model %s", file, cp.k, len(content), impl, model), rc)
		}
		if file == ticketFile && !cp.rep.OK {
			c.r.Violate("ticket-store-blocks-startup", "impl-oracle",
				fmt.Sprintf("%s cut to %d of %d bytes (a torn checkpoint): the ScrambleSuit ClientFactory fails: %s", file, cp.k, len(content), cp.rep.Err), rc)
		}
		if file == stateFile && cp.k < len(content) && cp.rep.OK {
			orig := ""
			if r := completeRec(content); r != nil {
				orig = r.presented().Cert
			}
			sig := "truncated-state-file-accepted"
			if cp.rep.Cert != orig {
				sig = "identity-silently-replaced-over-unreadable-state-file"
			}
			c.r.Violate(sig, "impl-oracle",
				fmt.Sprintf("%s of the bridge with cert=%s cut to %d of %d bytes: the start succeeds and presents cert=%s (the persisted identity is silently replaced instead of the start failing)",
					file, orig, cp.k, len(content), cp.rep.Cert), rc)
		}
	}
}

func privsOf(content []byte) []string {
	if r := completeRec(content); r != nil {
		return []string{r.Priv}
	}
	return nil
}

// ---------------------------------------------------------------------------------------------
// bridge-line round trips

func parseArgsImpl(args map[string]string) (id, pub []byte, iat int, err error) {
	cf, err := transports.Get("obfs4").ClientFactory("")
	if err != nil {
		return nil, nil, 0, err
	}
	a := pt.Args{}
	for k, v := range args {
		a.Add(k, v)
	}
	res, err := cf.ParseArgs(&a)
	if err != nil {
		return nil, nil, 0, err
	}
	v := reflect.ValueOf(res)
	if v.Kind() != reflect.Ptr || v.Elem().Kind() != reflect.Struct {
		return nil, nil, 0, fmt.Errorf("tie: ParseArgs result is %T", res)
	}
	f := func(name string) ([]byte, error) {
		fv := v.Elem().FieldByName(name)
		if !fv.IsValid() || fv.Kind() != reflect.Ptr || fv.IsNil() || fv.Elem().Kind() != reflect.Array {
			return nil, fmt.Errorf("tie: ParseArgs result has no array field %s", name)
		}
		arr := fv.Elem()
		b := make([]byte, arr.Len())
		for i := range b {
			b[i] = byte(arr.Index(i).Uint())
		}
		return b, nil
	}
	if id, err = f("nodeID"); err != nil {
		return
	}
	if pub, err = f("publicKey"); err != nil {
		return
	}
	iv := v.Elem().FieldByName("iatMode")
	if !iv.IsValid() {
		return nil, nil, 0, fmt.Errorf("tie: ParseArgs result has no field iatMode")
	}
	return id, pub, int(iv.Int()), nil
}

func (c *checker) roundTrip(rc replayCase) {
	dir := c.mkdir()
	defer os.RemoveAll(dir)
	id, _ := hex.DecodeString(rc.NodeID)
	pubH := pubHex(rc.Priv)
	pub, _ := hex.DecodeString(pubH)
	args := pt.Args{}
	args.Add("node-id", rc.NodeID)
	args.Add("private-key", rc.Priv)
	args.Add("drbg-seed", strings.Repeat("ab", 24))
	args.Add("iat-mode", rc.IAT)
	sf, err := transports.Get("obfs4").ServerFactory(dir, &args)
	if err != nil {
		c.r.Violate("server-factory-rejects-valid-identity", "impl-oracle", err.Error(), rc)
		return
	}
	cert, _ := sf.Args().Get("cert")
	iat, _ := sf.Args().Get("iat-mode")
	c.r.Case("rt|"+rc.NodeID+rc.Priv+rc.IAT, true)
	c.r.Validated(3)
	c.r.Count("roundtrip", "cert+legacy")
	c.r.Sample(3, map[string]interface{}{"node_id": rc.NodeID, "public_key": pubH, "cert": cert})
	// C: cert text
	if m := c.call("cert.enc %s %s", vlib.Hex(id), vlib.Hex(pub)); m != "ok "+vlib.Hex([]byte(cert)) {
		c.r.Violate("cert-text-differs-from-model", "correspondence", fmt.Sprintf("Args() cert=%s, model %s", cert, m), rc)
	}
	if cert != oracleCert(rc.NodeID, rc.Priv) {
		c.r.Violate("cert-is-not-unpadded-base64", "impl-oracle",
			fmt.Sprintf("advertised cert=%s, base64(nodeID|publicKey) without padding is %s", cert, oracleCert(rc.NodeID, rc.Priv)), rc)
	}
	// new form
	gid, gpub, giat, err := parseArgsImpl(map[string]string{"cert": cert, "iat-mode": iat})
	m := c.call("cert.dec %s", vlib.Hex([]byte(cert)))
	if err != nil || !bytes.Equal(gid, id) || !bytes.Equal(gpub, pub) || strconv.Itoa(giat) != rc.IAT {
		c.r.Violate("cert-bridge-line-does-not-round-trip", "impl-oracle",
			fmt.Sprintf("bridge identity node-id=%s public-key=%s iat-mode=%s; a client parsing cert=%s iat-mode=%s obtains node-id=%x public-key=%x iat-mode=%d err=%v",
				rc.NodeID, pubH, rc.IAT, cert, iat, gid, gpub, giat, err), rc)
	}
	if err == nil && m != "ok "+vlib.Hex(gid)+" "+vlib.Hex(gpub) || err != nil && m != "err" {
		c.r.Violate("cert-parse-differs-from-model", "correspondence", fmt.Sprintf("cert=%s: implementation %x %x %v, model %s", cert, gid, gpub, err, m), rc)
	}
	// legacy form, lower and upper case hex
	for _, up := range []bool{false, true} {
		nh, ph := rc.NodeID, pubH
		if up {
			nh, ph = strings.ToUpper(nh), strings.ToUpper(ph)
		}
		gid, gpub, giat, err = parseArgsImpl(map[string]string{"node-id": nh, "public-key": ph, "iat-mode": iat})
		m = c.call("legacy.dec %s %s", vlib.Hex([]byte(nh)), vlib.Hex([]byte(ph)))
		// S speaks about the advertised (lower-case) form only; upper-case hex is a model/implementation matter
		if !up && (err != nil || !bytes.Equal(gid, id) || !bytes.Equal(gpub, pub) || strconv.Itoa(giat) != rc.IAT) {
			c.r.Violate("legacy-bridge-line-does-not-round-trip", "impl-oracle",
				fmt.Sprintf("bridge identity node-id=%s public-key=%s; a client parsing the legacy form node-id=%s public-key=%s obtains node-id=%x public-key=%x err=%v",
					rc.NodeID, pubH, nh, ph, gid, gpub, err), rc)
		}
		if err == nil && m != "ok "+vlib.Hex(gid)+" "+vlib.Hex(gpub) || err != nil && m != "err" {
			c.r.Violate("legacy-parse-differs-from-model", "correspondence", fmt.Sprintf("legacy %s %s: implementation %x %x %v, model %s", nh, ph, gid, gpub, err, m), rc)
		}
	}
	if m := c.call("hex.enc %s", vlib.Hex(id)); m != "ok "+vlib.Hex([]byte(rc.NodeID)) {
		c.r.Violate("hex-differs-from-model", "correspondence", fmt.Sprintf("hex of %x: model %s", id, m), rc)
	}
}

// malformedCert: accept/reject (and value) agreement of the cert parser on damaged texts.
func (c *checker) malformedCert(rc replayCase) {
	gid, gpub, _, err := parseArgsImpl(map[string]string{"cert": rc.Text, "iat-mode": "0"})
	m := c.call("cert.dec %s", vlib.Hex([]byte(rc.Text)))
	c.r.Case("mal|"+rc.Text, err != nil)
	c.r.Validated(1)
	c.r.Count("malformed_cert", map[bool]string{true: "rejected", false: "accepted"}[err != nil])
	if err == nil && m != "ok "+vlib.Hex(gid)+" "+vlib.Hex(gpub) || err != nil && m != "err" {
		c.r.Violate("cert-parse-differs-from-model", "correspondence", fmt.Sprintf("cert=%q: implementation %x %x %v, model %s", rc.Text, gid, gpub, err, m), rc)
	}
}

func mutateCert(rng *vlib.Rng, cert string) string {
	b := []byte(cert)
	switch rng.Intn(9) {
	case 0:
		return cert + "=="
	case 1:
		return cert + "="
	case 2:
		return cert[:rng.Intn(len(cert))]
	case 3:
		b[rng.Intn(len(b))] = vlib.Pick(rng, []byte{'=', '-', '_', ' ', '\n', '\r', '*', 0})
		return string(b)
	case 4:
		i := rng.Intn(len(b) + 1)
		return string(b[:i]) + vlib.Pick(rng, []string{"\n", "\r\n", "A", "=", "AAAA"}) + string(b[i:])
	case 5:
		raw := rng.Bytes(rng.Range(49, 55))
		return strings.TrimSuffix(base64.StdEncoding.EncodeToString(raw), "==")
	case 6:
		return base64.RawURLEncoding.EncodeToString(rng.Bytes(52))
	case 7:
		b[len(b)-1] = "ABCDEFGHIJKLMNOPQRSTUVWXYZabcdefghijklmnopqrstuvwxyz0123456789+/"[rng.Intn(64)] // unused trailing bits
		return string(b)
	}
	return ""
}

// ---------------------------------------------------------------------------------------------
// I/O faults: write(2) fails or comes up short (disk full, quota).  The helper limits its own
// file size (RLIMIT_FSIZE = k, SIGXFSZ ignored), so the write of every file is cut at k bytes.
// S: whatever the faulted start reports, the NEXT plain start (no limit) presents the persisted
// identity.  C: the traced calls equal the model's `startLim k` / `writeFileLim k`.

func (c *checker) faultBase(seed uint64) (string, map[string][]byte, presented, bool) {
	dir := c.mkdir()
	r1, _, e1 := runHelper(request{Cmd: "server", Dir: dir, Seed: seed | 1}, false, c.scratch)
	r2, _, e2 := runHelper(request{Cmd: "server", Dir: dir, Args: map[string]string{"iat-mode": "1"}}, false, c.scratch)
	if e1 != nil || e2 != nil || !r1.OK || !r2.OK {
		c.r.Violate("helper-failed", "correspondence", fmt.Sprintf("fault base: %v %v %s %s", e1, e2, r1.Err, r2.Err), replayCase{Type: "build"})
		return dir, nil, presented{}, false
	}
	return dir, readDir(dir), presented{r2.Cert, r2.IAT}, true
}

func (c *checker) faultCase(rc replayCase) {
	k := rc.Limit
	switch rc.Fault {
	case "restart", "first":
		var before map[string][]byte
		var cur *presented
		dir := c.mkdir()
		defer os.RemoveAll(dir)
		if rc.Fault == "restart" {
			bdir, files, p, ok := c.faultBase(rc.Seed)
			defer os.RemoveAll(bdir)
			if !ok {
				return
			}
			before, cur = files, &p
			if err := writeDir(dir, before); err != nil {
				panic(err)
			}
		} else {
			before = map[string][]byte{}
		}
		rep, tr, err := runHelper(request{Cmd: "server", Dir: dir, Args: rc.Args, Seed: rc.Seed*3 + 1, FsizeLimit: &k}, true, c.scratch)
		if err != nil {
			c.r.Violate("trace-unavailable", "correspondence", err.Error(), rc)
			return
		}
		after := readDir(dir)
		probe, _, err := runHelper(request{Cmd: "server", Dir: dir, Seed: rc.Seed*5 + 1}, false, c.scratch)
		if err != nil {
			c.r.Violate("helper-failed", "correspondence", err.Error(), rc)
			return
		}
		faulted := len(tr.Failed) > 0
		c.r.Case(fmt.Sprintf("fault|%s|%v|%d|%s", rc.Fault, rc.Args, k, canonOps(tr.Ops)), faulted)
		c.r.Validated(2)
		c.r.Count("write_fault_"+rc.Fault, map[bool]string{true: "write-failed", false: "limit-not-reached"}[faulted])
		c.r.Count("write_fault_outcome", map[bool]string{true: "start-ok", false: "start-refused"}[rep.OK])
		if faulted {
			c.r.Sample(16, map[string]interface{}{"write_fault": rc.Fault, "limit": k, "args": rc.Args, "failed_call": tr.Failed[0].Text, "faulted_start": implNext(rep), "next_plain_start": implNext(probe)})
		}
		// S
		if cur != nil {
			want := map[presented]bool{*cur: true}
			if v, ok := rc.Args["iat-mode"]; ok {
				want[presented{cur.Cert, v}] = true
			}
			what := fmt.Sprintf("a start (args %v) whose file writes fail beyond %d bytes (faulted start: %s)", rc.Args, k, implNext(rep))
			if len(tr.Failed) > 0 {
				what += "; failed call: " + tr.Failed[0].Text
			}
			switch {
			case !probe.OK:
				c.r.Violate("write-fault-loses-identity", "impl-oracle",
					fmt.Sprintf("%s: the next start without arguments (no fault) fails: %s — the persisted identity cert=%s is lost [state file after the faulted start: %d bytes, before: %d]",
						what, probe.Err, cur.Cert, len(after[stateFile]), len(before[stateFile])), rc)
			case probe.Cert != cur.Cert:
				c.r.Violate("write-fault-replaces-identity", "impl-oracle",
					fmt.Sprintf("%s: the next start presents cert=%s, persisted was cert=%s", what, probe.Cert, cur.Cert), rc)
			case !want[presented{probe.Cert, probe.IAT}]:
				c.r.Violate("write-fault-changes-iat-mode", "impl-oracle",
					fmt.Sprintf("%s: the next start presents iat-mode=%s, persisted was %s", what, probe.IAT, cur.IAT), rc)
			case rep.OK && rc.Args["iat-mode"] != "" && probe.IAT != rc.Args["iat-mode"]:
				c.r.Violate("iat-mode-not-kept", "impl-oracle",
					fmt.Sprintf("%s reported success with iat-mode=%s but the next start presents %s", what, rc.Args["iat-mode"], probe.IAT), rc)
			}
		} else if rep.OK && (!probe.OK || probe.Cert != rep.Cert) {
			c.r.Violate("presented-identity-not-persisted", "impl-oracle",
				fmt.Sprintf("first start with file writes failing beyond %d bytes reports success (cert=%s) but the next start gives %s", k, rep.Cert, implNext(probe)), rc)
		}
		// C
		privs := []string{}
		fresh := stateRec{}
		if r := completeRec(before[stateFile]); r != nil {
			privs = append(privs, r.Priv)
		}
		if _, had := before[stateFile]; !had {
			// the identity the helper generated: from the file, or from the buffer of the failed write
			var buf []byte = after[stateFile]
			if buf == nil {
				// the first write(2) on the temp file was given the whole record (short write),
				// or failed outright (limit 0)
				for _, o := range tr.Ops {
					if o.Kind == "W" && strings.HasPrefix(o.Name, stateFile) && buf == nil {
						buf = o.Full
					}
				}
				for _, f := range tr.Failed {
					if strings.HasPrefix(f.Name, stateFile) && buf == nil {
						buf = f.Full
					}
				}
			}
			if r := completeRec(buf); r != nil {
				fresh = *r
				privs = append(privs, r.Priv)
			}
		}
		c.loadModel(before, privs, tr.Ops)
		m := c.call("fs.startlim %d %s %s %s %s %s %s %s %s", k, optHex(rc.Args, "node-id"), optHex(rc.Args, "private-key"),
			optHex(rc.Args, "drbg-seed"), optHex(rc.Args, "iat-mode"),
			vlib.Hex([]byte(fresh.NodeID)), vlib.Hex([]byte(fresh.Priv)), vlib.Hex([]byte(fresh.Pub)), vlib.Hex([]byte(fresh.Seed)))
		mp := strings.SplitN(m, " ; ", 2)
		mops := ""
		if len(mp) == 2 {
			mops = strings.TrimSpace(mp[1])
		}
		if mp[0] != implNext(rep) || mops != canonOps(tr.Ops) {
			c.r.Violate("faulted-start-differs-from-model", "correspondence",
				fmt.Sprintf("%s start, writes limited to %d bytes, args %v: implementation %s [%s], model %s [%s]", rc.Fault, k, rc.Args, implNext(rep), shortOps(canonOps(tr.Ops)), mp[0], shortOps(mops)), rc)
		}
		if fin := c.call("fs.final"); fin != dirText(after) {
			c.r.Violate("fs-model-final-state-differs", "correspondence",
				fmt.Sprintf("faulted start (limit %d): directory {%s}, file-system model {%s}", k, shortOps(dirText(after)), shortOps(fin)), rc)
		}
	case "tickets":
		dir := c.mkdir()
		defer os.RemoveAll(dir)
		rng := vlib.NewRng(rc.Seed)
		rep, _, err := runHelper(request{Cmd: "tickets", Dir: dir, Ops: []ticketOp{{Op: "store", Addr: "192.0.2.1:443", Raw: hexOf(rng, 144)}, {Op: "store", Addr: "198.51.100.7:9001", Raw: hexOf(rng, 144)}}}, false, c.scratch)
		if err != nil || !rep.OK {
			c.r.Violate("helper-failed", "correspondence", fmt.Sprintf("ticket base: %v %s", err, rep.Err), rc)
			return
		}
		before := readDir(dir)
		op := ticketOp{Op: "store", Addr: "203.0.113.5:1", Raw: hexOf(rng, 144)}
		if rc.Args["op"] == "get" {
			op = ticketOp{Op: "get", Addr: "192.0.2.1:443"}
		}
		rep, tr, err := runHelper(request{Cmd: "tickets", Dir: dir, Ops: []ticketOp{op}, FsizeLimit: &k}, true, c.scratch)
		if err != nil {
			c.r.Violate("trace-unavailable", "correspondence", err.Error(), rc)
			return
		}
		after := readDir(dir)
		probe, _, err := runHelper(request{Cmd: "tickets", Dir: dir}, false, c.scratch)
		if err != nil {
			c.r.Violate("helper-failed", "correspondence", err.Error(), rc)
			return
		}
		faulted := len(tr.Failed) > 0
		c.r.Case(fmt.Sprintf("fault|tickets|%s|%d|%s", op.Op, k, canonOps(tr.Ops)), faulted)
		c.r.Validated(2)
		c.r.Count("write_fault_tickets", map[bool]string{true: "write-failed", false: "limit-not-reached"}[faulted])
		if !probe.OK {
			c.r.Violate("ticket-store-blocks-startup", "impl-oracle",
				fmt.Sprintf("ticket checkpoint (%s) whose write fails beyond %d bytes: the ScrambleSuit ClientFactory then fails: %s", op.Op, k, probe.Err), rc)
		}
		// C: the attempted content is the buffer the first write(2) was given
		var content []byte
		for _, o := range tr.Ops {
			if o.Kind == "W" && content == nil {
				content = o.Full
			}
		}
		if content == nil && len(tr.Failed) > 0 {
			content = tr.Failed[0].Full
		}
		m := c.call("fs.writelim %d %s %s", k, hexName(ticketFile), vlib.Hex(content))
		mp := strings.SplitN(m, " ; ", 2)
		mops := ""
		if len(mp) == 2 {
			mops = strings.TrimSpace(mp[1])
		}
		if mops != canonOps(tr.Ops) {
			c.r.Violate("faulted-checkpoint-differs-from-model", "correspondence",
				fmt.Sprintf("ticket checkpoint, writes limited to %d bytes: traced [%s], model [%s]", k, shortOps(canonOps(tr.Ops)), shortOps(mops)), rc)
		}
		c.loadModel(before, nil, tr.Ops)
		if fin := c.call("fs.final"); fin != dirText(after) {
			c.r.Violate("fs-model-final-state-differs", "correspondence",
				fmt.Sprintf("faulted ticket checkpoint (limit %d): directory {%s}, file-system model {%s}", k, shortOps(dirText(after)), shortOps(fin)), rc)
		}
		if cp, ok := c.crashPointFromModel(len(tr.Ops), 0); ok && probe.OK {
			if impl := "ok " + addrsText(probe.Addrs[0]); impl != cp.tickets {
				c.r.Violate("ticket-recovery-differs-from-model", "correspondence",
					fmt.Sprintf("after a ticket checkpoint limited to %d bytes: model load %s, implementation %s", k, cp.tickets, impl), rc)
			}
		}
		if faulted && mp[0] == "err" && !bytes.Equal(after[ticketFile], before[ticketFile]) {
			c.r.Violate("write-fault-damages-ticket-file", "correspondence",
				fmt.Sprintf("ticket checkpoint whose write failed at %d bytes changed %s (%d → %d bytes)", k, ticketFile, len(before[ticketFile]), len(after[ticketFile])), rc)
		}
	}
}

func faultLimits(maxLen int, marks []int, all bool, rng *vlib.Rng) []uint64 {
	set := map[int]bool{}
	if all {
		for k := 0; k <= maxLen+1; k++ {
			set[k] = true
		}
	} else {
		for _, k := range []int{0, 1, 2, 3, 17, 64, 100, 200, maxLen / 2, maxLen - 2, maxLen - 1, maxLen, maxLen + 1} {
			set[k] = true
		}
		for _, m := range marks {
			for d := -2; d <= 1; d++ {
				set[m+d] = true
			}
		}
		for i := 0; i < 8; i++ {
			set[rng.Range(0, maxLen)] = true
		}
	}
	ks := []int{}
	for k := range set {
		if k >= 0 {
			ks = append(ks, k)
		}
	}
	sort.Ints(ks)
	out := make([]uint64, len(ks))
	for i, k := range ks {
		out[i] = uint64(k)
	}
	return out
}

func (c *checker) faultFamily(rng *vlib.Rng) {
	seed := rng.U64()>>1 | 1
	bdir, files, _, ok := c.faultBase(seed)
	os.RemoveAll(bdir)
	if !ok {
		return
	}
	ls, lb := len(files[stateFile]), len(files[bridgeFile])
	// thorough: every limit 0..len+1 for the plain restart, the first start and the ticket store;
	// the dense sample for the other variants
	for ai, args := range []map[string]string{nil, {"iat-mode": "2"}, {"iat-mode": "0"}} {
		for _, k := range faultLimits(lb, []int{ls}, c.allTorn && ai == 0, rng) {
			c.faultCase(replayCase{Type: "fault", Fault: "restart", Args: args, Limit: k, Seed: seed})
		}
	}
	for _, k := range faultLimits(lb, []int{ls}, c.allTorn, rng) {
		c.faultCase(replayCase{Type: "fault", Fault: "first", Limit: k, Seed: seed})
	}
	for _, op := range []string{"store", "get"} {
		for _, k := range faultLimits(900, []int{290, 580}, c.allTorn && op == "store", rng) {
			c.faultCase(replayCase{Type: "fault", Fault: "tickets", Args: map[string]string{"op": op}, Limit: k, Seed: seed})
		}
	}
}

// iatTransitions: every override transition a→b (a, b ∈ {0,1,2}) in one history, each
// followed by a plain start: the start with the override and every later start present b.
func iatTransitions(seed uint64) scenario {
	sc := scenario{Kind: "server", Steps: []step{{Seed: seed | 1}}}
	for _, b := range []string{"0", "1", "1", "2", "2", "0", "2", "1", "0"} { // 0→0 0→1 1→1 1→2 2→2 2→0 0→2 2→1 1→0
		sc.Steps = append(sc.Steps, step{Args: map[string]string{"iat-mode": b}}, step{})
	}
	return sc
}

// ---------------------------------------------------------------------------------------------
// several starts inside ONE process (a bridge with several listeners, an in-process restart),
// over two state directories, mixed with process restarts.  The model is per call: the result of
// a start is a function of (directory contents, arguments) — there is no process state — so
// every start of such a history is compared with the model and judged by the same oracles as a
// start in a process of its own.

type mstep struct {
	Proc int               `json:"proc"` // consecutive steps with equal Proc run in one helper process
	Dir  int               `json:"dir"`  // 0 | 1
	Args map[string]string `json:"args,omitempty"`
	Seed uint64            `json:"seed,omitempty"` // crypto/rand seed of the process (its first step's)
}

type multiResult struct {
	Reply reply             `json:"reply"`
	Snap  map[string]string `json:"snap"` // directory after the start: name → hex
}

func parseCanon(text string) []sysOp {
	var ops []sysOp
	for _, w := range strings.Fields(text) {
		p := strings.Split(w, ":")
		switch {
		case p[0] == "W" && len(p) == 3:
			ops = append(ops, sysOp{Kind: "W", Name: p[1], Data: vlib.UnHex(p[2])})
		case p[0] == "R" && len(p) == 3:
			ops = append(ops, sysOp{Kind: "R", Name: p[1], Name2: p[2]})
		case len(p) == 2:
			ops = append(ops, sysOp{Kind: p[0], Name: p[1]})
		}
	}
	return ops
}

func (c *checker) multiScenario(hist []mstep) {
	dirs := [2]string{c.mkdir(), c.mkdir()}
	defer os.RemoveAll(dirs[0])
	defer os.RemoveAll(dirs[1])
	var cur [2]*presented
	files := [2]map[string][]byte{{}, {}}
	for i := 0; i < len(hist); {
		j := i
		for j < len(hist) && hist[j].Proc == hist[i].Proc {
			j++
		}
		req := request{Cmd: "multi", Seed: hist[i].Seed}
		for _, m := range hist[i:j] {
			req.Starts = append(req.Starts, multiStart{Dir: dirs[m.Dir&1], Args: m.Args})
		}
		rep, _, err := runHelper(req, false, c.scratch)
		rcAll := replayCase{Type: "multi", Multi: hist[:j]}
		if err != nil || len(rep.Multi) != j-i {
			c.r.Violate("helper-failed", "correspondence", fmt.Sprintf("multi-start helper: %v %s", err, rep.Err), rcAll)
			return
		}
		for k, m := range hist[i:j] {
			di := m.Dir & 1
			res := rep.Multi[k]
			before := files[di]
			after := map[string][]byte{}
			for n, h := range res.Snap {
				after[n] = vlib.UnHex(h)
			}
			st := step{Args: m.Args}
			label := fmt.Sprintf("start %d of the history (directory %d, call %d of %d inside process %d)", i+k, di, k+1, j-i, m.Proc)
			rc := replayCase{Type: "multi", Multi: hist[:i+k+1], Step: i + k}
			c.r.Case(fmt.Sprintf("multi|%s|%v|p%d.%d", dirText(before), m.Args, m.Proc, k), k > 0)
			c.r.Validated(1)
			c.r.Count("in_process_start", fmt.Sprintf("call-%d-in-process:%s", k+1, argClass(m.Args)))
			c.r.Sample(22, map[string]interface{}{"multi_start": label, "args": m.Args, "impl": implNext(res.Reply)})
			// S
			hadCur := cur[di]
			cur[di] = c.restartOracle(cur[di], st, res.Reply, label, rc)
			if res.Reply.OK {
				c.consistency(rc, fmt.Sprintf("%s (args %v)", label, m.Args), len(before) == 0, st, res.Reply, after)
			} else if hadCur != nil {
				c.refusedProbe(rc, label, st, res.Reply, before, after, *hadCur)
			}
			// C: the per-call model on the directory as it was before this call
			privs := []string{}
			fresh := stateRec{}
			if r := completeRec(before[stateFile]); r != nil {
				privs = append(privs, r.Priv)
			}
			if r := completeRec(after[stateFile]); r != nil {
				privs = append(privs, r.Priv)
				if _, had := before[stateFile]; !had {
					fresh = *r
				}
			}
			if p, ok := m.Args["private-key"]; ok {
				privs = append(privs, p)
			}
			c.loadModel(before, privs, nil)
			mrep := c.call("fs.start %s %s %s %s %s %s %s %s", optHex(m.Args, "node-id"), optHex(m.Args, "private-key"),
				optHex(m.Args, "drbg-seed"), optHex(m.Args, "iat-mode"),
				vlib.Hex([]byte(fresh.NodeID)), vlib.Hex([]byte(fresh.Priv)), vlib.Hex([]byte(fresh.Pub)), vlib.Hex([]byte(fresh.Seed)))
			mp := strings.SplitN(mrep, " ; ", 2)
			if mp[0] != implNext(res.Reply) {
				c.r.Violate("in-process-start-differs-from-model", "correspondence",
					fmt.Sprintf("%s, args %v: implementation %s, the model of a start from the same directory contents %s", label, m.Args, implNext(res.Reply), mp[0]), rc)
			}
			if len(mp) == 2 {
				c.loadModel(before, privs, parseCanon(mp[1]))
				if fin := c.call("fs.final"); fin != dirText(after) {
					c.r.Violate("in-process-start-leaves-different-directory", "correspondence",
						fmt.Sprintf("%s, args %v: directory after the call {%s}, model {%s}", label, m.Args, shortOps(dirText(after)), shortOps(fin)), rc)
				}
			}
			files[di] = after
		}
		i = j
	}
}

func fixedMultiHistories(seed uint64) [][]mstep {
	x := [3]string{strings.Repeat("1a", 20), strings.Repeat("2b", 32), strings.Repeat("3c", 24)}
	ex := map[string]string{"node-id": x[0], "private-key": x[1], "drbg-seed": x[2]}
	iat := func(v string) map[string]string { return map[string]string{"iat-mode": v} }
	return [][]mstep{
		// one process, one directory: load, override, plain, explicit identity, plain
		{{0, 0, nil, seed | 1}, {0, 0, iat("1"), 0}, {0, 0, nil, 0}, {0, 0, ex, 0}, {0, 0, nil, 0}},
		// one process, two directories interleaved
		{{0, 0, nil, seed + 2 | 1}, {0, 1, nil, 0}, {0, 0, iat("2"), 0}, {0, 1, nil, 0}, {0, 0, nil, 0}, {0, 1, iat("1"), 0}, {0, 0, nil, 0}, {0, 1, nil, 0}},
		// mixed: two calls in a process, a new process with three calls, a new process
		{{0, 0, iat("2"), seed + 4 | 1}, {0, 0, nil, 0}, {1, 0, nil, seed + 6 | 1}, {1, 0, iat("0"), 0}, {1, 0, nil, 0}, {2, 0, nil, seed + 8 | 1}},
		// a refused call between two good ones, inside one process
		{{0, 0, nil, seed + 10 | 1}, {0, 0, iat("1"), 0}, {0, 0, iat("7"), 0}, {0, 0, nil, 0}, {0, 0, map[string]string{"node-id": x[0]}, 0}, {0, 0, nil, 0}},
	}
}

func randomMultiHistory(rng *vlib.Rng) []mstep {
	var h []mstep
	nproc := rng.Range(1, 3)
	var ids [][3]string
	for p := 0; p < nproc; p++ {
		n := rng.Range(2, 5)
		seed := rng.U64()>>1 | 1
		for k := 0; k < n; k++ {
			m := mstep{Proc: p, Dir: 0}
			if k == 0 {
				m.Seed = seed
			}
			if rng.Intn(3) == 0 {
				m.Dir = 1
			}
			switch c := rng.Intn(10); {
			case c < 4:
			case c < 7:
				m.Args = map[string]string{"iat-mode": strconv.Itoa(rng.Intn(3))}
			case c < 8:
				m.Args = map[string]string{"iat-mode": vlib.Pick(rng, []string{"3", "x", "-1"})}
			default:
				var id [3]string
				if len(ids) > 0 && rng.Bool() {
					id = ids[rng.Intn(len(ids))]
				} else {
					id = [3]string{hexOf(rng, 20), hexOf(rng, 32), hexOf(rng, 24)}
					ids = append(ids, id)
				}
				m.Args = map[string]string{"node-id": id[0], "private-key": id[1], "drbg-seed": id[2]}
				if rng.Bool() {
					m.Args["iat-mode"] = strconv.Itoa(rng.Intn(3))
				}
			}
			h = append(h, m)
		}
	}
	return h
}

// ---------------------------------------------------------------------------------------------
// generators

func hexOf(rng *vlib.Rng, n int) string { return hex.EncodeToString(rng.Bytes(n)) }

func randomServerScenario(rng *vlib.Rng, n int) scenario {
	sc := scenario{Kind: "server"}
	var ids [][3]string // explicit identities used so far
	for i := 0; i < n; i++ {
		st := step{Seed: rng.U64() | 1}
		st.Args = map[string]string{}
		switch c := rng.Intn(12) - 4; {
		case i == 0 && c < 1, c < -1:
			// no arguments
		case c < 2:
			st.Args["iat-mode"] = strconv.Itoa(rng.Intn(3))
		case c < 4:
			// out-of-range / non-numeric / oddly written override
			st.Args["iat-mode"] = vlib.Pick(rng, []string{"3", "7", "-1", "x", "", "+1", "01", "2 ", "99999999999999999999", "1.0"})
		case c < 5:
			// complete explicit identity with one malformed member (refused)
			id := [3]string{hexOf(rng, 20), hexOf(rng, 32), hexOf(rng, 24)}
			k := rng.Intn(3)
			id[k] = vlib.Pick(rng, []string{"", "zz", id[k][2:], id[k] + "00", "0x" + id[k][2:], id[k][:len(id[k])-1]})
			st.Args["node-id"], st.Args["private-key"], st.Args["drbg-seed"] = id[0], id[1], id[2]
			if rng.Bool() {
				st.Args["iat-mode"] = vlib.Pick(rng, []string{"0", "1", "2", "5"})
			}
		case c < 6:
			var id [3]string
			if len(ids) > 0 && rng.Bool() {
				id = ids[rng.Intn(len(ids))]
			} else {
				id = [3]string{hexOf(rng, 20), hexOf(rng, 32), hexOf(rng, 24)}
				if rng.Intn(3) == 0 {
					id[0] = strings.ToUpper(id[0])
				}
				ids = append(ids, id)
			}
			st.Args["node-id"], st.Args["private-key"], st.Args["drbg-seed"] = id[0], id[1], id[2]
			if rng.Bool() {
				st.Args["iat-mode"] = strconv.Itoa(rng.Intn(3))
			}
		case c < 7:
			// partial / malformed explicit identity
			st.Args["node-id"] = hexOf(rng, 20)
			if rng.Bool() {
				st.Args["private-key"] = hexOf(rng, 32)
			}
			if rng.Bool() {
				st.Args["drbg-seed"] = hexOf(rng, vlib.Pick(rng, []int{24, 23}))
			}
		default:
		}
		if len(st.Args) == 0 {
			st.Args = nil
		}
		sc.Steps = append(sc.Steps, st)
	}
	return sc
}

func randomTicketScenario(rng *vlib.Rng, nsteps int) scenario {
	sc := scenario{Kind: "tickets"}
	addrs := []string{"192.0.2.1:443", "198.51.100.7:9001", "[2001:db8::1]:80", "203.0.113.5:1", "10.0.0.1:65535"}
	for i := 0; i < nsteps; i++ {
		st := step{Seed: rng.U64() | 1}
		n := rng.Range(1, 3)
		for j := 0; j < n; j++ {
			a := vlib.Pick(rng, addrs)
			if rng.Intn(3) > 0 || i == 0 && j == 0 {
				l := 144
				if rng.Intn(10) == 0 {
					l = 143
				}
				st.TOps = append(st.TOps, ticketOp{Op: "store", Addr: a, Raw: hexOf(rng, l)})
			} else {
				st.TOps = append(st.TOps, ticketOp{Op: "get", Addr: a})
			}
		}
		sc.Steps = append(sc.Steps, st)
	}
	return sc
}

// ---------------------------------------------------------------------------------------------

func (c *checker) runCase(rc replayCase, rng *vlib.Rng) {
	switch rc.Type {
	case "crash", "sequence":
		if rc.Scenario == nil {
			return
		}
		only := &rc
		if rc.Type == "sequence" {
			only = nil
		}
		if rc.Scenario.Kind == "tickets" {
			c.ticketScenario(*rc.Scenario, only, rng)
		} else {
			c.serverScenario(*rc.Scenario, only, rng)
		}
	case "fault":
		c.faultCase(rc)
	case "multi":
		c.multiScenario(rc.Multi)
	case "roundtrip":
		c.roundTrip(rc)
	case "malformed":
		c.malformedCert(rc)
	case "prefix":
		content, _ := hex.DecodeString(rc.Content)
		if rc.Len <= len(content) {
			c.prefixTie(rc.File, content, []int{rc.Len})
		}
	}
}

func main() {
	r := vlib.NewRun("C18")
	r.Rule = "case = one start (state directory + arguments → traced file-system calls, outcome), one crash state (directory after a prefix of the traced calls, the write in flight torn at a byte) with the start-up run on it, one bridge-line round trip, one prefix of a persisted file, one refused start followed by a plain start, or one start / ticket checkpoint whose writes fail beyond k bytes (RLIMIT_FSIZE) followed by a plain start; non-trivial = a restart (not the first start) / a crash strictly inside the call sequence / a real identity round trip / a strict non-empty prefix; distinct by directory contents + arguments + calls"
	r.Assumptions = []string{
		"process-kill crash model: every completed system call is durable (page cache survives), rename(2) is atomic, a write may be torn at any byte; power-loss reordering is not claimed",
		"encoding/json as modelled: the tie checks on every prefix that a strict prefix of the persisted object never loads and the whole object does",
		"I/O faults: only failing/short write(2) (RLIMIT_FSIZE in the helper, SIGXFSZ ignored); failing open/fsync/close/rename are not injected",
		"Curve25519 public-key derivation is outside the model (the key table is supplied by the harness from common/ntor)",
	}
	d := r.Driver("statefs")
	defer d.Close()
	scratch, err := os.MkdirTemp("", "c18-")
	if err != nil {
		panic(err)
	}
	defer os.RemoveAll(scratch)
	finish := func() {
		d.Close()
		os.RemoveAll(scratch)
		r.Finish()
	}
	c := &checker{r: r, d: d, scratch: scratch, allTorn: r.Thorough(), workers: 16, disc: map[string]int{}}
	if err := transports.Init(); err != nil {
		panic(err)
	}
	if err := buildStarter(scratch); err != nil {
		r.Violate("starter-does-not-build", "correspondence", err.Error(), replayCase{Type: "build"})
		finish()
	}
	rng := vlib.NewRng(r.Seed)
	{
		// the comment block above the bridge line is a parameter of the model: read it from a
		// bridge-line file the code under test writes
		dir := c.mkdir()
		rep, _, err := runHelper(request{Cmd: "server", Dir: dir, Seed: 99}, false, scratch)
		b := readDir(dir)[bridgeFile]
		os.RemoveAll(dir)
		i := bytes.LastIndex(b, []byte("Bridge obfs4"))
		if err != nil || !rep.OK || i < 0 {
			r.Violate("helper-failed", "correspondence", fmt.Sprintf("cannot obtain a bridge-line file: %v %s", err, rep.Err), replayCase{Type: "build"})
			finish()
		}
		c.bridgePrefix = b[:i]
	}

	if r.ReplayIn != "" {
		var rc replayCase
		if err := r.LoadReplay(&rc); err == nil {
			c.allTorn = true
			c.runCase(rc, rng)
		}
		finish()
	}

	// 0. corpus: past failures first
	if verif := os.Getenv("VERIF_DIR"); verif != "" {
		files, _ := filepath.Glob(filepath.Join(verif, "corpus", "C18", "*.json"))
		sort.Strings(files)
		for _, f := range files {
			b, err := os.ReadFile(f)
			if err != nil {
				continue
			}
			var doc struct {
				Case replayCase `json:"case"`
			}
			if json.Unmarshal(b, &doc) == nil {
				c.runCase(doc.Case, rng.Fork())
				r.Count("corpus", filepath.Base(f))
			}
		}
	}

	// 1. the fixed start sequence, every crash point, every torn length
	mainSc := scenario{Kind: "server", Steps: []step{
		{Seed: r.Seed*2 + 1},
		{},
		{Args: map[string]string{"iat-mode": "1"}},
		{},
		{Args: map[string]string{"iat-mode": "2"}},
	}}
	saveTorn := c.allTorn
	c.allTorn = true
	c.serverScenario(mainSc, nil, rng.Fork())
	tmain := scenario{Kind: "tickets", Steps: []step{
		{TOps: []ticketOp{{Op: "store", Addr: "192.0.2.1:443", Raw: hexOf(rng, 144)}, {Op: "store", Addr: "[2001:db8::1]:80", Raw: hexOf(rng, 144)}}},
		{TOps: []ticketOp{{Op: "get", Addr: "192.0.2.1:443"}, {Op: "get", Addr: "203.0.113.5:1"}}},
		{TOps: []ticketOp{{Op: "get", Addr: "[2001:db8::1]:80"}}},
	}}
	c.ticketScenario(tmain, nil, rng.Fork())
	c.allTorn = saveTorn

	// 1b. all nine IAT override transitions, each followed by a plain start; then refused starts
	c.serverScenario(iatTransitions(r.Seed*2+3), nil, rng.Fork())
	refusedSc := scenario{Kind: "server", Steps: []step{
		{Seed: r.Seed*2 + 5},
		{Args: map[string]string{"iat-mode": "2"}},
		// refused starts (invalid / garbage / partial arguments), each followed by a plain start
		{Args: map[string]string{"iat-mode": "3"}},
		{},
		{Args: map[string]string{"iat-mode": "x"}},
		{Args: map[string]string{"iat-mode": "-1"}},
		{Args: map[string]string{"iat-mode": "1"}},
		{Args: map[string]string{"iat-mode": "7"}},
		{},
		{Args: map[string]string{"node-id": strings.Repeat("ab", 20)}},
		{Args: map[string]string{"node-id": "not-hex", "private-key": strings.Repeat("cd", 32), "drbg-seed": strings.Repeat("ef", 24)}},
		{Args: map[string]string{"node-id": strings.Repeat("ab", 20), "private-key": strings.Repeat("cd", 31), "drbg-seed": strings.Repeat("ef", 24), "iat-mode": "1"}},
		{Args: map[string]string{"node-id": strings.Repeat("ab", 20), "private-key": strings.Repeat("cd", 32), "drbg-seed": strings.Repeat("ef", 23)}},
		{Args: map[string]string{"node-id": strings.Repeat("ab", 20), "private-key": strings.Repeat("cd", 32), "drbg-seed": strings.Repeat("ef", 24), "iat-mode": "9"}},
		{},
		// an over-long drbg-seed is accepted (truncated to 24 bytes): explicit identity, then plain
		{Args: map[string]string{"node-id": strings.Repeat("AB", 20), "private-key": strings.Repeat("cd", 32), "drbg-seed": strings.Repeat("ef", 26)}},
		{},
		}}
	c.serverScenario(refusedSc, nil, rng.Fork())

	// 1b'. the first start on an empty directory with each override and without, then plain starts
	for i, ov := range []string{"", "0", "1", "2"} {
		st0 := step{Seed: r.Seed*2 + 11 + uint64(2*i)}
		if ov != "" {
			st0.Args = map[string]string{"iat-mode": ov}
		}
		c.serverScenario(scenario{Kind: "server", Steps: []step{st0, {}, {}}}, nil, rng.Fork())
	}

	// 1b''. several starts inside one process, two directories, mixed with process restarts
	for _, h := range fixedMultiHistories(r.Seed*2 + 31) {
		c.multiScenario(h)
	}
	for i, n := 0, r.Scale(8, 80); i < n; i++ {
		c.multiScenario(randomMultiHistory(rng.Fork()))
	}

	// 1c. I/O faults: failing / short writes at a dense sample of offsets
	c.faultFamily(rng.Fork())

	// 2. every prefix of a persisted state file / ticket file (the JSON assumption)
	{
		dir := c.mkdir()
		rep, _, err := runHelper(request{Cmd: "server", Dir: dir, Seed: r.Seed + 77, Args: map[string]string{"iat-mode": "1"}}, false, scratch)
		content := readDir(dir)[stateFile]
		if err != nil || !rep.OK || len(content) == 0 {
			r.Violate("helper-failed", "correspondence", fmt.Sprintf("fresh start: %v %v", err, rep.Err), replayCase{Type: "build"})
		} else {
			lens := []int{}
			for l := 0; l <= len(content); l++ {
				lens = append(lens, l)
			}
			c.prefixTie(stateFile, content, lens)
		}
		os.RemoveAll(dir)
		dir = c.mkdir()
		rep, _, err = runHelper(request{Cmd: "tickets", Dir: dir, Ops: []ticketOp{{Op: "store", Addr: "192.0.2.1:443", Raw: hexOf(rng, 144)}, {Op: "store", Addr: "198.51.100.7:9001", Raw: hexOf(rng, 144)}}}, false, scratch)
		content = readDir(dir)[ticketFile]
		if err != nil || !rep.OK || len(content) == 0 {
			r.Violate("helper-failed", "correspondence", fmt.Sprintf("ticket store: %v %v", err, rep.Err), replayCase{Type: "build"})
		} else {
			lens := []int{}
			stepLen := 1
			if !r.Thorough() {
				stepLen = 3
			}
			for l := 0; l < len(content); l += stepLen {
				lens = append(lens, l)
			}
			lens = append(lens, len(content)-1, len(content))
			c.prefixTie(ticketFile, content, lens)
			// an expired and a damaged ticket are skipped on load
			m := map[string]*ticketJSON{}
			if json.Unmarshal(content, &m) == nil {
				m["192.0.2.1:443"].IssuedAt = time.Now().Unix() - 604800 - 5
				m["10.9.9.9:9"] = &ticketJSON{KeyTicket: "AAAA", IssuedAt: time.Now().Unix()}
				b, _ := json.Marshal(m)
				c.prefixTie(ticketFile, b, []int{len(b)})
			}
		}
		os.RemoveAll(dir)
	}

	// 3. random start sequences (arguments, IAT overrides, explicit identities) × crash points
	nseq := r.Scale(6, 40)
	for i := 0; i < nseq; i++ {
		c.serverScenario(randomServerScenario(rng.Fork(), rng.Range(3, 6)), nil, rng.Fork())
	}
	ntk := r.Scale(3, 16)
	for i := 0; i < ntk; i++ {
		c.ticketScenario(randomTicketScenario(rng.Fork(), rng.Range(2, 4)), nil, rng.Fork())
	}

	// 4. bridge-line round trips, both forms, and damaged certs
	nrt := r.Scale(300, 3000)
	var lastCert string
	for i := 0; i < nrt; i++ {
		rc := replayCase{Type: "roundtrip", NodeID: hexOf(rng, 20), Priv: hexOf(rng, 32), IAT: strconv.Itoa(rng.Intn(3))}
		switch i {
		case 0:
			rc.NodeID, rc.Priv = strings.Repeat("00", 20), strings.Repeat("00", 32)
		case 1:
			rc.NodeID, rc.Priv = strings.Repeat("ff", 20), strings.Repeat("ff", 32)
		}
		c.roundTrip(rc)
		lastCert = oracleCert(rc.NodeID, rc.Priv)
		for k := 0; k < 3; k++ {
			c.malformedCert(replayCase{Type: "malformed", Text: mutateCert(rng, lastCert)})
		}
	}

	r.Notes["disciplines_seen"] = c.disc
	r.Notes["crash_enumeration"] = map[bool]string{true: "every prefix of every traced start, every torn-write length",
		false: "every prefix of every traced start; every torn-write length for the fixed start/ticket sequences, a dense sample (1,2,3,7,quartiles,len-3..len-1,6 random) for the random sequences"}[r.Thorough()]
	r.Exhaustive = true
	finish()
}
