package main

// System-call trace of the start-up helper (strace) → file-system ops of the model.

import (
	"bytes"
	"encoding/hex"
	"encoding/json"
	"fmt"
	"os"
	"os/exec"
	"path/filepath"
	"regexp"
	"strconv"
	"strings"
)

// sysOp is one file-system mutating system call inside the state directory.
type sysOp struct {
	Kind  string `json:"kind"`            // T open(O_TRUNC|O_CREAT) W write C close F fsync R rename U unlink M mkdir
	Name  string `json:"name"`            // file name relative to the state directory
	Name2 string `json:"name2,omitempty"` // rename target
	Data  []byte `json:"data,omitempty"`  // bytes written
	Full  []byte `json:"-"`               // W: the whole buffer the call was given (≠ Data on a short write)
	Text  string `json:"text"`            // the system call as traced (shortened), for replays
	Seq   int    `json:"-"`               // Failed: number of ops recorded before it
}

func (o sysOp) canon() string {
	switch o.Kind {
	case "W":
		return "W:" + o.Name + ":" + hexOrDash(o.Data)
	case "R":
		return "R:" + o.Name + ":" + o.Name2
	}
	return o.Kind + ":" + o.Name
}

func hexOrDash(b []byte) string {
	if len(b) == 0 {
		return "-"
	}
	return hex.EncodeToString(b)
}

const straceSyscalls = "openat,open,creat,write,pwrite64,writev,pwritev,pwritev2,close,rename,renameat,renameat2," +
	"fsync,fdatasync,unlink,unlinkat,rmdir,mkdir,mkdirat,ftruncate,truncate,link,linkat,symlink,symlinkat," +
	"fchmod,fchmodat,chmod,fallocate,copy_file_range,sendfile"

var (
	reLine    = regexp.MustCompile(`^(\d+)\s+(.*)$`)
	reCall    = regexp.MustCompile(`^([a-z0-9_]+)\((.*)\)\s+=\s+(-?\d+|\?)(.*)$`)
	reResumed = regexp.MustCompile(`^<\.\.\. ([a-z0-9_]+) resumed>(.*)$`)
	reHexStr  = regexp.MustCompile(`(?:\\x[0-9a-f]{2})+`)
	reFdPath  = regexp.MustCompile(`^(-?\d+|AT_FDCWD)(?:<(.*)>)?$`)
)

func unhexEscapes(s string) []byte {
	s = strings.ReplaceAll(s, `\x`, "")
	b, err := hex.DecodeString(s)
	if err != nil {
		return nil
	}
	return b
}

// strArg decodes a quoted, fully hex-escaped strace string argument.
func strArg(a string) (val []byte, truncated bool, ok bool) {
	a = strings.TrimSpace(a)
	if strings.HasSuffix(a, "...") {
		truncated = true
		a = strings.TrimSuffix(a, "...")
	}
	if len(a) < 2 || a[0] != '"' || a[len(a)-1] != '"' {
		return nil, truncated, false
	}
	body := a[1 : len(a)-1]
	if body == "" {
		return []byte{}, truncated, true
	}
	if !reHexStr.MatchString(body) || reHexStr.FindString(body) != body {
		return nil, truncated, false
	}
	return unhexEscapes(body), truncated, true
}

func fdArg(a string) (fd string, path string) {
	m := reFdPath.FindStringSubmatch(strings.TrimSpace(a))
	if m == nil {
		return "", ""
	}
	p := m[2]
	if p != "" {
		p = string(unhexEscapes(p))
	}
	return m[1], p
}

type traceResult struct {
	Ops        []sysOp
	Unmodelled []string // calls touching the state directory that the model has no op for
	Failed     []sysOp  // failed write(2) calls on state-directory files (Full = the buffer), in order
	Raw        int      // traced lines
}

// parseTrace maps the strace output to ops on files directly inside dir.
func parseTrace(out []byte, dir string) (*traceResult, error) {
	res := &traceResult{}
	pending := map[string]string{}
	wfds := map[string]string{} // fd number → relative name, for descriptors opened for writing
	rel := func(p string) (string, bool) {
		if p == "" {
			return "", false
		}
		if !filepath.IsAbs(p) {
			return "", false // pipes, sockets, anon inodes; the helper is always given an absolute directory
		}
		p = filepath.Clean(p)
		if !strings.HasPrefix(p, dir+"/") {
			return "", false
		}
		return strings.TrimPrefix(p, dir+"/"), true
	}
	short := func(s string) string {
		s = reHexStr.ReplaceAllStringFunc(s, func(h string) string {
			t := strings.ReplaceAll(string(unhexEscapes(h)), dir+"/", "")
			if len(t) > 48 {
				return t[:48] + "…"
			}
			return t
		})
		if len(s) > 200 {
			s = s[:200] + "…"
		}
		return s
	}
	for _, ln := range strings.Split(string(out), "\n") {
		m := reLine.FindStringSubmatch(ln)
		if m == nil {
			continue
		}
		pid, rest := m[1], m[2]
		if strings.HasPrefix(rest, "+++") || strings.HasPrefix(rest, "---") {
			continue
		}
		if strings.HasSuffix(rest, "<unfinished ...>") {
			pending[pid] = strings.TrimSuffix(rest, "<unfinished ...>")
			continue
		}
		if r := reResumed.FindStringSubmatch(rest); r != nil {
			rest = pending[pid] + r[2]
			delete(pending, pid)
		}
		c := reCall.FindStringSubmatch(rest)
		if c == nil {
			continue
		}
		res.Raw++
		name, argstr, ret := c[1], c[2], c[3]
		args := strings.Split(argstr, ", ")
		retN, _ := strconv.Atoi(ret)
		failed := ret == "?" || retN < 0
		add := func(o sysOp) { o.Text = short(rest); res.Ops = append(res.Ops, o) }
		unmodelled := func() { res.Unmodelled = append(res.Unmodelled, short(rest)) }
		switch name {
		case "openat", "open", "creat":
			var pathArg, flags string
			switch name {
			case "openat":
				if len(args) < 3 {
					continue
				}
				pathArg, flags = args[1], args[2]
			case "open":
				if len(args) < 2 {
					continue
				}
				pathArg, flags = args[0], args[1]
			case "creat":
				pathArg, flags = args[0], "O_WRONLY|O_CREAT|O_TRUNC"
			}
			p, _, ok := strArg(pathArg)
			if !ok {
				continue
			}
			n, in := rel(string(p))
			if !in || failed {
				continue
			}
			if !strings.Contains(flags, "O_WRONLY") && !strings.Contains(flags, "O_RDWR") {
				continue // read-only
			}
			fdno := strings.SplitN(strings.TrimSpace(ret), "<", 2)[0]
			wfds[fdno] = n
			switch {
			case strings.Contains(flags, "O_APPEND"):
				unmodelled()
			case strings.Contains(flags, "O_TRUNC"), strings.Contains(flags, "O_CREAT") && strings.Contains(flags, "O_EXCL"):
				add(sysOp{Kind: "T", Name: n})
			default:
				unmodelled() // opened for writing without truncation: overwrite in place at offset 0
			}
		case "write":
			if len(args) < 3 {
				continue
			}
			_, p := fdArg(args[0])
			n, in := rel(p)
			if !in {
				continue
			}
			if failed {
				if data, trunc, ok := strArg(args[1]); ok && !trunc {
					res.Failed = append(res.Failed, sysOp{Kind: "W", Name: n, Full: data, Text: short(rest), Seq: len(res.Ops)})
				}
				continue
			}
			data, trunc, ok := strArg(args[1])
			if !ok || trunc || retN > len(data) {
				return nil, fmt.Errorf("cannot decode write data: %s", short(rest))
			}
			add(sysOp{Kind: "W", Name: n, Data: data[:retN], Full: data})
		case "close":
			fd, p := fdArg(args[0])
			if n, in := rel(p); in && !failed {
				if _, w := wfds[fd]; w {
					add(sysOp{Kind: "C", Name: wfds[fd]})
					_ = n
				}
			}
			delete(wfds, fd)
		case "fsync", "fdatasync":
			_, p := fdArg(args[0])
			if n, in := rel(p); in && !failed {
				add(sysOp{Kind: "F", Name: n})
			}
		case "rename", "renameat", "renameat2":
			var a, b string
			if name == "rename" {
				if len(args) < 2 {
					continue
				}
				a, b = args[0], args[1]
			} else {
				if len(args) < 4 {
					continue
				}
				a, b = args[1], args[3]
			}
			pa, _, ok1 := strArg(a)
			pb, _, ok2 := strArg(b)
			if !ok1 || !ok2 || failed {
				continue
			}
			na, ina := rel(string(pa))
			nb, inb := rel(string(pb))
			if ina && inb {
				if name == "renameat2" && len(args) >= 5 && strings.TrimSpace(args[4]) != "0" {
					unmodelled()
				} else {
					add(sysOp{Kind: "R", Name: na, Name2: nb})
				}
			} else if ina || inb {
				unmodelled()
			}
		case "unlink", "unlinkat", "rmdir", "mkdir", "mkdirat":
			idx := 0
			if name == "unlinkat" || name == "mkdirat" {
				idx = 1
			}
			if len(args) <= idx {
				continue
			}
			p, _, ok := strArg(args[idx])
			if !ok || failed {
				continue
			}
			if n, in := rel(string(p)); in {
				if strings.HasPrefix(name, "mkdir") {
					add(sysOp{Kind: "M", Name: n})
				} else {
					add(sysOp{Kind: "U", Name: n})
				}
			}
		case "chmod", "fchmodat", "fchmod":
			// permissions are not part of the model (no content change)
		default:
			// pwrite, writev, truncate, link, … : any of these on a state file is outside the model
			touched := false
			for _, a := range args {
				if _, p := fdArg(a); p != "" {
					if _, in := rel(p); in {
						touched = true
					}
				}
				if p, _, ok := strArg(a); ok {
					if _, in := rel(string(p)); in {
						touched = true
					}
				}
			}
			if touched && !failed {
				unmodelled()
			}
		}
	}
	return res, nil
}

// helper process ------------------------------------------------------------------------------

type ticketOp struct {
	Op   string `json:"op"`
	Addr string `json:"addr"`
	Raw  string `json:"raw,omitempty"`
}

type request struct {
	Cmd  string            `json:"cmd"`
	Dir  string            `json:"dir"`
	Args map[string]string `json:"args,omitempty"`
	Seed uint64            `json:"seed,omitempty"`
	Ops  []ticketOp        `json:"ops,omitempty"`
	// Starts: cmd "multi" — a history of ServerFactory calls inside this one process
	Starts []multiStart `json:"starts,omitempty"`
	// FsizeLimit: RLIMIT_FSIZE (bytes) the helper sets on itself, SIGXFSZ ignored
	FsizeLimit *uint64 `json:"fsize_limit,omitempty"`
}

type multiStart struct {
	Dir  string            `json:"dir"`
	Args map[string]string `json:"args,omitempty"`
}

type reply struct {
	Multi []multiResult `json:"multi,omitempty"`
	OK    bool       `json:"ok"`
	Err   string     `json:"err,omitempty"`
	Cert  string     `json:"cert,omitempty"`
	IAT   string     `json:"iat,omitempty"`
	InUse string     `json:"iat_in_use,omitempty"`
	Keys  []string   `json:"keys,omitempty"`
	Addrs [][]string `json:"addrs,omitempty"`
}

var starterBin string

func helperEnv() []string {
	env := []string{}
	for _, e := range os.Environ() {
		if strings.HasPrefix(e, "GOMAXPROCS=") {
			continue
		}
		env = append(env, e)
	}
	return append(env, "GOMAXPROCS=2")
}

// runHelper runs the start-up helper; with traced=true under strace.
func runHelper(req request, traced bool, scratch string) (reply, *traceResult, error) {
	js, _ := json.Marshal(req)
	var rep reply
	var cmd *exec.Cmd
	traceFile := ""
	if traced {
		f, err := os.CreateTemp(scratch, "trace-*.txt")
		if err != nil {
			return rep, nil, err
		}
		traceFile = f.Name()
		f.Close()
		defer os.Remove(traceFile)
		cmd = exec.Command("strace", "-f", "-y", "-xx", "-s", "1000000", "-e", "trace="+straceSyscalls,
			"-o", traceFile, starterBin, string(js))
	} else {
		cmd = exec.Command(starterBin, string(js))
	}
	cmd.Env = helperEnv()
	var stdout, stderr bytes.Buffer
	cmd.Stdout, cmd.Stderr = &stdout, &stderr
	if err := cmd.Run(); err != nil {
		return rep, nil, fmt.Errorf("helper failed: %v: %s", err, stderr.String())
	}
	line := strings.TrimSpace(stdout.String())
	if err := json.Unmarshal([]byte(line), &rep); err != nil {
		return rep, nil, fmt.Errorf("helper output unparsable: %q (%s)", line, stderr.String())
	}
	if !traced {
		return rep, nil, nil
	}
	raw, err := os.ReadFile(traceFile)
	if err != nil {
		return rep, nil, err
	}
	tr, err := parseTrace(raw, req.Dir)
	if err != nil {
		return rep, nil, err
	}
	if tr.Raw == 0 {
		return rep, nil, fmt.Errorf("strace produced no system calls (ptrace unavailable?): %s", stderr.String())
	}
	return rep, tr, nil
}

// buildStarter compiles harness/c18/starter against the tree under test.
func buildStarter(scratch string) error {
	verif := os.Getenv("VERIF_DIR")
	if verif == "" {
		wd, _ := os.Getwd()
		verif = wd
	}
	starterBin = filepath.Join(scratch, "c18-starter")
	cmd := exec.Command("go", "build", "-tags", "verif", "-o", starterBin, "./c18/starter")
	cmd.Dir = filepath.Join(verif, "harness")
	cmd.Env = append(os.Environ(), "GOFLAGS=-mod=mod", "GOPROXY=off", "GOSUMDB=off", "GOTOOLCHAIN=local", "CGO_ENABLED=0")
	out, err := cmd.CombinedOutput()
	if err != nil {
		return fmt.Errorf("go build ./c18/starter: %v\n%s", err, out)
	}
	return nil
}
