// C17 — SOCKS5 front end: the real socks5.Handshake / Reply / parseClientParameters against the
// Lean model (driver `socks`), plus implementation-level oracles written from the property text:
// encode -> real handshake -> exactly the encoded target and arguments for every chunking; no
// panic and no altered request on malformed input; bytes sent past a message before its reply
// make the handshake fail.
package main

import (
	"encoding/hex"
	"encoding/json"
	"errors"
	"fmt"
	"io"
	"net"
	"os"
	"path/filepath"
	"sort"
	"strconv"
	"strings"

	"gitlab.com/yawning/obfs4.git/common/socks5"

	"verif/harness/vlib"
)

// HB is a byte string that is stored as hex in replay files.
type HB []byte

func (h HB) MarshalText() ([]byte, error) { return []byte(hex.EncodeToString(h)), nil }
func (h *HB) UnmarshalText(b []byte) error {
	v, err := hex.DecodeString(string(b))
	*h = v
	return err
}

type kv struct {
	K HB `json:"k"`
	V HB `json:"v"`
}

// tcase is one replayable case.
type tcase struct {
	Kind string `json:"kind"` // session | args | enc | target
	// session
	Phases   [][]HB `json:"phases,omitempty"` // chunks per phase; a phase is fed only after the previous one was consumed
	Stepwise bool   `json:"stepwise,omitempty"`
	EOF      bool   `json:"eof,omitempty"`
	Reply    int    `json:"reply,omitempty"`
	Note     string `json:"note,omitempty"`
	// what an honest client encoded (S oracle), if any
	Honest    bool   `json:"honest,omitempty"`
	Atyp      int    `json:"atyp,omitempty"`
	Addr      HB     `json:"addr,omitempty"`
	Port      int    `json:"port,omitempty"`
	Pairs     []kv   `json:"pairs,omitempty"`
	MsgEnds   []int  `json:"msg_ends,omitempty"` // stream offsets at which the honest messages end
	// args / enc / target
	Str HB `json:"str,omitempty"`
	// glue: the logging configuration of obfs4proxy
	Glue *glueCfg `json:"glue,omitempty"`
}

// ---------------------------------------------------------------- independent encoders / decoders

func escape(b []byte, key bool) []byte {
	var out []byte
	for _, c := range b {
		if c == '\\' || c == ';' || (key && c == '=') {
			out = append(out, '\\')
		}
		out = append(out, c)
	}
	return out
}

func encodeArgs(pairs []kv) []byte {
	var parts [][]byte
	for _, p := range pairs {
		parts = append(parts, append(append(escape(p.K, true), '='), escape(p.V, false)...))
	}
	var out []byte
	for i, p := range parts {
		if i > 0 {
			out = append(out, ';')
		}
		out = append(out, p...)
	}
	return out
}

func splitUserPass(s []byte) ([]byte, []byte) {
	if len(s) <= 255 {
		return s, []byte{0}
	}
	return s[:255], s[255:]
}

func groupPairs(pairs []kv) map[string][]string {
	m := map[string][]string{}
	for _, p := range pairs {
		m[string(p.K)] = append(m[string(p.K)], string(p.V))
	}
	return m
}

func canonArgs(m map[string][]string) string {
	if len(m) == 0 {
		return "-"
	}
	keys := make([]string, 0, len(m))
	for k := range m {
		keys = append(keys, k)
	}
	sort.Strings(keys)
	var sb strings.Builder
	for i, k := range keys {
		if i > 0 {
			sb.WriteByte(';')
		}
		sb.WriteString(vlib.Hex([]byte(k)))
		sb.WriteByte('=')
		for j, v := range m[k] {
			if j > 0 {
				sb.WriteByte(',')
			}
			sb.WriteString(vlib.Hex([]byte(v)))
		}
	}
	return sb.String()
}

// refArgs: the argument grammar of the PT spec, written independently of args.go: tokenise
// escapes, split on unescaped ';', split each segment at its first unescaped '='.
func refArgs(s []byte) (map[string][]string, bool) {
	m := map[string][]string{}
	if len(s) == 0 {
		return m, true
	}
	type tok struct {
		b   byte
		lit bool
	}
	var toks []tok
	for i := 0; i < len(s); i++ {
		if s[i] == '\\' {
			if i+1 >= len(s) {
				return nil, false
			}
			n := s[i+1]
			if n != '\\' && n != ';' && n != '=' {
				return nil, false
			}
			toks = append(toks, tok{n, true})
			i++
		} else {
			toks = append(toks, tok{s[i], false})
		}
	}
	segs := [][]tok{nil}
	for _, t := range toks {
		if t.b == ';' && !t.lit {
			segs = append(segs, nil)
		} else {
			segs[len(segs)-1] = append(segs[len(segs)-1], t)
		}
	}
	for _, seg := range segs {
		eq := -1
		for i, t := range seg {
			if t.b == '=' && !t.lit {
				eq = i
				break
			}
		}
		if eq <= 0 {
			return nil, false // no '=' (also: empty segment, trailing ';') or empty key
		}
		var k, v []byte
		for _, t := range seg[:eq] {
			k = append(k, t.b)
		}
		for _, t := range seg[eq+1:] {
			v = append(v, t.b)
		}
		m[string(k)] = append(m[string(k)], string(v))
	}
	return m, true
}

// refHandshake: RFC 1928/1929 + PT spec over the flat byte stream (no notion of segments).
// ok=false: the stream does not contain a complete acceptable exchange.
func refHandshake(s []byte) (target string, args map[string][]string, ok bool) {
	pos := 0
	need := func(n int) []byte {
		if pos+n > len(s) {
			return nil
		}
		b := s[pos : pos+n]
		pos += n
		return b
	}
	h := need(2)
	if h == nil || h[0] != 5 {
		return
	}
	methods := need(int(h[1]))
	if methods == nil && h[1] != 0 {
		return
	}
	hasUP, hasNone := false, false
	for _, m := range methods {
		hasUP = hasUP || m == 2
		hasNone = hasNone || m == 0
	}
	args = map[string][]string{}
	switch {
	case hasUP:
		a := need(2)
		if a == nil || a[0] != 1 || a[1] == 0 {
			return
		}
		uname := need(int(a[1]))
		pl := need(1)
		if uname == nil || pl == nil || pl[0] == 0 {
			return
		}
		passwd := need(int(pl[0]))
		if passwd == nil {
			return
		}
		str := append([]byte(nil), uname...)
		if !(len(passwd) == 1 && passwd[0] == 0) {
			str = append(str, passwd...)
		}
		var good bool
		if args, good = refArgs(str); !good {
			return
		}
	case hasNone:
	default:
		return
	}
	c := need(4)
	if c == nil || c[0] != 5 || c[1] != 1 || c[2] != 0 {
		return
	}
	var host string
	switch c[3] {
	case 1:
		a := need(4)
		if a == nil {
			return
		}
		host = fmt.Sprintf("%d.%d.%d.%d", a[0], a[1], a[2], a[3])
	case 3:
		l := need(1)
		if l == nil || l[0] == 0 {
			return
		}
		a := need(int(l[0]))
		if a == nil {
			return
		}
		host = string(a)
	case 4:
		a := need(16)
		if a == nil {
			return
		}
		host = "[" + net.IP(a).String() + "]"
	default:
		return
	}
	p := need(2)
	if p == nil {
		return
	}
	return host + ":" + strconv.Itoa(int(p[0])*256+int(p[1])), args, true
}

// ---------------------------------------------------------------- running the real code

type implResult struct {
	outcome string // req <t> <args> | fail eof | fail proto | blocked | panic
	written []byte
	perStep [][]byte // bytes written after each phase (stepwise sessions)
	req     *socks5.Request
	steps   int // phases actually fed
}

func flatten(phases [][]HB) [][]byte {
	var out [][]byte
	for _, p := range phases {
		for _, c := range p {
			out = append(out, c)
		}
	}
	return out
}

func concat(chunks [][]byte) []byte {
	var out []byte
	for _, c := range chunks {
		out = append(out, c...)
	}
	return out
}

func runImpl(c tcase) implResult {
	conn := vlib.NewScriptConn()
	var (
		req *socks5.Request
		err error
		res implResult
	)
	op := conn.Start(func() { req, err = socks5.Handshake(conn) })
	finished := false
	if c.Stepwise {
		for _, p := range c.Phases {
			for _, ch := range p {
				conn.Feed(ch)
			}
			res.steps++
			finished = conn.Wait(op)
			w := conn.TakeWritten()
			res.perStep = append(res.perStep, w)
			res.written = append(res.written, w...)
			if finished {
				break
			}
		}
		if !finished && c.EOF {
			conn.FeedEOF()
			finished = conn.Wait(op)
			res.written = append(res.written, conn.TakeWritten()...)
		}
	} else {
		for _, ch := range flatten(c.Phases) {
			conn.Feed(ch)
		}
		if c.EOF {
			conn.FeedEOF()
		}
		finished = conn.Wait(op)
		res.written = append(res.written, conn.TakeWritten()...)
	}
	switch {
	case !finished:
		res.outcome = "blocked"
		conn.FeedEOF() // let the goroutine go
		conn.Wait(op)
		conn.TakeWritten()
	case op.Panic != nil:
		res.outcome = "panic"
	case err == nil && req != nil:
		res.req = req
		res.outcome = "req " + vlib.Hex([]byte(req.Target)) + " " + canonArgs(map[string][]string(req.Args))
	case errors.Is(err, io.EOF) || errors.Is(err, io.ErrUnexpectedEOF):
		res.outcome = "fail eof"
	default:
		res.outcome = "fail proto"
	}
	return res
}

func chunkArgs(chunks [][]byte) string {
	var sb strings.Builder
	for _, c := range chunks {
		if len(c) == 0 {
			continue
		}
		sb.WriteByte(' ')
		sb.WriteString(hex.EncodeToString(c))
	}
	return sb.String()
}

func b2i(b bool) int {
	if b {
		return 1
	}
	return 0
}

// expectedTarget: what the destination is, stated without looking at the code under test.
func targetNamesDestination(target string, c tcase) (bool, string) {
	switch c.Atyp {
	case 3:
		want := string(c.Addr) + ":" + strconv.Itoa(c.Port)
		return target == want, want
	default:
		host, port, err := net.SplitHostPort(target)
		if err != nil {
			return false, "a host:port that net.SplitHostPort accepts"
		}
		ip := net.ParseIP(host)
		want := net.IP(c.Addr)
		if ip == nil || !ip.Equal(want) || port != strconv.Itoa(c.Port) {
			return false, net.JoinHostPort(want.String(), strconv.Itoa(c.Port))
		}
		if c.Atyp == 4 && !strings.HasPrefix(target, "[") {
			return false, "an IPv6 literal in brackets"
		}
		return true, ""
	}
}

func checkSession(r *vlib.Run, d *vlib.Driver, c tcase) {
	res := runImpl(c)
	chunks := flatten(c.Phases)
	stream := concat(chunks)
	impl := res.outcome + " w=" + vlib.Hex(res.written)
	model := d.Call("run %d%s", b2i(c.EOF), chunkArgs(chunks))

	nchunks := 0
	for _, ch := range chunks {
		if len(ch) > 0 {
			nchunks++
		}
	}
	key := fmt.Sprintf("%v/%v/%s", c.Stepwise, c.EOF, chunkArgs(chunks))
	nontrivial := len(res.written) >= 2 && nchunks >= 2
	r.Case(key, nontrivial)
	r.Validated(1)
	for _, n := range strings.Split(c.Note, "+") {
		if !strings.Contains(n, "/") {
			n = "malformed/" + n
		}
		r.Count("session-kind", n)
	}
	r.Count("outcome", strings.SplitN(res.outcome, " ", 3)[0]+func() string {
		if strings.HasPrefix(res.outcome, "fail") {
			return " " + strings.Fields(res.outcome)[1]
		}
		return ""
	}())
	r.Count("chunks", bucket(nchunks))
	r.Count("stream-len", bucket(len(stream)))
	r.Count("reply-bytes", fmt.Sprint(len(res.written)))
	if c.Honest {
		r.Count("atyp", fmt.Sprint(c.Atyp))
		r.Count("arg-pairs", bucket(len(c.Pairs)))
		argLen := len(encodeArgs(c.Pairs))
		switch {
		case argLen == 0:
			r.Count("arg-string", "none (no-auth)")
		case argLen <= 255:
			r.Count("arg-string", "fits username")
		case argLen == 256:
			r.Count("arg-string", "spills 1 byte")
		default:
			r.Count("arg-string", "spills into password")
		}
	}
	sample(r, strings.SplitN(c.Note, "/", 2)[0], map[string]interface{}{"kind": c.Note, "chunks": strings.TrimSpace(chunkArgs(chunks)), "eof": c.EOF, "impl": impl, "model": model})

	// ---- S: oracles stated from the property
	if res.outcome == "panic" {
		r.Violate("handshake-panics", "impl-oracle", fmt.Sprintf("Handshake panicked on %s", chunkArgs(chunks)), c)
		return
	}
	straddle := false // some honest message end (but the last) lies strictly inside a chunk
	if c.Honest {
		off := 0
		ends := map[int]bool{}
		for _, e := range c.MsgEnds {
			ends[e] = true
		}
		for _, ch := range chunks {
			for e := range ends {
				if e > off && e < off+len(ch) && e != len(stream) {
					straddle = true
				}
			}
			off += len(ch)
		}
	}
	if res.req != nil {
		// never a request that differs from what is in the bytes (independent decoder)
		rt, ra, ok := refHandshake(stream)
		if !ok || rt != res.req.Target || canonArgs(ra) != canonArgs(map[string][]string(res.req.Args)) {
			r.Violate("request-differs-from-bytes", "impl-oracle",
				fmt.Sprintf("Handshake returned Target=%q Args=%s but the bytes say ok=%v Target=%q Args=%s", res.req.Target,
					canonArgs(map[string][]string(res.req.Args)), ok, rt, canonArgs(ra)), c)
			return
		}
		if c.Honest {
			if ok, want := targetNamesDestination(res.req.Target, c); !ok {
				r.Violate("target-differs-from-encoded", "impl-oracle",
					fmt.Sprintf("client encoded atyp=%d addr=%x port=%d, Handshake returned Target=%q (want %s)", c.Atyp, []byte(c.Addr), c.Port, res.req.Target, want), c)
				return
			}
			if canonArgs(groupPairs(c.Pairs)) != canonArgs(map[string][]string(res.req.Args)) {
				r.Violate("args-differ-from-encoded", "impl-oracle",
					fmt.Sprintf("client encoded %s, Handshake returned %s", canonArgs(groupPairs(c.Pairs)), canonArgs(map[string][]string(res.req.Args))), c)
				return
			}
			if straddle {
				r.Violate("trailing-data-accepted", "impl-oracle",
					"client sent bytes of the next message in the same segment as the end of a message (before the reply); flushBuffers must reject trailing data, but Handshake returned a request", c)
				return
			}
		}
	} else if c.Honest && !straddle && (c.EOF || c.Stepwise) && len(c.MsgEnds) > 0 && c.MsgEnds[len(c.MsgEnds)-1] == len(stream) {
		r.Violate("honest-client-rejected", "impl-oracle",
			fmt.Sprintf("conforming step-by-step exchange (%s) ended with %q", chunkArgs(chunks), impl), c)
		return
	}
	if c.Honest && c.Stepwise && res.req != nil {
		// replies exact, one per message
		want := [][]byte{{5, 2}, {1, 0}, nil}
		if len(c.Pairs) == 0 {
			want = [][]byte{{5, 0}, nil}
		}
		for i := range want {
			if i >= len(res.perStep) || string(res.perStep[i]) != string(want[i]) {
				r.Violate("reply-not-as-specified", "impl-oracle",
					fmt.Sprintf("after message %d the server wrote %x, RFC 1928/1929 say %x", i+1, res.perStep, want), c)
				return
			}
		}
	}

	// ---- C: model vs implementation
	if impl != model {
		r.Violate("model-impl-disagree-handshake", "correspondence",
			fmt.Sprintf("chunks%s eof=%v: implementation %q, Lean model %q", chunkArgs(chunks), c.EOF, impl, model), c)
		return
	}
	// stepwise: the state after each phase (blocked + replies so far) also matches the model
	if c.Stepwise && res.steps > 1 {
		var pre [][]byte
		var w []byte
		for i := 0; i < res.steps-1; i++ {
			for _, ch := range c.Phases[i] {
				pre = append(pre, ch)
			}
			w = append(w, res.perStep[i]...)
			m := d.Call("run 0%s", chunkArgs(pre))
			if want := "blocked w=" + vlib.Hex(w); m != want {
				r.Violate("model-impl-disagree-intermediate", "correspondence",
					fmt.Sprintf("after phase %d: implementation %q, Lean model %q", i+1, want, m), c)
				return
			}
			r.Validated(1)
		}
	}
	// the specification parse (used by the theorems) against the independent decoder
	sp := d.Call("spec %d %s", b2i(c.EOF), vlib.Hex(stream))
	rt, ra, ok := refHandshake(stream)
	if ok != strings.HasPrefix(sp, "req ") || (ok && !strings.HasPrefix(sp, "req "+vlib.Hex([]byte(rt))+" "+canonArgs(ra)+" ")) {
		r.Violate("spec-vs-reference-decoder", "correspondence",
			fmt.Sprintf("stream %x: Lean spec parse %q, independent decoder ok=%v %q %s", stream, sp, ok, rt, canonArgs(ra)), c)
		return
	}
	if c.Honest {
		// flush offsets of the spec are the ends of the honest messages
		if i := strings.Index(sp, " fp="); i >= 0 && res.req != nil {
			got := map[string]bool{}
			for _, f := range strings.Split(sp[i+4:], ",") {
				got[f] = true
			}
			for _, e := range c.MsgEnds {
				if !got[strconv.Itoa(e)] {
					r.Violate("spec-flush-offsets", "correspondence", fmt.Sprintf("spec flush offsets %s do not contain message end %d", sp[i+4:], e), c)
					return
				}
			}
		}
	}
}

// sample keeps at most two cases per class (and 24 in total) for the evidence file.
var sampled = map[string]int{}

func sample(r *vlib.Run, class string, v interface{}) {
	if sampled[class] < 2 {
		sampled[class]++
		r.Sample(24, v)
	}
}

func bucket(n int) string {
	switch {
	case n <= 4:
		return fmt.Sprint(n)
	case n <= 8:
		return "5-8"
	case n <= 16:
		return "9-16"
	case n <= 64:
		return "17-64"
	case n <= 256:
		return "65-256"
	case n <= 1024:
		return "257-1024"
	default:
		return ">1024"
	}
}

// checkReply: Reply(code) after a successful handshake.
func checkReply(r *vlib.Run, d *vlib.Driver, c tcase) {
	conn := vlib.NewScriptConn()
	var req *socks5.Request
	var err error
	op := conn.Start(func() { req, err = socks5.Handshake(conn) })
	for _, p := range c.Phases {
		for _, ch := range p {
			conn.Feed(ch)
		}
		if conn.Wait(op) {
			break
		}
	}
	if !op.Done() {
		conn.FeedEOF()
		conn.Wait(op)
	}
	conn.TakeWritten()
	if err != nil || req == nil || op.Panic != nil {
		return // reported by checkSession
	}
	var rerr error
	op2 := conn.Start(func() { rerr = req.Reply(socks5.ReplyCode(c.Reply)) })
	conn.Wait(op2)
	got := conn.TakeWritten()
	want := []byte{5, byte(c.Reply), 0, 1, 0, 0, 0, 0, 0, 0}
	r.Case(fmt.Sprintf("reply %d", c.Reply), false)
	if c.Reply <= 8 {
		r.Count("reply-code", fmt.Sprint(c.Reply))
	} else {
		r.Count("reply-code", "9-255")
	}
	if op2.Panic != nil || rerr != nil || string(got) != string(want) {
		r.Violate("reply-bytes", "impl-oracle", fmt.Sprintf("Reply(%d) wrote %x err=%v panic=%v, RFC 1928 says %x", c.Reply, got, rerr, op2.Panic, want), c)
		return
	}
	if m := d.Call("reply %d", c.Reply); m != vlib.Hex(got) {
		r.Violate("model-impl-disagree-reply", "correspondence", fmt.Sprintf("Reply(%d): implementation %x, model %s", c.Reply, got, m), c)
	}
	r.Validated(1)
}

func checkArgs(r *vlib.Run, d *vlib.Driver, c tcase) {
	var (
		m   map[string][]string
		err error
		pv  interface{}
	)
	func() {
		defer func() { pv = recover() }()
		m, err = socks5.VerifParseClientParameters(string(c.Str))
	}()
	impl := "err"
	if err == nil {
		impl = "ok " + canonArgs(m)
	}
	special := 0
	for _, b := range c.Str {
		if b == '\\' || b == ';' || b == '=' {
			special++
		}
	}
	r.Case("args "+hex.EncodeToString(c.Str), special >= 2)
	r.Validated(1)
	r.Count("args-kind", c.Note)
	r.Count("args-len", bucket(len(c.Str)))
	r.Count("args-result", strings.Fields(impl)[0])
	if pv != nil {
		r.Violate("args-parser-panics", "impl-oracle", fmt.Sprintf("parseClientParameters(%q) panicked: %v", c.Str, pv), c)
		return
	}
	rm, rok := refArgs(c.Str)
	if rok != (err == nil) || (rok && canonArgs(rm) != canonArgs(m)) {
		r.Violate("args-differ-from-grammar", "impl-oracle",
			fmt.Sprintf("parseClientParameters(%q) = %s, the PT-spec grammar gives ok=%v %s", c.Str, impl, rok, canonArgs(rm)), c)
		return
	}
	model := d.Call("args %s", vlib.Hex(c.Str))
	sample(r, "args/"+strings.SplitN(c.Note, "/", 2)[0], map[string]interface{}{"kind": "args/" + c.Note, "str": string(c.Str), "impl": impl, "model": model})
	if model != impl {
		r.Violate("model-impl-disagree-args", "correspondence", fmt.Sprintf("parseClientParameters(%q): implementation %q, model %q", c.Str, impl, model), c)
	}
}

// checkEnc: encode -> real parser -> the same pairs (S), and the Lean encoder of the theorems
// equals the independent Go encoder (so that the theorem speaks about the strings tested here).
func checkEnc(r *vlib.Run, d *vlib.Driver, c tcase) {
	str := encodeArgs(c.Pairs)
	m, err := socks5.VerifParseClientParameters(string(str))
	r.Case("enc "+hex.EncodeToString(str), len(c.Pairs) >= 1)
	r.Validated(1)
	r.Count("enc-pairs", bucket(len(c.Pairs)))
	if err != nil || canonArgs(m) != canonArgs(groupPairs(c.Pairs)) {
		r.Violate("args-roundtrip", "impl-oracle",
			fmt.Sprintf("encoded %s as %q; parseClientParameters returned %s err=%v", canonArgs(groupPairs(c.Pairs)), str, canonArgs(m), err), c)
		return
	}
	var sb strings.Builder
	for i, p := range c.Pairs {
		if i > 0 {
			sb.WriteByte(';')
		}
		sb.WriteString(vlib.Hex(p.K) + "=" + vlib.Hex(p.V))
	}
	if len(c.Pairs) == 0 {
		sb.WriteString("-")
	}
	u, p := splitUserPass(str)
	want := vlib.Hex(str) + " " + vlib.Hex(u) + " " + vlib.Hex(p)
	if got := d.Call("enc %s", sb.String()); got != want {
		r.Violate("model-encoder-differs", "correspondence", fmt.Sprintf("pairs %s: Lean encode/split %q, Go encoder %q", sb.String(), got, want), c)
	}
}

// checkTarget: rendering of all three address types, model vs real code (through a minimal no-auth exchange).
func checkTarget(r *vlib.Run, d *vlib.Driver, c tcase) {
	msg := []byte{5, 1, 0, 5, 1, 0, byte(c.Atyp)}
	if c.Atyp == 3 {
		msg = append(msg, byte(len(c.Addr)))
	}
	msg = append(msg, c.Addr...)
	msg = append(msg, byte(c.Port>>8), byte(c.Port))
	conn := vlib.NewScriptConn()
	var req *socks5.Request
	var err error
	op := conn.Start(func() { req, err = socks5.Handshake(conn) })
	conn.Feed(msg[:3])
	conn.Wait(op)
	conn.Feed(msg[3:])
	if !conn.Wait(op) {
		conn.FeedEOF()
		conn.Wait(op)
	}
	r.Case(fmt.Sprintf("target %d %x %d", c.Atyp, []byte(c.Addr), c.Port), true)
	r.Validated(1)
	r.Count("target-atyp", fmt.Sprint(c.Atyp))
	if err != nil || req == nil {
		r.Violate("honest-client-rejected", "impl-oracle", fmt.Sprintf("no-auth CONNECT atyp=%d addr=%x port=%d rejected: %v", c.Atyp, []byte(c.Addr), c.Port, err), c)
		return
	}
	if ok, want := targetNamesDestination(req.Target, c); !ok {
		r.Violate("target-differs-from-encoded", "impl-oracle",
			fmt.Sprintf("client encoded atyp=%d addr=%x port=%d, Handshake returned Target=%q (want %s)", c.Atyp, []byte(c.Addr), c.Port, req.Target, want), c)
		return
	}
	if c.Atyp == 4 {
		zr := "none"
		if strings.Contains(req.Target, "::") {
			zr = "compressed"
		}
		if !strings.Contains(req.Target, ":") || strings.Count(req.Target, ".") == 3 {
			zr = "v4-mapped"
		}
		r.Count("ipv6-form", zr)
	}
	m := d.Call("target %d %s %d", c.Atyp, vlib.Hex(c.Addr), c.Port)
	if m != vlib.Hex([]byte(req.Target)) {
		r.Violate("model-impl-disagree-target", "correspondence", fmt.Sprintf("atyp=%d addr=%x port=%d: Target %q, model %q", c.Atyp, []byte(c.Addr), c.Port, req.Target, vlib.UnHex(m)), c)
	}
}

func check(r *vlib.Run, d *vlib.Driver, c tcase) {
	switch c.Kind {
	case "session":
		n := r.NumViolations()
		checkSession(r, d, c)
		if c.Honest && c.Stepwise && r.NumViolations() == n {
			checkReply(r, d, c)
		}
	case "args":
		checkArgs(r, d, c)
	case "enc":
		checkEnc(r, d, c)
	case "target":
		checkTarget(r, d, c)
	case "glue":
		checkGlue(r, d, c)
	}
}

// ---------------------------------------------------------------- generators

var argAlphabet = []byte{'\\', '\\', ';', ';', '=', '=', 'a', 'b', 'k', 'v', '0', ' ', 0x00, 0x01, 0x7f, 0x80, 0xff, 0xc3}

func genBytes(rng *vlib.Rng, n int, alphabet []byte) []byte {
	b := make([]byte, n)
	for i := range b {
		if alphabet != nil && rng.Intn(8) != 0 {
			b[i] = alphabet[rng.Intn(len(alphabet))]
		} else {
			b[i] = byte(rng.Intn(256))
		}
	}
	return b
}

// genPairs produces an argument list whose encoding has length in [1,510] and is free of NUL
// (the property's hypothesis for the username/password transport); total==0 -> no args.
func genPairs(rng *vlib.Rng) []kv {
	noNul := func(b []byte) []byte {
		for i := range b {
			if b[i] == 0 {
				b[i] = 0xfe
			}
		}
		return b
	}
	for {
		var ps []kv
		mode := rng.Intn(10)
		n := rng.Range(1, 4)
		if mode == 0 {
			n = rng.Range(5, 12)
		}
		for i := 0; i < n; i++ {
			kl, vl := rng.Range(1, 6), rng.Intn(12)
			if mode == 1 || mode == 2 { // long values: spill into the password
				vl = rng.Range(60, 260)
			}
			k := noNul(genBytes(rng, kl, argAlphabet))
			if i > 0 && rng.Intn(4) == 0 {
				k = append([]byte(nil), ps[rng.Intn(len(ps))].K...) // repeated key
			}
			ps = append(ps, kv{k, noNul(genBytes(rng, vl, argAlphabet))})
		}
		if mode == 3 { // aim at the 255/256 boundary
			want := rng.Range(253, 258)
			for len(encodeArgs(ps)) < want {
				ps[len(ps)-1].V = append(ps[len(ps)-1].V, 'x')
			}
		}
		if l := len(encodeArgs(ps)); l >= 1 && l <= 510 {
			return ps
		}
	}
}

func genTarget(rng *vlib.Rng) (int, []byte, int) {
	port := vlib.Pick(rng, []int{0, 1, 9, 10, 80, 99, 100, 443, 999, 1000, 9999, 10000, 65535, rng.Intn(65536), rng.Intn(65536)})
	switch rng.Intn(3) {
	case 0:
		a := rng.Bytes(4)
		if rng.Intn(3) == 0 {
			a = []byte{byte(vlib.Pick(rng, []int{0, 1, 9, 10, 99, 100, 255})), 0, byte(rng.Intn(256)), 255}
		}
		return 1, a, port
	case 1:
		n := vlib.Pick(rng, []int{1, 2, 11, 63, 255, rng.Range(1, 255)})
		b := genBytes(rng, n, []byte("abcxyz019-.ABC"))
		if rng.Intn(6) == 0 {
			b = genBytes(rng, n, []byte{':', '[', ']', '.', 0, 0xff, 'a', '1'})
		}
		if rng.Intn(5) == 0 {
			// what clients put into DOMAINNAME besides FQDNs: literals, brackets, zones, port-like
			// suffixes - the front end copies the name verbatim
			base := vlib.Pick(rng, []string{fmt.Sprintf("h%x.example", rng.Intn(1<<16)), fmt.Sprintf("192.0.2.%d", rng.Intn(256)),
				fmt.Sprintf("2001:db8::%x:%x", rng.Intn(65536), rng.Intn(65536)), "::1", "::", "fe80::1"})
			b = []byte(vlib.Pick(rng, []string{base, "[" + base + "]", base + ":443", "[" + base + "]:443", base + "%eth0", "[" + base + "%25eth0]",
				base + ":", ":" + base, base + "::", "[" + base, base + "]", base + ":443:80", base + ":zz", "1:2:3:4:5:6:7:" + base, "http://" + base + "/"}))
		}
		return 3, b, port
	default:
		return 4, genIPv6(rng), port
	}
}

func genIPv6(rng *vlib.Rng) []byte {
	a := make([]byte, 16)
	switch rng.Intn(7) {
	case 6: // well-known addresses and prefixes
		ip := net.ParseIP(vlib.Pick(rng, []string{"::", "::1", "fe80::1", "fe80::1:2:3:4", "ff02::1", "ff02::1:ff00:1", "2001:db8::", "2001:db8::1",
			"64:ff9b::c000:221", "2002:c000:221::", "::ffff:0:0", "::fffe:1.2.3.4", "1::", "0:0:1::", "1:0:0:2:0:0:0:3", "1:0:0:0:2:0:0:3",
			"fc00::", "2001:0:0:1::1", "0:1:0:1:0:1:0:1", "1:2:3:4:5:6:7:0", "0:2:3:4:5:6:7:8", "1:2:3:4:5:6:0:0", "ffff:ffff:ffff:ffff:ffff:ffff:ffff:ffff"}))
		copy(a, ip.To16())
		if rng.Intn(3) == 0 {
			copy(a[8:], rng.Bytes(8))
		}
	case 0: // arbitrary
		copy(a, rng.Bytes(16))
	case 1: // v4-mapped and near misses
		copy(a[12:], rng.Bytes(4))
		a[10], a[11] = 0xff, 0xff
		switch rng.Intn(4) {
		case 0:
			a[11] = 0xfe
		case 1:
			a[rng.Intn(10)] = 1
		}
	default: // groups from {0, small, big} -> zero runs of all shapes
		for g := 0; g < 8; g++ {
			switch rng.Intn(5) {
			case 0, 1, 2:
			case 3:
				a[2*g+1] = byte(rng.Range(1, 255))
			default:
				a[2*g], a[2*g+1] = byte(rng.Intn(256)), byte(rng.Intn(256))
			}
		}
	}
	return a
}

func honestMessages(rng *vlib.Rng, c *tcase) [][]byte {
	c.Atyp, c.Addr, c.Port = genTarget(rng)
	withArgs := rng.Intn(5) != 0
	var msgs [][]byte
	// method selection message
	var methods []byte
	if withArgs {
		c.Pairs = genPairs(rng)
		methods = vlib.Pick(rng, [][]byte{{2}, {0, 2}, {2, 0}, {1, 2, 3}, {0, 1, 2, 0x80}})
	} else {
		methods = vlib.Pick(rng, [][]byte{{0}, {1, 0}, {0, 3, 0xfe}})
	}
	msgs = append(msgs, append([]byte{5, byte(len(methods))}, methods...))
	if withArgs {
		u, p := splitUserPass(encodeArgs(c.Pairs))
		m := append([]byte{1, byte(len(u))}, u...)
		m = append(m, byte(len(p)))
		m = append(m, p...)
		msgs = append(msgs, m)
	}
	m := []byte{5, 1, 0, byte(c.Atyp)}
	if c.Atyp == 3 {
		m = append(m, byte(len(c.Addr)))
	}
	m = append(m, c.Addr...)
	m = append(m, byte(c.Port>>8), byte(c.Port))
	msgs = append(msgs, m)
	c.Honest = true
	off := 0
	for _, m := range msgs {
		off += len(m)
		c.MsgEnds = append(c.MsgEnds, off)
	}
	return msgs
}

// chunkers
func chunkMsg(rng *vlib.Rng, m []byte, how int) []HB {
	n := len(m)
	var out []HB
	cut := func(points ...int) {
		prev := 0
		for _, p := range points {
			if p > prev && p < n {
				out = append(out, HB(m[prev:p]))
				prev = p
			}
		}
		out = append(out, HB(m[prev:]))
	}
	switch how {
	case 0: // whole message
		cut()
	case 1: // one byte at a time
		for i := range m {
			out = append(out, HB(m[i:i+1]))
		}
	case 2: // first byte alone
		cut(1)
	case 3: // last byte alone
		cut(n - 1)
	case 4: // both
		cut(1, n-1)
	case 5: // two halves
		cut(n / 2)
	default: // random
		var pts []int
		k := rng.Range(1, 5)
		for i := 0; i < k; i++ {
			pts = append(pts, rng.Range(1, n))
		}
		sort.Ints(pts)
		cut(pts...)
	}
	return out
}

var chunkerNames = []string{"whole", "1-byte", "first|rest", "rest|last", "first|mid|last", "halves", "random"}

func genHonest(rng *vlib.Rng) tcase {
	c := tcase{Kind: "session", Stepwise: true}
	msgs := honestMessages(rng, &c)
	how := rng.Intn(len(chunkerNames) + 2)
	if how >= len(chunkerNames) {
		how = len(chunkerNames) - 1
	}
	for _, m := range msgs {
		c.Phases = append(c.Phases, chunkMsg(rng, m, how))
	}
	c.Note = "honest/" + chunkerNames[how]
	c.EOF = rng.Intn(4) == 0
	c.Reply = vlib.Pick(rng, []int{0, 1, 2, 3, 4, 5, 6, 7, 8, 255, rng.Intn(256)})
	return c
}

// genPipelined: the honest messages, but sent without waiting for the replies: the stream is cut
// into segments regardless of (or deliberately around) the message boundaries.
func genPipelined(rng *vlib.Rng) tcase {
	c := tcase{Kind: "session", Stepwise: false}
	msgs := honestMessages(rng, &c)
	stream := concat(msgs)
	var pts []int
	how := rng.Intn(7)
	names := []string{"one-segment", "boundary-plus-1", "boundary-minus-1", "boundaries", "random", "one-boundary-plus-1", "bytes"}
	switch how {
	case 0:
	case 1:
		for _, e := range c.MsgEnds {
			pts = append(pts, e+1)
		}
	case 2:
		for _, e := range c.MsgEnds {
			pts = append(pts, e-1)
		}
	case 3:
		pts = append(pts, c.MsgEnds...)
	case 4:
		k := rng.Range(1, 6)
		for i := 0; i < k; i++ {
			pts = append(pts, rng.Range(1, len(stream)))
		}
	case 5:
		for i, e := range c.MsgEnds {
			if i == 0 && len(c.MsgEnds) > 1 && rng.Bool() {
				pts = append(pts, e+rng.Range(1, 3))
			} else if i == len(c.MsgEnds)-2 {
				pts = append(pts, e+1)
			} else {
				pts = append(pts, e)
			}
		}
	case 6:
		for i := 1; i < len(stream); i++ {
			pts = append(pts, i)
		}
	}
	sort.Ints(pts)
	prev := 0
	var ph []HB
	for _, p := range pts {
		if p > prev && p < len(stream) {
			ph = append(ph, HB(stream[prev:p]))
			prev = p
		}
	}
	ph = append(ph, HB(stream[prev:]))
	c.Phases = [][]HB{ph}
	c.Note = "pipelined/" + names[how]
	c.EOF = rng.Intn(3) != 0
	return c
}

func mutate(rng *vlib.Rng, s []byte, ends []int) ([]byte, string) {
	s = append([]byte(nil), s...)
	if len(s) == 0 {
		return s, "empty"
	}
	small := []byte{0, 1, 2, 3, 4, 5, 6, 0x7f, 0x80, 0xff}
	switch rng.Intn(9) {
	case 0:
		i := rng.Intn(len(s))
		s[i] ^= 1 << uint(rng.Intn(8))
		return s, "bit-flip"
	case 1:
		i := rng.Intn(len(s))
		s[i] = small[rng.Intn(len(small))]
		return s, "byte-set"
	case 2:
		return s[:rng.Intn(len(s))], "truncate"
	case 3:
		i := rng.Intn(len(s) + 1)
		s = append(s[:i], append([]byte{small[rng.Intn(len(small))]}, s[i:]...)...)
		return s, "insert"
	case 4:
		i := rng.Intn(len(s))
		return append(s[:i], s[i+1:]...), "delete"
	case 5: // header fields of the messages
		start := 0
		if k := rng.Intn(len(ends)); k > 0 {
			start = ends[k-1]
		}
		i := start + rng.Intn(4)
		if i < len(s) {
			s[i] = small[rng.Intn(len(small))]
		}
		return s, "header-field"
	case 6: // trailing garbage (sometimes more than one bufio buffer of it)
		if rng.Intn(5) == 0 {
			return append(s, genBytes(rng, rng.Range(3000, 9000), small)...), "append-long"
		}
		return append(s, genBytes(rng, rng.Range(1, 6), small)...), "append"
	case 7: // drop a whole message
		k := rng.Intn(len(ends))
		start, end := 0, ends[k]
		if k > 0 {
			start = ends[k-1]
		}
		if end > len(s) {
			end = len(s)
		}
		if start > end {
			start = end
		}
		return append(s[:start], s[end:]...), "drop-message"
	default: // break the argument escapes
		for tries := 0; tries < 20; tries++ {
			i := rng.Intn(len(s))
			if s[i] == '\\' || s[i] == ';' || s[i] == '=' {
				s[i] = vlib.Pick(rng, []byte{'\\', ';', '=', 'x'})
				return s, "arg-syntax"
			}
		}
		s[len(s)-1] ^= 0x80
		return s, "bit-flip"
	}
}

func genMalformed(rng *vlib.Rng) tcase {
	c := tcase{Kind: "session"}
	var stream []byte
	var ends []int
	if rng.Intn(4) == 0 {
		stream = genBytes(rng, rng.Intn(40), []byte{0, 1, 2, 3, 4, 5, 5, 5, 1, 1, 0, 0xff})
		c.Note = "malformed/random"
	} else {
		var h tcase
		msgs := honestMessages(rng, &h)
		var how string
		stream, how = mutate(rng, concat(msgs), h.MsgEnds)
		if rng.Intn(5) == 0 {
			var how2 string
			stream, how2 = mutate(rng, stream, h.MsgEnds)
			how += "+" + how2
		}
		ends = h.MsgEnds
		c.Note = "malformed/" + how
	}
	// segmentation: at the original message ends (a step-by-step client that sends a bad message),
	// one segment, single bytes, or random
	var pts []int
	switch rng.Intn(5) {
	case 0:
	case 1, 2:
		pts = append(pts, ends...)
	case 3:
		for i := 1; i < len(stream); i++ {
			pts = append(pts, i)
		}
	default:
		k := rng.Range(1, 5)
		for i := 0; i < k && len(stream) > 1; i++ {
			pts = append(pts, rng.Range(1, len(stream)-1))
		}
	}
	sort.Ints(pts)
	prev := 0
	var ph []HB
	for _, p := range pts {
		if p > prev && p < len(stream) {
			ph = append(ph, HB(stream[prev:p]))
			prev = p
		}
	}
	if prev < len(stream) {
		ph = append(ph, HB(stream[prev:]))
	}
	c.Phases = [][]HB{ph}
	c.EOF = rng.Intn(6) != 0
	return c
}

func genArgString(rng *vlib.Rng, long bool) tcase {
	c := tcase{Kind: "args"}
	switch k := rng.Intn(6); {
	case long:
		// long strings: valid pairs repeated, sometimes broken near the end
		var s []byte
		n := rng.Range(1500, 6000)
		for len(s) < n {
			s = append(s, encodeArgs(genPairs(rng))...)
			s = append(s, ';')
		}
		s = s[:len(s)-1]
		if rng.Bool() {
			s, _ = mutate(rng, s, []int{len(s)})
		}
		c.Str, c.Note = s, "long"
	case k == 0:
		c.Str, c.Note = genBytes(rng, rng.Intn(24), argAlphabet), "random"
	case k == 1: // adversarial escapes
		var s []byte
		for i, n := 0, rng.Range(1, 10); i < n; i++ {
			s = append(s, vlib.Pick(rng, []string{"\\", "\\\\", "\\;", "\\=", ";", "=", "a", "k=v", "\\a", "\\\\\\", ";;", "==", "=;", "k=", "\x00"})...)
		}
		c.Str, c.Note = s, "escapes"
	case k == 2: // small alphabet, all shapes
		c.Str, c.Note = genBytes(rng, rng.Intn(9), []byte{'\\', ';', '=', 'a'}), "tiny-alphabet"
		for i := range c.Str {
			c.Str[i] = []byte{'\\', ';', '=', 'a'}[int(c.Str[i])%4]
		}
	default:
		s := encodeArgs(genPairs(rng))
		how := "valid"
		if rng.Intn(3) != 0 {
			s, how = mutate(rng, s, []int{len(s)})
		}
		c.Str, c.Note = s, "mutated-valid/"+how
	}
	return c
}

// all strings over {\ ; = a} up to length n
func enumArgStrings(n int, f func([]byte)) {
	alpha := []byte{'\\', ';', '=', 'a'}
	var rec func(p []byte)
	rec = func(p []byte) {
		f(p)
		if len(p) == n {
			return
		}
		for _, a := range alpha {
			rec(append(append([]byte(nil), p...), a))
		}
	}
	rec(nil)
}

func main() {
	r := vlib.NewRun("C17")
	r.Rule = "cases: (a) honest step-by-step sessions (3 address types, argument lists with escaped ; = \\, 8-bit bytes, repeated keys, " +
		"encodings up to 510 bytes spilling into the password, 7 chunkers per message), (b) the same messages pipelined with segment " +
		"borders at/around the message ends, (c) malformed streams (mutated-valid, random) under 4 segmentations with/without EOF, " +
		"(d) parseClientParameters on arbitrary strings (exhaustive over {\\,;,=,a}^<=n, random, adversarial escapes, mutated-valid, long), " +
		"(e) encoder round trips, (f) target renderings, (g) the real clientHandler of obfs4proxy with a recording transport factory under 8 logging configurations (off/ERROR/INFO/DEBUG x unsafe on/off): arguments and address that reach ParseArgs/Dial. Non-trivial: a session in which the server wrote at least one reply and " +
		"the input arrived in >= 2 segments; an argument string with >= 2 special characters; every encoder/target case. Distinct by canonical input text."
	r.Assumptions = []string{
		"conn.Read returns one queued segment per call and never 0 bytes (vlib.ScriptConn); write errors and the 5 s deadline firing are not modelled",
		"bufio.Reader (4096-byte buffer, refill only when empty), io.ReadFull, net.IP.String, fmt %d as modelled",
		"argument strings of honest clients contain no NUL and are 1..510 bytes (RFC 1929 field sizes)",
	}
	d := r.Driver("socks")
	defer d.Close()

	if r.ReplayIn != "" {
		var c tcase
		if err := r.LoadReplay(&c); err != nil {
			fmt.Fprintln(os.Stderr, "cannot load replay:", err)
			os.Exit(3)
		}
		check(r, d, c)
		glueStop()
		r.Finish()
	}

	// corpus first
	if dir := os.Getenv("VERIF_DIR"); dir != "" {
		files, _ := filepath.Glob(filepath.Join(dir, "corpus", "C17", "*.json"))
		sort.Strings(files)
		for _, f := range files {
			b, err := os.ReadFile(f)
			if err != nil {
				continue
			}
			var doc struct {
				Case tcase `json:"case"`
			}
			if json.Unmarshal(b, &doc) == nil && doc.Case.Kind != "" {
				check(r, d, doc.Case)
				r.Count("corpus", filepath.Base(f))
			}
		}
	}

	rng := vlib.NewRng(r.Seed)

	// (d) exhaustive small argument strings
	maxLen := 6
	if r.Thorough() {
		maxLen = 8
	}
	enumArgStrings(maxLen, func(s []byte) { checkArgs(r, d, tcase{Kind: "args", Str: append(HB(nil), s...), Note: "exhaustive"}) })
	r.Notes["exhaustive_space"] = fmt.Sprintf("parseClientParameters on all strings over {\\,;,=,a} of length 0..%d", maxLen)

	for i, n := 0, r.Scale(8000, 100000); i < n; i++ {
		check(r, d, genHonest(rng))
	}
	for i, n := 0, r.Scale(5000, 60000); i < n; i++ {
		check(r, d, genPipelined(rng))
	}
	for i, n := 0, r.Scale(12000, 200000); i < n; i++ {
		check(r, d, genMalformed(rng))
	}
	for i, n := 0, r.Scale(12000, 200000); i < n; i++ {
		check(r, d, genArgString(rng, false))
	}
	for i, n := 0, r.Scale(60, 600); i < n; i++ {
		check(r, d, genArgString(rng, true))
	}
	for i, n := 0, r.Scale(4000, 60000); i < n; i++ {
		c := tcase{Kind: "enc", Pairs: genPairs(rng)}
		if rng.Intn(20) == 0 {
			c.Pairs = nil
		}
		check(r, d, c)
	}
	for i, n := 0, r.Scale(8000, 120000); i < n; i++ {
		c := tcase{Kind: "target"}
		c.Atyp, c.Addr, c.Port = genTarget(rng)
		check(r, d, c)
	}
	// exhaustive chunkings of one small honest exchange: every composition of every message
	{
		c := tcase{Kind: "session", Stepwise: true, Honest: true, Atyp: 1, Addr: HB{10, 0, 0, 200}, Port: 443,
			Pairs: []kv{{HB("k"), HB(";")}}}
		u, p := splitUserPass(encodeArgs(c.Pairs))
		m2 := append(append(append([]byte{1, byte(len(u))}, u...), byte(len(p))), p...)
		msgs := [][]byte{{5, 2, 0, 2}, m2, {5, 1, 0, 1, 10, 0, 0, 200, 1, 187}}
		off := 0
		for _, m := range msgs {
			off += len(m)
			c.MsgEnds = append(c.MsgEnds, off)
		}
		comps := func(m []byte) [][]HB {
			var out [][]HB
			for mask := 0; mask < 1<<(len(m)-1); mask++ {
				var ch []HB
				prev := 0
				for i := 1; i < len(m); i++ {
					if mask&(1<<(i-1)) != 0 {
						ch = append(ch, HB(m[prev:i]))
						prev = i
					}
				}
				out = append(out, append(ch, HB(m[prev:])))
			}
			return out
		}
		all := [][][]HB{comps(msgs[0]), comps(msgs[1]), comps(msgs[2])}
		// vary one message exhaustively while the others use a fixed chunking (sum, not product)
		for mi := range all {
			for _, ch := range all[mi] {
				cc := c
				cc.Note = "honest/exhaustive-compositions"
				cc.Phases = [][]HB{{HB(msgs[0])}, {HB(msgs[1])}, {HB(msgs[2])}}
				cc.Phases[mi] = ch
				check(r, d, cc)
			}
		}
		r.Notes["exhaustive_chunkings"] = fmt.Sprintf("all %d+%d+%d compositions of the three messages of one exchange (one message varied at a time)", len(all[0]), len(all[1]), len(all[2]))
	}
	// the glue in obfs4proxy's clientHandler, under every logging configuration
	for i, n := 0, r.Scale(40, 400); i < n; i++ {
		for _, g := range glueCfgs {
			check(r, d, genGlue(rng, g))
		}
	}
	glueStop()
	r.Finish()
}
