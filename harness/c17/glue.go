// C17, the glue: socks5.Handshake can be right and the transport still be handed something
// else.  This family drives the real clientHandler of obfs4proxy (package main, built with
// -tags verif from the tree under test; hook op `glue.run`) with conforming, argument-carrying
// SOCKS5 exchanges under every logging configuration (logging off / ERROR / INFO / DEBUG x
// unsafe logging on/off) and requires that the arguments that reach the transport's ParseArgs
// (and are still there at Dial time) and the address that reaches Dial are exactly what the
// client encoded (S) and what the Lean model of the front end parses from the bytes (C).
package main

import (
	"bufio"
	"encoding/hex"
	"fmt"
	"io"
	"os"
	"os/exec"
	"path/filepath"
	"strings"
	"time"

	"verif/harness/vlib"
)

type glueHook struct {
	cmd *exec.Cmd
	in  io.WriteCloser
	out *bufio.Reader
	dir string
}

var theGlueHook *glueHook

func glueStart() (*glueHook, error) {
	if theGlueHook != nil {
		return theGlueHook, nil
	}
	repo := os.Getenv("VERIF_REPO")
	if repo == "" {
		repo = "/repo"
	}
	dir, err := os.MkdirTemp("", "c17hook")
	if err != nil {
		return nil, err
	}
	bin := filepath.Join(dir, "obfs4proxy-verif")
	b := exec.Command("go", "build", "-tags", "verif", "-o", bin, "./obfs4proxy")
	b.Dir = repo
	b.Env = append(os.Environ(), "GOFLAGS=-mod=mod", "GOPROXY=off", "GOSUMDB=off", "GOTOOLCHAIN=local")
	if out, err := b.CombinedOutput(); err != nil {
		os.RemoveAll(dir)
		return nil, fmt.Errorf("go build -tags verif ./obfs4proxy in %s: %v\n%s", repo, err, out)
	}
	c := exec.Command(bin)
	c.Env = append(os.Environ(), "OBFS4PROXY_VERIF_DRIVER=1")
	in, _ := c.StdinPipe()
	out, _ := c.StdoutPipe()
	c.Stderr = os.Stderr
	if err := c.Start(); err != nil {
		os.RemoveAll(dir)
		return nil, err
	}
	theGlueHook = &glueHook{cmd: c, in: in, out: bufio.NewReaderSize(out, 1<<20), dir: dir}
	return theGlueHook, nil
}

func (h *glueHook) call(line string) string {
	if _, err := io.WriteString(h.in, line+"\n"); err != nil {
		return "hook-error " + err.Error()
	}
	rep, err := h.out.ReadString('\n')
	if err != nil {
		return "hook-error " + err.Error()
	}
	return strings.TrimRight(rep, "\n")
}

func glueStop() {
	h := theGlueHook
	if h == nil {
		return
	}
	theGlueHook = nil
	h.in.Close()
	done := make(chan struct{})
	go func() { h.cmd.Wait(); close(done) }()
	select {
	case <-done:
	case <-time.After(5 * time.Second):
		h.cmd.Process.Kill()
	}
	os.RemoveAll(h.dir)
}

type glueCfg struct {
	Enable bool   `json:"enable"`
	Level  string `json:"level"`
	Unsafe bool   `json:"unsafe"`
}

var glueCfgs = func() []glueCfg {
	var out []glueCfg
	for _, u := range []bool{false, true} {
		out = append(out, glueCfg{false, "ERROR", u}) // the default flags: logging disabled
		for _, l := range []string{"ERROR", "INFO", "DEBUG"} {
			out = append(out, glueCfg{true, l, u})
		}
	}
	return out
}()

func (g glueCfg) String() string {
	s := "off"
	if g.Enable {
		s = g.Level
	}
	if g.Unsafe {
		s += "+unsafe"
	}
	return s
}

// checkGlue: c.Phases holds one whole message per phase (the hook serves message i after i
// replies), c.Pairs / c.Atyp / c.Addr / c.Port what was encoded.
func checkGlue(r *vlib.Run, d *vlib.Driver, c tcase) {
	h, err := glueStart()
	if err != nil {
		r.Violate("glue-driver-failed", "correspondence", "cannot build/start the package-main hook driver: "+err.Error(), c)
		return
	}
	var msgs []string
	var chunks [][]byte
	for _, p := range c.Phases {
		m := concat(flatten([][]HB{p}))
		msgs = append(msgs, hex.EncodeToString(m))
		chunks = append(chunks, m)
	}
	g := glueCfg{}
	if c.Glue != nil {
		g = *c.Glue
	}
	line := fmt.Sprintf("glue.run %d %s %d %s", b2i(g.Enable), g.Level, b2i(g.Unsafe), strings.Join(msgs, " "))
	rep := h.call(line)
	r.Case(line, len(c.Pairs) > 0)
	r.Validated(1)
	r.Count("glue.logging", g.String())
	r.Count("glue.arg-pairs", bucket(len(c.Pairs)))
	empties := 0
	for _, p := range c.Pairs {
		if len(p.V) == 0 {
			empties++
		}
	}
	if empties > 0 {
		r.Count("glue.empty-values", "yes")
	}
	sample(r, "glue", map[string]interface{}{"kind": "glue/" + g.String(), "cmd": line, "hook": rep})
	if !strings.HasPrefix(rep, "ok ") {
		r.Violate("glue-driver-failed", "correspondence", fmt.Sprintf("%s: the hook driver answered %q", line, rep), c)
		return
	}
	kv := map[string]string{}
	for _, f := range strings.Fields(rep)[1:] {
		if i := strings.IndexByte(f, '='); i > 0 {
			kv[f[:i]] = f[i+1:]
		}
	}
	// ---- S: what the client encoded must be what the transport is handed
	wantArgs := canonArgs(groupPairs(c.Pairs))
	if kv["parsed"] != "1" || kv["dialed"] != "1" {
		r.Violate("glue-honest-client-rejected", "impl-oracle",
			fmt.Sprintf("logging %s: a conforming exchange did not reach the transport's ParseArgs/Dial: %s", g, rep), c)
		return
	}
	if kv["args"] != wantArgs || kv["dialargs"] != wantArgs {
		r.Violate("transport-args-differ-from-request", "impl-oracle",
			fmt.Sprintf("logging %s: the client encoded the arguments %s; the transport's ParseArgs received %s and at Dial time the map held %s",
				g, wantArgs, kv["args"], kv["dialargs"]), c)
		return
	}
	addr := string(vlib.UnHex(kv["addr"]))
	if ok, want := targetNamesDestination(addr, c); !ok || string(vlib.UnHex(kv["net"])) != "tcp" {
		r.Violate("transport-target-differs-from-request", "impl-oracle",
			fmt.Sprintf("logging %s: the client encoded atyp=%d addr=%x port=%d; the transport's Dial received network %q address %q (want %s)",
				g, c.Atyp, []byte(c.Addr), c.Port, vlib.UnHex(kv["net"]), addr, want), c)
		return
	}
	// ---- C: the Lean model of the front end is the oracle for the bytes
	model := d.Call("run 0%s", chunkArgs(chunks))
	want := "req " + kv["addr"] + " " + kv["args"] + " "
	if !strings.HasPrefix(model, want) {
		r.Violate("model-impl-disagree-glue", "correspondence",
			fmt.Sprintf("logging %s: the transport was handed %q, the Lean model parses %q from the bytes", g, want, model), c)
	}
}

func genGlue(rng *vlib.Rng, g glueCfg) tcase {
	c := tcase{Kind: "glue", Stepwise: true, Glue: &g}
	var msgs [][]byte
	for {
		c = tcase{Kind: "glue", Stepwise: true, Glue: &g}
		msgs = honestMessages(rng, &c)
		if len(c.Pairs) > 0 || rng.Intn(6) == 0 { // mostly argument-carrying requests
			break
		}
	}
	if len(c.Pairs) > 0 && rng.Intn(3) == 0 {
		// make sure empty values, repeated keys and escapes occur often
		c.Pairs = append(c.Pairs, kv{K: HB("e"), V: HB{}}, kv{K: c.Pairs[0].K, V: HB(`;\=`)})
		if len(encodeArgs(c.Pairs)) > 510 {
			c.Pairs = c.Pairs[len(c.Pairs)-2:]
		}
		u, p := splitUserPass(encodeArgs(c.Pairs))
		m := append([]byte{1, byte(len(u))}, u...)
		m = append(m, byte(len(p)))
		msgs[1] = append(m, p...)
	}
	for _, m := range msgs {
		c.Phases = append(c.Phases, []HB{HB(m)})
	}
	c.Note = "glue/" + g.String()
	return c
}
