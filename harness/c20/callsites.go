// C20, call sites: the scrubbing functions of common/log are only as good as their callers.
// This family runs the real clientHandler / serverHandler of obfs4proxy (package main) through
// every outcome path the package-main hook driver can script (obfs4proxy built with -tags verif
// from the tree under test, `log.run`), with the real logger writing to a file, and judges the
// log text directly from the property: with scrubbing enabled none of the distinctive IP
// addresses / host names / DNS servers chosen by the harness may occur in it (ports may); with
// unsafe logging they must occur (non-vacuity: the lines are really produced).
package main

import (
	"bufio"
	"encoding/json"
	"fmt"
	"io"
	"os"
	"os/exec"
	"path/filepath"
	"strings"
	"time"

	"verif/harness/vlib"
)

type csCase struct {
	Mode    string `json:"mode"` // safe | unsafe
	Who     string `json:"who"`  // client | server
	Path    string `json:"path"`
	Peer    string `json:"peer"`    // remote address of the accepted connection
	Peer2   string `json:"peer2"`   // real-obfs4-*: the peer of the genuine first connection
	Local   string `json:"local"`   // its local address
	Target  string `json:"target"`  // SOCKS target (client)
	ErrIP   string `json:"errip"`   // address inside dial / relay errors
	ErrHost string `json:"errhost"` // host name inside a DNS error
	DNS     string `json:"dns"`     // DNS server inside a DNS error
	User    string `json:"user,omitempty"`  // setup-proxy-*: user name in TOR_PT_PROXY
	Pass    string `json:"pass,omitempty"`  // … and password
	Level   string `json:"level,omitempty"` // log level (default DEBUG)
	// socks-raw: the raw SOCKS5 messages (hex, comma separated), what they are, and the
	// distinctive host names / addresses embedded in them
	Msgs    string   `json:"msgs,omitempty"`
	Note    string   `json:"note,omitempty"`
	Needles []string `json:"needles,omitempty"`
}

type csPath struct {
	who, path, marker string
	expect            []string // which needles the unsafe log must show: peer local target errip errhost dns
}

var csPaths = []csPath{
	{"client", "socks-eof", "failed socks handshake", nil},
	{"client", "socks-operr", "failed socks handshake", []string{"peer", "local"}},
	{"client", "args-fail", "invalid arguments", []string{"target"}},
	{"client", "dial-operr", "outgoing connection failed", []string{"target", "errip"}},
	{"client", "dial-dns", "outgoing connection failed", []string{"target", "errhost", "dns"}},
	{"client", "reply-fail", "SOCKS reply failed", []string{"target", "peer"}},
	{"client", "relay-eof", "closed connection", []string{"target"}},
	{"client", "relay-operr", "closed connection:", []string{"target", "errip"}},
	{"server", "wrap-operr", "handshake failed", []string{"peer"}},
	{"server", "wrap-plain", "handshake failed", []string{"peer"}},
	{"server", "relay-eof", "closed connection", []string{"peer"}},
	{"server", "relay-operr", "closed connection:", []string{"peer"}},
	// the real transports: client factories with a really dialled (loopback, refused) target …
	{"client", "real-obfs2-dial", "outgoing connection failed", []string{"target"}},
	{"client", "real-obfs3-dial", "outgoing connection failed", []string{"target"}},
	{"client", "real-scramblesuit-dial", "outgoing connection failed", []string{"target"}},
	{"client", "real-obfs4-dial", "outgoing connection failed", []string{"target"}},
	{"client", "real-meek_lite-dial", "closed connection", []string{"target"}},
	// … the real client factories on an outgoing connection that accepts what they write and
	// fails every Read with an address-bearing *net.OpError (reset / i/o timeout) …
	{"client", "real-obfs2-readerr", "outgoing connection failed", []string{"target", "errip", "local"}},
	{"client", "real-obfs2-timeout", "outgoing connection failed", []string{"target", "errip", "local"}},
	{"client", "real-obfs3-readerr", "outgoing connection failed", []string{"target", "errip", "local"}},
	{"client", "real-obfs3-timeout", "outgoing connection failed", []string{"target", "errip", "local"}},
	{"client", "real-scramblesuit-readerr", "outgoing connection failed", []string{"target", "errip", "local"}},
	{"client", "real-scramblesuit-timeout", "outgoing connection failed", []string{"target", "errip", "local"}},
	{"client", "real-obfs4-readerr", "outgoing connection failed", []string{"target", "errip", "local"}},
	{"client", "real-obfs4-timeout", "outgoing connection failed", []string{"target", "errip", "local"}},
	{"client", "real-meek_lite-readerr", "closed connection", []string{"target"}},
	// … real servers whose peer's connection fails mid-handshake with such a read error …
	{"server", "real-obfs4-readerr", "handshake failed", []string{"peer", "local"}},
	{"server", "real-obfs3-readerr", "handshake failed", []string{"peer", "local"}},
	{"server", "real-obfs2-readerr", "handshake failed", []string{"peer"}},
	// … and the real obfs4 server: garbage, a truncated genuine handshake, a genuine handshake
	// (accepted, relayed) followed by its byte-identical replay from another peer
	{"server", "real-obfs4-garbage", "handshake failed", []string{"peer"}},
	{"server", "real-obfs4-truncated", "handshake failed", []string{"peer", "peer2"}},
	{"server", "real-obfs4-replay", "handshake failed", []string{"peer", "peer2"}},
	// client mode behind an upstream proxy (TOR_PT_PROXY): the real http / socks4a proxy dialers
	// against a loopback "proxy" (errip=127.x.y.z) that is not there, or resets the connection
	// at once / after it has read the CONNECT resp. SOCKS4 request
	{"client", "proxy-http-refused", "outgoing connection failed", []string{"target", "errip"}},
	{"client", "proxy-http-reset", "outgoing connection failed", []string{"target", "errip"}},
	{"client", "proxy-http-earlyreset", "outgoing connection failed", []string{"target", "errip"}},
	{"client", "proxy-socks4a-refused", "outgoing connection failed", []string{"target", "errip"}},
	{"client", "proxy-socks4a-reset", "outgoing connection failed", []string{"target", "errip"}},
	{"client", "proxy-socks4a-earlyreset", "outgoing connection failed", []string{"target", "errip"}},
	// the accept loops on a scripted listener (address local=): Accept() fails twice with a
	// temporary error (EMFILE), then permanently (EINVAL), then with net.ErrClosed.  The unchanged
	// code logs nothing here (no marker, nothing to expect with unsafe logging); whatever a
	// changed tree logs must not contain the listener's address.
	{"client", "accept-errors", "", nil},
	{"server", "accept-errors", "", nil},
	// the setup code: the real clientSetup() (pt.ClientSetup, ptGetProxy) with an upstream proxy
	// configured in TOR_PT_PROXY (proxy address errip=, user=, pass=), at level INFO and DEBUG.
	// The unchanged code logs nothing about the proxy (no marker, nothing to expect with unsafe
	// logging); whatever a changed tree logs must not contain the proxy's address, the user
	// name or the password.  And the real serverSetup() with a distinctive bind address.
	{"client", "setup-proxy-socks5", "", nil},
	{"client", "setup-proxy-socks5-userpass", "", nil},
	{"client", "setup-proxy-socks4a", "", nil},
	{"client", "setup-proxy-socks4a-user", "", nil},
	{"client", "setup-proxy-http", "", nil},
	{"client", "setup-proxy-http-user", "", nil},
	{"client", "setup-proxy-http-userpass", "", nil},
	{"server", "setup-bind", "registered listener", []string{"errip"}},
	// the real clientHandler on raw SOCKS5 messages: requests that fail in every way the front
	// end can fail, and odd-but-accepted ones (DOMAINNAME payloads with ':' '[' ']' '%' and
	// port-like suffixes), all built around distinctive destination names / addresses: whatever
	// text reaches the log ("client failed socks handshake: …", "closed connection") must not
	// contain them
	{"client", "socks-raw", "", nil},
}

func hostOf(hostport string) string {
	if i := strings.LastIndexByte(hostport, ':'); i >= 0 {
		h := hostport[:i]
		return strings.TrimSuffix(strings.TrimPrefix(h, "["), "]")
	}
	return hostport
}

func (c csCase) needles() map[string]string {
	return map[string]string{"peer": hostOf(c.Peer), "peer2": hostOf(c.Peer2), "local": hostOf(c.Local), "target": hostOf(c.Target),
		"errip": c.ErrIP, "errhost": c.ErrHost, "dns": hostOf(c.DNS), "user": c.User, "pass": c.Pass}
}

type csHook struct {
	cmd *exec.Cmd
	in  io.WriteCloser
	out *bufio.Reader
	dir string
}

func csStart() (*csHook, error) {
	repo := os.Getenv("VERIF_REPO")
	if repo == "" {
		repo = "/repo"
	}
	dir, err := os.MkdirTemp("", "c20hook")
	if err != nil {
		return nil, err
	}
	bin := filepath.Join(dir, "obfs4proxy-verif")
	b := exec.Command("go", "build", "-tags", "verif", "-o", bin, "./obfs4proxy")
	b.Dir = repo
	b.Env = append(os.Environ(), "GOFLAGS=-mod=mod", "GOPROXY=off", "GOSUMDB=off", "GOTOOLCHAIN=local")
	if out, err := b.CombinedOutput(); err != nil {
		os.RemoveAll(dir)
		return nil, fmt.Errorf("go build -tags verif ./obfs4proxy in %s: %v\n%s", repo, err, out)
	}
	c := exec.Command(bin)
	c.Env = append(os.Environ(), "OBFS4PROXY_VERIF_DRIVER=1")
	in, _ := c.StdinPipe()
	out, _ := c.StdoutPipe()
	c.Stderr = os.Stderr
	if err := c.Start(); err != nil {
		os.RemoveAll(dir)
		return nil, err
	}
	return &csHook{cmd: c, in: in, out: bufio.NewReaderSize(out, 1<<20), dir: dir}, nil
}

func (h *csHook) call(line string) string {
	if _, err := io.WriteString(h.in, line+"\n"); err != nil {
		return "hook-error " + err.Error()
	}
	rep, err := h.out.ReadString('\n')
	if err != nil {
		return "hook-error " + err.Error()
	}
	return strings.TrimRight(rep, "\n")
}

func (h *csHook) close() {
	h.in.Close()
	done := make(chan struct{})
	go func() { h.cmd.Wait(); close(done) }()
	select {
	case <-done:
	case <-time.After(5 * time.Second):
		h.cmd.Process.Kill()
	}
	os.RemoveAll(h.dir)
}

func csMarker(c csCase) (csPath, bool) {
	for _, p := range csPaths {
		if p.who == c.Who && p.path == c.Path {
			return p, true
		}
	}
	return csPath{}, false
}

func csCheck(r *vlib.Run, h *csHook, c csCase) {
	p, ok := csMarker(c)
	if !ok {
		return
	}
	tc := tcase{Kind: "callsite", CS: &c}
	line := fmt.Sprintf("log.run %s %s %s peer=%s peer2=%s local=%s target=%s errip=%s errhost=%s dns=%s",
		c.Mode, c.Who, c.Path, c.Peer, c.Peer2, c.Local, c.Target, c.ErrIP, c.ErrHost, c.DNS)
	if c.User != "" {
		line += " user=" + c.User
	}
	if c.Pass != "" {
		line += " pass=" + c.Pass
	}
	if c.Level != "" {
		line += " level=" + c.Level
	}
	if c.Msgs != "" {
		line += " msgs=" + c.Msgs
		r.Count("callsite.socks-raw", c.Note)
	}
	rep := h.call(line)
	r.Case(line, c.Mode == "safe" && len(p.expect) > 0)
	r.Validated(1)
	r.Count("callsite.path", c.Who+"/"+c.Path)
	r.Count("callsite.mode", c.Mode)
	if !strings.HasPrefix(rep, "ok ") {
		r.Violate("callsite-driver-failed", "correspondence", fmt.Sprintf("%s: the hook driver answered %q", line, rep), tc)
		return
	}
	text := string(vlib.UnHex(strings.TrimPrefix(rep, "ok ")))
	sample(r, "callsite-"+c.Mode, map[string]interface{}{"cmd": line, "log": text})
	if !strings.Contains(text, p.marker) {
		r.Violate("callsite-path-not-reached", "correspondence",
			fmt.Sprintf("%s: the log has no line %q: %q", line, p.marker, text), tc)
		return
	}
	nd := c.needles()
	if c.Mode == "safe" {
		// property: with scrubbing enabled the logged text never contains the IP address, host
		// name or DNS server involved
		for _, k := range []string{"peer", "peer2", "local", "target", "errip", "errhost", "dns", "user", "pass"} {
			if nd[k] != "" && strings.Contains(text, nd[k]) {
				bad := ""
				for _, l := range strings.Split(text, "\n") {
					if strings.Contains(l, nd[k]) {
						bad = l
						break
					}
				}
				r.Violate("log-line-contains-peer-address", "impl-oracle",
					fmt.Sprintf("%s handler, path %s, scrubbing enabled: the log line %q contains the %s address/host %q", c.Who, c.Path, bad, k, nd[k]), tc)
				return
			}
		}
		for _, n := range c.Needles {
			if n != "" && strings.Contains(text, n) {
				bad := ""
				for _, l := range strings.Split(text, "\n") {
					if strings.Contains(l, n) {
						bad = l
						break
					}
				}
				r.Violate("log-line-contains-destination", "impl-oracle",
					fmt.Sprintf("client handler, SOCKS request %q (%s), scrubbing enabled: the log line %q contains the destination %q", c.Note, c.Msgs, bad, n), tc)
				return
			}
		}
		return
	}
	for _, k := range p.expect {
		if !strings.Contains(text, nd[k]) {
			r.Violate("callsite-oracle-vacuous", "correspondence",
				fmt.Sprintf("%s: with unsafe logging the %s address %q should be in the log (otherwise the scrubbed run proves nothing): %q", line, k, nd[k], text), tc)
			return
		}
	}
}

func csAddresses(rng *vlib.Rng) csCase {
	x := func() int { return rng.Range(2, 250) }
	c := csCase{}
	if rng.Intn(3) == 0 {
		c.Peer = fmt.Sprintf("[2001:db8::%x]:%d", rng.Range(0x10, 0xfffe), rng.Range(1025, 65000))
	} else {
		c.Peer = fmt.Sprintf("203.0.113.%d:%d", x(), rng.Range(1025, 65000))
	}
	if rng.Intn(3) == 0 {
		c.Peer2 = fmt.Sprintf("203.0.113.%d:%d", x(), rng.Range(1025, 65000))
	} else {
		c.Peer2 = fmt.Sprintf("[2001:db8:3::%x]:%d", rng.Range(0x10, 0xfffe), rng.Range(1025, 65000))
	}
	c.Local = fmt.Sprintf("198.51.100.%d:%d", x(), rng.Range(1025, 65000))
	switch rng.Intn(3) {
	case 0:
		c.Target = fmt.Sprintf("bridge-%x.example:%d", rng.U64()&0xffffff, rng.Range(1, 65000))
	case 1:
		c.Target = fmt.Sprintf("203.0.113.%d:%d", x(), rng.Range(1, 65000))
	default:
		c.Target = fmt.Sprintf("[2001:db8:1::%x]:%d", rng.Range(0x10, 0xfffe), rng.Range(1, 65000))
	}
	if rng.Bool() {
		c.ErrIP = fmt.Sprintf("192.0.2.%d", x())
	} else {
		c.ErrIP = fmt.Sprintf("2001:db8:2::%x", rng.Range(0x10, 0xfffe))
	}
	c.ErrHost = fmt.Sprintf("front-%x.example", rng.U64()&0xffffff)
	c.DNS = fmt.Sprintf("192.0.2.%d:53", x())
	// no needle may be a substring of another field's text or of the fixed parts of a log line
	return c
}

// rawSocksCases: SOCKS5 exchanges built around distinctive destinations: every way the front end
// can fail, and odd-but-accepted DOMAINNAME payloads.  Each is (note, messages, needles).
func rawSocksCases(rng *vlib.Rng) []csCase {
	host := fmt.Sprintf("dest-%x.hidden-%x.example", rng.U64()&0xffffff, rng.U64()&0xffff)
	ip4 := fmt.Sprintf("203.0.113.%d", rng.Range(2, 250))
	ip6 := fmt.Sprintf("2001:db8:9::%x:%x", rng.Range(0x100, 0xfffe), rng.Range(0x100, 0xfffe))
	hx := func(b []byte) string { return vlib.Hex(b) }
	domReq := func(name string) []byte {
		r := append([]byte{5, 1, 0, 3, byte(len(name))}, name...)
		return append(r, 0x01, 0xbb)
	}
	var out []csCase
	add := func(note string, needles []string, msgs ...[]byte) {
		var hs []string
		for _, m := range msgs {
			hs = append(hs, hx(m))
		}
		out = append(out, csCase{Who: "client", Path: "socks-raw", Note: note, Msgs: strings.Join(hs, ","), Needles: needles})
	}
	greet := []byte{5, 1, 0}
	// odd-but-accepted (and, for a changed tree, possibly rejected) names
	for _, base := range []string{host, ip4, ip6} {
		for _, v := range []struct{ note, name string }{
			{"plain", base}, {"bracketed", "[" + base + "]"}, {"name:port", base + ":443"}, {"[name]:port", "[" + base + "]:443"},
			{"zone", base + "%eth0"}, {"escaped zone", base + "%25eth0"}, {"[zone]", "[" + base + "%eth0]"},
			{"trailing colon", base + ":"}, {"leading colon", ":" + base}, {"double colon suffix", base + "::"},
			{"open bracket", "[" + base}, {"close bracket", base + "]"}, {"name:port:port", base + ":443:80"},
			{"bad hex group", base + ":zz"}, {"too many groups", "1:2:3:4:5:6:7:" + base}, {"port-like :0", base + ":0"},
			{"port-like :65536", base + ":65536"}, {"user@", "user@" + base + ":443"}, {"url", "http://" + base + ":443/"},
		} {
			if len(v.name) <= 255 {
				add("name/"+v.note, []string{base}, greet, domReq(v.name))
			}
		}
	}
	// every way the front end can fail, with the destination in the bytes wherever there is one
	req := domReq("[" + ip6 + "]:443")
	nd := []string{ip6, host}
	with := func(i int, b byte) []byte { r := append([]byte(nil), req...); r[i] = b; return r }
	add("fail/greeting version", nd, []byte{4, 1, 0})
	add("fail/no methods", nd, []byte{5, 0})
	add("fail/no acceptable method", nd, []byte{5, 2, 0x80, 0x81})
	add("fail/greeting truncated", nd, []byte{5})
	add("fail/empty", nd)
	add("fail/pipelined request (trailing data)", nd, append(append([]byte(nil), greet...), req...))
	add("fail/request version", nd, greet, with(0, 4))
	add("fail/command BIND", nd, greet, with(1, 2))
	add("fail/reserved", nd, greet, with(2, 1))
	add("fail/address type", nd, greet, with(3, 2))
	add("fail/empty name", nd, greet, []byte{5, 1, 0, 3, 0, 0x01, 0xbb})
	add("fail/name truncated", nd, greet, req[:len(req)-6])
	add("fail/port missing", nd, greet, req[:len(req)-2])
	add("fail/port truncated", nd, greet, req[:len(req)-1])
	add("fail/trailing byte after port", nd, greet, append(append([]byte(nil), req...), 0))
	auth := func(u, p string) []byte {
		m := append([]byte{1, byte(len(u))}, u...)
		return append(append(m, byte(len(p))), p...)
	}
	ga := []byte{5, 1, 2}
	add("fail/auth version", nd, ga, func() []byte { a := auth("bridge="+host, "\x00"); a[0] = 2; return a }())
	add("fail/empty username", nd, ga, []byte{1, 0, 1, 0})
	add("fail/empty password", nd, ga, append(auth("bridge="+host, ""), 0)[:len(auth("bridge="+host, ""))])
	add("fail/auth truncated", nd, ga, auth("bridge="+host, "\x00")[:9])
	add("fail/args: no value", nd, ga, auth(host, "\x00"))
	add("fail/args: bad escape", nd, ga, auth("bridge="+host+"\\x", "\x00"))
	add("fail/args: trailing semicolon", nd, ga, auth("bridge="+host+";", "\x00"))
	add("fail/args: empty key", nd, ga, auth("="+host, "\x00"))
	add("fail/args: dangling escape in password", nd, ga, auth("bridge="+host, ";dns="+ip4+"\\"))
	add("ok/args carrying the destination", nd, ga, auth("bridge="+host+";addr="+ip6, "\x00"), req)
	return out
}

// callSites runs the family; replay != nil re-runs one recorded case.
func callSites(r *vlib.Run, replay *csCase) {
	h, err := csStart()
	if err != nil {
		r.Violate("callsite-driver-failed", "correspondence", "cannot build/start the package-main hook driver: "+err.Error(),
			tcase{Kind: "callsite", CS: &csCase{}})
		return
	}
	defer h.close()
	if replay != nil {
		csCheck(r, h, *replay)
		return
	}
	if dir := os.Getenv("VERIF_DIR"); dir != "" {
		files, _ := filepath.Glob(filepath.Join(dir, "corpus", "C20", "callsite-*.json"))
		for _, f := range files {
			b, err := os.ReadFile(f)
			if err != nil {
				continue
			}
			var doc struct {
				Case tcase `json:"case"`
			}
			if json.Unmarshal(b, &doc) == nil && doc.Case.CS != nil {
				csCheck(r, h, *doc.Case.CS)
			}
		}
	}
	rng := vlib.NewRng(r.Seed ^ 0xc20ca115)
	for i, n := 0, r.Scale(8, 60); i < n; i++ {
		a := csAddresses(rng)
		real := fmt.Sprintf("127.%d.%d.%d:%d", rng.Range(2, 250), rng.Range(2, 250), rng.Range(2, 250), rng.Range(40000, 60000))
		for _, rc := range rawSocksCases(rng) {
			for _, mode := range []string{"safe", "unsafe"} {
				c := a
				c.Mode, c.Who, c.Path, c.Msgs, c.Note, c.Needles = mode, rc.Who, rc.Path, rc.Msgs, rc.Note, rc.Needles
				csCheck(r, h, c)
			}
		}
		for _, p := range csPaths {
			if p.path == "socks-raw" {
				continue // driven above
			}
			for _, mode := range []string{"safe", "unsafe"} {
				c := a
				c.Mode, c.Who, c.Path = mode, p.who, p.path
				if p.who == "client" && strings.HasPrefix(p.path, "real-") && strings.HasSuffix(p.path, "-dial") {
					// this target is really dialled: a loopback address nobody listens on
					// (refused at once, whatever the network of the machine)
					c.Target = real
				}
				if strings.HasPrefix(p.path, "setup-") {
					// proxy address: any IP literal (nothing is dialled at setup); bind address: loopback
					switch {
					case p.path == "setup-bind" || rng.Intn(3) == 0:
						c.ErrIP = fmt.Sprintf("127.%d.%d.%d", rng.Range(2, 250), rng.Range(2, 250), rng.Range(2, 250))
					case rng.Bool():
						c.ErrIP = fmt.Sprintf("192.0.2.%d", rng.Range(2, 250))
					default:
						c.ErrIP = fmt.Sprintf("2001:db8:7::%x", rng.Range(0x10, 0xfffe))
					}
					c.User = fmt.Sprintf("proxyuser-%x", rng.U64()&0xffffff)
					c.Pass = fmt.Sprintf("s3cr3t-%x", rng.U64()&0xffffff)
					c.Level = []string{"INFO", "DEBUG"}[i%2] // both levels in every run
				}
				if strings.HasPrefix(p.path, "proxy-") {
					// both proxy dialers resolve the target: an IPv4 literal; the proxy is on loopback
					c.Target = fmt.Sprintf("203.0.113.%d:%d", rng.Range(2, 250), rng.Range(1, 65000))
					c.ErrIP = fmt.Sprintf("127.%d.%d.%d", rng.Range(2, 250), rng.Range(2, 250), rng.Range(2, 250))
				}
				csCheck(r, h, c)
			}
		}
	}
}
