// C20 — safe logging: the real log.ElideError / log.ElideAddr on generated error values of the
// standard network error types (nested to depth 4) against the Lean model (driver `log`), plus the
// implementation-level oracle stated from the property: varying only the address-bearing fields
// of an error must not change the text (non-interference), no generated address of >= 7
// characters may appear in it, and with unsafe logging the text is unchanged.
package main

import (
	"context"
	"encoding/hex"
	"encoding/json"
	"errors"
	"fmt"
	"net"
	"net/url"
	"os"
	"path/filepath"
	"sort"
	"strconv"
	"strings"
	"syscall"

	olog "gitlab.com/yawning/obfs4.git/common/log"

	"verif/harness/vlib"
)

// node is the shape of an error value.
type node struct {
	Kind  string  `json:"kind"` // addr dns inv unk op url sys wrap errno other plain
	S1    string  `json:"s1,omitempty"`
	S2    string  `json:"s2,omitempty"`
	S3    string  `json:"s3,omitempty"`
	Src   *string `json:"src,omitempty"`
	Addr  *string `json:"addr,omitempty"`
	Ptr   bool    `json:"ptr,omitempty"`
	N     int     `json:"n,omitempty"` // errno number / which "other" net.Error
	Inner *node   `json:"inner,omitempty"`
}

type tcase struct {
	Kind string  `json:"kind"` // err | addr
	Tree *node   `json:"tree,omitempty"`
	Twin *node   `json:"twin,omitempty"` // same shape, other addresses
	A    string  `json:"a,omitempty"`    // hex
	B    string  `json:"b,omitempty"`    // hex: same port / same splittability, other host
	Note string  `json:"note,omitempty"`
	CS   *csCase `json:"callsite,omitempty"` // kind "callsite": see callsites.go
}

// strAddr is a net.Addr with an arbitrary textual form.
type strAddr string

func (a strAddr) Network() string { return "tcp" }
func (a strAddr) String() string  { return string(a) }

func toAddr(s *string) net.Addr {
	if s == nil {
		return nil
	}
	// use the real types when the text is what they would print
	if host, port, err := net.SplitHostPort(*s); err == nil {
		if ip := net.ParseIP(host); ip != nil {
			if p, err := strconv.Atoi(port); err == nil {
				if ta := (&net.TCPAddr{IP: ip, Port: p}); ta.String() == *s {
					return ta
				}
			}
		}
	}
	return strAddr(*s)
}

// build constructs the real error value.
func build(n *node) error {
	switch n.Kind {
	case "addr":
		return &net.AddrError{Err: n.S1, Addr: n.S2}
	case "dns":
		e := &net.DNSError{Err: n.S1, Name: n.S2, Server: n.S3, IsNotFound: n.N&1 == 1, IsTimeout: n.N&2 == 2}
		if n.N&4 == 4 {
			e.UnwrapErr = &net.AddrError{Err: "unwrapped", Addr: n.S2} // never looked at by ElideError
		}
		return e
	case "inv":
		e := net.InvalidAddrError(n.S1)
		if n.Ptr {
			return &e
		}
		return e
	case "unk":
		e := net.UnknownNetworkError(n.S1)
		if n.Ptr {
			return &e
		}
		return e
	case "op":
		return &net.OpError{Op: n.S1, Net: n.S2, Source: toAddr(n.Src), Addr: toAddr(n.Addr), Err: build(n.Inner)}
	case "url":
		return &url.Error{Op: n.S1, URL: n.S2, Err: build(n.Inner)}
	case "sys":
		return &os.SyscallError{Syscall: n.S1, Err: build(n.Inner)}
	case "wrap":
		return fmt.Errorf(n.S1+"%w"+n.S2, build(n.Inner))
	case "errno":
		return syscall.Errno(n.N)
	case "other":
		switch n.N {
		case 0:
			return &net.ParseError{Type: "IP address", Text: n.S1}
		case 1:
			return os.ErrDeadlineExceeded
		case 2:
			return net.ErrClosed
		case 3:
			return context.DeadlineExceeded
		default:
			return &net.ParseError{Type: "CIDR address", Text: n.S1}
		}
	case "plain":
		return errors.New(n.S1)
	}
	panic("bad node kind " + n.Kind)
}

// modelErrOp: the driver op that models ElideError as the code under test is expected to be.
const modelErrOp = "err"

func hx(s string) string { return vlib.Hex([]byte(s)) }

func opt(s *string) string {
	if s == nil {
		return "~"
	}
	return hx(*s)
}

func b2i(b bool) int {
	if b {
		return 1
	}
	return 0
}

// tokens serialises the tree for the Lean driver.
func tokens(n *node) string {
	switch n.Kind {
	case "addr":
		return fmt.Sprintf("addr %s %s", hx(n.S1), hx(n.S2))
	case "dns":
		return fmt.Sprintf("dns %s %s %s", hx(n.S1), hx(n.S2), hx(n.S3))
	case "inv":
		return fmt.Sprintf("inv %s %d", hx(n.S1), b2i(n.Ptr))
	case "unk":
		return fmt.Sprintf("unk %s %d", hx(n.S1), b2i(n.Ptr))
	case "op":
		return fmt.Sprintf("op %s %s %s %s %s", hx(n.S1), hx(n.S2), opt(n.Src), opt(n.Addr), tokens(n.Inner))
	case "url":
		return fmt.Sprintf("url %s %s %s", hx(n.S1), hx(n.S2), tokens(n.Inner))
	case "sys":
		return fmt.Sprintf("sys %s %s", hx(n.S1), tokens(n.Inner))
	case "wrap":
		return fmt.Sprintf("wrap %s %s %s", hx(n.S1), hx(n.S2), tokens(n.Inner))
	case "errno":
		return fmt.Sprintf("errno %s", hx(build(n).Error()))
	case "other":
		e := build(n)
		return fmt.Sprintf("other %s %s", hx(fmt.Sprintf("%T", e)), hx(e.Error()))
	case "plain":
		return fmt.Sprintf("plain %s", hx(n.S1))
	}
	panic("bad node kind")
}

// addresses lists the address-bearing strings of a tree.
func addresses(n *node, out []string) []string {
	if n == nil {
		return out
	}
	switch n.Kind {
	case "addr":
		out = append(out, n.S2)
	case "dns":
		out = append(out, n.S2, n.S3)
	case "inv", "unk":
		out = append(out, n.S1)
	case "op":
		if n.Src != nil {
			out = append(out, *n.Src)
		}
		if n.Addr != nil {
			out = append(out, *n.Addr)
		}
	case "url":
		out = append(out, n.S2)
	case "other":
		if n.N == 0 || n.N > 3 {
			out = append(out, n.S1)
		}
	}
	return addresses(n.Inner, out)
}

func depth(n *node) int {
	if n == nil {
		return 0
	}
	return 1 + depth(n.Inner)
}

func countKind(n *node, kind string) int {
	c := 0
	for ; n != nil; n = n.Inner {
		if n.Kind == kind {
			c++
		}
	}
	return c
}

func depthBucket(d int) string {
	switch {
	case d <= 6:
		return fmt.Sprint(d)
	case d <= 9:
		return "7-9"
	case d <= 13:
		return "10-13"
	case d <= 20:
		return "14-20"
	default:
		return ">20"
	}
}

func shape(n *node) string {
	if n == nil {
		return ""
	}
	s := n.Kind
	if n.Ptr {
		s = "*" + s
	}
	if n.Inner != nil {
		s += ">" + shape(n.Inner)
	}
	return s
}

// ---------------------------------------------------------------- generators

var causeWords = []string{"no such host", "missing port in address", "too many colons in address", "connection refused",
	"i/o timeout", "server misbehaving", "network is unreachable", "invalid argument", "operation was canceled", "EOF", ""}
var opWords = []string{"dial", "read", "write", "accept", "close", "set", "Get", "Post", "lookup"}
var netWords = []string{"tcp", "tcp4", "tcp6", "udp", "unix", "ip+net", ""}
var sysWords = []string{"connect", "read", "write", "getsockopt", "setsockopt", "socket"}
var errnos = []syscall.Errno{syscall.ECONNREFUSED, syscall.ECONNRESET, syscall.ETIMEDOUT, syscall.ENETUNREACH,
	syscall.EHOSTUNREACH, syscall.EADDRNOTAVAIL, syscall.EPIPE, syscall.EINVAL, syscall.EAGAIN, syscall.Errno(0), syscall.Errno(9999)}

// genAddress: a fresh address-like string (host name, IPv4, IPv6, with or without port, URL host).
func genAddress(rng *vlib.Rng, style int) string {
	host := func() string {
		switch rng.Intn(4) {
		case 0:
			return fmt.Sprintf("%d.%d.%d.%d", rng.Range(1, 223), rng.Intn(256), rng.Intn(256), rng.Range(1, 254))
		case 1:
			return fmt.Sprintf("2001:db8:%x::%x:%x", rng.Intn(65536), rng.Intn(65536), rng.Intn(65536))
		case 2:
			return fmt.Sprintf("bridge-%x.secret-%x.example.net", rng.Intn(1<<24), rng.Intn(1<<16))
		default:
			return fmt.Sprintf("h%x.onion-%x.test", rng.Intn(1<<20), rng.Intn(1<<20))
		}
	}
	h := host()
	switch style {
	case 0: // bare
		return h
	case 1: // host:port
		return net.JoinHostPort(h, fmt.Sprint(rng.Range(1, 65535)))
	case 2: // url
		return fmt.Sprintf("https://%s/%x?x=%d", h, rng.Intn(1<<16), rng.Intn(100))
	default:
		if rng.Intn(8) == 0 {
			return ""
		}
		if rng.Bool() {
			return h
		}
		return net.JoinHostPort(h, fmt.Sprint(rng.Range(1, 65535)))
	}
}

func optAddress(rng *vlib.Rng) *string {
	if rng.Intn(3) == 0 {
		return nil
	}
	s := genAddress(rng, 1)
	if rng.Intn(5) == 0 {
		s = genAddress(rng, 0)
	}
	return &s
}

func genLeaf(rng *vlib.Rng) *node {
	switch rng.Intn(9) {
	case 0:
		return &node{Kind: "addr", S1: vlib.Pick(rng, causeWords), S2: genAddress(rng, 3)}
	case 1, 2:
		return &node{Kind: "dns", S1: vlib.Pick(rng, causeWords), S2: genAddress(rng, 0), S3: genAddress(rng, 3), N: rng.Intn(8)}
	case 3:
		return &node{Kind: "inv", S1: genAddress(rng, 3), Ptr: rng.Bool()}
	case 4:
		return &node{Kind: "unk", S1: genAddress(rng, 3), Ptr: rng.Bool()}
	case 5, 6:
		return &node{Kind: "errno", N: int(vlib.Pick(rng, errnos))}
	case 7:
		return &node{Kind: "other", N: rng.Intn(5), S1: genAddress(rng, 0)}
	default:
		return &node{Kind: "plain", S1: vlib.Pick(rng, causeWords)}
	}
}

// wrapper mixes: which wrapper kinds a chain is built from
const (
	mixAll    = iota // OpError, url.Error, os.SyscallError, fmt %w
	mixOpOnly        // OpErrors only
	mixNoURL         // OpError, os.SyscallError, fmt %w (url.Error ends the errors.As walk with a type-only text)
)

func genWrapper(rng *vlib.Rng, mix int, inner *node) *node {
	k := rng.Intn(7)
	switch mix {
	case mixOpOnly:
		k = 0
	case mixNoURL:
		if k == 3 {
			k = 0
		}
	}
	switch k {
	case 0, 1, 2:
		return &node{Kind: "op", S1: vlib.Pick(rng, opWords), S2: vlib.Pick(rng, netWords), Src: optAddress(rng), Addr: optAddress(rng), Inner: inner}
	case 3:
		return &node{Kind: "url", S1: vlib.Pick(rng, opWords), S2: genAddress(rng, 2), Inner: inner}
	case 4:
		return &node{Kind: "sys", S1: vlib.Pick(rng, sysWords), Inner: inner}
	default:
		return &node{Kind: "wrap", S1: vlib.Pick(rng, []string{"", "handshake failed: ", "outgoing connection: ", "obfs4: "}),
			S2: vlib.Pick(rng, []string{"", " (giving up)", "; retrying"}), Inner: inner}
	}
}

// genChain: `wrappers` wrappers of the given mix around `leaf`.
func genChain(rng *vlib.Rng, wrappers, mix int, leaf *node) *node {
	n := leaf
	for i := 0; i < wrappers; i++ {
		n = genWrapper(rng, mix, n)
	}
	return n
}

// addressLeaves: one leaf of every address-bearing kind (incl. an OpError with addresses
// around a syscall error, and a url.Error), for the deterministic deep chains.
func addressLeaves(rng *vlib.Rng) []*node {
	errnoLeaf := &node{Kind: "errno", N: int(syscall.ECONNREFUSED)}
	return []*node{
		{Kind: "dns", S1: "no such host", S2: genAddress(rng, 0), S3: genAddress(rng, 1)},
		{Kind: "addr", S1: "missing port in address", S2: genAddress(rng, 0)},
		{Kind: "unk", S1: genAddress(rng, 0), Ptr: rng.Bool()},
		{Kind: "inv", S1: genAddress(rng, 0), Ptr: rng.Bool()},
		{Kind: "op", S1: "dial", S2: "tcp", Src: optAddress(rng), Addr: strp(genAddress(rng, 1)), Inner: &node{Kind: "sys", S1: "connect", Inner: errnoLeaf}},
		{Kind: "url", S1: "Get", S2: genAddress(rng, 2), Inner: &node{Kind: "plain", S1: "EOF"}},
		{Kind: "other", N: 0, S1: genAddress(rng, 0)},
	}
}

func strp(s string) *string { return &s }

// genDepth: number of wrappers, a distribution with a long tail (0..3 mostly, up to 24).
func genDepth(rng *vlib.Rng) int {
	switch k := rng.Intn(20); {
	case k < 12:
		return rng.Intn(4)
	case k < 16:
		return rng.Range(4, 7)
	case k < 19:
		return rng.Range(8, 13)
	default:
		return rng.Range(14, 24)
	}
}

func genTree(rng *vlib.Rng, d int) *node {
	if d <= 1 {
		return genLeaf(rng)
	}
	inner := genTree(rng, d-1)
	switch rng.Intn(7) {
	case 0, 1, 2:
		return &node{Kind: "op", S1: vlib.Pick(rng, opWords), S2: vlib.Pick(rng, netWords), Src: optAddress(rng), Addr: optAddress(rng), Inner: inner}
	case 3:
		return &node{Kind: "url", S1: vlib.Pick(rng, opWords), S2: genAddress(rng, 2), Inner: inner}
	case 4:
		return &node{Kind: "sys", S1: vlib.Pick(rng, sysWords), Inner: inner}
	default:
		return &node{Kind: "wrap", S1: vlib.Pick(rng, []string{"", "handshake failed: ", "outgoing connection: ", "obfs4: "}),
			S2: vlib.Pick(rng, []string{"", " (giving up)", "; retrying"}), Inner: inner}
	}
}

// twin: same shape, same non-address fields, fresh address fields (presence of optional
// addresses and emptiness may change too: they are part of the address).
func twin(rng *vlib.Rng, n *node) *node {
	if n == nil {
		return nil
	}
	t := *n
	t.Inner = twin(rng, n.Inner)
	switch n.Kind {
	case "addr":
		t.S2 = genAddress(rng, 3)
	case "dns":
		t.S2, t.S3 = genAddress(rng, 0), genAddress(rng, 3)
		t.N = rng.Intn(8)
	case "inv", "unk":
		t.S1 = genAddress(rng, 3)
	case "op":
		t.Src, t.Addr = optAddress(rng), optAddress(rng)
	case "url":
		t.S2 = genAddress(rng, 2)
	case "other":
		if n.N == 0 || n.N > 3 {
			t.S1 = genAddress(rng, 0)
		}
	}
	return &t
}

// ---------------------------------------------------------------- checks

func elideErr(e error) (s string, pv interface{}) {
	defer func() { pv = recover() }()
	return olog.ElideError(e), nil
}

func outClass(out string) string {
	switch {
	case strings.HasPrefix(out, "network error: <"):
		return "type-only"
	case strings.Contains(out, ": network error: <"):
		return "op + type-only"
	case strings.Contains(out, "[scrubbed]"):
		return "scrubbed"
	default:
		return "verbatim"
	}
}

func checkErr(r *vlib.Run, d *vlib.Driver, c tcase) {
	e := build(c.Tree)
	tree := tokens(c.Tree)
	addrs := addresses(c.Tree, nil)
	long := 0
	for _, a := range addrs {
		if len(a) >= 7 {
			long++
		}
	}
	r.Case("err "+tree, depth(c.Tree) >= 2 && long >= 1)
	r.Count("depth", depthBucket(depth(c.Tree)))
	r.Count("nested-OpErrors", depthBucket(countKind(c.Tree, "op")))
	r.Count("top-kind", c.Tree.Kind)
	if c.Note != "" {
		r.Count("corpus", c.Note)
	}

	olog.Init(false, "", false)
	out, pv := elideErr(e)
	if pv != nil {
		r.Violate("elide-error-panics", "impl-oracle", fmt.Sprintf("ElideError(%s) panicked: %v", shape(c.Tree), pv), c)
		return
	}
	r.Count("output-class", outClass(out))
	var ne net.Error
	if errors.As(e, &ne) {
		r.Count("first-net-error", fmt.Sprintf("%T", ne))
	} else {
		r.Count("first-net-error", "none")
	}

	// ---- S: the property on the implementation alone
	for _, a := range addrs {
		if len(a) >= 7 && strings.Contains(out, a) {
			r.Violate("elide-error-leaks-address", "impl-oracle",
				fmt.Sprintf("ElideError of %s (%q) returned %q, which contains the address %q", shape(c.Tree), e.Error(), out, a), c)
			return
		}
	}
	if c.Twin != nil {
		out2, pv2 := elideErr(build(c.Twin))
		if pv2 != nil || out2 != out {
			r.Violate("elide-error-depends-on-address", "impl-oracle",
				fmt.Sprintf("two %s errors that differ only in their address fields are logged differently: %q vs %q", shape(c.Tree), out, out2), c)
			return
		}
	}
	olog.Init(false, "", true)
	uout, upv := elideErr(e)
	olog.Init(false, "", false)
	if upv != nil || uout != e.Error() {
		r.Violate("unsafe-logging-alters-text", "impl-oracle", fmt.Sprintf("unsafe logging: ElideError returned %q for %q", uout, e.Error()), c)
		return
	}

	// ---- C: model vs implementation
	m := d.Call(modelErrOp+" 0 %s", tree)
	r.Validated(1)
	sample(r, "err/"+outClass(out), map[string]interface{}{"error": e.Error(), "shape": shape(c.Tree), "impl": out, "model": string(vlib.UnHex(safeHex(m)))})
	if m != vlib.Hex([]byte(out)) {
		r.Violate("model-impl-disagree-elide-error", "correspondence",
			fmt.Sprintf("ElideError of %s (%q): implementation %q, Lean model %q", shape(c.Tree), e.Error(), out, vlib.UnHex(safeHex(m))), c)
		return
	}
	if t := d.Call("text %s", tree); t != vlib.Hex([]byte(e.Error())) {
		r.Violate("model-impl-disagree-error-text", "correspondence",
			fmt.Sprintf("Error() of %s: implementation %q, Lean model %q", shape(c.Tree), e.Error(), vlib.UnHex(safeHex(t))), c)
		return
	}
	if u := d.Call(modelErrOp+" 1 %s", tree); u != vlib.Hex([]byte(uout)) {
		r.Violate("model-impl-disagree-unsafe", "correspondence", fmt.Sprintf("unsafe ElideError of %s: implementation %q, model %q", shape(c.Tree), uout, vlib.UnHex(safeHex(u))), c)
	}
}

func safeHex(s string) string {
	if s == "-" {
		return s
	}
	if _, err := hex.DecodeString(s); err != nil {
		return hex.EncodeToString([]byte("<" + s + ">"))
	}
	return s
}

var sampled = map[string]int{}

func sample(r *vlib.Run, class string, v interface{}) {
	if sampled[class] < 3 {
		sampled[class]++
		r.Sample(24, v)
	}
}

func checkAddr(r *vlib.Run, d *vlib.Driver, c tcase) {
	a := string(vlib.UnHex(c.A))
	r.Case("addr "+c.A, strings.ContainsAny(a, ":[]"))
	r.Count("addr-kind", c.Note)
	olog.Init(false, "", false)
	out := olog.ElideAddr(a)
	_, _, splitErr := net.SplitHostPort(a)
	r.Count("addr-splits", fmt.Sprint(splitErr == nil))

	// S: only "[scrubbed]" or "[scrubbed]:" + what follows the last colon
	want1, want2 := "[scrubbed]", "[scrubbed]"
	if i := strings.LastIndex(a, ":"); i >= 0 {
		want2 = "[scrubbed]:" + a[i+1:]
	}
	if out != want1 && out != want2 {
		r.Violate("elide-addr-keeps-host", "impl-oracle",
			fmt.Sprintf("ElideAddr(%q) = %q: neither %q nor %q", a, out, want1, want2), c)
		return
	}
	if c.B != "" {
		b := string(vlib.UnHex(c.B))
		if out2 := olog.ElideAddr(b); out2 != out {
			r.Violate("elide-addr-depends-on-host", "impl-oracle",
				fmt.Sprintf("ElideAddr(%q) = %q but ElideAddr(%q) = %q (same port, other host)", a, out, b, out2), c)
			return
		}
	}
	olog.Init(false, "", true)
	uout := olog.ElideAddr(a)
	olog.Init(false, "", false)
	if uout != a {
		r.Violate("unsafe-logging-alters-text", "impl-oracle", fmt.Sprintf("unsafe logging: ElideAddr(%q) = %q", a, uout), c)
		return
	}
	m := d.Call("addr 0 %s", vlib.Hex([]byte(a)))
	r.Validated(1)
	sample(r, "addr/"+c.Note, map[string]interface{}{"addr": a, "impl": out, "model": string(vlib.UnHex(safeHex(m)))})
	if m != vlib.Hex([]byte(out)) {
		r.Violate("model-impl-disagree-elide-addr", "correspondence", fmt.Sprintf("ElideAddr(%q): implementation %q, Lean model %q", a, out, vlib.UnHex(safeHex(m))), c)
		return
	}
	if u := d.Call("addr 1 %s", vlib.Hex([]byte(a))); u != vlib.Hex([]byte(uout)) {
		r.Violate("model-impl-disagree-unsafe", "correspondence", fmt.Sprintf("unsafe ElideAddr(%q): implementation %q, model %q", a, uout, vlib.UnHex(safeHex(u))), c)
	}
}

func check(r *vlib.Run, d *vlib.Driver, c tcase) {
	switch c.Kind {
	case "err":
		checkErr(r, d, c)
	case "addr":
		checkAddr(r, d, c)
	}
}

func genAddrCase(rng *vlib.Rng) tcase {
	c := tcase{Kind: "addr"}
	port := fmt.Sprint(rng.Range(0, 65535))
	if rng.Intn(6) == 0 {
		port = vlib.Pick(rng, []string{"", "http", "0", "65536", "80 ", "-1"})
	}
	plainHost := func() string {
		return vlib.Pick(rng, []string{genAddress(rng, 0), "localhost", "", "a", fmt.Sprintf("10.%d.%d.%d", rng.Intn(256), rng.Intn(256), rng.Intn(256))})
	}
	noColon := func(f func() string) string {
		for {
			if h := f(); !strings.Contains(h, ":") {
				return h
			}
		}
	}
	v6 := func() string { return fmt.Sprintf("2001:db8::%x:%x", rng.Intn(65536), rng.Intn(65536)) }
	var a, b string
	switch k := rng.Intn(8); k {
	case 0:
		a, b = noColon(plainHost)+":"+port, noColon(plainHost)+":"+port
		c.Note = "host:port"
	case 1:
		a, b = "["+v6()+"]:"+port, "["+v6()+"]:"+port
		c.Note = "[v6]:port"
	case 2:
		a, b = noColon(plainHost), noColon(plainHost)
		c.Note = "no port"
	case 3:
		a, b = v6(), v6()
		c.Note = "bare v6 (too many colons)"
	case 4:
		a = ""
		c.Note = "empty"
	case 5: // bracket misuse
		h := noColon(plainHost)
		a = vlib.Pick(rng, []string{"[" + h + ":" + port, h + "]:" + port, "[" + h + "]" + port, "[[" + h + "]]:" + port, "[" + h + "]:" + port + "]",
			"[" + v6() + "]", "[" + v6() + "]:", "[]:" + port, "[" + h + "]x:" + port, "[" + v6() + "]::" + port, h + ":[" + port, ":" + port, ":", "::", "[:]:"})
		c.Note = "bracket/colon misuse"
	case 6: // random bytes over a small alphabet
		n := rng.Intn(12)
		bs := make([]byte, n)
		al := []byte{':', '[', ']', 'a', '1', '.', 0, 0xff, '%'}
		for i := range bs {
			bs[i] = al[rng.Intn(len(al))]
		}
		a = string(bs)
		c.Note = "garbage"
	default:
		a = string(rng.Bytes(rng.Intn(24)))
		c.Note = "random bytes"
	}
	c.A = vlib.Hex([]byte(a))
	if b != "" && b != a {
		c.B = vlib.Hex([]byte(b))
	}
	return c
}

func main() {
	r := vlib.NewRun("C20")
	r.Rule = "error case = a real error value: a leaf (AddrError, DNSError, InvalidAddrError / UnknownNetworkError as value or pointer, syscall.Errno, " +
		"other net.Error implementations, errors.New) under 0..24 wrappers (long-tailed depth; OpError with nil/non-nil Source/Addr, url.Error, os.SyscallError, fmt %w; mixed, without url.Error, and OpError-only chains; every run also contains fixed chains of 1..6, 8, 12, 16 and 20 wrappers around each address-bearing leaf kind), " +
		"with fresh host names / IPv4 / IPv6 / host:port / URLs in every address-bearing field, plus a twin that differs only in those fields; " +
		"address case = host:port, [v6]:port, no port, bare v6, empty, bracket/colon misuse, garbage, random bytes (with a twin of equal port). " +
		"Non-trivial: an error of depth >= 2 carrying an address of >= 7 characters; an address string containing ':' or brackets. Distinct by canonical input."
	r.Assumptions = []string{
		"free-text fields (DNSError.Err, AddrError.Err, OpError.Op/Net, SyscallError.Syscall, the fmt prefix/suffix, errors.New text) are cause words that do not quote an address (generator property)",
		"url.Error.URL consists of characters that %q prints unescaped",
		"Go 1.23 standard library Error() texts as modelled (tied by the `text` comparison)",
	}
	d := r.Driver("log")
	defer d.Close()

	if r.ReplayIn != "" {
		var c tcase
		if err := r.LoadReplay(&c); err != nil {
			fmt.Fprintln(os.Stderr, "cannot load replay:", err)
			os.Exit(3)
		}
		if c.Kind == "callsite" && c.CS != nil {
			callSites(r, c.CS)
		}
		check(r, d, c)
		r.Finish()
	}

	if dir := os.Getenv("VERIF_DIR"); dir != "" {
		files, _ := filepath.Glob(filepath.Join(dir, "corpus", "C20", "*.json"))
		sort.Strings(files)
		for _, f := range files {
			b, err := os.ReadFile(f)
			if err != nil {
				continue
			}
			var doc struct {
				Case tcase `json:"case"`
			}
			if json.Unmarshal(b, &doc) == nil && doc.Case.Kind != "" {
				doc.Case.Note = filepath.Base(f)
				check(r, d, doc.Case)
			}
		}
	}

	callSites(r, nil) // the call sites in obfs4proxy (package main), through the hook driver

	rng := vlib.NewRng(r.Seed)
	// deterministic part: chains of 1..6, 8, 12, 16, 20 wrappers, OpError-only as well as mixed,
	// around every address-bearing leaf kind (a defect that needs N nested OpErrors shows here
	// whatever the seed)
	for _, w := range []int{1, 2, 3, 4, 5, 6, 8, 12, 16, 20} {
		for _, mix := range []int{mixOpOnly, mixNoURL, mixAll} {
			for rep := 0; rep < 3; rep++ {
				for _, leaf := range addressLeaves(rng) {
					t := genChain(rng, w, mix, leaf)
					check(r, d, tcase{Kind: "err", Tree: t, Twin: twin(rng, t), Note: ""})
				}
			}
		}
	}
	for i, n := 0, r.Scale(60000, 1000000); i < n; i++ {
		var t *node
		switch i % 4 {
		case 0: // the original shallow trees
			t = genTree(rng, rng.Range(1, 4))
		default: // long-tailed depth, three wrapper mixes
			t = genChain(rng, genDepth(rng), vlib.Pick(rng, []int{mixAll, mixNoURL, mixNoURL, mixOpOnly}), genLeaf(rng))
		}
		check(r, d, tcase{Kind: "err", Tree: t, Twin: twin(rng, t)})
	}
	for i, n := 0, r.Scale(24000, 350000); i < n; i++ {
		check(r, d, genAddrCase(rng))
	}
	r.Finish()
}
