// C02 — the obfs4 client only completes with the holder of the bridge identity key.
//
// The Lean driver `o4ref` plays (a) the genuine reference server and (b) a man in the middle who
// forges responses from PUBLIC information only; the real client is driven
//
//	fn    at function level (hook VerifRefNewClientHS: one session key, many responses): all 768
//	      single-bit flips of Y'|AUTH|M_S|MAC_S, padding bits, every split class, forgeries
//	dial  through ParseArgs + Dial on a scripted conn: genuine / forged / modified exchanges,
//	      a client configured with another node ID or public key
//	srv   reference client <-> real server (WrapConn): genuine, and with a wrong identity
//	pads  genuine real client <-> real server with steered padding: client min/min+1/max-1/max (request
//	      141..8192 bytes) x server 0/max x one piece/chunked: must complete, same keys, data both ways
//	wrongid a real client configured (ParseArgs, both formats) with EVERY single-bit change of the
//	      bridge line (160 node-id + 256 public-key bits) dials the genuine real server: must fail
//	fresh 8 WrapConn calls overlapping on one factory + 8 sequential ones: pairwise distinct Y',
//	      session keys, and per-connection random draws as the model's; 8 clients: distinct X'
//	conc  16 (quick: 3 batches; search mode: up to 40) / 32 (thorough) genuine client-server pairs of
//	      one factory handshaking truly in parallel over pipes, payload echo; S oracle only
//
// C (correspondence): outcome class per read-loop iteration, bytes consumed and the derived
// key blocks equal the model's `parseServerHandshake` / `clientFeed`.
// S (property text): after every forged / modified exchange the client has FAILED (error, no
// key material, Dial returns no conn, no application byte readable); after every genuine one
// data flows both ways.
package main

import (
	"bytes"
	"encoding/json"
	"fmt"
	"io"
	"net"
	"runtime"
	"strconv"
	"strings"
	"sync"
	"sync/atomic"
	"time"

	"gitlab.com/yawning/obfs4.git/common/ntor"
	"gitlab.com/yawning/obfs4.git/transports/obfs4"

	"verif/harness/o4h"
	"verif/harness/vlib"
)

type ccase struct {
	Family   string `json:"family"`
	Kind     string `json:"kind"`
	CaseSeed uint64 `json:"case_seed"`
	Format   string `json:"format"`
	Chunk    string `json:"chunk"`
	HourOff  int    `json:"hour_off,omitempty"` // clock of the REFERENCE peer relative to the real one (genuine kinds): -1, 0, +1
	Sub      string `json:"sub,omitempty"`      // the sub-check that failed (fn family), for the replay reader
}

func (c ccase) key() string { b, _ := json.Marshal(c); return string(b) }

var (
	K   = map[string]int{}
	r   *vlib.Run
	ref *o4h.Ref
)

func cint(name string) int {
	v, ok := K[name]
	if !ok {
		panic("constant " + name + " missing from obfs4.VerifConstants()")
	}
	return v
}

func violate(sig, kind, desc string, c ccase) {
	tail := ref.Log
	if len(tail) > 5 {
		tail = tail[len(tail)-5:]
	}
	r.Violate(sig, kind, desc+" | case "+c.key()+" | last driver ops: "+strings.Join(tail, " ;; "), c)
}

func refTape(rng *vlib.Rng) []byte { return rng.Bytes(32*48 + 8*8 + 8200) }

func flipBit(b []byte, bit int) []byte {
	o := append([]byte(nil), b...)
	o[bit/8] ^= 1 << uint(bit%8)
	return o
}

// ---------------------------------------------------------------- the forgeries (public information only)

// forgeKinds: every kind must make the client fail.  genuine = R (response) + seed frame from the
// reference server holding the real private key; everything else is built without it.
var forgeKinds = []string{"otherkey-own", "otherkey-true", "diff-y", "zero-repr", "hour+1", "hour-1", "hour+2",
	"early-mark", "garbage-8192", "truncated-mac", "auth-zero", "swap-auth-y", "auth-flip-remac", "y-flip-remac", "bitflip", "padflip"}

// benign: modifications a holder of the public bridge line can make that leave Y, AUTH and hence
// the ntor outcome untouched (the peer completing the handshake is still the genuine server):
// the two unused top bits of the representative, the padding — with mark and MAC recomputed.
// Outcome compared with the model only; they are not "impostor" responses.
var benignKinds = []string{"y-topbit-remac", "pad-remac"}

type world struct {
	id      o4h.Identity
	hour    int64
	blob    []byte // the client's handshake
	resp    []byte // genuine response R
	seedFr  []byte // genuine seed frame
	srvSess string
}

// forge builds the response bytes of one kind. modified=true: the client must fail.
func forge(rng *vlib.Rng, w *world, kind string, bit int) (buf []byte, desc string) {
	R := w.resp
	xRepr := w.blob[:32]
	impPriv := rng.Bytes(32)
	impKp, _ := ntor.KeypairFromHex(fmt.Sprintf("%x", impPriv))
	impPub := impKp.Public().Bytes()[:]
	pad := rng.Bytes(rng.Range(0, 300))
	switch kind {
	case "genuine":
		return append(append([]byte(nil), R...), w.seedFr...), "genuine response + seed frame"
	case "otherkey-own":
		f := ref.ForgeNtor(w.id.NodeID, impPub, impPriv, xRepr, refTape(rng))
		return ref.ForgeBlob(w.id.NodeID, w.id.Pub, f.YRepr, f.Auth, pad, w.hour), "valid mark+MAC, AUTH from the impostor's own identity key (B' in the transcript)"
	case "otherkey-true":
		f := ref.ForgeNtor(w.id.NodeID, w.id.Pub, impPriv, xRepr, refTape(rng))
		return ref.ForgeBlob(w.id.NodeID, w.id.Pub, f.YRepr, f.Auth, pad, w.hour), "valid mark+MAC, AUTH from the impostor's key with the genuine B in the transcript"
	case "diff-y":
		f := ref.ForgeNtor(w.id.NodeID, impPub, impPriv, xRepr, refTape(rng)) // only its Y' is used
		return ref.ForgeBlob(w.id.NodeID, w.id.Pub, f.YRepr, R[32:64], R[64:len(R)-32], w.hour), "genuine AUTH re-wrapped around a different Y' (mark+MAC recomputed)"
	case "zero-repr":
		return ref.ForgeBlob(w.id.NodeID, w.id.Pub, make([]byte, 32), R[32:64], pad, w.hour), "Y' = 0 (decodes to a low-order point), valid mark+MAC"
	case "hour+1", "hour-1", "hour+2":
		d := map[string]int64{"hour+1": 1, "hour-1": -1, "hour+2": 2}[kind]
		return ref.ForgeBlob(w.id.NodeID, w.id.Pub, R[0:32], R[32:64], R[64:len(R)-32], w.hour+d), "genuine Y'|AUTH|pad MACed for another hour"
	case "early-mark":
		mk := R[len(R)-32 : len(R)-16]
		p := append(append(rng.Bytes(rng.Range(0, 40)), mk...), rng.Bytes(rng.Range(16, 100))...)
		return ref.ForgeBlob(w.id.NodeID, w.id.Pub, R[0:32], R[32:64], p, w.hour), "genuine Y'|AUTH, padding that contains the mark early"
	case "garbage-8192":
		return rng.Bytes(8192), "8192 random bytes"
	case "truncated-mac":
		return append([]byte(nil), R[:len(R)-rng.Range(1, 16)]...), "genuine response cut inside MAC_S"
	case "auth-zero":
		return ref.ForgeBlob(w.id.NodeID, w.id.Pub, R[0:32], make([]byte, 32), R[64:len(R)-32], w.hour), "genuine Y', AUTH = 0, mark+MAC recomputed"
	case "swap-auth-y":
		return ref.ForgeBlob(w.id.NodeID, w.id.Pub, R[32:64], R[0:32], R[64:len(R)-32], w.hour), "Y' and AUTH swapped, mark+MAC recomputed"
	case "auth-flip-remac":
		a := flipBit(R[32:64], bit%256)
		return append(ref.ForgeBlob(w.id.NodeID, w.id.Pub, R[0:32], a, R[64:len(R)-32], w.hour), w.seedFr...), fmt.Sprintf("AUTH bit %d flipped, mark+MAC recomputed", bit%256)
	case "y-flip-remac":
		y := flipBit(R[0:32], bit%254) // a bit that changes the decoded point
		return append(ref.ForgeBlob(w.id.NodeID, w.id.Pub, y, R[32:64], R[64:len(R)-32], w.hour), w.seedFr...), fmt.Sprintf("Y' bit %d flipped, mark+MAC recomputed", bit%254)
	case "y-topbit-remac":
		y := flipBit(R[0:32], 254+bit%2)
		return append(ref.ForgeBlob(w.id.NodeID, w.id.Pub, y, R[32:64], R[64:len(R)-32], w.hour), w.seedFr...), "unused top bit of Y' flipped, mark+MAC recomputed (same point, same AUTH)"
	case "pad-remac":
		return append(ref.ForgeBlob(w.id.NodeID, w.id.Pub, R[0:32], R[32:64], pad, w.hour), w.seedFr...), "padding replaced, mark+MAC recomputed (same Y', same AUTH)"
	case "bitflip":
		return append(flipBit(R, bit), w.seedFr...), fmt.Sprintf("genuine response with bit %d of byte %d flipped", bit%8, bit/8)
	case "padflip":
		return append(flipBit(R, bit), w.seedFr...), fmt.Sprintf("genuine response with padding bit %d of byte %d flipped", bit%8, bit/8)
	}
	panic("unknown kind " + kind)
}

// fieldBits: the 768 bit positions of Y'|AUTH|M_S|MAC_S in a response of length n.
func fieldBits(n int) []int {
	var out []int
	for by := 0; by < 64; by++ {
		for b := 0; b < 8; b++ {
			out = append(out, by*8+b)
		}
	}
	for by := n - 32; by < n; by++ {
		for b := 0; b < 8; b++ {
			out = append(out, by*8+b)
		}
	}
	return out
}

func fieldOf(bit, n int) string {
	by := bit / 8
	switch {
	case by < 32:
		return "Y'"
	case by < 64:
		return "AUTH"
	case by < n-32:
		return "P_S"
	case by < n-16:
		return "M_S"
	}
	return "MAC_S"
}

// ---------------------------------------------------------------- fn: function level

type outcome struct {
	Classes []string
	N       int
	Keys    []byte // enc|dec key blocks when ok
}

func (o outcome) String() string {
	return fmt.Sprintf("%v n=%d keys=%x", o.Classes, o.N, o.Keys[:imin(8, len(o.Keys))])
}

func imin(a, b int) int {
	if a < b {
		return a
	}
	return b
}

func goParse(h *obfs4.VerifRefClientHS, chunks [][]byte) (o outcome, seedOnErr bool) {
	var buf []byte
	for _, ch := range chunks {
		buf = append(buf, ch...)
		n, seed, err := h.Parse(buf)
		cls := o4h.ErrClass(err)
		o.Classes = append(o.Classes, cls)
		if err != nil && seed != nil {
			seedOnErr = true
		}
		if cls == "ok" {
			o.N = n
			o.Keys = ntor.Kdf(seed, 144)
		}
		if cls != "need" {
			break
		}
	}
	return
}

func leanParse(base string, chunks [][]byte) outcome {
	s := ref.Fresh("k")
	ref.CliClone(base, s)
	var o outcome
	total := 0
	for _, ch := range chunks {
		rep := ref.CliFeed(s, ch)
		total += len(ch)
		o.Classes = append(o.Classes, rep.Class)
		if rep.Class == "ok" {
			o.N = total - rep.N
			e, d, _ := ref.Keys(s)
			o.Keys = append(e, d...)
		}
		if rep.Class != "need" {
			break
		}
	}
	ref.Drop(s)
	return o
}

func same(a, b outcome) bool {
	return strings.Join(a.Classes, ",") == strings.Join(b.Classes, ",") && a.N == b.N && bytes.Equal(a.Keys, b.Keys)
}

// fnCheck: one response against a fork of the real handshake object and a clone of the Lean client.
func fnCheck(c ccase, h *obfs4.VerifRefClientHS, base string, sub string, buf []byte, chunks []int, modified bool, desc string) {
	c.Sub = sub
	parts := o4h.Split(buf, chunks)
	g, seedOnErr := goParse(h.Fork(), parts)
	l := leanParse(base, parts)
	last := g.Classes[len(g.Classes)-1]
	r.Case(c.key()+"|"+sub+"|"+fmt.Sprint(chunks), modified || len(parts) > 1)
	r.Validated(1)
	r.Count("fn_outcome", last)
	if seedOnErr {
		violate("key-seed-returned-with-error", "impl-oracle", sub+": parseServerHandshake returned an error together with a key seed ("+desc+")", c)
	}
	if modified && last == "ok" {
		violate("client-accepts-modified-response", "impl-oracle",
			fmt.Sprintf("%s: the real client accepted (%s): %s", sub, desc, g), c)
	}
	if !modified && last != "ok" && len(buf) >= len(parts[0]) && sub[:3] == "gen" && strings.HasSuffix(sub, "-full") {
		violate("client-rejects-genuine-response", "impl-oracle", fmt.Sprintf("%s: %s", sub, g), c)
	}
	if !same(g, l) {
		violate("parse-outcome-differs", "correspondence",
			fmt.Sprintf("%s (%s): real client %s ; model %s", sub, desc, g, l), c)
	}
}

func runFn(c ccase) (retry bool) {
	rng := vlib.NewRng(c.CaseSeed)
	o4h.InstallTape(c.CaseSeed)
	tape := o4h.Tape
	id := o4h.NewIdentity(rng, 0)
	hour0 := o4h.Hour()
	nodeID, _ := ntor.NewNodeID(id.NodeID)
	pub, _ := ntor.NewPublicKey(id.Pub)
	kp, err := ntor.NewKeypair(true)
	if err != nil {
		panic(err)
	}
	keyBytes := tape.Since(0)
	m := tape.Mark()
	h := obfs4.VerifRefNewClientHS(nodeID, pub, kp)
	blob, err := h.Generate()
	if err != nil {
		panic(err)
	}
	if h.EpochHour() != strconv.FormatInt(hour0, 10) || o4h.Hour() != hour0 {
		return true
	}
	// the Lean shadow of this client (its tape has the 24-byte seed Dial would draw in between)
	shadow := ref.Fresh("c")
	ltape := append(append(append([]byte(nil), keyBytes...), make([]byte, 24)...), tape.Since(m)...)
	rep := ref.CliNew(shadow, id.NodeID, id.Pub, ltape, hour0)
	if rep.Class != "ok" || !bytes.Equal(rep.Data, blob) {
		violate("client-handshake-bytes-differ", "correspondence", fmt.Sprintf("generateHandshake wrote %d bytes, the reference derives %s len %d", len(blob), rep.Class, len(rep.Data)), c)
		return
	}
	// genuine response from the reference server holding the private key
	srv := ref.Fresh("s")
	srep := ref.SrvNew(srv, id.NodeID, id.Priv, id.LenSeed, refTape(rng), "")
	if srep.Class == "ok" {
		srep = ref.SrvFeed(srv, blob, hour0, time.Now().UnixNano())
	}
	if srep.Class != "ok" {
		violate("ref-server-rejects-real-client", "impl-oracle", "srv.feed: "+srep.Raw, c)
		return
	}
	w := &world{id: id, hour: hour0, blob: blob, resp: srep.Data[:srep.N], seedFr: srep.Data[srep.N:], srvSess: srv}
	R, n := w.resp, srep.N
	full := srep.Data
	r.Count("response_len", strconv.Itoa(n/1024)+"k")

	// 1. genuine, whole and in every split class
	fnCheck(c, h, shadow, "gen-whole-full", full, nil, false, "genuine")
	marks := []int{32, 64, 95, 96, n - 32, n - 16, n - 1, n, n + 1, n + 44}
	for _, cl := range o4h.ChunkClasses {
		fnCheck(c, h, shadow, "gen-"+cl+"-full", full, o4h.Chunks(rng, cl, len(full), marks), false, "genuine, chunking "+cl)
	}
	for _, cut := range marks { // two-piece splits exactly at every boundary class
		if cut > 0 && cut < len(full) {
			fnCheck(c, h, shadow, fmt.Sprintf("gen-cut%d-full", cut-n), full, []int{cut}, false, "genuine, split")
		}
	}
	fnCheck(c, h, shadow, "gen-plusdata-full", append(append([]byte(nil), full...), rng.Bytes(rng.Range(1, 3000))...), nil, false, "genuine followed by more frames")
	fnCheck(c, h, shadow, "gen-prefix-only", R[:rng.Range(1, n-1)], nil, false, "proper prefix of the genuine response")

	// 2. every single bit of Y'|AUTH|M_S|MAC_S, then sampled padding bits
	for _, bit := range fieldBits(n) {
		buf, desc := forge(rng, w, "bitflip", bit)
		fnCheck(c, h, shadow, fmt.Sprintf("flip-%s-bit%d", fieldOf(bit, n), bit), buf, nil, true, desc)
		r.Count("bitflip_field", fieldOf(bit, n))
	}
	if n > 96 {
		for i := 0; i < 48; i++ {
			bit := 8*rng.Range(64, n-33) + rng.Intn(8)
			buf, desc := forge(rng, w, "padflip", bit)
			fnCheck(c, h, shadow, fmt.Sprintf("flip-P_S-%d", bit), buf, nil, true, desc)
			r.Count("bitflip_field", "P_S")
		}
	}
	// a flipped response, then padded with garbage up to the 8192 limit (terminal outcome)
	for i := 0; i < 6; i++ {
		bit := vlib.Pick(rng, fieldBits(n))
		buf, desc := forge(rng, w, "bitflip", bit)
		buf = append(buf, rng.Bytes(imax(0, 8192-len(buf)))...)
		fnCheck(c, h, shadow, fmt.Sprintf("flip-then-fill-%d", i), buf, []int{n + 45}, true, desc+", then filled to 8192")
	}

	// 2b. every AUTH bit flipped with mark+MAC recomputed (only the AUTH comparison stands in the way);
	//     sampled Y' bits likewise
	for bit := 0; bit < 256; bit++ {
		buf, desc := forge(rng, w, "auth-flip-remac", bit)
		fnCheck(c, h, shadow, fmt.Sprintf("authflip-remac-bit%d", bit), buf, nil, true, desc)
	}
	for i := 0; i < 24; i++ {
		buf, desc := forge(rng, w, "y-flip-remac", rng.Intn(254))
		fnCheck(c, h, shadow, fmt.Sprintf("yflip-remac-%d", i), buf, nil, true, desc)
	}
	for _, kind := range benignKinds {
		buf, desc := forge(rng, w, kind, rng.Intn(2))
		c2 := c
		c2.Sub = "benign-" + kind
		parts := [][]byte{buf}
		g, _ := goParse(h.Fork(), parts)
		l := leanParse(shadow, parts)
		r.Case(c.key()+"|"+c2.Sub, true)
		r.Count("benign_malleability", kind+"->"+g.Classes[0])
		if !same(g, l) {
			violate("parse-outcome-differs", "correspondence", fmt.Sprintf("%s (%s): real client %s ; model %s", c2.Sub, desc, g, l), c2)
		}
	}

	// 3. forgeries from public information, each whole and split
	for _, kind := range forgeKinds {
		if kind == "bitflip" || kind == "padflip" {
			continue
		}
		buf, desc := forge(rng, w, kind, rng.Intn(1<<20))
		if buf == nil {
			violate("forge-failed", "correspondence", "driver could not forge "+kind, c)
			continue
		}
		fnCheck(c, h, shadow, "forge-"+kind, buf, nil, true, desc)
		cl := vlib.Pick(rng, o4h.ChunkClasses)
		fnCheck(c, h, shadow, "forge-"+kind+"-"+cl, buf, o4h.Chunks(rng, cl, len(buf), []int{32, 64, 96, len(buf) - 32, len(buf) - 16}), true, desc)
		r.Count("forgery", kind)
	}

	// 4a. every single-bit change of the configured identity, function level: the genuine response
	//     must be refused (S oracle); a sample that always includes public-key bits 0, 7, 254, 255 and
	//     node-id bits 0, 159 is also compared with the model
	always := map[int]bool{160: true, 167: true, 160 + 254: true, 160 + 255: true, 0: true, 159: true}
	for i := 0; i < 6; i++ {
		always[rng.Intn(416)] = true
	}
	for bit := 0; bit < 416; bit++ {
		cfg, what := certBit(id, bit)
		n2, _ := ntor.NewNodeID(cfg.NodeID)
		p2, _ := ntor.NewPublicKey(cfg.Pub)
		tape.Steer = append([]byte(nil), tape.Since(m)...)
		h2 := obfs4.VerifRefNewClientHS(n2, p2, kp)
		if _, err := h2.Generate(); err != nil {
			panic(err)
		}
		tape.Steer = nil
		if h2.EpochHour() != strconv.FormatInt(hour0, 10) {
			return true
		}
		if always[bit] {
			sh2 := ref.Fresh("c")
			if rep := ref.CliNew(sh2, cfg.NodeID, cfg.Pub, ltape, hour0); rep.Class == "ok" {
				fnCheck(c, h2, sh2, fmt.Sprintf("wrongid-bit%d-genuine-response", bit), full, nil, true, "client configured with a bridge line differing in "+what+" receives the genuine response")
				buf := ref.ForgeBlob(cfg.NodeID, cfg.Pub, R[0:32], R[32:64], R[64:n-32], hour0)
				fnCheck(c, h2, sh2, fmt.Sprintf("wrongid-bit%d-rewrapped", bit), buf, nil, true, "genuine Y'|AUTH of (B,ID) under the mark+MAC of a configuration differing in "+what)
			}
			ref.Drop(sh2)
			continue
		}
		g, seedOnErr := goParse(h2, [][]byte{full})
		r.Case(c.key()+"|wrongid-bit"+strconv.Itoa(bit), true)
		r.Count("fn_outcome", g.Classes[0])
		if g.Classes[0] == "ok" || seedOnErr {
			c2 := c
			c2.Sub = fmt.Sprintf("wrongid-bit%d", bit)
			violate("client-accepts-modified-response", "impl-oracle", "a client configured with a bridge line differing in "+what+" accepts the genuine server's response: "+g.String(), c2)
		}
	}

	// 4. a client configured with another node ID / public key gets the genuine response
	for _, wk := range []string{"wrong-nodeid", "wrong-pubkey", "wrong-both"} {
		n2, p2 := nodeID, pub
		nid2, pk2 := id.NodeID, id.Pub
		if wk != "wrong-pubkey" {
			nid2 = flipBit(id.NodeID, rng.Intn(160))
			n2, _ = ntor.NewNodeID(nid2)
		}
		if wk != "wrong-nodeid" {
			other := o4h.NewIdentity(rng, 0)
			pk2 = other.Pub
			p2, _ = ntor.NewPublicKey(pk2)
		}
		tape.Steer = append([]byte(nil), tape.Since(m)...) // same padLen and padding draws
		h2 := obfs4.VerifRefNewClientHS(n2, p2, kp)
		if _, err := h2.Generate(); err != nil {
			panic(err)
		}
		tape.Steer = nil
		if h2.EpochHour() != strconv.FormatInt(hour0, 10) {
			return true // the epoch hour changed under the case
		}
		sh2 := ref.Fresh("c")
		rep := ref.CliNew(sh2, nid2, pk2, ltape, hour0)
		if rep.Class != "ok" {
			violate("reference-client-failed", "correspondence", rep.Raw, c)
			continue
		}
		fnCheck(c, h2, sh2, "wrongid-"+wk+"-genuine-response", full, nil, true, "client configured with "+wk+" receives the genuine response")
		// a server that ignores MAC_C: genuine ntor for (B, ID) re-wrapped with the client's (B', ID') mark+MAC
		buf := ref.ForgeBlob(nid2, pk2, R[0:32], R[32:64], R[64:n-32], hour0)
		fnCheck(c, h2, sh2, "wrongid-"+wk+"-rewrapped", buf, nil, true, "genuine Y'|AUTH of (B,ID) under the mark+MAC of the client's "+wk)
		r.Count("forgery", wk)
		ref.Drop(sh2)
	}
	ref.Drop(shadow)
	ref.Drop(srv)
	return false
}

func imax(a, b int) int {
	if a > b {
		return a
	}
	return b
}

// ---------------------------------------------------------------- dial: through ParseArgs + Dial

func runDial(c ccase) (retry bool) {
	rng := vlib.NewRng(c.CaseSeed)
	o4h.InstallTape(c.CaseSeed)
	tape := o4h.Tape
	id := o4h.NewIdentity(rng, 0)
	hour0 := o4h.Hour()
	cf := o4h.ClientFactory()
	cfgID := id // what the client is configured with
	wrongID := strings.HasPrefix(c.Kind, "wrong-")
	if c.Kind == "wrong-nodeid" {
		cfgID.NodeID = flipBit(id.NodeID, rng.Intn(160))
	} else if c.Kind == "wrong-pubkey" {
		cfgID.Pub = o4h.NewIdentity(rng, 0).Pub
	}
	args, err := cf.ParseArgs(cfgID.ClientArgs(c.Format, 0))
	if err != nil {
		violate("parseargs-rejects-bridge-line", "impl-oracle", err.Error(), c)
		return
	}
	keyDraw := len(tape.Since(0))
	ep, fin := o4h.StartDial(cf, args)
	if fin {
		_, err := ep.Result()
		violate("dial-returned-before-response", "impl-oracle", fmt.Sprintf("Dial returned (%v) without reading a response", err), c)
		return
	}
	blob := ep.Conn.TakeWritten()
	cliTape := tape.Since(0)
	shadow := ref.Fresh("c")
	rep := ref.CliNew(shadow, cfgID.NodeID, cfgID.Pub, cliTape, hour0)
	if o4h.Hour() != hour0 {
		ep.Conn.FeedEOF()
		ep.Conn.Wait(ep.Op)
		return true
	}
	if rep.Class != "ok" || !bytes.Equal(rep.Data, blob) {
		violate("client-handshake-bytes-differ", "correspondence", fmt.Sprintf("real client wrote %d bytes, reference derives %s len %d", len(blob), rep.Class, len(rep.Data)), c)
	}
	r.Count("session_key_draw", strconv.Itoa(keyDraw/32)+"x32")
	if keyDraw%32 != 0 || keyDraw == 0 {
		violate("parseargs-key-draw", "impl-oracle", fmt.Sprintf("ParseArgs drew %d random bytes for the session key", keyDraw), c)
	}

	// the genuine server (reference, holds the private key)
	srv := ref.Fresh("s")
	srep := ref.SrvNew(srv, id.NodeID, id.Priv, id.LenSeed, refTape(rng), "")
	if srep.Class == "ok" {
		srep = ref.SrvFeed(srv, blob, hour0+int64(c.HourOff), time.Now().UnixNano())
	}
	var buf []byte
	desc := ""
	modified := c.Kind != "genuine"
	finish := func() {
		ref.Drop(shadow)
		ref.Drop(srv)
		ep.Conn.Close()
	}
	if wrongID {
		// the genuine server must not even answer: it cannot verify MAC_C
		// (`need`; `invalid` when the client handshake is 8192 bytes long — never `ok`)
		if srep.Class != "need" && srep.Class != "invalid" {
			violate("ref-server-answers-wrong-identity-client", "correspondence", "srv.feed: "+srep.Raw, c)
		}
		// the man in the middle answers instead, with the genuine identity's public values
		f := ref.ForgeNtor(id.NodeID, id.Pub, rng.Bytes(32), blob[:32], refTape(rng))
		buf = ref.ForgeBlob(cfgID.NodeID, cfgID.Pub, f.YRepr, f.Auth, rng.Bytes(rng.Range(0, 200)), hour0)
		desc = "client configured with " + c.Kind + "; answered with mark+MAC under its own configuration"
		if rng.Intn(3) == 0 {
			buf, desc = nil, "client configured with "+c.Kind+"; the genuine server stays silent"
		}
	} else {
		if srep.Class != "ok" {
			violate("ref-server-rejects-real-client", "impl-oracle", "srv.feed: "+srep.Raw, c)
			ep.Conn.FeedEOF()
			ep.Conn.Wait(ep.Op)
			finish()
			return
		}
		w := &world{id: id, hour: hour0, blob: blob, resp: srep.Data[:srep.N], seedFr: srep.Data[srep.N:], srvSess: srv}
		bit := 0
		if c.Kind == "bitflip" {
			bit = vlib.Pick(rng, fieldBits(srep.N))
			r.Count("bitflip_field", fieldOf(bit, srep.N))
		} else if c.Kind == "auth-flip-remac" || c.Kind == "y-flip-remac" {
			bit = rng.Intn(1 << 20)
		} else if c.Kind == "padflip" {
			if srep.N <= 96 {
				bit = 8*rng.Range(0, 63) + rng.Intn(8)
			} else {
				bit = 8*rng.Range(64, srep.N-33) + rng.Intn(8)
			}
		}
		buf, desc = forge(rng, w, c.Kind, bit)
	}
	r.Count("dial_kind", c.Kind)

	// deliver in chunks; the model consumes the same chunks
	n := len(buf)
	sizes := o4h.Chunks(rng, c.Chunk, n, []int{32, 64, 96, n - 77, n - 61, n - 45, n - 32, n - 16})
	if strings.HasPrefix(c.Chunk, "cut") && srep.Class == "ok" {
		// the Read that completes the response ends `d` bytes from the end of MAC_S (the seed frame
		// follows in a later segment for d <= 0)
		d, _ := strconv.Atoi(strings.TrimPrefix(c.Chunk, "cut"))
		sizes = []int{srep.N + d}
	}
	r.Count("dial_chunking", c.Chunk)
	parts := o4h.Split(buf, sizes)
	for _, p := range parts {
		ep.Conn.Feed(p)
	}
	done := ep.Conn.Wait(ep.Op)
	var l outcome
	fed := 0
	for _, p := range parts {
		rep := ref.CliFeed(shadow, p)
		fed += len(p)
		l.Classes = append(l.Classes, rep.Class)
		if rep.Class != "need" {
			l.N = fed - rep.N
			break
		}
	}
	lastL := "need"
	if len(l.Classes) > 0 {
		lastL = l.Classes[len(l.Classes)-1]
	}
	if o4h.Hour() != hour0 {
		if !done {
			ep.Conn.FeedEOF()
			ep.Conn.Wait(ep.Op)
		}
		finish()
		return true
	}
	r.Validated(1)
	conn, derr := ep.Result()
	goClass := "need"
	if done {
		goClass = o4h.ErrClass(derr)
	}
	r.Count("dial_outcome", goClass)
	if goClass != lastL {
		violate("dial-outcome-differs", "correspondence", fmt.Sprintf("%s: Dial %s (%v), model %v", desc, goClass, derr, l.Classes), c)
	}
	if !done {
		// the client still waits (mark not found): end the connection, it must fail
		if rng.Bool() && len(buf) < 8192 {
			fill := rng.Bytes(8192 - len(buf))
			ep.Conn.Feed(fill)
			lr := ref.CliFeed(shadow, fill)
			if ep.Conn.Wait(ep.Op) {
				conn, derr = ep.Result()
				if o4h.ErrClass(derr) != lr.Class {
					violate("dial-outcome-differs", "correspondence", fmt.Sprintf("%s, filled to 8192: Dial %v, model %s", desc, derr, lr.Raw), c)
				}
			} else {
				violate("client-waits-beyond-8192", "impl-oracle", desc+": the client still waits after 8192 bytes without a valid mark", c)
				ep.Conn.FeedEOF()
				ep.Conn.Wait(ep.Op)
				conn, derr = ep.Result()
			}
		} else {
			ep.Conn.FeedEOF()
			ep.Conn.Wait(ep.Op)
			conn, derr = ep.Result()
		}
	}
	// ---- S oracle, from the property text
	if modified {
		r.Case(c.key(), true)
		if derr == nil || conn != nil {
			sig := "dial-succeeds-on-forged-response"
			violate(sig, "impl-oracle", fmt.Sprintf("%s: Dial returned a connection (err=%v)", desc, derr), c)
			if conn != nil {
				// can the impostor make application bytes appear?
				nb, blocked, rerr := o4h.TryRead(ep.Conn, conn)
				r.Notes["after_forged_dial"] = fmt.Sprintf("read: n=%d blocked=%v err=%v", nb, blocked, rerr)
			}
		}
		finish()
		return false
	}
	if derr != nil || conn == nil {
		violate("dial-fails-on-genuine-response", "impl-oracle", fmt.Sprintf("Dial: %v", derr), c)
		finish()
		return false
	}
	// a completed handshake must leave no timeout armed on the transport connection, whatever the
	// segmentation of the server's flight (else the "established" session dies 60 s after Dial)
	if rd, wr, tr := o4h.DeadlinesArmed(ep.Conn); rd || wr {
		violate("deadline-armed-after-dial", "impl-oracle",
			fmt.Sprintf("Dial returned success (response chunking %s, sizes %v) but left a deadline armed on the conn (read=%v write=%v; deadline calls: %s): every Read/Write fails with a timeout once the 60 s handshake timeout has passed", c.Chunk, sizes, rd, wr, tr), c)
	}
	// genuine: same keys ⇒ data flows both ways
	ref.Dec(shadow, nil)
	ok := true
	for i := 0; i < 2 && ok; i++ {
		p := rng.Bytes(rng.Range(1, 3000))
		wr := o4h.WriteOn(ep.Conn, conn, p, 60*time.Second)
		d := ref.Dec(srv, wr.Wire())
		if wr.Err != nil || wr.Stuck || d.Class != "ok" || !bytes.Equal(d.Payload(), p) {
			violate("genuine-upstream-data-lost", "impl-oracle", fmt.Sprintf("client wrote %d bytes, the genuine server decodes %s (%d payload bytes)", len(p), d.Class, len(d.Payload())), c)
			ok = false
			break
		}
		p = rng.Bytes(rng.Range(1, 3000))
		wire, cls := ref.EncPayload(srv, p, rng.Range(-1, 100))
		if cls != "ok" {
			violate("reference-encoder-failed", "correspondence", cls, c)
			break
		}
		ep.Conn.Feed(wire)
		got, blocked, rerr := o4h.ReadN(ep.Conn, conn, len(p))
		if rerr != nil || blocked || !bytes.Equal(got, p) {
			violate("genuine-downstream-data-lost", "impl-oracle", fmt.Sprintf("server sent %d payload bytes, client read %d (blocked=%v err=%v)", len(p), len(got), blocked, rerr), c)
			ok = false
		}
	}
	r.Case(c.key(), true)
	finish()
	return false
}

// ---------------------------------------------------------------- srv: reference client <-> real server

func runSrv(c ccase) (retry bool) {
	rng := vlib.NewRng(c.CaseSeed)
	o4h.InstallTape(c.CaseSeed)
	tape := o4h.Tape
	id := o4h.NewIdentity(rng, 0)
	hour0 := o4h.Hour()
	sf := id.ServerFactory()
	cfg := id
	if c.Kind == "wrong-nodeid" {
		cfg.NodeID = flipBit(id.NodeID, rng.Intn(160))
	} else if c.Kind == "wrong-pubkey" {
		cfg.Pub = o4h.NewIdentity(rng, 0).Pub
	}
	cli := ref.Fresh("c")
	rep := ref.CliNew(cli, cfg.NodeID, cfg.Pub, refTape(rng), hour0+int64(c.HourOff))
	if rep.Class != "ok" {
		violate("reference-client-failed", "correspondence", rep.Raw, c)
		return
	}
	m := tape.Mark()
	ep, fin := o4h.StartWrap(sf)
	if fin {
		violate("wrapconn-returned-before-input", "impl-oracle", "WrapConn returned before any client byte", c)
		return
	}
	drawn := tape.Since(m)
	parts := o4h.Split(rep.Data, o4h.Chunks(rng, c.Chunk, len(rep.Data), []int{32, len(rep.Data) - 32, len(rep.Data) - 16}))
	for _, p := range parts {
		ep.Conn.Feed(p)
	}
	done := ep.Conn.Wait(ep.Op)
	if o4h.Hour() != hour0 {
		ep.Conn.FeedErr(vlib.TimeoutError{})
		ep.Conn.Wait(ep.Op)
		return true
	}
	r.Validated(1)
	r.Count("srv_kind", c.Kind)
	wrapDrawOK(c, id, drawn) // tie only; the S oracle for fresh keys is the `fresh` family
	defer func() { ref.Drop(cli); ep.Conn.Close() }()
	if c.Kind != "genuine" {
		r.Case(c.key(), true)
		w := ep.Conn.TakeWritten()
		if done || len(w) > 0 {
			_, err := ep.Result()
			violate("real-server-answers-wrong-identity-client", "impl-oracle", fmt.Sprintf("client configured with %s: WrapConn done=%v err=%v, %d bytes written", c.Kind, done, err, len(w)), c)
			return
		}
		ep.Conn.FeedErr(vlib.TimeoutError{}) // the handshake timeout fires
		ep.Conn.Wait(ep.Op)
		if conn, err := ep.Result(); err == nil || conn != nil {
			violate("real-server-accepts-wrong-identity-client", "impl-oracle", "WrapConn returned a connection", c)
		}
		if n := len(ep.Conn.TakeWritten()); n > 0 {
			violate("real-server-answers-wrong-identity-client", "impl-oracle", fmt.Sprintf("%d bytes written after the timeout", n), c)
		}
		return
	}
	r.Count("srv_genuine_client_clock", fmt.Sprintf("%+d", c.HourOff))
	conn, err := ep.Result()
	if !done || err != nil {
		violate("real-server-rejects-ref-client", "impl-oracle", fmt.Sprintf("client clock %+dh: WrapConn done=%v err=%v", c.HourOff, done, err), c)
		return
	}
	if rd, wr, tr := o4h.DeadlinesArmed(ep.Conn); rd || wr {
		violate("deadline-armed-after-wrapconn", "impl-oracle", fmt.Sprintf("WrapConn returned success but left a deadline armed (read=%v write=%v; %s)", rd, wr, tr), c)
	}
	resp := ep.Conn.TakeWritten()
	parts = o4h.Split(resp, o4h.Chunks(rng, vlib.Pick(rng, o4h.ChunkClasses), len(resp), []int{32, 64, 96, len(resp) - 77, len(resp) - 45}))
	var fr o4h.HsRep
	fed := 0
	for _, p := range parts {
		fr = ref.CliFeed(cli, p)
		fed += len(p)
		if fr.Class != "need" {
			break
		}
	}
	if fr.Class != "ok" {
		// the property: a client talking to the holder of the identity key FINISHES its handshake —
		// also when the two clocks are an hour apart (the server accepts E-1/E/E+1 and must MAC its
		// response with the hour the client used)
		violate("genuine-server-rejected-by-client", "impl-oracle",
			fmt.Sprintf("the genuine real server accepted a correct client whose clock is %+d h from its own, but the client must reject the response: cli.feed: %s", c.HourOff, fr.Raw), c)
		return
	}
	ref.Dec(cli, resp[fed:])
	for i := 0; i < 2; i++ {
		p := rng.Bytes(rng.Range(1, 3000))
		wire, cls := ref.EncPayload(cli, p, rng.Range(-1, 100))
		if cls != "ok" {
			violate("reference-encoder-failed", "correspondence", cls, c)
			return
		}
		ep.Conn.Feed(wire)
		got, blocked, rerr := o4h.ReadN(ep.Conn, conn, len(p))
		if rerr != nil || blocked || !bytes.Equal(got, p) {
			violate("genuine-upstream-data-lost", "impl-oracle", fmt.Sprintf("reference client sent %d payload bytes, real server read %d (blocked=%v err=%v)", len(p), len(got), blocked, rerr), c)
			return
		}
		p = rng.Bytes(rng.Range(1, 3000))
		wr := o4h.WriteOn(ep.Conn, conn, p, 60*time.Second)
		d := ref.Dec(cli, wr.Wire())
		if wr.Err != nil || wr.Stuck || d.Class != "ok" || !bytes.Equal(d.Payload(), p) {
			violate("genuine-downstream-data-lost", "impl-oracle", fmt.Sprintf("real server wrote %d payload bytes, reference client decodes %s (%d)", len(p), d.Class, len(d.Payload())), c)
			return
		}
	}
	r.Case(c.key(), true)
	return false
}

// wrapDrawOK: what WrapConn drew from the random tape before its first Read must be what the
// model's WrapConn draws: a fresh session key (32 bytes per Elligator attempt) and the pad length.
func wrapDrawOK(c ccase, id o4h.Identity, drawn []byte) bool {
	s := ref.Fresh("w")
	rep := ref.SrvNew(s, id.NodeID, id.Priv, id.LenSeed, drawn, "")
	ref.Drop(s)
	r.Validated(1)
	if rep.Class != "ok" || rep.Used != len(drawn) {
		violate("wrapconn-tape-draw-differs", "correspondence",
			fmt.Sprintf("WrapConn drew %d random bytes before its first Read; the model's WrapConn on those bytes: %s used %d", len(drawn), rep.Class, rep.Used), c)
		return false
	}
	return true
}

// ---------------------------------------------------------------- fresh: overlapping handshakes on one factory

// runFresh: k WrapConn calls are started on ONE server factory and all block in Read; only then
// does each get a valid client handshake.  Every response must carry its own ephemeral key Y',
// also compared with k further sequential handshakes; k separately ParseArgs'd clients must send
// pairwise distinct X'.
func runFresh(c ccase) (retry bool) {
	rng := vlib.NewRng(c.CaseSeed)
	o4h.InstallTape(c.CaseSeed)
	tape := o4h.Tape
	id := o4h.NewIdentity(rng, 0)
	hour0 := o4h.Hour()
	sf := id.ServerFactory()
	const k = 8
	type sconn struct {
		ep     *o4h.Endpoint
		drawn  []byte
		label  string
		tapeOK bool
	}
	var open []*sconn
	var ys [][]byte
	var ylabels []string
	var keys [][]byte
	bad := false
	start := func(label string) *sconn {
		m := tape.Mark()
		ep, fin := o4h.StartWrap(sf)
		sc := &sconn{ep: ep, drawn: tape.Since(m), label: label}
		if fin {
			violate("wrapconn-returned-before-input", "impl-oracle", "WrapConn returned before any client byte", c)
			bad = true
		} else {
			sc.tapeOK = wrapDrawOK(c, id, sc.drawn)
		}
		return sc
	}
	complete := func(sc *sconn) {
		cli := ref.Fresh("c")
		defer ref.Drop(cli)
		off := int64(len(ys)%3) - 1 // the clients' clocks: -1, 0, +1 h in turn
		rep := ref.CliNew(cli, id.NodeID, id.Pub, refTape(rng), hour0+off)
		if rep.Class != "ok" {
			violate("reference-client-failed", "correspondence", rep.Raw, c)
			bad = true
			return
		}
		m := tape.Mark()
		sc.ep.Conn.Feed(rep.Data)
		done := sc.ep.Conn.Wait(sc.ep.Op)
		now := time.Now().UnixNano()
		_, err := sc.ep.Result()
		if !done || err != nil {
			violate("real-server-rejects-ref-client", "impl-oracle", fmt.Sprintf("%s: WrapConn done=%v err=%v", sc.label, done, err), c)
			bad = true
			return
		}
		resp := sc.ep.Conn.TakeWritten()
		after := tape.Since(m)
		fr := ref.CliFeed(cli, resp)
		if fr.Class != "ok" {
			violate("genuine-server-rejected-by-client", "impl-oracle", fmt.Sprintf("%s, client clock %+d h: cli.feed: %s", sc.label, off, fr.Raw), c)
			bad = true
			return
		}
		e, d, _ := ref.Keys(cli)
		ys = append(ys, resp[:32])
		ylabels = append(ylabels, sc.label)
		keys = append(keys, append(e, d...))
		if !sc.tapeOK {
			return
		}
		// the whole connection re-derived from exactly the bytes this WrapConn drew
		sh := ref.Fresh("s")
		defer ref.Drop(sh)
		srep := ref.SrvNew(sh, id.NodeID, id.Priv, id.LenSeed, append(append([]byte(nil), sc.drawn...), after...), "")
		if srep.Class == "ok" {
			srep = ref.SrvFeed(sh, rep.Data, hour0, now)
		}
		r.Validated(1)
		if srep.Class != "ok" || !bytes.Equal(srep.Data, resp) || srep.Used != len(sc.drawn)+len(after) {
			violate("server-response-bytes-differ", "correspondence",
				fmt.Sprintf("%s: real server wrote %d bytes from %d+%d random bytes; the model derives %s len %d used %d", sc.label, len(resp), len(sc.drawn), len(after), srep.Class, len(srep.Data), srep.Used), c)
		}
	}
	for i := 0; i < k && !bad; i++ {
		open = append(open, start(fmt.Sprintf("overlapping #%d", i)))
	}
	for _, sc := range open {
		if !bad {
			complete(sc)
		}
	}
	for i := 0; i < k && !bad; i++ {
		sc := start(fmt.Sprintf("sequential #%d", i))
		open = append(open, sc)
		if !bad {
			complete(sc)
		}
	}
	for _, sc := range open {
		if !sc.ep.Op.Done() {
			sc.ep.Conn.FeedErr(vlib.TimeoutError{})
			sc.ep.Conn.Wait(sc.ep.Op)
		}
		sc.ep.Conn.Close()
	}
	if o4h.Hour() != hour0 {
		return true
	}
	for i := range ys {
		for j := 0; j < i; j++ {
			if bytes.Equal(ys[i], ys[j]) {
				violate("ephemeral-key-reused", "impl-oracle",
					fmt.Sprintf("server connections %q and %q of one factory answered with the same ephemeral key Y' = %x", ylabels[j], ylabels[i], ys[i]), c)
			}
			if bytes.Equal(keys[i], keys[j]) {
				violate("session-keys-reused", "impl-oracle", fmt.Sprintf("connections %q and %q derived the same link keys", ylabels[j], ylabels[i]), c)
			}
		}
	}
	r.Count("fresh", fmt.Sprintf("server-handshakes-%d", len(ys)))
	r.Case(c.key()+"|server", len(ys) == 2*k)

	// client side: k separately ParseArgs'd clients, all dialing at once
	cf := o4h.ClientFactory()
	var xs [][]byte
	var ceps []*o4h.Endpoint
	for i := 0; i < k; i++ {
		m := tape.Mark()
		args, err := cf.ParseArgs(id.ClientArgs([]string{"cert", "legacy"}[i%2], 0))
		if err != nil {
			violate("parseargs-rejects-bridge-line", "impl-oracle", err.Error(), c)
			return
		}
		kd := len(tape.Since(m))
		if kd < 32 || kd%32 != 0 {
			violate("parseargs-key-draw", "impl-oracle", fmt.Sprintf("ParseArgs drew %d random bytes for the session key", kd), c)
		}
		ep, fin := o4h.StartDial(cf, args)
		ceps = append(ceps, ep)
		if fin {
			violate("dial-returned-before-response", "impl-oracle", "Dial returned without a response", c)
			continue
		}
		blob := ep.Conn.TakeWritten()
		full := tape.Since(m)
		sh := ref.Fresh("c")
		rep := ref.CliNew(sh, id.NodeID, id.Pub, full, hour0)
		ref.Drop(sh)
		r.Validated(1)
		if o4h.Hour() != hour0 {
			for _, ep := range ceps {
				if !ep.Op.Done() {
					ep.Conn.FeedEOF()
					ep.Conn.Wait(ep.Op)
				}
			}
			return true
		}
		if rep.Class != "ok" || !bytes.Equal(rep.Data, blob) || rep.Used != len(full) {
			violate("client-handshake-bytes-differ", "correspondence", fmt.Sprintf("client #%d wrote %d bytes from %d random bytes; the model derives %s len %d used %d", i, len(blob), len(full), rep.Class, len(rep.Data), rep.Used), c)
		}
		if len(blob) >= 32 {
			xs = append(xs, blob[:32])
		}
	}
	for _, ep := range ceps {
		if !ep.Op.Done() {
			ep.Conn.FeedEOF()
			ep.Conn.Wait(ep.Op)
		}
		ep.Conn.Close()
	}
	for i := range xs {
		for j := 0; j < i; j++ {
			if bytes.Equal(xs[i], xs[j]) {
				violate("ephemeral-key-reused", "impl-oracle", fmt.Sprintf("clients #%d and #%d sent the same ephemeral key X' = %x", j, i, xs[i]), c)
			}
		}
	}
	r.Case(c.key()+"|client", len(xs) == k)
	return false
}

// ---------------------------------------------------------------- pads: genuine pair at the ends of the padding ranges

// runPads: genuine real client <-> genuine real server with the random tape steered so that the
// client's padding is min / min+1 / max-1 / max (request 141 / 142 / 8191 / 8192 bytes) and the
// server's padding 0 / max (response + seed frame 141 / 8192 bytes), each delivered in one piece
// and chunked.  The pair must complete, both ends must hold the keys the reference derives from
// the client's random bytes, and data must flow both ways.
func runPads(c ccase) (retry bool) {
	rng := vlib.NewRng(c.CaseSeed)
	o4h.InstallTape(c.CaseSeed)
	tape := o4h.Tape
	id := o4h.NewIdentity(rng, 0)
	sf := id.ServerFactory()
	cf := o4h.ClientFactory()
	cMin, cMax := cint("clientMinPadLength"), cint("clientMaxPadLength")
	sMax := cint("serverMaxPadLength")
	for _, cp := range []int{cMin, cMin + 1, cMax - 1, cMax} {
		for _, sp := range []int{0, sMax} {
			for _, chunk := range []string{"whole", "chunked"} {
				what := fmt.Sprintf("client padding %d (request %d bytes), server padding %d, %s", cp, cint("clientMinHandshakeLength")+cp, sp, chunk)
				hour0 := o4h.Hour()
				m := tape.Mark()
				args, err := cf.ParseArgs(id.ClientArgs([]string{"cert", "legacy"}[(cp+sp)%2], 0))
				if err != nil {
					violate("parseargs-rejects-bridge-line", "impl-oracle", err.Error(), c)
					return
				}
				tape.Steer = append(rng.Bytes(24), o4h.IntRangeSteer(cp-cMin)...)
				cep, fin := o4h.StartDial(cf, args)
				if fin {
					violate("dial-returned-before-response", "impl-oracle", what, c)
					continue
				}
				blob := cep.Conn.TakeWritten()
				cliTape := tape.Since(m)
				r.Case(c.key()+"|"+what, true)
				r.Count("pads", fmt.Sprintf("client-%d/server-%d/%s", cp, sp, chunk))
				if len(blob) != cint("clientMinHandshakeLength")+cp {
					violate("pad-steering-failed", "correspondence", fmt.Sprintf("%s: the client wrote %d bytes", what, len(blob)), c)
				}
				tape.Steer = append(o4h.GoodKeySeed(rng), o4h.IntRangeSteer(sp)...)
				sep, sfin := o4h.StartWrap(sf)
				sizes := func(n int) []int {
					if chunk == "whole" {
						return nil
					}
					return o4h.Chunks(rng, vlib.Pick(rng, []string{"mss", "random", "two", "bounds"}), n, []int{32, n - 32, n - 16, n - 1})
				}
				abort := func() {
					for _, ep := range []*o4h.Endpoint{cep, sep} {
						if !ep.Op.Done() {
							ep.Conn.FeedErr(vlib.TimeoutError{})
							ep.Conn.Wait(ep.Op)
						}
						ep.Conn.Close()
					}
				}
				if sfin {
					violate("wrapconn-returned-before-input", "impl-oracle", what, c)
					abort()
					continue
				}
				sep.Conn.FeedChunks(blob, sizes(len(blob)))
				sdone := sep.Conn.Wait(sep.Op)
				if o4h.Hour() != hour0 {
					abort()
					return true
				}
				sconn, serr := sep.Result()
				if !sdone || serr != nil {
					violate("genuine-client-rejected-by-server", "impl-oracle",
						fmt.Sprintf("%s: the genuine server does not complete the handshake of a correct client (WrapConn done=%v err=%v, %d bytes written)", what, sdone, serr, len(sep.Conn.TakeWritten())), c)
					abort()
					continue
				}
				resp := sep.Conn.TakeWritten()
				cep.Conn.FeedChunks(resp, sizes(len(resp)))
				cdone := cep.Conn.Wait(cep.Op)
				cconn, cerr := cep.Result()
				if !cdone || cerr != nil {
					violate("genuine-server-rejected-by-client", "impl-oracle", fmt.Sprintf("%s: Dial done=%v err=%v on the %d-byte response", what, cdone, cerr, len(resp)), c)
					abort()
					continue
				}
				if rd, wr, tr := o4h.DeadlinesArmed(cep.Conn); rd || wr {
					violate("deadline-armed-after-dial", "impl-oracle", fmt.Sprintf("%s: read=%v write=%v (%s)", what, rd, wr, tr), c)
				}
				// the reference, from the client's random bytes alone, derives the same handshake and keys
				sh := ref.Fresh("c")
				rep := ref.CliNew(sh, id.NodeID, id.Pub, cliTape, hour0)
				r.Validated(1)
				if rep.Class != "ok" || !bytes.Equal(rep.Data, blob) {
					violate("client-handshake-bytes-differ", "correspondence", fmt.Sprintf("%s: reference derives %s len %d", what, rep.Class, len(rep.Data)), c)
				}
				fr := ref.CliFeed(sh, resp)
				if fr.Class != "ok" {
					violate("genuine-server-rejected-by-client", "impl-oracle", what+": the reference client answers "+fr.Raw, c)
				}
				ref.Dec(sh, nil)
				tsess := ref.Fresh("t")
				ref.LinkSwap(sh, tsess)
				okData := true
				for i := 0; i < 2 && okData; i++ {
					p := rng.Bytes(rng.Range(1, 3000))
					w := o4h.WriteOn(cep.Conn, cconn, p, 60*time.Second)
					sep.Conn.Feed(w.Wire())
					got, blocked, rerr := o4h.ReadN(sep.Conn, sconn, len(p))
					d := ref.Dec(tsess, w.Wire())
					if rerr != nil || blocked || !bytes.Equal(got, p) || d.Class != "ok" || !bytes.Equal(d.Payload(), p) {
						violate("genuine-upstream-data-lost", "impl-oracle", fmt.Sprintf("%s: client wrote %d bytes, server read %d (blocked=%v err=%v), reference with the client's keys decodes %s", what, len(p), len(got), blocked, rerr, d.Class), c)
						okData = false
						break
					}
					p = rng.Bytes(rng.Range(1, 3000))
					w = o4h.WriteOn(sep.Conn, sconn, p, 60*time.Second)
					cep.Conn.Feed(w.Wire())
					got, blocked, rerr = o4h.ReadN(cep.Conn, cconn, len(p))
					d = ref.Dec(sh, w.Wire())
					if rerr != nil || blocked || !bytes.Equal(got, p) || d.Class != "ok" || !bytes.Equal(d.Payload(), p) {
						violate("genuine-downstream-data-lost", "impl-oracle", fmt.Sprintf("%s: server wrote %d bytes, client read %d (blocked=%v err=%v), reference decodes %s", what, len(p), len(got), blocked, rerr, d.Class), c)
						okData = false
					}
				}
				ref.Drop(sh)
				ref.Drop(tsess)
				cep.Conn.Close()
				sep.Conn.Close()
			}
		}
	}
	return false
}

// ---------------------------------------------------------------- wrongid: every single-bit change of the bridge line

// certBit flips bit `bit` of NODEID (0..159) | PUBLIC KEY (160..415) of the identity.
func certBit(id o4h.Identity, bit int) (o4h.Identity, string) {
	cfg := id
	if bit < 160 {
		cfg.NodeID = flipBit(id.NodeID, bit)
		return cfg, fmt.Sprintf("node-id bit %d (byte %d, mask %#02x)", bit, bit/8, 1<<uint(bit%8))
	}
	b := bit - 160
	cfg.Pub = flipBit(id.Pub, b)
	return cfg, fmt.Sprintf("public-key bit %d (byte %d, mask %#02x)", b, b/8, 1<<uint(b%8))
}

// runWrongID: a real client configured — through ParseArgs, in both bridge-line formats — with a
// bridge line that differs from the genuine one in exactly ONE bit (all 160 node-id bits, all 256
// public-key bits, the unused bit 255 included) dials the GENUINE real server.  The property: the
// handshake fails, whatever the bit.  (Model: the MAC key and the ntor transcript use the
// configured bytes as they are — C02.wrong_identity_one_bit; the genuine server cannot verify
// MAC_C and stays silent.)
func runWrongID(c ccase) (retry bool) {
	rng := vlib.NewRng(c.CaseSeed)
	o4h.InstallTape(c.CaseSeed)
	id := o4h.NewIdentity(rng, 0)
	sf := id.ServerFactory()
	cf := o4h.ClientFactory()
	for bit := 0; bit < 416; bit++ {
		for _, format := range []string{"cert", "legacy"} {
			cfg, what := certBit(id, bit)
			r.Case(fmt.Sprintf("%s|%d|%s", c.key(), bit, format), true)
			if bit < 160 {
				r.Count("wrongid_bits", "node-id/"+format)
			} else {
				r.Count("wrongid_bits", "public-key/"+format)
			}
			args, err := cf.ParseArgs(cfg.ClientArgs(format, 0))
			if err != nil {
				r.Count("wrongid_outcome", "parseargs-error")
				continue // refusing the bridge line is a failure to connect, too
			}
			cep, fin := o4h.StartDial(cf, args)
			if fin {
				if conn, derr := cep.Result(); derr == nil && conn != nil {
					violate("dial-succeeds-with-wrong-identity", "impl-oracle", "Dial returned a connection without a response: "+what, c)
				}
				continue
			}
			blob := cep.Conn.TakeWritten()
			sep, sfin := o4h.StartWrap(sf)
			srvDone := sfin
			if !sfin {
				sep.Conn.Feed(blob)
				srvDone = sep.Conn.Wait(sep.Op)
			}
			resp := sep.Conn.TakeWritten()
			if len(resp) > 0 {
				cep.Conn.Feed(resp)
			} else {
				cep.Conn.FeedEOF()
			}
			if !cep.Conn.Wait(cep.Op) {
				cep.Conn.FeedEOF()
				cep.Conn.Wait(cep.Op)
			}
			conn, derr := cep.Result()
			r.Count("wrongid_outcome", o4h.ErrClass(derr))
			if derr == nil && conn != nil {
				// does it even relay data?
				relayed := "no data exchanged"
				if sconn, serr := sep.Result(); srvDone && serr == nil && sconn != nil {
					p := rng.Bytes(200)
					w := o4h.WriteOn(cep.Conn, conn, p, 30*time.Second)
					sep.Conn.Feed(w.Wire())
					got, _, _ := o4h.ReadN(sep.Conn, sconn, len(p))
					relayed = fmt.Sprintf("%d of %d payload bytes relayed to the server", len(got), len(p))
				}
				violate("dial-succeeds-with-wrong-identity", "impl-oracle",
					fmt.Sprintf("a client whose bridge line (%s format) differs from the genuine one in %s completed the handshake with the genuine server (%d-byte response; %s)", format, what, len(resp), relayed), c)
			} else if len(resp) > 0 {
				violate("real-server-answers-wrong-identity-client", "impl-oracle",
					fmt.Sprintf("the genuine server answered (%d bytes) a client configured with a bridge line differing in %s", len(resp), what), c)
			}
			if !srvDone {
				sep.Conn.FeedErr(vlib.TimeoutError{})
				sep.Conn.Wait(sep.Op)
			}
			cep.Conn.Close()
			sep.Conn.Close()
		}
	}
	return false
}

// ---------------------------------------------------------------- conc: 32 clients, one factory (S oracle only)

// runConc: N genuine client/server pairs of ONE server factory handshake truly in parallel (real
// goroutines, in-memory pipes, all released by one barrier) and echo payload both ways.  S oracle
// only: every genuine pair must complete and carry the data, nobody may panic, all X' distinct.
// A pair that has not finished after the watchdog interval is torn down (both pipe ends closed)
// and counted as failed.
func runConc(c ccase) {
	N := 32
	if n, err := strconv.Atoi(strings.TrimSuffix(c.Kind, "-clients")); err == nil && n > 0 {
		N = n
	}
	if runtime.GOMAXPROCS(0) < 8 {
		runtime.GOMAXPROCS(8)
	}
	rng := vlib.NewRng(c.CaseSeed)
	o4h.InstallTape(c.CaseSeed)
	id := o4h.NewIdentity(rng, 0)
	sf := id.ServerFactory()
	cf := o4h.ClientFactory()
	const watchdog = 20 * time.Second
	var wg sync.WaitGroup
	errs := make([]string, N)
	reprs := make([][]byte, N)
	barrier := make(chan struct{})
	for i := 0; i < N; i++ {
		wg.Add(1)
		payloadUp := vlib.NewRng(c.CaseSeed + uint64(i)).Bytes(2000 + i)
		payloadDown := vlib.NewRng(c.CaseSeed + 1000 + uint64(i)).Bytes(1500 + i)
		go func(i int) {
			defer wg.Done()
			a, b := net.Pipe()
			var timedOut atomic.Bool
			wd := time.AfterFunc(watchdog, func() { timedOut.Store(true); a.Close(); b.Close() })
			defer wd.Stop()
			var first []byte
			var fmu sync.Mutex
			tap := &tapConn{Conn: a, onWrite: func(p []byte) {
				fmu.Lock()
				if first == nil {
					first = append([]byte(nil), p...)
				}
				fmu.Unlock()
			}}
			srvDone := make(chan string, 1)
			go func() {
				defer func() {
					if p := recover(); p != nil {
						b.Close()
						srvDone <- fmt.Sprintf("PANIC in the server: %v", p)
					}
				}()
				<-barrier
				sc, err := sf.WrapConn(b)
				if err != nil {
					srvDone <- "WrapConn: " + err.Error()
					return
				}
				defer sc.Close()
				got := make([]byte, len(payloadUp))
				if _, err := io.ReadFull(sc, got); err != nil || !bytes.Equal(got, payloadUp) {
					srvDone <- fmt.Sprintf("server read: %v equal=%v", err, bytes.Equal(got, payloadUp))
					return
				}
				if _, err := sc.Write(payloadDown); err != nil {
					srvDone <- "server write: " + err.Error()
					return
				}
				srvDone <- ""
			}()
			fail := func(msg string) {
				a.Close() // lets the server side end (its Read fails; closeAfterDelay returns at once)
				s := <-srvDone
				if strings.HasPrefix(s, "PANIC") {
					msg = s + " ; client: " + msg
				} else if s != "" {
					msg += " ; server: " + s
				}
				if timedOut.Load() {
					msg += fmt.Sprintf(" (pair torn down after %v)", watchdog)
				}
				errs[i] = msg
			}
			defer func() {
				if p := recover(); p != nil {
					fail(fmt.Sprintf("PANIC in the client: %v", p))
				}
			}()
			args, err := cf.ParseArgs(id.ClientArgs([]string{"cert", "legacy"}[i%2], 0))
			if err != nil {
				fail(err.Error())
				return
			}
			<-barrier
			cc, err := cf.Dial("tcp", "x", func(string, string) (net.Conn, error) { return tap, nil }, args)
			if err != nil {
				fail("Dial: " + err.Error())
				return
			}
			defer cc.Close()
			if _, err := cc.Write(payloadUp); err != nil {
				fail("client write: " + err.Error())
				return
			}
			got := make([]byte, len(payloadDown))
			if _, err := io.ReadFull(cc, got); err != nil || !bytes.Equal(got, payloadDown) {
				fail(fmt.Sprintf("client read: %v equal=%v", err, bytes.Equal(got, payloadDown)))
				return
			}
			if s := <-srvDone; s != "" {
				errs[i] = s
			}
			fmu.Lock()
			if len(first) >= 32 {
				reprs[i] = first[:32]
			}
			fmu.Unlock()
		}(i)
	}
	time.Sleep(20 * time.Millisecond) // let every goroutine reach the barrier
	close(barrier)
	wg.Wait()
	seen := map[string]int{}
	var failed, panicked []string
	for i, e := range errs {
		r.Case(fmt.Sprintf("%s|%d", c.key(), i), true)
		if strings.Contains(e, "PANIC") {
			panicked = append(panicked, fmt.Sprintf("#%d: %s", i, e))
		} else if e != "" {
			failed = append(failed, fmt.Sprintf("#%d: %s", i, e))
		}
		if reprs[i] != nil {
			k := string(reprs[i])
			if j, dup := seen[k]; dup {
				violate("ephemeral-key-reused", "impl-oracle", fmt.Sprintf("clients %d and %d sent the same representative", j, i), c)
			}
			seen[k] = i
		}
	}
	short := func(l []string) string {
		if len(l) > 3 {
			l = l[:3]
		}
		s := strings.Join(l, " || ")
		if len(s) > 700 {
			s = s[:700]
		}
		return s
	}
	if len(panicked) > 0 {
		violate("server-panics-under-concurrency", "impl-oracle",
			fmt.Sprintf("%d of %d genuine client/server pairs of one factory handshaking in parallel ended in a panic: %s", len(panicked), N, short(panicked)), c)
	}
	if len(failed) > 0 {
		violate("genuine-client-fails-under-concurrency", "impl-oracle",
			fmt.Sprintf("%d of %d genuine client/server pairs of one factory handshaking in parallel failed (each completes when run alone): %s", len(failed), N, short(failed)), c)
	}
	r.Count("concurrent_batches", strconv.Itoa(N))
	r.Count("concurrent_pairs_ok", strconv.Itoa(N-len(failed)-len(panicked)))
}

type tapConn struct {
	net.Conn
	onWrite func([]byte)
}

func (t *tapConn) Write(p []byte) (int, error) { t.onWrite(p); return t.Conn.Write(p) }

// ----------------------------------------------------------------

func run(c ccase) {
	for try := 0; try < 3; try++ {
		var retry bool
		switch c.Family {
		case "fn":
			retry = runFn(c)
		case "dial":
			retry = runDial(c)
		case "srv":
			retry = runSrv(c)
		case "fresh":
			retry = runFresh(c)
		case "wrongid":
			retry = runWrongID(c)
		case "pads":
			retry = runPads(c)
		case "glue":
			runGlue(c) // glue.go
		case "conc":
			runConc(c)
		}
		if !retry {
			return
		}
		r.Count("skipped", "epoch-hour-changed-retry")
	}
}

// concBatches: truly concurrent batches (S oracle only).  quick: 3 x 16 pairs; thorough: + 12 x 32;
// in search mode up to n, stopping two batches after the first failing one.
func concBatches(rng *vlib.Rng, n int) {
	firstBad := -1
	for i := 0; i < n; i++ {
		run(ccase{Family: "conc", Kind: "16-clients", CaseSeed: rng.U64(), Format: "both", Chunk: "-"})
		if r.NumViolations() > 0 && firstBad < 0 {
			firstBad = i
		}
		if firstBad >= 0 && i >= firstBad+2 {
			break
		}
	}
}

func main() {
	r = vlib.NewRun("C02")
	for k, v := range obfs4.VerifConstants() {
		if n, err := strconv.Atoi(v); err == nil {
			K[k] = n
		}
	}
	_ = cint("maxHandshakeLength")
	r.Rule = "case = one response (genuine / forged from public information / genuine with one bit flipped / split at a boundary class) presented to one real client, at function level (fn) or through Dial (dial), or one reference-client handshake against the real server (srv); " +
		"non-trivial = the response is modified or forged or split, or a genuine exchange carried payload both ways; distinct by family, kind, seed, sub-check and chunking"
	r.Assumptions = []string{"ntor authentication itself (nobody computes AUTH without b or x) is assumed; the forgeries are those a holder of the public bridge line can compute",
		"epoch hour read before/after each handshake; a case that straddles an hour boundary is retried",
		"concurrent scenario: S oracle only, the random tape is shared"}
	ref = &o4h.Ref{D: r.Driver("o4ref")}
	defer ref.D.Close()

	if r.ReplayIn != "" {
		var c ccase
		if err := r.LoadReplay(&c); err == nil && c.Family != "" {
			c.Sub = ""
			run(c)
		}
		keysStop()
		r.Finish()
	}

	rng := vlib.NewRng(r.Seed)
	if r.Mode == "search" {
		// after a broken proof or tie: hunt first for changes that only bite under real parallelism
		concBatches(rng.Fork(), 40)
	}
	formats := []string{"cert", "legacy"}
	for i, n := 0, r.Scale(5, 60); i < n; i++ {
		run(ccase{Family: "fn", Kind: "all", CaseSeed: rng.U64(), Format: "-", Chunk: "-"})
	}
	dialKinds := append([]string{"genuine", "genuine", "genuine", "wrong-nodeid", "wrong-pubkey"}, forgeKinds...)
	// genuine exchanges: every cut of the server flight around the end of MAC_S, one piece, and the classes
	genuineChunks := []string{"cut+0", "cut-1", "cut+1", "cut-2", "cut+2", "whole", "bounds", "bytes1", "cut+0", "mss", "two", "random", "cut+44", "cut+45"}
	ngen := 0
	for i, n := 0, r.Scale(180, 3000); i < n; i++ {
		dc := ccase{Family: "dial", Kind: dialKinds[i%len(dialKinds)], CaseSeed: rng.U64(), Format: formats[(i/len(dialKinds))%2],
			Chunk: vlib.Pick(rng, o4h.ChunkClasses)}
		if dc.Kind == "genuine" {
			dc.HourOff = []int{0, -1, 1}[(i/2)%3] // the reference server's clock
			dc.Chunk = genuineChunks[ngen%len(genuineChunks)]
			ngen++
		}
		run(dc)
	}
	srvKinds := []string{"genuine", "genuine", "wrong-nodeid", "wrong-pubkey"}
	for i, n := 0, r.Scale(40, 600); i < n; i++ {
		sc := ccase{Family: "srv", Kind: srvKinds[i%len(srvKinds)], CaseSeed: rng.U64(), Format: "-", Chunk: vlib.Pick(rng, o4h.ChunkClasses)}
		if sc.Kind == "genuine" {
			sc.HourOff = []int{-1, 0, 1}[(i/2)%3] // the reference client's clock
		}
		run(sc)
	}
	for i, n := 0, r.Scale(1, 12); i < n; i++ {
		run(ccase{Family: "pads", Kind: "client-min/min+1/max-1/max-x-server-min/max-x-whole/chunked", CaseSeed: rng.U64(), Format: "both", Chunk: "both"})
	}
	for i, n := 0, r.Scale(1, 12); i < n; i++ {
		run(ccase{Family: "wrongid", Kind: "all-416-cert-bits-x-2-formats", CaseSeed: rng.U64(), Format: "both", Chunk: "whole"})
	}
	for i, n := 0, r.Scale(3, 40); i < n; i++ {
		run(ccase{Family: "fresh", Kind: "8-overlapping+8-sequential", CaseSeed: rng.U64(), Format: "both", Chunk: "whole"})
	}
	if r.Mode != "search" {
		concBatches(rng, 3)
	}
	if r.Thorough() {
		for i := 0; i < 12; i++ {
			run(ccase{Family: "conc", Kind: "32-clients", CaseSeed: rng.U64(), Format: "both", Chunk: "-"})
		}
	}
	glueFamily(rng.Fork()) // glue.go: the real clientHandler + obfs4 ClientFactory, torn-down outgoing connections
	r.Finish()
}
