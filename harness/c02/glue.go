// C02, the glue: "every connection uses fresh ephemeral keys" can hold for the obfs4 package and
// still break between the SOCKS front end and the transport.  This family runs the real
// clientHandler of obfs4proxy (package main, built with -tags verif from the tree under test;
// hook op `keys.run`) with the REAL obfs4 ClientFactory for several SOCKS requests in a row,
// over outgoing connections that record the client's first flight and are then torn down
// (EOF, or reset), and requires of the first 32 bytes (the representative X' of the ephemeral
// public key) of ALL outgoing connections: pairwise distinct - within one SOCKS request (a
// glue that dials again must not reuse the session keys) and across requests.
package main

import (
	"bufio"
	"encoding/base64"
	"fmt"
	"io"
	"os"
	"os/exec"
	"path/filepath"
	"strings"
	"time"

	"verif/harness/vlib"
)

type keysHook struct {
	cmd *exec.Cmd
	in  io.WriteCloser
	out *bufio.Reader
	dir string
}

var theKeysHook *keysHook

func keysStart() (*keysHook, error) {
	if theKeysHook != nil {
		return theKeysHook, nil
	}
	repo := os.Getenv("VERIF_REPO")
	if repo == "" {
		repo = "/repo"
	}
	dir, err := os.MkdirTemp("", "c02hook")
	if err != nil {
		return nil, err
	}
	bin := filepath.Join(dir, "obfs4proxy-verif")
	b := exec.Command("go", "build", "-tags", "verif", "-o", bin, "./obfs4proxy")
	b.Dir = repo
	b.Env = append(os.Environ(), "GOFLAGS=-mod=mod", "GOPROXY=off", "GOSUMDB=off", "GOTOOLCHAIN=local")
	if out, err := b.CombinedOutput(); err != nil {
		os.RemoveAll(dir)
		return nil, fmt.Errorf("go build -tags verif ./obfs4proxy in %s: %v\n%s", repo, err, out)
	}
	c := exec.Command(bin)
	c.Env = append(os.Environ(), "OBFS4PROXY_VERIF_DRIVER=1")
	in, _ := c.StdinPipe()
	out, _ := c.StdoutPipe()
	c.Stderr = os.Stderr
	if err := c.Start(); err != nil {
		os.RemoveAll(dir)
		return nil, err
	}
	theKeysHook = &keysHook{cmd: c, in: in, out: bufio.NewReaderSize(out, 1<<20), dir: dir}
	return theKeysHook, nil
}

func keysStop() {
	h := theKeysHook
	if h == nil {
		return
	}
	theKeysHook = nil
	h.in.Close()
	done := make(chan struct{})
	go func() { h.cmd.Wait(); close(done) }()
	select {
	case <-done:
	case <-time.After(5 * time.Second):
		h.cmd.Process.Kill()
	}
	os.RemoveAll(h.dir)
}

// runGlue: c.Kind = eof | reset (how the outgoing connections end after the first flight);
// c.CaseSeed determines the bridge line (node id, public key), the target and the number of
// SOCKS requests.
func runGlue(c ccase) {
	h, err := keysStart()
	if err != nil {
		violate("glue-driver-failed", "correspondence", "cannot build/start the package-main hook driver: "+err.Error(), c)
		return
	}
	rng := vlib.NewRng(c.CaseSeed)
	cert := strings.TrimSuffix(base64.StdEncoding.EncodeToString(rng.Bytes(52)), "==") // node id || public key
	target := fmt.Sprintf("192.0.2.%d:%d", rng.Range(1, 254), rng.Range(1, 65535))
	nreq := rng.Range(2, 6)
	line := fmt.Sprintf("keys.run %d %s %s %s", nreq, c.Kind, cert, target)
	if _, err := io.WriteString(h.in, line+"\n"); err != nil {
		violate("glue-driver-failed", "correspondence", "hook driver: "+err.Error(), c)
		return
	}
	rep, err := h.out.ReadString('\n')
	rep = strings.TrimRight(rep, "\n")
	r.Case(c.key(), true)
	r.Validated(1)
	r.Count("glue.fault", c.Kind)
	r.Count("glue.requests", fmt.Sprint(nreq))
	r.Sample(12, map[string]interface{}{"family": "glue", "cmd": line, "hook": rep})
	if err != nil || !strings.HasPrefix(rep, "ok ") {
		violate("glue-driver-failed", "correspondence", fmt.Sprintf("%s: the hook driver answered %q (%v)", line, rep, err), c)
		return
	}
	words := strings.Fields(rep)[1:]
	if len(words) != nreq {
		violate("glue-driver-failed", "correspondence", fmt.Sprintf("%s: %d requests, %d answers: %q", line, nreq, len(words), rep), c)
		return
	}
	seen := map[string]string{} // X' -> where it was seen
	for i, w := range words {
		xs := strings.Split(w, ",")
		if w == "-" {
			xs = nil
		}
		r.Count("glue.outgoing-connections-per-request", fmt.Sprint(len(xs)))
		if len(xs) == 0 {
			violate("glue-no-outgoing-connection", "correspondence",
				fmt.Sprintf("%s: SOCKS request %d made no outgoing connection: %q", line, i+1, rep), c)
			return
		}
		for j, x := range xs {
			where := fmt.Sprintf("request %d, outgoing connection %d", i+1, j+1)
			if len(x) != 64 {
				violate("glue-first-flight-short", "correspondence", fmt.Sprintf("%s: %s wrote %q before it was torn down", line, where, x), c)
				return
			}
			if prev, dup := seen[x]; dup {
				violate("ephemeral-key-reused-across-connections", "impl-oracle",
					fmt.Sprintf("obfs4proxy clientHandler with the real obfs4 client, outgoing connections torn down (%s) after the client's first flight: "+
						"%s starts with the same 32 bytes (representative X' of the ephemeral key) as %s: %s", c.Kind, where, prev, x), c)
				return
			}
			seen[x] = where
		}
	}
}

func glueFamily(rng *vlib.Rng) {
	for i, n := 0, r.Scale(6, 60); i < n; i++ {
		run(ccase{Family: "glue", Kind: []string{"eof", "reset"}[i%2], CaseSeed: rng.U64(), Format: "-", Chunk: "-"})
	}
	keysStop()
}
