// C06 — obfs4 wire format: the real endpoints against the Lean reference implementation
// (driver `o4ref`), byte level, both roles.
//
//	rc-ls  real client (ParseArgs+Dial)  <-> Lean reference server   (+ Lean shadow client)
//	lc-rs  Lean reference client         <-> real server (WrapConn)  (+ Lean shadow server)
//	conc   16 real<->real sessions truly in parallel; afterwards the Lean reference follows each from
//	       its recorded wire bytes and the client's session key (same KEY_SEED/AUTH, frames decode)
//	duplex real <-> real (pipe) and real <-> reference with a Read and a Write in progress AT ONCE on
//	       every real endpoint; every frame on the wire is decoded by the reference: well-formed packet,
//	       zero padding, payload = the next bytes the application wrote
//	rr     real client <-> real server, every byte either endpoint emits re-derived by two Lean
//	       shadows that are handed exactly the random bytes the real endpoints drew
//
// S oracle (property text): interoperation itself — handshake completes and payload flows both
// ways between the real endpoint and the independent implementation; the PRNG-seed frame right
// behind the server response is unpadded; packet padding is zero.
package main

import (
	"bytes"
	"encoding/json"
	"fmt"
	"io"
	"net"
	"runtime"
	"strconv"
	"strings"
	"sync"
	"sync/atomic"
	"time"

	"gitlab.com/yawning/obfs4.git/common/drbg"
	"gitlab.com/yawning/obfs4.git/common/probdist"
	"gitlab.com/yawning/obfs4.git/transports/obfs4"
	"gitlab.com/yawning/obfs4.git/transports/obfs4/framing"

	"verif/harness/o4h"
	"verif/harness/vlib"
)

type ccase struct {
	Scenario  string `json:"scenario"`
	CaseSeed  uint64 `json:"case_seed"`
	CliIat    int    `json:"cli_iat"`
	SrvIat    int    `json:"srv_iat"`
	Format    string `json:"format"`  // cert | legacy
	CliPad    string `json:"cli_pad"` // rand | min | max
	SrvPad    string `json:"srv_pad"`
	ChunkUp   string `json:"chunk_up"`   // chunking of the client handshake
	ChunkDown string `json:"chunk_down"` // chunking of the server response
	HourOff   int    `json:"hour_off"`   // lc-rs: the reference client's clock, rc-ls: the reference server's clock, relative to the real one
	NWrites   int    `json:"n_writes"`
	Big       bool   `json:"big"`              // include a 64 KiB write
	Duplex    int    `json:"duplex,omitempty"` // bytes each way in the final full-duplex phase (Read and Write in progress at once)
}

func (c ccase) key() string { b, _ := json.Marshal(c); return string(b) }

var (
	duplexFailures int // after three failing full-duplex phases the remaining cases skip theirs (each costs a timeout)
	K              = map[string]int{}
	r              *vlib.Run
	ref            *o4h.Ref
	frames         = map[string]int{}
)

func cint(name string) int {
	v, ok := K[name]
	if !ok {
		panic("constant " + name + " missing from obfs4.VerifConstants()")
	}
	return v
}

func violate(sig, kind, desc string, c ccase) {
	tail := ref.Log
	if len(tail) > 6 {
		tail = tail[len(tail)-6:]
	}
	r.Violate(sig, kind, desc+" | case "+c.key()+" | last driver ops: "+strings.Join(tail, " ;; "), c)
}

func padSteer(class string, lo, hi int) (int, bool) {
	switch class {
	case "min":
		return 0, true
	case "max":
		return hi - lo, true
	}
	return 0, false
}

// refTape builds the tape handed to a Lean reference endpoint (harness-chosen randomness).
func refTape(rng *vlib.Rng, padClass string, lo, hi int, client bool) []byte {
	var t []byte
	v, steer := padSteer(padClass, lo, hi)
	if steer {
		t = append(t, o4h.GoodKeySeed(rng)...)
		if client {
			t = append(t, rng.Bytes(24)...)
		}
		t = append(t, o4h.IntRangeSteer(v)...)
	} else {
		t = append(t, rng.Bytes(32*48)...) // key pair attempts
		if client {
			t = append(t, rng.Bytes(24)...)
		}
	}
	return append(t, rng.Bytes(8*8+hi+8)...)
}

func sizeClass(n int) string {
	switch {
	case n == 0:
		return "0"
	case n == 1:
		return "1"
	case n < 1427:
		return "2..1426"
	case n == 1427:
		return "1427"
	case n == 1428:
		return "1428"
	case n <= 2855:
		return "1429..2855"
	case n <= 8192:
		return "2856..8192"
	}
	return ">8192"
}

func padBucket(n, lo, hi int) string {
	switch {
	case n == lo:
		return "min"
	case n == hi:
		return "max"
	case n < lo+(hi-lo)/3:
		return "low"
	case n < lo+2*(hi-lo)/3:
		return "mid"
	}
	return "high"
}

func pickSize(rng *vlib.Rng, c ccase, iat int, i int) int {
	if c.Big && i == 1 && iat == 0 {
		return 65537
	}
	classes := []int{1, 17, 1426, 1427, 1428, 2854, 2855, 5000}
	if rng.Intn(3) == 0 {
		return rng.Range(1, 3000)
	}
	return vlib.Pick(rng, classes)
}

// checkWire: the bytes a REAL endpoint wrote for one Write(payload), judged by the Lean side.
// decSess: the Lean session that receives them; encSess: the Lean shadow of the writer ("" = none).
// Returns false when the case must stop.
func checkWire(c ccase, who string, iat int, w o4h.WriteRes, payload []byte, decSess, encSess string) bool {
	if w.Stuck {
		if iat == 2 {
			// paranoid mode with a degenerate length table (e.g. the single value 135) pads
			// for ever: a liveness defect of the shaping code (C09/C10), not a format matter
			r.Count("skipped", "iat2-write-does-not-terminate(C09/C10 finding)")
			return false
		}
		violate("write-stuck", "impl-oracle", who+": Write did not return", c)
		return false
	}
	if w.Panic != nil {
		msg := fmt.Sprint(w.Panic)
		if iat == 2 && strings.Contains(msg, "iat length was 0") {
			r.Count("skipped", "iat2-zero-length-sample-panic(C09 finding)")
			return false
		}
		violate("write-panic", "impl-oracle", who+": Write panicked: "+msg, c)
		return false
	}
	if w.Err != nil || w.N != len(payload) {
		violate("write-error", "impl-oracle", fmt.Sprintf("%s: Write returned %d, %v for %d bytes", who, w.N, w.Err, len(payload)), c)
		return false
	}
	wire := w.Wire()
	dec := ref.Dec(decSess, wire)
	r.Validated(1)
	if dec.Class != "ok" {
		violate("ref-cannot-decode-real-frames", "impl-oracle",
			fmt.Sprintf("%s wrote %d bytes for a %d-byte payload; the reference decoder answers %q", who, len(wire), len(payload), dec.Raw), c)
		return false
	}
	if !bytes.Equal(dec.Payload(), payload) {
		violate("payload-differs", "impl-oracle",
			fmt.Sprintf("%s: reference decoder obtained %d payload bytes, %d were written (first difference at %d)", who, len(dec.Payload()), len(payload), firstDiff(dec.Payload(), payload)), c)
		return false
	}
	total, seenPad, npad := 0, false, 0
	maxPayload := cint("maxPacketPayloadLength")
	for i, p := range dec.Pkts {
		fl := 2 + 16 + 3 + len(p.Payload) + p.PadLen
		total += fl
		frames[who]++
		if fl > 1448 {
			violate("frame-too-long", "impl-oracle", fmt.Sprintf("%s: frame of %d bytes", who, fl), c)
		}
		if !p.Zero {
			violate("padding-not-zero", "impl-oracle", fmt.Sprintf("%s: packet %d carries non-zero padding", who, i), c)
		}
		if p.Type != 0 {
			violate("unexpected-packet-type", "correspondence", fmt.Sprintf("%s: packet %d has type %d in the data phase", who, i, p.Type), c)
		}
		if len(p.Payload) == 0 {
			seenPad = true
			npad++
		} else {
			if seenPad && iat != 2 {
				violate("payload-after-padding", "correspondence", who+": payload packet behind a padding packet within one burst", c)
			}
			// greedy chopping: every payload packet but the last is full
			last := true
			for _, q := range dec.Pkts[i+1:] {
				if len(q.Payload) > 0 {
					last = false
				}
			}
			if !last && len(p.Payload) != maxPayload {
				violate("payload-not-chopped-greedily", "correspondence", fmt.Sprintf("%s: inner payload packet of %d bytes", who, len(p.Payload)), c)
			}
		}
	}
	if total != len(wire) {
		violate("trailing-bytes-after-frames", "correspondence", fmt.Sprintf("%s: %d wire bytes, frames account for %d", who, len(wire), total), c)
	}
	if iat != 2 && npad > 2 {
		violate("more-than-two-padding-packets", "correspondence", fmt.Sprintf("%s: %d padding packets in one burst", who, npad), c)
	}
	if iat == 0 && len(w.Segs) != 1 {
		violate("iat0-not-one-segment", "correspondence", fmt.Sprintf("%s: %d Conn.Write calls for one Write", who, len(w.Segs)), c)
	}
	for _, s := range w.Segs {
		if iat != 0 && len(s) > 1448 {
			violate("segment-too-long", "correspondence", fmt.Sprintf("%s: IAT segment of %d bytes", who, len(s)), c)
		}
	}
	r.Count("frames_per_write", strconv.Itoa(imin(len(dec.Pkts), 6)))
	if encSess != "" {
		// exact re-derivation by the writer's shadow from (type, payload, padLen) alone
		var re []byte
		for _, p := range dec.Pkts {
			f, cls := ref.Enc(encSess, p.Type, p.Payload, p.PadLen)
			if cls != "ok" {
				violate("shadow-cannot-encode", "correspondence", who+": shadow encoder answers "+cls, c)
				return false
			}
			re = append(re, f...)
		}
		if !bytes.Equal(re, wire) {
			violate("frame-bytes-differ", "correspondence",
				fmt.Sprintf("%s: re-derived frames differ from the wire at byte %d of %d", who, firstDiff(re, wire), len(wire)), c)
			return false
		}
	}
	return true
}

func imin(a, b int) int {
	if a < b {
		return a
	}
	return b
}

func writeLimit(iat int) time.Duration {
	if iat == 2 {
		return 12 * time.Second
	}
	return 90 * time.Second
}

// encMixed: the reference peer sends payload p the way the deployed FORMAT allows and the Go
// sender never does: packets carrying payload AND padding (payload 1/max/any with padding
// 0/1/max/any), padding-only and empty packets, packets of unknown types with payload, PRNG-seed
// packets with and without padding (and with a wrong seed length).  Only the payload bytes of
// type-0 packets may reach the application.  The last packet is a plain payload packet, so that
// any leaked byte shifts the stream the receiver is compared on.  Returns the last valid seed sent.
func encMixed(sess string, rng *vlib.Rng, p []byte) (wire []byte, lastSeed []byte, cls string) {
	maxP := cint("maxPacketPayloadLength")
	cls = "ok"
	emit := func(ty int, payload []byte, pad int, class string) bool {
		f, c := ref.Enc(sess, ty, payload, pad)
		if c != "ok" {
			cls = c + " (" + class + ")"
			return false
		}
		wire = append(wire, f...)
		r.Count("ref_packet", class)
		return true
	}
	junk := func() bool {
		switch rng.Intn(9) {
		case 0:
			return emit(0, nil, 0, "empty")
		case 1:
			return emit(0, nil, 1, "padding-only-1")
		case 2:
			return emit(0, nil, maxP, "padding-only-max")
		case 3:
			return emit(rng.Range(2, 255), rng.Bytes(rng.Range(1, 200)), rng.Range(0, 100), "unknown-type+payload+padding")
		case 4:
			return emit(rng.Range(2, 255), rng.Bytes(maxP), 0, "unknown-type-max-payload")
		case 5:
			sd := rng.Bytes(24)
			if !emit(1, sd, vlib.Pick(rng, []int{1, maxP - 24, rng.Range(2, 500)}), "seed+padding") {
				return false
			}
			lastSeed = sd
			return true
		case 6:
			sd := rng.Bytes(24)
			if !emit(1, sd, 0, "seed-unpadded") {
				return false
			}
			lastSeed = sd
			return true
		case 7:
			return emit(1, rng.Bytes(vlib.Pick(rng, []int{0, 23, 25, 48})), rng.Range(0, 30), "seed-wrong-length(ignored)")
		default:
			return emit(0, nil, rng.Range(2, maxP-1), "padding-only")
		}
	}
	rest := p
	for len(rest) > 1 {
		if rng.Intn(3) == 0 && !junk() {
			return
		}
		n := vlib.Pick(rng, []int{1, 1, maxP, maxP - 1, rng.Range(1, maxP), rng.Range(1, 64)})
		if n > len(rest)-1 {
			n = len(rest) - 1
		}
		room := maxP - n
		pad := vlib.Pick(rng, []int{0, 1, room, room, rng.Range(0, room), rng.Range(0, imin(room, 32))})
		if pad > room {
			pad = room
		}
		class := "payload"
		switch {
		case n == 1:
			class += "-1"
		case n == maxP:
			class += "-max"
		}
		switch {
		case pad == 0:
			class += "+nopad"
		case pad == 1:
			class += "+pad-1"
		case pad == room:
			class += "+pad-max"
		default:
			class += "+pad"
		}
		if !emit(0, rest[:n], pad, class) {
			return
		}
		rest = rest[n:]
	}
	if rng.Intn(2) == 0 && !junk() {
		return
	}
	emit(0, rest, 0, "plain-final")
	return
}

// checkDist: the length distribution of a live real endpoint must be ProbDist(seed): the
// client adopts every well-formed PRNG-seed packet (padded or not), the server none.
func checkDist(c ccase, who string, ep *o4h.Endpoint, seed []byte) bool {
	conn, _ := ep.Result()
	d, err := obfs4.VerifLenDist(conn)
	if err != nil {
		violate("lendist-hook-failed", "correspondence", err.Error(), c)
		return false
	}
	sd, _ := drbg.SeedFromBytes(seed)
	exp, _, _, _ := probdist.VerifTables(probdist.New(sd, 0, framing.MaximumSegmentLength, false))
	if fmt.Sprint(exp) != fmt.Sprint(d.Values) {
		what := "the client has not adopted the last PRNG-seed packet it was sent"
		if who == "server" {
			what = "the server's length table is no longer the one of its own drbg-seed (it must ignore PRNG-seed packets)"
		}
		violate(who+"-length-table-not-from-expected-seed", "impl-oracle",
			fmt.Sprintf("%s: table has %d values %v…, ProbDist(%x) has %d values %v…", what, len(d.Values), d.Values[:imin(4, len(d.Values))], seed, len(exp), exp[:imin(4, len(exp))]), c)
		return false
	}
	r.Count("length_table_checked", who)
	return true
}

func firstDiff(a, b []byte) int {
	n := imin(len(a), len(b))
	for i := 0; i < n; i++ {
		if a[i] != b[i] {
			return i
		}
	}
	return n
}

// deliver: wire bytes into a REAL endpoint, which must then hand exactly payload to its caller.
func deliver(c ccase, who string, ep *o4h.Endpoint, wire, payload []byte, rng *vlib.Rng) bool {
	conn, _ := ep.Result()
	ep.Conn.FeedChunks(wire, o4h.Chunks(rng, vlib.Pick(rng, []string{"whole", "random", "mss"}), len(wire), nil))
	got, blocked, err := o4h.ReadN(ep.Conn, conn, len(payload))
	if err != nil {
		violate("real-endpoint-read-error", "impl-oracle", fmt.Sprintf("%s: Read failed with %v after %d of %d bytes", who, err, len(got), len(payload)), c)
		return false
	}
	if blocked || !bytes.Equal(got, payload) {
		violate("payload-not-delivered", "impl-oracle",
			fmt.Sprintf("%s: %d payload bytes sent, %d delivered (blocked=%v, first difference at %d)", who, len(payload), len(got), blocked, firstDiff(got, payload)), c)
		return false
	}
	return true
}

// seedFrameCheck: the surplus behind a real server's response, as decoded by the Lean client.
func seedFrameCheck(c ccase, sess string, surplus int, id o4h.Identity) {
	if surplus != cint("inlineSeedFrameLength") {
		violate("seed-frame-length", "impl-oracle", fmt.Sprintf("%d bytes follow the server response, the deployed format has the %d-byte unpadded seed frame", surplus, cint("inlineSeedFrameLength")), c)
	}
	dec := ref.Dec(sess, nil)
	if dec.Class != "ok" || len(dec.Pkts) != 1 || dec.Pkts[0].Type != 1 || dec.Pkts[0].PadLen != 0 || !bytes.Equal(dec.Pkts[0].Payload, id.LenSeed) {
		violate("seed-frame-not-deployed-format", "impl-oracle", "reference client decodes the bytes behind the response as "+dec.Raw+", expected one type-1 packet with the 24-byte seed and no padding", c)
	}
}

// runCase returns retry=true when the epoch hour changed under the case.
func runCase(c ccase) (retry bool) {
	rng := vlib.NewRng(c.CaseSeed)
	o4h.InstallTape(c.CaseSeed)
	tape := o4h.Tape
	id := o4h.NewIdentity(rng, c.SrvIat)
	hour0 := o4h.Hour()
	cMin, cMax := cint("clientMinPadLength"), cint("clientMaxPadLength")
	sMin, sMax := cint("serverMinPadLength"), cint("serverMaxPadLength")
	cf := o4h.ClientFactory()

	var cliEp, srvEp *o4h.Endpoint
	var blob, resp, cliTape, srvTape []byte
	var shadowC, shadowS string // Lean sessions: client side / server side (reference peer or shadow)
	clientOK := func() {
		r.Count("handshake", "ok")
	}

	// ---------------- client → server
	if c.Scenario != "lc-rs" {
		args, err := cf.ParseArgs(id.ClientArgs(c.Format, c.CliIat))
		if err != nil {
			violate("parseargs-rejects-bridge-line", "impl-oracle", fmt.Sprintf("ParseArgs(%s format): %v", c.Format, err), c)
			return
		}
		if v, ok := padSteer(c.CliPad, cMin, cMax); ok {
			tape.Steer = append(rng.Bytes(24), o4h.IntRangeSteer(v)...)
		}
		var fin bool
		cliEp, fin = o4h.StartDial(cf, args)
		if fin {
			_, err := cliEp.Result()
			violate("dial-returned-before-response", "impl-oracle", fmt.Sprintf("Dial returned (%v) without reading a server response", err), c)
			return
		}
		blob = cliEp.Conn.TakeWritten()
		cliTape = tape.Since(0)
		shadowC = ref.Fresh("c")
		rep := ref.CliNew(shadowC, id.NodeID, id.Pub, cliTape, hour0)
		r.Validated(1)
		if o4h.Hour() != hour0 {
			return true
		}
		if rep.Class != "ok" || !bytes.Equal(rep.Data, blob) || rep.Used != len(cliTape) {
			violate("client-handshake-bytes-differ", "correspondence",
				fmt.Sprintf("real client wrote %d bytes from %d random bytes; reference derives %s len %d used %d, first difference at %d",
					len(blob), len(cliTape), rep.Class, len(rep.Data), rep.Used, firstDiff(rep.Data, blob)), c)
		}
		r.Count("client_pad", padBucket(len(blob)-cint("clientMinHandshakeLength"), cMin, cMax))
		r.Count("client_keypair_attempts", strconv.Itoa(imin((len(cliTape)-24-8-(len(blob)-64))/32, 6)))
	} else {
		shadowC = ref.Fresh("c")
		rep := ref.CliNew(shadowC, id.NodeID, id.Pub, refTape(rng, c.CliPad, cMin, cMax, true), hour0+int64(c.HourOff))
		if rep.Class != "ok" {
			violate("reference-client-failed", "correspondence", "cli.new: "+rep.Raw, c)
			return
		}
		blob = rep.Data
		r.Count("client_pad", padBucket(rep.N, cMin, cMax))
	}
	if len(blob) < cint("clientMinHandshakeLength")+cMin || len(blob) > cint("maxHandshakeLength") {
		violate("client-handshake-length-out-of-range", "impl-oracle", fmt.Sprintf("client handshake of %d bytes", len(blob)), c)
	}
	upChunks := o4h.Split(blob, o4h.Chunks(rng, c.ChunkUp, len(blob), []int{32, len(blob) - 32, len(blob) - 16}))

	// ---------------- server
	if c.Scenario != "rc-ls" {
		sf := id.ServerFactory()
		if v, ok := padSteer(c.SrvPad, sMin, sMax); ok {
			good := o4h.GoodKeySeed(rng)
			tape.Steer = append(good, o4h.IntRangeSteer(v)...)
		}
		m := tape.Mark()
		var fin bool
		srvEp, fin = o4h.StartWrap(sf)
		if fin {
			_, err := srvEp.Result()
			violate("wrapconn-returned-before-input", "impl-oracle", fmt.Sprintf("WrapConn returned (%v) before any client byte", err), c)
			return
		}
		for _, ch := range upChunks {
			srvEp.Conn.Feed(ch)
		}
		if !srvEp.Conn.Wait(srvEp.Op) {
			violate("real-server-ignores-handshake", "impl-oracle", "WrapConn still waits after the complete client handshake", c)
			srvEp.Conn.FeedEOF()
			return
		}
		now := time.Now().UnixNano()
		if o4h.Hour() != hour0 {
			return true
		}
		_, err := srvEp.Result()
		if err != nil {
			sig := "real-server-rejects-real-client"
			if c.Scenario == "lc-rs" {
				sig = "real-server-rejects-ref-client"
			}
			violate(sig, "impl-oracle", fmt.Sprintf("WrapConn: %v (%s)", err, o4h.ErrClass(err)), c)
			return
		}
		ws := srvEp.Conn.TakeWrites()
		for _, w := range ws {
			resp = append(resp, w...)
		}
		if len(ws) != 1 {
			violate("response-not-one-write", "correspondence", fmt.Sprintf("server response went out in %d writes", len(ws)), c)
		}
		srvTape = tape.Since(m)
		shadowS = ref.Fresh("s")
		rep := ref.SrvNew(shadowS, id.NodeID, id.Priv, id.LenSeed, srvTape, "")
		if rep.Class == "ok" {
			rep = ref.SrvFeed(shadowS, blob, hour0, now)
		}
		r.Validated(1)
		if rep.Class != "ok" || !bytes.Equal(rep.Data, resp) || rep.Used != len(srvTape) {
			violate("server-response-bytes-differ", "correspondence",
				fmt.Sprintf("real server wrote %d bytes from %d random bytes; reference derives %s len %d used %d, first difference at %d (response length %d)",
					len(resp), len(srvTape), rep.Class, len(rep.Data), rep.Used, firstDiff(rep.Data, resp), rep.N), c)
		}
	} else {
		shadowS = ref.Fresh("s")
		rep := ref.SrvNew(shadowS, id.NodeID, id.Priv, id.LenSeed, refTape(rng, c.SrvPad, sMin, sMax, false), "")
		if rep.Class != "ok" {
			violate("reference-server-failed", "correspondence", "srv.new: "+rep.Raw, c)
			return
		}
		now := time.Now().UnixNano()
		for i, ch := range upChunks {
			rep = ref.SrvFeed(shadowS, ch, hour0+int64(c.HourOff), now)
			if i < len(upChunks)-1 && rep.Class != "need" {
				break
			}
		}
		if rep.Class != "ok" {
			violate("ref-server-rejects-real-client", "impl-oracle",
				fmt.Sprintf("the reference server answers %q to the real client's %d-byte handshake", rep.Raw, len(blob)), c)
			cliEp.Conn.FeedEOF()
			cliEp.Conn.Wait(cliEp.Op)
			return
		}
		resp = rep.Data
	}
	respLen := len(resp) - cint("inlineSeedFrameLength")
	r.Count("server_pad", padBucket(respLen-cint("serverMinHandshakeLength"), sMin, sMax))
	if len(resp) > cint("maxHandshakeLength") || respLen < cint("serverMinHandshakeLength") {
		violate("server-response-length-out-of-range", "impl-oracle", fmt.Sprintf("server response + seed frame = %d bytes", len(resp)), c)
	}
	downChunks := o4h.Split(resp, o4h.Chunks(rng, c.ChunkDown, len(resp), []int{32, 64, respLen - 32, respLen - 16, respLen}))

	// ---------------- server → client
	if c.Scenario != "lc-rs" {
		for _, ch := range downChunks {
			cliEp.Conn.Feed(ch)
		}
		if !cliEp.Conn.Wait(cliEp.Op) {
			sig := "real-client-ignores-real-server"
			if c.Scenario == "rc-ls" {
				sig = "real-client-ignores-ref-server"
			}
			violate(sig, "impl-oracle", "Dial still waits after the complete server response", c)
			cliEp.Conn.FeedEOF()
			cliEp.Conn.Wait(cliEp.Op)
			return
		}
		if o4h.Hour() != hour0 {
			return true
		}
		if _, err := cliEp.Result(); err != nil {
			sig := "real-client-rejects-real-server"
			if c.Scenario == "rc-ls" {
				sig = "real-client-rejects-ref-server"
			}
			violate(sig, "impl-oracle", fmt.Sprintf("Dial: %v (%s)", err, o4h.ErrClass(err)), c)
			return
		}
	}
	// the Lean client side (reference client, or shadow of the real one) consumes the response
	var rep o4h.HsRep
	fed := 0
	for _, ch := range downChunks {
		rep = ref.CliFeed(shadowC, ch)
		fed += len(ch)
		if rep.Class != "need" {
			break
		}
	}
	if rep.Class != "ok" {
		kind, sig := "correspondence", "shadow-client-rejects-response"
		if c.Scenario == "lc-rs" {
			kind, sig = "impl-oracle", "ref-client-rejects-real-server"
		}
		violate(sig, kind, fmt.Sprintf("the reference client answers %q to the %d-byte server response", rep.Raw, len(resp)), c)
		return
	}
	if rest := resp[fed:]; len(rest) > 0 { // chunks behind the one that completed the handshake
		ref.Dec(shadowC, nil)
		d := ref.Dec(shadowC, rest)
		if d.Class != "ok" || len(d.Pkts) != 1 || d.Pkts[0].Type != 1 || d.Pkts[0].PadLen != 0 || !bytes.Equal(d.Pkts[0].Payload, id.LenSeed) {
			violate("seed-frame-not-deployed-format", "impl-oracle", "split seed frame decodes as "+d.Raw, c)
		}
	} else {
		seedFrameCheck(c, shadowC, rep.N, id)
	}
	clientOK()

	// ---------------- data phase
	exact := 0
	cliSeed := id.LenSeed // the seed the client must have adopted (inline seed frame, later seed packets)
	for i := 0; i < c.NWrites; i++ {
		// client → server
		p := rng.Bytes(pickSize(rng, c, c.CliIat, i))
		r.Count("write_size", sizeClass(len(p)))
		var wire []byte
		if cliEp != nil {
			conn, _ := cliEp.Result()
			w := o4h.WriteOn(cliEp.Conn, conn, p, writeLimit(c.CliIat))
			if !checkWire(c, "client", c.CliIat, w, p, shadowS, shadowC) {
				return
			}
			wire = w.Wire()
			exact++
		} else {
			var cls string
			var sd []byte
			wire, sd, cls = encMixed(shadowC, rng, p)
			_ = sd // a seed packet sent to the SERVER must be ignored
			if cls != "ok" {
				violate("reference-encoder-failed", "correspondence", "enc: "+cls, c)
				return
			}
		}
		if srvEp != nil && !deliver(c, "server", srvEp, wire, p, rng) {
			return
		}
		if srvEp != nil && !checkDist(c, "server", srvEp, id.LenSeed) {
			return
		}
		// server → client
		p = rng.Bytes(pickSize(rng, c, c.SrvIat, i))
		r.Count("write_size", sizeClass(len(p)))
		if srvEp != nil {
			conn, _ := srvEp.Result()
			w := o4h.WriteOn(srvEp.Conn, conn, p, writeLimit(c.SrvIat))
			if !checkWire(c, "server", c.SrvIat, w, p, shadowC, shadowS) {
				return
			}
			wire = w.Wire()
			exact++
		} else {
			var cls string
			var sd []byte
			wire, sd, cls = encMixed(shadowS, rng, p)
			if sd != nil {
				cliSeed = sd
			}
			if cls != "ok" {
				violate("reference-encoder-failed", "correspondence", "enc: "+cls, c)
				return
			}
		}
		if cliEp != nil && !deliver(c, "client", cliEp, wire, p, rng) {
			return
		}
		if cliEp != nil && !checkDist(c, "client", cliEp, cliSeed) {
			return
		}
	}
	if c.Duplex > 0 && (duplexFailures < 3 || r.ReplayIn != "") {
		if c.Scenario == "rc-ls" && !duplexBurst(c, "client", cliEp, shadowS, rng) {
			duplexFailures++
			return
		}
		if c.Scenario == "lc-rs" && !duplexBurst(c, "server", srvEp, shadowC, rng) {
			duplexFailures++
			return
		}
		r.Count("duplex", c.Scenario)
	}
	r.Case(c.key(), exact >= 2)
	r.Sample(5, map[string]interface{}{"case": c, "client_handshake_len": len(blob), "response_plus_seed_len": len(resp),
		"client_tape": len(cliTape), "server_tape": len(srvTape)})
	ref.Drop(shadowC)
	ref.Drop(shadowS)
	for _, ep := range []*o4h.Endpoint{cliEp, srvEp} {
		if ep != nil {
			ep.Conn.Close()
		}
	}
	return false
}

// ---------------------------------------------------------------- full duplex

// decodeAll: the reference decoder over a recorded wire stream (in pieces): every frame must decode
// to a well-formed packet with zero padding, and the type-0 payloads, in order, must be exactly
// what the application wrote.
func decodeAll(c ccase, who, sess string, wire, want []byte) bool {
	var got []byte
	nf := 0
	for off := 0; off < len(wire); off += 60000 {
		end := off + 60000
		if end > len(wire) {
			end = len(wire)
		}
		d := ref.Dec(sess, wire[off:end])
		for _, p := range d.Pkts {
			nf++
			if !p.Zero {
				violate("padding-not-zero", "impl-oracle", fmt.Sprintf("%s (full duplex): frame %d carries non-zero padding (type %d, %d payload bytes, %d padding bytes)", who, nf, p.Type, len(p.Payload), p.PadLen), c)
				return false
			}
			if p.Type == 0 {
				got = append(got, p.Payload...)
			} else {
				violate("unexpected-packet-type", "impl-oracle", fmt.Sprintf("%s (full duplex): frame %d has packet type %d", who, nf, p.Type), c)
				return false
			}
			if !bytes.Equal(got, want[:imin(len(got), len(want))]) {
				violate("frame-payload-not-what-was-written", "impl-oracle",
					fmt.Sprintf("%s (full duplex, a Read and a Write in progress at once): frame %d is tag-valid but its payload is not the next bytes the application wrote (first difference at stream offset %d)", who, nf, firstDiff(got, want)), c)
				return false
			}
		}
		if d.Class != "ok" {
			violate("ref-cannot-decode-real-frames", "impl-oracle", fmt.Sprintf("%s (full duplex): after %d frames the reference decoder answers %q", who, nf, d.Raw), c)
			return false
		}
	}
	if !bytes.Equal(got, want) {
		violate("payload-differs", "impl-oracle", fmt.Sprintf("%s (full duplex): the frames carry %d payload bytes, %d were written", who, len(got), len(want)), c)
		return false
	}
	frames["duplex-"+who] += nf
	return true
}

func writeChunks(conn net.Conn, data []byte, rng *vlib.Rng) error {
	for len(data) > 0 {
		n := rng.Range(1, 6000)
		if n > len(data) {
			n = len(data)
		}
		if _, err := conn.Write(data[:n]); err != nil {
			return err
		}
		data = data[n:]
	}
	return nil
}

// duplexBurst: the real endpoint `ep` (on a ScriptConn) writes `up` while it reads what the
// reference peer `peer` sends at the same time (frames pre-encoded by the reference, mixed packet
// kinds).  Read must deliver exactly the reference's payload; the frames the endpoint wrote are
// then decoded by the reference.
func duplexBurst(c ccase, who string, ep *o4h.Endpoint, peer string, rng *vlib.Rng) bool {
	conn, _ := ep.Result()
	down, up := rng.Bytes(c.Duplex), rng.Bytes(c.Duplex)
	wire, _, cls := encMixed(peer, rng, down)
	if cls != "ok" {
		violate("reference-encoder-failed", "correspondence", "enc: "+cls, c)
		return false
	}
	ep.Conn.TakeWrites()
	var wg sync.WaitGroup
	var rerr, werr error
	got := make([]byte, len(down))
	wrng := rng.Fork()
	wg.Add(3)
	go func() { defer wg.Done(); _, rerr = io.ReadFull(conn, got) }()
	go func() { defer wg.Done(); werr = writeChunks(conn, up, wrng) }()
	go func() {
		defer wg.Done()
		for off := 0; off < len(wire); off += 1448 {
			end := off + 1448
			if end > len(wire) {
				end = len(wire)
			}
			ep.Conn.Feed(wire[off:end])
			runtime.Gosched()
		}
	}()
	done := make(chan struct{})
	go func() { wg.Wait(); close(done) }()
	select {
	case <-done:
	case <-time.After(15 * time.Second):
		ep.Conn.Close()
		<-done
		violate("duplex-stuck", "impl-oracle", who+": full-duplex phase (a few dozen KiB each way) did not finish within 15 s", c)
		return false
	}
	if rerr != nil || werr != nil {
		violate("duplex-endpoint-error", "impl-oracle", fmt.Sprintf("%s: with a Read and a Write in progress at once: Read error %v, Write error %v", who, rerr, werr), c)
		return false
	}
	if !bytes.Equal(got, down) {
		violate("payload-not-delivered", "impl-oracle", fmt.Sprintf("%s (full duplex): Read delivered bytes the reference peer never sent (first difference at %d of %d)", who, firstDiff(got, down), len(down)), c)
		return false
	}
	return decodeAll(c, who, peer, ep.Conn.TakeWritten(), up)
}

// runDuplex: real client <-> real server over a pipe, both directions recorded; after the handshake
// each endpoint runs a writer and a reader goroutine AT THE SAME TIME.  Both Reads must deliver
// exactly what the peer wrote, and afterwards the reference (from the client's session key and the
// recorded bytes) decodes every frame of both directions.
func runDuplex(c ccase) (retry bool) {
	if runtime.GOMAXPROCS(0) < 8 {
		runtime.GOMAXPROCS(8)
	}
	rng := vlib.NewRng(c.CaseSeed)
	o4h.InstallTape(c.CaseSeed)
	id := o4h.NewIdentity(rng, c.SrvIat)
	sf := id.ServerFactory()
	cf := o4h.ClientFactory()
	hour0 := o4h.Hour()
	a, b := net.Pipe()
	ca, cb := &o4h.RecConn{Conn: a}, &o4h.RecConn{Conn: b}
	wd := time.AfterFunc(30*time.Second, func() { a.Close(); b.Close() })
	defer wd.Stop()
	args, err := cf.ParseArgs(id.ClientArgs(c.Format, c.CliIat))
	if err != nil {
		violate("parseargs-rejects-bridge-line", "impl-oracle", err.Error(), c)
		return
	}
	_, _, kp, _, _ := obfs4.VerifClientArgs(args)
	type res struct {
		conn net.Conn
		err  error
	}
	sch := make(chan res, 1)
	go func() { sc, err := sf.WrapConn(cb); sch <- res{sc, err} }()
	cc, cerr := cf.Dial("tcp", "x", func(string, string) (net.Conn, error) { return ca, nil }, args)
	if cerr != nil {
		a.Close()
	}
	sr := <-sch
	if cerr != nil || sr.err != nil {
		if o4h.Hour() != hour0 {
			return true
		}
		violate("real-client-rejects-real-server", "impl-oracle", fmt.Sprintf("Dial: %v, WrapConn: %v", cerr, sr.err), c)
		return
	}
	up, down := rng.Bytes(c.Duplex), rng.Bytes(c.Duplex)
	t0 := time.Now()
	var wg sync.WaitGroup
	errs := make([]error, 4)
	gotS, gotC := make([]byte, len(up)), make([]byte, len(down))
	r1, r2 := rng.Fork(), rng.Fork()
	wg.Add(4)
	// the first failure tears the pipe down, so that the other three goroutines end at once
	var firstErr atomic.Int32
	firstErr.Store(-1)
	note := func(i int, e error) {
		errs[i] = e
		if e != nil && firstErr.CompareAndSwap(-1, int32(i)) {
			a.Close()
			b.Close()
		}
	}
	go func() { defer wg.Done(); note(0, writeChunks(cc, up, r1)) }()
	// a reader keeps draining after it has all the payload: the peer's last Write may still have
	// padding frames to get rid of (a pipe Write blocks until somebody reads)
	drain := func(conn net.Conn) { _, _ = io.Copy(io.Discard, conn) }
	go func() { _, e := io.ReadFull(cc, gotC); note(1, e); wg.Done(); drain(cc) }()
	go func() { defer wg.Done(); note(2, writeChunks(sr.conn, down, r2)) }()
	go func() { _, e := io.ReadFull(sr.conn, gotS); note(3, e); wg.Done(); drain(sr.conn) }()
	wg.Wait()
	cc.Close()
	sr.conn.Close()
	if o4h.Hour() != hour0 {
		return true
	}
	r.Case(c.key(), true)
	if i := int(firstErr.Load()); i >= 0 {
		violate("duplex-endpoint-error", "impl-oracle", fmt.Sprintf("real<->real full duplex (a Read and a Write in progress at once on each endpoint, %d bytes each way): %s failed first after %.1f s: %v", c.Duplex, []string{"client Write", "client Read", "server Write", "server Read"}[i], time.Since(t0).Seconds(), errs[i]), c)
		// still let the reference look at what went over the wire up to here
	}
	failed := firstErr.Load() >= 0
	if !failed && (!bytes.Equal(gotS, up) || !bytes.Equal(gotC, down)) {
		violate("payload-not-delivered", "impl-oracle", fmt.Sprintf("real<->real full duplex: server read differs at %d of %d, client read differs at %d of %d", firstDiff(gotS, up), len(up), firstDiff(gotC, down), len(down)), c)
		failed = true
	}
	// the reference follows from the recorded bytes
	cw, sw := ca.Writes(), cb.Writes()
	L, T := ref.Fresh("c"), ref.Fresh("t")
	defer func() { ref.Drop(L); ref.Drop(T) }()
	if len(cw) < 2 || len(sw) < 2 || !ref.CliNewKey(L, id.NodeID, id.Pub, kp.Private().Bytes()[:], kp.Public().Bytes()[:], kp.Representative().Bytes()[:], hour0) {
		violate("concurrent-session-recording-short", "correspondence", fmt.Sprintf("%d client writes, %d server writes", len(cw), len(sw)), c)
		return
	}
	if fr := ref.CliFeed(L, sw[0]); fr.Class != "ok" {
		violate("ref-client-rejects-real-server", "impl-oracle", "cli.feed: "+fr.Raw, c)
		return
	}
	if d := ref.Dec(L, nil); d.Class != "ok" || len(d.Pkts) != 1 || d.Pkts[0].Type != 1 {
		violate("seed-frame-not-deployed-format", "impl-oracle", d.Raw, c)
		return
	}
	var dw, uw []byte
	for _, w := range sw[1:] {
		dw = append(dw, w...)
	}
	for _, w := range cw[1:] {
		uw = append(uw, w...)
	}
	ref.LinkSwap(L, T)
	r.Validated(2)
	if failed {
		// the streams are truncated: look for the first malformed frame only
		decodePrefix(c, "server", L, dw, down)
		decodePrefix(c, "client", T, uw, up)
		return false
	}
	if decodeAll(c, "server", L, dw, down) {
		decodeAll(c, "client", T, uw, up)
	}
	return false
}

// decodePrefix: as decodeAll for a stream that was cut short by a failure: reports the first frame
// that is malformed or whose payload is not what was written; a decode error at the cut is expected.
func decodePrefix(c ccase, who, sess string, wire, want []byte) {
	var got []byte
	nf := 0
	for off := 0; off < len(wire); off += 60000 {
		end := off + 60000
		if end > len(wire) {
			end = len(wire)
		}
		d := ref.Dec(sess, wire[off:end])
		for _, p := range d.Pkts {
			nf++
			if p.Type == 0 {
				got = append(got, p.Payload...)
			}
			if !p.Zero || p.Type != 0 || len(got) > len(want) || !bytes.Equal(got, want[:len(got)]) {
				violate("frame-payload-not-what-was-written", "impl-oracle",
					fmt.Sprintf("%s (full duplex): frame %d is tag-valid but malformed: type %d, %d payload bytes, %d padding bytes (zero=%v), stream differs from what was written at offset %d", who, nf, p.Type, len(p.Payload), p.PadLen, p.Zero, firstDiff(got, want)), c)
				return
			}
		}
		if d.Class == "paylen" || d.Class == "pktlen" {
			violate("frame-payload-not-what-was-written", "impl-oracle", fmt.Sprintf("%s (full duplex): frame %d is tag-valid but its packet length field is wrong (%s)", who, nf+1, d.Class), c)
			return
		}
		if d.Class != "ok" {
			return
		}
	}
}

// ---------------------------------------------------------------- conc: truly parallel sessions, re-derived afterwards

// runConc: N real client <-> real server sessions of one process and one server factory run truly
// in parallel (goroutines, pipes, one barrier), each echoing payload both ways while both wire
// directions are recorded.  AFTERWARDS the Lean reference follows every session from its recorded
// bytes alone: a reference client with the real client's session key (hook VerifClientArgs) must
// accept the recorded server response (same KEY_SEED / AUTH), and the link keys it derives must
// decode the recorded frames of BOTH directions to exactly the payloads.  (The random tape is
// global, so the per-connection randomness is taken from the wire and the key hook, not the tape.)
func runConc(c ccase) (retry bool) {
	N := c.NWrites
	if runtime.GOMAXPROCS(0) < 8 {
		runtime.GOMAXPROCS(8)
	}
	rng := vlib.NewRng(c.CaseSeed)
	o4h.InstallTape(c.CaseSeed)
	id := o4h.NewIdentity(rng, 0)
	sf := id.ServerFactory()
	cf := o4h.ClientFactory()
	hour0 := o4h.Hour()
	const watchdog = 20 * time.Second
	type sess struct {
		ca, cb      *o4h.RecConn
		xPriv, xPub []byte
		xRepr       []byte
		up, down    []byte
		err         string
	}
	ss := make([]*sess, N)
	var wg sync.WaitGroup
	barrier := make(chan struct{})
	for i := 0; i < N; i++ {
		a, b := net.Pipe()
		s := &sess{ca: &o4h.RecConn{Conn: a}, cb: &o4h.RecConn{Conn: b},
			up: vlib.NewRng(c.CaseSeed + uint64(i)).Bytes(1500 + 37*i), down: vlib.NewRng(c.CaseSeed + 1000 + uint64(i)).Bytes(900 + 53*i)}
		ss[i] = s
		wg.Add(1)
		go func(i int, s *sess) {
			defer wg.Done()
			var timedOut atomic.Bool
			wd := time.AfterFunc(watchdog, func() { timedOut.Store(true); s.ca.Close(); s.cb.Close() })
			defer wd.Stop()
			srvDone := make(chan string, 1)
			go func() {
				defer func() {
					if p := recover(); p != nil {
						s.cb.Close()
						srvDone <- fmt.Sprintf("PANIC in the server: %v", p)
					}
				}()
				<-barrier
				sc, err := sf.WrapConn(s.cb)
				if err != nil {
					srvDone <- "WrapConn: " + err.Error()
					return
				}
				defer sc.Close()
				got := make([]byte, len(s.up))
				if _, err := io.ReadFull(sc, got); err != nil || !bytes.Equal(got, s.up) {
					srvDone <- fmt.Sprintf("server read: %v equal=%v", err, bytes.Equal(got, s.up))
					return
				}
				if _, err := sc.Write(s.down); err != nil {
					srvDone <- "server write: " + err.Error()
					return
				}
				srvDone <- ""
			}()
			fail := func(msg string) {
				s.ca.Close()
				if e := <-srvDone; e != "" {
					msg += " ; server: " + e
				}
				if timedOut.Load() {
					msg += fmt.Sprintf(" (torn down after %v)", watchdog)
				}
				s.err = msg
			}
			defer func() {
				if p := recover(); p != nil {
					fail(fmt.Sprintf("PANIC in the client: %v", p))
				}
			}()
			args, err := cf.ParseArgs(id.ClientArgs([]string{"cert", "legacy"}[i%2], 0))
			if err != nil {
				fail(err.Error())
				return
			}
			if _, _, kp, _, ok := obfs4.VerifClientArgs(args); ok {
				s.xPriv = append([]byte(nil), kp.Private().Bytes()[:]...)
				s.xPub = append([]byte(nil), kp.Public().Bytes()[:]...)
				s.xRepr = append([]byte(nil), kp.Representative().Bytes()[:]...)
			}
			<-barrier
			cc, err := cf.Dial("tcp", "x", func(string, string) (net.Conn, error) { return s.ca, nil }, args)
			if err != nil {
				fail("Dial: " + err.Error())
				return
			}
			defer cc.Close()
			if _, err := cc.Write(s.up); err != nil {
				fail("client write: " + err.Error())
				return
			}
			got := make([]byte, len(s.down))
			if _, err := io.ReadFull(cc, got); err != nil || !bytes.Equal(got, s.down) {
				fail(fmt.Sprintf("client read: %v equal=%v", err, bytes.Equal(got, s.down)))
				return
			}
			if e := <-srvDone; e != "" {
				s.err = e
			}
		}(i, s)
	}
	time.Sleep(20 * time.Millisecond)
	close(barrier)
	wg.Wait()
	if o4h.Hour() != hour0 {
		return true
	}
	var failed []string
	for i, s := range ss {
		if s.err != "" {
			failed = append(failed, fmt.Sprintf("#%d: %s", i, s.err))
		}
	}
	if len(failed) > 0 {
		sig := "concurrent-genuine-session-fails"
		if strings.Contains(strings.Join(failed, " "), "PANIC") {
			sig = "panic-under-concurrency"
		}
		show := failed
		if len(show) > 3 {
			show = show[:3]
		}
		violate(sig, "impl-oracle", fmt.Sprintf("%d of %d real client<->real server sessions running in parallel failed (each interoperates when run alone): %s", len(failed), N, strings.Join(show, " || ")), c)
	}
	// ---- follow every completed session with the reference, from the recorded bytes
	for i, s := range ss {
		r.Case(fmt.Sprintf("%s|%d", c.key(), i), s.err == "")
		if s.err != "" || s.xPriv == nil {
			continue
		}
		cw, sw := s.ca.Writes(), s.cb.Writes()
		if len(cw) < 2 || len(sw) < 2 {
			violate("concurrent-session-recording-short", "correspondence", fmt.Sprintf("session #%d: %d client writes, %d server writes recorded", i, len(cw), len(sw)), c)
			continue
		}
		blob := cw[0]
		if len(blob) < 32 || !bytes.Equal(blob[:32], s.xRepr) {
			violate("client-handshake-bytes-differ", "correspondence", fmt.Sprintf("session #%d: the recorded client handshake does not start with the session key's representative", i), c)
			continue
		}
		L := ref.Fresh("c")
		T := ref.Fresh("t")
		if !ref.CliNewKey(L, id.NodeID, id.Pub, s.xPriv, s.xPub, s.xRepr, hour0) {
			violate("reference-client-failed", "correspondence", "cli.newkey", c)
			continue
		}
		r.Validated(1)
		fr := ref.CliFeed(L, sw[0])
		if fr.Class != "ok" {
			violate("reference-cannot-follow-concurrent-session", "impl-oracle",
				fmt.Sprintf("session #%d of %d parallel ones completed between the real endpoints, but the reference client with the same session key answers %q to the recorded %d-byte server response (KEY_SEED / AUTH / MAC differ from the deployed derivation)", i, N, fr.Raw, len(sw[0])), c)
			ref.Drop(L)
			continue
		}
		d := ref.Dec(L, nil)
		var rest []byte
		for _, w := range sw[1:] {
			rest = append(rest, w...)
		}
		d2 := ref.Dec(L, rest)
		seedOK := d.Class == "ok" && len(d.Pkts) == 1 && d.Pkts[0].Type == 1 && bytes.Equal(d.Pkts[0].Payload, id.LenSeed)
		if !seedOK || d2.Class != "ok" || !bytes.Equal(d2.Payload(), s.down) {
			violate("reference-cannot-decode-concurrent-session", "impl-oracle",
				fmt.Sprintf("session #%d: server->client frames: seed frame %s, data %s (%d of %d payload bytes)", i, d.Raw, d2.Class, len(d2.Payload()), len(s.down)), c)
		}
		var upw []byte
		for _, w := range cw[1:] {
			upw = append(upw, w...)
		}
		ref.LinkSwap(L, T)
		d3 := ref.Dec(T, upw)
		if d3.Class != "ok" || !bytes.Equal(d3.Payload(), s.up) {
			violate("reference-cannot-decode-concurrent-session", "impl-oracle",
				fmt.Sprintf("session #%d: client->server frames decode as %s (%d of %d payload bytes)", i, d3.Class, len(d3.Payload()), len(s.up)), c)
		}
		frames["conc-client"] += len(d3.Pkts)
		frames["conc-server"] += len(d2.Pkts)
		ref.Drop(L)
		ref.Drop(T)
	}
	r.Count("concurrent_batches", strconv.Itoa(N))
	r.Count("concurrent_sessions_ok", strconv.Itoa(N-len(failed)))
	return false
}

func concBatches(rng *vlib.Rng, n int) {
	firstBad := -1
	for i := 0; i < n; i++ {
		run(ccase{Scenario: "conc", CaseSeed: rng.U64(), Format: "both", NWrites: 16})
		if r.NumViolations() > 0 && firstBad < 0 {
			firstBad = i
		}
		if firstBad >= 0 && i >= firstBad+2 {
			break
		}
	}
}

func run(c ccase) {
	for try := 0; try < 3; try++ {
		if c.Scenario == "conc" {
			if !runConc(c) {
				return
			}
		} else if c.Scenario == "duplex" {
			if !runDuplex(c) {
				return
			}
		} else if !runCase(c) {
			return
		}
		r.Count("skipped", "epoch-hour-changed-retry")
	}
}

func main() {
	r = vlib.NewRun("C06")
	for k, v := range obfs4.VerifConstants() {
		if n, err := strconv.Atoi(v); err == nil {
			K[k] = n
		}
	}
	r.Rule = "case = (scenario rc-ls | lc-rs | rr, identity, IAT modes, bridge-line format, steered min/max/random pad lengths, handshake chunkings, write sizes); " +
		"non-trivial = handshake completed between the real endpoint(s) and the Lean reference AND at least 2 real Write bursts were re-derived byte-exactly and decoded by the reference; distinct by the case description incl. its seed"
	r.Assumptions = []string{"epoch hour read before/after each handshake; a case that straddles an hour boundary is retried",
		"iat-mode 2 with a length table containing 0 panics in Write (C09 finding): such a case is skipped, not reported here",
		"'deployed format' = the property's own enumeration as implemented by the Lean reference; no deployed peer is reachable"}
	ref = &o4h.Ref{D: r.Driver("o4ref")}
	defer ref.D.Close()

	if r.ReplayIn != "" {
		var c ccase
		if err := r.LoadReplay(&c); err == nil && c.Scenario != "" {
			run(c)
		}
		r.Finish()
	}

	rng := vlib.NewRng(r.Seed)
	// truly parallel sessions, followed by the reference afterwards: 3 batches of 16 (quick), 10
	// (thorough); after a broken proof or tie (search mode) up to 40, first
	if r.Mode == "search" {
		concBatches(rng.Fork(), 40)
	} else {
		concBatches(rng.Fork(), r.Scale(3, 10))
	}
	// real <-> real, full duplex (a reader and a writer goroutine on each endpoint at the same time)
	for i, nd := 0, r.Scale(4, 40); i < nd; i++ {
		dc := ccase{Scenario: "duplex", CaseSeed: rng.U64(), CliIat: []int{0, 1, 0, 0}[i%4], SrvIat: []int{0, 0, 1, 0}[i%4],
			Format: []string{"cert", "legacy"}[i%2], Duplex: 256 * 1024}
		if r.Mode == "search" {
			dc.Duplex = 1024 * 1024
		}
		r.Count("scenario", "duplex")
		if nv := r.NumViolations(); nv > 0 && i >= 3 && r.Mode == "search" {
			break
		}
		run(dc)
	}
	n := r.Scale(150, 2400)
	scen := []string{"rc-ls", "lc-rs", "rr"}
	pads := []string{"rand", "rand", "min", "max"}
	for i := 0; i < n; i++ {
		c := ccase{Scenario: scen[i%3], CaseSeed: rng.U64(), CliIat: (i / 3) % 3, SrvIat: (i / 9) % 3,
			Format: []string{"cert", "legacy"}[(i/3)%2],
			CliPad: vlib.Pick(rng, pads), SrvPad: vlib.Pick(rng, pads),
			ChunkUp: vlib.Pick(rng, o4h.ChunkClasses), ChunkDown: vlib.Pick(rng, o4h.ChunkClasses),
			NWrites: rng.Range(2, 4), Big: r.Thorough() && i%16 == 0}
		if c.Scenario != "rr" {
			c.HourOff = []int{0, -1, 1}[(i/3)%3]
		}
		r.Count("hour_offset", fmt.Sprintf("%s%+d", c.Scenario, c.HourOff))
		if i%5 == 0 { // decorrelate the IAT modes from the scenario rotation
			c.CliIat, c.SrvIat = rng.Intn(3), rng.Intn(3)
		}
		// full-duplex phase against the reference peer (not in paranoid IAT mode: tiny segments with
		// a sleep each make 48 KiB take arbitrarily long)
		if c.Scenario != "rr" && i%4 == 0 && c.CliIat != 2 && c.SrvIat != 2 {
			c.Duplex = 48 * 1024
		}
		r.Count("scenario", c.Scenario)
		r.Count("iat", fmt.Sprintf("cli%d-srv%d", c.CliIat, c.SrvIat))
		r.Count("format", c.Format)
		r.Count("chunking", "up-"+c.ChunkUp)
		r.Count("chunking", "down-"+c.ChunkDown)
		run(c)
	}
	r.Notes["frames_compared"] = frames
	r.Finish()
}
