// C11 — replay filter: Go implementation vs Lean model (driver `rf`) on whole histories,
// plus an implementation-level oracle (a map with timestamps) on monotone histories.
package main

import (
	"fmt"
	"strings"
	"sync"
	"time"

	"gitlab.com/yawning/obfs4.git/common/replayfilter"

	"verif/harness/vlib"
)

type op struct {
	Dt int64 `json:"dt"` // time step relative to the previous op (may be negative)
	V  int   `json:"v"`  // value id
}

type hcase struct {
	TTL int64 `json:"ttl"`
	Ops []op  `json:"ops"`
}

var base = time.Unix(1700000000, 0)

func valBytes(v int) []byte { return []byte(fmt.Sprintf("value-%d", v)) }

// runImpl runs a history on a fresh real filter.
func runImpl(c hcase) (string, int, int) {
	f, err := replayfilter.New(time.Duration(c.TTL))
	if err != nil {
		panic(err)
	}
	var sb strings.Builder
	now := int64(0)
	for _, o := range c.Ops {
		now += o.Dt
		if f.TestAndSet(base.Add(time.Duration(now)), valBytes(o.V)) {
			sb.WriteByte('1')
		} else {
			sb.WriteByte('0')
		}
	}
	m, l := replayfilter.VerifLen(f)
	return sb.String(), m, l
}

// oracle: the property stated directly — "seen" iff an insertion of the value is younger
// than ttl (monotone clock, below capacity).
func runOracle(c hcase) string {
	ins := map[int]int64{}
	has := map[int]bool{}
	var sb strings.Builder
	now := int64(0)
	for _, o := range c.Ops {
		now += o.Dt
		if has[o.V] && now-ins[o.V] < c.TTL {
			sb.WriteByte('1')
		} else {
			sb.WriteByte('0')
			ins[o.V] = now
			has[o.V] = true
		}
	}
	return sb.String()
}

func monotone(c hcase) bool {
	for _, o := range c.Ops {
		if o.Dt < 0 {
			return false
		}
	}
	return true
}

func opLine(c hcase) string {
	var sb strings.Builder
	fmt.Fprintf(&sb, "hist %d 0", c.TTL)
	now := int64(0)
	for _, o := range c.Ops {
		now += o.Dt
		fmt.Fprintf(&sb, " %d:%d", now, o.V)
	}
	return sb.String()
}

func classify(c hcase, ans string) (repeat, expiry, back bool) {
	seen := map[int]bool{}
	for i, o := range c.Ops {
		if seen[o.V] {
			repeat = true
			if ans[i] == '0' {
				expiry = true
			}
		}
		seen[o.V] = true
		if o.Dt < 0 {
			back = true
		}
	}
	return
}

func check(r *vlib.Run, d *vlib.Driver, c hcase) {
	ans, mlen, llen := runImpl(c)
	line := opLine(c)
	rep := d.Call("%s", line)
	want := fmt.Sprintf("%s %d", ans, llen)
	repeat, expiry, back := classify(c, ans)
	r.Case(line, repeat && (expiry || back))
	r.Validated(1)
	r.Count("len", fmt.Sprint(len(c.Ops)))
	if expiry {
		r.Count("class", "expiry-or-reset")
	}
	if back {
		r.Count("class", "backwards-step")
	}
	if repeat {
		r.Count("class", "repeat")
	}
	r.Sample(5, map[string]interface{}{"op": line, "impl": want, "model": rep})
	if mlen != llen {
		r.Violate("map-fifo-size-differ", "impl-oracle",
			fmt.Sprintf("map holds %d entries but fifo %d after %s", mlen, llen, line), c)
	}
	if llen > 102400 {
		r.Violate("over-capacity", "impl-oracle", fmt.Sprintf("filter holds %d entries", llen), c)
	}
	if monotone(c) && c.TTL > 0 {
		if o := runOracle(c); o != ans {
			r.Violate("answers-differ-from-expiring-set", "impl-oracle",
				fmt.Sprintf("history %s: implementation answered %s, an expiring set answers %s", line, ans, o), c)
			return
		}
	}
	if rep != want {
		r.Violate("model-impl-disagree", "correspondence",
			fmt.Sprintf("history %s: implementation %q, Lean model %q", line, want, rep), c)
	}
}

func enumerate(r *vlib.Run, d *vlib.Driver, ttl int64, maxLen int, deltas []int64, nvals int) {
	var rec func(prefix []op)
	rec = func(prefix []op) {
		if len(prefix) > 0 {
			check(r, d, hcase{TTL: ttl, Ops: append([]op(nil), prefix...)})
		}
		if len(prefix) == maxLen {
			return
		}
		for _, dt := range deltas {
			for v := 0; v < nvals; v++ {
				rec(append(prefix, op{dt, v}))
			}
		}
	}
	rec(nil)
}

func concurrent(r *vlib.Run, rounds int) {
	for i := 0; i < rounds; i++ {
		f, _ := replayfilter.New(3 * time.Hour)
		const n = 16
		var wg sync.WaitGroup
		res := make([]bool, n)
		start := make(chan struct{})
		now := time.Now()
		for g := 0; g < n; g++ {
			wg.Add(1)
			go func(g int) {
				defer wg.Done()
				<-start
				if i%2 == 0 {
					res[g] = f.TestAndSet(now, []byte("same-handshake"))
				} else {
					// wall-clock submission: the filter reads the clock itself (under its lock)
					res[g] = f.TestAndSetNow([]byte("same-handshake"))
				}
			}(g)
		}
		close(start)
		wg.Wait()
		news := 0
		for _, b := range res {
			if !b {
				news++
			}
		}
		r.Case(fmt.Sprintf("concurrent-%d", i), false)
		api := "TestAndSet(now)"
		if i%2 == 1 {
			api = "TestAndSetNow"
		}
		r.Count("class", "concurrent-16-"+api)
		if news != 1 {
			r.Violate("concurrent-not-exactly-one-new", "impl-oracle",
				fmt.Sprintf("16 simultaneous submissions of one value to a fresh filter through %s: %d were told 'new'", api, news),
				map[string]interface{}{"concurrent": true})
		}
	}
}

func capacity(r *vlib.Run, d *vlib.Driver) {
	// 102400 + 50 distinct inserts 1ns apart with a huge TTL, then re-submit the first 60
	// (evicted ones are "new", which evicts more) — compared with the model.
	c := hcase{TTL: int64(3 * time.Hour)}
	n := 102400 + 50
	for i := 0; i < n; i++ {
		c.Ops = append(c.Ops, op{1, i})
	}
	for i := 0; i < 60; i++ {
		c.Ops = append(c.Ops, op{1, i})
	}
	ans, mlen, llen := runImpl(c)
	rep := d.Call("%s", opLine(c))
	want := fmt.Sprintf("%s %d", ans, llen)
	r.Case("capacity-run", true)
	r.Validated(1)
	r.Count("class", "capacity-overflow")
	if llen > 102400 || mlen > 102400 {
		r.Violate("over-capacity", "impl-oracle", fmt.Sprintf("filter holds %d entries", llen), map[string]interface{}{"capacity": true})
	}
	if rep != want {
		r.Violate("model-impl-disagree-capacity", "correspondence",
			fmt.Sprintf("capacity history: impl len %d tail %s ; model %s", llen, ans[n-5:], rep[len(rep)-80:]), map[string]interface{}{"capacity": true})
	}
}

// capacityOracle: implementation-only (quick tier too): cap+50 distinct values within one TTL.
// From the property text: never more than the capacity; eviction is oldest-first, so a
// middle-aged value is still remembered and the very first one is not.
func capacityOracle(r *vlib.Run) {
	const capN = 102400
	f, _ := replayfilter.New(3 * time.Hour)
	now := base
	for i := 0; i < capN+50; i++ {
		now = now.Add(time.Nanosecond)
		if f.TestAndSet(now, valBytes(i)) {
			r.Violate("fresh-value-reported-seen", "impl-oracle", fmt.Sprintf("distinct value %d reported as seen during the capacity run", i), map[string]interface{}{"capacityOracle": true})
			return
		}
		if i == capN-1 || i == capN || i == capN+49 {
			if m, l := replayfilter.VerifLen(f); m > capN || l > capN || l < capN-1 {
				r.Violate("capacity-size-wrong", "impl-oracle", fmt.Sprintf("after %d distinct inserts within the TTL the filter holds map=%d fifo=%d entries (capacity %d)", i+1, m, l, capN), map[string]interface{}{"capacityOracle": true})
				return
			}
		}
	}
	r.Case("capacity-oracle", true)
	r.Count("class", "capacity-overflow-oracle")
	now = now.Add(time.Nanosecond)
	if !f.TestAndSet(now, valBytes(capN/2)) {
		r.Violate("capacity-evicted-young-entry", "impl-oracle", fmt.Sprintf("after overflowing the capacity by 50, value %d (far from the oldest) was forgotten: eviction is not oldest-first", capN/2), map[string]interface{}{"capacityOracle": true})
	}
	if f.TestAndSet(now, valBytes(0)) {
		r.Violate("capacity-oldest-not-evicted", "impl-oracle", "after overflowing the capacity by 50 the oldest value is still remembered", map[string]interface{}{"capacityOracle": true})
	}
}

// resetThenFillOracle: implementation-only. K live entries, a backwards clock jump (everything
// is discarded), then more fresh values than capacity-K on a monotone clock within the TTL:
// still below capacity, so nothing may be force-evicted — every value inserted after the jump is
// still remembered and the filter holds exactly those.
func resetThenFillOracle(r *vlib.Run) {
	const k = 60000
	f, _ := replayfilter.New(3 * time.Hour)
	now := base.Add(time.Hour)
	for i := 0; i < k; i++ {
		now = now.Add(time.Nanosecond)
		f.TestAndSet(now, valBytes(i))
	}
	now = base // jump back behind the oldest entry
	for i := 0; i < k; i++ {
		now = now.Add(time.Nanosecond)
		if f.TestAndSet(now, valBytes(1000000+i)) {
			r.Violate("fresh-value-reported-seen", "impl-oracle", fmt.Sprintf("fresh value %d after a backwards jump reported as seen", i), map[string]interface{}{"resetThenFill": true})
			return
		}
	}
	r.Case("reset-then-fill-oracle", true)
	r.Count("class", "reset-then-fill-oracle")
	if m, l := replayfilter.VerifLen(f); m != k || l != k {
		r.Violate("entries-evicted-below-capacity", "impl-oracle", fmt.Sprintf("%d values, a backwards clock jump, then %d fresh values within the TTL (below capacity): the filter holds map=%d fifo=%d entries, expected %d", k, k, m, l, k), map[string]interface{}{"resetThenFill": true})
		return
	}
	now = now.Add(time.Nanosecond)
	if !f.TestAndSet(now, valBytes(1000000)) {
		r.Violate("entries-evicted-below-capacity", "impl-oracle", "the first value inserted after the backwards jump was forgotten although the filter is below capacity and within the TTL", map[string]interface{}{"resetThenFill": true})
	}
	if f.TestAndSet(now, valBytes(5)) {
		r.Violate("backwards-jump-did-not-discard", "impl-oracle", "a value inserted before the backwards jump is still remembered", map[string]interface{}{"resetThenFill": true})
	}
}

// Burst histories (implementation oracle, monotone clock, below capacity): phases of "N fresh
// distinct values one tick apart, an idle gap, then re-submissions of values of that burst in a
// given order". N reaches tens of thousands, so that far more entries than any per-call work
// bound expire between two consecutive calls; gaps are chosen around the TTL so that all, none
// or part of the burst has expired. Every answer is compared with the expiring set of the
// property text (runOracle); short ones also with the Lean model.
type phase struct {
	N      int    `json:"n"`      // fresh values in the burst
	Gap    int64  `json:"gap"`    // idle time after the burst
	Order  string `json:"order"`  // latest-first | earliest-first | strided
	Replay int    `json:"replay"` // how many values of the burst are re-submitted
}

type burstCase struct {
	TTL    int64   `json:"ttl"`
	Phases []phase `json:"phases"`
	Burst  bool    `json:"burst"`
}

func (b burstCase) expand() hcase {
	c := hcase{TTL: b.TTL}
	next := 0
	for _, p := range b.Phases {
		first := next
		for i := 0; i < p.N; i++ {
			c.Ops = append(c.Ops, op{1, next})
			next++
		}
		k := p.Replay
		if k > p.N {
			k = p.N
		}
		for i := 0; i < k; i++ {
			var v int
			switch p.Order {
			case "latest-first":
				v = first + p.N - 1 - i
			case "earliest-first":
				v = first + i
			default: // strided over the whole burst
				v = first + (i*(p.N/k+1)+i)%p.N
			}
			dt := int64(0)
			if i == 0 {
				dt = p.Gap
			}
			c.Ops = append(c.Ops, op{dt, v})
		}
	}
	return c
}

func burstCheck(r *vlib.Run, d *vlib.Driver, b burstCase) {
	c := b.expand()
	ans, mlen, llen := runImpl(c)
	key := fmt.Sprintf("burst ttl=%d %v", b.TTL, b.Phases)
	expired := false
	seen := map[int]bool{}
	for i, o := range c.Ops {
		if seen[o.V] && ans[i] == '0' {
			expired = true
		}
		seen[o.V] = true
	}
	r.Case(key, expired)
	r.Count("class", "burst-history")
	maxN := 0
	for _, p := range b.Phases {
		if p.N > maxN {
			maxN = p.N
		}
	}
	switch {
	case maxN > 10000:
		r.Count("burst-max", ">10000")
	case maxN > 1024:
		r.Count("burst-max", "1025..10000")
	default:
		r.Count("burst-max", "<=1024")
	}
	if mlen != llen {
		r.Violate("map-fifo-size-differ", "impl-oracle", fmt.Sprintf("map holds %d entries but fifo %d after %s", mlen, llen, key), b)
	}
	if o := runOracle(c); o != ans {
		i := 0
		for i < len(o) && o[i] == ans[i] {
			i++
		}
		r.Violate("answers-differ-from-expiring-set", "impl-oracle",
			fmt.Sprintf("%s (%d operations): first difference at operation %d (value %d): implementation answered %c, an expiring set answers %c", key, len(c.Ops), i, c.Ops[i].V, ans[i], o[i]), b)
		return
	}
	if len(c.Ops) <= 3000 {
		r.Validated(1)
		if rep, want := d.Call("%s", opLine(c)), fmt.Sprintf("%s %d", ans, llen); rep != want {
			r.Violate("model-impl-disagree", "correspondence", fmt.Sprintf("%s: implementation and Lean model disagree (impl fifo %d)", key, llen), b)
		}
	}
}

func bursts(r *vlib.Run, d *vlib.Driver, rng *vlib.Rng) {
	const ttl = 1000000
	// fixed shapes: whole burst expired / nothing expired / half expired, sizes across 1024
	for _, n := range []int{3, 40, 700, 1023, 1024, 1025, 1500, 5000, 30000} {
		for _, ord := range []string{"latest-first", "earliest-first", "strided"} {
			rp := 200
			burstCheck(r, d, burstCase{TTL: ttl, Burst: true, Phases: []phase{{n, ttl, ord, rp}, {7, 0, "earliest-first", 7}}})
			burstCheck(r, d, burstCase{TTL: ttl, Burst: true, Phases: []phase{{n, ttl - int64(n) - 5, ord, rp}}})
			burstCheck(r, d, burstCase{TTL: ttl, Burst: true, Phases: []phase{{n, ttl - int64(n)/2, ord, rp}, {n / 3, ttl / 2, ord, rp}}})
		}
	}
	for i, n := 0, r.Scale(20, 300); i < n; i++ {
		b := burstCase{TTL: ttl, Burst: true}
		total := 0
		for j, np := 0, rng.Range(1, 4); j < np && total < 70000; j++ {
			sz := vlib.Pick(rng, []int{rng.Range(1, 60), rng.Range(900, 1200), rng.Range(1025, 4000), rng.Range(4000, 30000)})
			total += sz
			gap := vlib.Pick(rng, []int64{0, ttl / 2, ttl - int64(sz), ttl - int64(sz)/2, ttl - 1, ttl, ttl + 1, 3 * ttl})
			if gap < 0 {
				gap = 0
			}
			b.Phases = append(b.Phases, phase{sz, gap, vlib.Pick(rng, []string{"latest-first", "earliest-first", "strided"}), rng.Range(1, 300)})
		}
		burstCheck(r, d, b)
	}
}

// capacityThenTimeOracle: implementation-only. The filter is filled to exactly its capacity
// (and, second shape, beyond it) within one TTL; then the clock makes a step of at least the TTL,
// or a step backwards behind every entry. From the property text: after the TTL every old value
// is forgotten ("forgets them afterwards") and after a backwards jump everything is discarded —
// being at capacity changes neither. So an old value far from the eldest is "new" again, and the
// filter then holds exactly that one entry.
func capacityThenTimeOracle(r *vlib.Run) {
	const capN = 102400
	ttl := 3 * time.Hour
	for _, sh := range []struct {
		name  string
		extra int
		step  time.Duration
	}{{"full-then-ttl", 0, ttl}, {"overfull-then-ttl", 37, ttl + time.Second}, {"full-then-backwards", 0, -time.Hour}, {"overfull-then-backwards", 37, -time.Hour}, {"full-then-steady", 0, time.Second}} {
		f, _ := replayfilter.New(ttl)
		now := base.Add(time.Hour)
		n := capN + sh.extra
		for i := 0; i < n; i++ {
			now = now.Add(time.Nanosecond)
			f.TestAndSet(now, valBytes(i))
		}
		now = now.Add(sh.step)
		probe := n - 5000 // far from the eldest entries, still remembered before the step
		seen := f.TestAndSet(now, valBytes(probe))
		m, l := replayfilter.VerifLen(f)
		r.Case("capacity-then-time-"+sh.name, true)
		r.Count("class", "capacity-then-time-"+sh.name)
		rp := map[string]interface{}{"capacityThenTime": true}
		if sh.name == "full-then-steady" {
			if !seen {
				r.Violate("capacity-evicted-young-entry", "impl-oracle", fmt.Sprintf("%s: filter at capacity, clock +1s: value %d (far from the oldest, younger than the TTL) is no longer remembered", sh.name, probe), rp)
			}
			continue
		}
		if seen {
			r.Violate("full-filter-ignores-time", "impl-oracle", fmt.Sprintf("%s: %d distinct values within one TTL, then a clock step of %v: value %d is still reported as seen (at capacity the filter must expire / discard exactly as below capacity)", sh.name, n, sh.step, probe), rp)
			continue
		}
		if m != 1 || l != 1 {
			r.Violate("full-filter-ignores-time", "impl-oracle", fmt.Sprintf("%s: %d distinct values within one TTL, then a clock step of %v and one submission: the filter holds map=%d fifo=%d entries, expected 1 (everything else expired / was discarded)", sh.name, n, sh.step, m, l), rp)
			continue
		}
		// and the survivors' neighbours are forgotten too
		if f.TestAndSet(now, valBytes(probe+1)) {
			r.Violate("full-filter-ignores-time", "impl-oracle", fmt.Sprintf("%s: value %d still remembered after the step", sh.name, probe+1), rp)
		}
	}
}

func main() {
	r := vlib.NewRun("C11")
	r.Rule = "history = list of (time step, value); exhaustive over all histories up to the tier's length over 3 values x time steps {-2,0,1,ttl-1,ttl} (ttl=4), then random long histories incl. negative steps; non-trivial = a value repeats AND (an expiry/reset made a repeat 'new' OR a backwards step occurs); distinct by canonical op line"
	r.Assumptions = []string{"SipHash digest collisions between distinct generated values (2^-64) ignored",
		"sync.Mutex serialises TestAndSet (structural fact; sampled with 16 goroutines)"}
	d := r.Driver("rf")
	defer d.Close()

	if r.ReplayIn != "" {
		var raw map[string]interface{}
		var c hcase
		var bc burstCase
		if err := r.LoadReplay(&raw); err == nil && raw["burst"] == true {
			if err := r.LoadReplay(&bc); err == nil {
				burstCheck(r, d, bc)
			}
		} else if raw["concurrent"] == true {
			concurrent(r, 2000)
		} else if raw["capacityOracle"] == true {
			capacityOracle(r)
		} else if raw["capacityThenTime"] == true {
			capacityThenTimeOracle(r)
		} else if raw["resetThenFill"] == true {
			resetThenFillOracle(r)
		} else if raw["capacity"] == true {
			capacity(r, d)
		} else if err := r.LoadReplay(&c); err == nil {
			check(r, d, c)
		}
		r.Finish()
	}

	const ttl = 4
	deltas := []int64{-2, 0, 1, ttl - 1, ttl}
	maxLen := 4
	if r.Thorough() {
		maxLen = 5
	}
	enumerate(r, d, ttl, maxLen, deltas, 3)
	r.Exhaustive = true
	r.Notes["exhaustive_space"] = fmt.Sprintf("all histories of length 1..%d over 3 values x 5 time steps, ttl=%d", maxLen, ttl)

	// random long histories, several TTLs (incl. ttl<=0 which purges everything)
	rng := vlib.NewRng(r.Seed)
	nrand := r.Scale(3000, 60000)
	for i := 0; i < nrand; i++ {
		c := hcase{TTL: vlib.Pick(rng, []int64{-1, 0, 1, 2, 5, 17, 100})}
		n := rng.Range(5, 60)
		nv := rng.Range(1, 8)
		backw := rng.Intn(4) == 0
		for j := 0; j < n; j++ {
			dt := int64(rng.Intn(int(c.TTL)*2 + 3))
			if backw && rng.Intn(8) == 0 {
				dt = -int64(rng.Intn(40))
			}
			c.Ops = append(c.Ops, op{dt, rng.Intn(nv)})
		}
		check(r, d, c)
	}
	bursts(r, d, rng)
	concurrent(r, r.Scale(2000, 20000))
	capacityOracle(r)
	resetThenFillOracle(r)
	capacityThenTimeOracle(r)
	if r.Thorough() {
		capacity(r, d)
	}
	r.Finish()
}
