// C05 — obfs4 never delivers bytes the peer did not send, however the ciphertext is altered.
//
// Two REAL endpoints (transports.Get("obfs4")) talk through the harness middlebox (o4pair),
// which rewrites the post-handshake ciphertext of one direction: bit flips, truncation,
// deletion / duplication / reordering / insertion of whole frames, byte insertion/deletion,
// splices. S oracle (from the property text): whatever was done, the bytes the victim's Read
// calls return are a prefix of what the peer wrote; no byte is delivered from the first damaged
// frame or anything after it; once the tampered bytes (followed by EOF) were fed, Read reports
// an error; nothing panics. C tie: the Lean model receiver (driver o4data) with the real link
// keys is fed the same tampered chunks; compared: concatenation of delivered bytes and the
// error class.
package main

import (
	"bytes"
	"encoding/json"
	"errors"
	"fmt"
	"os"
	"path/filepath"
	"sort"
	"strings"
	"time"

	"verif/harness/o4pair"
	"verif/harness/vlib"
)

// Tamper is one middlebox operator applied to the wire bytes W of the target burst.
type Tamper struct {
	Op   string `json:"op"`             // none|flip|trunc|delframe|dupframe|swapframes|permute|insframe|replayold|splice|delbytes|insbytes|setlen|append|peerpkt
	A    int    `json:"a,omitempty"`    // flip: bit index; trunc/delbytes/insbytes: offset; frame ops: frame index
	B    int    `json:"b,omitempty"`    // delbytes/insbytes/insframe: length; swapframes: second index
	Seed uint64 `json:"seed,omitempty"` // random filler
	Perm []int  `json:"perm,omitempty"` // permute: new order of the first len(Perm) frames
}

type Case struct {
	Name    string         `json:"name"`
	P       o4pair.Params  `json:"params"`
	Dir     int            `json:"dir"`                  // victim direction: 0 tamper client→server, 1 server→client
	Warm    [][]int        `json:"warm,omitempty"`       // honest bursts in the victim direction before the target (Write sizes)
	WarmOth []int          `json:"warm_other,omitempty"` // one honest burst in the other direction
	Writes  []int          `json:"writes"`               // the target burst
	T       Tamper         `json:"tamper"`
	Chunk   o4pair.Chunker `json:"chunk"`
	ReadSz  []int          `json:"read_sz"`
	End     string         `json:"end,omitempty"`   // network error after the tampered bytes: eof (default) | timeout | other
	Joint   bool           `json:"joint,omitempty"` // the last chunk and the error are returned by the SAME underlying Read (n > 0, err != nil)
	Persist int            `json:"persist,omitempty"`
	// handshake family: the server writes Early right after WrapConn; the tamper is applied to
	// everything that follows its handshake response (inline seed frame ‖ early data frames) and
	// response ‖ tampered bytes are released to the client cut by Chunk ("respat" N = one cut N
	// bytes after the end of the response, "whole" = ONE segment)
	Early []int `json:"early,omitempty"`
	// full-duplex family: nothing is tampered with; both endpoints read and write at once
	Duplex *o4pair.DuplexOpts `json:"duplex,omitempty"`
	// on-path key recovery: every 32-byte window of both public handshake flights is tried as
	// KEY_SEED against the first real frames; plus the ntor output tie (driver ntor)
	KeyRec bool `json:"keyrec,omitempty"`
	// cross-connection histories in one process (replay of recorded frames into another
	// connection; connections closed with undelivered data followed by new connections)
	Multi []MConn `json:"multi,omitempty"` // the caller keeps calling Read after the first error: so many more error-returning Reads
}

type verdict struct {
	Sig  string `json:"sig"`
	Desc string `json:"desc"`
}

type Job struct {
	Case   Case   `json:"case"`
	Origin string `json:"origin"`
}

type Outcome struct {
	Case        Case           `json:"case"`
	Skipped     string         `json:"skipped,omitempty"`
	F2Retries   int            `json:"f2_retries"`
	V           *verdict       `json:"verdict,omitempty"`
	TieV        *verdict       `json:"tie_verdict,omitempty"` // model/implementation disagreement (the S oracle goes on)
	Stats       map[string]int `json:"stats"`
	Class       string         `json:"class"`     // what the tamper amounted to
	ErrClass    string         `json:"err_class"` // error class Read reported
	TieOK       int            `json:"tie_ok"`
	TieDriver   bool           `json:"tie_driver"`
	WorkerError string         `json:"worker_error,omitempty"`
	WallMs      int64          `json:"wall_ms"`
	Resolved    Tamper         `json:"resolved"` // the tamper with its "auto" (A < 0) arguments resolved
}

// resolveTamper fixes the arguments of a tamper generated before the wire length and frame
// count of the target burst were known (A < 0): they derive from t.Seed and the actual layout.
func resolveTamper(t Tamper, wl, nf int) Tamper {
	if t.A >= 0 || t.Op == "none" {
		return t
	}
	rng := vlib.NewRng(t.Seed ^ 0x51)
	none := Tamper{Op: "none"}
	switch t.Op {
	case "flip":
		if wl == 0 {
			return none
		}
		t.A = rng.Intn(wl * 8)
	case "trunc":
		if wl == 0 {
			return none
		}
		t.A = rng.Intn(wl)
	case "delframe", "dupframe", "setlen":
		if nf == 0 {
			return none
		}
		t.A = rng.Intn(nf)
	case "swapframes":
		if nf < 2 {
			return none
		}
		t.A = rng.Intn(nf - 1)
		t.B = t.A + 1 + rng.Intn(nf-1-t.A)
	case "insframe", "replayold", "splice":
		t.A = rng.Intn(nf + 1)
		if t.Op == "splice" {
			t.B = rng.Intn(2)
		}
		if t.Op == "replayold" {
			t.B = 0
		}
	case "delbytes":
		if wl == 0 {
			return none
		}
		if t.B > wl {
			t.B = wl
		}
		t.A = rng.Intn(wl - t.B + 1)
	case "insbytes":
		t.A = rng.Intn(wl + 1)
	case "permute":
		n := nf
		if n > 4 {
			n = 4
		}
		if n < 2 {
			return none
		}
		t.Perm = make([]int, n)
		for i := range t.Perm {
			t.Perm[i] = i
		}
		for i := n - 1; i > 0; i-- {
			j := rng.Intn(i + 1)
			t.Perm[i], t.Perm[j] = t.Perm[j], t.Perm[i]
		}
		if t.Perm[0] == 0 && sortedInts(t.Perm) {
			t.Perm[0], t.Perm[1] = t.Perm[1], t.Perm[0]
		}
		t.A = 0
	default:
		t.A = 0
	}
	return t
}

func sortedInts(p []int) bool {
	for i := 1; i < len(p); i++ {
		if p[i-1] > p[i] {
			return false
		}
	}
	return true
}

type runner struct {
	d    *vlib.Driver
	ntor *vlib.Driver // Lean ntor model (C08's driver), for the KEY_SEED/AUTH tie
}

var workerRunner *runner

func handle(jobJSON []byte, driverBin string) []byte {
	if workerRunner == nil {
		workerRunner = &runner{d: o4pair.StartModelDriverAt(driverBin), ntor: o4pair.StartDriverAt(driverBin, "ntor")}
	}
	var j Job
	var o Outcome
	if err := json.Unmarshal(jobJSON, &j); err != nil {
		o.WorkerError = "bad job: " + err.Error()
		b, _ := json.Marshal(o)
		return b
	}
	c := j.Case
	t0 := time.Now()
	for attempt := 0; ; attempt++ {
		o.Stats = map[string]int{}
		o.V, o.TieV, o.Skipped = nil, nil, ""
		workerRunner.runCase(c, &o)
		if o.Skipped != "F2" || j.Origin != "generated" || attempt >= 5 {
			break
		}
		o.F2Retries++
		rr := vlib.NewRng(c.P.TapeSeed + 77)
		c.P = o4pair.RandomParams(rr, c.P.IAT, c.P.Biased)
	}
	o.WallMs = time.Since(t0).Milliseconds()
	o.Case = c
	if o.Resolved.Op != "" {
		o.Case.T = o.Resolved
	}
	o.TieDriver = workerRunner.d != nil
	b, _ := json.Marshal(o)
	return b
}

func isF2(p interface{}) bool {
	s, ok := p.(string)
	return ok && s == "BUG: Write(), iat length was 0"
}

// applyTamper returns the tampered wire bytes. frames are the frames of w (offsets relative
// to w); old is earlier ciphertext of the same direction, oth ciphertext of the other direction.
func applyTamper(t Tamper, w []byte, frames []o4pair.Frame, old, oth []byte) []byte {
	rng := vlib.NewRng(t.Seed ^ 0x7A3)
	cp := func(b []byte) []byte { return append([]byte(nil), b...) }
	fr := func(i int) []byte { return w[frames[i].Start:frames[i].End] }
	cat := func(parts ...[]byte) []byte {
		var out []byte
		for _, p := range parts {
			out = append(out, p...)
		}
		return out
	}
	nf := len(frames)
	switch t.Op {
	case "flip":
		if t.A/8 < len(w) && t.A >= 0 {
			o := cp(w)
			o[t.A/8] ^= 1 << uint(t.A%8)
			return o
		}
	case "trunc":
		if t.A >= 0 && t.A < len(w) {
			return cp(w[:t.A])
		}
	case "delframe":
		if t.A < nf {
			return cat(w[:frames[t.A].Start], w[frames[t.A].End:])
		}
	case "dupframe":
		if t.A < nf {
			return cat(w[:frames[t.A].End], fr(t.A), w[frames[t.A].End:])
		}
	case "swapframes":
		if t.A < t.B && t.B < nf {
			return cat(w[:frames[t.A].Start], fr(t.B), w[frames[t.A].End:frames[t.B].Start], fr(t.A), w[frames[t.B].End:])
		}
	case "permute":
		if len(t.Perm) <= nf && len(t.Perm) > 0 {
			var out []byte
			for _, i := range t.Perm {
				if i < 0 || i >= nf {
					return cp(w)
				}
				out = append(out, fr(i)...)
			}
			return cat(out, w[frames[len(t.Perm)-1].End:])
		}
	case "insframe": // a forged frame of B random bytes at frame boundary A
		if t.A <= nf {
			at := len(w)
			if t.A < nf {
				at = frames[t.A].Start
			}
			n := t.B
			if n < 1 {
				n = 1
			}
			return cat(w[:at], rng.Bytes(n), w[at:])
		}
	case "replayold": // an old genuine frame of the same direction re-inserted at frame boundary A
		if t.A <= nf && len(old) > 0 {
			at := len(w)
			if t.A < nf {
				at = frames[t.A].Start
			}
			n := t.B
			if n <= 0 || n > len(old) {
				n = len(old)
			}
			return cat(w[:at], old[:n], w[at:])
		}
	case "splice": // from frame boundary A on, the stream continues with foreign ciphertext
		if t.A <= nf {
			at := len(w)
			if t.A < nf {
				at = frames[t.A].Start
			}
			src := oth
			if t.B == 1 || len(src) == 0 {
				src = old
			}
			if len(src) == 0 {
				src = rng.Bytes(64)
			}
			return cat(w[:at], src)
		}
	case "delbytes":
		if t.A >= 0 && t.B > 0 && t.A+t.B <= len(w) {
			return cat(w[:t.A], w[t.A+t.B:])
		}
	case "insbytes":
		if t.A >= 0 && t.A <= len(w) && t.B > 0 {
			return cat(w[:t.A], rng.Bytes(t.B), w[t.A:])
		}
	case "setlen": // overwrite the obfuscated length field of frame A
		if t.A < nf {
			o := cp(w)
			v := rng.Bytes(2)
			if v[0] == o[frames[t.A].Start] && v[1] == o[frames[t.A].Start+1] {
				v[1] ^= 0x40
			}
			copy(o[frames[t.A].Start:], v)
			return o
		}
	case "append":
		n := t.B
		if n < 1 {
			n = 1
		}
		return cat(w, rng.Bytes(n))
	}
	return cp(w)
}

// runHS: tampering that reaches the client in the reads that complete its handshake.
func (x *runner) runHS(c Case, o *Outcome) {
	rng := vlib.NewRng(c.P.TapeSeed ^ 0xD1CE)
	var want []byte
	var early [][]byte
	for _, n := range c.Early {
		b := rng.Bytes(n)
		want = append(want, b...)
		early = append(early, b)
	}
	var frames []o4pair.Frame
	var w, tw []byte
	shadowBad := ""
	end := c.End
	if end == "" {
		end = "eof"
	}
	pr, err := o4pair.Setup(c.P, o4pair.SetupOpts{Hello: o4pair.Chunker{Kind: "whole"}, Resp: c.Chunk, Early: early,
		AllowClientFail: true, EndAfterPost: end,
		TamperPost: func(pr *o4pair.Pair, post []byte) []byte {
			w = post
			sh := o4pair.NewShadow(pr.Keys[o4pair.S2C])
			if sh == nil {
				shadowBad = "no link keys: " + pr.KeyErr
				tw = post
				return post
			}
			frames = sh.Feed(post)
			if sh.Err != nil || len(frames) == 0 || frames[len(frames)-1].End != len(post) {
				shadowBad = fmt.Sprintf("shadow decoder: err %v, %d frames, %d bytes", sh.Err, len(frames), len(post))
				tw = post
				return post
			}
			c.T = resolveTamper(c.T, len(post), len(frames))
			o.Resolved = c.T
			tw = applyTamper(c.T, post, frames, nil, nil)
			if c.T.Op == "peerpkt" {
				// a peer-sealed malformed packet in front of the first data frame
				if evil, err := o4pair.ForgeFrame(pr.Keys[o4pair.S2C], 1, peerPacket(c.T)); err == nil && len(frames) > 1 {
					tw = append(append(append([]byte(nil), post[:frames[0].End]...), evil...), post[frames[0].End:]...)
				}
			}
			return tw
		}})
	if errors.Is(err, o4pair.ErrF2) {
		o.Skipped = "F2"
		return
	}
	if err != nil {
		o.V = &verdict{"handshake-failed", err.Error()}
		return
	}
	defer pr.Close()
	if shadowBad != "" {
		o.V = &verdict{"tie-shadow-decoder-failed", shadowBad}
		return
	}
	o.Stats["frames"] = len(frames)
	fd := 0
	for fd < len(w) && fd < len(tw) && w[fd] == tw[fd] {
		fd++
	}
	tampered := !(len(w) == len(tw) && fd == len(w))
	allowed, dmg := 0, len(frames)
	for i, f := range frames {
		if fd < f.End {
			dmg = i
			break
		}
		allowed += f.PayloadLen()
	}
	switch {
	case !tampered:
		o.Class = "untampered"
	case len(tw) < len(w) && fd == len(tw):
		o.Class = "truncated"
	case fd == len(w):
		o.Class = "appended"
	default:
		o.Class = "altered"
	}
	o.Stats["first-diff"] = fd
	o.Stats["damaged-frame"] = dmg
	o.Stats["surplus"] = len(pr.Surplus)
	if fd < len(pr.Surplus) {
		o.Stats["damage-in-handshake-read"] = 1
	}
	model := o4pair.NewModelIf(x.d, pr)
	defer model.Close()
	model.Start()
	model.Fail(o4pair.S2C, end)
	dn := "s2c(handshake)"

	if pr.ClientErr != nil {
		// Dial failed: the damage was reported before anything could be delivered
		o.ErrClass = "dial:" + o4pair.ErrClass(pr.ClientErr)
		if !tampered {
			o.V = &verdict{"honest-handshake-failed", fmt.Sprintf("untampered response ‖ data: Dial failed with %v", pr.ClientErr)}
			return
		}
		if model != nil {
			switch {
			case model.HandshakeErr == "" && !model.HandshakeInv:
				o.TieV = &verdict{"tie-handshake-outcome-differs", fmt.Sprintf("after %s: implementation: Dial failed with %v; model: the handshake completes", c.T.Op, pr.ClientErr)}
			case model.HandshakeErr != "" && !model.HandshakeInv && model.HandshakeErr != o4pair.ErrClass(pr.ClientErr):
				o.TieV = &verdict{"tie-error-differs", fmt.Sprintf("after %s: Dial failed with %v, model handshake error class %q", c.T.Op, pr.ClientErr, model.HandshakeErr)}
			default:
				o.TieOK++
			}
		}
		return
	}
	if model != nil && model.HandshakeErr != "" {
		o.TieV = &verdict{"tie-handshake-outcome-differs", fmt.Sprintf("after %s: the model's client handshake fails with %q on the bytes that arrived with the response; the implementation's Dial succeeded", c.T.Op, model.HandshakeErr)}
	}
	rdIdx := 0
	next := func() int {
		if len(c.ReadSz) == 0 {
			return 32768
		}
		n := c.ReadSz[rdIdx%len(c.ReadSz)]
		rdIdx++
		return n
	}
	rd := pr.Reader(o4pair.S2C)
	blocked := rd.Drain(next)
	o.ErrClass = o4pair.ErrClass(rd.Err)
	o.Stats["delivered-of-target"] = len(rd.Got)
	check := func(phase string) {
		switch {
		case rd.Panic != nil:
			o.V = &verdict{"panic-in-read", fmt.Sprintf("%s: Read panicked (%s, %s): %v", dn, c.T.Op, phase, rd.Panic)}
		case rd.Stuck:
			o.V = &verdict{"read-stuck", fmt.Sprintf("%s: Read neither returned nor blocked (%s, %s)", dn, c.T.Op, phase)}
		case !bytes.HasPrefix(want, rd.Got):
			o.V = &verdict{"delivered-not-a-prefix", fmt.Sprintf("%s: after %s of the bytes coalesced with the handshake response (first altered offset %d after the response, frame %d; %d of them in the handshake read) the client delivered %d bytes that are not a prefix of the %d written (%s)", dn, c.T.Op, fd, dmg, len(pr.Surplus), len(rd.Got), len(want), phase)}
		case tampered && phase == "first error" && len(rd.Got) > allowed:
			o.V = &verdict{"delivered-past-damaged-frame", fmt.Sprintf("%s: after %s of the bytes coalesced with the handshake response the first damaged frame is #%d (offset %d after the response, %d bytes were in the handshake read); intact data before it: %d bytes; delivered: %d bytes; errors reported: %v %v (%s)", dn, c.T.Op, dmg, fd, len(pr.Surplus), allowed, len(rd.Got), rd.Errs, rd.Err, phase)}
		case blocked || rd.Err == nil:
			o.V = &verdict{"no-error-reported", fmt.Sprintf("%s: after %s followed by %s, Read reported no error (%s)", dn, c.T.Op, end, phase)}
		}
	}
	check("first error")
	if o.V == nil && o.Class == "altered" && dmg < len(frames) && len(tw)-frames[dmg].Start >= 2+1446+64 && c.T.Op != "peerpkt" && strings.HasPrefix(o.ErrClass, "net:") {
		o.V = &verdict{"damage-unnoticed", fmt.Sprintf("%s: after %s (frame %d, offset %d after the response, %d bytes in the handshake read) with %d bytes fed from the damaged frame on, Dial succeeded and Read reported only the network error (%s)", dn, c.T.Op, dmg, fd, len(pr.Surplus), len(tw)-frames[dmg].Start, o.ErrClass)}
	}
	if o.V != nil {
		return
	}
	if o.TieV == nil {
		if sig, desc := model.Compare(o4pair.S2C, rd, blocked); sig != "" {
			o.TieV = &verdict{"tie-" + sig, fmt.Sprintf("%s after %s: %s", dn, c.T.Op, desc)}
		}
		o.TieOK += model.Points()
	}
	persist := c.Persist
	if o.TieV != nil && persist == 0 {
		persist = 2
	}
	if !tampered {
		persist = 1 + 2*(len(want)-len(rd.Got))
	}
	for k := 0; k < persist && (tampered || len(rd.Got) < len(want)); k++ {
		before := len(rd.Got)
		rd.Resume()
		blocked = rd.Drain(next)
		check(fmt.Sprintf("Read #%d after the error", k+1))
		if o.V != nil {
			return
		}
		if !tampered && len(rd.Got) == before {
			break
		}
	}
	if !tampered && !bytes.Equal(rd.Got, want) {
		o.V = &verdict{"honest-stream-not-delivered", fmt.Sprintf("%s: untampered data coalesced with the handshake: %d of %d bytes ever delivered", dn, len(rd.Got), len(want))}
	}
}

// MConn is one connection of a cross-connection history.
type MConn struct {
	NewFactory bool    `json:"new_factory,omitempty"` // a different bridge (new server factory); the first connection always makes one
	FreshArgs  bool    `json:"fresh_args,omitempty"`  // re-parse the client args (new client session key); else the previous args object is dialled again
	Steps      []MStep `json:"steps"`
}

// MStep kinds: "x" honest exchange (Dir writes Sizes, delivered and read completely, the wire
// bytes recorded as Tag) | "partial" (Dir writes Sizes, all delivered, the reader does ONE Read of
// ReadN bytes and stops: decoded payload stays unread) | "inject" (the wire bytes recorded on
// connection From under Tag are delivered into Dir, then EOF) | "close" (Close() on both obfs4
// endpoints).
type MStep struct {
	Kind  string `json:"kind"`
	Dir   int    `json:"dir"`
	Sizes []int  `json:"sizes,omitempty"`
	Tag   string `json:"tag,omitempty"`
	From  int    `json:"from,omitempty"`
	ReadN int    `json:"read_n,omitempty"`
}

func (x *runner) runMulti(c Case, o *Outcome) {
	o.Class, o.ErrClass = "cross-connection", "none"
	var fac *o4pair.Factory
	var facs []*o4pair.Factory
	var cargs interface{}
	defer func() {
		for _, f := range facs {
			f.Close()
		}
	}()
	recs := map[string][]byte{}
	var allWritten [][2][]byte // per connection, per direction: what the peer wrote (distinctive content)
	var pairs []*o4pair.Pair
	defer func() {
		for _, p := range pairs {
			p.Close()
		}
	}()
	whose := func(sample []byte, self int) string {
		if len(sample) < 8 {
			return "unknown origin"
		}
		for i, w := range allWritten {
			for d := 0; d < 2; d++ {
				if bytes.Contains(w[d], sample[:8]) {
					if i == self {
						return fmt.Sprintf("this connection's own %s stream", o4pair.DirName(d))
					}
					return fmt.Sprintf("the %s plaintext of connection #%d", o4pair.DirName(d), i)
				}
			}
		}
		return "no connection's plaintext"
	}
	for ci, mc := range c.Multi {
		if ci == 0 || mc.NewFactory {
			p := c.P
			p.TapeSeed += uint64(ci) * 7919
			if ci > 0 {
				pp := o4pair.RandomParams(vlib.NewRng(c.P.TapeSeed+uint64(ci)), c.P.IAT, c.P.Biased)
				pp.TapeSeed = p.TapeSeed
				p = pp
			}
			f, err := o4pair.NewFactory(p)
			if err != nil {
				o.V = &verdict{"handshake-failed", err.Error()}
				return
			}
			fac = f
			facs = append(facs, f)
			cargs = nil
		}
		if cargs == nil || mc.FreshArgs {
			a, err := fac.ParseArgs()
			if err != nil {
				o.V = &verdict{"handshake-failed", err.Error()}
				return
			}
			cargs = a
		}
		pr, err := fac.Connect(cargs, o4pair.SetupOpts{Hello: o4pair.Chunker{Kind: "whole"}, Resp: o4pair.Chunker{Kind: "whole"}})
		if errors.Is(err, o4pair.ErrF2) {
			o.Skipped = "F2"
			return
		}
		if err != nil {
			o.V = &verdict{"handshake-failed", fmt.Sprintf("connection #%d: %v", ci, err)}
			return
		}
		pairs = append(pairs, pr)
		allWritten = append(allWritten, [2][]byte{})
		rng := vlib.NewRng(c.P.TapeSeed ^ (0xC0 + uint64(ci)*0x9E37))
		dead := [2]bool{}
		// verify applies the per-connection stream oracle to direction dir of connection ci
		verify := func(dir int, what string) bool {
			rd := pr.Reader(dir)
			want := allWritten[ci][dir]
			switch {
			case rd.Panic != nil:
				o.V = &verdict{"panic-in-read", fmt.Sprintf("connection #%d %s %s: Read panicked: %v", ci, o4pair.DirName(dir), what, rd.Panic)}
			case !bytes.HasPrefix(want, rd.Got):
				k := 0
				for k < len(rd.Got) && k < len(want) && rd.Got[k] == want[k] {
					k++
				}
				e := k + 16
				if e > len(rd.Got) {
					e = len(rd.Got)
				}
				o.V = &verdict{"delivered-bytes-of-another-connection", fmt.Sprintf("connection #%d %s %s: delivered %d bytes; from offset %d on they are not what THIS connection's peer wrote (%d bytes so far): %x… is from %s",
					ci, o4pair.DirName(dir), what, len(rd.Got), k, len(want), rd.Got[k:e], whose(rd.Got[k:e], ci))}
			}
			return o.V == nil
		}
		for si, st := range mc.Steps {
			what := fmt.Sprintf("step %d (%s)", si, st.Kind)
			if st.Kind != "close" && dead[st.Dir] {
				continue
			}
			switch st.Kind {
			case "x", "partial":
				var wire []byte
				for _, n := range st.Sizes {
					b := rng.Bytes(n)
					allWritten[ci][st.Dir] = append(allWritten[ci][st.Dir], b...)
					ws, werr, pan := pr.Write(st.Dir, b)
					if pan != nil || werr != nil {
						if isF2(pan) {
							o.Skipped = "F2"
						} else {
							o.V = &verdict{"write-error", fmt.Sprintf("connection #%d %s Write(%d): %v %v", ci, o4pair.DirName(st.Dir), n, werr, pan)}
						}
						return
					}
					for _, w := range ws {
						wire = append(wire, w...)
					}
				}
				if st.Tag != "" {
					recs[fmt.Sprintf("%d/%s", ci, st.Tag)] = wire
				}
				pr.Deliver(st.Dir, wire, nil)
				rd := pr.Reader(st.Dir)
				if st.Kind == "partial" {
					rd.ReadOnce(st.ReadN)
					dead[st.Dir] = true
					if !verify(st.Dir, what) {
						return
					}
					o.Stats["partial-reads"]++
					continue
				}
				blocked := rd.Drain(func() int { return 32768 })
				if !verify(st.Dir, what) {
					return
				}
				if !blocked || rd.Err != nil || len(rd.Got) != len(allWritten[ci][st.Dir]) {
					o.V = &verdict{"honest-stream-not-delivered", fmt.Sprintf("connection #%d %s %s: %d of %d bytes, err %v", ci, o4pair.DirName(st.Dir), what, len(rd.Got), len(allWritten[ci][st.Dir]), rd.Err)}
					return
				}
				o.Stats["honest-exchanges"]++
			case "inject":
				wire := recs[fmt.Sprintf("%d/%s", st.From, st.Tag)]
				if len(wire) == 0 {
					continue
				}
				rd := pr.Reader(st.Dir)
				before := len(rd.Got)
				pr.Deliver(st.Dir, wire, nil)
				pr.EOF(st.Dir)
				rd.Drain(func() int { return 32768 })
				dead[st.Dir] = true
				o.Stats["injections"]++
				if rd.Panic != nil {
					o.V = &verdict{"panic-in-read", fmt.Sprintf("connection #%d: Read panicked on frames recorded on connection #%d: %v", ci, st.From, rd.Panic)}
					return
				}
				if len(rd.Got) > before {
					e := before + 16
					if e > len(rd.Got) {
						e = len(rd.Got)
					}
					o.V = &verdict{"cross-connection-replay-accepted", fmt.Sprintf("the %s frames recorded on connection #%d (%q, %d wire bytes) were injected at the same frame position into connection #%d (same server factory: %v, same client args object: %v): its Read DELIVERED %d bytes its own peer never sent (%x… = %s); error reported: %v",
						o4pair.DirName(st.Dir), st.From, st.Tag, len(wire), ci, !mc.NewFactory, !mc.FreshArgs, len(rd.Got)-before, rd.Got[before:e], whose(rd.Got[before:e], ci), rd.Err)}
					return
				}
				if rd.Err == nil {
					o.V = &verdict{"no-error-reported", fmt.Sprintf("connection #%d: foreign frames from connection #%d followed by EOF: no error", ci, st.From)}
					return
				}
				o.ErrClass = o4pair.ErrClass(rd.Err)
			case "close":
				pr.CloseEndpoints()
				dead = [2]bool{true, true}
				o.Stats["closes"]++
			}
		}
	}
}

// runKeyRec: an adversary who only SEES the wire must not be able to derive the frame keys.
func (x *runner) runKeyRec(c Case, o *Outcome) {
	pr, err := o4pair.Setup(c.P, o4pair.SetupOpts{Hello: o4pair.Chunker{Kind: "whole"}, Resp: o4pair.Chunker{Kind: "whole"}})
	if errors.Is(err, o4pair.ErrF2) {
		o.Skipped = "F2"
		return
	}
	if err != nil {
		o.V = &verdict{"handshake-failed", err.Error()}
		return
	}
	defer pr.Close()
	o.Class, o.ErrClass = "on-path-key-recovery", "none"
	if pr.Keys[0] == nil {
		o.V = &verdict{"tie-no-link-keys", "cannot derive the link keys of the real connection: " + pr.KeyErr}
		return
	}
	rng := vlib.NewRng(c.P.TapeSeed ^ 0xD1CE)
	sent := rng.Bytes(64)
	ws, werr, pan := pr.Write(o4pair.C2S, sent)
	if pan != nil || werr != nil {
		if isF2(pan) {
			o.Skipped = "F2"
			return
		}
		o.V = &verdict{"write-error", fmt.Sprintf("c2s Write(64): %v %v", werr, pan)}
		return
	}
	var first [2][]byte
	for _, w := range ws {
		first[o4pair.C2S] = append(first[o4pair.C2S], w...)
	}
	first[o4pair.S2C] = pr.PostResp
	// the oracle's own sanity: the true keys do open those frames
	for d := 0; d < 2; d++ {
		if _, ok := o4pair.OpensFirstFrame(pr.Keys[d], first[d]); !ok {
			o.V = &verdict{"tie-key-recovery-selftest-failed", fmt.Sprintf("the real %s key does not open the first %s frame with the oracle's routine", o4pair.DirName(d), o4pair.DirName(d))}
			return
		}
	}
	// tie: the real ntor outputs against the Lean ntor model on the same inputs
	if x.ntor != nil && pr.Ntor.KeySeed != nil {
		n := pr.Ntor
		rep := x.ntor.Call("cli %s %s %s %s %s", vlib.Hex(n.XPriv), vlib.Hex(n.X), vlib.Hex(n.Y), vlib.Hex(n.B), vlib.Hex(n.ID))
		okS := "0"
		if n.OK {
			okS = "1"
		}
		want := fmt.Sprintf("%s %s %s", okS, vlib.Hex(n.KeySeed), vlib.Hex(n.Auth))
		if rep != want {
			o.TieV = &verdict{"tie-ntor-output-differs", fmt.Sprintf("ntor.ClientHandshake on the session's inputs: implementation (ok KEY_SEED AUTH) %q, Lean ntor model %q", want, rep)}
		} else {
			o.TieOK++
		}
		if bytes.Equal(n.KeySeed, n.Auth) {
			o.V = &verdict{"session-keys-derivable-from-public-transcript", "KEY_SEED equals AUTH, which the server sends in the clear"}
		}
	}
	hits, tried := o4pair.RecoverKeys(map[string][]byte{"request": pr.HelloWire, "response": pr.RespWire}, first)
	o.Stats["windows-tried"] = tried
	if len(hits) > 0 {
		h := hits[0]
		field := ""
		if h.Flight == "response" {
			switch {
			case h.Off == 0:
				field = " = the server's Elligator representative Y'"
			case h.Off == 32:
				field = " = the ntor AUTH tag the server sends in the clear"
			}
		}
		// demonstrate: forge a frame with the recovered key and see whether the victim delivers it
		forged := rng.Bytes(32)
		pkt := append([]byte{0, 0, byte(len(forged))}, forged...)
		sh := o4pair.NewShadow(pr.Keys[h.Dir])
		sh.Feed(first[h.Dir])
		accepted := "not attempted"
		if fr, err := o4pair.ForgeFrame(h.Key, len(sh.Frames), pkt); err == nil {
			wire := first[h.Dir]
			if h.Dir == o4pair.S2C {
				wire = nil // the client already consumed the seed frame with the handshake
			}
			pr.Deliver(h.Dir, append(append([]byte(nil), wire...), fr...), nil)
			rd := pr.Reader(h.Dir)
			rd.Drain(func() int { return 32768 })
			if bytes.HasSuffix(rd.Got, forged) {
				accepted = fmt.Sprintf("DELIVERED by the victim's Read (%d forged bytes the peer never sent)", len(forged))
			} else {
				accepted = fmt.Sprintf("not delivered (Read: %d bytes, err %v)", len(rd.Got), rd.Err)
			}
		}
		o.V = &verdict{"session-keys-derivable-from-public-transcript", fmt.Sprintf("an on-path observer recovers the frame keys: ntor.Kdf over the 32 bytes at offset %d of the %s flight%s yields a key that opens the %s (%d windows hit in total); a frame forged with it is %s",
			h.Off, h.Flight, field, h.Opens, len(hits), accepted)}
		return
	}
}

// runDuplex: honest traffic, both directions at once from real goroutines.
func (x *runner) runDuplex(c Case, o *Outcome) {
	pr, err := o4pair.Setup(c.P, o4pair.SetupOpts{Hello: o4pair.Chunker{Kind: "whole"}, Resp: o4pair.Chunker{Kind: "whole"}})
	if errors.Is(err, o4pair.ErrF2) {
		o.Skipped = "F2"
		return
	}
	if err != nil {
		o.V = &verdict{"handshake-failed", err.Error()}
		return
	}
	defer pr.Close()
	sig, desc, st := pr.Duplex(*c.Duplex)
	for k, v := range st {
		o.Stats[k] = v
	}
	o.Class = "full-duplex-honest"
	o.ErrClass = "none"
	if sig == "duplex-panic-in-write" && strings.Contains(desc, "iat length was 0") {
		o.Skipped = "F2"
		return
	}
	if sig != "" {
		o.V = &verdict{sig, desc}
	}
}

func (x *runner) runCase(c Case, o *Outcome) {
	if c.Duplex != nil {
		x.runDuplex(c, o)
		return
	}
	if c.KeyRec {
		x.runKeyRec(c, o)
		return
	}
	if len(c.Multi) > 0 {
		x.runMulti(c, o)
		return
	}
	if len(c.Early) > 0 {
		x.runHS(c, o)
		return
	}
	rng := vlib.NewRng(c.P.TapeSeed ^ 0xD1CE)
	var written [2][]byte
	gen := func(dir, n int) []byte {
		b := rng.Bytes(n)
		written[dir] = append(written[dir], b...)
		return b
	}
	pr, err := o4pair.Setup(c.P, o4pair.SetupOpts{Hello: o4pair.Chunker{Kind: "whole"}, Resp: o4pair.Chunker{Kind: "whole"}})
	if errors.Is(err, o4pair.ErrF2) {
		o.Skipped = "F2"
		return
	}
	if err != nil {
		o.V = &verdict{"handshake-failed", err.Error()}
		return
	}
	defer pr.Close()
	if pr.Keys[c.Dir] == nil {
		o.V = &verdict{"tie-no-link-keys", "cannot derive the link keys of the real connection: " + pr.KeyErr}
		return
	}
	var shadow [2]*o4pair.Shadow
	for d := 0; d < 2; d++ {
		shadow[d] = o4pair.NewShadow(pr.Keys[d])
	}
	shadow[o4pair.S2C].Feed(pr.PostResp)
	model := o4pair.NewModelIf(x.d, pr)
	defer model.Close()
	model.Start()

	var oldWire [2][]byte
	write := func(dir int, sizes []int) (wire []byte, ok bool) {
		for _, n := range sizes {
			ws, werr, pan := pr.Write(dir, gen(dir, n))
			if pan != nil {
				if isF2(pan) {
					o.Skipped = "F2"
				} else {
					o.V = &verdict{"panic-in-write", fmt.Sprintf("%s Write(%d) panicked: %v", o4pair.DirName(dir), n, pan)}
				}
				return nil, false
			}
			if werr != nil {
				o.V = &verdict{"write-error", fmt.Sprintf("%s Write(%d): %v", o4pair.DirName(dir), n, werr)}
				return nil, false
			}
			for _, w := range ws {
				wire = append(wire, w...)
			}
		}
		return wire, true
	}
	rdIdx := 0
	next := func() int {
		if len(c.ReadSz) == 0 {
			return 32768
		}
		n := c.ReadSz[rdIdx%len(c.ReadSz)]
		rdIdx++
		return n
	}
	honest := func(dir int, sizes []int) bool {
		w, ok := write(dir, sizes)
		if !ok {
			return false
		}
		shadow[dir].Feed(w)
		oldWire[dir] = append(oldWire[dir], w...)
		sz := o4pair.Chunker{Kind: "rand", Seed: c.P.TapeSeed ^ uint64(len(w))}.Split(len(w), nil)
		pr.Deliver(dir, w, sz)
		model.Deliver(dir, w, sz)
		rd := pr.Reader(dir)
		blocked := rd.Drain(func() int { return 32768 })
		if !blocked || rd.Err != nil || rd.Panic != nil || !bytes.Equal(rd.Got, written[dir]) {
			o.V = &verdict{"honest-warmup-failed", fmt.Sprintf("%s: honest burst %v not delivered exactly (got %d of %d bytes, err %v, panic %v)", o4pair.DirName(dir), sizes, len(rd.Got), len(written[dir]), rd.Err, rd.Panic)}
			return false
		}
		if sig, desc := model.Compare(dir, rd, blocked); sig != "" {
			o.V = &verdict{"tie-" + sig, "warm-up " + o4pair.DirName(dir) + ": " + desc}
			return false
		}
		o.TieOK += model.Points()
		return true
	}
	for _, b := range c.Warm {
		if !honest(c.Dir, b) {
			return
		}
	}
	if len(c.WarmOth) > 0 && !honest(1-c.Dir, c.WarmOth) {
		return
	}

	// the target burst
	w, ok := write(c.Dir, c.Writes)
	if !ok {
		return
	}
	sh := shadow[c.Dir]
	base := 0
	if n := len(sh.Frames); n > 0 {
		base = sh.Frames[n-1].End
	}
	var frames []o4pair.Frame
	for _, f := range sh.Feed(w) {
		f.Start -= base
		f.End -= base
		frames = append(frames, f)
	}
	if sh.Err != nil || (len(frames) == 0 && len(w) > 0) || (len(frames) > 0 && frames[len(frames)-1].End != len(w)) {
		o.V = &verdict{"tie-shadow-decoder-failed", fmt.Sprintf("the real framing.Decoder with the derived key does not split the honest burst into frames (err %v, %d frames, %d bytes)", sh.Err, len(frames), len(w))}
		return
	}
	o.Stats["frames"] = len(frames)
	c.T = resolveTamper(c.T, len(w), len(frames))
	o.Resolved = c.T
	tw := applyTamper(c.T, w, frames, oldWire[c.Dir], oldWire[1-c.Dir])
	acceptedForged := 0 // bytes of a peer-sealed frame the decoder legitimately accepts before the first frame that must fail
	if c.T.Op == "peerpkt" {
		// not an on-path attacker but the peer itself (it holds the link keys): a correctly
		// sealed frame with a malformed / unusual packet in place of the burst's first frame,
		// followed by the honest burst (whose nonces are then one behind)
		evil, err := o4pair.ForgeFrame(pr.Keys[c.Dir], len(sh.Frames)-len(frames), peerPacket(c.T))
		if err != nil {
			o.V = &verdict{"tie-forge-failed", err.Error()}
			return
		}
		tw = append(evil, w...)
		acceptedForged = len(evil)
	}
	// first difference and the frame it falls into
	fd := 0
	for fd < len(w) && fd < len(tw) && w[fd] == tw[fd] {
		fd++
	}
	tampered := !(len(w) == len(tw) && fd == len(w))
	preLen := len(written[c.Dir])
	for _, f := range frames {
		preLen -= f.PayloadLen()
	}
	allowed := preLen // payload bytes of intact frames preceding the first damaged one
	dmg := len(frames)
	for i, f := range frames {
		if fd < f.End {
			dmg = i
			break
		}
		allowed += f.PayloadLen()
	}
	switch {
	case !tampered:
		o.Class = "untampered"
	case len(tw) < len(w) && fd == len(tw):
		o.Class = "truncated"
	case fd == len(w):
		o.Class = "appended"
	default:
		o.Class = "altered"
	}
	o.Stats["first-diff"] = fd
	o.Stats["damaged-frame"] = dmg

	sizes := c.Chunk.Split(len(tw), frameEnds(frames))
	end := c.End
	if end == "" {
		end = "eof"
	}
	jointLen := 0 // bytes that arrive together with the network error (which then takes priority over a frame error)
	if c.Joint && len(sizes) > 0 {
		jointLen = sizes[len(sizes)-1]
		cut := len(tw) - jointLen
		pr.Deliver(c.Dir, tw[:cut], sizes[:len(sizes)-1])
		pr.FailWith(c.Dir, tw[cut:], end)
		model.Deliver(c.Dir, tw[:cut], sizes[:len(sizes)-1])
		model.FailWith(c.Dir, tw[cut:], end)
		o.Stats["joint-data+error"] = 1
	} else {
		pr.Deliver(c.Dir, tw, sizes)
		pr.Fail(c.Dir, end)
		model.Deliver(c.Dir, tw, sizes)
		model.Fail(c.Dir, end)
	}
	rd := pr.Reader(c.Dir)
	blocked := rd.Drain(next)
	o.ErrClass = o4pair.ErrClass(rd.Err)
	o.Stats["delivered-of-target"] = len(rd.Got) - preLen
	o.Stats["chunks"] = len(sizes)

	want := written[c.Dir]
	dn := o4pair.DirName(c.Dir)
	switch {
	case rd.Panic != nil:
		o.V = &verdict{"panic-in-read", fmt.Sprintf("%s: Read panicked on tampered input (%s): %v", dn, c.T.Op, rd.Panic)}
	case rd.Stuck:
		o.V = &verdict{"read-stuck", fmt.Sprintf("%s: Read neither returned nor blocked on the network (%s)", dn, c.T.Op)}
	case !bytes.HasPrefix(want, rd.Got):
		i := 0
		for i < len(rd.Got) && i < len(want) && rd.Got[i] == want[i] {
			i++
		}
		o.V = &verdict{"delivered-not-a-prefix", fmt.Sprintf("%s: after %s (first altered wire offset %d, frame %d) the victim delivered %d bytes that are not a prefix of the %d bytes its peer wrote (first difference at %d)", dn, c.T.Op, fd, dmg, len(rd.Got), len(want), i)}
	case tampered && len(rd.Got) > allowed:
		o.V = &verdict{"delivered-past-damaged-frame", fmt.Sprintf("%s: after %s the first damaged frame is #%d (wire offset %d); intact data before it: %d bytes; delivered: %d bytes (error reported: %v)", dn, c.T.Op, dmg, fd, allowed, len(rd.Got), rd.Err)}
	case blocked || rd.Err == nil:
		o.V = &verdict{"no-error-reported", fmt.Sprintf("%s: after %s followed by EOF, Read reported no error (blocked=%v, delivered %d)", dn, c.T.Op, blocked, len(rd.Got))}
	case o.Class == "altered" && dmg < len(frames) && len(tw)-jointLen-frames[dmg].Start-acceptedForged >= 2+1446 && strings.HasPrefix(o.ErrClass, "net:"):
		// the damaged frame and at least a maximum-length frame of bytes after its length field
		// were fed, yet only the EOF was reported: the damage itself went unnoticed
		o.V = &verdict{"damage-unnoticed", fmt.Sprintf("%s: after %s (frame %d) with %d bytes fed from the damaged frame on, Read reported only the network error (%s)", dn, c.T.Op, dmg, len(tw)-frames[dmg].Start, o.ErrClass)}
	}
	if o.V != nil {
		return
	}
	if sig, desc := model.Compare(c.Dir, rd, blocked); sig != "" {
		// keep going: the S oracle below may exhibit a concrete property failure
		o.TieV = &verdict{"tie-" + sig, fmt.Sprintf("%s after %s: %s", dn, c.T.Op, desc)}
		if c.Persist == 0 {
			c.Persist = 2
		}
	}
	o.TieOK += model.Points()
	if !tampered {
		// nothing lost: when the error came together with the last bytes Read hands over at most
		// len(buf) of them with it; a caller that keeps reading must get the rest
		for k := 0; k < 1+2*(len(want)-len(rd.Got)) && len(rd.Got) < len(want); k++ {
			before := len(rd.Got)
			rd.Resume()
			rd.Drain(next)
			if rd.Panic != nil || rd.Stuck || len(rd.Got) == before {
				break
			}
		}
		if !bytes.Equal(rd.Got, want) {
			o.V = &verdict{"honest-stream-not-delivered", fmt.Sprintf("%s: untampered burst ending with %s (joint=%v): %d of %d bytes ever delivered", dn, end, c.Joint, len(rd.Got), len(want))}
			return
		}
	}
	// a caller that keeps reading after the error must still never get anything but a prefix,
	// and nothing from the damaged frame on
	for k := 0; k < c.Persist && tampered; k++ {
		rd.Resume()
		rd.Drain(next)
		switch {
		case rd.Panic != nil:
			o.V = &verdict{"panic-in-read", fmt.Sprintf("%s: Read #%d after the error panicked (%s): %v", dn, k+1, c.T.Op, rd.Panic)}
		case !bytes.HasPrefix(want, rd.Got):
			o.V = &verdict{"delivered-not-a-prefix-after-error", fmt.Sprintf("%s: caller kept reading after the error (%s, damaged frame %d): delivered %d bytes that are not a prefix of the %d written", dn, c.T.Op, dmg, len(rd.Got), len(want))}
		// (only the prefix clause binds a caller that keeps reading: e.g. forged bytes of exactly the
		// pending frame length inserted between a length field and its genuine body are rejected
		// with tagMismatch, after which the genuine body still opens under the same nonce)
		case rd.Err == nil:
			o.V = &verdict{"no-error-reported", fmt.Sprintf("%s: Read #%d after the error (%s) blocked or returned no error although EOF was fed", dn, k+1, c.T.Op)}
		}
		if o.V != nil {
			return
		}
	}
	o.Stats["persist-reads"] = c.Persist
}

// peerPacket builds the packet plaintext of tamper op "peerpkt": A selects the shape.
func peerPacket(t Tamper) []byte {
	rng := vlib.NewRng(t.Seed ^ 0xE1)
	body := rng.Bytes(40)
	switch t.A % 9 {
	case 0:
		return nil // decLen 0 < packetOverhead
	case 1:
		return []byte{0} // decLen 1
	case 2:
		return []byte{0, 0} // decLen 2
	case 3:
		return append([]byte{0, 0, 41}, body...) // payload length one beyond the packet
	case 4:
		return append([]byte{0, 0xff, 0xff}, body...) // payload length 65535
	case 5:
		return append([]byte{0, 0x05, 0x97}, body...) // 1431 > any packet, within the decode buffer's capacity
	case 6:
		return append([]byte{7, 0, 40}, body...) // unknown packet type carrying 40 bytes: ignored
	case 7:
		return append([]byte{1, 0, 24}, body[:24]...) // PRNG seed packet (adopted by a client, ignored by a server)
	default:
		return append([]byte{1, 0, 23}, body[:23]...) // seed packet of the wrong length: ignored
	}
}

func frameEnds(fs []o4pair.Frame) []int {
	var out []int
	for _, f := range fs {
		out = append(out, f.End)
	}
	return out
}

// ---------------------------------------------------------------- generators

var readClasses = []int{1, 7, 100, 1427, 4096, 32768, 70000}

func pickChunker(rng *vlib.Rng) o4pair.Chunker {
	switch rng.Intn(8) {
	case 0:
		return o4pair.Chunker{Kind: "one"}
	case 1:
		return o4pair.Chunker{Kind: "bounds", N: -1}
	case 2:
		return o4pair.Chunker{Kind: "bounds", N: 0}
	case 3:
		return o4pair.Chunker{Kind: "bounds", N: 1}
	case 4:
		return o4pair.Chunker{Kind: "fixed", N: 1448}
	case 5:
		return o4pair.Chunker{Kind: "whole"}
	default:
		return o4pair.Chunker{Kind: "rand", Seed: rng.U64()}
	}
}

func pickReads(rng *vlib.Rng) []int {
	n := rng.Range(1, 2)
	out := make([]int, n)
	for i := range out {
		out[i] = vlib.Pick(rng, readClasses)
	}
	return out
}

var allChunkers = []o4pair.Chunker{{Kind: "whole"}, {Kind: "one"}, {Kind: "bounds", N: -1}, {Kind: "bounds", N: 0}, {Kind: "bounds", N: 1}, {Kind: "fixed", N: 1448}}

// fixedBase: a family of cases sharing one connection parameter set, so that the honest wire
// bytes are identical across the family and only the tamper differs.
func fixedBase(rng *vlib.Rng, name string, dir int, writes []int) Case {
	return Case{Name: name, P: o4pair.RandomParams(rng, 0, false), Dir: dir, Writes: writes,
		Chunk: o4pair.Chunker{Kind: "whole"}, ReadSz: []int{32768}}
}

func pickIAT(rng *vlib.Rng) int {
	switch rng.Intn(10) {
	case 0:
		return 1
	case 1:
		return 2
	}
	return 0
}

// genDuplex: both endpoints read and write simultaneously (one reader and one writer goroutine
// per endpoint, as the relay's copy loop does); position-dependent, direction-specific content.
func genDuplex(rng *vlib.Rng, i int, thorough bool) Case {
	iat := 0
	total := [2]int{rng.Range(1, 3) << 20, rng.Range(1, 3) << 20}
	if thorough {
		total = [2]int{rng.Range(2, 6) << 20, rng.Range(2, 6) << 20}
	}
	if i%4 == 3 {
		iat = 1 + (i/4)%2
		total = [2]int{rng.Range(40, 128) << 10, rng.Range(40, 128) << 10}
	}
	c := Case{Name: fmt.Sprintf("duplex-%d", i), P: o4pair.RandomParams(rng, iat, i%5 == 4)}
	c.Duplex = &o4pair.DuplexOpts{Total: total, Seed: rng.U64(), Rechunk: i%2 == 1,
		WSizes: [][]int{{4096}, {1, 1427, 1428, 32768, 100}, {32768}, {1448, 7, 65536}}[i%4],
		RSizes: [][]int{{32768}, {4096, 1, 70000}, {1427}, {32768, 100}}[(i/2)%4]}
	return c
}

// genXReplay: one server factory, 2-3 connections; the frames of each direction recorded on one
// connection are injected at the same frame position into a later one (right after the
// handshake, or after an equal honest prefix), client args re-parsed or the same object re-dialled.
func genXReplay(rng *vlib.Rng, i int) Case {
	c := Case{Name: fmt.Sprintf("xreplay-%d", i), P: o4pair.RandomParams(rng, 0, i%5 == 4)}
	n := 2 + i%2
	sz1 := []int{vlib.Pick(rng, []int{1, 100, 1427, 1500, 3000})}
	sz2 := []int{vlib.Pick(rng, []int{1, 64, 1427, 2000})}
	fresh := (i/2)%2 == 1
	later := (i/4)%2 == 1 // inject at a later position: after the same honest first burst
	for k := 0; k < n; k++ {
		mc := MConn{FreshArgs: fresh}
		last := k == n-1
		for d := 0; d < 2; d++ {
			dir := (d + i) % 2
			if !last {
				mc.Steps = append(mc.Steps, MStep{Kind: "x", Dir: dir, Sizes: sz1, Tag: fmt.Sprintf("a%d", dir)},
					MStep{Kind: "x", Dir: dir, Sizes: sz2, Tag: fmt.Sprintf("b%d", dir)})
				continue
			}
			from := rng.Intn(n - 1)
			if later {
				mc.Steps = append(mc.Steps, MStep{Kind: "x", Dir: dir, Sizes: sz1, Tag: fmt.Sprintf("a%d", dir)},
					MStep{Kind: "inject", Dir: dir, From: from, Tag: fmt.Sprintf("b%d", dir)})
			} else {
				mc.Steps = append(mc.Steps, MStep{Kind: "inject", Dir: dir, From: from, Tag: fmt.Sprintf("a%d", dir)})
			}
		}
		c.Multi = append(c.Multi, mc)
	}
	return c
}

// genConnSeq: k connections in one process; some are closed while decoded payload is still
// unread (the reader stopped after a few bytes), then new connections (same and different
// factories) whose delivered streams must be exactly what THEIR peers wrote.
func genConnSeq(rng *vlib.Rng, i int) Case {
	c := Case{Name: fmt.Sprintf("connseq-%d", i), P: o4pair.RandomParams(rng, 0, false)}
	k := rng.Range(3, 6)
	for ci := 0; ci < k; ci++ {
		mc := MConn{NewFactory: ci > 0 && rng.Intn(3) == 0, FreshArgs: rng.Bool()}
		if ci%2 == 0 || rng.Intn(3) == 0 {
			// the peer sends several frames, the reader takes a few bytes, the connection is closed
			for _, dir := range [][]int{{0}, {1}, {0, 1}, {1, 0}}[rng.Intn(4)] {
				mc.Steps = append(mc.Steps, MStep{Kind: "partial", Dir: dir, Sizes: []int{vlib.Pick(rng, []int{3000, 5000, 1500, 40000})}, ReadN: vlib.Pick(rng, []int{1, 7, 100, 1427})})
			}
		} else {
			for d := 0; d < 2; d++ {
				mc.Steps = append(mc.Steps, MStep{Kind: "x", Dir: (d + ci) % 2, Sizes: []int{vlib.Pick(rng, []int{1, 100, 1427, 3000})}},
					MStep{Kind: "x", Dir: (d + ci) % 2, Sizes: []int{rng.Range(1, 2000)}})
			}
		}
		mc.Steps = append(mc.Steps, MStep{Kind: "close"})
		c.Multi = append(c.Multi, mc)
	}
	return c
}

func genRandom(rng *vlib.Rng, i int) Case {
	iat := pickIAT(rng)
	c := Case{Name: fmt.Sprintf("random-%d", i), P: o4pair.RandomParams(rng, iat, rng.Intn(4) == 0), Dir: rng.Intn(2)}
	small := []int{0, 1, 2, 100, 1426, 1427, 1428, 1447, 1448, 1449, 2*1427 + 1, 5000}
	if iat != 0 {
		// IAT modes sleep up to 10 ms per Conn.Write: keep the bursts small
		small = []int{0, 1, 2, 100, 1426, 1427, 1428, 1447, 1448, 1449}
	}
	for k := rng.Intn(3); k > 0; k-- {
		c.Warm = append(c.Warm, []int{vlib.Pick(rng, small)})
	}
	if rng.Bool() {
		c.WarmOth = []int{vlib.Pick(rng, small)}
	}
	for k := rng.Range(1, 3); k > 0; k-- {
		c.Writes = append(c.Writes, vlib.Pick(rng, small))
	}
	// the wire length is not known before the run: offsets are drawn large and reduced modulo
	// the actual length by the "auto" resolution in resolveTamper (recorded in the outcome)
	ops := []string{"flip", "trunc", "delframe", "dupframe", "swapframes", "insframe", "replayold", "splice", "delbytes", "insbytes", "setlen", "append", "permute", "peerpkt"}
	c.T = Tamper{Op: vlib.Pick(rng, ops), A: -1, B: rng.Range(1, 40), Seed: rng.U64()}
	if c.T.Op == "peerpkt" {
		c.T.A = rng.Intn(9)
	}
	if rng.Intn(3) == 0 {
		c.Persist = rng.Range(1, 3)
	}
	c.End = vlib.Pick(rng, []string{"eof", "eof", "timeout", "other"})
	c.Joint = rng.Intn(3) == 0
	c.Chunk = pickChunker(rng)
	c.ReadSz = pickReads(rng)
	return c
}

// ---------------------------------------------------------------- aggregation

type agg struct {
	maxMs    int64
	r        *vlib.Run
	pool     *o4pair.Pool
	f2skips  int
	tieOK    int
	noDriver int
}

func caseKey(c Case) string {
	b, _ := json.Marshal(c)
	return string(b)
}

func (a *agg) evaluate(cases []Case, origin string) []Outcome {
	jobs := make([][]byte, len(cases))
	for i, c := range cases {
		jobs[i], _ = json.Marshal(Job{Case: c, Origin: origin})
	}
	var outs []Outcome
	for i, out := range a.pool.Run(jobs) {
		var o Outcome
		if err := json.Unmarshal(out, &o); err == nil && o.WorkerError == "timeout" {
			// real IAT sleeps with a pathological length table: not a verdict about the property
			a.r.Count("skipped", "case-abandoned-after-150s")
			fmt.Fprintf(os.Stderr, "case %s abandoned after the job timeout\n", cases[i].Name)
			if a.r.ReplayDir != "" {
				os.MkdirAll(a.r.ReplayDir, 0o755)
				b, _ := json.MarshalIndent(map[string]interface{}{"property": a.r.Prop, "kind": "abandoned-slow-case", "case": cases[i]}, "", " ")
				os.WriteFile(filepath.Join(a.r.ReplayDir, a.r.Prop+"-abandoned-"+cases[i].Name+".json"), b, 0o644)
			}
			continue
		} else if err != nil || o.WorkerError != "" {
			a.r.Violate("harness-worker-failed", "correspondence", fmt.Sprintf("[%s] worker: %v %s", cases[i].Name, err, o.WorkerError), cases[i])
			continue
		}
		a.record(o)
		outs = append(outs, o)
	}
	return outs
}

func familyOf(name string) string {
	for i := 0; i < len(name); i++ {
		if name[i] == '-' {
			return name[:i]
		}
	}
	return name
}

func (a *agg) record(o Outcome) {
	if o.WallMs > a.maxMs {
		a.maxMs = o.WallMs
		a.r.Notes["slowest_case"] = fmt.Sprintf("%s: %d ms", o.Case.Name, o.WallMs)
	}
	if o.WallMs > 5000 {
		fmt.Fprintf(os.Stderr, "slow case %s: %d ms\n", o.Case.Name, o.WallMs)
	}
	r, c := a.r, o.Case
	for k := 0; k < o.F2Retries; k++ {
		a.f2skips++
		r.Count("skipped", "F2-paranoid-iat-length-0")
	}
	if o.Skipped != "" {
		a.f2skips++
		r.Count("skipped", "F2-paranoid-iat-length-0")
		return
	}
	a.tieOK += o.TieOK
	r.Validated(o.TieOK)
	if !o.TieDriver {
		a.noDriver++
	}
	// non-trivial: the tampered stream differs from the honest one before its end and reaches the decoder
	if len(c.Multi) > 0 {
		r.Case(caseKey(c), o.Stats["injections"]+o.Stats["partial-reads"] > 0)
		r.Count("family", familyOf(c.Name))
		r.Count("cross-connection", fmt.Sprintf("%s conns=%d injections=%d early-closes=%d", familyOf(c.Name), len(c.Multi), o.Stats["injections"], o.Stats["partial-reads"]))
		if o.Stats["injections"] > 0 {
			r.Count("error-class", o.ErrClass)
		}
		if v := o.V; v != nil {
			r.Violate(v.Sig, "impl-oracle", fmt.Sprintf("[%s] %s", c.Name, v.Desc), c)
		}
		return
	}
	if c.KeyRec {
		r.Case(caseKey(c), o.Stats["windows-tried"] > 0)
		r.Count("family", "keyrec")
		r.Count("key-recovery-windows-tried", fmt.Sprintf("%d00+", o.Stats["windows-tried"]/100))
		for _, v := range []*verdict{o.V, o.TieV} {
			if v != nil {
				kind := "impl-oracle"
				if strings.HasPrefix(v.Sig, "tie-") {
					kind = "correspondence"
				}
				r.Violate(v.Sig, kind, fmt.Sprintf("[%s] %s", c.Name, v.Desc), c)
			}
		}
		return
	}
	if c.Duplex != nil {
		r.Case(caseKey(c), o.Stats["delivered-c2s"] > 0 && o.Stats["delivered-s2c"] > 0)
		r.Count("family", "duplex")
		r.Count("duplex-bytes-each-way", fmt.Sprintf("%dKiB/%dKiB iat=%d", c.Duplex.Total[0]>>10, c.Duplex.Total[1]>>10, c.P.IAT))
		if v := o.V; v != nil {
			r.Violate(v.Sig, "impl-oracle", fmt.Sprintf("[%s] %s", c.Name, v.Desc), c)
		}
		return
	}
	r.Case(caseKey(c), o.Class == "altered" || o.Class == "truncated")
	r.Count("family", familyOf(c.Name))
	r.Count("tamper", c.T.Op)
	r.Count("class", o.Class)
	r.Count("error-class", o.ErrClass)
	r.Count("victim", o4pair.DirName(c.Dir))
	r.Count("iat-mode", fmt.Sprint(c.P.IAT))
	r.Count("chunker", c.Chunk.Kind)
	if len(c.Early) > 0 {
		r.Count("handshake-coalesced", fmt.Sprintf("damage-in-handshake-read=%d outcome=%s", o.Stats["damage-in-handshake-read"], map[bool]string{true: "dial-failed", false: "dial-ok"}[strings.HasPrefix(o.ErrClass, "dial:")]))
	}
	r.Count("ending", fmt.Sprintf("%s joint=%v", map[bool]string{true: "eof", false: c.End}[c.End == ""], c.Joint))
	if o.Class == "altered" {
		switch d := o.Stats["delivered-of-target"]; {
		case d == 0:
			r.Count("delivered-before-error", "none-of-burst")
		default:
			r.Count("delivered-before-error", "intact-prefix-of-burst")
		}
	}
	r.Sample(5, map[string]interface{}{"case": c.Name, "tamper": c.T, "class": o.Class, "err": o.ErrClass, "stats": o.Stats})
	for _, v := range []*verdict{o.V, o.TieV} {
		if v == nil {
			continue
		}
		kind := "impl-oracle"
		if len(v.Sig) > 4 && v.Sig[:4] == "tie-" {
			kind = "correspondence"
		}
		r.Violate(v.Sig, kind, fmt.Sprintf("[%s] %s", c.Name, v.Desc), c)
	}
}

// probe runs the untampered base case once and returns the frame layout of its target burst.
func (a *agg) probe(base Case) (wireLen int, frames int, ok bool) {
	base.T = Tamper{Op: "none"}
	base.Name += "-probe"
	outs := a.evaluate([]Case{base}, "generated")
	if len(outs) != 1 || outs[0].V != nil || outs[0].Skipped != "" {
		return 0, 0, false
	}
	return outs[0].Stats["first-diff"], outs[0].Stats["frames"], true
}

func main() {
	o4pair.WorkerMain(handle)
	r := vlib.NewRun("C05")
	r.Rule = "a case counts as non-trivial when the tampered ciphertext differs from the honest one before its end (altered or truncated, not merely appended to or untouched) and was fed to the victim's decoder"
	r.Assumptions = []string{
		"connections whose iat-mode=2 Write panics with 'iat length was 0' (defect F2, property C09) are skipped and counted under input_distribution.skipped",
		"payload bytes are random, so a delivered byte string that is a prefix of the written one by accident has negligible probability",
	}
	pool, err := o4pair.NewPool(0, r.DriverBin)
	if err != nil {
		fmt.Fprintln(os.Stderr, "cannot start workers:", err)
		os.Exit(3)
	}
	a := &agg{r: r, pool: pool}
	finish := func() {
		r.Notes["f2_skipped_connections"] = a.f2skips
		if a.noDriver > 0 && a.tieOK == 0 {
			r.Notes["model_tie"] = "model driver o4data not available: S oracle only"
		} else {
			r.Notes["model_tie"] = map[string]int{"streams_compared_with_model": a.tieOK}
		}
		pool.Close()
		r.Finish()
	}
	if r.ReplayIn != "" {
		var c Case
		if err := r.LoadReplay(&c); err != nil {
			fmt.Fprintln(os.Stderr, "cannot load replay:", err)
			os.Exit(3)
		}
		a.evaluate([]Case{c}, "replay")
		finish()
	}
	if dir := os.Getenv("VERIF_DIR"); dir != "" {
		files, _ := filepath.Glob(filepath.Join(dir, "corpus", "C05", "*.json"))
		sort.Strings(files)
		var cs []Case
		for _, f := range files {
			b, err := os.ReadFile(f)
			if err != nil {
				continue
			}
			var doc struct {
				Case Case `json:"case"`
			}
			if json.Unmarshal(b, &doc) == nil && doc.Case.Name != "" {
				doc.Case.Name = "corpus-" + doc.Case.Name
				cs = append(cs, doc.Case)
				r.Count("corpus", filepath.Base(f))
			}
		}
		a.evaluate(cs, "corpus")
	}

	rng := vlib.NewRng(r.Seed)
	start := time.Now()
	budget := time.Duration(r.Scale(75, 800)) * time.Second
	within := func() bool { return time.Since(start) < budget }
	run := func(cs []Case) {
		const bs = 256
		for lo := 0; lo < len(cs) && within(); lo += bs {
			hi := lo + bs
			if hi > len(cs) {
				hi = len(cs)
			}
			a.evaluate(cs[lo:hi], "generated")
		}
	}

	// (1) every bit position of one frame, per payload size class
	classes := []int{0, 1, 1427}
	if r.Thorough() {
		classes = nil
		for s := 0; s <= 1427; s += 97 {
			classes = append(classes, s)
		}
		classes = append(classes, 1427)
	}
	for ci, sz := range classes {
		for dir := 0; dir < 2; dir++ {
			if r.Thorough() && dir != ci%2 && sz != 0 && sz != 1 && sz != 1427 {
				continue
			}
			base := fixedBase(rng.Fork(), fmt.Sprintf("bitflip-%d-%s", sz, o4pair.DirName(dir)), dir, []int{sz})
			var wl, nf int
			ok := false
			for try := 0; try < 8 && !ok; try++ {
				wl, nf, ok = a.probe(base)
				if ok && wl == 0 { // write of 0 bytes with a sampled pad of 0: nothing on the wire
					ok = false
				}
				if !ok {
					base.P = o4pair.RandomParams(rng.Fork(), 0, false)
				}
			}
			if !ok {
				r.Count("skipped", "no-probe")
				continue
			}
			_ = nf
			// the first frame is [0, firstEnd): learn its end from a frame-level delete probe
			firstEnd := wl
			if sz > 0 {
				firstEnd = 2 + 16 + 3 + sz
			} else if wl > 1448 {
				firstEnd = 1448
			}
			stride := 1
			if !r.Thorough() && firstEnd > 200 {
				stride = 5
			}
			var cs []Case
			for bit := 0; bit < firstEnd*8; bit++ {
				if stride > 1 && bit >= 24*8 && bit < (firstEnd-4)*8 && bit%stride != (ci+dir)%stride {
					continue
				}
				c := base
				c.Name = fmt.Sprintf("%s-bit%d", base.Name, bit)
				c.T = Tamper{Op: "flip", A: bit}
				c.Joint = bit%5 == 2
				c.Chunk = allChunkers[bit%len(allChunkers)]
				c.ReadSz = []int{readClasses[bit%len(readClasses)]}
				cs = append(cs, c)
			}
			run(cs)
		}
	}
	// (2) truncation at every offset, then EOF
	for ti, writes := range [][]int{{1}, {1427, 1}} {
		base := fixedBase(rng.Fork(), fmt.Sprintf("trunc-%d", ti), ti%2, writes)
		wl, _, ok := a.probe(base)
		if !ok {
			continue
		}
		stride := 1
		if !r.Thorough() && wl > 400 {
			stride = 9
		}
		var cs []Case
		for off := 0; off < wl; off++ {
			if stride > 1 && off > 30 && off%stride != 0 && (off < 1448-24 || off > 1448+48) {
				continue
			}
			c := base
			c.Name = fmt.Sprintf("%s-at%d", base.Name, off)
			c.T = Tamper{Op: "trunc", A: off}
			c.Joint = off%4 == 1
			c.Chunk = allChunkers[off%len(allChunkers)]
			c.ReadSz = []int{readClasses[off%len(readClasses)]}
			cs = append(cs, c)
		}
		run(cs)
	}
	// (3) whole-frame operations on 4-data-frame bursts: delete / duplicate / swap / permute /
	//     insert / replay / splice at every frame position, all chunkers
	for fi := 0; fi < r.Scale(4, 16); fi++ {
		base := fixedBase(rng.Fork(), fmt.Sprintf("frames-%d", fi), fi%2, []int{1427, 1427, 1427, 100})
		base.Warm = [][]int{{50}, {1427}}
		base.WarmOth = []int{700}
		var cs []Case
		add := func(t Tamper) {
			for _, ch := range allChunkers {
				c := base
				c.Name = fmt.Sprintf("%s-%s-%d-%d-%s", base.Name, t.Op, t.A, t.B, ch.String())
				c.T, c.Chunk = t, ch
				c.ReadSz = []int{readClasses[len(cs)%len(readClasses)]}
				c.Persist = len(cs) % 3
				c.Joint = len(cs)%4 == 1
				cs = append(cs, c)
			}
		}
		for k := 0; k < 9; k++ {
			add(Tamper{Op: "peerpkt", A: k, Seed: rng.U64()})
		}
		for i := 0; i < 5; i++ {
			add(Tamper{Op: "delframe", A: i})
			add(Tamper{Op: "dupframe", A: i})
			add(Tamper{Op: "insframe", A: i, B: vlib.Pick(rng, []int{1, 2, 18, 21, 100, 1448}), Seed: rng.U64()})
			add(Tamper{Op: "replayold", A: i, B: 0})
			add(Tamper{Op: "splice", A: i, B: i % 2})
			add(Tamper{Op: "setlen", A: i, Seed: rng.U64()})
			for j := i + 1; j < 5; j++ {
				add(Tamper{Op: "swapframes", A: i, B: j})
			}
		}
		// all permutations of the 4 data frames
		perm := []int{0, 1, 2, 3}
		var rec func(k int)
		rec = func(k int) {
			if k == len(perm) {
				id := true
				for i, v := range perm {
					if i != v {
						id = false
					}
				}
				if !id {
					add(Tamper{Op: "permute", Perm: append([]int(nil), perm...)})
				}
				return
			}
			for i := k; i < len(perm); i++ {
				perm[k], perm[i] = perm[i], perm[k]
				rec(k + 1)
				perm[k], perm[i] = perm[i], perm[k]
			}
		}
		rec(0)
		run(cs)
	}
	// (3b) tampering that arrives COALESCED with the server's handshake response: response ‖ seed
	//      frame ‖ first data frames in one segment or cut inside the first frames
	{
		seedFrameLen := 45
		nFam := r.Scale(2, 6)
		for fi := 0; fi < nFam; fi++ {
			base := Case{Name: fmt.Sprintf("hs-%d", fi), P: o4pair.RandomParams(rng.Fork(), 0, false), Dir: o4pair.S2C,
				Early: [][]int{{1500, 1427}, {17, 2000}, {1427, 1427, 100}}[fi%3], Chunk: o4pair.Chunker{Kind: "whole"}, ReadSz: []int{32768}}
			var cs []Case
			cuts := []o4pair.Chunker{{Kind: "whole"}, {Kind: "respat", N: 2}, {Kind: "respat", N: seedFrameLen}, {Kind: "respat", N: seedFrameLen + 2}, {Kind: "respat", N: seedFrameLen + 700}, {Kind: "one"}, {Kind: "fixed", N: 1448}}
			add := func(t Tamper, chs []o4pair.Chunker) {
				for _, ch := range chs {
					c := base
					c.Name = fmt.Sprintf("%s-%s-%d-%d-%s", base.Name, t.Op, t.A, t.B, ch.String())
					c.T, c.Chunk = t, ch
					c.ReadSz = []int{readClasses[len(cs)%len(readClasses)]}
					c.Persist = len(cs) % 3
					c.End = []string{"eof", "eof", "other", "timeout"}[len(cs)%4]
					cs = append(cs, c)
				}
			}
			// every bit of the inline seed frame, and of the first data frame's header region
			for bit := 0; bit < seedFrameLen*8; bit++ {
				add(Tamper{Op: "flip", A: bit}, []o4pair.Chunker{cuts[bit%len(cuts)]})
			}
			for bit := seedFrameLen * 8; bit < (seedFrameLen+40)*8; bit += 3 {
				add(Tamper{Op: "flip", A: bit}, []o4pair.Chunker{cuts[bit%len(cuts)]})
			}
			for i := 0; i < 3; i++ {
				add(Tamper{Op: "delframe", A: i}, cuts)
				add(Tamper{Op: "dupframe", A: i}, cuts)
				add(Tamper{Op: "insframe", A: i, B: []int{43, 1, 18, 100, 1446}[(i+fi)%5], Seed: rng.U64()}, cuts)
				add(Tamper{Op: "setlen", A: i, Seed: rng.U64()}, cuts)
				add(Tamper{Op: "swapframes", A: i, B: i + 1}, cuts)
			}
			// forged bytes between a frame's length field and its genuine body (the body then
			// follows, possibly in a later read): 43 = the seed frame's body length
			for _, off := range []int{2, seedFrameLen + 2} {
				for _, n := range []int{43, 16, 1, 1446} {
					add(Tamper{Op: "insbytes", A: off, B: n, Seed: rng.U64()}, cuts)
				}
				add(Tamper{Op: "delbytes", A: off, B: 5}, cuts)
			}
			for k := 0; k < 9; k++ {
				add(Tamper{Op: "peerpkt", A: k, Seed: rng.U64()}, cuts[:3])
			}
			for _, off := range []int{0, 1, 2, 20, seedFrameLen - 1, seedFrameLen, seedFrameLen + 1, seedFrameLen + 2, seedFrameLen + 100, 1500} {
				add(Tamper{Op: "trunc", A: off}, cuts[:4])
			}
			add(Tamper{Op: "none"}, cuts)
			if r.Thorough() {
				// cut at every offset of the first two frames, a fixed damage in the seed frame / first data frame
				for cut := 0; cut <= seedFrameLen+1521; cut++ {
					add(Tamper{Op: "flip", A: 8*20 + cut%8}, []o4pair.Chunker{{Kind: "respat", N: cut}})
					if cut%3 == 0 {
						add(Tamper{Op: "insbytes", A: 2, B: 43, Seed: rng.U64()}, []o4pair.Chunker{{Kind: "respat", N: cut}})
						add(Tamper{Op: "flip", A: 8*(seedFrameLen+30) + cut%8}, []o4pair.Chunker{{Kind: "respat", N: cut}})
					}
				}
			}
			run(cs)
		}
	}
	// (3e) cross-connection histories in one process
	{
		n := r.Scale(64, 400)
		cs := make([]Case, 0, 2*n)
		for i := 0; i < n; i++ {
			cs = append(cs, genXReplay(rng.Fork(), i), genConnSeq(rng.Fork(), i))
		}
		run(cs)
	}
	// (3d) on-path key recovery from the public transcript + ntor output tie
	{
		n := r.Scale(32, 200)
		cs := make([]Case, n)
		for i := range cs {
			cs[i] = Case{Name: fmt.Sprintf("keyrec-%d", i), P: o4pair.RandomParams(rng.Fork(), 0, false), KeyRec: true}
		}
		run(cs)
	}
	// (3c) full duplex: both endpoints reading and writing simultaneously
	{
		n := r.Scale(8, 32)
		cs := make([]Case, n)
		for i := range cs {
			cs[i] = genDuplex(rng.Fork(), i, r.Thorough())
		}
		run(cs)
	}
	// (4) random tampers: all operators, IAT modes, both victims, warm-up traffic
	{
		n := r.Scale(5000, 40000)
		cs := make([]Case, n)
		for i := range cs {
			cs[i] = genRandom(rng.Fork(), i)
		}
		run(cs)
	}
	finish()
}
