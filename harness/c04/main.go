// C04 — obfs4 accepts each client handshake once, within ±1 hour of the server clock.
//
// Histories of fresh, replayed and concurrently submitted client handshakes — crafted by the Lean
// reference client for hour offsets -3..+3 relative to the hour the harness observes — run
// against ONE real server factory per history (real WrapConn on scripted conns) and against the
// Lean model of the factory (`serverAccept`, driver `o4srv`) fed the same history and the
// harness's own clock readings; outcome classes, bytes written and the replay filter's size are
// compared.
//
// S oracle (from the property text, own bookkeeping, no model): no byte string is accepted
// twice; a never-seen handshake stamped hour-1/hour/hour+1 is accepted, any other offset is
// rejected with zero bytes written; the reference client verifies the server's answer (MAC_S
// with the CLIENT's hour, AUTH); of 16 simultaneous submissions of one fresh blob exactly one
// succeeds; every rejected submission (replay, out-of-window) gets 0 bytes and is closed only when
// the bridge's fixed close deadline (30..90 s, the same for all of them) fires, and every replay
// is compared on the wire — action sequence and close deadline — with a control: the same bytes
// with one MAC bit flipped, delivered the same way to the same bridge ("treated exactly like an
// invalid handshake"). Replays and controls are tied to the WrapConn machine of the model
// (conn.run: C04.replay_is_invalid says a replay takes the failure path of C03). Further families:
// the filter at the edge of the property's hypothesis (G accepted as the eldest entry, filled through
// the read-only hook to cap-2 / cap-1 remembered values: replays of G rejected; from cap on the model
// decides); rounds of 16 DISTINCT fresh handshakes released together, then replays of an older one
// and of a sample (all rejected, filter size = number accepted); 16-way bursts of one blob on a
// pre-aged filters (entries inserted through the hook with past times; a real pause until the
// oldest one expires; a handshake accepted seconds ago must still be rejected afterwards); a
// bridge that remembers nothing (regression of the repaired defect concurrent-replay-on-empty-filter:
// before 'fix: replayfilter: read the clock under the lock …' about 1 % of such rounds showed 2 successes). (The 3 h expiry of filter entries cannot be waited for: that part is carried by the
// theorem C04.at_most_once and C11's own tie.)
package main

import (
	"encoding/hex"
	"encoding/json"
	"fmt"
	"strings"
	"sync"
	"sync/atomic"
	"time"

	"gitlab.com/yawning/obfs4.git/common/replayfilter"
	"gitlab.com/yawning/obfs4.git/transports/base"
	"gitlab.com/yawning/obfs4.git/transports/obfs4"

	"verif/harness/o4h"
	"verif/harness/srvh"
	"verif/harness/vlib"
)

type op struct {
	Kind    string `json:"kind"` // fresh | replay | burst | stall (accepted now, handshake completes at its "finish") | finish
	Seed    uint64 `json:"seed"`
	KeySeed string `json:"key_seed,omitempty"`
	PadLen  int    `json:"pad_len,omitempty"`
	Off     int    `json:"off"`          // hour offset of a fresh blob
	Of      int    `json:"of"`           // replay/burst: index of the earlier op whose bytes are resubmitted (-1: burst of a fresh blob)
	Cuts    []int  `json:"cuts,omitempty"`
	SrvSeed uint64 `json:"srv_seed"`
	N       int    `json:"n,omitempty"` // fill: number of direct TestAndSet calls with fresh random values; cburst: number of distinct handshakes
	M       int    `json:"m,omitempty"` // replay of a cburst: which member
	AgeMs   int64  `json:"age_ms,omitempty"` // age: TestAndSet(now - AgeMs, fresh random value) through the hook; sleep: real pause
}

type history struct {
	IdSeed uint64 `json:"id_seed"`
	Ops    []op   `json:"ops"`
}

type worker struct {
	srv *srvh.Srv
	ref *o4h.Ref
}

var (
	r        *vlib.Run
	K        = map[string]int{}
	keySeeds [][]byte
	facSeq   int
	facMu    sync.Mutex
)

func cint(name string) int {
	v, ok := K[name]
	if !ok {
		panic("constant " + name + " missing from obfs4.VerifConstants()")
	}
	return v
}

func violate(sig, kind, desc string, h history, upto int, w *worker) {
	rc := history{IdSeed: h.IdSeed, Ops: append([]op(nil), h.Ops[:upto+1]...)}
	tail := w.srv.Log
	if len(tail) > 2 {
		tail = tail[len(tail)-2:]
	}
	r.Violate(sig, kind, desc+" | last model ops: "+strings.Join(tail, " ;; "), rc)
}

type sub struct {
	blob []byte
	off  int    // hour offset the blob was stamped with
	cli  string // reference client session that made it
}

func serverTape(seed uint64) []byte {
	return vlib.NewRng(seed).Bytes(32*40 + 8*8 + cint("serverMaxPadLength") + 8)
}

// burst: n goroutines submit the same bytes to the factory at the same time.
func burst(sf base.ServerFactory, blob []byte, n int) (okCount int, written int, wires [][]byte, classes []string, h0, h1 int64) {
	blobs := make([][]byte, n)
	for i := range blobs {
		blobs[i] = blob
	}
	oks, ws, h0, h1 := burstOf(sf, blobs)
	for i, ok := range oks {
		written += len(ws[i])
		if ok {
			okCount++
			wires = append(wires, ws[i])
		}
	}
	return
}

// burstOf: one goroutine per blob, all released at the same instant.
func burstOf(sf base.ServerFactory, blobs [][]byte) (oks []bool, wires [][]byte, h0, h1 int64) {
	n := len(blobs)
	oks = make([]bool, n)
	wires = make([][]byte, n)
	srvh.WrapMu.Lock()
	defer srvh.WrapMu.Unlock()
	o4h.Tape.Steer = nil
	h0 = o4h.Hour()
	var wg sync.WaitGroup
	var mu sync.Mutex
	// every conn gets all but the last byte first; the last bytes are released at the same
	// instant once all n endpoints sit in Read waiting for them
	gate := make(chan struct{})
	var spin int32
	conns := make([]*srvh.Conn, n)
	for i := 0; i < n; i++ {
		blob := blobs[i]
		c := srvh.NewConn([]srvh.Step{{K: "c", B: blob[:len(blob)-1]}, {K: "g"}, {K: "c", B: blob[len(blob)-1:]}})
		c.Gate = gate
		c.Spin = &spin
		conns[i] = c
		wg.Add(1)
		go func(i int) {
			defer wg.Done()
			_, err := sf.WrapConn(c)
			w := c.ScriptConn.TakeWritten()
			mu.Lock()
			defer mu.Unlock()
			oks[i] = err == nil
			wires[i] = w
		}(i)
	}
	for _, c := range conns {
		<-c.AtGate
	}
	close(gate)                       // all n endpoints now spin inside their Read …
	time.Sleep(200 * time.Microsecond) // … give every one of them a core
	atomic.StoreInt32(&spin, 1)       // … and release them together
	wg.Wait()
	h1 = o4h.Hour()
	return
}

func canon(toks []string) string {
	out := make([]string, len(toks))
	for i, t := range toks {
		if strings.HasPrefix(t, "W:") {
			t = "W"
		}
		out[i] = t
	}
	return strings.Join(out, " ")
}

// wireOracle: what the peer of a rejected handshake may observe (property text: treated exactly
// like an invalid handshake — C03: no byte, no close before the bridge's fixed close time, which
// is the same for every rejected submission of one bridge and lies in [30 s, 90 s)).
func wireOracle(h history, i int, w *worker, what, desc string, res srvh.Result, lo, hi *time.Duration, have *bool) {
	switch {
	case res.Written != 0:
		violate("bytes-written-on-reject", "impl-oracle", fmt.Sprintf("%s: %d bytes written | %s | %s", what, res.Written, res.Render(), desc), h, i, w)
	case res.Blocked:
		violate("reject-never-closed", "impl-oracle", fmt.Sprintf("%s: server blocks with no deadline armed | %s | %s", what, res.Render(), desc), h, i, w)
	case res.Closes != 1 || !res.CloseByTimeout:
		violate("reject-closed-before-close-time", "impl-oracle",
			fmt.Sprintf("%s: %d closes, last read timed out = %v — the conn is closed (or handed back to the caller, who closes it) although neither the read deadline fired nor the peer disconnected | %s | %s",
				what, res.Closes, res.CloseByTimeout, res.Render(), desc), h, i, w)
	default:
		l, u := res.CloseOff-res.Slack-srvh.Tolerance, res.CloseOff+srvh.Tolerance
		if u < 30*time.Second || l >= 90*time.Second {
			violate("close-time-out-of-range", "impl-oracle", fmt.Sprintf("%s: closed when the deadline +%.3fs fired | %s", what, res.CloseOff.Seconds(), desc), h, i, w)
		}
		if !*have {
			*have, *lo, *hi = true, l, u
		} else if u < *lo || l > *hi {
			violate("close-time-differs-between-rejects", "impl-oracle",
				fmt.Sprintf("%s: close deadline +%.3fs, other rejected handshakes of this bridge +%.3fs..+%.3fs | %s", what, res.CloseOff.Seconds(), lo.Seconds(), hi.Seconds(), desc), h, i, w)
		} else {
			if l > *lo {
				*lo = l
			}
			if u < *hi {
				*hi = u
			}
		}
	}
}

// runHistory executes one history; false = the epoch hour changed underneath (retry).
func runHistory(w *worker, h history) bool {
	id := o4h.NewIdentity(vlib.NewRng(h.IdSeed), 0)
	srvh.WrapMu.Lock()
	sf := id.ServerFactory()
	srvh.WrapMu.Unlock()
	facMu.Lock()
	facSeq++
	fname := fmt.Sprintf("H%d", facSeq)
	facMu.Unlock()
	if _, _, ok := w.srv.FacNew(fname, id); !ok {
		violate("factory-setup", "correspondence", "model fac.new failed", h, -1, w)
		return true
	}
	_, filter, hok := obfs4.VerifServerFactoryState(sf)
	hour := o4h.Hour()
	subs := make([]sub, len(h.Ops))
	var allSubs []sub
	accepted := map[string]int{} // S bookkeeping: bytes -> times accepted
	submitted := map[string]bool{}
	type rec struct {
		i     int
		desc  string
		class string // implementation outcome
		res   srvh.Result
		blob  []byte
		exp   string // S expectation: accept | reject
		burst bool
		empty bool // burst: nothing at all was remembered by the bridge when it was submitted
		nOK   int
		wires [][]byte
		now   int64 // time of the replay-filter submission handed to the model (0: StartNs+1000)
		fill  bool
		flen  int     // fill: entries the real filter holds afterwards
		cb    []sub   // cburst: the distinct handshakes
		cbOK  []bool  // cburst: accepted?
		cbW   [][]byte
		over  bool // S: the property's hypothesis "fewer than maxFilterSize remembered" no longer holds here
		ctl   *srvh.Result // replay ops: the same bridge on a plain invalid handshake of the same length and chunking
	}
	var recs []rec
	cbs := map[int][]sub{}  // members of the cburst ops
	aged := false           // the history contains entries that expire while it runs: sizes are judged by the model only
	remembered := 0         // S bookkeeping: handshakes accepted + values filled in so far (no expiry inside a run)
	maxFilter := 0
	fmt.Sscan(replayfilter.VerifConstants()["maxFilterSize"], &maxFilter)
	var closeLo, closeHi time.Duration // running intersection of the close-deadline intervals of this bridge
	var haveClose bool
	// connections that were accepted and sit in Read one byte short of their handshake
	pending := map[int]*srvh.Pending{}
	defer func() {
		for _, p := range pending {
			p.Finish(nil)
		}
	}()
	for i, o := range h.Ops {
		rng := vlib.NewRng(o.Seed)
		if o.Kind == "age" {
			// pre-age the filter: an entry inserted AgeMs ago (past, monotonically increasing times)
			if !hok {
				continue
			}
			aged = true
			filter.TestAndSet(time.Now().Add(-time.Duration(o.AgeMs)*time.Millisecond), rng.Bytes(16))
			at := srvh.NowNs() - o.AgeMs*1_000_000
			_, fl := replayfilter.VerifLen(filter)
			remembered++
			recs = append(recs, rec{i: i, fill: true, flen: fl, now: at,
				desc: fmt.Sprintf("bridge seed %d, op #%d: entry inserted %d ms in the past", h.IdSeed, i, o.AgeMs)})
			continue
		}
		if o.Kind == "sleep" {
			time.Sleep(time.Duration(o.AgeMs) * time.Millisecond)
			if o4h.Hour() != hour {
				return false
			}
			continue
		}
		if o.Kind == "fill" {
			if !hok {
				continue
			}
			for k := 0; k < o.N; k++ {
				filter.TestAndSet(time.Now(), rng.Bytes(16))
			}
			_, fl := replayfilter.VerifLen(filter)
			remembered += o.N
			recs = append(recs, rec{i: i, fill: true, flen: fl, now: srvh.NowNs(),
				desc: fmt.Sprintf("bridge seed %d, op #%d fill of %d fresh values", h.IdSeed, i, o.N)})
			continue
		}
		if o.Kind == "cburst" {
			var members []sub
			var blobs [][]byte
			for k := 0; k < o.N; k++ {
				m := sub{cli: w.ref.Fresh("c"), off: vlib.Pick(rng, []int{-1, 0, 0, 1})}
				rep := w.ref.CliNew(m.cli, id.NodeID, id.Pub, srvh.ClientTape(rng, vlib.Pick(rng, keySeeds), rng.Range(77, 160)), hour+int64(m.off))
				if rep.Class != "ok" {
					violate("probe-build", "correspondence", "reference client: "+rep.Raw, h, i, w)
					return true
				}
				m.blob = rep.Data
				members = append(members, m)
				blobs = append(blobs, m.blob)
				submitted[string(m.blob)] = true
			}
			cbs[i] = members
			allSubs = append(allSubs, members...)
			oks, ws, h0, h1 := burstOf(sf, blobs)
			if h0 != hour || h1 != hour {
				return false
			}
			over := remembered+o.N >= maxFilter
			for _, ok := range oks {
				if ok {
					remembered++
				}
			}
			recs = append(recs, rec{i: i, cb: members, cbOK: oks, cbW: ws, over: over, res: srvh.Result{StartNs: srvh.NowNs()},
				desc: fmt.Sprintf("bridge seed %d, op #%d: %d DISTINCT fresh handshakes submitted simultaneously", h.IdSeed, i, o.N)})
			continue
		}
		var s sub
		switch {
		case o.Kind == "fresh" || o.Kind == "stall" || (o.Kind == "burst" && o.Of < 0):
			ks, _ := hex.DecodeString(o.KeySeed)
			s.cli = w.ref.Fresh("c")
			rep := w.ref.CliNew(s.cli, id.NodeID, id.Pub, srvh.ClientTape(rng, ks, o.PadLen), hour+int64(o.Off))
			if rep.Class != "ok" {
				violate("probe-build", "correspondence", "reference client: "+rep.Raw, h, i, w)
				return true
			}
			s.blob, s.off = rep.Data, o.Off
		default:
			if o.Of < 0 || o.Of >= i {
				violate("probe-build", "correspondence", "bad history recipe", h, i, w)
				return true
			}
			s = subs[o.Of]
			if ms, ok := cbs[o.Of]; ok {
				if o.M < 0 || o.M >= len(ms) {
					violate("probe-build", "correspondence", "bad history recipe", h, i, w)
					return true
				}
				s = ms[o.M]
			}
		}
		subs[i] = s
		if o.Kind == "stall" {
			// WrapConn starts now (accept time, session key, newServerHandshake) and blocks in
			// Read with the last byte of the handshake outstanding
			n := len(s.blob)
			st := []srvh.Step{{K: "c", B: s.blob[:n-1]}, {K: "g"}, {K: "c", B: s.blob[n-1:]}}
			pending[i] = srvh.StartWrap(sf, st, serverTape(o.SrvSeed))
			time.Sleep(2 * time.Millisecond)
			continue
		}
		key := string(s.blob)
		exp := "reject"
		if !submitted[key] && s.off >= -1 && s.off <= 1 {
			exp = "accept"
		}
		// a blob that was submitted before but rejected for its hour stays rejected
		desc := fmt.Sprintf("bridge seed %d, op #%d %s (hour offset %+d, %d bytes, cuts %v, resubmission of #%d)",
			h.IdSeed, i, o.Kind, s.off, len(s.blob), o.Cuts, o.Of)
		if o.Kind == "finish" {
			p := pending[o.Of]
			if p == nil {
				violate("probe-build", "correspondence", "finish without a pending connection", h, i, w)
				return true
			}
			delete(pending, o.Of)
			time.Sleep(2 * time.Millisecond)
			res, gateNs := p.Finish(vlib.NewRng(o.SrvSeed ^ 0xfade).Bytes(cint("serverMaxPadLength") + 8))
			if res.Hour0 != hour || res.Hour1 != hour {
				return false
			}
			recs = append(recs, rec{i: i, desc: desc + fmt.Sprintf(" [accepted %.1f ms before its handshake completed]", float64(gateNs-res.StartNs)/1e6),
				class: res.ErrClass, res: res, blob: s.blob, exp: exp, now: gateNs, over: remembered >= maxFilter})
			if res.ErrClass == "ok" {
				remembered++
			}
		} else if o.Kind == "burst" {
			nOK, written, wires, classes, h0, h1 := burst(sf, s.blob, 16)
			if h0 != hour || h1 != hour {
				return false
			}
			_ = classes
			recs = append(recs, rec{i: i, desc: desc, blob: s.blob, exp: exp, burst: true, empty: remembered == 0, nOK: nOK, wires: wires, over: remembered >= maxFilter,
				res: srvh.Result{Written: written, StartNs: srvh.NowNs()}})
			if nOK > 0 {
				remembered++ // one byte string occupies one entry, however often it got through
			}
		} else {
			var st []srvh.Step
			for _, c := range o4h.Split(s.blob, o.Cuts) {
				st = append(st, srvh.Step{K: "c", B: c})
			}
			res := srvh.RunWrap(sf, st, serverTape(o.SrvSeed), false)
			if res.Hour0 != hour || res.Hour1 != hour {
				return false
			}
			rc := rec{i: i, desc: desc, class: res.ErrClass, res: res, blob: s.blob, exp: exp, over: remembered >= maxFilter}
			if res.ErrClass == "ok" {
				remembered++
			}
			if o.Kind == "replay" {
				// control: the same bytes with one MAC bit flipped (a plain invalid handshake),
				// delivered the same way to the same bridge
				bad := append([]byte(nil), s.blob...)
				bad[len(bad)-1] ^= 1
				var cst []srvh.Step
				for _, c := range o4h.Split(bad, o.Cuts) {
					cst = append(cst, srvh.Step{K: "c", B: c})
				}
				ctl := srvh.RunWrap(sf, cst, serverTape(o.SrvSeed^0xc7), false)
				if ctl.Hour0 != hour || ctl.Hour1 != hour {
					return false
				}
				rc.ctl = &ctl
			}
			recs = append(recs, rc)
		}
		submitted[key] = true
	}
	// evaluate in order: S oracle, then the model fed the same history
	for _, rc := range recs {
		o := h.Ops[rc.i]
		key := string(rc.blob)
		kj, _ := json.Marshal(struct {
			G uint64
			I int
			O op
		}{h.IdSeed, rc.i, o})
		r.Case(string(kj), true)
		r.Count("op", o.Kind)
		r.Count("hour_offset", fmt.Sprintf("%+d", subs[rc.i].off))
		if rc.fill {
			cnt := o.N
			if o.Kind == "age" {
				cnt = 1
			}
			n, how := w.srv.FacFill(fname, rc.now, cnt)
			r.Count("impl_outcome", "fill("+how+")")
			if n != rc.flen {
				violate("replay-filter-size-differs", "correspondence",
					fmt.Sprintf("after the fill the replay filter holds %d entries, the model %d (%s) | %s", rc.flen, n, how, rc.desc), h, rc.i, w)
			}
			continue
		}
		if rc.cb != nil {
			nOK := 0
			for k, m := range rc.cb {
				if rc.cbOK[k] {
					nOK++
					accepted[string(m.blob)]++
					if k < 2 {
						if rep := w.ref.CliFeed(m.cli, rc.cbW[k]); rep.Class != "ok" {
							violate("answer-rejected-by-reference-client", "impl-oracle",
								fmt.Sprintf("the reference client does not accept the server's answer: %s | %s", rep.Raw, rc.desc), h, rc.i, w)
						}
					}
				}
				// model: the same handshakes one after the other (any order gives the same verdicts)
				ma := w.srv.Acc(fname, rc.res.StartNs, serverTape(o.SrvSeed+uint64(k)), m.blob, hour, rc.res.StartNs+int64(k))
				if (ma.Class == "ok") != rc.cbOK[k] && !rc.over {
					violate("model-impl-disagree/concurrent-distinct", "correspondence",
						fmt.Sprintf("member %d: model %s, implementation accepted=%v | %s", k, ma.Class, rc.cbOK[k], rc.desc), h, rc.i, w)
				}
			}
			r.Count("impl_outcome", fmt.Sprintf("cburst:%d-of-%d", nOK, len(rc.cb)))
			if nOK != len(rc.cb) {
				violate("concurrent-fresh-rejected", "impl-oracle",
					fmt.Sprintf("only %d of %d distinct fresh in-window handshakes submitted simultaneously were accepted | %s", nOK, len(rc.cb), rc.desc), h, rc.i, w)
			}
			r.Validated(len(rc.cb))
			continue
		}
		if rc.burst {
			r.Count("impl_outcome", fmt.Sprintf("burst:%d-of-16", rc.nOK))
			want := 0
			if rc.exp == "accept" {
				want = 1
			}
			if rc.empty && rc.nOK > 1 {
				// the caller reads time.Now() before TestAndSet takes the lock: on an EMPTY (or fully
				// expired) filter the later locker with the earlier reading sees the entry just made
				// as "from the future", the filter is reset and its own identical MAC is new again
				violate("concurrent-replay-on-empty-filter", "impl-oracle",
					fmt.Sprintf("%d of 16 simultaneous submissions of one blob to a bridge that remembers nothing yet succeeded, expected 1 | %s", rc.nOK, rc.desc), h, rc.i, w)
			} else if rc.nOK != want {
				violate("concurrent-submissions", "impl-oracle",
					fmt.Sprintf("%d of 16 simultaneous submissions of one blob succeeded, expected %d | %s", rc.nOK, want, rc.desc), h, rc.i, w)
			}
			accepted[key] += rc.nOK
			for k, wire := range rc.wires {
				if cli := subs[rc.i].cli; cli != "" && o.Of < 0 && k == 0 {
					if rep := w.ref.CliFeed(cli, wire); rep.Class != "ok" {
						violate("answer-rejected-by-reference-client", "impl-oracle",
							fmt.Sprintf("the reference client (own hour %+d) does not accept the server's answer: %s | %s", subs[rc.i].off, rep.Raw, rc.desc), h, rc.i, w)
					}
				}
			}
			// model: one submission that is accepted (or not), 15 more that are not
			tape := serverTape(o.SrvSeed)
			first := w.srv.Acc(fname, rc.res.StartNs, tape, rc.blob, hour, rc.res.StartNs)
			if (first.Class == "ok") != (rc.nOK >= 1) {
				violate("model-impl-disagree/burst", "correspondence",
					fmt.Sprintf("model %s, implementation %d successes | %s", first.Class, rc.nOK, rc.desc), h, rc.i, w)
			}
			second := w.srv.Acc(fname, rc.res.StartNs, tape, rc.blob, hour, rc.res.StartNs+1)
			if second.Class == "ok" {
				violate("model-accepts-twice", "correspondence", "the model accepts the same blob twice | "+rc.desc, h, rc.i, w)
			}
			r.Validated(1)
			continue
		}
		r.Count("impl_outcome", rc.class)
		r.Sample(5, map[string]interface{}{"op": o.Kind, "hour_offset": subs[rc.i].off, "len": len(rc.blob), "impl": rc.res.Render()})
		// ---- S
		if rc.res.Panic != nil {
			violate("wrapconn-panics", "impl-oracle", fmt.Sprintf("%v | %s", rc.res.Panic, rc.desc), h, rc.i, w)
			continue
		}
		got := "reject"
		if rc.class == "ok" {
			got = "accept"
			accepted[key]++
		}
		if rc.over {
			// maxFilterSize or more values are being remembered: outside the property's hypothesis,
			// the model alone decides (the eldest entry may legitimately have been evicted)
			r.Count("impl_outcome", "at-or-over-capacity:"+rc.class)
		} else if accepted[key] > 1 {
			violate("handshake-accepted-twice", "impl-oracle", "a byte-identical client handshake was accepted a second time | "+rc.desc+" | "+rc.res.Render(), h, rc.i, w)
		} else if got != rc.exp {
			sig := "fresh-in-window-rejected"
			if rc.exp == "reject" {
				sig = "out-of-window-or-replay-accepted"
			}
			violate(sig, "impl-oracle", fmt.Sprintf("expected %s, implementation %s | %s | %s", rc.exp, rc.class, rc.desc, rc.res.Render()), h, rc.i, w)
		}
		if got == "reject" {
			wireOracle(h, rc.i, w, "rejected handshake", rc.desc, rc.res, &closeLo, &closeHi, &haveClose)
		}
		if rc.ctl != nil {
			r.Count("impl_wire_control", canon(rc.ctl.Tokens))
			wireOracle(h, rc.i, w, "control (one MAC bit flipped)", rc.desc, *rc.ctl, &closeLo, &closeHi, &haveClose)
			if got == "reject" {
				a, b := rc.res, *rc.ctl
				same := canon(a.Tokens) == canon(b.Tokens) && a.Written == b.Written && a.Closes == b.Closes && a.CloseByTimeout == b.CloseByTimeout
				if same && a.CloseByTimeout {
					// the close deadlines relative to the real accept times must be compatible
					alo, ahi := a.CloseOff-a.Slack-srvh.Tolerance, a.CloseOff+srvh.Tolerance
					blo, bhi := b.CloseOff-b.Slack-srvh.Tolerance, b.CloseOff+srvh.Tolerance
					same = !(ahi < blo || bhi < alo)
				}
				if !same {
					violate("replay-not-treated-like-invalid-handshake", "impl-oracle",
						fmt.Sprintf("on the wire a replay gets [%s] but a plain invalid handshake of the same length on the same bridge gets [%s] | %s",
							a.Render(), b.Render(), rc.desc), h, rc.i, w)
				}
			}
		}
		if got == "reject" {
			r.Count("impl_wire_reject", canon(rc.res.Tokens))
		}
		if got == "accept" && (o.Kind == "fresh" || o.Kind == "finish") {
			if rep := w.ref.CliFeed(subs[rc.i].cli, rc.res.Wire); rep.Class != "ok" {
				violate("answer-rejected-by-reference-client", "impl-oracle",
					fmt.Sprintf("the reference client (own hour %+d) does not accept the server's answer: %s (mac = MAC_S not computed with the client's hour) | %s",
						subs[rc.i].off, rep.Raw, rc.desc), h, rc.i, w)
			}
		}
		// ---- C
		if o.Kind == "replay" {
			// the WrapConn machine of C03 (C04.replay_is_invalid: a replay takes its failure path)
			m := w.srv.ConnRun(fname, rc.res.StartNs, rc.res.TapeUsed, rc.res.Conn.ModelEvents(hour))
			r.Validated(1)
			if why := srvh.Compare(rc.res, m); why != "" {
				violate("model-impl-disagree/replay-"+strings.ReplaceAll(why, " ", "-"), "correspondence",
					fmt.Sprintf("%s: implementation [%s], model [%s] | %s", why, rc.res.Render(), m.Render(), rc.desc), h, rc.i, w)
			}
			if rc.ctl != nil {
				mc := w.srv.ConnRun(fname, rc.ctl.StartNs, rc.ctl.TapeUsed, rc.ctl.Conn.ModelEvents(hour))
				if why := srvh.Compare(*rc.ctl, mc); why != "" {
					violate("model-impl-disagree/control-"+strings.ReplaceAll(why, " ", "-"), "correspondence",
						fmt.Sprintf("%s: implementation [%s], model [%s] | control of %s", why, rc.ctl.Render(), mc.Render(), rc.desc), h, rc.i, w)
				}
			}
			continue
		}
		now := rc.res.StartNs + 1000
		if rc.now != 0 {
			now = rc.now
		}
		m := w.srv.Acc(fname, rc.res.StartNs, rc.res.TapeUsed, rc.blob, hour, now)
		r.Validated(1)
		mc := m.Class
		if mc == "need" {
			mc = "timeout" // the model keeps waiting; the scripted conn then fires the deadline
		}
		if mc != rc.class {
			violate("model-impl-disagree/outcome", "correspondence",
				fmt.Sprintf("implementation %s, model %s | %s", rc.class, m.Raw, rc.desc), h, rc.i, w)
		} else if mc == "ok" {
			if m.Hour != hour+int64(subs[rc.i].off) {
				violate("model-impl-disagree/echoed-hour", "correspondence",
					fmt.Sprintf("model echoes hour %d, the client used %d | %s", m.Hour, hour+int64(subs[rc.i].off), rc.desc), h, rc.i, w)
			}
			if len(m.Wire) != rc.res.Written {
				violate("model-impl-disagree/answer-length", "correspondence",
					fmt.Sprintf("implementation wrote %d bytes, model %d | %s", rc.res.Written, len(m.Wire), rc.desc), h, rc.i, w)
			}
		}
	}
	if hok {
		ml, fl := replayfilter.VerifLen(filter)
		mlen := w.srv.FacLen(fname)
		if ml != fl || fl != mlen {
			violate("replay-filter-size-differs", "correspondence",
				fmt.Sprintf("replay filter holds %d/%d entries, model %d", ml, fl, mlen), h, len(h.Ops)-1, w)
		}
		if !aged && remembered < maxFilter && fl != remembered {
			violate("filter-forgot-accepted-handshakes", "impl-oracle",
				fmt.Sprintf("%d handshakes/values were accepted into the replay filter (all well inside the TTL, below capacity) but it remembers %d", remembered, fl), h, len(h.Ops)-1, w)
		}
		r.Count("filter_entries_at_end", fmt.Sprintf("%d0..%d9", fl/10, fl/10))
	}
	for _, s := range append(subs, allSubs...) {
		if s.cli != "" {
			w.ref.Drop(s.cli)
		}
	}
	return true
}

func genHistory(rng *vlib.Rng, n int) history {
	h := history{IdSeed: rng.U64()}
	fresh := func(kind string, off int) op {
		pad := rng.Range(77, 500)
		switch rng.Intn(8) {
		case 0:
			pad = 77
		case 1:
			pad = cint("clientMaxPadLength")
		case 2:
			pad = rng.Range(77, cint("clientMaxPadLength"))
		}
		o := op{Kind: kind, Seed: rng.U64(), KeySeed: hex.EncodeToString(vlib.Pick(rng, keySeeds)), PadLen: pad, Off: off, Of: -1, SrvSeed: rng.U64()}
		if rng.Intn(3) == 0 {
			n := 64 + pad
			o.Cuts = o4h.Chunks(rng, vlib.Pick(rng, []string{"random", "mss", "two", "bounds"}), n, []int{32, n - 32, n - 16})
		}
		return o
	}
	// interleaved block: connections that are accepted first (WrapConn running, one byte short of
	// their handshake), others that connect later and complete, then the early ones complete,
	// then everything is replayed
	interleave := func() {
		var stalls, bs []int
		for k := rng.Range(1, 2); k > 0; k-- {
			off := vlib.Pick(rng, []int{-1, 0, 0, 1})
			if rng.Intn(6) == 0 {
				off = vlib.Pick(rng, []int{-2, 2})
			}
			h.Ops = append(h.Ops, fresh("stall", off))
			stalls = append(stalls, len(h.Ops)-1)
		}
		for k := rng.Range(1, 3); k > 0; k-- {
			h.Ops = append(h.Ops, fresh("fresh", vlib.Pick(rng, []int{-1, 0, 0, 1})))
			bs = append(bs, len(h.Ops)-1)
		}
		var fins []int
		for _, st := range stalls {
			h.Ops = append(h.Ops, op{Kind: "finish", Of: st, PadLen: h.Ops[st].PadLen, Off: h.Ops[st].Off, SrvSeed: rng.U64()})
			fins = append(fins, len(h.Ops)-1)
		}
		for _, b := range append(bs, fins...) {
			h.Ops = append(h.Ops, op{Kind: "replay", Of: b, SrvSeed: rng.U64()})
		}
	}
	blockAt := -1
	switch rng.Intn(4) {
	case 0, 1:
		blockAt = 0 // on the fresh bridge: every remembered entry is younger than the early connection
	case 2:
		blockAt = rng.Range(1, n-1)
	}
	for len(h.Ops) < n {
		if blockAt >= 0 && len(h.Ops) >= blockAt {
			blockAt = -1
			interleave()
			continue
		}
		switch x := rng.Intn(100); {
		case x < 40 || len(h.Ops) == 0:
			h.Ops = append(h.Ops, fresh("fresh", vlib.Pick(rng, []int{-1, 0, 0, 1})))
		case x < 58:
			h.Ops = append(h.Ops, fresh("fresh", vlib.Pick(rng, []int{-3, -2, 2, 3})))
		case x < 90:
			of := rng.Intn(len(h.Ops))
			for of >= 0 && h.Ops[of].Kind != "fresh" && h.Ops[of].Kind != "finish" {
				if h.Ops[of].Kind == "stall" {
					of = -1
					break
				}
				of = h.Ops[of].Of
			}
			if of < 0 {
				continue
			}
			o := op{Kind: "replay", Of: of, SrvSeed: rng.U64()}
			if rng.Intn(3) == 0 {
				n := 64 + h.Ops[of].PadLen
				o.Cuts = o4h.Chunks(rng, vlib.Pick(rng, []string{"random", "two", "bounds"}), n, []int{32, n - 32, n - 16})
			}
			h.Ops = append(h.Ops, o)
		case x < 96:
			h.Ops = append(h.Ops, fresh("burst", vlib.Pick(rng, []int{-1, 0, 1, 1, 2, -2})))
		default:
			// 16 simultaneous resubmissions of something seen before
			of := rng.Intn(len(h.Ops))
			if h.Ops[of].Kind == "fresh" {
				h.Ops = append(h.Ops, op{Kind: "burst", Of: of, SrvSeed: rng.U64()})
			}
		}
	}
	return h
}

func freshOp(rng *vlib.Rng, off int) op {
	return op{Kind: "fresh", Seed: rng.U64(), KeySeed: hex.EncodeToString(vlib.Pick(rng, keySeeds)), PadLen: rng.Range(77, 300), Off: off, Of: -1, SrvSeed: rng.U64()}
}

// genCapHistory: at-most-once at the edge of the property's hypothesis "fewer than maxFilterSize
// handshakes are being remembered". G is accepted first (the ELDEST entry), the filter is filled
// through the hook to exactly cap-2 and then cap-1 remembered values: a replay of G must still be
// rejected at both levels. One more fresh handshake makes it cap: from there on the model alone
// decides (the forced eviction takes the eldest entry, G).
func genCapHistory(rng *vlib.Rng, maxFilter int) history {
	h := history{IdSeed: rng.U64()}
	add := func(o op) int { h.Ops = append(h.Ops, o); return len(h.Ops) - 1 }
	g := add(freshOp(rng, vlib.Pick(rng, []int{0, 0, -1, 1})))
	rep := func(of int) { add(op{Kind: "replay", Of: of, SrvSeed: rng.U64()}) }
	add(op{Kind: "fill", Seed: rng.U64(), N: maxFilter - 2 - 1, Of: -1})
	rep(g) // cap-2 remembered
	if rng.Intn(2) == 0 {
		f := add(freshOp(rng, 0)) // cap-1 remembered
		rep(g)
		rep(f)
	} else {
		add(op{Kind: "fill", Seed: rng.U64(), N: 1, Of: -1}) // cap-1 remembered
		rep(g)
	}
	f2 := add(freshOp(rng, 0)) // cap remembered: the hypothesis ends here
	rep(f2)
	rep(g) // full: the eldest entry is evicted before the lookup — the model decides
	f3 := add(freshOp(rng, 0))
	rep(f3)
	rep(g)
	return h
}

// genAgedHistory: "cannot wait 3 h" — the filter is pre-aged through the hook: A inserted replayTTL
// minus a few seconds ago, a few more entries in between (past, increasing times), then a genuine
// handshake H over the wire and its replay; then a REAL pause until A has expired, a fresh
// handshake (its submission purges A) and H replayed again: H is a few seconds old, so it must
// still be rejected — the expiry of an older entry must not take younger ones with it.
func genAgedHistory(rng *vlib.Rng) history {
	h := history{IdSeed: rng.U64()}
	add := func(o op) int { h.Ops = append(h.Ops, o); return len(h.Ops) - 1 }
	ttlMs := int64(cint("replayTTL")) / 1_000_000
	lead := int64(rng.Range(2500, 3500)) // A expires this many ms from now
	add(op{Kind: "age", Seed: rng.U64(), AgeMs: ttlMs - lead, Of: -1})
	for _, ms := range []int64{ttlMs - 60_000, 2 * 3600_000, 3600_000 + int64(rng.Intn(1000_000)), 600_000, 5_000} {
		if rng.Intn(3) > 0 {
			add(op{Kind: "age", Seed: rng.U64(), AgeMs: ms, Of: -1})
		}
	}
	hh := add(freshOp(rng, vlib.Pick(rng, []int{0, 0, -1, 1})))
	add(op{Kind: "replay", Of: hh, SrvSeed: rng.U64()})
	h2 := add(freshOp(rng, 0))
	add(op{Kind: "sleep", AgeMs: lead + 700, Of: -1})
	if rng.Intn(2) == 0 {
		add(freshOp(rng, 0)) // a fresh handshake first: its submission purges A
	}
	add(op{Kind: "replay", Of: hh, SrvSeed: rng.U64()})
	add(op{Kind: "replay", Of: h2, SrvSeed: rng.U64()})
	add(freshOp(rng, 0))
	add(op{Kind: "replay", Of: hh, SrvSeed: rng.U64()})
	return h
}

// genConcHistory: one accepted handshake G, then rounds of DISTINCT fresh handshakes submitted
// simultaneously (16 goroutines released together), then replays of G and of a sample of them.
func genConcHistory(rng *vlib.Rng, rounds int) history {
	h := history{IdSeed: rng.U64()}
	add := func(o op) int { h.Ops = append(h.Ops, o); return len(h.Ops) - 1 }
	g := add(freshOp(rng, 0))
	var cbs []int
	for k := 0; k < rounds; k++ {
		cbs = append(cbs, add(op{Kind: "cburst", Seed: rng.U64(), N: 16, Of: -1, SrvSeed: rng.U64()}))
		if k%4 == 3 {
			add(op{Kind: "replay", Of: g, SrvSeed: rng.U64()})
		}
	}
	add(op{Kind: "replay", Of: g, SrvSeed: rng.U64()})
	for k := 0; k < 6; k++ {
		add(op{Kind: "replay", Of: vlib.Pick(rng, cbs), M: rng.Intn(16), SrvSeed: rng.U64()})
	}
	return h
}

func main() {
	r = vlib.NewRun("C04")
	for k, v := range obfs4.VerifConstants() {
		var n int
		if _, err := fmt.Sscan(v, &n); err == nil {
			K[k] = n
		}
	}
	r.Rule = "every submission of a history is a complete client handshake crafted by the reference client for an hour offset in -3..+3 (fresh), a byte-identical resubmission, or 16 simultaneous submissions; all are non-trivial; distinct = distinct (bridge seed, position, recipe)"
	r.Assumptions = []string{
		"the real server reads the wall clock: offsets are relative to the hour the harness observes before and after every submission; a history that straddles an hour boundary is re-run against a fresh factory",
		"the 3 h expiry of replay-filter entries is not waited for (carried by C04.at_most_once and the C11 tie)",
		"concurrent submissions are judged by the S oracle only (exactly one success); the model is fed one accepted submission",
		"interleaved connections (accepted early, completing later) are fed to the model in the order in which their handshakes complete, with the time of completion as the replay filter's clock reading",
	}
	o4h.InstallTape(r.Seed)
	rng := vlib.NewRng(r.Seed)
	keySeeds = srvh.GoodKeySeeds(rng.Fork(), 24)

	nWorkers := 8
	workers := make([]*worker, nWorkers)
	for i := range workers {
		workers[i] = &worker{srv: &srvh.Srv{D: r.Driver("o4srv")}, ref: &o4h.Ref{D: r.Driver("o4ref")}}
	}
	if r.ReplayIn != "" {
		var h history
		if err := r.LoadReplay(&h); err != nil {
			fmt.Println("cannot load replay:", err)
			r.Finish()
		}
		for try := 0; try < 3; try++ {
			if runHistory(workers[0], h) {
				break
			}
		}
		r.Finish()
	}
	var hs []history
	nH := r.Scale(40, 450)
	for i := 0; i < nH; i++ {
		hs = append(hs, genHistory(rng.Fork(), rng.Range(15, 40)))
	}
	maxFilter := 0
	fmt.Sscan(replayfilter.VerifConstants()["maxFilterSize"], &maxFilter)
	if maxFilter > 16 {
		for i, n := 0, r.Scale(2, 8); i < n; i++ {
			hs = append(hs, genCapHistory(rng.Fork(), maxFilter))
		}
	}
	for i, n := 0, r.Scale(3, 12); i < n; i++ {
		hs = append(hs, genAgedHistory(rng.Fork()))
	}
	rounds := 10
	if r.Mode == "search" {
		rounds = 40
	}
	for i, n := 0, r.Scale(2, 10); i < n; i++ {
		hs = append(hs, genConcHistory(rng.Fork(), rounds))
	}
	// 16 simultaneous submissions of one fresh blob to a bridge that remembers nothing yet
	for i, n := 0, r.Scale(150, 1200); i < n; i++ {
		fr := rng.Fork()
		o := freshOp(fr, 0)
		o.Kind, o.PadLen = "burst", fr.Range(77, 120)
		hs = append(hs, history{IdSeed: fr.U64(), Ops: []op{o}})
	}
	ch := make(chan history)
	var wg sync.WaitGroup
	for _, w := range workers {
		wg.Add(1)
		go func(w *worker) {
			defer wg.Done()
			for h := range ch {
				for try := 0; try < 3; try++ {
					if runHistory(w, h) {
						break
					}
					r.Count("retries", "hour-changed")
				}
			}
		}(w)
	}
	for _, h := range hs {
		ch <- h
	}
	close(ch)
	wg.Wait()
	r.Finish()
}
