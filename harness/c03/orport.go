// C03, family `orport`: the glue around WrapConn. The real obfs4proxy serverHandler with the real
// obfs4 server factory runs in a child process (obfs4proxy built with -tags verif, hook command
// c03.orport) on an in-memory peer conn with virtual deadlines, while the ORPort is healthy,
// refuses connections, or accepts and hangs up. For a peer without a valid handshake the state of
// the ORPort must not matter: no byte, the conn closed only when the bridge's close deadline
// fires — the same deadline whatever the ORPort does — and the ORPort is not even contacted.
package main

import (
	"bufio"
	"fmt"
	"io"
	"os"
	"os/exec"
	"path/filepath"
	"strconv"
	"strings"
	"time"

	"verif/harness/o4h"
	"verif/harness/vlib"
)

type orHook struct {
	cmd   *exec.Cmd
	in    io.WriteCloser
	lines chan string
	state string
}

func buildOrHook() (string, error) {
	repo := os.Getenv("VERIF_REPO")
	if repo == "" {
		repo = "/repo"
	}
	dir, err := os.MkdirTemp("", "c03hook")
	if err != nil {
		return "", err
	}
	out := filepath.Join(dir, "obfs4proxy-verif")
	c := exec.Command("go", "build", "-tags", "verif", "-o", out, "./obfs4proxy")
	c.Dir = repo
	c.Env = append(os.Environ(), "GOFLAGS=-mod=mod", "GOPROXY=off", "GOSUMDB=off", "GOTOOLCHAIN=local", "CGO_ENABLED=0")
	if b, err := c.CombinedOutput(); err != nil {
		return "", fmt.Errorf("go build -tags verif ./obfs4proxy in %s: %v\n%s", repo, err, b)
	}
	return out, nil
}

func startOrHook(bin string) (*orHook, error) {
	c := exec.Command(bin)
	c.Env = append(os.Environ(), "OBFS4PROXY_VERIF_DRIVER=1")
	in, _ := c.StdinPipe()
	out, _ := c.StdoutPipe()
	c.Stderr = io.Discard
	if err := c.Start(); err != nil {
		return nil, err
	}
	st, err := os.MkdirTemp("", "c03state")
	if err != nil {
		return nil, err
	}
	h := &orHook{cmd: c, in: in, lines: make(chan string, 4), state: st}
	go func() {
		rd := bufio.NewReaderSize(out, 1<<20)
		for {
			l, err := rd.ReadString('\n')
			if err != nil {
				close(h.lines)
				return
			}
			h.lines <- strings.TrimRight(l, "\n")
		}
	}()
	return h, nil
}

func (h *orHook) call(line string) string {
	if _, err := io.WriteString(h.in, line+"\n"); err != nil {
		return "hook-error write " + err.Error()
	}
	select {
	case rep, ok := <-h.lines:
		if !ok {
			return "hook-error the driver child exited"
		}
		return rep
	case <-time.After(30 * time.Second):
		return "hook-error timeout"
	}
}

func (h *orHook) stop() {
	h.in.Close()
	h.cmd.Process.Kill()
	h.cmd.Wait()
	os.RemoveAll(h.state)
}

type orRep struct {
	ok        bool
	raw       string
	closed    int
	cause     string
	closeOff  time.Duration
	written   int
	deadlines string
	accepts   int
	panicked  int
	stuck     int
	elapsed   time.Duration
}

func parseOrRep(s string) orRep {
	r := orRep{raw: s}
	f := strings.Fields(s)
	if len(f) < 2 || f[0] != "ok" {
		return r
	}
	r.ok = true
	for _, kv := range f[1:] {
		p := strings.SplitN(kv, "=", 2)
		if len(p) != 2 {
			continue
		}
		n, _ := strconv.Atoi(p[1])
		switch p[0] {
		case "closed":
			r.closed = n
		case "cause":
			r.cause = p[1]
		case "closeoff_ms":
			r.closeOff = time.Duration(n) * time.Millisecond
		case "written":
			r.written = n
		case "deadlines":
			r.deadlines = p[1]
		case "oraccepts":
			r.accepts = n
		case "panic":
			r.panicked = n
		case "stuck":
			r.stuck = n
		case "elapsed_ms":
			r.elapsed = time.Duration(n) * time.Millisecond
		}
	}
	return r
}

// runOrGroup: every probe of the group against serverHandler with the ORPort in g.OrMode.
func runOrGroup(w *worker, hk *orHook, g group) bool {
	id := o4h.NewIdentity(vlib.NewRng(g.IdSeed), 0)
	fname := fmt.Sprintf("O%d", g.IdSeed)
	_, cd, ok := w.srv.FacNew(fname, id)
	if !ok {
		violate("factory-setup", "correspondence", "model fac.new failed", g, -1, w)
		return true
	}
	want := time.Duration(30+cd) * time.Second
	hour := o4h.Hour()
	var earlier []built
	for i, p := range g.Probes {
		b, err := buildProbe(w, id, p, hour, earlier)
		if err != nil {
			violate("probe-build", "correspondence", err.Error(), g, i, w)
			return true
		}
		earlier = append(earlier, b)
		rep := parseOrRep(hk.call(fmt.Sprintf("c03.orport %s %s %s %s %s %s", hk.state, vlib.Hex(id.NodeID), vlib.Hex(id.Priv), vlib.Hex(id.LenSeed), g.OrMode, vlib.Hex(b.wire))))
		if o4h.Hour() != hour {
			return false
		}
		if b.cli != "" {
			w.ref.Drop(b.cli)
		}
		key := fmt.Sprintf("or/%d/%s/%d/%s/%d", g.IdSeed, g.OrMode, i, p.Class, p.Seed)
		r.Case(key, true)
		r.Validated(1)
		r.Count("class", "orport("+g.OrMode+")/"+p.Class)
		desc := fmt.Sprintf("serverHandler, ORPort %s, bridge seed %d (closeDelay %d s), probe #%d class %s (%d bytes): %s", g.OrMode, g.IdSeed, cd, i, p.Class, len(b.wire), rep.raw)
		if !rep.ok {
			violate("orport-hook-failed", "correspondence", desc, g, i, w)
			continue
		}
		slack := rep.elapsed + 200*time.Millisecond
		switch {
		case rep.panicked != 0:
			violate("serverhandler-panics", "impl-oracle", "serverHandler panicked on an invalid peer | "+desc, g, i, w)
		case rep.stuck != 0:
			violate("no-deadline-armed", "impl-oracle", "serverHandler does not return although every armed deadline fires at once | "+desc, g, i, w)
		}
		if rep.written != 0 {
			violate("bytes-written-to-invalid-peer", "impl-oracle", fmt.Sprintf("%d bytes written | %s", rep.written, desc), g, i, w)
		}
		if rep.closed == 1 && rep.cause != "timeout" {
			violate("closed-early", "impl-oracle",
				"the peer conn was closed although no deadline had fired and the peer had not disconnected: the drop time depends on the state of the ORPort, not on the bridge seed | "+desc, g, i, w)
		} else if rep.closed == 1 && (rep.closeOff+slack < 30*time.Second || rep.closeOff-slack >= 90*time.Second) {
			violate("close-time-out-of-range", "impl-oracle", desc, g, i, w)
		}
		if rep.accepts != 0 {
			violate("orport-contacted-for-invalid-peer", "impl-oracle",
				fmt.Sprintf("the ORPort was dialled %d time(s) for a peer that never completed a handshake (the connection's fate then hangs on the ORPort, not only on the bridge seed) | %s", rep.accepts, desc), g, i, w)
		}
		// C: the close deadline the model derives from the seed
		if rep.closed == 1 && rep.cause == "timeout" {
			if d := rep.closeOff - want; d < -100*time.Millisecond || d > slack {
				violate("model-impl-disagree/orport-close-deadline", "correspondence",
					fmt.Sprintf("model: closed when +%.3fs fires | %s", want.Seconds(), desc), g, i, w)
			}
			if n := len(strings.Split(rep.deadlines, ",")); n != 2 || !strings.HasPrefix(rep.deadlines, "D+") || !strings.Contains(rep.deadlines, ",RD+") {
				violate("model-impl-disagree/orport-conn-actions", "correspondence", "model: SetDeadline, SetReadDeadline, Close | "+desc, g, i, w)
			}
		}
	}
	return true
}

func genOrGroups(rng *vlib.Rng) []group {
	idSeed := rng.U64()
	var probes []probe
	add := func(p probe) { probes = append(probes, p) }
	add(probe{Class: "empty", Kind: "junk", SameAs: -1, Expect: "silent"})
	for _, n := range []int{vlib.Pick(rng, []int{1, 63, 141, 500}), vlib.Pick(rng, []int{8192, 9000, 16385})} {
		add(probe{Class: "random", Kind: "junk", Seed: rng.U64(), Len: n, SameAs: -1, Expect: "silent"})
	}
	{
		p := hsProbe(rng, "truncated", 0)
		p.PadLen = rng.Range(77, 300)
		p.Mut = fmt.Sprintf("trunc:%d", rng.Range(1, hsLen(p)-1))
		add(p)
	}
	{
		p := hsProbe(rng, "bitflip-mac", 0)
		p.PadLen = rng.Range(77, 300)
		p.Mut = fmt.Sprintf("flip:%d:%d", hsLen(p)-1-rng.Intn(16), rng.Intn(8))
		add(p)
	}
	{
		p := hsProbe(rng, "wrong-hour", vlib.Pick(rng, []int{-3, -2, 2, 3}))
		p.PadLen = rng.Range(77, 300)
		add(p)
	}
	var gs []group
	for _, mode := range []string{"ok", "refuse", "hangup"} {
		gs = append(gs, group{IdSeed: idSeed, OrMode: mode, Probes: probes})
	}
	return gs
}
