// C03 — the obfs4 server is silent to anyone who cannot prove knowledge of the bridge line.
//
// The real ServerFactory(stateDir, args).WrapConn runs on a scripted conn with *virtual* deadlines
// (the armed deadline fires at once when the script says so or has nothing more to deliver), the
// same events go to the Lean model of WrapConn/serverHandshake/closeAfterDelay (driver `o4srv`),
// and everything the peer can observe is compared: bytes written, the deadline calls with their
// offsets from accept, the close; plus the class of the error returned to the caller.
//
// S oracle (written from the property text, not from the model): a probe that is not — by the
// way it was built — a fresh valid handshake of this bridge for hour-1/hour/hour+1 delivered
// before the handshake timeout gets 0 bytes, exactly one close, and when the close is caused by
// a deadline that deadline is the same for every probe class of one bridge and lies in
// [30 s, 90 s) after accept; a valid fresh handshake IS answered and the independent (Lean)
// reference client completes its handshake on the answer.
package main

import (
	"encoding/hex"
	"encoding/json"
	"fmt"
	"strings"
	"sync"
	"time"

	"gitlab.com/yawning/obfs4.git/common/replayfilter"
	"gitlab.com/yawning/obfs4.git/transports/obfs4"

	"verif/harness/o4h"
	"verif/harness/srvh"
	"verif/harness/vlib"
)

// probe is a *recipe*: the bytes are rebuilt from it for the hour the run observes.
type probe struct {
	Class   string   `json:"class"`
	Kind    string   `json:"kind"` // junk | hs | low | cburst (Len DISTINCT genuine handshakes plus duplicates up to 16 conns, completing simultaneously) | fill (Len direct TestAndSet calls with fresh random 16-byte values on the bridge's replay filter)
	Seed    uint64   `json:"seed"`
	Len     int      `json:"len,omitempty"`      // junk length
	KeySeed string   `json:"key_seed,omitempty"` // hs: 32 bytes on which NewKeypair(true) succeeds at once
	PadLen  int      `json:"pad_len,omitempty"`
	HourOff int      `json:"hour_off,omitempty"`
	Ident   string   `json:"ident,omitempty"` // "" | otherB | otherID
	Mut     string   `json:"mut,omitempty"`   // trunc:n | ext:n | flip:pos:bit
	LowIdx  int      `json:"low_idx,omitempty"`
	Member  int      `json:"member,omitempty"` // same_as of a cburst: which of its distinct handshakes
	SameAs  int      `json:"same_as"`          // >= 0: byte-identical to the stream of that earlier probe
	Cuts    []int    `json:"cuts,omitempty"`   // chunk sizes (rest in one chunk)
	Script  []string `json:"script,omitempty"` // c = next chunk, t = deadline fires, e = EOF, s<ms> = sleep
	SrvSeed uint64   `json:"srv_seed"`
	Expect  string   `json:"expect"` // silent | answered | either   (by construction)
}

type group struct {
	IdSeed  uint64  `json:"id_seed"`
	Probes  []probe `json:"probes"`
	Sleeper bool    `json:"sleeper,omitempty"`
	OrMode  string  `json:"or_mode,omitempty"` // family orport: the probes go to the real serverHandler (child process), ORPort ok | refuse | hangup
}

type worker struct {
	srv *srvh.Srv
	ref *o4h.Ref
}

var (
	r        *vlib.Run
	K        = map[string]int{}
	keySeeds [][]byte
	lowReprs [][]byte
)

func cint(name string) int {
	v, ok := K[name]
	if !ok {
		panic("constant " + name + " missing from obfs4.VerifConstants()")
	}
	return v
}

// ---------------------------------------------------------------- building a probe's byte stream

type built struct {
	members [][]byte // cburst: the distinct handshakes
	wire  []byte
	cli   string // reference client session (hs probes), for verifying the answer
	marks []int
}

func buildProbe(w *worker, id o4h.Identity, p probe, hour int64, earlier []built) (built, error) {
	rng := vlib.NewRng(p.Seed)
	var b built
	switch {
	case p.SameAs >= 0:
		if p.SameAs >= len(earlier) {
			return b, fmt.Errorf("same_as out of range")
		}
		if ms := earlier[p.SameAs].members; ms != nil {
			if p.Member < 0 || p.Member >= len(ms) {
				return b, fmt.Errorf("member out of range")
			}
			b.wire = append([]byte(nil), ms[p.Member]...)
			n := len(b.wire)
			b.marks = []int{32, n - 32, n - 16, n}
		} else {
			b.wire = append([]byte(nil), earlier[p.SameAs].wire...)
			b.marks = earlier[p.SameAs].marks
		}
	case p.Kind == "junk":
		b.wire = rng.Bytes(p.Len)
	case p.Kind == "hs":
		ks, err := hex.DecodeString(p.KeySeed)
		if err != nil || len(ks) != 32 {
			return b, fmt.Errorf("bad key seed")
		}
		nodeID, pub := id.NodeID, id.Pub
		switch p.Ident {
		case "otherB":
			pub = o4h.NewIdentity(rng, 0).Pub
		case "otherID":
			nodeID = rng.Bytes(20)
		}
		tape := srvh.ClientTape(rng, ks, p.PadLen)
		b.cli = w.ref.Fresh("c")
		rep := w.ref.CliNew(b.cli, nodeID, pub, tape, hour+int64(p.HourOff))
		if rep.Class != "ok" {
			return b, fmt.Errorf("reference client: %s", rep.Raw)
		}
		if rep.N != p.PadLen {
			return b, fmt.Errorf("reference client padLen %d, wanted %d", rep.N, p.PadLen)
		}
		b.wire = rep.Data
		n := len(b.wire)
		b.marks = []int{32, n - 32, n - 16, n}
	case p.Kind == "low":
		pad := rng.Bytes(p.PadLen)
		b.wire = w.srv.Blob(id.NodeID, id.Pub, lowReprs[p.LowIdx%len(lowReprs)], pad, hour+int64(p.HourOff))
		if b.wire == nil {
			return b, fmt.Errorf("model could not craft the blob")
		}
		n := len(b.wire)
		b.marks = []int{32, n - 32, n - 16, n}
	default:
		return b, fmt.Errorf("unknown kind %q", p.Kind)
	}
	if p.Mut != "" {
		f := strings.Split(p.Mut, ":")
		var a, c int
		if len(f) > 1 {
			fmt.Sscan(f[1], &a)
		}
		if len(f) > 2 {
			fmt.Sscan(f[2], &c)
		}
		switch f[0] {
		case "trunc":
			if a < len(b.wire) {
				b.wire = b.wire[:a]
			}
		case "ext":
			b.wire = append(b.wire, rng.Bytes(a)...)
		case "flip":
			if a < len(b.wire) {
				b.wire[a] ^= 1 << uint(c%8)
			}
		}
	}
	return b, nil
}

// steps lays the byte stream out as the scripted events.
func steps(p probe, wire []byte) []srvh.Step {
	chunks := o4h.Split(wire, p.Cuts)
	var out []srvh.Step
	ci := 0
	for _, tok := range p.Script {
		switch {
		case tok == "c":
			if ci < len(chunks) {
				out = append(out, srvh.Step{K: "c", B: chunks[ci], N: len(chunks[ci])})
				ci++
			}
		case tok == "t" || tok == "e":
			out = append(out, srvh.Step{K: tok})
		case strings.HasPrefix(tok, "s"):
			var ms int
			fmt.Sscan(tok[1:], &ms)
			out = append(out, srvh.Step{K: "s", Ms: ms})
		}
	}
	for ; ci < len(chunks); ci++ {
		out = append(out, srvh.Step{K: "c", B: chunks[ci], N: len(chunks[ci])})
	}
	return out
}

// ---------------------------------------------------------------- executing a group

type facRef struct {
	mu       sync.Mutex
	have     bool
	lo, hi   time.Duration
	fromCls  string
	cdModel  int
	cdImpl   int
	answered int
}

func violate(sig, kind, desc string, g group, upto int, w *worker) {
	rc := group{IdSeed: g.IdSeed, Sleeper: g.Sleeper, OrMode: g.OrMode, Probes: append([]probe(nil), g.Probes[:upto+1]...)}
	tail := w.srv.Log
	if len(tail) > 3 {
		tail = tail[len(tail)-3:]
	}
	r.Violate(sig, kind, desc+" | last model ops: "+strings.Join(tail, " ;; "), rc)
}

func lenClass(n int) string {
	switch {
	case n == 0:
		return "0"
	case n < 64:
		return "1..63"
	case n < 141:
		return "64..140"
	case n < 8192:
		return "141..8191"
	case n == 8192:
		return "8192"
	case n <= 16384:
		return "8193..16384"
	}
	return ">16384"
}

// runGroup executes the probes of one bridge in order. Returns false if the epoch hour changed
// under the group (the caller retries).
func runGroup(w *worker, g group, record bool) bool {
	idr := vlib.NewRng(g.IdSeed)
	id := o4h.NewIdentity(idr, 0)
	srvh.WrapMu.Lock() // replayfilter.New draws its SipHash key from the shared tape
	sf := id.ServerFactory()
	srvh.WrapMu.Unlock()
	fname := fmt.Sprintf("F%d", g.IdSeed)
	pub, cdModel, ok := w.srv.FacNew(fname, id)
	cdImpl, filter, hok := obfs4.VerifServerFactoryState(sf)
	if !ok || !hok {
		if record {
			violate("factory-setup", "correspondence", fmt.Sprintf("model fac.new ok=%v, hook ok=%v", ok, hok), g, -1, w)
		}
		return true
	}
	if record {
		r.Count("close_delay_s", fmt.Sprintf("%02d..%02d", cdImpl/10*10, cdImpl/10*10+9))
		if hex.EncodeToString(pub) != hex.EncodeToString(id.Pub) {
			violate("identity-key-differs", "correspondence", "model and implementation derive different identity public keys", g, -1, w)
		}
		if cdModel != cdImpl {
			violate("close-delay-differs", "correspondence",
				fmt.Sprintf("closeDelay of drbg-seed %x: implementation %d s, model %d s", id.LenSeed, cdImpl, cdModel), g, -1, w)
		}
		if cdImpl < 0 || cdImpl >= 60 {
			violate("close-delay-out-of-range", "impl-oracle", fmt.Sprintf("closeDelay %d s not in [0,60)", cdImpl), g, -1, w)
		}
	}
	fr := &facRef{cdModel: cdModel, cdImpl: cdImpl}
	hour := o4h.Hour()
	var earlier []built
	type pending struct {
		i    int
		p    probe
		b    built
		st   []srvh.Step
		res  srvh.Result
		fill bool
		flen int
		now  int64
		cb   []srvh.BurstRes // cburst: per conn
		cbOf []int           // cburst: which distinct handshake each conn carried
		cbM  [][]byte
		cbC  []string // reference client sessions of the distinct handshakes
	}
	var done []pending
	for i, p := range g.Probes {
		if p.Kind == "fill" {
			// bring the real replay filter towards / to / beyond its capacity without 102400 handshakes
			rnd := vlib.NewRng(p.Seed)
			for k := 0; k < p.Len; k++ {
				filter.TestAndSet(time.Now(), rnd.Bytes(16))
			}
			_, fl := replayfilter.VerifLen(filter)
			earlier = append(earlier, built{})
			done = append(done, pending{i: i, p: p, fill: true, flen: fl, now: srvh.NowNs()})
			continue
		}
		if p.Kind == "cburst" {
			crng := vlib.NewRng(p.Seed)
			var members [][]byte
			var clis []string
			for k := 0; k < p.Len; k++ {
				cli := w.ref.Fresh("c")
				rep := w.ref.CliNew(cli, id.NodeID, id.Pub, srvh.ClientTape(crng, vlib.Pick(crng, keySeeds), crng.Range(77, 140)), hour+int64(vlib.Pick(crng, []int{0, 0, -1, 1})))
				if rep.Class != "ok" {
					violate("probe-build", "correspondence", "reference client: "+rep.Raw, g, i, w)
					return true
				}
				members = append(members, rep.Data)
				clis = append(clis, cli)
			}
			var blobs [][]byte
			var of []int
			for k := 0; k < 16; k++ {
				m := k % p.Len
				if k >= p.Len {
					m = crng.Intn(p.Len)
				}
				blobs = append(blobs, members[m])
				of = append(of, m)
			}
			res, h0, h1 := srvh.BurstOf(sf, blobs)
			if h0 != hour || h1 != hour {
				return false
			}
			earlier = append(earlier, built{members: members})
			done = append(done, pending{i: i, p: p, cb: res, cbOf: of, cbM: members, cbC: clis, now: srvh.NowNs()})
			continue
		}
		b, err := buildProbe(w, id, p, hour, earlier)
		if err != nil {
			if record {
				violate("probe-build", "correspondence", err.Error(), g, i, w)
			}
			return true
		}
		earlier = append(earlier, b)
		st := steps(p, b.wire)
		steer := vlib.NewRng(p.SrvSeed).Bytes(32*40 + 8*8 + cint("serverMaxPadLength") + 8)
		res := srvh.RunWrap(sf, st, steer, g.Sleeper)
		if res.Hour0 != hour || res.Hour1 != hour {
			return false
		}
		done = append(done, pending{i: i, p: p, b: b, st: st, res: res})
	}
	if !record {
		return true
	}
	// evaluate (the model is fed the same history in the same order)
	for _, d := range done {
		if d.fill {
			n, how := w.srv.FacFill(fname, d.now, d.p.Len)
			r.Count("class", "filter-fill("+how+")")
			if n != d.flen {
				violate("replay-filter-size-differs", "correspondence",
					fmt.Sprintf("after %d direct TestAndSet calls with fresh values the replay filter holds %d entries, the model %d (%s)", d.p.Len, d.flen, n, how), g, d.i, w)
			}
			continue
		}
		if d.cb != nil {
			// S: every distinct genuine handshake is answered exactly once — its duplicates are replays
			nAns := make([]int, len(d.cbM))
			for k, br := range d.cb {
				m := d.cbOf[k]
				if br.OK && len(br.Wire) > 0 {
					nAns[m]++
					if nAns[m] == 1 {
						if rep := w.ref.CliFeed(d.cbC[m], br.Wire); rep.Class != "ok" {
							violate("answer-rejected-by-reference-client", "impl-oracle",
								fmt.Sprintf("bridge seed %d, probe #%d cburst member %d: the reference client does not accept the answer (%s)", g.IdSeed, d.i, m, rep.Raw), g, d.i, w)
						}
					}
				} else if len(br.Wire) != 0 {
					violate("bytes-written-to-invalid-peer", "impl-oracle",
						fmt.Sprintf("bridge seed %d, probe #%d cburst conn %d: %d bytes written although WrapConn failed (%s)", g.IdSeed, d.i, k, len(br.Wire), br.Class), g, d.i, w)
				}
			}
			for m, n := range nAns {
				r.Case(fmt.Sprintf("%d/%d/cburst/%d", g.IdSeed, d.i, m), true)
				r.Count("class", "concurrent-genuine")
				switch {
				case n == 0:
					violate("valid-handshake-not-answered", "impl-oracle",
						fmt.Sprintf("bridge seed %d, probe #%d: a genuine handshake submitted together with %d others on a fresh bridge was not answered", g.IdSeed, d.i, len(d.cb)-1), g, d.i, w)
				case n > 1:
					violate("bytes-written-to-invalid-peer", "impl-oracle",
						fmt.Sprintf("bridge seed %d, probe #%d: %d simultaneous copies of one handshake were answered (all but one are replays) on a bridge that remembered nothing", g.IdSeed, d.i, n), g, d.i, w)
				}
				// model: the same handshakes one after the other (the session key is immaterial here)
				tape := vlib.NewRng(d.p.SrvSeed+uint64(m)).Bytes(32*40 + 8*8 + cint("serverMaxPadLength") + 8)
				mr := w.srv.ConnRun(fname, d.now+int64(m), tape, []string{fmt.Sprintf("r:%s:%d:%d", vlib.Hex(d.cbM[m]), d.now+int64(m), hour)})
				if mr.ErrClass != "ok" {
					violate("model-impl-disagree/concurrent-genuine", "correspondence",
						fmt.Sprintf("bridge seed %d, probe #%d member %d: model %s", g.IdSeed, d.i, m, mr.Render()), g, d.i, w)
				}
				r.Validated(1)
			}
			for _, c := range d.cbC {
				w.ref.Drop(c)
			}
			continue
		}
		p, res := d.p, d.res
		evs := res.Conn.ModelEvents(hour)
		m := w.srv.ConnRun(fname, res.StartNs, res.TapeUsed, evs)
		key, _ := json.Marshal(struct {
			G uint64
			P probe
		}{g.IdSeed, p})
		nontrivial := len(d.b.wire) > 0 && (p.Kind != "junk" || len(d.b.wire) >= 141)
		r.Case(string(key), nontrivial)
		r.Validated(1)
		r.Count("class", p.Class)
		r.Count("stream_len", lenClass(len(d.b.wire)))
		r.Count("reads", func() string {
			n := 0
			for _, s := range d.st {
				if s.K == "c" {
					n++
				}
			}
			switch {
			case n <= 1:
				return fmt.Sprint(n)
			case n <= 8:
				return "2..8"
			}
			return ">8"
		}())
		r.Count("impl_result", res.ErrClass)
		r.Count("impl_trace", canonTrace(res.Tokens))
		if d.i > 2 && len(p.Cuts) <= 8 {
			r.Sample(5, map[string]interface{}{"class": p.Class, "len": len(d.b.wire), "script": p.Script, "cuts": p.Cuts,
				"impl": res.Render(), "model": m.Render()})
		}
		desc := fmt.Sprintf("bridge seed %d (closeDelay %d s), probe #%d class %s (%d bytes, cuts %v, script %v): implementation [%s], model [%s]",
			g.IdSeed, cdImpl, d.i, p.Class, len(d.b.wire), p.Cuts, p.Script, res.Render(), m.Render())

		// ---- S: the property itself
		if res.Panic != nil {
			violate("wrapconn-panics", "impl-oracle", fmt.Sprintf("WrapConn panicked: %v | %s", res.Panic, desc), g, d.i, w)
			continue
		}
		switch p.Expect {
		case "silent":
			if res.Written != 0 {
				violate("bytes-written-to-invalid-peer", "impl-oracle",
					fmt.Sprintf("%d bytes written to a peer without a valid handshake | %s", res.Written, desc), g, d.i, w)
			}
			if res.Blocked {
				violate("no-deadline-armed", "impl-oracle", "server blocks in Read with no deadline armed: never closes | "+desc, g, d.i, w)
			} else if res.Closes != 1 {
				violate("not-closed-by-delay", "impl-oracle",
					fmt.Sprintf("%d closes before WrapConn returned (the caller closes at once on error: no bridge-specific delay) | %s", res.Closes, desc), g, d.i, w)
			} else if res.CloseByTimeout {
				// the close deadline relative to the real accept time lies in [lo, hi]
				lo, hi := res.CloseOff-res.Slack-srvh.Tolerance, res.CloseOff+srvh.Tolerance
				if hi < 30*time.Second || lo >= 90*time.Second {
					violate("close-time-out-of-range", "impl-oracle",
						fmt.Sprintf("closed when the deadline +%.3fs fired, not in [30 s, 90 s) | %s", res.CloseOff.Seconds(), desc), g, d.i, w)
				}
				if !fr.have {
					fr.have, fr.lo, fr.hi, fr.fromCls = true, lo, hi, p.Class
				} else if hi < fr.lo || lo > fr.hi {
					violate("close-time-depends-on-input", "impl-oracle",
						fmt.Sprintf("close deadline +%.3fs for class %s but +%.3fs..+%.3fs for class %s on the same bridge | %s",
							res.CloseOff.Seconds(), p.Class, fr.lo.Seconds(), fr.hi.Seconds(), fr.fromCls, desc), g, d.i, w)
				} else {
					if lo > fr.lo {
						fr.lo = lo
					}
					if hi < fr.hi {
						fr.hi = hi
					}
				}
			} else if !scriptHasEOF(d.st) && !g.Sleeper {
				violate("closed-early", "impl-oracle", "closed although neither a deadline fired nor the peer disconnected | "+desc, g, d.i, w)
			}
		case "answered":
			fr.answered++
			if res.Written == 0 || res.Closes != 0 || res.ErrClass != "ok" {
				violate("valid-handshake-not-answered", "impl-oracle", "a fresh valid handshake was not answered | "+desc, g, d.i, w)
			} else if d.b.cli != "" {
				rep := w.ref.CliFeed(d.b.cli, res.Wire)
				if rep.Class != "ok" {
					violate("answer-rejected-by-reference-client", "impl-oracle",
						fmt.Sprintf("the reference client does not accept the server's answer (%s) | %s", rep.Raw, desc), g, d.i, w)
				}
			}
		}
		// ---- C: model vs implementation
		if why := srvh.Compare(res, m); why != "" {
			violate("model-impl-disagree/"+strings.ReplaceAll(why, " ", "-"), "correspondence", why+" | "+desc, g, d.i, w)
		} else if m.Used != len(res.TapeUsed) {
			violate("model-impl-disagree/tape", "correspondence",
				fmt.Sprintf("implementation drew %d random bytes, model %d | %s", len(res.TapeUsed), m.Used, desc), g, d.i, w)
		}
		if d.b.cli != "" {
			w.ref.Drop(d.b.cli)
		}
	}
	if ml, fl := replayfilter.VerifLen(filter); ml != fl || fl != w.srv.FacLen(fname) {
		violate("replay-filter-size-differs", "correspondence",
			fmt.Sprintf("replay filter holds %d/%d entries, model %d", ml, fl, w.srv.FacLen(fname)), g, len(g.Probes)-1, w)
	}
	return true
}

func canonTrace(toks []string) string {
	out := make([]string, len(toks))
	for i, t := range toks {
		if strings.HasPrefix(t, "W:") {
			t = "W"
		}
		out[i] = t
	}
	return strings.Join(out, " ")
}

func scriptHasEOF(st []srvh.Step) bool {
	for _, s := range st {
		if s.K == "e" {
			return true
		}
	}
	return false
}

// ---------------------------------------------------------------- generators

var junkLens = []int{1, 63, 64, 140, 141, 142, 500, 4096, 8191, 8192, 8193, 12000, 16383, 16384, 16385, 24576}

func randCuts(rng *vlib.Rng, n int, marks []int) []int {
	return o4h.Chunks(rng, vlib.Pick(rng, o4h.ChunkClasses), n, marks)
}

// pauseScript inserts a "deadline fires" (and sometimes a second one, or an EOF) at a random point.
func pauseScript(rng *vlib.Rng, nChunks int) []string {
	var s []string
	at := rng.Intn(nChunks + 1)
	for i := 0; i < nChunks; i++ {
		if i == at {
			s = append(s, "t")
		}
		s = append(s, "c")
	}
	if at == nChunks {
		s = append(s, "t")
	}
	switch rng.Intn(4) {
	case 0:
		s = append(s, "e")
	case 1:
		s = append(s, "t")
	}
	return s
}

func hsProbe(rng *vlib.Rng, class string, hourOff int) probe {
	pad := 77
	switch rng.Intn(6) {
	case 0:
		pad = 77
	case 1:
		pad = cint("clientMaxPadLength")
	case 2:
		pad = rng.Range(77, cint("clientMaxPadLength"))
	default:
		pad = rng.Range(77, 600)
	}
	return probe{Class: class, Kind: "hs", Seed: rng.U64(), KeySeed: hex.EncodeToString(vlib.Pick(rng, keySeeds)),
		PadLen: pad, HourOff: hourOff, SameAs: -1, SrvSeed: rng.U64(), Expect: "silent"}
}

func hsLen(p probe) int { return 32 + p.PadLen + 32 }

func genGroup(rng *vlib.Rng) group {
	g := group{IdSeed: rng.U64()}
	add := func(p probe) int { g.Probes = append(g.Probes, p); return len(g.Probes) - 1 }
	marksOf := func(n int) []int { return []int{32, n - 32, n - 16, n} }

	// nothing at all / immediate disconnect
	add(probe{Class: "empty", Kind: "junk", Len: 0, SameAs: -1, SrvSeed: rng.U64(), Expect: "silent"})
	if rng.Intn(2) == 0 {
		add(probe{Class: "empty-eof", Kind: "junk", Len: 0, SameAs: -1, Script: []string{"e"}, SrvSeed: rng.U64(), Expect: "silent"})
	}
	// random bytes of every length class
	for k := 0; k < 4; k++ {
		n := vlib.Pick(rng, junkLens)
		if rng.Intn(4) == 0 {
			n = rng.Range(1, 3*8192)
		}
		p := probe{Class: "random", Kind: "junk", Seed: rng.U64(), Len: n, SameAs: -1, SrvSeed: rng.U64(), Expect: "silent"}
		p.Cuts = randCuts(rng, n, []int{64, 141, 8192, 16384})
		switch rng.Intn(4) {
		case 0:
			p.Script = pauseScript(rng, len(p.Cuts))
			p.Class = "random+pause"
		case 1:
			for range p.Cuts {
				p.Script = append(p.Script, "c")
			}
			p.Script = append(p.Script, "e")
			p.Class = "random+eof"
		}
		add(p)
	}
	// fresh valid handshakes (hour -1, 0, +1): answered
	var accepted []int
	for _, off := range []int{0, vlib.Pick(rng, []int{-1, 1})} {
		p := hsProbe(rng, fmt.Sprintf("valid(hour%+d)", off), off)
		p.Cuts = randCuts(rng, hsLen(p), marksOf(hsLen(p)))
		p.Expect = "answered"
		accepted = append(accepted, add(p))
	}
	// valid, followed by more bytes in a *separate* read: the boundary at its end is a read boundary
	{
		p := hsProbe(rng, "valid+later-bytes", 0)
		p.Mut = fmt.Sprintf("ext:%d", rng.Range(1, 3000))
		p.Cuts = []int{hsLen(p)}
		p.Expect = "answered"
		accepted = append(accepted, add(p))
	}
	// replays of accepted handshakes
	for _, a := range accepted {
		if rng.Intn(3) > 0 {
			n := hsLen(g.Probes[a])
			p := probe{Class: "replay", Kind: "hs", SameAs: a, SrvSeed: rng.U64(), Expect: "silent"}
			if g.Probes[a].Mut == "" {
				p.Cuts = randCuts(rng, n, marksOf(n))
			} else {
				p.Cuts = []int{n}
			}
			add(p)
		}
	}
	// truncated / extended in the same read / bit-flipped
	{
		p := hsProbe(rng, "truncated", 0)
		n := hsLen(p)
		cut := vlib.Pick(rng, []int{n - 1, n - 16, n - 17, n - 32, 64, 32, rng.Range(1, n-1)})
		p.Mut = fmt.Sprintf("trunc:%d", cut)
		p.Cuts = randCuts(rng, cut, marksOf(n))
		add(p)
	}
	{
		p := hsProbe(rng, "extended", 0)
		n := hsLen(p)
		ext := vlib.Pick(rng, []int{1, 16, 32, rng.Range(1, 9000)})
		p.Mut = fmt.Sprintf("ext:%d", ext)
		// never cut exactly at the end of the valid part
		p.Cuts = []int{rng.Range(1, n-1)}
		add(p)
	}
	for k := 0; k < 2; k++ {
		p := hsProbe(rng, "bitflip", vlib.Pick(rng, []int{0, -1, 1}))
		n := hsLen(p)
		region := vlib.Pick(rng, []string{"repr", "pad", "mark", "mac"})
		var pos int
		switch region {
		case "repr":
			// the two top bits of the representative are ignored by the map but still MACed
			pos = rng.Intn(32)
		case "pad":
			pos = rng.Range(32, n-33)
		case "mark":
			pos = rng.Range(n-32, n-17)
		default:
			pos = rng.Range(n-16, n-1)
		}
		p.Class = "bitflip-" + region
		p.Mut = fmt.Sprintf("flip:%d:%d", pos, rng.Intn(8))
		p.Cuts = randCuts(rng, n, marksOf(n))
		add(p)
	}
	// wrong hour, wrong identity
	for _, off := range []int{vlib.Pick(rng, []int{-2, 2}), vlib.Pick(rng, []int{-3, 3})} {
		p := hsProbe(rng, fmt.Sprintf("wrong-hour(%+d)", off), off)
		p.Cuts = randCuts(rng, hsLen(p), marksOf(hsLen(p)))
		add(p)
	}
	{
		p := hsProbe(rng, "wrong-identity", 0)
		p.Ident = vlib.Pick(rng, []string{"otherB", "otherID"})
		p.Class += "-" + p.Ident
		p.Cuts = randCuts(rng, hsLen(p), marksOf(hsLen(p)))
		add(p)
	}
	// low-order / all-zero representative with a valid MAC, then its replay
	if len(lowReprs) > 0 {
		pad := rng.Range(77, 400)
		p := probe{Class: "low-order-repr", Kind: "low", Seed: rng.U64(), PadLen: pad, LowIdx: rng.Intn(len(lowReprs)),
			HourOff: vlib.Pick(rng, []int{0, -1, 1}), SameAs: -1, SrvSeed: rng.U64(), Expect: "silent"}
		p.Cuts = randCuts(rng, 64+pad, marksOf(64+pad))
		i := add(p)
		if rng.Intn(2) == 0 {
			add(probe{Class: "low-order-replay", Kind: "low", SameAs: i, SrvSeed: rng.U64(), Expect: "silent"})
		}
	}
	// trailing bytes behind a maximum-length handshake inside one read (MAC valid, mark at 8160),
	// then the genuine handshake: it has been burnt
	if rng.Intn(3) == 0 {
		p := hsProbe(rng, "max-len+trailing", 0)
		p.PadLen = cint("clientMaxPadLength")
		p.Mut = fmt.Sprintf("ext:%d", rng.Range(1, 200))
		p.Cuts = []int{rng.Range(1, 8000)}
		i := add(p)
		q := probe{Class: "genuine-after-trailing", Kind: "hs", SameAs: i, SrvSeed: rng.U64(), Expect: "silent"}
		q.Mut = "trunc:8192"
		q.Expect = "either" // MAC_C was recorded when the longer stream was rejected: the server calls it a replay
		add(q)
	}
	// a valid handshake that completes only after the handshake deadline fired
	{
		p := hsProbe(rng, "valid-too-late", 0)
		n := hsLen(p)
		p.Cuts = []int{rng.Range(1, n-1)}
		p.Script = []string{"c", "t", "c"}
		p.Expect = "either"
		add(p)
	}
	// the same valid handshake with the handshake deadline firing at EVERY read boundary before
	// its end (never MAC-validated, so the bytes stay fresh), then delivered without pause: answered
	if rng.Intn(4) == 0 {
		p := hsProbe(rng, "pause-sweep", 0)
		p.PadLen = rng.Range(77, 300)
		n := hsLen(p)
		p.Cuts = o4h.Chunks(rng, "bounds", n, marksOf(n))
		first := -1
		for k := 0; k < len(p.Cuts); k++ {
			q := p
			if first >= 0 {
				q = probe{Class: "pause-sweep", Kind: "hs", SameAs: first, Cuts: p.Cuts, SrvSeed: rng.U64()}
			}
			q.Script = nil
			for j := 0; j < len(p.Cuts); j++ {
				if j == k {
					q.Script = append(q.Script, "t")
				}
				q.Script = append(q.Script, "c")
			}
			q.Expect = "either"
			i := add(q)
			if first < 0 {
				first = i
			}
		}
		add(probe{Class: "pause-sweep-then-valid", Kind: "hs", SameAs: first, Cuts: p.Cuts, SrvSeed: rng.U64(), Expect: "answered"})
	}
	// a valid handshake with a pause / disconnect somewhere
	{
		p := hsProbe(rng, "valid+pause", 0)
		n := hsLen(p)
		p.Cuts = randCuts(rng, n, marksOf(n))
		p.Script = pauseScript(rng, len(p.Cuts))
		p.Expect = "either"
		add(p)
	}
	return g
}

// genCapGroup: "or that replays one" with the replay filter at capacity. A few dummy MACs first (so
// that the genuine handshake G is never the eldest entry), G, then the filter is filled by direct
// TestAndSet calls to cap-2 / cap-1 / cap entries (plus up to two more at capacity, each evicting one
// dummy), then fresh handshakes keep being answered and the replays of G and of them stay silent.
func genCapGroup(rng *vlib.Rng, maxFilter int) group {
	g := group{IdSeed: rng.U64()}
	add := func(p probe) int { g.Probes = append(g.Probes, p); return len(g.Probes) - 1 }
	valid := func(class string) int {
		p := hsProbe(rng, class, vlib.Pick(rng, []int{0, 0, -1, 1}))
		p.PadLen = rng.Range(77, 400)
		p.Expect = "answered"
		return add(p)
	}
	replay := func(of int) {
		add(probe{Class: "replay@capacity", Kind: "hs", SameAs: of, SrvSeed: rng.U64(), Expect: "silent"})
	}
	const pre = 8
	add(probe{Class: "fill", Kind: "fill", Seed: rng.U64(), Len: pre, SameAs: -1})
	gi := valid("valid(before fill)")
	level := vlib.Pick(rng, []int{maxFilter - 2, maxFilter - 1, maxFilter, maxFilter})
	add(probe{Class: "fill", Kind: "fill", Seed: rng.U64(), Len: level - pre - 1, SameAs: -1})
	if level == maxFilter {
		if e := rng.Intn(3); e > 0 {
			add(probe{Class: "fill", Kind: "fill", Seed: rng.U64(), Len: e, SameAs: -1})
		}
	}
	fi := valid("valid@capacity")
	replay(gi)
	replay(fi)
	f2 := valid("valid@capacity")
	replay(f2)
	if rng.Intn(2) == 0 {
		replay(gi)
	}
	return g
}

// genConcGroup: the wire-level view of concurrent arrivals on a bridge that remembers nothing:
// Len distinct genuine handshakes plus duplicates (16 conns) complete at the same instant, then
// every one of them is replayed byte for byte: each replay must be met with silence.
func genConcGroup(rng *vlib.Rng) group {
	g := group{IdSeed: rng.U64()}
	n := rng.Range(4, 8)
	g.Probes = append(g.Probes, probe{Class: "concurrent-genuine", Kind: "cburst", Seed: rng.U64(), Len: n, SameAs: -1, SrvSeed: rng.U64()})
	for m := 0; m < n; m++ {
		g.Probes = append(g.Probes, probe{Class: "replay-after-concurrent", Kind: "hs", SameAs: 0, Member: m, SrvSeed: rng.U64(), Expect: "silent"})
	}
	return g
}

func main() {
	r = vlib.NewRun("C03")
	for k, v := range obfs4.VerifConstants() {
		var n int
		if _, err := fmt.Sscan(v, &n); err == nil {
			K[k] = n
		}
	}
	r.Rule = "a probe is non-trivial when it delivers at least one byte and is either derived from a client handshake (valid, mutated, replayed, wrong hour/identity, low-order) or is random data long enough to reach the mark search (>= 141 bytes); distinct = distinct (bridge seed, recipe)"
	r.Assumptions = []string{
		"deadlines are virtual: the scripted conn returns the timeout error the moment the script says the armed deadline fires; real timers and the kernel's deadline semantics are not exercised (except the real-time 30 s case of the thorough tier)",
		"accept time of the model = creation of the conn; offsets compared with a tolerance of 100 ms",
		"the hour is read before and after every WrapConn; a group that straddles an hour boundary is re-run",
	}
	o4h.InstallTape(r.Seed)
	rng := vlib.NewRng(r.Seed)
	keySeeds = srvh.GoodKeySeeds(rng.Fork(), 24)
	lowReprs = srvh.LowOrderReprs()
	r.Notes["low_order_representatives"] = len(lowReprs)

	nWorkers := 8
	workers := make([]*worker, nWorkers)
	for i := range workers {
		workers[i] = &worker{srv: &srvh.Srv{D: r.Driver("o4srv")}, ref: &o4h.Ref{D: r.Driver("o4ref")}}
	}

	if r.ReplayIn != "" {
		var g group
		if err := r.LoadReplay(&g); err != nil {
			fmt.Println("cannot load replay:", err)
			r.Finish()
		}
		if g.OrMode != "" {
			bin, err := buildOrHook()
			if err != nil {
				r.Violate("orport-hook-build", "correspondence", err.Error(), g)
				r.Finish()
			}
			hk, err := startOrHook(bin)
			if err != nil {
				r.Violate("orport-hook-build", "correspondence", err.Error(), g)
				r.Finish()
			}
			for try := 0; try < 3 && !runOrGroup(workers[0], hk, g); try++ {
			}
			hk.stop()
			r.Finish()
		}
		for try := 0; try < 3; try++ {
			if runGroup(workers[0], g, true) {
				break
			}
		}
		r.Finish()
	}

	var groups []group
	nGroups := r.Scale(60, 900)
	for i := 0; i < nGroups; i++ {
		groups = append(groups, genGroup(rng.Fork()))
	}
	// replay filter at capacity
	maxFilter := 0
	fmt.Sscan(replayfilter.VerifConstants()["maxFilterSize"], &maxFilter)
	if maxFilter > 16 {
		for i, n := 0, r.Scale(3, 16); i < n; i++ {
			groups = append(groups, genCapGroup(rng.Fork(), maxFilter))
		}
	} else {
		r.Notes["capacity_groups"] = "skipped: maxFilterSize constant missing or tiny"
	}
	// concurrent genuine handshakes on a fresh bridge, then their replays
	for i, n := 0, r.Scale(100, 800); i < n; i++ {
		groups = append(groups, genConcGroup(rng.Fork()))
	}
	// many bridge seeds: closeDelay as a function of the seed (one empty probe each)
	nSeeds := r.Scale(300, 3000)
	for i := 0; i < nSeeds; i++ {
		groups = append(groups, group{IdSeed: rng.U64(), Probes: []probe{
			{Class: "empty", Kind: "junk", SameAs: -1, SrvSeed: rng.U64(), Expect: "silent"}}})
	}

	var wg sync.WaitGroup
	// real time (both tiers, ~32 s, concurrent with everything else): what virtual deadlines cannot
	// reach — a failure detected *after* the close deadline (closeDelay = 0: the base deadline fires
	// for real after 30 s and closeAfterDelay closes at once), and bytes trickling in with pauses
	// that add up to more than 30 s + closeDelay (the handshake deadline is absolute)
	{
		sw := &worker{srv: &srvh.Srv{D: r.Driver("o4srv")}, ref: &o4h.Ref{D: r.Driver("o4ref")}}
		srng := vlib.NewRng(r.Seed ^ 0x51ee9)
		var seed0, seed1 uint64
		var have0, have1 bool
		for tries := 0; tries < 5000 && !(have0 && have1); tries++ {
			seed := srng.U64()
			id := o4h.NewIdentity(vlib.NewRng(seed), 0)
			if _, cd, ok := sw.srv.FacNew("probe", id); ok {
				if cd == 0 && !have0 {
					seed0, have0 = seed, true
				}
				if cd == 1 && !have1 {
					seed1, have1 = seed, true
				}
			}
		}
		empty := func() probe {
			return probe{Class: "empty", Kind: "junk", SameAs: -1, SrvSeed: srng.U64(), Expect: "silent"}
		}
		var sleepers []group
		if have0 {
			sleepers = append(sleepers,
				group{IdSeed: seed0, Sleeper: true, Probes: []probe{empty(),
					{Class: "late-timeout(real 30 s)", Kind: "junk", SameAs: -1, Script: []string{"s30300", "t"}, SrvSeed: srng.U64(), Expect: "silent"}}},
				group{IdSeed: seed0, Sleeper: true, Probes: []probe{empty(),
					{Class: "late-junk(real 30 s)", Kind: "junk", Seed: 7, Len: 9000, SameAs: -1, Script: []string{"s30200", "c"}, SrvSeed: srng.U64(), Expect: "silent"}}})
		}
		if have1 {
			// bytes trickling in with real pauses that add up to more than 30 s + closeDelay: the
			// handshake deadline is absolute, the close time does not move
			sleepers = append(sleepers,
				group{IdSeed: seed1, Sleeper: true, Probes: []probe{empty(),
					{Class: "trickle(real 31.5 s)", Kind: "junk", Seed: 9, Len: 4, SameAs: -1, Cuts: []int{1, 1, 1, 1},
						Script: []string{"c", "s10500", "c", "s10500", "c", "s10500", "c"}, SrvSeed: srng.U64(), Expect: "silent"}}})
		}
		r.Notes["real_time_groups"] = len(sleepers)
		for i, g := range sleepers {
			wg.Add(1)
			go func(i int, g group) {
				defer wg.Done()
				w := sw
				if i > 0 {
					w = &worker{srv: &srvh.Srv{D: r.Driver("o4srv")}, ref: &o4h.Ref{D: r.Driver("o4ref")}}
				}
				runGroup(w, g, true)
			}(i, g)
		}
	}
	// family orport: the glue (serverHandler) around WrapConn, in a child process
	{
		var orGroups []group
		org := vlib.NewRng(r.Seed ^ 0x0790)
		for i, n := 0, r.Scale(4, 20); i < n; i++ {
			orGroups = append(orGroups, genOrGroups(org.Fork())...)
		}
		wg.Add(1)
		go func() {
			defer wg.Done()
			bin, err := buildOrHook()
			if err != nil {
				r.Violate("orport-hook-build", "correspondence", err.Error(), group{})
				return
			}
			hk, err := startOrHook(bin)
			if err != nil {
				r.Violate("orport-hook-build", "correspondence", err.Error(), group{})
				return
			}
			defer hk.stop()
			ow := &worker{srv: &srvh.Srv{D: r.Driver("o4srv")}, ref: &o4h.Ref{D: r.Driver("o4ref")}}
			for _, g := range orGroups {
				for try := 0; try < 3 && !runOrGroup(ow, hk, g); try++ {
				}
			}
		}()
	}
	ch := make(chan group)
	for _, w := range workers {
		wg.Add(1)
		go func(w *worker) {
			defer wg.Done()
			for g := range ch {
				for try := 0; try < 3; try++ {
					if runGroup(w, g, true) {
						break
					}
					r.Count("retries", "hour-changed")
				}
			}
		}(w)
	}
	for _, g := range groups {
		ch <- g
	}
	close(ch)
	wg.Wait()
	r.Finish()
}
