package main

import (
	"verif/harness/o4pair"
)

// tie: per connection, (1) a shadow real decoder per direction that tells the chunkers where
// the frame boundaries are, (2) the Lean model receiver per direction (driver o4data), fed the
// same wire chunks; compared at every quiescence point: bytes delivered so far, error class,
// blocked or not (DESIGN §4 C01: not the per-Read grouping).
type tie struct {
	x      *runner
	pr     *o4pair.Pair
	shadow [2]*o4pair.Shadow
	base   [2]int // stream offset of the first byte not yet handed to the shadow's caller
	model  *o4pair.Model
}

func newTie(x *runner, pr *o4pair.Pair) *tie {
	t := &tie{x: x, pr: pr}
	for d := 0; d < 2; d++ {
		t.shadow[d] = o4pair.NewShadow(pr.Keys[d])
	}
	if x.d != nil && pr.Keys[0] != nil {
		t.model = o4pair.NewModel(x.d, pr)
	}
	return t
}

func (t *tie) start(c Case) {
	// the server→client stream begins with the inline seed frame (and early data)
	t.shadow[o4pair.S2C].Feed(t.pr.PostResp)
	t.base[o4pair.S2C] = len(t.pr.PostResp)
	if t.model != nil {
		t.model.Start()
	}
}

// bounds returns the frame end offsets inside wire (relative to its start).
func (t *tie) bounds(dir int, _ int, wire []byte) []int {
	sh := t.shadow[dir]
	if sh == nil {
		return nil
	}
	var out []int
	for _, f := range sh.Feed(wire) {
		out = append(out, f.End-t.base[dir])
	}
	t.base[dir] += len(wire)
	return out
}

func (t *tie) deliver(dir int, wire []byte, sizes []int) {
	if t.model != nil {
		t.model.Deliver(dir, wire, sizes)
	}
}

func (t *tie) afterDrain(dir int, where string, blocked bool) *verdict {
	if t.model == nil {
		return nil
	}
	rd := t.pr.Reader(dir)
	if sig, desc := t.model.Compare(dir, rd, blocked); sig != "" {
		return &verdict{"tie-" + sig, where + " " + o4pair.DirName(dir) + ": " + desc}
	}
	t.x.tieOK += t.model.Points()
	return nil
}

func (t *tie) close() {
	if t.model != nil {
		t.model.Close()
	}
}
