package main

import (
	"verif/harness/o4pair"
)

// tie: per connection, (1) a shadow real decoder per direction that tells the chunkers where
// the frame boundaries are, (2) the Lean model receiver per direction (driver o4data), fed the
// same wire chunks; compared at every quiescence point: bytes delivered so far, error class,
// blocked or not (DESIGN §4 C01: not the per-Read grouping).
type tie struct {
	x      *runner
	pr     *o4pair.Pair
	shadow [2]*o4pair.Shadow
	base   [2]int // stream offset of the first byte not yet handed to the shadow's caller
	stream [2][]byte
	model  *o4pair.Model
	encBad *verdict
}

// the first encFrames frames of each direction are also re-encoded by the model encoder
// (packet plaintext from the shadow decoder) and compared byte for byte with the real frames
const encFrames = 6

func newTie(x *runner, pr *o4pair.Pair) *tie {
	t := &tie{x: x, pr: pr}
	for d := 0; d < 2; d++ {
		t.shadow[d] = o4pair.NewShadow(pr.Keys[d])
	}
	if x.d != nil && pr.Keys[0] != nil {
		t.model = o4pair.NewModel(x.d, pr)
	}
	return t
}

func (t *tie) start(c Case) {
	// the server→client stream begins with the inline seed frame (and early data)
	if t.model != nil {
		t.model.Start()
	}
	t.stream[o4pair.S2C] = append(t.stream[o4pair.S2C], t.pr.PostResp...)
	t.checkEnc(o4pair.S2C, t.shadow[o4pair.S2C].Feed(t.pr.PostResp))
	t.base[o4pair.S2C] = len(t.pr.PostResp)
}

// bounds returns the frame end offsets inside wire (relative to its start).
func (t *tie) bounds(dir int, _ int, wire []byte) []int {
	sh := t.shadow[dir]
	if sh == nil {
		return nil
	}
	var out []int
	t.stream[dir] = append(t.stream[dir], wire...)
	fs := sh.Feed(wire)
	t.checkEnc(dir, fs)
	for _, f := range fs {
		out = append(out, f.End-t.base[dir])
	}
	t.base[dir] += len(wire)
	return out
}

func (t *tie) deliver(dir int, wire []byte, sizes []int) {
	if t.model != nil {
		t.model.Deliver(dir, wire, sizes)
	}
}

func (t *tie) failWith(dir int, chunk []byte, cls string) {
	if t.model != nil {
		t.model.FailWith(dir, chunk, cls)
	}
}

func (t *tie) resume(dir int) {
	if t.model != nil {
		t.model.Resume(dir)
	}
}

func (t *tie) checkEnc(dir int, fs []o4pair.Frame) {
	if t.model == nil || t.encBad != nil {
		return
	}
	if sig, desc := t.model.CheckEnc(dir, fs, func(f o4pair.Frame) []byte { return t.stream[dir][f.Start:f.End] }, encFrames); sig != "" {
		t.encBad = &verdict{"tie-" + sig, desc}
	}
}

func (t *tie) afterDrain(dir int, where string, blocked bool) *verdict {
	if t.model == nil {
		return nil
	}
	if t.encBad != nil {
		return t.encBad
	}
	rd := t.pr.Reader(dir)
	if sig, desc := t.model.Compare(dir, rd, blocked); sig != "" {
		return &verdict{"tie-" + sig, where + " " + o4pair.DirName(dir) + ": " + desc}
	}
	t.x.tieOK += t.model.Points()
	return nil
}

func (t *tie) close() {
	if t.model != nil {
		t.model.Close()
	}
}
