// C01 — obfs4 delivers the exact byte stream, both ways, under any segmentation.
//
// Two REAL endpoints (transports.Get("obfs4")) talk through the harness middlebox
// (o4pair). S oracle, written from the property text: what an endpoint reads is exactly what
// its peer wrote, in order; once ALL wire bytes of a burst have been moved, every written byte
// is readable without any further traffic (a Read that stays blocked while undelivered payload
// exists is a stall) — including data that reaches the client in the same segment as the
// server's handshake response. C tie: the Lean model receiver (driver o4data) is fed the same
// wire chunks and must deliver the same bytes / block / fail at the same quiescence points.
package main

import (
	"bytes"
	"encoding/json"
	"errors"
	"fmt"
	"os"
	"path/filepath"
	"sort"
	"time"

	"verif/harness/o4pair"
	"verif/harness/vlib"
)

// Op is one step of a scenario.
type Op struct {
	// "tmo": release the in-flight bytes up to a cut inside a frame, let the underlying Read fail
	// with a TEMPORARY error (a read deadline that fired), then clear it and release the rest
	Kind   string         `json:"kind"`                // "w" sender Write calls | "mv" release all in-flight wire bytes of Dir and let the reader run | "fin" release them and end the direction with a network error
	Dir    int            `json:"dir"`                 // 0 = client→server, 1 = server→client
	Sizes  []int          `json:"sizes,omitempty"`     // w: Write sizes
	Chunk  o4pair.Chunker `json:"chunk,omitempty"`     // mv: how the released bytes are cut into network reads
	ReadSz []int          `json:"read_sz,omitempty"`   // mv: cycle of Read buffer sizes at the receiver
	End    string         `json:"end,omitempty"`       // fin: eof | other (reset) | timeout
	Joint  bool           `json:"joint,omitempty"`     // fin/tmo: the LAST chunk before the error and the error are returned by the same underlying Read (n > 0, err != nil)
	CutFr  int            `json:"cut_frame,omitempty"` // tmo: the cut lies in frame CutFr (mod the number of frames of the released bytes)
	CutOff int            `json:"cut_off,omitempty"`   // tmo: >= 0: offset from that frame's start; < 0: from its end (-1 = before its last byte)
}

// Case is one connection scenario; everything random is fixed by it.
type Case struct {
	Name      string         `json:"name"`
	P         o4pair.Params  `json:"params"`
	Hello     o4pair.Chunker `json:"hello_chunks"`
	Resp      o4pair.Chunker `json:"resp_chunks"`
	Early     []int          `json:"early_writes,omitempty"` // server Write sizes right after WrapConn, released together with the response
	EarlyRead []int          `json:"early_read_sz,omitempty"`
	Ops       []Op           `json:"ops"`
	// full-duplex family: both endpoints read and write at once from real goroutines
	Duplex *o4pair.DuplexOpts `json:"duplex,omitempty"`
}

var sizeClasses = []int{0, 1, 1426, 1427, 1428, 1447, 1448, 1449, 2*1427 - 1, 2 * 1427, 2*1427 + 1, 5000, 65535, 65536, 65537}
var smallClasses = []int{0, 1, 1426, 1427, 1428, 1447, 1448, 1449, 2*1427 - 1, 2 * 1427, 2*1427 + 1, 5000}
var readClasses = []int{1, 2, 7, 100, 1427, 1448, 4096, 32768, 70000}

func sizeClassName(n int) string {
	switch {
	case n == 0:
		return "0"
	case n == 1:
		return "1"
	case n < 1426:
		return "small"
	case n <= 1428:
		return "1426-1428"
	case n >= 1447 && n <= 1449:
		return "1447-1449"
	case n >= 2*1427-1 && n <= 2*1427+1:
		return "2x1427±1"
	case n < 65535:
		return "multi-frame"
	default:
		return "64KiB±1"
	}
}

type runner struct {
	d     *vlib.Driver // Lean model (nil when the tie is not available)
	tieOK int
}

type verdict struct {
	Sig  string `json:"sig"`
	Desc string `json:"desc"`
}

// Job is what the parent sends to a worker process; Outcome is the answer.
type Job struct {
	Case   Case   `json:"case"`
	Origin string `json:"origin"` // generated | corpus | replay
}

type Outcome struct {
	Case        Case           `json:"case"` // as finally executed (F2 retries change the parameters)
	Skipped     bool           `json:"skipped"`
	F2Retries   int            `json:"f2_retries"`
	V           *verdict       `json:"verdict,omitempty"`
	Stats       map[string]int `json:"stats"`
	TieOK       int            `json:"tie_ok"`
	TieDriver   bool           `json:"tie_driver"`
	WorkerError string         `json:"worker_error,omitempty"`
	WallMs      int64          `json:"wall_ms"`
}

var workerRunner *runner

// handle runs one job in a worker process.
func handle(jobJSON []byte, driverBin string) []byte {
	if workerRunner == nil {
		workerRunner = &runner{d: o4pair.StartModelDriverAt(driverBin)}
	}
	x := workerRunner
	var j Job
	var o Outcome
	if err := json.Unmarshal(jobJSON, &j); err != nil {
		o.WorkerError = "bad job: " + err.Error()
		b, _ := json.Marshal(o)
		return b
	}
	c := j.Case
	t0 := time.Now()
	x.tieOK = 0
	for attempt := 0; ; attempt++ {
		o.V, o.Skipped, o.Stats = x.runCase(c)
		if !o.Skipped || j.Origin != "generated" || attempt >= 5 {
			break
		}
		// defect F2 (property C09): regenerate the server seed / tape and count
		o.F2Retries++
		rr := vlib.NewRng(c.P.TapeSeed + 77)
		c.P = o4pair.RandomParams(rr, c.P.IAT, c.P.Biased)
	}
	o.WallMs = time.Since(t0).Milliseconds()
	o.Case = c
	o.TieOK = x.tieOK
	o.TieDriver = x.d != nil
	b, _ := json.Marshal(o)
	return b
}

// runCase executes one scenario on the real code and applies the S oracle (and the model tie).
// It returns nil when the property held, a verdict otherwise; skipped reports the known F2 panic.
func (x *runner) runCase(c Case) (v *verdict, skipped bool, stats map[string]int) {
	stats = map[string]int{}
	rng := vlib.NewRng(c.P.TapeSeed ^ 0xD1CE)
	var written [2][]byte
	gen := func(dir, n int) []byte {
		b := rng.Bytes(n)
		written[dir] = append(written[dir], b...)
		return b
	}
	var early [][]byte
	for _, n := range c.Early {
		early = append(early, gen(o4pair.S2C, n))
	}
	pr, err := o4pair.Setup(c.P, o4pair.SetupOpts{Hello: c.Hello, Resp: c.Resp, Early: early})
	if errors.Is(err, o4pair.ErrF2) {
		return nil, true, stats
	}
	if err != nil {
		return &verdict{"handshake-failed", err.Error()}, false, stats
	}
	defer pr.Close()
	if c.Duplex != nil {
		sig, desc, st := pr.Duplex(*c.Duplex)
		for k, v := range st {
			stats[k] = v
		}
		stats["bytes"] = st["delivered-c2s"] + st["delivered-s2c"]
		stats["split-releases"] = 1
		if sig == "duplex-panic-in-write" && len(desc) > 0 && bytes.Contains([]byte(desc), []byte("iat length was 0")) {
			return nil, true, stats
		}
		if sig != "" {
			return &verdict{sig, desc}, false, stats
		}
		return nil, false, stats
	}
	// the constructors have returned: no handshake deadline may stay armed on the underlying
	// conn, in either half — a conn that honours deadlines would kill the established
	// connection 60 s (client) / 30 s (server) after it was made
	for role, a := range pr.Armed {
		if a != "" {
			stats["hs-surplus"] = len(pr.Surplus)
			return &verdict{"deadline-left-armed-after-handshake", fmt.Sprintf("%s: the handshake succeeded and %s returned, but on its underlying conn the %s; the client's handshake reads ended %d bytes after the end of the server's response (MAC_S); response length %d, request length %d",
				[]string{"client", "server"}[role], []string{"Dial", "WrapConn"}[role], a, len(pr.Surplus), pr.RespLen, pr.HelloLen)}, false, stats
		}
	}
	stats["hs-deadline-checked"] = 2
	stats["hs-surplus-len"] = len(pr.Surplus)

	tie := newTie(x, pr)
	defer tie.close()

	rdIdx := [2]int{}
	nextRead := func(dir int, cyc []int) func() int {
		return func() int {
			if len(cyc) == 0 {
				return 32768
			}
			n := cyc[rdIdx[dir]%len(cyc)]
			rdIdx[dir]++
			return n
		}
	}
	// check applies the stream oracle to direction dir after a complete release.
	check := func(dir int, where string, blocked bool) *verdict {
		rd := pr.Reader(dir)
		got, want := rd.Got, written[dir]
		if rd.Panic != nil {
			return &verdict{"panic-in-read", fmt.Sprintf("%s %s: Read panicked: %v", where, o4pair.DirName(dir), rd.Panic)}
		}
		if rd.Stuck {
			return &verdict{"read-stuck", fmt.Sprintf("%s %s: Read neither returned nor blocked on the network", where, o4pair.DirName(dir))}
		}
		if !bytes.HasPrefix(want, got) {
			i := 0
			for i < len(got) && i < len(want) && got[i] == want[i] {
				i++
			}
			return &verdict{"stream-corrupted", fmt.Sprintf("%s %s: delivered %d bytes, written %d, first difference at offset %d", where, o4pair.DirName(dir), len(got), len(want), i)}
		}
		if rd.Err != nil {
			return &verdict{"read-error-on-honest-stream", fmt.Sprintf("%s %s: Read returned %v after %d of %d bytes", where, o4pair.DirName(dir), rd.Err, len(got), len(want))}
		}
		if len(got) < len(want) {
			if !blocked {
				return &verdict{"read-stopped-early", fmt.Sprintf("%s %s: %d of %d bytes", where, o4pair.DirName(dir), len(got), len(want))}
			}
			rb, db := pr.Buffered(dir)
			sig := "stall"
			if where == "after-handshake" {
				sig = "stall-data-coalesced-with-handshake"
			}
			return &verdict{sig, fmt.Sprintf("%s %s: Read is blocked on the network although all wire bytes were delivered: %d of %d written bytes readable (receiveBuffer holds %d undecoded bytes, receiveDecodedBuffer %d)",
				where, o4pair.DirName(dir), len(got), len(want), rb, db)}
		}
		return nil
	}

	// the model is told what the client's handshake read left over
	tie.start(c)

	// after the handshake: whatever the server wrote early must be readable at the client now
	if len(c.Early) > 0 {
		blocked := pr.Reader(o4pair.S2C).Drain(nextRead(o4pair.S2C, c.EarlyRead))
		if v := check(o4pair.S2C, "after-handshake", blocked); v != nil {
			return v, false, stats
		}
		if tv := tie.afterDrain(o4pair.S2C, "after-handshake", blocked); tv != nil {
			return tv, false, stats
		}
		stats["early-bytes"] += len(written[o4pair.S2C])
	}

	var inflight [2][]byte
	var released [2]int
	var finished [2]bool
	for i, op := range c.Ops {
		where := fmt.Sprintf("op%d", i)
		if finished[op.Dir] {
			continue
		}
		switch op.Kind {
		case "w":
			for _, n := range op.Sizes {
				data := gen(op.Dir, n)
				wire, werr, pan := pr.Write(op.Dir, data)
				if pan != nil {
					if s, ok := pan.(string); ok && s == "BUG: Write(), iat length was 0" {
						return nil, true, stats
					}
					return &verdict{"panic-in-write", fmt.Sprintf("%s %s: Write(%d) panicked: %v", where, o4pair.DirName(op.Dir), n, pan)}, false, stats
				}
				if werr != nil {
					return &verdict{"write-error", fmt.Sprintf("%s %s: Write(%d): %v", where, o4pair.DirName(op.Dir), n, werr)}, false, stats
				}
				for _, w := range wire {
					inflight[op.Dir] = append(inflight[op.Dir], w...)
				}
				stats["writes"]++
				stats["conn-writes"] += len(wire)
			}
		case "mv":
			wire := inflight[op.Dir]
			inflight[op.Dir] = nil
			bounds := tie.bounds(op.Dir, released[op.Dir], wire)
			sizes := op.Chunk.Split(len(wire), bounds)
			released[op.Dir] += len(wire)
			pr.Deliver(op.Dir, wire, sizes)
			tie.deliver(op.Dir, wire, sizes)
			blocked := pr.Reader(op.Dir).Drain(nextRead(op.Dir, op.ReadSz))
			if v := check(op.Dir, where, blocked); v != nil {
				return v, false, stats
			}
			if tv := tie.afterDrain(op.Dir, where, blocked); tv != nil {
				return tv, false, stats
			}
			stats["releases"]++
			stats["chunks"] += len(sizes)
			if len(sizes) > 1 {
				stats["split-releases"]++
			}
		case "tmo":
			wire := inflight[op.Dir]
			inflight[op.Dir] = nil
			bounds := tie.bounds(op.Dir, released[op.Dir], wire)
			released[op.Dir] += len(wire)
			cut := 0
			if len(bounds) > 0 {
				f := op.CutFr % len(bounds)
				start := 0
				if f > 0 {
					start = bounds[f-1]
				}
				if op.CutOff >= 0 {
					cut = start + op.CutOff
				} else {
					cut = bounds[f] + op.CutOff
				}
				if cut < start {
					cut = start
				}
				if cut > bounds[f] {
					cut = bounds[f]
				}
			} else if len(wire) > 0 && op.CutOff >= 0 {
				cut = op.CutOff % (len(wire) + 1)
			}
			end := op.End
			if end == "" {
				end = "timeout"
			}
			dn := o4pair.DirName(op.Dir)
			rd := pr.Reader(op.Dir)
			nx := nextRead(op.Dir, op.ReadSz)
			if op.Joint && cut > 0 {
				pr.FailWith(op.Dir, wire[:cut], end)
				tie.failWith(op.Dir, wire[:cut], end)
			} else {
				pr.Deliver(op.Dir, wire[:cut], nil)
				tie.deliver(op.Dir, wire[:cut], nil)
				pr.Fail(op.Dir, end)
				tie.failWith(op.Dir, nil, end)
			}
			blocked := rd.Drain(nx)
			switch {
			case rd.Panic != nil:
				return &verdict{"panic-in-read", fmt.Sprintf("%s %s: Read panicked on a temporary read error: %v", where, dn, rd.Panic)}, false, stats
			case rd.Stuck || blocked || rd.Err == nil:
				return &verdict{"temporary-read-error-not-reported", fmt.Sprintf("%s %s: the underlying Read failed with %s but obfs4's Read blocked/stuck (blocked=%v stuck=%v)", where, dn, end, blocked, rd.Stuck)}, false, stats
			case !bytes.HasPrefix(written[op.Dir], rd.Got):
				return &verdict{"stream-corrupted", fmt.Sprintf("%s %s: delivered %d bytes that are not a prefix of the %d written", where, dn, len(rd.Got), len(written[op.Dir]))}, false, stats
			case o4pair.ErrClass(rd.Err) != "net:"+end:
				return &verdict{"wrong-error-on-temporary-read-error", fmt.Sprintf("%s %s: the underlying Read failed with %s in the middle of an honest stream, Read reported %v", where, dn, end, rd.Err)}, false, stats
			}
			tv := tie.afterDrain(op.Dir, where, blocked)
			// the error was temporary: the application clears its deadline and keeps reading
			pr.ClearErr(op.Dir)
			rd.Resume()
			tie.resume(op.Dir)
			sizes := op.Chunk.Split(len(wire)-cut, nil)
			pr.Deliver(op.Dir, wire[cut:], sizes)
			tie.deliver(op.Dir, wire[cut:], sizes)
			blocked = rd.Drain(nx)
			if v := check(op.Dir, where, blocked); v != nil {
				if v.Sig == "stall" || v.Sig == "read-error-on-honest-stream" || v.Sig == "read-stopped-early" {
					v = &verdict{"bytes-lost-after-temporary-read-error", fmt.Sprintf("%s %s: the underlying Read failed with a temporary %s after %d of %d released bytes (frame-relative cut %d/%d, bytes in the same read as the error: %v); the application kept reading and the rest arrived, but: %s",
						where, dn, end, cut, len(wire), op.CutFr, op.CutOff, op.Joint && cut > 0, v.Desc)}
				}
				return v, false, stats
			}
			if tv != nil {
				return tv, false, stats
			}
			if tv := tie.afterDrain(op.Dir, where, blocked); tv != nil {
				return tv, false, stats
			}
			stats["temporary-read-errors"]++
			if cut > 0 && cut < len(wire) {
				stats["split-releases"]++
			}
		case "fin":
			// the peer wrote (everything still in flight) and closed / the connection broke:
			// the last network read may carry bytes AND the error
			if finished[op.Dir] {
				continue
			}
			finished[op.Dir] = true
			wire := inflight[op.Dir]
			inflight[op.Dir] = nil
			bounds := tie.bounds(op.Dir, released[op.Dir], wire)
			sizes := op.Chunk.Split(len(wire), bounds)
			released[op.Dir] += len(wire)
			end := op.End
			if end == "" {
				end = "eof"
			}
			if op.Joint && len(sizes) > 0 {
				last := sizes[len(sizes)-1]
				cut := len(wire) - last
				pr.Deliver(op.Dir, wire[:cut], sizes[:len(sizes)-1])
				tie.deliver(op.Dir, wire[:cut], sizes[:len(sizes)-1])
				pr.FailWith(op.Dir, wire[cut:], end)
				tie.failWith(op.Dir, wire[cut:], end)
				stats["joint-data+error"]++
			} else {
				pr.Deliver(op.Dir, wire, sizes)
				tie.deliver(op.Dir, wire, sizes)
				pr.Fail(op.Dir, end)
				tie.failWith(op.Dir, nil, end)
			}
			rd := pr.Reader(op.Dir)
			nx := nextRead(op.Dir, op.ReadSz)
			blocked := rd.Drain(nx)
			dn := o4pair.DirName(op.Dir)
			want := written[op.Dir]
			switch {
			case rd.Panic != nil:
				return &verdict{"panic-in-read", fmt.Sprintf("%s %s: Read panicked at the end of the stream: %v", where, dn, rd.Panic)}, false, stats
			case rd.Stuck || blocked || rd.Err == nil:
				return &verdict{"no-error-at-close", fmt.Sprintf("%s %s: the network reported %s but Read blocked/stuck (blocked=%v stuck=%v)", where, dn, end, blocked, rd.Stuck)}, false, stats
			case !bytes.HasPrefix(want, rd.Got):
				return &verdict{"stream-corrupted", fmt.Sprintf("%s %s: delivered %d bytes that are not a prefix of the %d written", where, dn, len(rd.Got), len(want))}, false, stats
			case o4pair.ErrClass(rd.Err) != "net:"+end:
				return &verdict{"wrong-error-at-close", fmt.Sprintf("%s %s: honest stream ended with %s, Read reported %v after %d of %d bytes", where, dn, end, rd.Err, len(rd.Got), len(want))}, false, stats
			}
			// a model disagreement is held back: the S oracle below may exhibit a concrete loss
			tv := tie.afterDrain(op.Dir, where, blocked)
			atErr, errBuf := len(rd.Got), rd.ErrBuf
			if _, left := pr.Buffered(op.Dir); atErr < len(want) && left > 0 {
				// a reader that stops at the first error (io.ReadAll, io.Copy) loses what Read
				// had already decoded and authenticated but held back
				return &verdict{"decoded-bytes-withheld-at-read-error", fmt.Sprintf("%s %s: the last network read carried bytes together with %s; Read (buffer %d bytes) returned %v after delivering %d of the %d bytes the peer wrote, while %d decoded bytes were still in receiveDecodedBuffer: a caller that stops at the first error never gets them",
					where, dn, end, errBuf, rd.Err, atErr, len(want), left)}, false, stats
			}
			if atErr == len(want) {
				stats["close:all-bytes-before-error"]++
			} else {
				// Read handed over at most len(buf) bytes together with the error; the rest must
				// still be readable: a caller that keeps reading loses nothing
				stats["close:error-reported-with-payload-still-buffered"]++
				for k := 0; k < 1+2*(len(want)-atErr) && len(rd.Got) < len(want); k++ {
					before := len(rd.Got)
					rd.Resume()
					rd.Drain(nx)
					if rd.Panic != nil || rd.Stuck || len(rd.Got) == before {
						break
					}
				}
			}
			switch {
			case !bytes.HasPrefix(want, rd.Got) || len(rd.Got) > len(want):
				return &verdict{"stream-corrupted", fmt.Sprintf("%s %s: after the close %d bytes delivered, %d written, not a prefix", where, dn, len(rd.Got), len(want))}, false, stats
			case len(rd.Got) < len(want):
				return &verdict{"bytes-lost-at-close", fmt.Sprintf("%s %s: the peer wrote %d bytes before the connection ended (%s, last network read carried %d bytes together with the error: %v); only %d were ever delivered, even to a caller that keeps reading after the error",
					where, dn, len(want), end, lastLen(op, sizes), op.Joint, len(rd.Got))}, false, stats
			case atErr < len(want) && errBuf >= 32768:
				// the relay copies with a 32 KiB buffer and stops at the first error
				return &verdict{"bytes-lost-at-close-for-relay", fmt.Sprintf("%s %s: the Read that reported the error had a %d-byte buffer (>= 32 KiB, what the relay uses), yet only %d of %d bytes were delivered before/with the error %v", where, dn, errBuf, atErr, len(want), rd.Errs)}, false, stats
			}
			if tv != nil {
				return tv, false, stats
			}
			stats["closes"]++
		}
	}
	// nothing may be invented: both readers are (or become) blocked with exactly the written bytes
	for dir := 0; dir < 2; dir++ {
		if len(inflight[dir]) > 0 || finished[dir] {
			continue
		}
		blocked := pr.Reader(dir).Drain(nextRead(dir, []int{4096}))
		if len(pr.Reader(dir).Got) > len(written[dir]) {
			return &verdict{"extra-bytes", fmt.Sprintf("final %s: delivered %d bytes, written %d", o4pair.DirName(dir), len(pr.Reader(dir).Got), len(written[dir]))}, false, stats
		}
		if v := check(dir, "final", blocked); v != nil {
			return v, false, stats
		}
	}
	stats["bytes"] = len(written[0]) + len(written[1])
	return nil, false, stats
}

func surplusClass(n, checked int) string {
	switch {
	case checked == 0:
		return "not-evaluated"
	case n == 0:
		return "exactly-after-MAC_S"
	case n < 45:
		return "inside-seed-frame"
	case n == 45:
		return "after-seed-frame"
	}
	return "beyond-seed-frame"
}

func cutClass(off int) string {
	switch {
	case off == 0:
		return "frame-boundary"
	case off == 1:
		return "inside-length-field"
	case off == 2:
		return "after-length-field"
	case off == 3:
		return "body-byte-1"
	case off < 0:
		return fmt.Sprintf("end%d", off)
	}
	return "body"
}

func lastLen(op Op, sizes []int) int {
	if !op.Joint || len(sizes) == 0 {
		return 0
	}
	return sizes[len(sizes)-1]
}

// pickFinReads: mostly the usual classes, plus the small caller buffers of io.ReadAll (512) and
// byte-wise parsers (1, 7, 512, 1427) that stop at the first error
func pickFinReads(rng *vlib.Rng, total int) []int {
	if rng.Intn(3) == 0 {
		n := vlib.Pick(rng, []int{1, 7, 512, 1427})
		if total > 20000 && n < 100 {
			n = 512
		}
		return []int{n}
	}
	return pickReads(rng, total)
}

// addFin appends the end of one or both directions: a last burst, then the network error,
// mostly in the same underlying Read as the last chunk.
func addFin(rng *vlib.Rng, c *Case, prob int) {
	if rng.Intn(100) >= prob {
		return
	}
	dirs := []int{rng.Intn(2)}
	if rng.Intn(3) == 0 {
		dirs = append(dirs, 1-dirs[0])
	}
	for _, d := range dirs {
		sz := pickSizes(rng, c.P.IAT, 2)
		if c.P.IAT == 0 && rng.Intn(4) == 0 {
			sz = []int{vlib.Pick(rng, []int{1, 17, 1427, 1428, 5000, 30000, 65536})}
		}
		c.Ops = append(c.Ops, Op{Kind: "w", Dir: d, Sizes: sz},
			Op{Kind: "fin", Dir: d, Chunk: pickChunker(rng, sum(sz)), ReadSz: pickFinReads(rng, sum(sz)),
				End: vlib.Pick(rng, []string{"eof", "eof", "other", "timeout"}), Joint: rng.Intn(4) != 0})
	}
}

// genHsCut: one fixed parameter set per family (so the flights are the same bytes), the server's
// first flight (response ‖ inline seed frame [‖ early data]) or the client's request cut at one
// offset; then a byte each way. Evaluates the handshake hand-over and the deadline oracle at
// every cut point, in particular exactly after MAC_S (respat 0), one before, one after.
func genHsCut(p o4pair.Params, fam int, which string, n int, early []int) Case {
	c := Case{Name: fmt.Sprintf("hscut-%d-%s%+d", fam, which, n), P: p, Early: early, EarlyRead: []int{4096}}
	c.Hello, c.Resp = o4pair.Chunker{Kind: "whole"}, o4pair.Chunker{Kind: "whole"}
	switch which {
	case "resp": // n bytes after (before, if negative) the end of the server's response
		c.Resp = o4pair.Chunker{Kind: "respat", N: n}
	case "req": // n bytes into the client's request
		c.Hello = o4pair.Chunker{Kind: "at", N: n}
	}
	c.Ops = []Op{{Kind: "w", Dir: 0, Sizes: []int{1}}, {Kind: "mv", Dir: 0, Chunk: o4pair.Chunker{Kind: "whole"}, ReadSz: []int{100}},
		{Kind: "w", Dir: 1, Sizes: []int{1}}, {Kind: "mv", Dir: 1, Chunk: o4pair.Chunker{Kind: "whole"}, ReadSz: []int{100}}}
	return c
}

// genDuplex: both endpoints read and write simultaneously (one reader and one writer goroutine
// per endpoint, as the relay's copy loop does); position-dependent, direction-specific content.
func genDuplex(rng *vlib.Rng, i int, thorough bool) Case {
	iat := 0
	total := [2]int{rng.Range(1, 3) << 20, rng.Range(1, 3) << 20}
	if thorough {
		total = [2]int{rng.Range(2, 6) << 20, rng.Range(2, 6) << 20}
	}
	if i%4 == 3 {
		iat = 1 + (i/4)%2
		total = [2]int{rng.Range(40, 128) << 10, rng.Range(40, 128) << 10}
	}
	c := Case{Name: fmt.Sprintf("duplex-%d", i), P: o4pair.RandomParams(rng, iat, i%5 == 4)}
	c.Duplex = &o4pair.DuplexOpts{Total: total, Seed: rng.U64(), Rechunk: i%2 == 1,
		WSizes: [][]int{{4096}, {1, 1427, 1428, 32768, 100}, {32768}, {1448, 7, 65536}}[i%4],
		RSizes: [][]int{{32768}, {4096, 1, 70000}, {1427}, {32768, 100}}[(i/2)%4]}
	return c
}

// tmoCuts: where, relative to a frame, the temporary read error strikes
var tmoCuts = []int{0, 1, 2, 3, 700, -2, -1}

// addTmo inserts, after some "w" ops, a temporary read error inside the released bytes instead of
// the plain release.
func addTmo(rng *vlib.Rng, c *Case, prob int) {
	for i := range c.Ops {
		op := &c.Ops[i]
		if op.Kind != "mv" || rng.Intn(100) >= prob {
			continue
		}
		op.Kind = "tmo"
		op.CutFr = rng.Intn(4)
		op.CutOff = vlib.Pick(rng, tmoCuts)
		if rng.Intn(5) == 0 {
			op.CutOff = rng.Range(0, 1447)
		}
		op.Joint = rng.Intn(3) == 0
		op.End = vlib.Pick(rng, []string{"timeout", "timeout", "timeout", "other"})
	}
}

// genTmoSweep: one connection, bursts of one size; the k-th burst is interrupted by a timeout
// at offset k of its first frame (all offsets of one frame).
func genTmoSweep(rng *vlib.Rng, i int, size int, iat int, offs []int) Case {
	c := Case{Name: fmt.Sprintf("tmosweep-%d", i), P: o4pair.RandomParams(rng, iat, false)}
	c.Hello, c.Resp = o4pair.Chunker{Kind: "whole"}, o4pair.Chunker{Kind: "whole"}
	dir := i % 2
	for k, off := range offs {
		c.Ops = append(c.Ops, Op{Kind: "w", Dir: dir, Sizes: []int{size}},
			Op{Kind: "tmo", Dir: dir, CutFr: 0, CutOff: off, Joint: k%3 == 1, End: "timeout",
				Chunk:  vlib.Pick(rng, []o4pair.Chunker{{Kind: "whole"}, {Kind: "one"}, {Kind: "fixed", N: 1448}}),
				ReadSz: []int{vlib.Pick(rng, []int{7, 1427, 4096, 32768})}})
	}
	return c
}

// ---------------------------------------------------------------- generators

func pickChunker(rng *vlib.Rng, total int) o4pair.Chunker {
	switch rng.Intn(9) {
	case 0:
		if total <= 20000 {
			return o4pair.Chunker{Kind: "one"}
		}
		return o4pair.Chunker{Kind: "fixed", N: 7}
	case 1:
		return o4pair.Chunker{Kind: "bounds", N: -1}
	case 2:
		return o4pair.Chunker{Kind: "bounds", N: 0}
	case 3:
		return o4pair.Chunker{Kind: "bounds", N: 1}
	case 4:
		return o4pair.Chunker{Kind: "fixed", N: 1448}
	case 5:
		return o4pair.Chunker{Kind: "whole"}
	case 6:
		return o4pair.Chunker{Kind: "bounds", N: rng.Range(-3, 3)}
	default:
		return o4pair.Chunker{Kind: "rand", Seed: rng.U64()}
	}
}

func pickReads(rng *vlib.Rng, total int) []int {
	n := rng.Range(1, 3)
	out := make([]int, n)
	for i := range out {
		out[i] = vlib.Pick(rng, readClasses)
		if total > 20000 && out[i] < 100 {
			out[i] = 1427
		}
	}
	return out
}

func pickIAT(rng *vlib.Rng) int {
	switch rng.Intn(10) {
	case 0, 1:
		return 1
	case 2, 3:
		return 2
	}
	return 0
}

func sum(xs []int) int {
	t := 0
	for _, x := range xs {
		t += x
	}
	return t
}

func pickSizes(rng *vlib.Rng, iat int, max int) []int {
	n := rng.Range(1, max)
	out := make([]int, n)
	for i := range out {
		if iat == 0 && rng.Intn(6) == 0 {
			out[i] = vlib.Pick(rng, sizeClasses)
		} else if iat == 0 {
			out[i] = vlib.Pick(rng, smallClasses)
		} else {
			// IAT modes sleep up to 10 ms per Conn.Write: keep the bursts small
			out[i] = vlib.Pick(rng, []int{0, 1, 100, 1426, 1427, 1428, 1447, 1448, 1449, 2*1427 + 1})
		}
		if rng.Intn(8) == 0 {
			out[i] = rng.Range(0, 3000)
		}
	}
	return out
}

// genCoalesced: the server application writes right after WrapConn; response ‖ seed frame ‖ data
// reach the client together (one segment, or cut around the end of the response).
func genCoalesced(rng *vlib.Rng, i int) Case {
	iat := pickIAT(rng)
	c := Case{Name: fmt.Sprintf("coalesced-%d", i), P: o4pair.RandomParams(rng, iat, rng.Intn(3) == 0)}
	c.Hello = vlib.Pick(rng, []o4pair.Chunker{{Kind: "whole"}, {Kind: "rand", Seed: rng.U64()}, {Kind: "fixed", N: 1448}})
	nw := rng.Range(1, 2)
	for j := 0; j < nw; j++ {
		c.Early = append(c.Early, vlib.Pick(rng, []int{1, 17, 100, 1426, 1427, 1428, 1447, 1448, 1449, 2 * 1427, 5000}))
	}
	if rng.Intn(5) == 0 {
		c.Early = append(c.Early, 0)
	}
	switch i % 6 {
	case 0, 1:
		c.Resp = o4pair.Chunker{Kind: "whole"} // ONE segment
	case 2:
		c.Resp = o4pair.Chunker{Kind: "bounds", N: 0} // cut exactly after the response and after the seed frame
	case 3:
		c.Resp = o4pair.Chunker{Kind: "bounds", N: vlib.Pick(rng, []int{-1, 1})}
	case 4:
		c.Resp = o4pair.Chunker{Kind: "rand", Seed: rng.U64()}
	default:
		c.Resp = o4pair.Chunker{Kind: "fixed", N: vlib.Pick(rng, []int{1, 1448, 8192})}
	}
	c.EarlyRead = pickReads(rng, sum(c.Early))
	// then some ordinary traffic both ways
	for k := rng.Range(0, 2); k > 0; k-- {
		dir := rng.Intn(2)
		sz := pickSizes(rng, iat, 2)
		c.Ops = append(c.Ops, Op{Kind: "w", Dir: dir, Sizes: sz},
			Op{Kind: "mv", Dir: dir, Chunk: pickChunker(rng, sum(sz)), ReadSz: pickReads(rng, sum(sz))})
	}
	addTmo(rng, &c, 25)
	addFin(rng, &c, 50)
	return c
}

// genRandom: several bursts in both directions, some held back and released together
// ("everything so far in one read"), both directions in flight at once.
func genRandom(rng *vlib.Rng, i int) Case {
	iat := pickIAT(rng)
	c := Case{Name: fmt.Sprintf("random-%d", i), P: o4pair.RandomParams(rng, iat, rng.Intn(3) == 0)}
	c.Hello = vlib.Pick(rng, []o4pair.Chunker{{Kind: "whole"}, {Kind: "rand", Seed: rng.U64()}, {Kind: "one"}, {Kind: "fixed", N: 1448}})
	c.Resp = vlib.Pick(rng, []o4pair.Chunker{{Kind: "whole"}, {Kind: "rand", Seed: rng.U64()}, {Kind: "one"}, {Kind: "bounds", N: 0}, {Kind: "bounds", N: 1}, {Kind: "bounds", N: -1}})
	nb := rng.Range(2, 6)
	if iat != 0 {
		nb = rng.Range(1, 3)
	}
	pendingBytes := [2]int{}
	for k := 0; k < nb; k++ {
		dir := rng.Intn(2)
		sz := pickSizes(rng, iat, 3)
		c.Ops = append(c.Ops, Op{Kind: "w", Dir: dir, Sizes: sz})
		pendingBytes[dir] += sum(sz)
		if rng.Intn(4) == 0 && k+1 < nb {
			continue // hold: released later together with more
		}
		// sometimes release the other direction first (both directions in flight)
		order := []int{dir}
		if pendingBytes[1-dir] > 0 {
			if rng.Bool() {
				order = []int{1 - dir, dir}
			} else {
				order = []int{dir, 1 - dir}
			}
		}
		for _, d := range order {
			c.Ops = append(c.Ops, Op{Kind: "mv", Dir: d, Chunk: pickChunker(rng, pendingBytes[d]), ReadSz: pickReads(rng, pendingBytes[d])})
			pendingBytes[d] = 0
		}
	}
	for d := 0; d < 2; d++ {
		if pendingBytes[d] > 0 {
			c.Ops = append(c.Ops, Op{Kind: "mv", Dir: d, Chunk: pickChunker(rng, pendingBytes[d]), ReadSz: pickReads(rng, pendingBytes[d])})
		}
	}
	addTmo(rng, &c, 25)
	addFin(rng, &c, 60)
	return c
}

// genSweep: one connection, many bursts of the same shape, the k-th burst cut at offset
// base+k ("all offsets in a window"): every split point of a burst is exercised.
func genSweep(rng *vlib.Rng, i int, sizes []int, iat int, from, to, step int) Case {
	c := Case{Name: fmt.Sprintf("sweep-%d", i), P: o4pair.RandomParams(rng, iat, false)}
	c.Hello, c.Resp = o4pair.Chunker{Kind: "whole"}, o4pair.Chunker{Kind: "whole"}
	dir := i % 2
	for off := from; off <= to; off += step {
		c.Ops = append(c.Ops, Op{Kind: "w", Dir: dir, Sizes: sizes},
			Op{Kind: "mv", Dir: dir, Chunk: o4pair.Chunker{Kind: "at", N: off}, ReadSz: []int{vlib.Pick(rng, []int{7, 1427, 4096, 32768})}})
	}
	return c
}

// genBoundary: bursts of 1–3 frames of every size class, released cut at every frame boundary
// −1 / 0 / +1 (boundaries from the shadow decoder), all IAT modes.
func genBoundary(rng *vlib.Rng, i int, iat int) Case {
	c := Case{Name: fmt.Sprintf("boundary-%d", i), P: o4pair.RandomParams(rng, iat, i%4 == 3)}
	c.Hello, c.Resp = o4pair.Chunker{Kind: "whole"}, o4pair.Chunker{Kind: "bounds", N: 0}
	for _, delta := range []int{-1, 0, 1, -2, 2} {
		for dir := 0; dir < 2; dir++ {
			n := rng.Range(1, 3)
			var sz []int
			for k := 0; k < n; k++ {
				sz = append(sz, vlib.Pick(rng, []int{0, 1, 1426, 1427, 1428, 1447, 1448, 1449}))
			}
			c.Ops = append(c.Ops, Op{Kind: "w", Dir: dir, Sizes: sz},
				Op{Kind: "mv", Dir: dir, Chunk: o4pair.Chunker{Kind: "bounds", N: delta}, ReadSz: pickReads(rng, sum(sz))})
		}
	}
	addTmo(rng, &c, 30)
	addFin(rng, &c, 60)
	return c
}

// ---------------------------------------------------------------- main

func caseKey(c Case) string {
	b, _ := json.Marshal(c)
	return string(b)
}

type agg struct {
	maxMs    int64
	r        *vlib.Run
	pool     *o4pair.Pool
	f2skips  int
	tieOK    int
	tieCases int
	noDriver int
}

// evaluate runs a batch of cases on the worker pool and records the outcomes in case order.
func (a *agg) evaluate(cases []Case, origin string) {
	jobs := make([][]byte, len(cases))
	for i, c := range cases {
		jobs[i], _ = json.Marshal(Job{Case: c, Origin: origin})
	}
	for i, out := range a.pool.Run(jobs) {
		var o Outcome
		if err := json.Unmarshal(out, &o); err == nil && o.WorkerError == "timeout" {
			// real IAT sleeps with a pathological length table: not a verdict about the property
			a.r.Count("skipped", "case-abandoned-after-150s")
			fmt.Fprintf(os.Stderr, "case %s abandoned after the job timeout\n", cases[i].Name)
			if a.r.ReplayDir != "" {
				os.MkdirAll(a.r.ReplayDir, 0o755)
				b, _ := json.MarshalIndent(map[string]interface{}{"property": a.r.Prop, "kind": "abandoned-slow-case", "case": cases[i]}, "", " ")
				os.WriteFile(filepath.Join(a.r.ReplayDir, a.r.Prop+"-abandoned-"+cases[i].Name+".json"), b, 0o644)
			}
			continue
		} else if err != nil || o.WorkerError != "" {
			a.r.Violate("harness-worker-failed", "correspondence", fmt.Sprintf("[%s] worker: %v %s", cases[i].Name, err, o.WorkerError), cases[i])
			continue
		}
		a.record(o)
	}
}

func (a *agg) record(o Outcome) {
	if o.WallMs > a.maxMs {
		a.maxMs = o.WallMs
		a.r.Notes["slowest_case"] = fmt.Sprintf("%s: %d ms", o.Case.Name, o.WallMs)
	}
	if o.WallMs > 5000 {
		fmt.Fprintf(os.Stderr, "slow case %s: %d ms\n", o.Case.Name, o.WallMs)
	}
	r, c, st, v := a.r, o.Case, o.Stats, o.V
	for k := 0; k < o.F2Retries; k++ {
		a.f2skips++
		r.Count("skipped", "F2-paranoid-iat-length-0")
	}
	if o.Skipped {
		a.f2skips++
		r.Count("skipped", "F2-paranoid-iat-length-0")
		return
	}
	a.tieOK += o.TieOK
	r.Validated(o.TieOK)
	if o.TieOK > 0 {
		a.tieCases++
	}
	if !o.TieDriver {
		a.noDriver++
	}
	split := st["split-releases"] > 0 || len(c.Early) > 0
	r.Case(caseKey(c), split && st["bytes"]+st["early-bytes"] > 0)
	r.Count("iat-mode", fmt.Sprint(c.P.IAT))
	r.Count("dist", map[bool]string{false: "uniform", true: "biased"}[c.P.Biased])
	r.Count("family", familyOf(c.Name))
	if familyOf(c.Name) == "hscut" {
		r.Count("handshake-reads-end", surplusClass(st["hs-surplus-len"], st["hs-deadline-checked"]))
	} else if len(c.Early) > 0 {
		r.Count("handshake", "data-coalesced:"+c.Resp.String())
	} else {
		r.Count("handshake", "plain:"+c.Resp.String())
	}
	for _, op := range c.Ops {
		if op.Kind == "w" {
			for _, n := range op.Sizes {
				r.Count("write-size", sizeClassName(n))
			}
		} else {
			if op.Kind == "fin" {
				r.Count("close", fmt.Sprintf("%s joint=%v", op.End, op.Joint))
			}
			if op.Kind == "tmo" {
				r.Count("temporary-read-error", fmt.Sprintf("%s joint=%v cut=%s", op.End, op.Joint, cutClass(op.CutOff)))
			}
			r.Count("chunker", op.Chunk.Kind)
			for _, n := range op.ReadSz {
				r.Count("read-size", fmt.Sprint(n))
			}
		}
	}
	for _, n := range c.Early {
		r.Count("write-size", sizeClassName(n))
	}
	for _, k := range []string{"close:all-bytes-before-error", "close:error-reported-with-payload-still-buffered"} {
		for i := 0; i < st[k]; i++ {
			r.Count("close-outcome", k[6:])
		}
	}
	r.Sample(5, map[string]interface{}{"case": c.Name, "iat": c.P.IAT, "early": c.Early, "resp_chunks": c.Resp.String(), "ops": len(c.Ops), "stats": st})
	if v != nil {
		kind := "impl-oracle"
		if len(v.Sig) > 4 && v.Sig[:4] == "tie-" {
			kind = "correspondence"
		}
		r.Violate(v.Sig, kind, fmt.Sprintf("[%s] %s", c.Name, v.Desc), c)
	}
}

func familyOf(name string) string {
	for i := 0; i < len(name); i++ {
		if name[i] == '-' {
			return name[:i]
		}
	}
	return name
}

func main() {
	o4pair.WorkerMain(handle)
	r := vlib.NewRun("C01")
	r.Rule = "a case counts as non-trivial when at least one burst (or the handshake response with coalesced data) was released to the receiver in >=2 network reads or together with the handshake, and >=1 payload byte was delivered and compared with what the peer wrote"
	r.Assumptions = []string{
		"connections whose iat-mode=2 Write panics with 'iat length was 0' (defect F2, property C09) are skipped and counted under input_distribution.skipped",
		"goroutine interleavings: one blocked reader goroutine per endpoint while the harness goroutine writes; schedules are sampled, not enumerated",
	}
	pool, err := o4pair.NewPool(0, r.DriverBin)
	if err != nil {
		fmt.Fprintln(os.Stderr, "cannot start workers:", err)
		os.Exit(3)
	}
	defer pool.Close()
	a := &agg{r: r, pool: pool}
	finish := func() {
		r.Notes["f2_skipped_connections"] = a.f2skips
		if a.noDriver > 0 && a.tieOK == 0 {
			r.Notes["model_tie"] = "model driver o4data not available: S oracle only"
		} else {
			r.Notes["model_tie"] = map[string]int{"quiescence_points_compared_with_model": a.tieOK, "connections_with_model": a.tieCases}
		}
		pool.Close()
		r.Finish()
	}

	if r.ReplayIn != "" {
		var c Case
		if err := r.LoadReplay(&c); err != nil {
			fmt.Fprintln(os.Stderr, "cannot load replay:", err)
			os.Exit(3)
		}
		a.evaluate([]Case{c}, "replay")
		finish()
	}

	// corpus first
	if dir := os.Getenv("VERIF_DIR"); dir != "" {
		files, _ := filepath.Glob(filepath.Join(dir, "corpus", "C01", "*.json"))
		sort.Strings(files)
		var cs []Case
		for _, f := range files {
			b, err := os.ReadFile(f)
			if err != nil {
				continue
			}
			var doc struct {
				Case Case `json:"case"`
			}
			if json.Unmarshal(b, &doc) == nil && doc.Case.Name != "" {
				doc.Case.Name = "corpus-" + doc.Case.Name
				cs = append(cs, doc.Case)
				r.Count("corpus", filepath.Base(f))
			}
		}
		a.evaluate(cs, "corpus")
	}

	rng := vlib.NewRng(r.Seed)
	start := time.Now()
	budget := time.Duration(r.Scale(70, 780)) * time.Second
	within := func() bool { return time.Since(start) < budget }
	// batches: fixed case counts; the wall-clock guard only protects against a pathologically slow machine
	batch := func(n int, gen func(i int) Case) {
		const bs = 64
		for lo := 0; lo < n && within(); lo += bs {
			var cs []Case
			for i := lo; i < lo+bs && i < n; i++ {
				c := gen(i)
				if only := os.Getenv("O4_ONLY"); only != "" && c.Name != only { // debugging aid
					continue
				}
				cs = append(cs, c)
			}
			a.evaluate(cs, "generated")
		}
	}
	batch(r.Scale(600, 6000), func(i int) Case { return genCoalesced(rng.Fork(), i) })
	batch(r.Scale(240, 2400), func(i int) Case { return genBoundary(rng.Fork(), i, i%3) })
	batch(r.Scale(1200, 12000), func(i int) Case { return genRandom(rng.Fork(), i) })
	// all split offsets of small bursts: windows over whole bursts
	sweeps := [][]int{{1}, {0}, {1427}, {1428}, {1, 1}, {1449}}
	to := 160
	if r.Thorough() {
		to = 3100
	}
	batch(len(sweeps)*2, func(i int) Case { return genSweep(rng.Fork(), i, sweeps[i/2], 0, 1, to, 1) })
	// full duplex: both endpoints reading and writing simultaneously
	batch(r.Scale(8, 32), func(i int) Case { return genDuplex(rng.Fork(), i, r.Thorough()) })
	// every cut point of the two handshake flights (deadline + hand-over oracle, both roles)
	{
		nFam := r.Scale(3, 6)
		for fam := 0; fam < nFam; fam++ {
			p := o4pair.RandomParams(rng.Fork(), 0, false)
			var early []int
			if fam%3 == 1 {
				early = []int{100}
			}
			var cs []Case
			for n := -8200; n <= 60+1600; n++ {
				dense := n >= -130 && n <= 60
				if !r.Thorough() && !dense && n%23 != 0 {
					continue
				}
				if n > 60 && len(early) == 0 {
					break
				}
				cs = append(cs, genHsCut(p, fam, "resp", n, early))
			}
			for n := 1; n <= 8200; n++ {
				if !r.Thorough() && n > 70 && n%23 != 0 {
					continue
				}
				cs = append(cs, genHsCut(p, fam, "req", n, early))
			}
			const bs = 256
			for lo := 0; lo < len(cs) && within(); lo += bs {
				hi := lo + bs
				if hi > len(cs) {
					hi = len(cs)
				}
				a.evaluate(cs[lo:hi], "generated")
			}
		}
	}
	// temporary read errors at the characteristic offsets of one frame (quick) / at every offset (thorough)
	{
		var offs []int
		if r.Thorough() {
			for k := 0; k <= 1448; k++ {
				offs = append(offs, k)
			}
		} else {
			offs = []int{0, 1, 2, 3, 17, 18, 19, 700, 1446, 1447, -2, -1, 1, 3, -1}
		}
		sizes := []int{1427, 1, 1427, 100}
		batch(len(sizes)*3, func(i int) Case { return genTmoSweep(rng.Fork(), i, sizes[i%len(sizes)], (i/len(sizes))%3, offs) })
	}
	if r.Thorough() {
		batch(12, func(i int) Case {
			return genSweep(rng.Fork(), 100+i, []int{vlib.Pick(rng, []int{1, 100, 1427})}, 1+i%2, 1, 150, 1)
		})
	}
	finish()
}
