// PRIMS2 — tie-only check: the executable Lean public-key primitives (X25519, the dirty
// Elligator 2 key generation of internal/x25519ell2, the Elligator 2 direct map, UniformDH,
// modular exponentiation) against the real Go code, op by op, on structured and random inputs.
// Not a property: every disagreement is a "correspondence" violation.
package main

import (
	"bytes"
	"encoding/hex"
	"fmt"
	"math/big"
	"sort"
	"strconv"
	"strings"
	"sync"
	"time"

	"filippo.io/edwards25519"
	"filippo.io/edwards25519/field"
	"gitlab.com/yawning/edwards25519-extra/elligator2"
	"gitlab.com/yawning/obfs4.git/common/ntor"
	"gitlab.com/yawning/obfs4.git/common/uniformdh"
	"golang.org/x/crypto/curve25519"

	"verif/harness/vlib"
)

// pcase is one driver op with its arguments (hex strings / decimal numbers), also the replay format.
type pcase struct {
	Op   string   `json:"op"`
	Args []string `json:"args"`
	Tag  string   `json:"tag"` // generator class, for the measured distribution
}

func (c pcase) line() string { return c.Op + " " + strings.Join(c.Args, " ") }

var (
	p25519 = new(big.Int).Sub(new(big.Int).Lsh(big.NewInt(1), 255), big.NewInt(19))
	two255 = new(big.Int).Lsh(big.NewInt(1), 255)
	two256 = new(big.Int).Lsh(big.NewInt(1), 256)
	ellOrd = func() *big.Int {
		n, _ := new(big.Int).SetString("27742317777372353535851937790883648493", 10)
		return n.Add(n, new(big.Int).Lsh(big.NewInt(1), 252))
	}()
)

func bi(s string) *big.Int {
	n, ok := new(big.Int).SetString(s, 10)
	if !ok {
		panic(s)
	}
	return n
}

// le32 encodes n mod 2^256 on 32 bytes little-endian.
func le32(n *big.Int) []byte {
	m := new(big.Int).Mod(n, two256)
	b := m.FillBytes(make([]byte, 32))
	for i, j := 0, 31; i < j; i, j = i+1, j-1 {
		b[i], b[j] = b[j], b[i]
	}
	return b
}

func arr32(b []byte) *[32]byte {
	var a [32]byte
	copy(a[:], b)
	return &a
}

// structured 32-byte values: field edge values, non-canonical encodings, single bits, all
// low-order u-coordinates (with and without bit 255).
func structured32() (vals [][]byte, tags []string) {
	add := func(n *big.Int, tag string) {
		vals = append(vals, le32(n))
		tags = append(tags, tag)
	}
	p := p25519
	sub := func(a *big.Int, k int64) *big.Int { return new(big.Int).Sub(a, big.NewInt(k)) }
	plus := func(a *big.Int, k int64) *big.Int { return new(big.Int).Add(a, big.NewInt(k)) }
	low := []*big.Int{big.NewInt(0), big.NewInt(1),
		bi("325606250916557431795983626356110631294008115727848805560023387167927233504"),
		bi("39382357235489614581723060781553021112529911719440698176882885853963445705823"),
		sub(p, 1), p, plus(p, 1)}
	for _, l := range low {
		add(l, "low-order-u")
		add(new(big.Int).Add(l, two255), "low-order-u|2^255")
	}
	edge := []*big.Int{big.NewInt(2), big.NewInt(9), big.NewInt(486662), sub(p, 486662), sub(p, 2), plus(p, 2), plus(p, 18),
		sub(new(big.Int).Lsh(big.NewInt(1), 254), 1), new(big.Int).Lsh(big.NewInt(1), 254), plus(new(big.Int).Lsh(big.NewInt(1), 254), 1),
		sub(two255, 1), two255, plus(two255, 1), sub(two256, 1), sub(two256, 19), sub(two256, 20),
		new(big.Int).Rsh(sub(p, 1), 1), plus(new(big.Int).Rsh(sub(p, 1), 1), 1), sub(two255, 20), sub(two255, 18)}
	for _, e := range edge {
		add(e, "edge")
	}
	for i := 0; i < 256; i++ {
		add(new(big.Int).Lsh(big.NewInt(1), uint(i)), "single-bit")
	}
	for i := 0; i < 256; i += 7 {
		add(new(big.Int).Sub(sub(two256, 1), new(big.Int).Lsh(big.NewInt(1), uint(i))), "single-zero-bit")
	}
	return
}

// ---------------------------------------------------------------- implementation side

func feFromU(u []byte) *field.Element {
	fe, err := new(field.Element).SetBytes(u)
	if err != nil {
		panic(err)
	}
	return fe
}

var (
	feOne   = new(field.Element).One()
	scLm1   = mustScalar([]byte{236, 211, 245, 92, 26, 99, 18, 88, 214, 156, 247, 162, 222, 249, 222, 20, 0, 0, 0, 0, 0, 0, 0, 0, 0, 0, 0, 0, 0, 0, 0, 16})
	edIdent = edwards25519.NewIdentityPoint()
)

func mustScalar(b []byte) *edwards25519.Scalar {
	s, err := edwards25519.NewScalar().SetCanonicalBytes(b)
	if err != nil {
		panic(err)
	}
	return s
}

// mulOrder returns ℓ·v computed as (ℓ−1)·v + v with the library (as ntor_test does).
func mulOrder(v *edwards25519.Point) *edwards25519.Point {
	q := new(edwards25519.Point).ScalarMult(scLm1, v)
	return q.Add(q, v)
}

// implCosetClass: the class of ℓ·P for the curve point(s) with Montgomery u-coordinate u, computed
// with filippo.io/edwards25519: u → y = (u−1)/(u+1) → decompress (either sign) → ·ℓ → order.
func implCosetClass(u []byte) string {
	fu := feFromU(u)
	up1 := new(field.Element).Add(fu, feOne)
	if up1.Equal(new(field.Element).Zero()) == 1 {
		return "x" // u = −1: no Edwards image (order-4 point of the twist)
	}
	y := new(field.Element).Subtract(fu, feOne)
	y.Multiply(y, up1.Invert(up1))
	P, err := new(edwards25519.Point).SetBytes(y.Bytes()) // sign bit 0
	if err != nil {
		return "x" // not on the curve (u on the twist)
	}
	return classOfLowOrder(mulOrder(P))
}

// classOfLowOrder names the u-class of a point of the 8-torsion subgroup.
func classOfLowOrder(Q *edwards25519.Point) string {
	if Q.Equal(edIdent) == 1 {
		return "1"
	}
	qu := new(big.Int).SetBytes(rev(Q.BytesMontgomery()))
	switch {
	case qu.Sign() == 0:
		return "2"
	case qu.Cmp(big.NewInt(1)) == 0:
		return "4"
	case qu.Cmp(bi("325606250916557431795983626356110631294008115727848805560023387167927233504")) == 0:
		return "8a"
	case qu.Cmp(bi("39382357235489614581723060781553021112529911719440698176882885853963445705823")) == 0:
		return "8b"
	}
	return "x"
}

func rev(b []byte) []byte {
	o := make([]byte, len(b))
	for i := range b {
		o[len(b)-1-i] = b[i]
	}
	return o
}

func natHex(n *big.Int) string {
	if n.Sign() == 0 {
		return "00"
	}
	return hex.EncodeToString(n.Bytes())
}

// impl evaluates the op on the real code and returns the reply the model must give
// ("" = no expectation for this op, only recorded).
func impl(c pcase) (want string) {
	defer func() {
		if e := recover(); e != nil {
			want = "panic"
		}
	}()
	a := func(i int) []byte { return vlib.UnHex(c.Args[i]) }
	switch c.Op {
	case "x25519":
		var dst [32]byte
		curve25519.ScalarMult(&dst, arr32(a(0)), arr32(a(1))) //nolint:staticcheck
		return vlib.Hex(dst[:])
	case "x25519c":
		out, err := curve25519.X25519(a(0), a(1))
		if err != nil {
			return "err"
		}
		return vlib.Hex(out)
	case "x25519b":
		var dst [32]byte
		curve25519.ScalarBaseMult(&dst, arr32(a(0)))
		return vlib.Hex(dst[:])
	case "ell.sbm":
		t, _ := strconv.Atoi(c.Args[1])
		pub, repr, ok := ntor.VerifScalarBaseMult(arr32(a(0)), byte(t))
		if !ok {
			return "none"
		}
		return vlib.Hex(pub[:]) + " " + vlib.Hex(repr[:])
	case "ell.r2p", "ell.spec":
		var r ntor.Representative
		copy(r[:], a(0))
		pub := r.ToPublic()
		pub2 := ntor.VerifRepresentativeToPublic(arr32(a(0)))
		if !bytes.Equal(pub[:], pub2[:]) {
			return "impl-inconsistent"
		}
		return vlib.Hex(pub[:])
	case "ell.coset":
		return implCosetClass(a(0))
	case "ell.cosetr":
		cl := append([]byte(nil), a(0)...)
		cl[31] &= 63
		ed := elligator2.EdwardsFlavor(feFromU(cl))
		return vlib.Hex(mulOrder(ed).Bytes())
	case "ell.cosetp":
		// the sign of the dirty point is not observable through the Go API; what is: the class of
		// the public key's u-coordinate (when the key has a representative, for some tweak)
		if pub, _, ok := ntor.VerifScalarBaseMult(arr32(a(0)), 0); ok {
			return "class:" + implCosetClass(pub[:])
		}
		return ""
	case "udh.gen":
		k, err := uniformdh.VerifGenerateKey(a(0))
		if err != nil {
			return "err"
		}
		if len(a(0)) == uniformdh.Size {
			// the public entry point must agree with the hook
			k2, err := uniformdh.GenerateKey(bytes.NewReader(a(0)))
			if err != nil {
				return "impl-inconsistent"
			}
			b1, _ := k.PublicKey.Bytes()
			b2, _ := k2.PublicKey.Bytes()
			if !bytes.Equal(b1, b2) {
				return "impl-inconsistent"
			}
		}
		b, err := k.PublicKey.Bytes()
		if err != nil {
			return "err"
		}
		return vlib.Hex(b)
	case "udh.shared":
		k, err := uniformdh.VerifGenerateKey(a(0))
		if err != nil {
			return "err"
		}
		var pub uniformdh.PublicKey
		if err := pub.SetBytes(a(1)); err != nil {
			return "err"
		}
		s, err := uniformdh.Handshake(k, &pub)
		if err != nil {
			return "err"
		}
		return vlib.Hex(s)
	case "modexp":
		b, e, m := new(big.Int).SetBytes(a(0)), new(big.Int).SetBytes(a(1)), new(big.Int).SetBytes(a(2))
		return natHex(new(big.Int).Exp(b, e, m))
	}
	return ""
}

// ---------------------------------------------------------------- comparison

type result struct {
	c     pcase
	want  string
	got   string
	leanT time.Duration
}

func evalOne(d *vlib.Driver, c pcase) result {
	want := impl(c)
	t0 := time.Now()
	got := d.Call("%s", c.line())
	return result{c, want, got, time.Since(t0)}
}

func judge(r *vlib.Run, res result, cosetSeen map[string]int) {
	c := res.c
	r.Case(c.line(), true)
	r.Validated(1)
	r.Count("op", c.Op)
	r.Count("class", c.Op+"/"+c.Tag)
	r.Sample(8, map[string]interface{}{"op": c.line(), "impl": res.want, "model": res.got})
	want, got := res.want, res.got
	switch c.Op {
	case "ell.cosetr":
		// model replies "<idx> <hex of ℓ·P>"; the implementation side gives the point only
		f := strings.Fields(got)
		if len(f) == 2 {
			cosetSeen["r"+f[0]]++
			got = f[1]
		}
	case "ell.cosetp":
		// model replies "<idx> <compressed ℓ·(dirty point)>": the point must be of low order, its
		// u-class must be the class of the implementation's public key, and idx is recorded per low-3-bits
		f := strings.Fields(got)
		cls := "bad-reply"
		if len(f) == 2 && len(f[1]) == 64 {
			if P, err := new(edwards25519.Point).SetBytes(vlib.UnHex(f[1])); err == nil {
				if new(edwards25519.Point).MultByCofactor(P).Equal(edIdent) == 1 {
					cls = classOfLowOrder(P)
				} else {
					cls = "not-low-order"
				}
			}
			cosetSeen[fmt.Sprintf("p:low3=%d->idx%s", vlib.UnHex(c.Args[0])[0]&7, f[0])]++
		}
		if want == "" {
			want = "class:" + cls // no implementation observable for this key; only well-formedness
			if cls == "bad-reply" || cls == "not-low-order" {
				want = "class:<a low-order point>"
			}
		}
		got = "class:" + cls
	case "ell.coset":
		cosetSeen["u"+got]++
	case "ell.sbm":
		if got == "none" {
			r.Count("sbm", "no-representative")
		} else {
			r.Count("sbm", "ok")
		}
	case "x25519":
		if want == strings.Repeat("00", 32) {
			r.Count("x25519", "all-zero-output")
		}
	}
	if want != got {
		r.Violate("prim2-"+c.Op+"-mismatch", "correspondence",
			fmt.Sprintf("%s: implementation %q, Lean model %q", c.line(), want, got), c)
	}
}

func main() {
	r := vlib.NewRun("PRIMS2")
	r.Rule = "one case = one primitive op (x25519/x25519c/x25519b, ell.sbm, ell.r2p, ell.spec, ell.coset, ell.cosetr, udh.gen, udh.shared, modexp) on one input; every case counts as non-trivial; distinct by canonical op line"
	nw := 8
	drivers := make([]*vlib.Driver, nw)
	for i := range drivers {
		drivers[i] = r.Driver("prim2")
		defer drivers[i].Close()
	}

	var cases []pcase
	if r.ReplayIn != "" {
		var c pcase
		if err := r.LoadReplay(&c); err != nil {
			panic(err)
		}
		cases = []pcase{c}
	} else {
		cases = generate(r)
	}

	results := make([]result, len(cases))
	var wg sync.WaitGroup
	next := make(chan int, len(cases))
	for i := range cases {
		next <- i
	}
	close(next)
	for w := 0; w < nw; w++ {
		wg.Add(1)
		go func(d *vlib.Driver) {
			defer wg.Done()
			for i := range next {
				results[i] = evalOne(d, cases[i])
			}
		}(drivers[w])
	}
	wg.Wait()

	cosetSeen := map[string]int{}
	lat := map[string][]time.Duration{}
	for _, res := range results {
		judge(r, res, cosetSeen)
		lat[res.c.Op] = append(lat[res.c.Op], res.leanT)
	}
	ms := map[string]string{}
	for op, ts := range lat {
		sort.Slice(ts, func(i, j int) bool { return ts[i] < ts[j] })
		ms[op] = fmt.Sprintf("median %.2f ms, max %.2f ms (n=%d)", float64(ts[len(ts)/2].Microseconds())/1000,
			float64(ts[len(ts)-1].Microseconds())/1000, len(ts))
	}
	r.Notes["lean_latency_per_op_under_8_parallel_drivers"] = ms
	r.Notes["coset_classes_seen"] = cosetSeen
	if r.ReplayIn == "" {
		// the eight cosets must all occur among the generated keys (model index of ℓ·EdwardsFlavor(repr))
		for i := 0; i < 8; i++ {
			if cosetSeen[fmt.Sprintf("r%d", i)] == 0 {
				r.Violate("prim2-coset-not-covered", "correspondence",
					fmt.Sprintf("no generated representative mapped into coset index %d: %v", i, cosetSeen), pcase{Op: "coverage"})
			}
		}
	}
	if r.ReplayIn == "" {
		// the model's coset index of the dirty point is a function of the three low key bits, onto 0..7
		img := map[string]map[string]bool{}
		idxs := map[string]bool{}
		for k := range cosetSeen {
			if strings.HasPrefix(k, "p:") {
				f := strings.SplitN(k[2:], "->", 2)
				if img[f[0]] == nil {
					img[f[0]] = map[string]bool{}
				}
				img[f[0]][f[1]] = true
				idxs[f[1]] = true
			}
		}
		ok := len(img) == 8 && len(idxs) == 8
		for _, m := range img {
			if len(m) != 1 {
				ok = false
			}
		}
		if !ok {
			r.Violate("prim2-coset-not-determined-by-low-bits", "correspondence",
				fmt.Sprintf("coset index of the dirty point is not a bijective function of the low three key bits: %v", cosetSeen), pcase{Op: "coverage"})
		}
	}
	r.Finish()
}

// ---------------------------------------------------------------- generators

func generate(r *vlib.Run) []pcase {
	rng := vlib.NewRng(r.Seed)
	var cs []pcase
	add := func(tag, op string, args ...string) { cs = append(cs, pcase{Op: op, Args: args, Tag: tag}) }
	h := vlib.Hex
	svals, stags := structured32()

	fixedKeys := [][]byte{
		vlib.UnHex("77076d0a7318a57d3c16c17251b26645df4c2f87ebc0992ab177fba51db92c2a"),
		make([]byte, 32),
		bytes.Repeat([]byte{0xff}, 32),
		rng.Bytes(32),
	}

	// ---- X25519: structured u × a few scalars; structured scalars × base/random u; random × random
	for i, u := range svals {
		for _, k := range fixedKeys[:3] {
			add(stags[i], "x25519", h(k), h(u))
		}
		add(stags[i], "x25519c", h(fixedKeys[3]), h(u))
		add("scalar-"+stags[i], "x25519b", h(u))
	}
	for i := 0; i < r.Scale(3000, 40000); i++ {
		k, u := rng.Bytes(32), rng.Bytes(32)
		add("random", "x25519", h(k), h(u))
		if i%4 == 0 {
			add("random", "x25519c", h(k), h(u))
			add("random", "x25519b", h(k))
		}
	}

	// ---- dirty scalar-base-mult + inverse map
	var goodReprs, pubs [][]byte
	note := func(priv []byte, tweak byte) {
		if pub, repr, ok := ntor.VerifScalarBaseMult(arr32(priv), tweak); ok {
			goodReprs = append(goodReprs, append([]byte(nil), repr[:]...))
			pubs = append(pubs, append([]byte(nil), pub[:]...))
		}
	}
	// every tweak for two fixed keys (one of them must have a representative)
	for _, k := range [][]byte{fixedKeys[0], fixedKeys[3]} {
		for t := 0; t < 256; t++ {
			add("every-tweak", "ell.sbm", h(k), strconv.Itoa(t))
		}
		note(k, 0)
	}
	// every value of privateKey[0] (low three bits select the point; +2 wraps at 254, 255) for several tails
	for j := 0; j < r.Scale(6, 60); j++ {
		tail := rng.Bytes(32)
		for b0 := 0; b0 < 256; b0++ {
			k := append([]byte(nil), tail...)
			k[0] = byte(b0)
			t := byte(rng.Intn(256))
			add("every-priv0", "ell.sbm", h(k), strconv.Itoa(int(t)))
			note(k, t)
			if j == 0 || b0 < 8 {
				add(fmt.Sprintf("low3=%d", b0&7), "ell.cosetp", h(k))
			}
		}
	}
	// structured keys (clamping bits, extremes)
	for i, k := range svals {
		add("key-"+stags[i], "ell.sbm", h(k), strconv.Itoa(rng.Intn(256)))
	}
	for i := 0; i < r.Scale(4000, 60000); i++ {
		k := rng.Bytes(32)
		t := byte(rng.Intn(256))
		add("random", "ell.sbm", h(k), strconv.Itoa(int(t)))
		note(k, t)
	}

	// ---- direct map: structured strings, random strings, genuine representatives with the top bits varied
	for i, v := range svals {
		add(stags[i], "ell.r2p", h(v))
		add(stags[i], "ell.spec", h(v))
		add(stags[i], "ell.cosetr", h(v))
		add(stags[i], "ell.coset", h(v))
	}
	for i := 0; i < r.Scale(4000, 40000); i++ {
		v := rng.Bytes(32)
		add("random", "ell.r2p", h(v))
		add("random", "ell.spec", h(v))
		if i%4 == 0 {
			add("random", "ell.cosetr", h(v))
			add("random-u", "ell.coset", h(v))
		}
	}
	for i, g := range goodReprs {
		if i >= r.Scale(1500, 16000) {
			break
		}
		for top := 0; top < 4; top++ {
			v := append([]byte(nil), g...)
			v[31] = v[31]&63 | byte(top<<6)
			add("generated-repr-topbits", "ell.r2p", h(v))
			if top == 0 {
				add("generated-repr", "ell.spec", h(v))
				add("generated-repr", "ell.cosetr", h(v))
			}
		}
		add("generated-pub", "ell.coset", h(pubs[i]))
	}

	// ---- UniformDH
	pm := new(big.Int)
	pm.SetString(strings.ToLower("FFFFFFFFFFFFFFFFC90FDAA22168C234C4C6628B80DC1CD129024E088A67CC74020BBEA63B139B22514A08798E3404DDEF9519B3CD3A431B302B0A6DF25F14374FE1356D6D51C245E485B576625E7EC6F44C42E9A637ED6B0BFF5CB6F406B7EDEE386BFB5A899FA5AE9F24117C4B1FE649286651ECE45B3DC2007CB8A163BF0598DA48361C55D39A69163FA8FD24CF5F83655D23DCA3AD961C62F356208552BB9ED529077096966D670C354E4ABC9804F1746C08CA237327FFFFFFFFFFFFFFFF"), 16)
	be192 := func(n *big.Int) []byte {
		m := new(big.Int).Mod(n, new(big.Int).Lsh(big.NewInt(1), 1536))
		return m.FillBytes(make([]byte, 192))
	}
	one := big.NewInt(1)
	all1 := new(big.Int).Sub(new(big.Int).Lsh(one, 1536), one)
	privs := [][]byte{be192(big.NewInt(0)), be192(one), be192(big.NewInt(2)), be192(big.NewInt(3)), be192(all1),
		be192(new(big.Int).Sub(all1, one)), be192(pm), be192(new(big.Int).Sub(pm, one)), be192(new(big.Int).Add(pm, one)),
		be192(new(big.Int).Lsh(one, 1535)), be192(new(big.Int).Add(new(big.Int).Lsh(one, 1535), one))}
	ptags := []string{"0", "1", "2", "3", "all-ones", "all-ones-1", "p", "p-1", "p+1", "2^1535", "2^1535+1"}
	for i := 0; i < r.Scale(300, 3000); i++ {
		k := rng.Bytes(192)
		if i%2 == 0 {
			k[191] &^= 1
			ptags = append(ptags, "random-even")
		} else {
			k[191] |= 1
			ptags = append(ptags, "random-odd")
		}
		if i%5 == 0 { // short numbers
			for j := 0; j < 192-rng.Range(1, 40); j++ {
				k[j] = 0
			}
		}
		privs = append(privs, k)
	}
	var upubs [][]byte
	for i, k := range privs {
		add("priv-"+ptags[i], "udh.gen", h(k))
		if kk, err := uniformdh.VerifGenerateKey(k); err == nil {
			b, _ := kk.PublicKey.Bytes()
			upubs = append(upubs, b)
		}
	}
	for _, n := range []int{0, 1, 32, 191, 193, 384} { // wrong lengths are refused
		add("bad-length", "udh.gen", h(rng.Bytes(n)))
	}
	peers := [][]byte{be192(big.NewInt(0)), be192(one), be192(big.NewInt(2)), be192(new(big.Int).Sub(pm, one)), be192(pm),
		be192(new(big.Int).Add(pm, one)), be192(all1)}
	petags := []string{"0", "1", "2", "p-1", "p", "p+1", "all-ones"}
	for i, pe := range peers {
		for j := 0; j < 6; j++ {
			add("peer-"+petags[i]+"/priv-"+ptags[j], "udh.shared", h(privs[j]), h(pe))
		}
		add("peer-"+petags[i]+"/priv-random", "udh.shared", h(privs[len(privs)-1-i]), h(pe))
	}
	for i := 0; i < r.Scale(400, 4000); i++ {
		k := privs[rng.Intn(len(privs))]
		var pe []byte
		tag := "peer-genuine"
		if rng.Intn(4) == 0 {
			pe = rng.Bytes(192)
			tag = "peer-random"
		} else {
			pe = upubs[rng.Intn(len(upubs))]
		}
		add(tag, "udh.shared", h(k), h(pe))
	}
	add("bad-length", "udh.shared", h(privs[3]), h(rng.Bytes(191)))
	add("bad-length", "udh.shared", h(rng.Bytes(190)), h(peers[2]))

	// ---- modexp
	hb := func(n *big.Int) string {
		if n.Sign() == 0 {
			return "00"
		}
		return hex.EncodeToString(n.Bytes())
	}
	rb := func(maxBytes int) *big.Int { return new(big.Int).SetBytes(rng.Bytes(rng.Range(1, maxBytes))) }
	for i := 0; i < r.Scale(1500, 12000); i++ {
		m := rb(200)
		if m.Sign() == 0 {
			m = big.NewInt(1)
		}
		b, e := rb(220), rb(64)
		switch rng.Intn(10) {
		case 0:
			e = big.NewInt(0)
		case 1:
			b = big.NewInt(0)
		case 2:
			m = big.NewInt(1)
		case 3:
			b = new(big.Int).Sub(m, one)
		case 4:
			e = rb(192)
			m = pm
		}
		add("random", "modexp", hb(b), hb(e), hb(m))
	}
	add("0^0", "modexp", "00", "00", hb(pm))
	add("0^0 mod 1", "modexp", "00", "00", "01")
	add("fermat-25519", "modexp", "02", hb(new(big.Int).Sub(p25519, one)), hb(p25519))

	return cs
}
