// C16 — meek_lite: the real client (transports.Get("meek_lite") ClientFactory, Dial with a dialFn)
// against an in-process HTTP server that records every request and answers from a script.
// Every session's event trace is validated as a run of the Lean interleaving model (driver
// `meek`) and judged by an implementation-level oracle written from the property text.
package main

import (
	"bytes"
	"context"
	"encoding/json"
	"fmt"
	"io"
	"net"
	"net/http"
	"os"
	"os/exec"
	"path/filepath"
	"runtime"
	"sort"
	"strconv"
	"strings"
	"sync"
	"sync/atomic"
	"time"

	pt "gitlab.torproject.org/tpo/anti-censorship/pluggable-transports/goptlib"

	"gitlab.com/yawning/obfs4.git/transports"
	"gitlab.com/yawning/obfs4.git/transports/base"

	"verif/harness/vlib"
)

// ---------------------------------------------------------------- in-memory HTTP server

type pipeListener struct {
	ch     chan net.Conn
	closed chan struct{}
}

func (l *pipeListener) Accept() (net.Conn, error) {
	select {
	case c := <-l.ch:
		return c, nil
	case <-l.closed:
		return nil, io.EOF
	}
}
func (l *pipeListener) Close() error   { close(l.closed); return nil }
func (l *pipeListener) Addr() net.Addr { return &net.TCPAddr{IP: net.IPv4(127, 0, 0, 1), Port: 80} }

// taggedConn: the server side of a connection the client dialled, tagged with the session
// (= the meekConn) whose dialFn made it: requests are attributed to connections by the
// transport connection they arrive on, not by their URL or session id.
type taggedConn struct {
	net.Conn
	sess *session
}

type sessKey struct{}

func (l *pipeListener) dialFor(s *session) func(string, string) (net.Conn, error) {
	return func(string, string) (net.Conn, error) {
		a, b := net.Pipe()
		select {
		case l.ch <- &taggedConn{Conn: b, sess: s}:
			return a, nil
		case <-l.closed:
			return nil, io.EOF
		}
	}
}

// ---------------------------------------------------------------- session script and log

type script struct {
	Name      string `json:"name"`
	Writes    []int  `json:"writes"`     // payload sizes of the writer's Write calls
	ReadSizes []int  `json:"read_sizes"` // buffer sizes of the reader's Read calls (cyclic)
	Reads     int    `json:"reads"`      // -1: read until an error; k: stop after k reads (leftover scenario)
	Resp      []int  `json:"resp"`       // body sizes of the successive 200 responses (cyclic), drawn from Down bytes
	Down      int    `json:"down"`       // total downstream bytes the server has to deliver
	FailAt    int    `json:"fail_at"`    // request index answered `FailKind` (-1: never)
	FailKind  string `json:"fail_kind"`  // non200 | fail
	// Close: "after-write:j" (the writer closes after its j-th Write returned), "at-request:k" (a
	// third goroutine closes when the server has seen request k), "drained" (after everything
	// was delivered both ways), "after-fail"
	Close     string `json:"close"`
	ServerLag int    `json:"server_lag_us"` // the handler waits this long before answering
	// LingerMs: if a Read is still blocked after Close (worker inside roundTrip's retry sleep),
	// keep watching the server that long for requests issued after Close had returned
	LingerMs int `json:"linger_ms"`
	// Lag: pairs (read index, count): before its read no. `index` the reader waits until the
	// server has sent `count` non-empty responses (or everything there is to send) — the
	// application lags behind the poller, responses pile up in the queue / carry-over buffer
	Lag [][2]int `json:"lag,omitempty"`
	// NoFlush: keep to the scripted response sizes after the writer has finished
	NoFlush bool `json:"no_flush,omitempty"`
	// FreshBuf: every Write gets a slice of its own that is never touched again.  Default (false):
	// the writer reuses ONE buffer for all its Writes, as io.Copy does — it scribbles over it as
	// soon as Write has returned and refills it with the next payload
	FreshBuf bool `json:"fresh_buf,omitempty"`
	// Group: k >= 2 connections are Dialled from ONE ParseArgs result, the next one while the
	// previous ones are still polling; each runs this script
	Group int `json:"group,omitempty"`
	// FrameOff rotates which framing (Content-Length / chunked / EOF-delimited) the k-th
	// non-empty response gets
	FrameOff int `json:"frame_off,omitempty"`
	// FailOn: every request from FailAt on is answered FailKind (not only that one)
	FailOn bool `json:"fail_on,omitempty"`
	// FirstLagMs: the first two requests are answered this late
	FirstLagMs int `json:"first_lag_ms,omitempty"`
	// DelayAt/DelayMs: request no. DelayAt is answered (200) only after DelayMs
	DelayAt int `json:"delay_at,omitempty"`
	DelayMs int `json:"delay_ms,omitempty"`
}

type session struct {
	id  int
	sc  script
	mu  sync.Mutex
	log []string

	up, down       []byte // the byte streams
	downOff        int
	nreq           int
	sids           map[string]bool
	maxBody        int
	inflight       int32
	maxInflight    int32
	upGot          bytes.Buffer // concatenation of the request bodies (200-answered and others)
	respBodies     bytes.Buffer // concatenation of the 200 response bodies
	allOK          bool
	closedAt       int // index in log of the `cr` event (-1: not yet)
	reqAfter       int // requests that arrived after Close returned
	accepted       bytes.Buffer
	called         bytes.Buffer
	readGot        bytes.Buffer
	reqSeen        chan int
	oracle         []string
	writerFin      int32
	blockedAtClose bool // Close was called while a Write call was in progress (blocked)
	nonEmpty       int  // non-empty 200 responses sent
	framings       map[string]int
	inWrite        int32 // the writer is inside a Write call
	writeSeq       int32 // Write calls started
	postWrite      string
	postRead       string
	postReadData   int
	readerLeft     bool
}

func (s *session) ev(e string) int {
	s.mu.Lock()
	s.log = append(s.log, e)
	n := len(s.log)
	s.mu.Unlock()
	return n
}

func (s *session) viol(sig, desc string) {
	s.mu.Lock()
	s.oracle = append(s.oracle, sig+"|"+desc)
	s.mu.Unlock()
}

func pattern(tag byte, n int) []byte {
	b := make([]byte, n)
	for i := range b {
		b[i] = tag ^ byte(i) ^ byte(i>>8)*3 ^ byte(i>>16)*5
	}
	return b
}

type server struct {
	ln       *pipeListener
	mu       sync.Mutex
	sessions map[int]*session
}

func (sv *server) ServeHTTP(w http.ResponseWriter, r *http.Request) {
	s, _ := r.Context().Value(sessKey{}).(*session)
	if s == nil {
		http.Error(w, "no such session", 404)
		return
	}
	n := atomic.AddInt32(&s.inflight, 1)
	// "in flight" ends when the server starts to send its answer (the client may issue the next
	// request the moment it has the last byte, before this handler has returned)
	var answered int32
	answer := func() {
		if atomic.CompareAndSwapInt32(&answered, 0, 1) {
			atomic.AddInt32(&s.inflight, -1)
		}
	}
	defer answer()
	for {
		m := atomic.LoadInt32(&s.maxInflight)
		if n <= m || atomic.CompareAndSwapInt32(&s.maxInflight, m, n) {
			break
		}
	}
	body, _ := io.ReadAll(r.Body)
	sid := r.Header.Get("X-Session-Id")
	s.mu.Lock()
	k := s.nreq
	s.nreq++
	s.sids[sid] = true
	if len(body) > s.maxBody {
		s.maxBody = len(body)
	}
	s.upGot.Write(body)
	if s.closedAt >= 0 {
		s.reqAfter++
	}
	s.log = append(s.log, "rq:"+vlib.Hex([]byte(sid))+":"+vlib.Hex(body))
	s.mu.Unlock()
	select {
	case s.reqSeen <- k:
	default:
	}
	if s.sc.ServerLag > 0 {
		time.Sleep(time.Duration(s.sc.ServerLag) * time.Microsecond)
	}
	if s.sc.DelayMs > 0 && k == s.sc.DelayAt {
		time.Sleep(time.Duration(s.sc.DelayMs) * time.Millisecond)
	}
	if k < 2 && s.sc.FirstLagMs > 0 {
		// the first answers are slow (longer than the worker's initial poll interval)
		time.Sleep(time.Duration(s.sc.FirstLagMs) * time.Millisecond)
	}
	if k == s.sc.FailAt || (s.sc.FailOn && s.sc.FailAt >= 0 && k > s.sc.FailAt) {
		s.mu.Lock()
		s.allOK = false
		s.mu.Unlock()
		if s.sc.FailKind == "non200" {
			s.ev("rs:non200")
			w.WriteHeader(http.StatusInternalServerError)
			return
		}
		s.ev("rs:fail")
		if hj, ok := w.(http.Hijacker); ok {
			if c, _, err := hj.Hijack(); err == nil {
				c.Close()
			}
		}
		return
	}
	s.mu.Lock()
	sz := 0
	if len(s.sc.Resp) > 0 {
		sz = s.sc.Resp[k%len(s.sc.Resp)]
	}
	if atomic.LoadInt32(&s.writerFin) != 0 && !s.sc.NoFlush {
		sz = 65536 // the application has finished writing: deliver what is left without idle polls
	}
	if sz > len(s.down)-s.downOff {
		sz = len(s.down) - s.downOff
	}
	out := s.down[s.downOff : s.downOff+sz]
	s.downOff += sz
	s.respBodies.Write(out)
	if len(out) > 0 {
		s.nonEmpty++
	}
	s.log = append(s.log, "rs:ok:"+vlib.Hex(out))
	// the framing of the body varies from response to response: explicit Content-Length,
	// chunked (no Content-Length, flushed part-way), delimited by the end of the connection
	framing := "content-length"
	if len(out) > 0 {
		framing = []string{"content-length", "chunked", "eof-delimited"}[(s.nonEmpty+s.sc.FrameOff)%3]
		s.framings[framing]++
	}
	s.mu.Unlock()
	answer()
	switch framing {
	case "chunked":
		h := len(out) / 2
		w.Write(out[:h])
		if f, ok := w.(http.Flusher); ok {
			f.Flush()
		}
		w.Write(out[h:])
	case "eof-delimited":
		hj, ok := w.(http.Hijacker)
		if !ok {
			w.Write(out)
			return
		}
		c, bw, err := hj.Hijack()
		if err != nil {
			return
		}
		bw.WriteString("HTTP/1.1 200 OK\r\nConnection: close\r\n\r\n")
		bw.Write(out)
		bw.Flush()
		c.Close()
	default:
		w.Header().Set("Content-Length", strconv.Itoa(len(out)))
		w.Write(out)
	}
}

// waitFor polls a condition with a bounded wait (a generous real-time bound, used only to let
// the worker goroutine make progress; exceeding it is reported, never silently passed).
func waitFor(d time.Duration, cond func() bool) bool {
	deadline := time.Now().Add(d)
	for !cond() {
		if time.Now().After(deadline) {
			return false
		}
		time.Sleep(200 * time.Microsecond)
	}
	return true
}

func errClass(err error) string {
	if err == nil {
		return "ok"
	}
	return "fail"
}

// runSession runs one scripted session against the real meek_lite client.
func parseArgs(cf base.ClientFactory, id int) (any, error) {
	args := &pt.Args{}
	args.Add("url", fmt.Sprintf("http://meek.test/s/%d", id))
	return cf.ParseArgs(args)
}

// runSession: ca == nil: the session parses its own arguments; otherwise it Dials from the
// given (shared) ParseArgs result.
func runSession(sv *server, cf base.ClientFactory, s *session, ca any) {
	sc := s.sc
	var err error
	if ca == nil {
		if ca, err = parseArgs(cf, s.id); err != nil {
			s.viol("dial-failed", "ParseArgs: "+err.Error())
			return
		}
	}
	conn, err := cf.Dial("tcp", "", sv.ln.dialFor(s), ca)
	if err != nil {
		s.viol("dial-failed", "Dial: "+err.Error())
		return
	}
	doClose := func() {
		s.ev("cc")
		err := conn.Close()
		s.mu.Lock()
		if err == nil {
			s.log = append(s.log, "cr:ok")
		} else {
			s.log = append(s.log, "cr:again")
		}
		if s.closedAt < 0 {
			s.closedAt = len(s.log)
		}
		s.mu.Unlock()
	}
	closeKind, closeArg := sc.Close, 0
	if i := strings.IndexByte(sc.Close, ':'); i >= 0 {
		closeKind = sc.Close[:i]
		closeArg, _ = strconv.Atoi(sc.Close[i+1:])
	}
	closed := make(chan struct{})
	var once sync.Once
	closeNow := func() { once.Do(func() { doClose(); close(closed) }) }

	if closeKind != "at-request-strict" {
		// no session shape needs more than a few seconds before its Close; a writer that sits in
		// a Write behind a worker in its retry wait would otherwise keep an "after-write" close
		// from ever happening (bounded: Close after 8 s at the latest)
		watchdog := time.AfterFunc(8*time.Second+time.Duration(sc.DelayMs)*time.Millisecond, closeNow)
		defer watchdog.Stop()
	}
	var wg sync.WaitGroup
	writerDone := make(chan struct{})
	// reader
	readerDone := make(chan struct{})
	wg.Add(1)
	go func() {
		defer wg.Done()
		defer close(readerDone)
		buf := make([]byte, 200000)
		for i := 0; sc.Reads < 0 || i < sc.Reads; i++ {
			for _, lg := range sc.Lag {
				if lg[0] == i {
					// not reading: let responses pile up (bounded wait, only a pacing device)
					waitFor(5*time.Second, func() bool {
						s.mu.Lock()
						defer s.mu.Unlock()
						return s.nonEmpty >= lg[1] || s.downOff >= len(s.down) || !s.allOK || s.closedAt >= 0
					})
					time.Sleep(500 * time.Microsecond) // the response just logged travels to the worker
				}
			}
			n := 4096
			if len(sc.ReadSizes) > 0 {
				n = sc.ReadSizes[i%len(sc.ReadSizes)]
			}
			s.mu.Lock()
			s.log = append(s.log, "rc:"+strconv.Itoa(n))
			wasClosed := s.closedAt >= 0
			s.mu.Unlock()
			m, err := conn.Read(buf[:n])
			if err == nil && wasClosed {
				s.viol("read-after-close-returns-leftover", fmt.Sprintf("a Read called after Close had returned delivered %d bytes with a nil error", m))
			}
			if err != nil {
				s.ev("rr:fail")
				if m != 0 {
					s.viol("read-error-with-data", fmt.Sprintf("Read returned %d bytes together with %v", m, err))
				}
				return
			}
			s.mu.Lock()
			s.readGot.Write(buf[:m])
			s.log = append(s.log, "rr:data:"+vlib.Hex(buf[:m]))
			s.mu.Unlock()
		}
	}()
	// closer on a request count
	if closeKind == "at-request-strict" {
		// waits for request k whatever the writer does (bounded: 45 s, for the 30 s retry delay)
		wg.Add(1)
		go func() {
			defer wg.Done()
			deadline := time.After(45 * time.Second)
			for {
				select {
				case k := <-s.reqSeen:
					if k >= closeArg {
						time.Sleep(2 * time.Millisecond) // let the answer travel
						closeNow()
						return
					}
				case <-closed:
					return
				case <-deadline:
					s.viol("retry-did-not-happen", fmt.Sprintf("request no. %d did not arrive within 45 s (bounded wait)", closeArg))
					closeNow()
					return
				}
			}
		}()
	}
	if closeKind == "when-write-blocks" {
		// a third goroutine closes once a Write call has been in progress for 250 ms with no
		// request arriving meanwhile (the send queue is full behind a worker that cannot hand
		// its response over) — or after 10 s at the latest (bounded)
		wg.Add(1)
		go func() {
			defer wg.Done()
			deadline := time.Now().Add(10 * time.Second)
			lastSeq, lastReq, since := int32(-1), -1, time.Now()
			for time.Now().Before(deadline) {
				select {
				case <-closed:
					return
				case <-writerDone:
					closeNow()
					return
				default:
				}
				s.mu.Lock()
				nreq := s.nreq
				s.mu.Unlock()
				seq := atomic.LoadInt32(&s.writeSeq)
				if seq != lastSeq || nreq != lastReq || atomic.LoadInt32(&s.inWrite) == 0 {
					lastSeq, lastReq, since = seq, nreq, time.Now()
				} else if time.Since(since) > 250*time.Millisecond {
					s.blockedAtClose = true
					closeNow()
					return
				}
				time.Sleep(2 * time.Millisecond)
			}
			closeNow()
		}()
	}
	if closeKind == "at-request" {
		wg.Add(1)
		go func() {
			defer wg.Done()
			for {
				select {
				case k := <-s.reqSeen:
					if k >= closeArg {
						closeNow()
						return
					}
				case <-closed:
					return
				case <-writerDone:
					closeNow()
					return
				}
			}
		}()
	}
	// writer
	wg.Add(1)
	go func() {
		defer wg.Done()
		defer close(writerDone)
		defer atomic.StoreInt32(&s.writerFin, 1)
		off := 0
		maxw := 0
		for _, sz := range sc.Writes {
			if sz > maxw {
				maxw = sz
			}
		}
		wbuf := make([]byte, maxw)
		for j, sz := range sc.Writes {
			if closeKind == "after-write" && closeArg == j {
				closeNow()
			}
			orig := s.up[off : off+sz]
			off += sz
			p := orig
			if !sc.FreshBuf {
				p = wbuf[:sz]
				copy(p, orig)
			}
			s.mu.Lock()
			s.called.Write(orig)
			s.log = append(s.log, "wc:"+vlib.Hex(orig))
			wasClosed := s.closedAt >= 0
			s.mu.Unlock()
			atomic.AddInt32(&s.writeSeq, 1)
			atomic.StoreInt32(&s.inWrite, 1)
			n, err := conn.Write(p)
			atomic.StoreInt32(&s.inWrite, 0)
			if !sc.FreshBuf {
				// Write has returned: the buffer is the application's again
				for i := range wbuf[:sz] {
					wbuf[i] = 0xEE ^ byte(j)
				}
			}
			p = orig
			if err == nil && wasClosed {
				s.viol("write-after-close-succeeds", fmt.Sprintf("Write no. %d was called after Close had returned and was accepted", j))
			}
			if err != nil {
				s.ev("wr:fail")
				if n != 0 {
					s.viol("write-error-with-count", fmt.Sprintf("Write returned n=%d together with %v", n, err))
				}
				continue
			}
			s.mu.Lock()
			s.accepted.Write(p[:n])
			s.log = append(s.log, "wr:ok:"+strconv.Itoa(n))
			s.mu.Unlock()
			if n != len(p) {
				s.viol("short-write", fmt.Sprintf("Write(%d bytes) returned %d, nil", len(p), n))
			}
		}
		if closeKind == "after-write" && closeArg >= len(sc.Writes) {
			closeNow()
		}
	}()

	switch closeKind {
	case "drained", "after-fail":
		<-writerDone
		ok := waitFor(10*time.Second+time.Duration(sc.DelayMs)*time.Millisecond, func() bool {
			s.mu.Lock()
			defer s.mu.Unlock()
			if !s.allOK {
				return true
			}
			if closeKind == "after-fail" {
				return false // polls keep coming (100 ms, 150 ms, …) until the scripted failure is reached
			}
			upDone := s.upGot.Len() >= s.accepted.Len()
			downDone := s.downOff >= len(s.down) && (sc.Reads >= 0 || s.readGot.Len() >= len(s.down))
			return upDone && downDone
		})
		if !ok {
			s.mu.Lock()
			d := fmt.Sprintf("10 s after the last Write returned (bounded wait): the server has %d of %d accepted bytes, the reader has %d of %d response bytes", s.upGot.Len(), s.accepted.Len(), s.readGot.Len(), s.respBodies.Len())
			s.mu.Unlock()
			s.viol("stream-stalled", d)
		}
		if sc.Reads >= 0 {
			// the reader's k reads (bounded: a Read that gets nothing is ended by the Close below)
			waitFor(5*time.Second, func() bool {
				select {
				case <-readerDone:
					return true
				default:
					return false
				}
			})
		}
		closeNow()
	default:
		<-closed
	}
	// property: after Close both Read and Write fail — a Write that is in progress when Close
	// is called must come back too (bounded wait; a Write that never returns is the finding)
	if !waitFor(5*time.Second, func() bool {
		select {
		case <-writerDone:
			return true
		default:
			return false
		}
	}) {
		s.viol("write-in-progress-never-returns-after-close", fmt.Sprintf("Close returned; 5 s later (bounded wait) Write call no. %d, which was in progress (blocked on the full send queue) when Close was called, has still not returned", atomic.LoadInt32(&s.writeSeq)))
		return
	}
	// after Close has returned: every Write fails, every Read fails
	readerGone := func() bool {
		select {
		case <-readerDone:
			return true
		default:
			return false
		}
	}
	if sc.FailAt >= 0 && sc.FailKind == "non200" {
		// the worker sleeps retryDelay (30 s) inside roundTrip and does not look at the close
		// channel meanwhile: a Read in progress stays blocked that long; not waited for here
		if !waitFor(300*time.Millisecond, readerGone) {
			s.readerLeft = true
			one := []byte{0x5a}
			s.mu.Lock()
			s.log = append(s.log, "wc:"+vlib.Hex(one))
			s.mu.Unlock()
			if _, err := conn.Write(one); err == nil {
				s.ev("wr:ok:1")
				s.viol("write-after-close-succeeds", "Write called after Close returned: accepted")
			} else {
				s.ev("wr:fail")
			}
			s.postWrite, s.postRead = "fail", "reader-blocked-in-retry-sleep"
			if sc.LingerMs > 0 {
				time.Sleep(time.Duration(sc.LingerMs) * time.Millisecond)
				s.mu.Lock()
				after := s.reqAfter
				s.mu.Unlock()
				if after > 0 {
					s.viol("retry-request-after-close", fmt.Sprintf("the server answered a poll with a non-200 status, the application called Close, Close returned — and %d s later the worker issued %d more request(s) (roundTrip's retry loop sleeps retryDelay and retries without looking at the close channel; a Read in progress stays blocked meanwhile)", sc.LingerMs/1000, after))
				}
				waitFor(5*time.Second, readerGone)
			}
			return
		}
	} else if !waitFor(5*time.Second, readerGone) {
		s.viol("read-blocked-after-close", "a Read that was in progress when Close returned is still blocked 5 s later (bounded wait)")
		return
	}
	one := []byte{0x5a}
	s.mu.Lock()
	s.log = append(s.log, "wc:"+vlib.Hex(one))
	s.mu.Unlock()
	n, err := conn.Write(one)
	s.postWrite = errClass(err)
	if err == nil {
		s.ev("wr:ok:" + strconv.Itoa(n))
		s.viol("write-after-close-succeeds", "Write called after Close returned: accepted")
	} else {
		s.ev("wr:fail")
	}
	buf := make([]byte, 70000)
	s.ev("rc:" + strconv.Itoa(len(buf)))
	m, err := conn.Read(buf)
	s.postRead, s.postReadData = errClass(err), m
	if err == nil {
		s.ev("rr:data:" + vlib.Hex(buf[:m]))
		s.viol("read-after-close-returns-leftover", fmt.Sprintf("Read called after Close returned: %d bytes of leftover response data, nil error", m))
	} else {
		s.ev("rr:fail")
	}
	s.ev("cc")
	if conn.Close() == nil {
		s.ev("cr:ok")
	} else {
		s.ev("cr:again")
	}
	wg.Wait()
	// polling stops: the worker observes the close at a loop head chosen by a fair select
	time.Sleep(2 * time.Millisecond)
	if closeKind == "after-fail" && sc.FailKind == "non200" {
		// Close came while the worker sat in roundTrip's retry wait (or was about to enter it
		// with the close already visible): it must leave at once — NO request may reach the
		// server after Close has returned (observation window: 400 ms, bounded)
		time.Sleep(400 * time.Millisecond)
		s.mu.Lock()
		after := s.reqAfter
		s.mu.Unlock()
		if after > 0 {
			s.viol("request-after-close-during-retry-wait", fmt.Sprintf("the server answered request no. %d with a non-200 status, the application called Close while the worker was in the retry wait, Close returned — and %d more request(s) reached the server within 400 ms", sc.FailAt, after))
		}
	}
	s.mu.Lock()
	after := s.reqAfter
	s.mu.Unlock()
	if after > 64 {
		s.viol("polling-continues-after-close", fmt.Sprintf("%d requests arrived after Close had returned", after))
	}
}

// runGroup: sc.Group connections from one ParseArgs result with overlapping lifetimes.
func runGroup(r *vlib.Run, sv *server, cf base.ClientFactory, drivers chan *vlib.Driver, newSession func(int, script) *session, i int, sc script) {
	ca, err := parseArgs(cf, i)
	if err != nil {
		r.Violate("dial-failed", "impl-oracle", "ParseArgs: "+err.Error(), sc)
		return
	}
	var ss []*session
	var wg sync.WaitGroup
	for k := 0; k < sc.Group; k++ {
		m := sc
		m.Name = fmt.Sprintf("%s#%d", sc.Name, k+1)
		s := newSession(i*100+k+100000, m)
		s.sc.Group = sc.Group
		if k > 0 {
			prev := ss[k-1]
			// the previous connection is up and polling (pacing only, bounded)
			waitFor(5*time.Second, func() bool { prev.mu.Lock(); defer prev.mu.Unlock(); return prev.nreq >= 2 })
		}
		ss = append(ss, s)
		wg.Add(1)
		go func(s *session) {
			defer wg.Done()
			runSession(sv, cf, s, ca)
		}(s)
	}
	wg.Wait()
	owner := map[string]string{}
	for k, s := range ss {
		s.sc = sc // the replay case is the group script
		s.sc.Name = s.sc.Name + fmt.Sprintf(" (connection %d of %d from one ParseArgs result)", k+1, sc.Group)
		for id := range s.sids {
			if o, dup := owner[id]; dup && o != s.sc.Name {
				// property: every request of A connection carries the same identifier — two
				// connections with one identifier are one session to the server
				s.viol("session-id-shared-between-connections", fmt.Sprintf("session id %s is used by %s and by %s", id, o, s.sc.Name))
			}
			owner[id] = s.sc.Name
		}
	}
	var jw sync.WaitGroup
	for _, s := range ss {
		jw.Add(1)
		go func(s *session) {
			defer jw.Done()
			d := <-drivers
			judge(r, d, s)
			drivers <- d
		}(s)
	}
	jw.Wait()
	r.Count("group", strconv.Itoa(sc.Group))
}

// judge runs the property oracle on the finished session and has the Lean driver validate
// the trace.
func judge(r *vlib.Run, d *vlib.Driver, s *session) {
	sc := s.sc
	s.mu.Lock()
	log := append([]string(nil), s.log...)
	s.mu.Unlock()
	key, _ := json.Marshal(sc)
	nt := len(sc.Writes) > 0 && s.nreq >= 2 && s.upGot.Len() > 0
	r.Case(string(key), nt)
	r.Validated(1)
	r.Count("close", strings.SplitN(sc.Close, ":", 2)[0])
	for f, n := range s.framings {
		for i := 0; i < n; i++ {
			r.Count("response_framing", f)
		}
	}
	r.Count("write_buffer", map[bool]string{false: "one-reused-and-scribbled", true: "fresh-per-write"}[sc.FreshBuf])
	r.Count("server_lag", map[bool]string{false: "none", true: "slow"}[sc.ServerLag > 0])
	r.Count("requests", bucket(s.nreq))
	for _, w := range sc.Writes {
		r.Count("write_size", sizeClass(w))
	}
	r.Count("max_body", sizeClass(s.maxBody))
	r.Count("down_bytes", sizeClass(s.readGot.Len()))
	r.Count("post_close_read", s.postRead)
	r.Count("post_close_write", s.postWrite)
	if sc.FailAt >= 0 {
		r.Count("failure", sc.FailKind)
	}
	// ---- oracle, straight from the property text
	up := s.upGot.Bytes()
	if s.allOK || true {
		// request bodies, in order, are the bytes written by the application (a prefix of what
		// Write was called with, and at least ... see below)
		if !bytes.HasPrefix(s.called.Bytes(), up) && s.allOK {
			s.viol("upstream-bytes-differ", fmt.Sprintf("the %d bytes of the request bodies are not a prefix of the %d bytes written (first difference at %d)", len(up), s.called.Len(), firstDiff(up, s.called.Bytes())))
		}
	}
	if sc.Close == "drained" && s.allOK && !bytes.Equal(up, s.accepted.Bytes()) {
		s.viol("upstream-bytes-lost", fmt.Sprintf("all writes returned and the stream was drained before Close: the server got %d bytes, the application wrote %d; they agree on the first %d bytes only", len(up), s.accepted.Len(), firstDiff(up, s.accepted.Bytes())))
	}
	if !bytes.HasPrefix(s.respBodies.Bytes(), s.readGot.Bytes()) {
		s.viol("downstream-bytes-differ", fmt.Sprintf("the %d bytes returned by Read are not a prefix of the %d response bytes (first difference at %d)", s.readGot.Len(), s.respBodies.Len(), firstDiff(s.readGot.Bytes(), s.respBodies.Bytes())))
	}
	if sc.Close == "drained" && sc.Reads < 0 && s.allOK && s.readGot.Len() != s.respBodies.Len() {
		s.viol("downstream-bytes-lost", fmt.Sprintf("drained before Close: Read returned %d of %d response bytes", s.readGot.Len(), s.respBodies.Len()))
	}
	if s.maxBody > 65536 {
		s.viol("body-too-large", fmt.Sprintf("a request body of %d bytes", s.maxBody))
	}
	if len(s.sids) > 1 {
		s.viol("session-id-changed", fmt.Sprintf("%d different X-Session-Id values in one connection", len(s.sids)))
	}
	if s.maxInflight > 1 {
		s.viol("concurrent-requests", fmt.Sprintf("%d requests in flight at once", s.maxInflight))
	}
	// ---- the trace as a run of the model
	rep := d.Call("meek.begin")
	verdict := ""
	for _, e := range log {
		rep = d.Call("e %s", e)
		if rep != "+" {
			verdict = rep
			break
		}
	}
	end := d.Call("meek.end")
	if verdict == "" {
		verdict = end
	}
	r.Sample(6, map[string]interface{}{"script": sc, "events": len(log), "requests": s.nreq, "model": verdict,
		"trace_head": abbreviate(log, 14)})
	seen := map[string]bool{}
	for _, o := range s.oracle {
		p := strings.SplitN(o, "|", 2)
		if seen[p[0]] {
			continue
		}
		seen[p[0]] = true
		r.Violate(p[0], "impl-oracle", fmt.Sprintf("session %s: %s", sc.Name, p[1]), sc)
	}
	if !strings.HasPrefix(verdict, "ok ") || !strings.HasSuffix(verdict, "inv=1") {
		at := ""
		if f := strings.Fields(verdict); len(f) > 1 {
			if i, err := strconv.Atoi(f[1]); err == nil && i < len(log) {
				lo := i - 6
				if lo < 0 {
					lo = 0
				}
				at = " ; events before: " + strings.Join(abbreviate(log[lo:i+1], 8), " ")
			}
		}
		r.Violate("trace-not-a-model-run", "correspondence", fmt.Sprintf("session %s: Lean model: %s%s", sc.Name, verdict, at), sc)
	}
}

func abbreviate(log []string, max int) []string {
	var out []string
	for i, e := range log {
		if i >= max {
			out = append(out, "…")
			break
		}
		p := strings.Split(e, ":")
		last := p[len(p)-1]
		if len(last) > 16 {
			p[len(p)-1] = fmt.Sprintf("<%d bytes>", len(last)/2)
		}
		out = append(out, strings.Join(p, ":"))
	}
	return out
}

func firstDiff(a, b []byte) int {
	n := len(a)
	if len(b) < n {
		n = len(b)
	}
	for i := 0; i < n; i++ {
		if a[i] != b[i] {
			return i
		}
	}
	return n
}

func bucket(n int) string {
	switch {
	case n == 0:
		return "0"
	case n < 5:
		return "1-4"
	case n < 20:
		return "5-19"
	case n < 100:
		return "20-99"
	}
	return "100+"
}

func sizeClass(n int) string {
	switch {
	case n == 0:
		return "0"
	case n == 1:
		return "1"
	case n < 1000:
		return "2-999"
	case n < 65535:
		return "1000-65534"
	case n <= 65537:
		return strconv.Itoa(n)
	case n <= 131072:
		return "65538-131072"
	}
	return ">131072"
}

// ---------------------------------------------------------------- generators

var writeSizes = []int{1, 2, 100, 4000, 65535, 65536, 65537, 100000, 131072, 196608}
var smallSizes = []int{1, 2, 7, 100, 1000, 4000}

func genScript(rng *vlib.Rng, i int) script {
	sc := script{Name: fmt.Sprintf("rand-%d", i), Reads: -1, FailAt: -1}
	nw := rng.Range(1, 7)
	big := rng.Intn(3) == 0
	for j := 0; j < nw; j++ {
		if big && rng.Intn(2) == 0 {
			sc.Writes = append(sc.Writes, vlib.Pick(rng, writeSizes))
		} else {
			sc.Writes = append(sc.Writes, vlib.Pick(rng, smallSizes))
		}
	}
	if rng.Intn(3) == 0 {
		// many small writes in a burst: coalescing
		nw = rng.Range(10, 40)
		sc.Writes = nil
		for j := 0; j < nw; j++ {
			sc.Writes = append(sc.Writes, vlib.Pick(rng, []int{1, 3, 50, 2000, 30000}))
		}
	}
	sc.ReadSizes = [][]int{{1, 10, 1000, 50000}, {70000}, {4096}, {1}, {65536, 3}}[rng.Intn(5)]
	sc.Resp = [][]int{{0}, {0, 1, 100}, {65536}, {30000, 0, 0, 65536, 1}, {100}, {0, 0, 5}}[rng.Intn(6)]
	sc.Down = vlib.Pick(rng, []int{0, 1, 300, 70000, 200000})
	if sc.ReadSizes[0] == 1 && len(sc.ReadSizes) == 1 && sc.Down > 300 {
		sc.Down = 300
	}
	switch rng.Intn(10) {
	case 0, 1, 2, 3:
		sc.Close = "drained"
	case 4, 5, 6:
		sc.Close = fmt.Sprintf("after-write:%d", rng.Intn(len(sc.Writes)+1))
	default:
		sc.Close = fmt.Sprintf("at-request:%d", rng.Intn(6))
	}
	if rng.Intn(12) == 0 {
		sc.FailAt = rng.Range(1, 4)
		sc.FailKind = vlib.Pick(rng, []string{"fail", "non200"})
		sc.FailOn = rng.Bool()
		if sc.Close == "drained" {
			sc.Close = "after-fail"
		}
	}
	if rng.Intn(3) == 0 {
		sc.ServerLag = rng.Range(50, 3000)
	}
	sc.FreshBuf = rng.Intn(5) == 0
	sc.FrameOff = rng.Intn(3)
	if rng.Intn(15) == 0 {
		sc.FirstLagMs = rng.Range(150, 400)
	}
	if rng.Intn(20) == 0 {
		sc.Group = rng.Range(2, 3)
		if sc.ServerLag == 0 {
			sc.ServerLag = 300
		}
		for len(sc.Writes) < 15 {
			sc.Writes = append(sc.Writes, vlib.Pick(rng, smallSizes))
		}
	}
	if rng.Intn(3) == 0 && sc.Down > 1 {
		// the reader lags: several non-empty responses (distinct sizes) are fetched before it reads
		sc.Resp = [][]int{{100, 7, 3000}, {65536, 1, 20000}, {5, 60000, 9, 300}, {1000, 999, 998}}[rng.Intn(4)]
		sc.NoFlush = true
		if sc.Down > 140000 {
			sc.Down = 140000
		}
		sc.Lag = [][2]int{{0, rng.Range(2, 5)}}
		if rng.Bool() {
			sc.Lag = append(sc.Lag, [2]int{rng.Range(1, 4), rng.Range(4, 8)})
		}
		for len(sc.Writes) < 12 {
			sc.Writes = append(sc.Writes, vlib.Pick(rng, smallSizes))
		}
	}
	return sc
}

// closeEverywhere: one fixed workload, Close at every point of it.
func closeEverywhere() []script {
	var out []script
	w := []int{100, 65537, 1, 131072, 4000}
	for j := 0; j <= len(w); j++ {
		out = append(out, script{Name: fmt.Sprintf("close-after-write-%d", j), Writes: w, ReadSizes: []int{50000}, Reads: -1,
			Resp: []int{100, 0, 65536}, Down: 100000, FailAt: -1, Close: fmt.Sprintf("after-write:%d", j)})
	}
	for k := 0; k <= 6; k++ {
		out = append(out, script{Name: fmt.Sprintf("close-at-request-%d", k), Writes: w, ReadSizes: []int{50000}, Reads: -1,
			Resp: []int{100, 0, 65536}, Down: 100000, FailAt: -1, Close: fmt.Sprintf("at-request:%d", k), ServerLag: 300})
	}
	// leftover response data at the time of Close: the reader stops after k reads
	for _, k := range []int{0, 1, 2} {
		out = append(out, script{Name: fmt.Sprintf("leftover-after-%d-reads", k), Writes: []int{10, 10, 10, 10}, ReadSizes: []int{7},
			Reads: k, Resp: []int{100}, Down: 1000, FailAt: -1, Close: "drained"})
	}
	for _, sz := range writeSizes {
		out = append(out, script{Name: fmt.Sprintf("single-write-%d", sz), Writes: []int{sz}, ReadSizes: []int{70000}, Reads: -1,
			Resp: []int{0, 65536}, Down: 70000, FailAt: -1, Close: "drained"})
	}
	small := make([]int, 14)
	for i := range small {
		small[i] = 50 + i
	}
	out = append(out,
		script{Name: "lag-large-then-small", Writes: small, ReadSizes: []int{7, 70000, 1000, 65536, 3}, Reads: -1,
			Resp: []int{60000, 10, 3000, 65536, 1, 500}, Down: 129047, FailAt: -1, Close: "drained", Lag: [][2]int{{0, 6}}, NoFlush: true},
		script{Name: "lag-small-then-large", Writes: small, ReadSizes: []int{70000}, Reads: -1,
			Resp: []int{10, 60000, 1, 65536, 200}, Down: 125747, FailAt: -1, Close: "drained", Lag: [][2]int{{0, 5}}, NoFlush: true},
		script{Name: "lag-carry-over", Writes: small, ReadSizes: []int{5, 3, 64}, Reads: -1,
			Resp: []int{300, 20, 150, 7, 90, 33}, Down: 600, FailAt: -1, Close: "drained", Lag: [][2]int{{0, 2}, {3, 4}, {9, 6}}, NoFlush: true},
		script{Name: "lag-carry-over-large", Writes: small, ReadSizes: []int{1000, 50000, 9}, Reads: -1,
			Resp: []int{40000, 65536, 100, 30000}, Down: 135636, FailAt: -1, Close: "drained", Lag: [][2]int{{0, 2}, {1, 3}, {2, 4}}, NoFlush: true},
	)
	many := make([]int, 28)
	for i := range many {
		many[i] = 20 + i
	}
	out = append(out,
		script{Name: "two-dials-one-parseargs", Writes: many, ReadSizes: []int{4096}, Reads: -1, Resp: []int{3}, Down: 90,
			FailAt: -1, Close: "drained", ServerLag: 700, Group: 2},
		script{Name: "three-dials-one-parseargs", Writes: many, ReadSizes: []int{100}, Reads: -1, Resp: []int{0, 5}, Down: 60,
			FailAt: -1, Close: "drained", ServerLag: 500, Group: 3},
	)
	tiny := make([]int, 400)
	for i := range tiny {
		tiny[i] = 10
	}
	out = append(out,
		// the application stops reading, every request is answered with data, the writer writes
		// until a Write blocks behind the stuck worker, then a third goroutine closes
		script{Name: "write-blocked-then-close", Writes: tiny, ReadSizes: []int{4096}, Reads: 0, Resp: []int{5}, Down: 100000,
			FailAt: -1, Close: "when-write-blocks", NoFlush: true},
	)
	// a bridge whose first answers take longer than the initial poll interval (100 ms) and carry data
	out = append(out,
		script{Name: "slow-first-responses-250ms", Writes: []int{100, 50, 7}, ReadSizes: []int{4096}, Reads: -1,
			Resp: []int{500, 300, 40, 9}, Down: 849, FailAt: -1, Close: "drained", NoFlush: true, FirstLagMs: 250},
		script{Name: "slow-first-responses-400ms-no-writes-yet", Writes: []int{1}, ReadSizes: []int{64}, Reads: -1,
			Resp: []int{1000, 2048, 5}, Down: 3053, FailAt: -1, Close: "drained", NoFlush: true, FirstLagMs: 400},
	)
	for off := 0; off < 3; off++ {
		// every size meets every framing
		out = append(out, script{Name: fmt.Sprintf("framing-sizes-%d", off), Writes: small, ReadSizes: []int{70000, 1000}, Reads: -1,
			Resp: []int{1, 2047, 2048, 2049, 65536, 100, 30000, 65535, 3}, Down: 197839, FailAt: -1, Close: "drained", NoFlush: true, FrameOff: off})
	}
	out = append(out,
		script{Name: "reused-buffer-slow-server", Writes: []int{1, 1, 1, 1, 1, 1, 1, 1}, ReadSizes: []int{4096}, Reads: -1,
			Resp: []int{0, 3}, Down: 12, FailAt: -1, Close: "drained", ServerLag: 4000},
		script{Name: "reused-buffer-slow-server-mixed", Writes: []int{100, 7, 30000, 1, 65537, 2, 500, 9}, ReadSizes: []int{4096}, Reads: -1,
			Resp: []int{10, 0}, Down: 100, FailAt: -1, Close: "drained", ServerLag: 3000},
	)
	out = append(out,
		script{Name: "three-max-bodies", Writes: []int{196608, 196608, 1}, ReadSizes: []int{50000}, Reads: -1, Resp: []int{65536}, Down: 140000, FailAt: -1, Close: "drained"},
		script{Name: "fail-at-2", Writes: []int{100, 100, 100, 100}, ReadSizes: []int{4096}, Reads: -1, Resp: []int{10}, Down: 100, FailAt: 2, FailKind: "fail", Close: "after-fail"},
		script{Name: "non200-from-1-close-in-retry-wait", Writes: []int{100}, ReadSizes: []int{4096}, Reads: -1, Resp: []int{10}, Down: 10, FailAt: 1, FailKind: "non200", FailOn: true, Close: "after-fail"},
		script{Name: "non200-from-2-close-in-retry-wait", Writes: []int{7, 70000, 3}, ReadSizes: []int{100}, Reads: -1, Resp: []int{0, 5}, Down: 50, FailAt: 2, FailKind: "non200", FailOn: true, Close: "after-fail"},
		script{Name: "non200-at-1", Writes: []int{100, 100}, ReadSizes: []int{4096}, Reads: -1, Resp: []int{10}, Down: 100, FailAt: 1, FailKind: "non200", Close: "after-fail"},
		script{Name: "non200-then-close-linger", Writes: []int{100}, ReadSizes: []int{4096}, Reads: -1, Resp: []int{10}, Down: 10, FailAt: 1, FailKind: "non200", Close: "after-fail", LingerMs: 31000},
	)
	return out
}

// raceRun re-runs a part of the sessions in a child process built with the race detector.
func raceRun(r *vlib.Run, scripts []script) {
	dir := os.Getenv("VERIF_DIR")
	if dir == "" {
		r.Notes["race_build"] = "skipped: VERIF_DIR not set"
		return
	}
	tmp, err := os.MkdirTemp("", "c16race")
	if err != nil {
		return
	}
	defer os.RemoveAll(tmp)
	bin := filepath.Join(tmp, "c16race")
	cmd := exec.Command("go", "build", "-race", "-tags", "verif", "-o", bin, "./c16")
	cmd.Dir = filepath.Join(dir, "harness")
	cmd.Env = append(os.Environ(), "GOFLAGS=-mod=mod", "GOPROXY=off", "GOSUMDB=off", "GOTOOLCHAIN=local", "CGO_ENABLED=1")
	if out, err := cmd.CombinedOutput(); err != nil {
		r.Notes["race_build"] = "unavailable: " + strings.SplitN(string(out), "\n", 2)[0]
		return
	}
	var list []script
	for _, sc := range scripts {
		if sc.LingerMs == 0 && !strings.HasPrefix(sc.Close, "at-request-strict") && len(list) < 80 {
			list = append(list, sc)
		}
	}
	b, _ := json.Marshal(list)
	c := exec.Command(bin)
	c.Env = append(os.Environ(), "C16_CANARY="+string(b))
	var out, errb bytes.Buffer
	c.Stdout, c.Stderr = &out, &errb
	done := make(chan error, 1)
	c.Start()
	go func() { done <- c.Wait() }()
	select {
	case <-done:
	case <-time.After(300 * time.Second):
		c.Process.Kill()
	}
	// The close protocol of meekConn is "the worker closes workerWrChan, a concurrent Write's send
	// panics and recovers" (enqueueWrite): the race detector reports that pair by policy; it is
	// the documented design, not a memory race on data the property speaks about.  Every other
	// report is a violation.
	designed, other := 0, ""
	for _, rep := range strings.Split(errb.String(), "==================") {
		if !strings.Contains(rep, "WARNING: DATA RACE") {
			continue
		}
		if strings.Contains(rep, "runtime.closechan") && strings.Contains(rep, "enqueueWrite") {
			designed++
			continue
		}
		if other == "" {
			other = rep
		}
	}
	if other != "" {
		msg := other[strings.Index(other, "WARNING: DATA RACE"):]
		if len(msg) > 1500 {
			msg = msg[:1500]
		}
		last := 0
		for _, l := range strings.Split(out.String(), "\n") {
			if f := strings.Fields(l); len(f) == 2 && f[0] == "start" {
				last, _ = strconv.Atoi(f[1])
			}
		}
		r.Violate("data-race", "impl-oracle", "the race detector reports a data race in the meek_lite client: "+msg, list[last])
		return
	}
	if designed > 0 {
		r.Notes["race_close_vs_send"] = fmt.Sprintf("%d reports of close(workerWrChan) concurrent with the send in enqueueWrite (the recovered-panic close protocol; not counted)", designed)
	}
	r.Notes["race_build"] = fmt.Sprintf("%d sessions re-run in a -race build of this harness: no other race report (%s)", len(list), strings.TrimSpace(lastLine(out.String())))
}

func lastLine(s string) string {
	l := strings.Split(strings.TrimSpace(s), "\n")
	return l[len(l)-1]
}

// ---------------------------------------------------------------- main

// mixSeed decorrelates consecutive seeds (vlib.NewRng(n) and NewRng(n+1) yield the same
// splitmix64 stream shifted by one position).
func mixSeed(x uint64) uint64 {
	x ^= 0x6a09e667f3bcc909
	x = (x ^ (x >> 30)) * 0xBF58476D1CE4E5B9
	x = (x ^ (x >> 27)) * 0x94D049BB133111EB
	return x ^ (x >> 31)
}

func workerGoroutines() (polling int, parked int, detail string) {
	buf := make([]byte, 1<<22)
	n := runtime.Stack(buf, true)
	for _, blk := range strings.Split(string(buf[:n]), "\n\n") {
		if !strings.Contains(blk, "meeklite.(*meekConn).ioWorker") {
			continue
		}
		o, c := strings.IndexByte(blk, '['), strings.IndexByte(blk, ']')
		st := blk[o+1 : c]
		if k := strings.IndexByte(st, ','); k >= 0 {
			st = st[:k]
		}
		if st == "chan send" || st == "sleep" {
			parked++
		} else {
			polling++
			if detail == "" {
				detail = blk
			}
		}
	}
	return
}

func main() {
	r := vlib.NewRun("C16")
	r.Rule = "session = script (write sizes 1 … 3·64 KiB, reader buffer sizes, response size pattern empty/partial/full, Close point: after each write / at each request count / after draining / after a failure); non-trivial = at least one write, at least 2 requests and upstream bytes received; distinct by canonical script"
	r.Assumptions = []string{
		"goroutine scheduling and fairness of select are sampled, not controlled: each recorded trace is validated as one run of the interleaving model (trace inclusion)",
		"net/http client and server behave as modelled (one request/response exchange per roundTrip)",
		"real timers: the bounded waits of the harness (5–10 s) only give the worker goroutine time to run; they are reported when exceeded",
	}
	if err := transports.Init(); err != nil {
		fmt.Fprintln(os.Stderr, "transports.Init:", err)
		os.Exit(3)
	}
	t := transports.Get("meek_lite")
	if t == nil {
		fmt.Fprintln(os.Stderr, "meek_lite is not registered")
		os.Exit(3)
	}
	cf, err := t.ClientFactory("")
	if err != nil {
		fmt.Fprintln(os.Stderr, "ClientFactory:", err)
		os.Exit(3)
	}
	sv := &server{ln: &pipeListener{ch: make(chan net.Conn), closed: make(chan struct{})}, sessions: map[int]*session{}}
	go (&http.Server{Handler: sv, ConnContext: func(ctx context.Context, c net.Conn) context.Context {
		if tc, ok := c.(*taggedConn); ok {
			return context.WithValue(ctx, sessKey{}, tc.sess)
		}
		return ctx
	}}).Serve(sv.ln)

	// A panic inside the client's own goroutines cannot be recovered by the harness: a few
	// plain sessions are therefore run first in a child process; if that dies, the crash is
	// the finding and the script that was running is its replay.
	if os.Getenv("C16_CANARY") != "" {
		var list []script
		json.Unmarshal([]byte(os.Getenv("C16_CANARY")), &list)
		for i, sc := range list {
			fmt.Println("start", i)
			s := &session{id: i, sc: sc, sids: map[string]bool{}, allOK: true, closedAt: -1, reqSeen: make(chan int, 64), framings: map[string]int{}}
			total := 0
			for _, w := range sc.Writes {
				total += w
			}
			s.up, s.down = pattern(17, total), pattern(91, sc.Down)
			sv.mu.Lock()
			sv.sessions[i] = s
			sv.mu.Unlock()
			runSession(sv, cf, s, nil)
		}
		time.Sleep(50 * time.Millisecond)
		fmt.Println("done")
		os.Exit(0)
	}
	canary := func(list []script) bool {
		b, _ := json.Marshal(list)
		cmd := exec.Command(os.Args[0])
		cmd.Env = append(os.Environ(), "C16_CANARY="+string(b))
		var out, errb bytes.Buffer
		cmd.Stdout, cmd.Stderr = &out, &errb
		done := make(chan error, 1)
		cmd.Start()
		go func() { done <- cmd.Wait() }()
		var err error
		select {
		case err = <-done:
		case <-time.After(20 * time.Second):
			// slow is not crashed: the sessions of the main run carry the oracles for that
			cmd.Process.Kill()
			<-done
			r.Notes["canary"] = "the canary child was stopped after 20 s (no crash seen); main run follows"
			return true
		}
		if err == nil && strings.Contains(out.String(), "done") {
			return true
		}
		last := 0
		for _, l := range strings.Split(out.String(), "\n") {
			if f := strings.Fields(l); len(f) == 2 && f[0] == "start" {
				last, _ = strconv.Atoi(f[1])
			}
		}
		msg := errb.String()
		if i := strings.Index(msg, "panic:"); i >= 0 {
			msg = msg[i:]
		}
		if len(msg) > 900 {
			msg = msg[:900]
		}
		r.Violate("client-crashed", "impl-oracle", fmt.Sprintf("session %s: the process running the meek_lite client died (%v): %s", list[last].Name, err, msg), list[last])
		return false
	}

	var scripts []script
	if r.ReplayIn != "" {
		var sc script
		if err := r.LoadReplay(&sc); err != nil {
			fmt.Fprintln(os.Stderr, "cannot load replay:", err)
			os.Exit(3)
		}
		for i := 0; i < 5; i++ { // the schedule is the runtime's: repeat the script a few times
			scripts = append(scripts, sc)
		}
	} else {
		if dir := os.Getenv("VERIF_DIR"); dir != "" {
			files, _ := filepath.Glob(filepath.Join(dir, "corpus", "C16", "*.json"))
			for _, f := range files {
				r.ReplayIn = f
				var sc script
				if r.LoadReplay(&sc) == nil {
					scripts = append(scripts, sc)
				}
			}
			r.ReplayIn = ""
		}
		ce := closeEverywhere()
		// a data-carrying request whose 200 answer takes 11.5 s: runs from the start, concurrently
		// with everything else (no duplication, one request in flight, however slow the answer)
		scripts = append(scripts, script{Name: "answer-to-data-request-delayed-11s", Writes: []int{100, 30}, ReadSizes: []int{4096}, Reads: -1,
			Resp: []int{10}, Down: 30, FailAt: -1, Close: "drained", DelayAt: 0, DelayMs: 11500})
		scripts = append(scripts, ce[len(ce)-1]) // the lingering session first: its wait overlaps the rest
		scripts = append(scripts, ce[:len(ce)-1]...)
		rng := vlib.NewRng(mixSeed(r.Seed))
		n := r.Scale(80, 1200)
		for i := 0; i < n; i++ {
			scripts = append(scripts, genScript(rng, i))
		}
	}

	if r.Thorough() && r.ReplayIn == "" {
		// the retry path of roundTrip: the same body again after retryDelay (30 s of wall time,
		// overlapping the other sessions)
		scripts = append([]script{{Name: "non200-retry-same-body", Writes: []int{100, 50}, ReadSizes: []int{4096}, Reads: -1,
			Resp: []int{10}, Down: 30, FailAt: 1, FailKind: "non200", Close: "at-request-strict:2"}}, scripts...)
	}
	tCanary := time.Now()
	defer func() {}()
	r.Case("canary", false)
	if !canary(append([]script{}, closeEverywhere()[2], closeEverywhere()[9], closeEverywhere()[14], scripts[0])) {
		r.Finish()
	}

	r.Notes["phase_canary_s"] = time.Since(tCanary).Seconds()
	tMain := time.Now()
	const par = 12
	drivers := make(chan *vlib.Driver, par)
	for i := 0; i < par; i++ {
		drivers <- r.Driver("meek")
	}
	sem := make(chan struct{}, par)
	var wg sync.WaitGroup
	var slowMu sync.Mutex
	var slow []string
	newSession := func(id int, sc script) *session {
		s := &session{id: id, sc: sc, sids: map[string]bool{}, allOK: true, closedAt: -1, reqSeen: make(chan int, 64), framings: map[string]int{}}
		total := 0
		for _, w := range sc.Writes {
			total += w
		}
		s.up = pattern(byte(17+id), total)
		s.down = pattern(byte(91+id*3), sc.Down)
		return s
	}
	for i, sc := range scripts {
		sem <- struct{}{}
		wg.Add(1)
		if sc.Group >= 2 {
			go func(i int, sc script) {
				defer wg.Done()
				defer func() { <-sem }()
				t0 := time.Now()
				runGroup(r, sv, cf, drivers, newSession, i, sc)
				slowMu.Lock()
				slow = append(slow, fmt.Sprintf("%06.2fs group: %s", time.Since(t0).Seconds(), sc.Name))
				slowMu.Unlock()
			}(i, sc)
			continue
		}
		s := newSession(i, sc)
		go func(s *session) {
			defer wg.Done()
			defer func() { <-sem }()
			t0 := time.Now()
			runSession(sv, cf, s, nil)
			t1 := time.Now()
			d := <-drivers
			judge(r, d, s)
			drivers <- d
			slowMu.Lock()
			slow = append(slow, fmt.Sprintf("%06.2fs = [%d events, %d requests] %.2fs run + %.2fs validation: %s", time.Since(t0).Seconds(), len(s.log), s.nreq, t1.Sub(t0).Seconds(), time.Since(t1).Seconds(), func() string {
				if t1.Sub(t0) > 5*time.Second {
					b, _ := json.Marshal(s.sc)
					return string(b)
				}
				return s.sc.Name
			}()))
			slowMu.Unlock()
		}(s)
	}
	wg.Wait()
	r.Notes["phase_sessions_s"] = time.Since(tMain).Seconds()
	sort.Sort(sort.Reverse(sort.StringSlice(slow)))
	if len(slow) > 6 {
		slow = slow[:6]
	}
	r.Notes["slowest_sessions"] = slow
	// polling stops: no worker goroutine may still be selecting / in a round trip
	ok := waitFor(5*time.Second, func() bool { p, _, _ := workerGoroutines(); return p == 0 })
	polling, parked, detail := workerGoroutines()
	r.Notes["worker_goroutines_left"] = fmt.Sprintf("%d still polling, %d parked for ever in the response hand-over (reader gone) or in the retry sleep", polling, parked)
	if !ok {
		if len(detail) > 1200 {
			detail = detail[:1200]
		}
		r.Violate("worker-still-polling-after-close", "impl-oracle",
			fmt.Sprintf("5 s after the last Close (bounded wait) %d ioWorker goroutines are still in their loop: %s", polling, detail),
			map[string]interface{}{"name": "all-sessions"})
	}
	for i := 0; i < par; i++ {
		(<-drivers).Close()
	}
	if r.Thorough() && r.ReplayIn == "" {
		raceRun(r, scripts)
	}
	r.Finish()
}
