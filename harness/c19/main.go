// C19 — relay (copyLoop) and shutdown (termMonitor): the real code, driven step by step through
// the package-main hook driver (obfs4proxy built with -tags verif from the tree under test),
// validated against the Lean interleaving model (driver `relay`) and judged by an
// implementation-level oracle written from the property text.
package main

import (
	"bufio"
	"bytes"
	"encoding/hex"
	"fmt"
	"io"
	"os"
	"os/exec"
	"path/filepath"
	"strconv"
	"strings"
	"sync"
	"time"

	"verif/harness/vlib"
)

// ---------------------------------------------------------------- hook process

type hook struct {
	cmd      *exec.Cmd
	in       io.WriteCloser
	out      *bufio.Reader
	stderr   *bytes.Buffer // race builds only
	bin      string
	race     bool
	lines    chan string
	restarts int
}

var (
	hookBin     string
	hookRaceBin string
)

func buildHook(race bool) (string, error) {
	repo := os.Getenv("VERIF_REPO")
	if repo == "" {
		repo = "/repo"
	}
	dir, err := os.MkdirTemp("", "c19hook")
	if err != nil {
		return "", err
	}
	out := filepath.Join(dir, "obfs4proxy-verif")
	args := []string{"build", "-tags", "verif", "-o", out}
	env := append(os.Environ(), "GOFLAGS=-mod=mod", "GOPROXY=off", "GOSUMDB=off", "GOTOOLCHAIN=local")
	if race {
		args = append(args, "-race")
		env = append(env, "CGO_ENABLED=1")
	}
	args = append(args, "./obfs4proxy")
	c := exec.Command("go", args...)
	c.Dir = repo
	c.Env = env
	if b, err := c.CombinedOutput(); err != nil {
		return "", fmt.Errorf("go %s in %s: %v\n%s", strings.Join(args, " "), repo, err, b)
	}
	return out, nil
}

func startHook(bin string, race bool) *hook {
	c := exec.Command(bin)
	mode := "1"
	if race {
		mode = "race"
	}
	c.Env = append(os.Environ(), "OBFS4PROXY_VERIF_DRIVER="+mode)
	in, _ := c.StdinPipe()
	out, _ := c.StdoutPipe()
	c.Stderr = os.Stderr
	var eb *bytes.Buffer
	if race {
		eb = &bytes.Buffer{}
		c.Stderr = eb
	}
	if err := c.Start(); err != nil {
		fmt.Fprintln(os.Stderr, "cannot start hook driver:", err)
		os.Exit(3)
	}
	h := &hook{cmd: c, in: in, out: bufio.NewReaderSize(out, 1<<20), stderr: eb, bin: bin, race: race}
	h.lines = make(chan string, 4)
	go func(rd *bufio.Reader, ch chan string) {
		for {
			rep, err := rd.ReadString('\n')
			if err != nil {
				close(ch)
				return
			}
			ch <- strings.TrimRight(rep, "\n")
		}
	}(h.out, h.lines)
	return h
}

// hookCallTimeout bounds every wait on the driver child (its own quiescence wait is 10 s).
const hookCallTimeout = 25 * time.Second

// call sends one command and waits for the reply — at most hookCallTimeout: a child that does
// not answer (a goroutine of the code under test spins or never parks) is killed and replaced,
// and the caller gets "hook-timeout".
func (h *hook) call(line string) string {
	if _, err := io.WriteString(h.in, line+"\n"); err != nil {
		h.restart()
		return "hook-timeout (write: " + err.Error() + ")"
	}
	select {
	case rep, ok := <-h.lines:
		if !ok {
			h.restart()
			return "hook-timeout (the driver child exited)"
		}
		return rep
	case <-time.After(hookCallTimeout):
		h.restart()
		return fmt.Sprintf("hook-timeout (no reply to %q within %s)", line, hookCallTimeout)
	}
}

// restart kills the child and starts a fresh one in its place.
func (h *hook) restart() {
	h.cmd.Process.Kill()
	h.in.Close()
	go h.cmd.Wait()
	n := startHook(h.bin, h.race)
	h.cmd, h.in, h.out, h.lines = n.cmd, n.in, n.out, n.lines
	if n.stderr != nil {
		h.stderr = n.stderr
	}
	h.restarts++
}

func (h *hook) close() {
	h.in.Close()
	done := make(chan struct{})
	go func() { h.cmd.Wait(); close(done) }()
	select {
	case <-done:
	case <-time.After(5 * time.Second):
		h.cmd.Process.Kill()
	}
}

// ---------------------------------------------------------------- termMonitor

type termCase struct {
	Kind   string   `json:"kind"` // "term"
	Mode   string   `json:"mode"` // wait0 | wait1 | main
	Events []string `json:"events"`
}

type termStatus struct {
	state    string // waiting | returned:<sig> | idle | waiting?
	n        string
	pending  int
	handlers int
	pstart   int // senders of that kind still blocked
	pfinish  int
	psig     int
	raw      string
}

func parseTermStatus(rep string) termStatus {
	st := termStatus{raw: rep}
	f := strings.Fields(rep)
	if strings.HasPrefix(rep, "hook-timeout") || strings.HasPrefix(rep, "not-quiescent") {
		st.state = "never-rests"
		return st
	}
	if len(f) < 5 || f[0] != "ok" {
		st.state = "error"
		return st
	}
	st.state = f[1]
	st.n = strings.TrimPrefix(f[2], "n=")
	st.pending, _ = strconv.Atoi(strings.TrimPrefix(f[3], "pending="))
	st.handlers, _ = strconv.Atoi(strings.TrimPrefix(f[4], "handlers="))
	for _, t := range f[5:] {
		if kv := strings.SplitN(t, "=", 2); len(kv) == 2 {
			v, _ := strconv.Atoi(kv[1])
			switch kv[0] {
			case "pstart":
				st.pstart = v
			case "pfinish":
				st.pfinish = v
			case "psig":
				st.psig = v
			}
		}
	}
	return st
}

// runTerm drives the real termMonitor.wait through the event history and returns what was
// observed in the model's vocabulary, plus the verdict of the property oracle.
func runTerm(h *hook, c termCase) (obs string, oracle string, osig string, violAt int) {
	h.call("term.new")
	defer h.call("term.end")
	count := 0 // the oracle's own arithmetic: starts - finishes among consumed events
	phase := 1 // main: 1 = wait(false), 2 = wait(true)
	flag := c.Mode == "wait1"
	consumed := 0
	check := func(st termStatus, atStart bool) {
		// property: after the shutdown request wait(true) returns as soon as no handler is active
		if oracle != "" {
			return
		}
		violAt = consumed
		if st.n != "?" && st.n != strconv.Itoa(count) {
			oracle = fmt.Sprintf("numHandlers is %s after %d starts-finishes", st.n, count)
			osig = "handler-count-wrong"
			return
		}
		if flag && st.state == "waiting" && count == 0 {
			if atStart {
				oracle = "wait(true) entered with zero active handlers did not return: the goroutine is parked in select inside termMonitor.wait and no event is pending (observed from the goroutine dump, not a timeout)"
				osig = "idle-shutdown-hangs"
			} else {
				oracle = "the handler count reached zero after the shutdown request but wait(true) is still parked in select"
				osig = "shutdown-not-completed-at-zero"
			}
		}
		if strings.HasPrefix(st.state, "waiting?") {
			oracle = "wait is neither returned nor parked in select"
			osig = "wait-not-parked"
		}
	}
	st := parseTermStatus(h.call("term.wait " + map[bool]string{false: "0", true: "1"}[flag]))
	check(st, true)
	i := 0
	for {
		if strings.HasPrefix(st.state, "returned:") {
			sig := strings.TrimPrefix(st.state, "returned:")
			if c.Mode == "main" && phase == 1 && sig == "int" {
				phase, flag = 2, true
				st = parseTermStatus(h.call("term.wait 1"))
				check(st, true)
				continue
			}
			if flag && sig == "term" && count != 0 && oracle == "" {
				// returned TERM: legitimate only as a signal; tell by the last event
				if i == 0 || (c.Events[i-1] != "term") {
					oracle = fmt.Sprintf("wait(true) returned while %d handlers were still active and no signal arrived", count)
					osig = "shutdown-with-active-handlers"
				}
			}
			if c.Mode == "main" {
				return fmt.Sprintf("exited %s %d %s", sig, consumed, st.n), oracle, osig, violAt
			}
			return fmt.Sprintf("returned %s %d %s", sig, consumed, st.n), oracle, osig, violAt
		}
		if st.state == "never-rests" {
			if oracle == "" {
				oracle, osig = "termMonitor.wait (or a sender) neither returns nor parks within the bounded wait: "+st.raw, "wait-never-completes"
			}
			return "error " + st.raw, oracle, osig, violAt
		}
		if st.state != "waiting" {
			return "error " + st.raw, oracle, osig, violAt
		}
		if i == len(c.Events) {
			if c.Mode == "main" {
				return fmt.Sprintf("blocked %d %s", phase, st.n), oracle, osig, violAt
			}
			return fmt.Sprintf("blocked %s", st.n), oracle, osig, violAt
		}
		e := c.Events[i]
		i++
		st = parseTermStatus(h.call("term.ev " + e))
		if st.pending != 0 {
			return "error event not received: " + st.raw, oracle, osig, violAt
		}
		consumed++
		switch e {
		case "start":
			count++
		case "finish":
			count--
		}
		check(st, false)
	}
}

func termModelLine(c termCase) string {
	switch c.Mode {
	case "main":
		return "term.main " + strings.Join(c.Events, " ")
	case "wait1":
		return "term.wait 1 0 " + strings.Join(c.Events, " ")
	default:
		return "term.wait 0 0 " + strings.Join(c.Events, " ")
	}
}

func checkTerm(r *vlib.Run, h *hook, d *vlib.Driver, c termCase, race bool) {
	c.Kind = "term"
	obs, oracle, osig, violAt := runTerm(h, c)
	if oracle != "" && violAt < len(c.Events) {
		// shrink: the events after the point of failure play no part; re-run the shortest history
		c.Events = c.Events[:violAt]
		obs, oracle, osig, _ = runTerm(h, c)
	}
	model := d.Call("%s", strings.TrimSpace(termModelLine(c)))
	key := c.Mode + " " + strings.Join(c.Events, ",")
	// non-trivial: the history exercises the zero test after the shutdown request
	nt := false
	cnt, sawInt := 0, c.Mode == "wait1"
	for _, e := range c.Events {
		switch e {
		case "start":
			cnt++
		case "finish":
			cnt--
			if sawInt && cnt == 0 {
				nt = true
			}
		case "int":
			if c.Mode == "main" {
				sawInt = true
				if cnt > 0 {
					nt = true
				}
			}
		}
	}
	if len(c.Events) == 0 || (c.Mode == "main" && len(c.Events) == 1 && c.Events[0] == "int") {
		nt = true // the idle shutdown
	}
	r.Case(key, nt)
	r.Validated(1)
	r.Count("term.mode", c.Mode)
	r.Count("term.len", strconv.Itoa(len(c.Events)))
	r.Count("term.outcome", strings.Fields(obs + " x")[0])
	r.Sample(3, map[string]interface{}{"case": key, "impl": obs, "model": model})
	if oracle != "" {
		r.Violate(osig, "impl-oracle", fmt.Sprintf("%s, events [%s]: %s (implementation: %s)", c.Mode, strings.Join(c.Events, " "), oracle, obs), c)
	}
	want := obs
	if race {
		// numHandlers is not read under the race detector
		want = strings.TrimSuffix(obs, " ?")
		f := strings.Fields(model)
		model = strings.Join(f[:len(f)-1], " ")
	}
	if want != model {
		r.Violate("termmon-model-impl-disagree", "correspondence",
			fmt.Sprintf("%s, events [%s]: implementation %q, Lean model %q", c.Mode, strings.Join(c.Events, " "), obs, model), c)
	}
}

// ---------------------------------------------------------------- termMonitor: events outside wait()

// gapCase: a sequence of operations on one monitor — `w0` / `w1` call wait(false) / wait(true),
// `start` `finish` `int` `term` issue an event — in which events are also issued while the
// monitor is NOT parked in wait(): before wait(false), between wait(false) returning and
// wait(true), together with the signal.
type gapCase struct {
	Kind string   `json:"kind"` // "gap"
	Ops  []string `json:"ops"`
}

func checkGap(r *vlib.Run, h *hook, d *vlib.Driver, c gapCase) {
	c.Kind = "gap"
	key := "gap " + strings.Join(c.Ops, ",")
	h.call("term.new")
	defer h.call("term.end")
	issued := map[string]int{} // events issued, per kind
	var st termStatus
	waiting, flag := false, false
	var phaseEvs []string // events received during the current wait, in order (if unambiguous)
	phaseN, ambiguous := 0, false
	prev := termStatus{}
	fail := func(sig, desc string) {
		r.Violate(sig, "impl-oracle", fmt.Sprintf("ops [%s]: %s (driver: %s)", strings.Join(c.Ops, " "), desc, st.raw), c)
	}
	model := func(result string) {
		if ambiguous {
			r.Count("gap.model", "order-ambiguous-skipped")
			return
		}
		line := fmt.Sprintf("term.wait %d %d %s", map[bool]int{false: 0, true: 1}[flag], phaseN, strings.Join(phaseEvs, " "))
		rep := d.Call("%s", strings.TrimSpace(line))
		r.Count("gap.model", "compared")
		if rep != result {
			r.Violate("termmon-model-impl-disagree", "correspondence",
				fmt.Sprintf("ops [%s]: %s: implementation %q, Lean model %q", strings.Join(c.Ops, " "), line, result, rep), c)
		}
	}
	nt, countBad := false, false
	for i, op := range c.Ops {
		switch op {
		case "w0", "w1":
			flag = op == "w1"
			waiting, phaseEvs, ambiguous = true, nil, false
			phaseN = issued["start"] - prev.pstart - (issued["finish"] - prev.pfinish)
			if prev.pstart+prev.pfinish+prev.psig > 0 {
				nt = true
			}
			st = parseTermStatus(h.call("term.wait " + map[bool]string{false: "0", true: "1"}[flag]))
		default:
			issued[op]++
			st = parseTermStatus(h.call("term.ev " + op))
		}
		if st.state == "error" || strings.HasPrefix(st.state, "waiting?") {
			r.Violate("hook-driver-error", "correspondence", fmt.Sprintf("ops [%s] at %d: %s", strings.Join(c.Ops, " "), i, st.raw), c)
			return
		}
		// what was received in this step: the senders that are no longer blocked
		before := map[string]int{"start": prev.pstart, "finish": prev.pfinish, "sig": prev.psig}
		switch op {
		case "start", "finish":
			before[op]++
		case "int", "term":
			before["sig"]++
		}
		got := []string{}
		for k, v := range map[string]int{"start": st.pstart, "finish": st.pfinish, "sig": st.psig} {
			for j := v; j < before[k]; j++ {
				if k == "sig" {
					k2 := "int"
					if issued["term"] > 0 && issued["int"] == 0 {
						k2 = "term"
					}
					got = append(got, k2)
				} else {
					got = append(got, k)
				}
			}
		}
		if len(got) > 1 {
			ambiguous = true
		}
		phaseEvs = append(phaseEvs, got...)
		prev = st
		// the handlers that are active as far as the handlers themselves can tell: their
		// onHandlerStart has returned, their onHandlerFinish has not
		active := (issued["start"] - st.pstart) - (issued["finish"] - st.pfinish)
		if st.n != "?" && st.n != strconv.Itoa(active) && !countBad {
			countBad = true // reported once; the run goes on to see what the shutdown does with it
			fail("handler-count-wrong", fmt.Sprintf("after op %d: %d handlers are active (onHandlerStart returned, onHandlerFinish did not) but numHandlers is %s", i, active, st.n))
		}
		if waiting && strings.HasPrefix(st.state, "returned:") {
			sig := strings.TrimPrefix(st.state, "returned:")
			waiting = false
			bySignal := len(got) > 0 && (got[len(got)-1] == "int" || got[len(got)-1] == "term")
			if flag && !bySignal && active != 0 {
				// property: a graceful shutdown completes as soon as NO handler is active
				fail("shutdown-with-active-handlers", fmt.Sprintf("wait(true) returned %s while %d handler(s) whose onHandlerStart had returned were still active", sig, active))
				return
			}
			model(fmt.Sprintf("returned %s %d %s", sig, len(phaseEvs), st.n))
		} else if waiting && flag && active == 0 && st.pstart+st.pfinish+st.psig == 0 {
			fail("shutdown-not-completed-at-zero", "no handler is active and nothing is pending, yet wait(true) is parked")
			return
		}
	}
	if waiting {
		model(fmt.Sprintf("blocked %s", st.n))
	}
	r.Case(key, nt)
	r.Validated(1)
	r.Count("gap.len", strconv.Itoa(len(c.Ops)))
	r.Sample(2, map[string]interface{}{"case": key, "final": st.raw})
}

// gapHistories: all operation sequences up to maxLen with at most one wait(false) followed by at
// most one wait(true), at most 2 blocked senders at any time, finishes only of started handlers,
// and at least one event issued while no wait() is running.
func gapHistories(maxLen int) [][]string {
	var out [][]string
	var rec func(ops []string, w0, w1, waiting bool, starts, fins, sigs, outside int)
	rec = func(ops []string, w0, w1, waiting bool, starts, fins, sigs, outside int) {
		if w1 && outside > 0 {
			out = append(out, append([]string(nil), ops...))
		}
		if len(ops) == maxLen {
			return
		}
		for _, op := range []string{"w0", "w1", "start", "finish", "int"} {
			switch op {
			case "w0":
				if w0 || w1 {
					continue
				}
				rec(append(ops, op), true, w1, true, starts, fins, sigs, outside)
			case "w1":
				if w1 || (w0 && sigs == 0) {
					continue // wait(true) is only called after wait(false) returned a signal
				}
				rec(append(ops, op), w0, true, true, starts, fins, sigs, outside)
			case "start":
				o := outside
				if !waitingNow(w0, w1, sigs, ops) {
					o++
				}
				if o-outsideConsumed(ops) > 2 {
					continue
				}
				rec(append(ops, op), w0, w1, waiting, starts+1, fins, sigs, o)
			case "finish":
				if fins >= starts {
					continue
				}
				o := outside
				if !waitingNow(w0, w1, sigs, ops) {
					o++
				}
				rec(append(ops, op), w0, w1, waiting, starts, fins+1, sigs, o)
			case "int":
				if sigs > 0 {
					continue
				}
				o := outside
				if !waitingNow(w0, w1, sigs, ops) {
					o++
				}
				rec(append(ops, op), w0, w1, waiting, starts, fins, sigs+1, o)
			}
		}
	}
	rec(nil, false, false, false, 0, 0, 0, 0)
	return out
}

// waitingNow: (an approximation used only to select histories) a wait is running if the last
// wait call was w1, or w0 with no signal issued yet.
func waitingNow(w0, w1 bool, sigs int, ops []string) bool {
	for i := len(ops) - 1; i >= 0; i-- {
		switch ops[i] {
		case "w1":
			return true
		case "w0":
			for _, o := range ops[i+1:] {
				if o == "int" {
					return false
				}
			}
			// a signal issued before w0 is taken by it sooner or later too
			for _, o := range ops[:i] {
				if o == "int" {
					return false
				}
			}
			return true
		}
	}
	return false
}

func outsideConsumed(ops []string) int { return 0 }

// ---------------------------------------------------------------- real sockets

// tcpCase: one command of the driver's real-socket family (proxyrelay / orburst).
type tcpCase struct {
	Kind string `json:"kind"` // "tcp"
	Cmd  string `json:"cmd"`
}

func checkTCP(r *vlib.Run, h *hook, c tcpCase) {
	c.Kind = "tcp"
	rep := h.call(c.Cmd)
	r.Case("tcp "+c.Cmd, true)
	r.Validated(1)
	r.Count("tcp", strings.Fields(c.Cmd)[0])
	r.Sample(12, map[string]interface{}{"cmd": c.Cmd, "driver": rep})
	kv := map[string]string{}
	for _, t := range strings.Fields(rep) {
		if p := strings.SplitN(t, "=", 2); len(p) == 2 {
			kv[p[0]] = p[1]
		}
	}
	fail := func(sig, desc string) {
		r.Violate(sig, "impl-oracle", fmt.Sprintf("%s: %s (driver: %s)", c.Cmd, desc, rep), c)
	}
	if strings.HasPrefix(rep, "hook-timeout") || strings.HasPrefix(rep, "stuck") {
		fail("copyloop-never-returns", "the relay over real sockets did not finish within the bounded wait")
		return
	}
	if !strings.HasPrefix(rep, "ok ") {
		r.Violate("hook-driver-error", "correspondence", c.Cmd+": "+rep, c)
		return
	}
	switch strings.Fields(c.Cmd)[0] {
	case "proxyrelay":
		// property: as soon as either side ends both connections are closed and the relay returns
		if kv["returned"] != "1" {
			h.restart() // its goroutines are still blocked on the sockets
			fail("copyloop-never-returns", "one side of a relay through the real http proxy dialer ended; 3 s later (bounded wait) copyLoop has not returned")
		} else if kv["proxy_saw_close"] != "1" {
			fail("proxy-conn-left-open", "copyLoop returned, but 3 s later (bounded wait) the upstream proxy has still not seen its connection close")
		} else if kv["local_closed"] != "1" {
			fail("conn-left-open", "copyLoop returned without closing the local conn")
		}
	case "sockspipe":
		// property: what is forwarded is always an in-order, unaltered prefix of what the source
		// produced — from its first byte: either every byte the SOCKS client sent after its
		// request is relayed, or the connection is refused; never a silent gap
		f := strings.Fields(c.Cmd)
		n, _ := strconv.Atoi(f[2])
		want := make([]byte, n)
		for i := range want {
			want[i] = byte(i) ^ byte(i>>8)*7 ^ byte(i>>16)*13 ^ 0x5c
		}
		got := vlib.UnHex(kv["got"])
		if kv["dialed"] == "1" {
			if !bytes.Equal(got, want) {
				d := 0
				for d < len(got) && d < len(want) && got[d] == want[d] {
					d++
				}
				fail("relayed-stream-has-gap", fmt.Sprintf("the SOCKS client sent its CONNECT request and the first %s bytes of a %d-byte stream in one write, the rest after the reply, then EOF; the connection was accepted, and the transport conn received %d bytes that agree with the client's stream only up to offset %d", f[1], n, len(got), d))
			}
		} else if len(got) != 0 {
			fail("relayed-stream-has-gap", "the connection was refused and yet bytes reached the transport conn")
		}
		r.Count("sockspipe", map[bool]string{true: "accepted", false: "refused"}[kv["dialed"] == "1"])
	case "orburst":
		// property: a side that ends while the other is healthy has had all its earlier bytes forwarded first
		if kv["got"] != kv["sent"] || kv["hash"] != "ok" || kv["end"] != "eof" {
			fail("orport-bytes-lost-at-close", fmt.Sprintf("the bridge side produced %s bytes and then EOF; the ORPort (reading slowly) received %s bytes (hash %s) and then %q", kv["sent"], kv["got"], kv["hash"], kv["end"]))
		}
	}
}

var tcpCmds = []string{
	"proxyrelay local-first", "proxyrelay proxy-first",
	"orburst 4194304 65536 4000", "orburst 262144 4096 2000", "orburst 1048576 1024 0", "orburst 3000000 32768 1000",
	"sockspipe 0 300", "sockspipe 1 300", "sockspipe 7 300", "sockspipe 299 300", "sockspipe 300 300", "sockspipe 5000 40000", "sockspipe 0 40000", "sockspipe 0 0",
}

// ---------------------------------------------------------------- handlers (clientHandler / serverHandler)

type handlerCase struct {
	Kind string `json:"kind"` // "handler"
	Who  string `json:"who"`  // client | server
	Path string `json:"path"`
	Mode string `json:"mode"` // idle | held
}

func checkHandler(r *vlib.Run, h *hook, c handlerCase) {
	c.Kind = "handler"
	h.call("term.new")
	defer h.call("term.end")
	key := fmt.Sprintf("handler %s %s %s", c.Who, c.Path, c.Mode)
	r.Case(key, true)
	r.Count("handler.path", c.Who+"/"+c.Path)
	fail := func(sig, desc string) {
		r.Violate(sig, "impl-oracle", key+": "+desc, c)
	}
	switch c.Mode {
	case "idle":
		// proxy running (wait(false)); one connection comes and goes; then SIGINT
		st := parseTermStatus(h.call("term.wait 0"))
		st = parseTermStatus(h.call(fmt.Sprintf("term.handler %s %s", c.Who, c.Path)))
		if st.handlers != 0 || st.pending != 0 {
			fail("handler-did-not-finish", "the handler goroutine is still running: "+st.raw)
			return
		}
		if st.n != "?" && st.n != "0" {
			fail("handler-count-wrong", "after the only handler finished numHandlers is "+st.n)
			return
		}
		st = parseTermStatus(h.call("term.ev int"))
		if st.state != "returned:int" {
			fail("signal-not-returned", "wait(false) did not return SIGINT: "+st.raw)
			return
		}
		st = parseTermStatus(h.call("term.wait 1"))
		if st.state == "waiting" {
			fail("idle-shutdown-hangs", "all handlers have finished, yet wait(true) after SIGINT is parked in select inside termMonitor.wait with no event pending")
		}
	case "hold":
		// the connection under test stays open across the shutdown request
		st := parseTermStatus(h.call("term.wait 0"))
		st = parseTermStatus(h.call(fmt.Sprintf("term.handler %s hold", c.Who)))
		if st.handlers != 1 {
			fail("handler-not-held", "the held connection's handler is not running: "+st.raw)
			return
		}
		if st.n != "?" && st.n != "1" {
			fail("handler-count-wrong", "one handler is active (its connection is open) but numHandlers is "+st.n)
			return
		}
		st = parseTermStatus(h.call("term.ev int"))
		if st.state != "returned:int" {
			fail("signal-not-returned", "wait(false) did not return SIGINT: "+st.raw)
			return
		}
		st = parseTermStatus(h.call("term.wait 1"))
		if st.state != "waiting" {
			fail("shutdown-with-active-handlers", "wait(true) returned although a handler is active (its connection is still open): "+st.raw)
			return
		}
		st = parseTermStatus(h.call("term.release"))
		if st.handlers != 0 {
			fail("handler-did-not-finish", "both sides of the connection ended but the handler is still running: "+st.raw)
			return
		}
		if st.state != "returned:term" {
			fail("shutdown-not-completed-at-zero", "the last handler finished but wait(true) did not return: "+st.raw)
			return
		}
		if st.n != "?" && st.n != "0" {
			fail("handler-count-wrong", "all handlers finished but numHandlers is "+st.n)
		}
	case "held":
		// shutdown requested while another handler is active: the connection under test must
		// contribute +1 and -1
		st := parseTermStatus(h.call("term.wait 1"))
		if st.state == "waiting" {
			// released code: wait(true) needs an event to look at the count at all
		}
		if strings.HasPrefix(st.state, "returned") {
			// repaired code returns at once when idle: hold it open with a handler first
			h.call("term.end")
			h.call("term.new")
			st = parseTermStatus(h.call("term.wait 0"))
			st = parseTermStatus(h.call("term.ev start"))
			st = parseTermStatus(h.call("term.ev int"))
			st = parseTermStatus(h.call("term.wait 1"))
		} else {
			st = parseTermStatus(h.call("term.ev start"))
		}
		if st.state != "waiting" {
			fail("shutdown-with-active-handlers", "wait(true) returned although a handler is active: "+st.raw)
			return
		}
		st = parseTermStatus(h.call(fmt.Sprintf("term.handler %s %s", c.Who, c.Path)))
		if st.handlers != 0 || st.pending != 0 {
			fail("handler-did-not-finish", "the handler goroutine is still running: "+st.raw)
			return
		}
		if st.state != "waiting" {
			fail("shutdown-with-active-handlers", "a connection came and went while another handler is active, and wait(true) returned: "+st.raw)
			return
		}
		if st.n != "?" && st.n != "1" {
			fail("handler-count-wrong", "one handler active, one finished: numHandlers is "+st.n)
			return
		}
		st = parseTermStatus(h.call("term.ev finish"))
		if st.state != "returned:term" {
			fail("shutdown-not-completed-at-zero", "the last handler finished but wait(true) did not return: "+st.raw)
		}
	}
	r.Validated(1)
}

// ---------------------------------------------------------------- relay

type relayScenario struct {
	Name   string
	Chunks map[string][][]byte // per side
	Fin    map[string]string   // per side: "", eof, err
	// Fault[d] = "i:short:k" | "i:err:k": the i-th Write of copier d may (also) end that way
	Fault map[string]string
	Split bool // also explore 1-byte reads
	// EnvFirst: the sides produce everything (and end) before the copiers take their first
	// step; only the interleavings of the copiers' own steps are enumerated
	EnvFirst bool
}

type relayCase struct {
	Kind string   `json:"kind"` // "relay"
	Name string   `json:"name"`
	Cmds []string `json:"cmds"`
	Leaf bool     `json:"leaf"` // the script had nothing left to grant after the last command
}

type relayState struct {
	parked  map[string]string // ab/ba -> "rd:A" "wr:B:3" "cl:A" "-"
	extra   []string          // parked ops of goroutines that are not one of the two copiers
	ret     string
	inbox   map[string]int
	fin     map[string]string
	closed  map[string]bool
	fed     map[string]int // chunks fed
	writes  map[string]int // writes completed per copier
	grants  map[string]int // grants per copier after both conns were closed
	bothAt  int
	fedB    map[string][]byte // bytes fed per side (before fin)
	fwd     map[string][]byte // bytes accepted per copier
	ended   map[string]string // copier -> class of its terminal event
	wfail   map[string]bool
	hard    map[string]bool // the copier's io.Copy must have returned (nothing but closes may follow)
	dead    bool            // the driver child has to be replaced after this run
	first   string          // class of the first terminal event
	items   []string
	events  []string
	oracle  []string // violations: "sig|desc"
	closeBy map[string]int
	chunks  map[string][]int // sizes of the fed chunks still (partly) in the inbox
}

func newRelayState() *relayState {
	return &relayState{parked: map[string]string{}, inbox: map[string]int{}, fin: map[string]string{},
		closed: map[string]bool{}, fed: map[string]int{}, writes: map[string]int{}, grants: map[string]int{},
		fedB: map[string][]byte{}, fwd: map[string][]byte{}, ended: map[string]string{}, wfail: map[string]bool{}, hard: map[string]bool{},
		closeBy: map[string]int{}, bothAt: -1, chunks: map[string][]int{}}
}

var srcOf = map[string]string{"ab": "A", "ba": "B"}
var dstOf = map[string]string{"ab": "B", "ba": "A"}

func (s *relayState) viol(sig, desc string) {
	s.oracle = append(s.oracle, sig+"|"+desc)
}

// absorb parses one reply of the hook driver, updates the bookkeeping and runs the
// property oracle on the new events.
func (s *relayState) absorb(cmd string, rep string) bool {
	f := strings.SplitN(rep, " ", 2)
	if strings.HasPrefix(rep, "hook-timeout") || strings.HasPrefix(rep, "not-quiescent") {
		// property: as soon as either side ends both connections are closed and the relay returns —
		// here the relay's goroutines never even reach a state the script could act on
		s.viol("copyloop-never-returns", fmt.Sprintf("after command %q the goroutines of copyLoop did not come to rest (parked in a conn operation, or finished) within the bounded wait: %s", cmd, rep))
		s.dead = true
		return false
	}
	if len(f) < 2 || (f[0] != "ok" && f[0] != "noop") {
		s.viol("hook-driver-error", "command "+cmd+": "+rep)
		return false
	}
	if i := strings.Index(rep, " stuck="); i >= 0 {
		s.viol("copyloop-never-returns", fmt.Sprintf("after command %q a copier goroutine is parked for ever in a channel operation of copyLoop itself (not in a conn operation the script could complete): copyLoop cannot return [%s]", cmd, strings.TrimSpace(f[1][strings.Index(f[1], ";")+1:])))
		s.dead = true
	}
	parts := strings.SplitN(f[1], ";", 2)
	evs := strings.Fields(parts[0])
	w := strings.Fields(cmd)
	if f[0] == "noop" && (w[0] == "wr" || w[0] == "cl" || w[0] == "hw" || w[0] == "hr") {
		// the harness only grants what the driver reported as parked
		s.viol("hook-driver-desync", "command "+cmd+" was refused although the driver had reported that operation as parked: "+rep)
	}
	switch w[0] {
	case "feed":
		if f[0] == "ok" {
			b := vlib.UnHex(w[2])
			s.inbox[w[1]] += len(b)
			if len(b) > 0 {
				s.chunks[w[1]] = append(s.chunks[w[1]], len(b))
			}
			s.fedB[w[1]] = append(s.fedB[w[1]], b...)
			s.fed[w[1]]++
		}
		s.items = append(s.items, "c:feed:"+w[1]+":"+w[2])
	case "fin":
		if f[0] == "ok" {
			s.fin[w[1]] = w[2]
		}
		s.items = append(s.items, "c:fin:"+w[1]+":"+strings.SplitN(w[2], ":", 2)[0])
	case "rd":
		fin := "0"
		if len(w) > 3 {
			fin = "1"
		}
		s.items = append(s.items, "c:rd:"+w[1]+":"+w[2]+":"+fin)
	case "wr": // wr d ok | wr d short k | wr d err k [kind]
		k := "0"
		if len(w) > 3 {
			k = w[3]
		}
		s.items = append(s.items, "c:wr:"+w[1]+":"+w[2]+":"+k)
	case "cl":
		s.items = append(s.items, "c:cl:"+w[1])
	case "hw", "hr":
		s.items = append(s.items, "c:"+w[0]+":"+w[1])
	}
	if (w[0] == "rd" || w[0] == "wr" || w[0] == "cl") && s.closed["A"] && s.closed["B"] && f[0] == "ok" {
		s.grants[w[1]]++
	}
	for _, e := range evs {
		s.items = append(s.items, "e:"+e)
		s.events = append(s.events, e)
		p := strings.Split(e, ":")
		switch p[0] {
		case "read": // read:d:c:data:hex:cls | read:d:c:eof|err|closed
			d, c := p[1], p[2]
			if cls, over := s.ended[d]; over {
				// property: as soon as either side ends both connections are closed and the relay returns
				s.viol("copier-continues-after-end", fmt.Sprintf("copier %s saw its side end (%s) and then called Read again instead of closing both conns", d, cls))
			}
			if p[3] == "data" {
				b := vlib.UnHex(p[4])
				s.inbox[c] -= len(b)
				for n := len(b); n > 0 && len(s.chunks[c]) > 0; {
					if s.chunks[c][0] <= n {
						n -= s.chunks[c][0]
						s.chunks[c] = s.chunks[c][1:]
					} else {
						s.chunks[c][0] -= n
						n = 0
					}
				}
				if p[5] != "ok" {
					s.ended[d] = map[string]string{"eof": "nil", "err": "rerr" + c}[p[5]]
				}
			} else {
				cls := map[string]string{"eof": "nil", "err": "rerr" + c, "closed": "closed"}[p[3]]
				s.ended[d] = cls
				s.hard[d] = true
				if s.first == "" {
					s.first = cls
				}
			}
		case "write": // write:d:c:hex:n:cls
			d, c := p[1], p[2]
			b := vlib.UnHex(p[3])
			n, _ := strconv.Atoi(p[4])
			if n < 0 || n > len(b) {
				n = 0
			}
			if cls, over := s.ended[d]; over && s.hard[d] {
				s.viol("copier-continues-after-end", fmt.Sprintf("copier %s saw an operation fail (%s) and then called Write again instead of closing both conns", d, cls))
			}
			s.fwd[d] = append(s.fwd[d], b[:n]...)
			s.writes[d]++
			switch p[5] {
			case "ok":
				if cls, fin := s.ended[d]; fin && s.first == "" {
					s.first = cls // data+EOF read: io.Copy returns after this write
				}
				if _, fin := s.ended[d]; fin {
					s.hard[d] = true
				}
			case "short":
				s.ended[d], s.wfail[d] = "short", true
			case "err":
				s.ended[d], s.wfail[d] = "werr"+c, true
			case "closed":
				s.ended[d], s.wfail[d] = "closed", true
			}
			if p[5] != "ok" {
				s.hard[d] = true
			}
			if p[5] != "ok" && s.first == "" {
				s.first = s.ended[d]
			}
			// property: forwarded is always an in-order, unaltered prefix of what the source produced
			if !bytes.HasPrefix(s.fedB[srcOf[d]], s.fwd[d]) {
				s.viol("forwarded-not-prefix", fmt.Sprintf("direction %s: the %d bytes accepted by side %s are not a prefix of the %d bytes side %s produced", d, len(s.fwd[d]), c, len(s.fedB[srcOf[d]]), srcOf[d]))
			}
		case "close": // close:d:c
			d, c := p[1], p[2]
			// property: a side that ended while the other was healthy has had all earlier bytes forwarded first
			if cls, fin := s.ended[d]; fin && s.closeBy[d] == 0 && (cls == "nil" || strings.HasPrefix(cls, "rerr")) && !s.wfail[d] {
				if !bytes.Equal(s.fwd[d], s.fedB[srcOf[d]]) {
					s.viol("teardown-before-flush", fmt.Sprintf("side %s ended (%s) after producing %d bytes, copier %s closes the conns with only %d bytes written to side %s", srcOf[d], cls, len(s.fedB[srcOf[d]]), d, len(s.fwd[d]), dstOf[d]))
				}
			}
			s.closeBy[d]++
			s.closed[c] = true
			if s.closed["A"] && s.closed["B"] && s.bothAt < 0 {
				s.bothAt = len(s.events)
			}
		case "ret":
			s.ret = p[1]
			// property: as soon as either side ends both connections are closed and the relay returns
			if !s.closed["A"] || !s.closed["B"] {
				s.viol("returned-before-both-closed", fmt.Sprintf("copyLoop returned (%s) while closed(A)=%v closed(B)=%v", p[1], s.closed["A"], s.closed["B"]))
			}
			if p[1] == "closed" || (s.first != "" && p[1] != s.first) {
				s.viol("returned-not-first-error", fmt.Sprintf("copyLoop returned %s; the first side to end produced %s", p[1], s.first))
			}
		}
	}
	// parked ops
	s.parked = map[string]string{}
	s.extra = s.extra[:0]
	if len(parts) > 1 {
		for _, t := range strings.Fields(parts[1]) {
			kv := strings.SplitN(t, "=", 2)
			if len(kv) != 2 {
				continue
			}
			switch {
			case kv[0] == "ab" || kv[0] == "ba":
				s.parked[kv[0]] = kv[1]
			case kv[0] == "ret":
			default:
				s.extra = append(s.extra, t)
			}
		}
	}
	return true
}

// enabled lists the script's possible next commands in a fixed order.
func (s *relayState) enabled(sc *relayScenario) []string {
	var out []string
	if sc.EnvFirst {
		for _, c := range []string{"A", "B"} {
			if s.fin[c] != "" {
				continue
			}
			if s.fed[c] < len(sc.Chunks[c]) {
				return []string{"feed " + c + " " + vlib.Hex(sc.Chunks[c][s.fed[c]])}
			} else if sc.Fin[c] != "" {
				return []string{"fin " + c + " " + sc.Fin[c]}
			}
		}
	}
	for _, d := range []string{"ab", "ba"} {
		p := strings.Split(s.parked[d], ":")
		switch p[0] {
		case "rd":
			c := p[1]
			switch {
			case s.closed[c]:
				out = append(out, "rd "+d+" 1")
			case s.inbox[c] > 0:
				out = append(out, fmt.Sprintf("rd %s %d", d, s.inbox[c]))
				if sc.Split && s.inbox[c] >= 2 {
					out = append(out, "rd "+d+" 1")
				}
				if len(s.chunks[c]) > 1 && s.chunks[c][0] > 1 || len(s.chunks[c]) > 1 && !sc.Split {
					// stop at the boundary of the oldest chunk
					out = append(out, fmt.Sprintf("rd %s %d", d, s.chunks[c][0]))
				}
				if s.fin[c] != "" {
					out = append(out, fmt.Sprintf("rd %s %d fin", d, s.inbox[c]))
				}
			case s.fin[c] != "":
				out = append(out, "rd "+d+" 1")
			}
		case "wr":
			out = append(out, "wr "+d+" ok")
			if ft := sc.Fault[d]; ft != "" && !s.closed[p[1]] {
				q := strings.Split(ft, ":")
				if i, _ := strconv.Atoi(q[0]); i == s.writes[d] {
					out = append(out, "wr "+d+" "+strings.Join(q[1:], " "))
				}
			}
		case "cl":
			out = append(out, "cl "+d)
		case "hw", "hr":
			out = append(out, p[0]+" "+d)
		}
	}
	for _, c := range []string{"A", "B"} {
		if s.fin[c] != "" {
			continue
		}
		if s.fed[c] < len(sc.Chunks[c]) {
			out = append(out, "feed "+c+" "+vlib.Hex(sc.Chunks[c][s.fed[c]]))
		} else if sc.Fin[c] != "" {
			out = append(out, "fin "+c+" "+sc.Fin[c])
		}
	}
	return out
}

// finish runs the end-of-run oracle (the relay is quiescent and the script has nothing left).
func (s *relayState) finish(leaf bool) {
	anyEnded := len(s.ended) > 0
	if leaf && anyEnded {
		// property: as soon as either side ends, both connections are closed and the relay returns
		if !s.closed["A"] || !s.closed["B"] {
			s.viol("conn-left-open", fmt.Sprintf("a side ended (%v) and every step the script could grant was granted, yet closed(A)=%v closed(B)=%v; parked: %v", s.ended, s.closed["A"], s.closed["B"], s.parked))
		} else if s.ret == "" {
			s.viol("relay-did-not-return", fmt.Sprintf("both conns are closed and nothing is left to grant, but copyLoop has not returned; parked: %v %v", s.parked, s.extra))
		}
	}
	for d, g := range s.grants {
		if g > 3 {
			s.viol("teardown-not-bounded", fmt.Sprintf("copier %s needed %d operations after both conns were closed", d, g))
		}
	}
}

// endRelay tears the scenario down; a child with goroutines that will never finish is replaced.
func endRelay(w *worker, s *relayState) {
	if s.dead {
		w.h.restart() // goroutines that will never finish: no point in asking for a teardown
		return
	}
	if strings.HasPrefix(w.h.call("relay.end"), "hook-timeout") {
		return // already replaced
	}
	// (a "stuck" answer without an earlier finding cannot happen: stuck copiers are reported
	// by every status line)
}

type worker struct {
	h *hook
	d *vlib.Driver
}

// runRelay executes a command list (and, if sc != nil, extends it to a leaf by always taking
// the first enabled command, returning the untaken alternatives as new work).
// newCmd: conns with CloseWrite/CloseRead (like *net.TCPConn) for scenarios named hc-…
func newCmd(name string) string {
	if strings.Contains(name, "hc-") {
		return "relay.new hc"
	}
	return "relay.new"
}

func runRelay(w *worker, sc *relayScenario, name string, cmds []string, leafHint bool) (s *relayState, full []string, alts [][]string, leaf bool) {
	s = newRelayState()
	rep := w.h.call(newCmd(name))
	if !s.absorb("relay.new", rep) {
		return s, cmds, nil, false
	}
	full = append(full, cmds...)
	for _, c := range cmds {
		if !s.absorb(c, w.h.call(c)) {
			return s, full, nil, false
		}
	}
	// replay: the recorded run ended in a state where the script had nothing left to grant; on
	// the tree at hand that is only so if no copier has a grantable operation parked
	leaf = leafHint && len(s.enabled(&relayScenario{})) == 0
	if sc != nil {
		for {
			en := s.enabled(sc)
			if len(en) == 0 {
				leaf = true
				break
			}
			if len(s.oracle) > 0 {
				break // already a violation: no need to run on
			}
			for _, a := range en[1:] {
				alt := append(append([]string(nil), full...), a)
				alts = append(alts, alt)
			}
			full = append(full, en[0])
			if !s.absorb(en[0], w.h.call(en[0])) {
				break
			}
			if len(full) > 400 {
				break
			}
		}
	}
	s.finish(leaf)
	endRelay(w, s)
	return s, full, alts, leaf
}

func judgeRelay(r *vlib.Run, w *worker, name string, s *relayState, full []string, leaf bool) {
	c := relayCase{Kind: "relay", Name: name, Cmds: full, Leaf: leaf}
	key := name + " " + strings.Join(full, ";")
	both := len(s.fwd["ab"]) > 0 && len(s.fwd["ba"]) > 0
	r.Case(key, len(s.ended) > 0 && (both || s.wfail["ab"] || s.wfail["ba"] || len(s.fwd["ab"])+len(s.fwd["ba"]) > 0))
	r.Validated(1)
	r.Count("relay.len", fmt.Sprintf("%02d", len(full)/5*5))
	r.Count("relay.ret", map[bool]string{true: "running", false: s.ret}[s.ret == ""])
	for d, cls := range s.ended {
		r.Count("relay.end."+d, cls)
	}
	rep := w.d.Call("relay.check %s", strings.Join(s.items, " "))
	r.Sample(8, map[string]interface{}{"scenario": name, "cmds": strings.Join(full, "; "), "events": strings.Join(s.events, " "), "model": rep})
	seen := map[string]bool{}
	for _, o := range s.oracle {
		p := strings.SplitN(o, "|", 2)
		if seen[p[0]] {
			continue
		}
		seen[p[0]] = true
		kind := "impl-oracle"
		if strings.HasPrefix(p[0], "hook-") {
			kind = "correspondence" // the tie itself failed, not the property
		}
		r.Violate(p[0], kind, fmt.Sprintf("%s [%s]: %s", name, strings.Join(full, "; "), p[1]), c)
	}
	if !strings.HasPrefix(rep, "ok ") {
		r.Violate("relay-trace-not-a-model-run", "correspondence",
			fmt.Sprintf("%s [%s]: events [%s]: Lean model: %s", name, strings.Join(full, "; "), strings.Join(s.events, " "), rep), c)
		return
	}
	// the model's final state against the harness's own bookkeeping of the observed run
	want := fmt.Sprintf("fwdAB=%s fwdBA=%s closedA=%s closedB=%s", vlib.Hex(s.fwd["ab"]), vlib.Hex(s.fwd["ba"]),
		map[bool]string{false: "0", true: "1"}[s.closed["A"]], map[bool]string{false: "0", true: "1"}[s.closed["B"]])
	ret := s.ret
	if ret == "" {
		ret = "-"
	}
	if !strings.Contains(rep, want) || !strings.Contains(rep, " ret="+ret+" ") || !strings.HasSuffix(rep, "inv=1") {
		r.Violate("relay-final-state-differs", "correspondence",
			fmt.Sprintf("%s [%s]: observed %s ret=%s; Lean model: %s", name, strings.Join(full, "; "), want, ret, rep), c)
	}
}

// exploreAll enumerates every schedule of the scenario (stateless depth-first search by
// re-execution), in parallel.
func exploreAll(r *vlib.Run, ws []*worker, sc *relayScenario, maxLeaves int) (leaves int, complete bool) {
	var mu sync.Mutex
	cond := sync.NewCond(&mu)
	stack := [][]string{{}}
	busy := 0
	complete = true
	var wg sync.WaitGroup
	for _, w := range ws {
		wg.Add(1)
		go func(w *worker) {
			defer wg.Done()
			for {
				mu.Lock()
				for len(stack) == 0 && busy > 0 {
					cond.Wait()
				}
				if len(stack) == 0 || leaves >= maxLeaves || r.NumViolations() > 12 {
					if len(stack) > 0 {
						complete = false
					}
					mu.Unlock()
					cond.Broadcast()
					return
				}
				item := stack[len(stack)-1]
				stack = stack[:len(stack)-1]
				busy++
				leaves++
				mu.Unlock()
				s, full, alts, leaf := runRelay(w, sc, sc.Name, item, false)
				judgeRelay(r, w, sc.Name, s, full, leaf)
				mu.Lock()
				stack = append(stack, alts...)
				busy--
				mu.Unlock()
				cond.Broadcast()
			}
		}(w)
	}
	wg.Wait()
	return
}

func pat(tag byte, n int) []byte {
	b := make([]byte, n)
	for i := range b {
		b[i] = tag + byte(i*7)
	}
	return b
}

func scenarios(thorough bool) []*relayScenario {
	a1, a2, a3 := []byte("a1"), []byte("A22"), []byte("x")
	b1, b2 := []byte("b1"), []byte("BB2")
	mk := func(name string, A, B [][]byte, fa, fb string, fault map[string]string, split bool) *relayScenario {
		return &relayScenario{Name: name, Chunks: map[string][][]byte{"A": A, "B": B},
			Fin: map[string]string{"A": fa, "B": fb}, Fault: fault, Split: split,
			EnvFirst: strings.HasPrefix(name, "envfirst-")}
	}
	out := []*relayScenario{
		mk("idle-eof", nil, nil, "eof", "", nil, false),
		mk("idle-eof-both", nil, nil, "eof", "eof", nil, false),
		mk("idle-err-both", nil, nil, "err", "err", nil, false),
		mk("1chunk-eof", [][]byte{a1}, nil, "eof", "", nil, true),
		mk("1chunk-err", nil, [][]byte{b1}, "", "err", nil, true),
		mk("1+1-eof", [][]byte{a1}, [][]byte{b1}, "eof", "", nil, false),
		mk("1chunk-werr", [][]byte{a2}, nil, "", "", map[string]string{"ab": "0:err:1"}, false),
		mk("1chunk-short", nil, [][]byte{b2}, "", "eof", map[string]string{"ba": "0:short:2"}, false),
		mk("2chunk-eof", [][]byte{a1, a2}, nil, "eof", "", nil, false),
		mk("2+1-eof", [][]byte{a1, a2}, [][]byte{b1}, "eof", "", nil, false),
		mk("envfirst-2+1-eof-eof", [][]byte{a1, a2}, [][]byte{b1}, "eof", "eof", nil, false),
		mk("envfirst-1+2-err-werr", [][]byte{a1}, [][]byte{b1, b2}, "err", "", map[string]string{"ba": "1:err:0"}, false),
		mk("envfirst-2+1-faults", [][]byte{a1, a2}, [][]byte{b1}, "", "eof", map[string]string{"ab": "1:err:2", "ba": "0:short:1"}, false),
		// both directions fail with genuine errors: a read error on one side while the opposite
		// copier is parked in Write and that Write fails too; both sides failing back to back
		mk("werr-while-other-side-errs", [][]byte{a1}, nil, "", "err:opreset", map[string]string{"ab": "0:err:1:oppipe"}, false),
		mk("both-werr", [][]byte{a1}, [][]byte{b1}, "", "", map[string]string{"ab": "0:err:0:opreset", "ba": "0:err:1"}, false),
		mk("envfirst-err-both-with-data", [][]byte{a1, a2}, [][]byte{b1}, "err:opreset", "err:optimeout", nil, false),
		// the same on conns that have CloseWrite/CloseRead, as *net.TCPConn has
		mk("hc-idle-eof", nil, nil, "eof", "", nil, false),
		mk("hc-idle-eof-both", nil, nil, "eof", "eof", nil, false),
		mk("hc-1chunk-eof", [][]byte{a1}, nil, "eof", "", nil, true),
		mk("hc-1+1-eof", [][]byte{a1}, [][]byte{b1}, "eof", "", nil, false),
		mk("hc-1chunk-err", nil, [][]byte{b1}, "", "err", nil, false),
		mk("envfirst-hc-2+1-eof-eof", [][]byte{a1, a2}, [][]byte{b1}, "eof", "eof", nil, false),
		// the error VALUE of the failing operation: whatever it is, that copier's side has ended
		mk("idle-err-optimeout", nil, nil, "err:optimeout", "", nil, false),
		mk("idle-err-deadline-eintr", nil, nil, "err:deadline", "err:opeintr", nil, false),
		mk("1chunk-err-tempnet", [][]byte{a1}, nil, "err:tempnet", "", nil, true),
		mk("1chunk-err-reset", nil, [][]byte{b1}, "", "err:opreset", nil, false),
		mk("envfirst-4chunk-werr-optimeout", [][]byte{a1, a2, a3, b2}, nil, "eof", "", map[string]string{"ab": "1:err:0:optimeout"}, false),
		mk("envfirst-2+1-werr-tempnet-pipe", [][]byte{a1, a2}, [][]byte{b1}, "", "eof", map[string]string{"ab": "1:err:1:tempnet", "ba": "0:err:0:oppipe"}, false),
		mk("1chunk-werr-opdeadline", [][]byte{a2}, nil, "", "err:new", map[string]string{"ab": "0:err:2:opdeadline"}, false),
	}
	if thorough {
		out = append(out,
			mk("1+1-eof-err", [][]byte{a1}, [][]byte{b1}, "eof", "err", nil, false),
			mk("3chunk-eof", [][]byte{a1, a2, a3}, nil, "eof", "", nil, false),
			mk("1+1-werr-split", [][]byte{a2}, [][]byte{b1}, "eof", "", map[string]string{"ab": "1:short:0"}, true),
			mk("envfirst-split", [][]byte{a2}, [][]byte{b2}, "eof", "", map[string]string{"ab": "1:short:0"}, true),
			mk("envfirst-2+2-eof-err", [][]byte{a1, a2}, [][]byte{b1, b2}, "eof", "err", nil, false),
			mk("envfirst-3+2-err-short", [][]byte{a1, a2, a3}, [][]byte{b1, b2}, "err", "eof", map[string]string{"ab": "2:short:0", "ba": "1:err:1"}, false),
		)
	}
	return out
}

var errKinds = []string{"plain", "new", "optimeout", "opeintr", "opreset", "oppipe", "opdeadline", "tempnet"}

func randomScenario(rng *vlib.Rng, i int) *relayScenario {
	hc := ""
	if i%2 == 1 {
		hc = "hc-"
	}
	sc := &relayScenario{Name: fmt.Sprintf("random-%s%d", hc, i), Chunks: map[string][][]byte{}, Fin: map[string]string{}, Fault: map[string]string{}}
	sizes := []int{1, 2, 3, 17, 100, 1000, 32767, 32768, 32769, 40000}
	for si, c := range []string{"A", "B"} {
		n := rng.Intn(6)
		for j := 0; j < n; j++ {
			sz := sizes[rng.Intn(len(sizes))]
			if rng.Intn(4) != 0 {
				sz = sizes[rng.Intn(5)]
			}
			sc.Chunks[c] = append(sc.Chunks[c], pat(byte(si*100+j*11), sz))
		}
		sc.Fin[c] = vlib.Pick(rng, []string{"", "eof", "eof", "err"})
		if sc.Fin[c] == "err" && rng.Intn(3) != 0 {
			sc.Fin[c] = "err:" + vlib.Pick(rng, errKinds)
		}
	}
	if sc.Fin["A"] == "" && sc.Fin["B"] == "" && rng.Intn(3) != 0 {
		sc.Fin[vlib.Pick(rng, []string{"A", "B"})] = "eof"
	}
	for _, d := range []string{"ab", "ba"} {
		if rng.Intn(4) == 0 {
			sc.Fault[d] = fmt.Sprintf("%d:%s:%d", rng.Intn(4), vlib.Pick(rng, []string{"short", "err"}), rng.Intn(4))
			if strings.Contains(sc.Fault[d], ":err:") && rng.Intn(3) != 0 {
				sc.Fault[d] += ":" + vlib.Pick(rng, errKinds)
			}
		}
	}
	sc.Split = rng.Intn(3) == 0
	return sc
}

// randomRun: one random schedule of a random scenario (chooses uniformly among the enabled
// commands; now and then also a command that is not enabled, which must be a no-op).
func randomRun(r *vlib.Run, w *worker, rng *vlib.Rng, i int) {
	sc := randomScenario(rng, i)
	s := newRelayState()
	var full []string
	if !s.absorb("relay.new", w.h.call(newCmd(sc.Name))) {
		judgeRelay(r, w, sc.Name, s, full, false)
		return
	}
	leaf := false
	for len(full) < 300 {
		en := s.enabled(sc)
		if len(en) == 0 {
			leaf = true
			break
		}
		if len(s.oracle) > 0 {
			break
		}
		c := en[rng.Intn(len(en))]
		if rng.Intn(25) == 0 {
			// a Read grant while nothing can be read: must leave everything as it is
			for _, d := range []string{"ab", "ba"} {
				p := strings.Split(s.parked[d], ":")
				if p[0] == "rd" && !s.closed[p[1]] && s.inbox[p[1]] == 0 && s.fin[p[1]] == "" {
					c = "rd " + d + " 5"
				}
			}
		}
		full = append(full, c)
		if !s.absorb(c, w.h.call(c)) {
			break
		}
	}
	s.finish(leaf)
	endRelay(w, s)
	r.Count("relay.random.maxchunk", func() string {
		m := 0
		for _, c := range []string{"A", "B"} {
			for _, b := range sc.Chunks[c] {
				if len(b) > m {
					m = len(b)
				}
			}
		}
		switch {
		case m == 0:
			return "0"
		case m < 100:
			return "<100"
		case m <= 32768:
			return "<=32768"
		}
		return ">32768"
	}())
	judgeRelay(r, w, sc.Name, s, full, leaf)
}

// ---------------------------------------------------------------- main

// mixSeed decorrelates consecutive seeds (vlib.NewRng(n) and NewRng(n+1) yield the same
// splitmix64 stream shifted by one position).
func mixSeed(x uint64) uint64 {
	x ^= 0x6a09e667f3bcc909
	x = (x ^ (x >> 30)) * 0xBF58476D1CE4E5B9
	x = (x ^ (x >> 27)) * 0x94D049BB133111EB
	return x ^ (x >> 31)
}

func allHistories(maxLen int) [][]string {
	alpha := []string{"start", "finish", "int", "term"}
	out := [][]string{{}}
	var rec func(p []string)
	rec = func(p []string) {
		if len(p) == maxLen {
			return
		}
		for _, a := range alpha {
			q := append(append([]string(nil), p...), a)
			out = append(out, q)
			rec(q)
		}
	}
	rec(nil)
	return out
}

func parallel(ws []*worker, n int, f func(w *worker, i int)) {
	var wg sync.WaitGroup
	next := 0
	var mu sync.Mutex
	for _, w := range ws {
		wg.Add(1)
		go func(w *worker) {
			defer wg.Done()
			for {
				mu.Lock()
				i := next
				next++
				mu.Unlock()
				if i >= n {
					return
				}
				f(w, i)
			}
		}(w)
	}
	wg.Wait()
}

func main() {
	r := vlib.NewRun("C19")
	r.Rule = "termMonitor: every event history over {start, finish, SIGINT, SIGTERM} up to the tier's length, in three modes (wait(false), wait(true), main's wait(false)+wait(true)); non-trivial = the zero test after the shutdown request is exercised (count returns to 0 after the request, SIGINT with active handlers, or the idle shutdown). relay: every schedule of the listed small scripts plus random schedules of random scripts; non-trivial = a side ended AND bytes were forwarded or a Write failed. distinct by canonical command list"
	r.Assumptions = []string{
		"Go scheduler, channels/select, sync.WaitGroup and io.Copy behave as modelled; io.Copy's generic loop is exercised (the scripted conns implement neither WriterTo nor ReaderFrom)",
		"net.Conn contract: Read/Write fail after Close; Close completes a parked Read/Write only when the script grants it",
		"signals reach wait() only through sigChan (signal.Notify and the stdin/ppid watchers of newTermMonitor are not exercised)",
	}
	var err error
	if hookBin, err = buildHook(false); err != nil {
		fmt.Fprintln(os.Stderr, "C19: cannot build the hook driver:", err)
		os.Exit(3)
	}
	defer os.RemoveAll(filepath.Dir(hookBin))
	nw := 12
	var ws []*worker
	for i := 0; i < nw; i++ {
		ws = append(ws, &worker{h: startHook(hookBin, false), d: r.Driver("relay")})
	}
	defer func() {
		for _, w := range ws {
			w.h.close()
			w.d.Close()
		}
	}()
	finish := func() {
		for _, w := range ws {
			w.h.close()
			w.d.Close()
		}
		os.RemoveAll(filepath.Dir(hookBin))
		if hookRaceBin != "" {
			os.RemoveAll(filepath.Dir(hookRaceBin))
		}
		r.Finish()
	}

	if r.ReplayIn != "" {
		var raw map[string]interface{}
		if err := r.LoadReplay(&raw); err != nil {
			fmt.Fprintln(os.Stderr, "cannot load replay:", err)
			os.Exit(3)
		}
		switch raw["kind"] {
		case "term":
			var c termCase
			r.LoadReplay(&c)
			checkTerm(r, ws[0].h, ws[0].d, c, false)
		case "handler":
			var c handlerCase
			r.LoadReplay(&c)
			checkHandler(r, ws[0].h, c)
		case "gap":
			var c gapCase
			r.LoadReplay(&c)
			checkGap(r, ws[0].h, ws[0].d, c)
		case "tcp":
			var c tcpCase
			r.LoadReplay(&c)
			checkTCP(r, ws[0].h, c)
		case "relay":
			var c relayCase
			r.LoadReplay(&c)
			s, full, _, leaf := runRelay(ws[0], nil, c.Name, c.Cmds, c.Leaf)
			judgeRelay(r, ws[0], c.Name, s, full, leaf)
		}
		finish()
	}

	// corpus first
	if dir := os.Getenv("VERIF_DIR"); dir != "" {
		files, _ := filepath.Glob(filepath.Join(dir, "corpus", "C19", "*.json"))
		for _, f := range files {
			r.ReplayIn = f
			var raw map[string]interface{}
			if r.LoadReplay(&raw) != nil {
				continue
			}
			switch raw["kind"] {
			case "term":
				var c termCase
				r.LoadReplay(&c)
				checkTerm(r, ws[0].h, ws[0].d, c, false)
			case "handler":
				var c handlerCase
				r.LoadReplay(&c)
				checkHandler(r, ws[0].h, c)
			case "relay":
				var c relayCase
				r.LoadReplay(&c)
				s, full, _, leaf := runRelay(ws[0], nil, c.Name, c.Cmds, c.Leaf)
				judgeRelay(r, ws[0], c.Name, s, full, leaf)
			}
			r.Count("corpus", filepath.Base(f))
		}
		r.ReplayIn = ""
	}

	// 1. termMonitor: all histories
	maxLen := 5
	if r.Thorough() {
		maxLen = 6
	}
	hs := allHistories(maxLen)
	var tcases []termCase
	for _, m := range []string{"wait1", "main", "wait0"} {
		for _, h := range hs {
			tcases = append(tcases, termCase{Mode: m, Events: h})
		}
	}
	tPhase := time.Now()
	parallel(ws, len(tcases), func(w *worker, i int) { checkTerm(r, w.h, w.d, tcases[i], false) })
	if os.Getenv("C19_VERBOSE") != "" {
		fmt.Fprintf(os.Stderr, "C19: %d termMonitor cases in %.1fs\n", len(tcases), time.Since(tPhase).Seconds())
	}
	r.Notes["term_exhaustive_space"] = fmt.Sprintf("all %d histories of length 0..%d over {start,finish,int,term} x 3 modes", len(hs), maxLen)

	// 1b. events issued while the monitor is not parked in wait()
	gaps := gapHistories(map[bool]int{false: 6, true: 7}[r.Thorough()])
	parallel(ws, len(gaps), func(w *worker, i int) { checkGap(r, w.h, w.d, gapCase{Ops: gaps[i]}) })
	r.Notes["term_gap_histories"] = len(gaps)

	// 2. real clientHandler / serverHandler against the monitor
	var hcases []handlerCase
	for _, p := range [][2]string{{"client", "socksfail"}, {"client", "argsfail"}, {"client", "dialfail"}, {"client", "relay"}, {"server", "wrapfail"}, {"server", "orok"}} {
		for _, m := range []string{"idle", "held"} {
			hcases = append(hcases, handlerCase{Who: p[0], Path: p[1], Mode: m})
		}
	}
	hcases = append(hcases, handlerCase{Who: "client", Path: "hold", Mode: "hold"}, handlerCase{Who: "server", Path: "hold", Mode: "hold"})
	parallel(ws, len(hcases), func(w *worker, i int) { checkHandler(r, w.h, hcases[i]) })

	// 2b. real sockets: the real http proxy dialer's conn under copyLoop; serverHandler with a
	// slowly reading loopback ORPort
	parallel(ws, len(tcpCmds)*2, func(w *worker, i int) { checkTCP(r, w.h, tcpCase{Cmd: tcpCmds[i%len(tcpCmds)]}) })

	// 3. relay: all schedules of the small scripts
	exh := true
	total := 0
	for _, sc := range scenarios(r.Thorough()) {
		if only := os.Getenv("C19_ONLY"); only != "" && only != sc.Name {
			continue
		}
		t0 := time.Now()
		n, complete := exploreAll(r, ws, sc, r.Scale(40000, 2000000))
		if os.Getenv("C19_VERBOSE") != "" {
			fmt.Fprintf(os.Stderr, "C19: scenario %s: %d schedules, complete=%v, %.1fs\n", sc.Name, n, complete, time.Since(t0).Seconds())
		}
		r.Notes["relay_schedules_"+sc.Name] = n
		total += n
		if !complete {
			exh = false
			r.Notes["relay_incomplete_"+sc.Name] = true
		}
		if r.NumViolations() > 20 {
			break
		}
	}
	r.Exhaustive = exh
	r.Notes["relay_exhaustive_schedules"] = total

	// 4. relay: random schedules of random scripts
	nrand := r.Scale(1500, 12000)
	if os.Getenv("C19_ONLY") != "" {
		nrand = 0 // measuring one scenario
	}
	rngs := make([]*vlib.Rng, nrand)
	base := vlib.NewRng(mixSeed(r.Seed))
	for i := range rngs {
		rngs[i] = base.Fork()
	}
	tPhase = time.Now()
	parallel(ws, nrand, func(w *worker, i int) { randomRun(r, w, rngs[i], i) })
	if os.Getenv("C19_VERBOSE") != "" {
		fmt.Fprintf(os.Stderr, "C19: %d random relay schedules in %.1fs\n", nrand, time.Since(tPhase).Seconds())
	}

	// 5. thorough: the same random schedules once more on a -race build of the tree
	if r.Thorough() && os.Getenv("C19_ONLY") == "" {
		if hookRaceBin, err = buildHook(true); err != nil {
			r.Notes["race_build"] = "unavailable: " + strings.SplitN(err.Error(), "\n", 2)[0]
		} else {
			var rws []*worker
			for i := 0; i < 6; i++ {
				rws = append(rws, &worker{h: startHook(hookRaceBin, true), d: ws[i].d})
			}
			n := 3000
			rr := make([]*vlib.Rng, n)
			b2 := vlib.NewRng(mixSeed(r.Seed + 7777))
			for i := range rr {
				rr[i] = b2.Fork()
			}
			parallel(rws, n, func(w *worker, i int) { randomRun(r, w, rr[i], 1000000+i) })
			var rt []termCase
			for _, h := range allHistories(4) {
				rt = append(rt, termCase{Mode: "main", Events: h})
			}
			parallel(rws, len(rt), func(w *worker, i int) { checkTerm(r, w.h, w.d, rt[i], true) })
			races := 0
			for _, w := range rws {
				w.h.close()
				if out := w.h.stderr.String(); strings.Contains(out, "DATA RACE") {
					races++
					if i := strings.Index(out, "WARNING: DATA RACE"); i >= 0 {
						out = out[i:]
					}
					if len(out) > 1500 {
						out = out[:1500]
					}
					r.Violate("data-race", "impl-oracle", "the race detector reported a data race in copyLoop/termMonitor: "+out, map[string]interface{}{"kind": "race"})
				}
			}
			if os.Getenv("C19_VERBOSE") != "" {
				fmt.Fprintf(os.Stderr, "C19: race phase done at %.1fs\n", time.Since(tPhase).Seconds())
			}
			r.Notes["race_build"] = fmt.Sprintf("%d random relay schedules and %d termMonitor histories re-run on a -race build: %d race reports", n, len(rt), races)
		}
	}
	_ = hex.EncodeToString
	finish()
}
