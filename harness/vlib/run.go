package vlib

import (
	"crypto/sha256"
	"encoding/hex"
	"encoding/json"
	"flag"
	"fmt"
	"os"
	"path/filepath"
	"sort"
	"strconv"
	"sync"
	"time"
)

// Violation is one failing case found by the correspondence check (model and
// implementation disagree) or by the implementation-level oracle (the property
// itself fails on the real code).
type Violation struct {
	Signature string `json:"signature"` // short deterministic class, matched against KNOWN_FINDINGS.txt
	Kind      string `json:"kind"`      // "correspondence" | "impl-oracle"
	Desc      string `json:"desc"`
	Replay    string `json:"replay"` // path of the replay file
}

// Run collects what one harness run covered and what it found.
type Run struct {
	Prop      string
	Tier      string
	Seed      uint64
	Mode      string // "normal" | "search" (after a broken proof: concentrate on finding a failing input)
	DriverBin string
	OutPath   string
	ReplayIn  string
	ReplayDir string

	mu          sync.Mutex
	start       time.Time
	evaluations int
	validated   int
	distinct    map[[16]byte]struct{}
	samples     []interface{}
	dist        map[string]map[string]int
	violations  []Violation
	sigSeen     map[string]int
	Rule        string
	Exhaustive  bool
	Assumptions []string
	Notes       map[string]interface{}
}

// Thorough reports whether the thorough tier was requested.
func (r *Run) Thorough() bool { return r.Tier == "thorough" }

// Scale picks the case count for the tier.
func (r *Run) Scale(quick, thorough int) int {
	n := quick
	if r.Thorough() {
		n = thorough
	}
	if r.Mode == "search" {
		n *= 3
	}
	return n
}

func NewRun(prop string) *Run {
	r := &Run{Prop: prop, start: time.Now(), distinct: map[[16]byte]struct{}{},
		dist: map[string]map[string]int{}, sigSeen: map[string]int{}, Notes: map[string]interface{}{}}
	flag.StringVar(&r.Tier, "tier", "quick", "quick|thorough")
	flag.Uint64Var(&r.Seed, "seed", 1, "VERIF_SEED")
	flag.StringVar(&r.Mode, "mode", "normal", "normal|search")
	flag.StringVar(&r.DriverBin, "driver", "", "path of the Lean o4driver executable")
	flag.StringVar(&r.OutPath, "out", "", "result json")
	flag.StringVar(&r.ReplayIn, "replay", "", "replay file to re-execute")
	flag.StringVar(&r.ReplayDir, "replaydir", "", "directory for new replay files")
	flag.Parse()
	if s := os.Getenv("VERIF_SEED"); s != "" && !isFlagSet("seed") {
		if v, err := strconv.ParseUint(s, 10, 64); err == nil {
			r.Seed = v
		}
	}
	return r
}

func isFlagSet(name string) bool {
	set := false
	flag.Visit(func(f *flag.Flag) {
		if f.Name == name {
			set = true
		}
	})
	return set
}

// Driver starts the Lean model driver for one module.
func (r *Run) Driver(module string) *Driver {
	d, err := StartDriver(filepath.Join(r.DriverBin, "o4d_"+module), module)
	if err != nil {
		fmt.Fprintf(os.Stderr, "cannot start lean driver %s %s: %v\n", r.DriverBin, module, err)
		os.Exit(3)
	}
	return d
}

// Case records one evaluated case. key: canonical text of the case (for the distinct
// count); nontrivial: whether the case meets the property's non-triviality rule.
func (r *Run) Case(key string, nontrivial bool) {
	r.mu.Lock()
	defer r.mu.Unlock()
	r.evaluations++
	if nontrivial {
		h := sha256.Sum256([]byte(key))
		var k [16]byte
		copy(k[:], h[:16])
		r.distinct[k] = struct{}{}
	}
}

// Validated counts one model trace / output compared with the implementation.
func (r *Run) Validated(n int) {
	r.mu.Lock()
	r.validated += n
	r.mu.Unlock()
}

// Sample keeps up to max actual cases for the evidence file.
func (r *Run) Sample(max int, v interface{}) {
	r.mu.Lock()
	if len(r.samples) < max {
		r.samples = append(r.samples, v)
	}
	r.mu.Unlock()
}

// Count increments input_distribution[dim][class].
func (r *Run) Count(dim, class string) {
	r.mu.Lock()
	m := r.dist[dim]
	if m == nil {
		m = map[string]int{}
		r.dist[dim] = m
	}
	m[class]++
	r.mu.Unlock()
}

// Violate records a violation and writes its replay file. `replay` is the
// property-specific description of the failing case; it must be enough for
// `--replay` to re-execute it. At most 3 replay files are kept per signature.
func (r *Run) Violate(signature, kind, desc string, replay interface{}) {
	r.mu.Lock()
	defer r.mu.Unlock()
	r.sigSeen[signature]++
	if r.sigSeen[signature] > 3 {
		return
	}
	name := fmt.Sprintf("%s-%s-seed%d-%d.json", r.Prop, sanitize(signature), r.Seed, r.sigSeen[signature])
	path := filepath.Join(r.ReplayDir, name)
	doc := map[string]interface{}{
		"property": r.Prop, "kind": kind, "signature": signature, "seed": r.Seed,
		"tier": r.Tier, "desc": desc, "case": replay,
		"repro": fmt.Sprintf("./check %s --replay %s", r.Prop, path),
	}
	if r.ReplayDir != "" {
		os.MkdirAll(r.ReplayDir, 0o755)
		b, _ := json.MarshalIndent(doc, "", " ")
		os.WriteFile(path, b, 0o644)
	}
	r.violations = append(r.violations, Violation{Signature: signature, Kind: kind, Desc: desc, Replay: path})
}

func sanitize(s string) string {
	b := []byte(s)
	for i, c := range b {
		if !(c >= 'a' && c <= 'z' || c >= 'A' && c <= 'Z' || c >= '0' && c <= '9' || c == '-' || c == '_') {
			b[i] = '_'
		}
	}
	if len(b) > 60 {
		b = b[:60]
	}
	return string(b)
}

// NumViolations returns the number of distinct recorded violations so far.
func (r *Run) NumViolations() int {
	r.mu.Lock()
	defer r.mu.Unlock()
	return len(r.violations)
}

// LoadReplay reads the "case" member of a replay file into v.
func (r *Run) LoadReplay(v interface{}) error {
	b, err := os.ReadFile(r.ReplayIn)
	if err != nil {
		return err
	}
	var doc struct {
		Case json.RawMessage `json:"case"`
	}
	if err := json.Unmarshal(b, &doc); err != nil {
		return err
	}
	return json.Unmarshal(doc.Case, v)
}

// Finish writes the result file consumed by /verif/check and exits (0 always: the
// check script decides the exit status from the result, known findings included).
func (r *Run) Finish() {
	r.mu.Lock()
	defer r.mu.Unlock()
	dist := map[string]interface{}{}
	for k, m := range r.dist {
		keys := make([]string, 0, len(m))
		for c := range m {
			keys = append(keys, c)
		}
		sort.Strings(keys)
		om := map[string]int{}
		for _, c := range keys {
			om[c] = m[c]
		}
		dist[k] = om
	}
	res := map[string]interface{}{
		"property_id": r.Prop, "tier": r.Tier, "seed": r.Seed, "mode": r.Mode,
		"evaluations": r.evaluations, "distinct_nontrivial": len(r.distinct),
		"traces_validated_against_impl": r.validated,
		"rule": r.Rule, "samples": r.samples, "exhaustive": r.Exhaustive,
		"input_distribution": dist, "violations": r.violations,
		"assumptions": r.Assumptions, "notes": r.Notes,
		"harness_wall_s": time.Since(r.start).Seconds(),
	}
	if r.samples == nil {
		res["samples"] = []interface{}{}
	}
	if r.violations == nil {
		res["violations"] = []Violation{}
	}
	b, _ := json.MarshalIndent(res, "", " ")
	if r.OutPath == "" {
		os.Stdout.Write(b)
	} else if err := os.WriteFile(r.OutPath, b, 0o644); err != nil {
		fmt.Fprintln(os.Stderr, "cannot write result:", err)
		os.Exit(3)
	}
	os.Exit(0)
}

// Hex is lower-case hex with "-" for the empty string (the line protocol's convention).
func Hex(b []byte) string {
	if len(b) == 0 {
		return "-"
	}
	return hex.EncodeToString(b)
}

// UnHex inverts Hex.
func UnHex(s string) []byte {
	if s == "-" || s == "" {
		return nil
	}
	b, err := hex.DecodeString(s)
	if err != nil {
		panic("bad hex from driver: " + s)
	}
	return b
}
