package vlib

import (
	cryptRand "crypto/rand"
	"sync"
)

// RandTape replaces crypto/rand.Reader by a deterministic flat byte stream (independent
// of read sizes) and records what was consumed, so that the Lean model can be handed
// exactly the bytes the implementation drew during an operation.
//
// Callers must also assign csrand.Reader (it copies crypto/rand.Reader at init):
//
//	tape := vlib.InstallRandTape(seed); csrand.Reader = tape
type RandTape struct {
	mu   sync.Mutex
	rng  *Rng
	buf  []byte // generated, not yet consumed
	tape []byte // everything consumed so far
	// Steer, when non-nil, supplies the next bytes instead of the PRNG (used to force
	// particular samples); consumed first.
	Steer []byte
}

func InstallRandTape(seed uint64) *RandTape {
	t := &RandTape{rng: NewRng(seed ^ 0xC0FFEE)}
	cryptRand.Reader = t
	return t
}

func (t *RandTape) Read(p []byte) (int, error) {
	t.mu.Lock()
	defer t.mu.Unlock()
	for i := range p {
		if len(t.Steer) > 0 {
			p[i] = t.Steer[0]
			t.Steer = t.Steer[1:]
		} else {
			if len(t.buf) == 0 {
				t.buf = t.rng.Bytes(64)
			}
			p[i] = t.buf[0]
			t.buf = t.buf[1:]
		}
	}
	t.tape = append(t.tape, p...)
	return len(p), nil
}

// Mark returns the current position of the tape.
func (t *RandTape) Mark() int {
	t.mu.Lock()
	defer t.mu.Unlock()
	return len(t.tape)
}

// Since returns the bytes consumed since mark.
func (t *RandTape) Since(mark int) []byte {
	t.mu.Lock()
	defer t.mu.Unlock()
	return append([]byte(nil), t.tape[mark:]...)
}

// Reset drops the recorded tape (keeps the stream position).
func (t *RandTape) Reset() {
	t.mu.Lock()
	t.tape = nil
	t.mu.Unlock()
}
