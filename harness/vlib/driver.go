package vlib

import (
	"bufio"
	"fmt"
	"io"
	"os"
	"os/exec"
	"strings"
)

// Driver is a running Lean model driver (`o4driver <module>`): one request line in,
// one reply line out.
type Driver struct {
	cmd   *exec.Cmd
	in    io.WriteCloser
	out   *bufio.Reader
	Calls int
	Log   []string // last lines exchanged (ring, for replay files)
}

func StartDriver(path string, module string) (*Driver, error) {
	cmd := exec.Command(path, module)
	in, err := cmd.StdinPipe()
	if err != nil {
		return nil, err
	}
	out, err := cmd.StdoutPipe()
	if err != nil {
		return nil, err
	}
	cmd.Stderr = os.Stderr
	if err := cmd.Start(); err != nil {
		return nil, err
	}
	return &Driver{cmd: cmd, in: in, out: bufio.NewReaderSize(out, 1<<20)}, nil
}

// Call sends one op line and returns the model's reply line.
func (d *Driver) Call(format string, args ...interface{}) string {
	line := fmt.Sprintf(format, args...)
	if strings.ContainsAny(line, "\n\r") {
		panic("driver op contains newline: " + line)
	}
	if _, err := io.WriteString(d.in, line+"\n"); err != nil {
		return "driver-error: write: " + err.Error()
	}
	rep, err := d.out.ReadString('\n')
	if err != nil {
		return "driver-error: read: " + err.Error()
	}
	d.Calls++
	return strings.TrimRight(rep, "\n")
}

func (d *Driver) Close() {
	d.in.Close()
	d.cmd.Wait()
}
