package vlib

import (
	"errors"
	"fmt"
	"io"
	"net"
	"sync"
	"time"
)

// TimeoutError is the error a ScriptConn returns when a (virtual) deadline fires.
type TimeoutError struct{}

func (TimeoutError) Error() string   { return "i/o timeout" }
func (TimeoutError) Timeout() bool   { return true }
func (TimeoutError) Temporary() bool { return true }

// ConnEvent is one externally visible action of the endpoint on its net.Conn.
type ConnEvent struct {
	Kind string        // "write" | "close" | "deadline" | "rdeadline" | "wdeadline" | "timeout"
	N    int           // bytes for write
	Off  time.Duration // deadline value relative to the conn's creation (0 = cleared) / time of the event for close
	At   time.Duration // wall time of the event relative to the conn's creation
}

func (e ConnEvent) String() string {
	switch e.Kind {
	case "write":
		return fmt.Sprintf("write(%d)", e.N)
	case "close":
		return "close"
	case "timeout":
		return fmt.Sprintf("timeout(+%.0fs)", e.Off.Seconds())
	default:
		if e.Off == 0 {
			return e.Kind + "(clear)"
		}
		return fmt.Sprintf("%s(+%.3fs)", e.Kind, e.Off.Seconds())
	}
}

// ScriptConn is an in-memory net.Conn whose peer is the harness: the harness decides
// what every Read returns (chunk by chunk), sees every Write, records deadlines and can
// observe that the endpoint is *blocked* in Read with nothing to read (instead of
// inferring a stall from a timeout).
type ScriptConn struct {
	mu      sync.Mutex
	cond    *sync.Cond
	inq     [][]byte
	inErr   error // returned by Read once inq is empty (nil = block)
	closed  bool
	waiting int // Reads currently blocked with nothing to return
	Created time.Time

	// lastChunk, when non-nil, is handed out after inq by the Read that also returns inErr
	// (a net.Conn may return n > 0 together with an error); set by FeedWithErr only
	lastChunk []byte

	writes   [][]byte
	WriteErr error // if set, Writes fail with it
	MaxRead  int   // if > 0, cap on bytes returned per Read
	Events   []ConnEvent
	rdl      time.Time
	// FireDeadlines: when a Read would block and a read deadline is armed, return a
	// timeout error at once (virtual time) instead of blocking.
	FireDeadlines bool
	OnWrite       func(b []byte) // optional tap, called with the conn lock released
	opsDone       int
}

func NewScriptConn() *ScriptConn {
	c := &ScriptConn{Created: time.Now()}
	c.cond = sync.NewCond(&c.mu)
	return c
}

func (c *ScriptConn) ev(e ConnEvent) {
	e.At = time.Since(c.Created)
	c.Events = append(c.Events, e)
}

func (c *ScriptConn) Read(b []byte) (int, error) {
	c.mu.Lock()
	defer c.mu.Unlock()
	for {
		if c.closed {
			return 0, net.ErrClosed
		}
		if len(c.inq) > 0 {
			if len(b) == 0 {
				return 0, nil
			}
			lim := len(b)
			if c.MaxRead > 0 && lim > c.MaxRead {
				lim = c.MaxRead
			}
			n := copy(b[:lim], c.inq[0])
			if n < len(c.inq[0]) {
				c.inq[0] = c.inq[0][n:]
			} else {
				c.inq = c.inq[1:]
			}
			return n, nil
		}
		if c.lastChunk != nil {
			// FeedWithErr: the final chunk is returned TOGETHER with the error by one Read
			// (if the caller's buffer is too small, the part that fits comes first, alone)
			lim := len(b)
			if c.MaxRead > 0 && lim > c.MaxRead {
				lim = c.MaxRead
			}
			n := copy(b[:lim], c.lastChunk)
			if n < len(c.lastChunk) {
				c.lastChunk = c.lastChunk[n:]
				return n, nil
			}
			c.lastChunk = nil
			return n, c.inErr
		}
		if c.inErr != nil {
			return 0, c.inErr
		}
		if c.FireDeadlines && !c.rdl.IsZero() {
			c.ev(ConnEvent{Kind: "timeout", Off: c.rdl.Sub(c.Created)})
			return 0, TimeoutError{}
		}
		c.waiting++
		c.cond.Broadcast()
		c.cond.Wait()
		c.waiting--
	}
}

func (c *ScriptConn) Write(b []byte) (int, error) {
	c.mu.Lock()
	if c.closed {
		c.mu.Unlock()
		return 0, net.ErrClosed
	}
	if c.WriteErr != nil {
		err := c.WriteErr
		c.mu.Unlock()
		return 0, err
	}
	cp := append([]byte(nil), b...)
	c.writes = append(c.writes, cp)
	c.ev(ConnEvent{Kind: "write", N: len(b)})
	tap := c.OnWrite
	c.mu.Unlock()
	if tap != nil {
		tap(cp)
	}
	return len(b), nil
}

func (c *ScriptConn) Close() error {
	c.mu.Lock()
	defer c.mu.Unlock()
	if c.closed {
		return errors.New("close of closed connection")
	}
	c.closed = true
	c.ev(ConnEvent{Kind: "close"})
	c.cond.Broadcast()
	return nil
}

func (c *ScriptConn) rel(t time.Time) time.Duration {
	if t.IsZero() {
		return 0
	}
	return t.Sub(c.Created)
}

func (c *ScriptConn) SetDeadline(t time.Time) error {
	c.mu.Lock()
	defer c.mu.Unlock()
	c.rdl = t
	c.ev(ConnEvent{Kind: "deadline", Off: c.rel(t)})
	return nil
}

func (c *ScriptConn) SetReadDeadline(t time.Time) error {
	c.mu.Lock()
	defer c.mu.Unlock()
	c.rdl = t
	c.ev(ConnEvent{Kind: "rdeadline", Off: c.rel(t)})
	return nil
}

func (c *ScriptConn) SetWriteDeadline(t time.Time) error {
	c.mu.Lock()
	defer c.mu.Unlock()
	c.ev(ConnEvent{Kind: "wdeadline", Off: c.rel(t)})
	return nil
}

func (c *ScriptConn) LocalAddr() net.Addr  { return &net.TCPAddr{IP: net.IPv4(127, 0, 0, 1), Port: 1} }
func (c *ScriptConn) RemoteAddr() net.Addr { return &net.TCPAddr{IP: net.IPv4(127, 0, 0, 1), Port: 2} }

// ---- harness side

// Feed queues one chunk: it is returned by one Read (or several, if the Read buffers are smaller).
func (c *ScriptConn) Feed(chunk []byte) {
	if len(chunk) == 0 {
		return
	}
	c.mu.Lock()
	c.inq = append(c.inq, append([]byte(nil), chunk...))
	c.cond.Broadcast()
	c.mu.Unlock()
}

// FeedChunks splits data at the given sizes (the rest in one chunk) and queues the chunks.
func (c *ScriptConn) FeedChunks(data []byte, sizes []int) {
	for _, n := range sizes {
		if n <= 0 {
			continue
		}
		if n > len(data) {
			n = len(data)
		}
		c.Feed(data[:n])
		data = data[n:]
	}
	c.Feed(data)
}

// FeedErr makes Read return err (io.EOF, a reset, ...) once the queued data is consumed.
func (c *ScriptConn) FeedErr(err error) {
	c.mu.Lock()
	c.inErr = err
	c.cond.Broadcast()
	c.mu.Unlock()
}

// FeedWithErr queues a final chunk that ONE Read returns together with err (n > 0 and a
// non-nil error from the same call, which io.Reader permits: e.g. the last segment plus io.EOF).
// Later Reads return (0, err). An empty chunk is FeedErr(err).
func (c *ScriptConn) FeedWithErr(chunk []byte, err error) {
	c.mu.Lock()
	if len(chunk) > 0 {
		c.lastChunk = append([]byte(nil), chunk...)
	}
	c.inErr = err
	c.cond.Broadcast()
	c.mu.Unlock()
}

// FeedEOF is FeedErr(io.EOF).
func (c *ScriptConn) FeedEOF() { c.FeedErr(io.EOF) }

// Pending returns the number of queued, not yet read bytes.
func (c *ScriptConn) Pending() int {
	c.mu.Lock()
	defer c.mu.Unlock()
	n := 0
	for _, q := range c.inq {
		n += len(q)
	}
	return n
}

// TakeWrites returns and forgets the Write calls seen so far.
func (c *ScriptConn) TakeWrites() [][]byte {
	c.mu.Lock()
	defer c.mu.Unlock()
	w := c.writes
	c.writes = nil
	return w
}

// TakeWritten returns the concatenation of TakeWrites.
func (c *ScriptConn) TakeWritten() []byte {
	var out []byte
	for _, w := range c.TakeWrites() {
		out = append(out, w...)
	}
	return out
}

// Closed reports whether the endpoint closed the conn.
func (c *ScriptConn) Closed() bool {
	c.mu.Lock()
	defer c.mu.Unlock()
	return c.closed
}

// EventsCopy returns the events recorded so far.
func (c *ScriptConn) EventsCopy() []ConnEvent {
	c.mu.Lock()
	defer c.mu.Unlock()
	return append([]ConnEvent(nil), c.Events...)
}

// Op is an endpoint call running in its own goroutine.
type Op struct {
	done  chan struct{}
	Panic interface{} // recovered panic value, if the call panicked
}

// Start runs f (a call into the endpoint that may block in Read on this conn).
func (c *ScriptConn) Start(f func()) *Op {
	op := &Op{done: make(chan struct{})}
	go func() {
		defer func() {
			if p := recover(); p != nil {
				op.Panic = p
			}
			close(op.done)
			c.mu.Lock()
			c.opsDone++
			c.cond.Broadcast()
			c.mu.Unlock()
		}()
		f()
	}()
	return op
}

// Wait returns true when op has finished, false when the endpoint is blocked in Read
// with nothing left to read (quiescent). It never guesses from elapsed time, except for a
// generous safety timeout (returns false, stuck=true) for endpoints that block elsewhere.
func (c *ScriptConn) Wait(op *Op) (finished bool) {
	f, _ := c.WaitT(op, 30*time.Second)
	return f
}

func (c *ScriptConn) WaitT(op *Op, limit time.Duration) (finished bool, stuck bool) {
	// The deadline is fixed first and a ticker keeps nudging the waiter, so that the wake-up
	// that ends the wait cannot be lost (a single timer created before the deadline was
	// computed could fire a moment too early and leave the waiter asleep for ever).
	deadline := time.Now().Add(limit)
	stop := make(chan struct{})
	defer close(stop)
	go func() {
		t := time.NewTicker(50 * time.Millisecond)
		defer t.Stop()
		for {
			select {
			case <-stop:
				return
			case <-t.C:
				c.mu.Lock()
				c.cond.Broadcast()
				c.mu.Unlock()
			}
		}
	}()
	c.mu.Lock()
	defer c.mu.Unlock()
	for {
		select {
		case <-op.done:
			return true, false
		default:
		}
		if c.waiting > 0 && len(c.inq) == 0 && c.inErr == nil && !c.closed {
			return false, false
		}
		if time.Now().After(deadline) {
			return false, true
		}
		c.cond.Wait()
	}
}

// Done reports whether op has finished (non-blocking).
func (op *Op) Done() bool {
	select {
	case <-op.done:
		return true
	default:
		return false
	}
}

// Pipe connects two ScriptConns through the harness: whatever a writes can be moved to
// b's read queue in chunks chosen by the harness (and vice versa).
func Move(from, to *ScriptConn, sizes []int) int {
	data := from.TakeWritten()
	to.FeedChunks(data, sizes)
	return len(data)
}
