// Package vlib: shared pieces of the Go side of the correspondence checks.
package vlib

// Rng is splitmix64: every random choice of a generator derives from one state
// seeded with VERIF_SEED so that a disagreement replays exactly.
type Rng struct{ s uint64 }

func NewRng(seed uint64) *Rng {
	// hash the seed first: with a plain affine start NewRng(n+1) would be NewRng(n) advanced
	// by one step, i.e. neighbouring VERIF_SEEDs would explore almost the same cases.
	z := seed + 0x1234567
	z = (z ^ (z >> 30)) * 0xBF58476D1CE4E5B9
	z = (z ^ (z >> 27)) * 0x94D049BB133111EB
	z ^= z >> 31
	return &Rng{s: z * 0x9E3779B97F4A7C15}
}

func (r *Rng) U64() uint64 {
	r.s += 0x9E3779B97F4A7C15
	z := r.s
	z = (z ^ (z >> 30)) * 0xBF58476D1CE4E5B9
	z = (z ^ (z >> 27)) * 0x94D049BB133111EB
	return z ^ (z >> 31)
}

// Intn returns a value in [0,n).
func (r *Rng) Intn(n int) int {
	if n <= 0 {
		return 0
	}
	return int(r.U64() % uint64(n))
}

// Range returns a value in [lo,hi].
func (r *Rng) Range(lo, hi int) int { return lo + r.Intn(hi-lo+1) }

func (r *Rng) Bool() bool { return r.U64()&1 == 1 }

func (r *Rng) Bytes(n int) []byte {
	b := make([]byte, n)
	for i := 0; i < n; i += 8 {
		v := r.U64()
		for j := 0; j < 8 && i+j < n; j++ {
			b[i+j] = byte(v >> (8 * j))
		}
	}
	return b
}

// Pick returns one of the choices.
func Pick[T any](r *Rng, xs []T) T { return xs[r.Intn(len(xs))] }

// Fork derives an independent generator (for sub-cases) without disturbing the parent sequence much.
func (r *Rng) Fork() *Rng { return &Rng{s: r.U64()} }

// Read implements io.Reader: a deterministic byte stream (used to replace crypto/rand.Reader).
func (r *Rng) Read(p []byte) (int, error) {
	copy(p, r.Bytes(len(p)))
	return len(p), nil
}
