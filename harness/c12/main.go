// C12 — seeded distributions and generator: Go implementation (common/drbg, common/probdist,
// common/csrand) vs the Lean model (driver `dist`), plus an implementation-level oracle written
// from the property text: determinism, range, exact reconstruction of the probabilities from
// the alias tables, SipHash-2-4 over the accumulated input, inclusive/exclusive helper ranges.
package main

import (
	"encoding/binary"
	"encoding/hex"
	"fmt"
	"math"
	"math/bits"
	"sort"
	"strconv"
	"strings"
	"sync"
	"sync/atomic"

	"github.com/dchest/siphash"

	"gitlab.com/yawning/obfs4.git/common/csrand"
	"gitlab.com/yawning/obfs4.git/common/drbg"
	"gitlab.com/yawning/obfs4.git/common/probdist"

	"verif/harness/vlib"
)

// ccase is one replayable case; Op selects the sub-check.
type ccase struct {
	Op     string `json:"op"` // sip | drbg | table | sample | intn | intrange | float64 | rangecover
	Seed   string `json:"seed,omitempty"`
	Seed2  string `json:"seed2,omitempty"` // concurrent: the second (tiny-table) seed
	Hist   []hstep `json:"hist,omitempty"` // history: a sequence of New / Reset calls in one process
	Min    int64  `json:"min,omitempty"`
	Max    int64  `json:"max,omitempty"`
	Biased bool   `json:"biased,omitempty"`
	N      int64  `json:"n,omitempty"`
	Tape   string `json:"tape,omitempty"` // bytes the rand tape is steered with (hex)
	Key    string `json:"key,omitempty"`
	Msg    string `json:"msg,omitempty"`
}

// hstep is one step of a history: New(seed, min, max, biased), or Reset(seed) on the live
// instance that was created earlier in the history with the same (min, max, biased).
type hstep struct {
	Seed   string `json:"seed"`
	Min    int64  `json:"min"`
	Max    int64  `json:"max"`
	Biased bool   `json:"biased"`
	Reset  bool   `json:"reset,omitempty"`
	// Alias: the call is handed the history's ONE shared *drbg.Seed object, overwritten in place
	// with this step's seed value (instead of a fresh Seed object)
	Alias bool `json:"alias,omitempty"`
	// Scribble: after the call the Seed object that was passed is overwritten with garbage
	Scribble bool `json:"scribble,omitempty"`
}

func (c ccase) key() string {
	if c.Op == "history" {
		return fmt.Sprintf("history|%+v", c.Hist)
	}
	return fmt.Sprintf("%s|%s%s|%d|%d|%v|%d|%s|%s|%s", c.Op, c.Seed, c.Seed2, c.Min, c.Max, c.Biased, c.N, c.Tape, c.Key, c.Msg)
}

var tape *vlib.RandTape
var tapeMu sync.Mutex // the rand tape is process-global: tape-driven cases run one at a time

func bitsHex(x float64) string { return fmt.Sprintf("%016x", math.Float64bits(x)) }

func joinInts(xs []int) string {
	if len(xs) == 0 {
		return "-"
	}
	s := make([]string, len(xs))
	for i, x := range xs {
		s[i] = strconv.Itoa(x)
	}
	return strings.Join(s, ",")
}

func joinFloats(xs []float64) string {
	if len(xs) == 0 {
		return "-"
	}
	s := make([]string, len(xs))
	for i, x := range xs {
		s[i] = bitsHex(x)
	}
	return strings.Join(s, ",")
}

func mustSeed(h string) *drbg.Seed {
	s, err := drbg.SeedFromHex(h)
	if err != nil {
		panic(err)
	}
	return s
}

// protect runs f and reports a panic as a string.
func protect(f func()) (pan string) {
	defer func() {
		if p := recover(); p != nil {
			pan = fmt.Sprint(p)
		}
	}()
	f()
	return ""
}

// ---------------------------------------------------------------- SipHash / DRBG

func checkSip(r *vlib.Run, d *vlib.Driver, c ccase) {
	key, _ := hex.DecodeString(c.Key)
	msg := vlib.UnHex(c.Msg)
	k0 := binary.LittleEndian.Uint64(key[:8])
	k1 := binary.LittleEndian.Uint64(key[8:])
	h := siphash.New(key)
	h.Write(msg)
	impl := vlib.Hex(h.Sum(nil))
	var one [8]byte
	binary.LittleEndian.PutUint64(one[:], siphash.Hash(k0, k1, msg))
	rep := d.Call("sip %s %s", c.Key, vlib.Hex(msg))
	r.Case(c.key(), len(msg) > 8 && len(msg)%8 != 0)
	r.Validated(1)
	r.Count("sip-msg-len-mod8", strconv.Itoa(len(msg)%8))
	if impl != vlib.Hex(one[:]) {
		r.Violate("siphash-streaming-differs-from-oneshot", "impl-oracle", "siphash.New/Write/Sum != siphash.Hash for "+c.Msg, c)
	}
	if rep != impl {
		r.Violate("siphash-model-impl-disagree", "correspondence", fmt.Sprintf("key %s msg %s: library %s, Lean model %s", c.Key, c.Msg, impl, rep), c)
	}
}

func checkDrbg(r *vlib.Run, d *vlib.Driver, c ccase) {
	seed := mustSeed(c.Seed)
	n := int(c.N)
	r.Case(c.key(), n >= 3)
	g1, _ := drbg.NewHashDrbg(seed)
	g2, _ := drbg.NewHashDrbg(seed)
	g3, _ := drbg.NewHashDrbg(seed)
	var blocks []byte
	var ints []string
	// S oracle: SipHash-2-4 in OFB mode *as deployed*: block n = SipHash(K, IV || out_1 .. out_{n-1})
	sb := seed.Bytes()
	k0 := binary.LittleEndian.Uint64(sb[0:8])
	k1 := binary.LittleEndian.Uint64(sb[8:16])
	acc := append([]byte(nil), sb[16:24]...)
	for i := 0; i < n; i++ {
		b := g1.NextBlock()
		blocks = append(blocks, b...)
		v := g2.Int63()
		ints = append(ints, strconv.FormatInt(v, 10))
		b3 := g3.NextBlock()
		if string(b3) != string(b) {
			r.Violate("drbg-not-deterministic", "impl-oracle", fmt.Sprintf("seed %s: block %d differs between two generators", c.Seed, i), c)
			return
		}
		var want [8]byte
		binary.LittleEndian.PutUint64(want[:], siphash.Hash(k0, k1, acc))
		if string(want[:]) != string(b) {
			r.Violate("drbg-block-is-not-siphash-over-accumulated-input", "impl-oracle",
				fmt.Sprintf("seed %s: block %d is %x, SipHash-2-4(K, IV||out_1..out_%d) is %x", c.Seed, i+1, b, i, want), c)
			return
		}
		acc = append(acc, b...)
		if v < 0 || uint64(v) != binary.BigEndian.Uint64(b)&(1<<63-1) {
			r.Violate("drbg-int63-not-masked-block", "impl-oracle", fmt.Sprintf("seed %s: Int63 #%d = %d, block %x", c.Seed, i+1, v, b), c)
			return
		}
	}
	// S: returned blocks belong to the caller. (a) blocks retained across later draws keep their
	// value; (b) scribbling over a returned block does not change what the generator returns
	// afterwards (the stream is a function of the seed alone). Mixed NextBlock / Int63 draws.
	g4, _ := drbg.NewHashDrbg(seed)
	var kept [][]byte
	for i := 0; i < n; i++ {
		if i%3 == 2 {
			v := g4.Int63()
			var w [8]byte
			binary.BigEndian.PutUint64(w[:], uint64(v))
			want := append([]byte(nil), blocks[8*i:8*i+8]...)
			want[0] &= 0x7f
			if string(w[:]) != string(want) {
				r.Violate("drbg-output-depends-on-caller-writes", "impl-oracle",
					fmt.Sprintf("seed %s: after the caller overwrote returned blocks, draw #%d is %x, SipHash-OFB gives %x", c.Seed, i+1, w, want), c)
				return
			}
			kept = append(kept, nil)
			continue
		}
		b := g4.NextBlock()
		if string(b) != string(blocks[8*i:8*i+8]) {
			r.Violate("drbg-output-depends-on-caller-writes", "impl-oracle",
				fmt.Sprintf("seed %s: after the caller overwrote returned blocks, block %d is %x, SipHash-OFB gives %x", c.Seed, i+1, b, blocks[8*i:8*i+8]), c)
			return
		}
		kept = append(kept, b)
		if i%2 == 0 {
			for j := range b { // the caller owns the returned slice
				b[j] ^= 0xa5
			}
		}
	}
	for i, b := range kept {
		if b == nil {
			continue
		}
		want := append([]byte(nil), blocks[8*i:8*i+8]...)
		if i%2 == 0 {
			for j := range want {
				want[j] ^= 0xa5
			}
		}
		if string(b) != string(want) {
			r.Violate("drbg-returned-block-changes-after-later-draws", "impl-oracle",
				fmt.Sprintf("seed %s: block %d retained by the caller was %x when returned and reads %x after %d later draws", c.Seed, i+1, want, b, n-1-i), c)
			return
		}
	}
	g5, _ := drbg.NewHashDrbg(seed)
	var kept5 [][]byte
	for i := 0; i < n; i++ {
		kept5 = append(kept5, g5.NextBlock())
	}
	var late []byte
	for _, b := range kept5 {
		late = append(late, b...)
	}
	rep1 := d.Call("drbg.blocks %s %d", c.Seed, n)
	rep2 := d.Call("drbg.int63s %s %d", c.Seed, n)
	if rep1 == vlib.Hex(blocks) && vlib.Hex(late) != rep1 {
		r.Violate("drbg-returned-block-changes-after-later-draws", "impl-oracle",
			fmt.Sprintf("seed %s: %d blocks collected first and read afterwards are %s, the generator's stream is %s", c.Seed, n, vlib.Hex(late), rep1), c)
		return
	}
	r.Validated(2)
	r.Count("drbg-blocks", strconv.Itoa(n))
	r.Sample(2, map[string]interface{}{"op": "drbg.blocks", "seed": c.Seed, "n": n, "impl": vlib.Hex(blocks), "model": rep1})
	if rep1 != vlib.Hex(blocks) {
		r.Violate("drbg-model-impl-disagree", "correspondence", fmt.Sprintf("seed %s, %d blocks: impl %s, Lean model %s", c.Seed, n, vlib.Hex(blocks), rep1), c)
	}
	want2 := "-"
	if n > 0 {
		want2 = strings.Join(ints, ",")
	}
	if rep2 != want2 {
		r.Violate("drbg-int63-model-impl-disagree", "correspondence", fmt.Sprintf("seed %s: impl %s, Lean model %s", c.Seed, want2, rep2), c)
	}
}

// safeNew is probdist.New with a panic turned into a string.
func safeNew(seed *drbg.Seed, min, max int64, biased bool) (w *probdist.WeightedDist, pan string) {
	pan = protect(func() { w = probdist.New(seed, int(min), int(max), biased) })
	return
}

// ---------------------------------------------------------------- tables

type tables struct {
	values  []int
	weights []float64
	alias   []int
	prob    []float64
}

func (t tables) String() string {
	return "ok " + joinInts(t.values) + " " + joinFloats(t.weights) + " " + joinInts(t.alias) + " " + joinFloats(t.prob)
}

func getTables(w *probdist.WeightedDist) tables {
	v, ws, a, p := probdist.VerifTables(w)
	return tables{v, ws, a, p}
}

// tableOracle: the property read on the implementation's tables alone. Returns signature, text.
func tableOracle(t tables, min, max int64) (string, string) {
	n := len(t.values)
	if n < 1 || n > 100 {
		return "table-size-out-of-range", fmt.Sprintf("%d values", n)
	}
	if len(t.weights) != n || len(t.alias) != n || len(t.prob) != n {
		return "table-lengths-differ", fmt.Sprintf("values %d weights %d alias %d prob %d", n, len(t.weights), len(t.alias), len(t.prob))
	}
	seen := map[int]bool{}
	for i, v := range t.values {
		if v < 0 || int64(v) > max-min {
			return "value-out-of-range", fmt.Sprintf("values[%d] = %d, so a sample %d is outside [%d, %d]", i, v, min+int64(v), min, max)
		}
		if seen[v] {
			return "value-repeated", fmt.Sprintf("values[%d] = %d occurs twice (not a prefix of a permutation)", i, v)
		}
		seen[v] = true
	}
	sum := 0.0
	for i, w := range t.weights {
		if !(w >= 0) || math.IsInf(w, 0) {
			return "weight-negative-or-nan", fmt.Sprintf("weights[%d] = %v", i, w)
		}
		sum += w
	}
	if !(sum > 0) {
		return "", "" // weights summing to 0 are excluded by hypothesis (probability ~2^-53 per weight)
	}
	mass := make([]float64, n)
	for i := 0; i < n; i++ {
		if !(t.prob[i] >= 0 && t.prob[i] <= 1) {
			return "prob-outside-unit-interval", fmt.Sprintf("prob[%d] = %v", i, t.prob[i])
		}
		if t.alias[i] < 0 || t.alias[i] >= n {
			return "alias-out-of-range", fmt.Sprintf("alias[%d] = %d, n = %d", i, t.alias[i], n)
		}
		mass[i] += t.prob[i]
		mass[t.alias[i]] += 1 - t.prob[i]
	}
	for i := 0; i < n; i++ {
		got := mass[i] / float64(n)
		want := t.weights[i] / sum
		if math.Abs(got-want) > 1e-9 {
			return "reconstructed-probability-differs-from-weight", fmt.Sprintf("index %d (value %d): alias tables give probability %.12g, normalised weight is %.12g (n=%d)", i, t.values[i], got, want, n)
		}
	}
	return "", ""
}

func checkTable(r *vlib.Run, d *vlib.Driver, c ccase) {
	seed := mustSeed(c.Seed)
	var w *probdist.WeightedDist
	if p := protect(func() { w = probdist.New(seed, int(c.Min), int(c.Max), c.Biased) }); p != "" {
		r.Case(c.key(), false)
		rep := d.Call("pd.new %s %d %d %d", c.Seed, c.Min, c.Max, b2i(c.Biased))
		if c.Max > c.Min {
			r.Violate("new-panics", "impl-oracle", fmt.Sprintf("probdist.New(%s, %d, %d, %v) panicked: %s", c.Seed, c.Min, c.Max, c.Biased, p), c)
		} else if rep != "panic" {
			r.Violate("table-model-impl-disagree", "correspondence", fmt.Sprintf("New(%d,%d) panics (%s), Lean model: %s", c.Min, c.Max, p, rep), c)
		}
		return
	}
	t := getTables(w)
	impl := t.String()
	rep := d.Call("pd.new %s %d %d %d", c.Seed, c.Min, c.Max, b2i(c.Biased))
	n := len(t.values)
	hasAlias := false
	for i := range t.prob {
		if t.prob[i] < 1 {
			hasAlias = true
		}
	}
	r.Case(c.key(), n >= 2 && hasAlias)
	r.Validated(1)
	r.Count("bounds", fmt.Sprintf("%d..%d", c.Min, c.Max))
	r.Count("biased", fmt.Sprint(c.Biased))
	r.Count("table-size", sizeClass(n))
	zero := false
	for _, v := range t.values {
		if int64(v)+c.Min == 0 {
			zero = true
		}
	}
	if zero {
		r.Count("table", "contains-0")
	}
	r.Sample(3, map[string]interface{}{"op": fmt.Sprintf("pd.new %s %d %d %v", c.Seed, c.Min, c.Max, c.Biased), "n": n,
		"values": clip(joinInts(t.values), 120), "impl_eq_model": rep == impl})

	// S: determinism — a second construction and a Reset of a differently seeded object
	w2, p2 := safeNew(seed, c.Min, c.Max, c.Biased)
	var other drbg.Seed
	copy(other[:], []byte("a completely different seed....."))
	w3, p3 := safeNew(&other, c.Min, c.Max, c.Biased)
	if p2 == "" && p3 == "" {
		p3 = protect(func() { w3.Reset(seed) })
	}
	if p2 != "" || p3 != "" {
		r.Violate("new-panics", "impl-oracle", fmt.Sprintf("probdist.New/Reset(%d, %d, %v) panicked: %s%s", c.Min, c.Max, c.Biased, p2, p3), c)
		return
	}
	if s2, s3 := getTables(w2).String(), getTables(w3).String(); s2 != impl || s3 != impl {
		r.Violate("tables-not-a-function-of-seed", "impl-oracle", fmt.Sprintf("seed %s bounds %d..%d biased %v: New twice / Reset give different tables", c.Seed, c.Min, c.Max, c.Biased), c)
		return
	}
	if sig, txt := tableOracle(t, c.Min, c.Max); sig != "" {
		r.Violate(sig, "impl-oracle", fmt.Sprintf("seed %s bounds %d..%d biased %v: %s", c.Seed, c.Min, c.Max, c.Biased, txt), c)
		return
	}
	if rep != impl {
		r.Violate("table-model-impl-disagree", "correspondence",
			fmt.Sprintf("seed %s bounds %d..%d biased %v: %s", c.Seed, c.Min, c.Max, c.Biased, firstDiff(impl, rep)), c)
	}
}

func b2i(b bool) int {
	if b {
		return 1
	}
	return 0
}

func clip(s string, n int) string {
	if len(s) > n {
		return s[:n] + "…"
	}
	return s
}

func sizeClass(n int) string {
	switch {
	case n == 1:
		return "1"
	case n == 2:
		return "2"
	case n <= 10:
		return "3-10"
	case n <= 50:
		return "11-50"
	case n < 100:
		return "51-99"
	default:
		return "100"
	}
}

func firstDiff(impl, model string) string {
	a, b := strings.Fields(impl), strings.Fields(model)
	names := []string{"status", "values", "weights", "alias", "prob"}
	if len(a) != len(b) {
		return fmt.Sprintf("implementation %q, Lean model %q", clip(impl, 200), clip(model, 200))
	}
	for i := range a {
		if a[i] != b[i] {
			x, y := strings.Split(a[i], ","), strings.Split(b[i], ",")
			for j := 0; j < len(x) && j < len(y); j++ {
				if x[j] != y[j] {
					return fmt.Sprintf("%s[%d]: implementation %s, Lean model %s", names[i%5], j, x[j], y[j])
				}
			}
			return fmt.Sprintf("%s: lengths %d vs %d", names[i%5], len(x), len(y))
		}
	}
	return "equal"
}

// ---------------------------------------------------------------- Sample (steered)

// int63Bytes returns the 8 tape bytes that make csRandSource.Int63 return v.
func int63Bytes(v uint64) []byte {
	var b [8]byte
	binary.BigEndian.PutUint64(b[:], v)
	return b[:]
}

func checkSample(r *vlib.Run, d *vlib.Driver, c ccase) {
	seed := mustSeed(c.Seed)
	w, pn := safeNew(seed, c.Min, c.Max, c.Biased)
	if pn != "" {
		r.Case(c.key(), false)
		r.Violate("new-panics", "impl-oracle", fmt.Sprintf("probdist.New(%s, %d, %d, %v) panicked: %s", c.Seed, c.Min, c.Max, c.Biased, pn), c)
		return
	}
	t := getTables(w)
	k := int(c.N)
	tapeMu.Lock()
	steer := vlib.UnHex(c.Tape)
	tape.Steer = append([]byte(nil), steer...)
	mark := tape.Mark()
	var got []int
	pan := protect(func() {
		for i := 0; i < k; i++ {
			got = append(got, w.Sample())
		}
	})
	used := tape.Since(mark)
	tape.Steer = nil
	tapeMu.Unlock()
	r.Case(c.key(), len(t.values) >= 2)
	r.Validated(1)
	r.Count("sample-table-size", sizeClass(len(t.values)))
	if pan != "" {
		r.Violate("sample-panics", "impl-oracle", fmt.Sprintf("Sample panicked: %s", pan), c)
		return
	}
	inTable := map[int]bool{}
	for _, v := range t.values {
		inTable[int(c.Min)+v] = true
	}
	for _, s := range got {
		if !inTable[s] || int64(s) < c.Min || int64(s) > c.Max {
			r.Violate("sample-outside-table-or-bounds", "impl-oracle",
				fmt.Sprintf("seed %s bounds %d..%d: Sample returned %d (in table: %v)", c.Seed, c.Min, c.Max, s, inTable[s]), c)
			return
		}
	}
	// replay file carries the exact bytes consumed, so that the case is self-contained
	cc := c
	cc.Tape = vlib.Hex(used)
	rep := d.Call("pd.samples %s %d %d %d %s %d", c.Seed, c.Min, c.Max, b2i(c.Biased), vlib.Hex(used), k)
	want := fmt.Sprintf("ok %s %d", joinInts(got), len(used))
	r.Sample(5, map[string]interface{}{"op": "pd.samples", "seed": c.Seed, "k": k, "impl": clip(want, 100), "model": clip(rep, 100)})
	if rep != want {
		r.Violate("sample-model-impl-disagree", "correspondence", fmt.Sprintf("seed %s bounds %d..%d: implementation %s, Lean model %s", c.Seed, c.Min, c.Max, clip(want, 200), clip(rep, 200)), cc)
	}
}

// ---------------------------------------------------------------- csrand helpers

func checkIntn(r *vlib.Run, d *vlib.Driver, c ccase) {
	tapeMu.Lock()
	tape.Steer = vlib.UnHex(c.Tape)
	mark := tape.Mark()
	var v int
	pan := protect(func() { v = csrand.Intn(int(c.N)) })
	used := tape.Since(mark)
	tape.Steer = nil
	tapeMu.Unlock()
	cc := c
	cc.Tape = vlib.Hex(used)
	rep := d.Call("cs.intn %d %s", c.N, vlib.Hex(used))
	r.Case(c.key(), c.N > 1 && len(used) > 8)
	r.Validated(1)
	r.Count("intn", nClass(c.N, len(used)))
	want := fmt.Sprintf("ok %d %d", v, len(used))
	if pan != "" {
		want = "panic"
		if c.N > 0 {
			r.Violate("intn-panics", "impl-oracle", fmt.Sprintf("csrand.Intn(%d) panicked: %s", c.N, pan), cc)
			return
		}
	} else if v < 0 || int64(v) >= c.N {
		r.Violate("intn-out-of-range", "impl-oracle", fmt.Sprintf("csrand.Intn(%d) = %d", c.N, v), cc)
		return
	}
	if rep != want {
		r.Violate("intn-model-impl-disagree", "correspondence", fmt.Sprintf("Intn(%d) tape %s: implementation %s, Lean model %s", c.N, cc.Tape, want, rep), cc)
	}
}

func nClass(n int64, used int) string {
	s := "non-pow2"
	if n <= 0 {
		return "n<=0"
	}
	if bits.OnesCount64(uint64(n)) == 1 {
		s = "pow2"
	}
	if n > math.MaxInt32 {
		s += "-63bit"
	}
	if used > 8 {
		s += "-rejected"
	}
	return s
}

func checkIntRange(r *vlib.Run, d *vlib.Driver, c ccase) {
	tapeMu.Lock()
	tape.Steer = vlib.UnHex(c.Tape)
	mark := tape.Mark()
	var v int
	pan := protect(func() { v = csrand.IntRange(int(c.Min), int(c.Max)) })
	used := tape.Since(mark)
	tape.Steer = nil
	tapeMu.Unlock()
	cc := c
	cc.Tape = vlib.Hex(used)
	rep := d.Call("cs.intrange %d %d %s", c.Min, c.Max, vlib.Hex(used))
	r.Case(c.key(), c.Max > c.Min)
	r.Validated(1)
	if c.Max < c.Min {
		r.Count("intrange", "max<min")
	} else {
		r.Count("intrange", nClass(c.Max-c.Min+1, len(used)))
	}
	want := fmt.Sprintf("ok %d %d", v, len(used))
	if pan != "" {
		want = "panic"
		if c.Max >= c.Min {
			r.Violate("intrange-panics", "impl-oracle", fmt.Sprintf("csrand.IntRange(%d, %d) panicked: %s", c.Min, c.Max, pan), cc)
			return
		}
	} else if int64(v) < c.Min || int64(v) > c.Max {
		r.Violate("intrange-out-of-range", "impl-oracle", fmt.Sprintf("csrand.IntRange(%d, %d) = %d", c.Min, c.Max, v), cc)
		return
	}
	if rep != want {
		r.Violate("intrange-model-impl-disagree", "correspondence", fmt.Sprintf("IntRange(%d,%d) tape %s: implementation %s, Lean model %s", c.Min, c.Max, cc.Tape, want, rep), cc)
	}
}

// checkRangeCover: S oracle for "inclusive": steering the die over 0..r-1 must make IntRange
// return every value of [min, max] (both ends included) and nothing else.
func checkRangeCover(r *vlib.Run, c ccase) {
	span := c.Max - c.Min + 1
	got := map[int64]bool{}
	tapeMu.Lock()
	var pan string
	for v := int64(0); v < span && pan == ""; v++ {
		tape.Steer = int63Bytes(uint64(v) << 32)
		pan = protect(func() { got[int64(csrand.IntRange(int(c.Min), int(c.Max)))] = true })
		tape.Steer = nil
	}
	tapeMu.Unlock()
	r.Case(c.key(), span > 1)
	r.Count("intrange", "cover")
	if pan != "" {
		r.Violate("intrange-panics", "impl-oracle", fmt.Sprintf("csrand.IntRange(%d, %d) panicked: %s", c.Min, c.Max, pan), c)
		return
	}
	var miss []int64
	for x := c.Min; x <= c.Max; x++ {
		if !got[x] {
			miss = append(miss, x)
		}
	}
	var extra []int64
	for x := range got {
		if x < c.Min || x > c.Max {
			extra = append(extra, x)
		}
	}
	sort.Slice(extra, func(i, j int) bool { return extra[i] < extra[j] })
	if len(miss) > 0 || len(extra) > 0 {
		r.Violate("intrange-not-inclusive-range", "impl-oracle",
			fmt.Sprintf("csrand.IntRange(%d, %d) with the die steered over 0..%d: never returns %v, returns out-of-range %v", c.Min, c.Max, span-1, miss, extra), c)
	}
}

func checkFloat64(r *vlib.Run, d *vlib.Driver, c ccase) {
	tapeMu.Lock()
	tape.Steer = vlib.UnHex(c.Tape)
	mark := tape.Mark()
	f := csrand.Float64()
	used := tape.Since(mark)
	tape.Steer = nil
	tapeMu.Unlock()
	cc := c
	cc.Tape = vlib.Hex(used)
	rep := d.Call("cs.float64 %s", vlib.Hex(used))
	r.Case(c.key(), len(used) > 8 || f > 0.999999)
	r.Validated(1)
	if len(used) > 8 {
		r.Count("float64", "retried-on-1.0")
	} else {
		r.Count("float64", "plain")
	}
	if !(f >= 0 && f < 1) {
		r.Violate("float64-outside-half-open-unit-interval", "impl-oracle", fmt.Sprintf("csrand.Float64() = %v", f), cc)
		return
	}
	want := fmt.Sprintf("ok %s %d", bitsHex(f), len(used))
	if rep != want {
		r.Violate("float64-model-impl-disagree", "correspondence", fmt.Sprintf("tape %s: implementation %s, Lean model %s", cc.Tape, want, rep), cc)
	}
}

// checkConcurrent: one goroutine alternates Reset between a large-table and a tiny-table seed
// while 4 goroutines Sample(): nothing may panic and every sample must lie in one of the two
// tables (hence within the bounds). Truly concurrent, so only the implementation oracle judges.
func checkConcurrent(r *vlib.Run, c ccase) {
	big, small := mustSeed(c.Seed), mustSeed(c.Seed2)
	w, pn := safeNew(big, c.Min, c.Max, c.Biased)
	ws, pn2 := safeNew(small, c.Min, c.Max, c.Biased)
	r.Case(c.key(), true)
	r.Count("concurrent-reset-sample", fmt.Sprintf("%d..%d", c.Min, c.Max))
	if pn != "" || pn2 != "" {
		r.Violate("new-panics", "impl-oracle", "probdist.New panicked: "+pn+pn2, c)
		return
	}
	tb, tsm := getTables(w), getTables(ws)
	allowed := map[int]bool{}
	for _, v := range tb.values {
		allowed[int(c.Min)+v] = true
	}
	for _, v := range tsm.values {
		allowed[int(c.Min)+v] = true
	}
	tapeMu.Lock()
	defer tapeMu.Unlock()
	var stop int32
	var mu sync.Mutex
	var panics, bad []string
	samples := 0
	var wg sync.WaitGroup
	for g := 0; g < 4; g++ {
		wg.Add(1)
		go func() {
			defer wg.Done()
			n := 0
			for atomic.LoadInt32(&stop) == 0 {
				var v int
				pan := protect(func() { v = w.Sample() })
				n++
				if pan != "" || !allowed[v] {
					mu.Lock()
					if pan != "" {
						panics = append(panics, pan)
					} else {
						bad = append(bad, strconv.Itoa(v))
					}
					mu.Unlock()
					if pan != "" {
						break
					}
				}
			}
			mu.Lock()
			samples += n
			mu.Unlock()
		}()
	}
	var resetPanic string
	for i := int64(0); i < c.N && resetPanic == ""; i++ {
		resetPanic = protect(func() {
			w.Reset(small)
			w.Reset(big)
		})
		mu.Lock()
		failed := len(panics) > 0
		mu.Unlock()
		if failed {
			break
		}
	}
	atomic.StoreInt32(&stop, 1)
	wg.Wait()
	tape.Reset()
	r.Validated(1)
	r.Notes["concurrent_samples_drawn"] = samples
	switch {
	case len(panics) > 0:
		r.Violate("sample-panics-under-concurrent-reset", "impl-oracle",
			fmt.Sprintf("bounds %d..%d: Sample() while another goroutine alternates Reset between seed %s (%d values) and %s (%d values): panic: %s", c.Min, c.Max, c.Seed, len(tb.values), c.Seed2, len(tsm.values), panics[0]), c)
	case resetPanic != "":
		r.Violate("reset-panics-under-concurrent-sample", "impl-oracle", "Reset panicked: "+resetPanic, c)
	case len(bad) > 0:
		r.Violate("sample-outside-both-tables-under-concurrent-reset", "impl-oracle",
			fmt.Sprintf("bounds %d..%d seeds %s / %s: Sample() returned %s, which is in neither table", c.Min, c.Max, c.Seed, c.Seed2, clip(strings.Join(bad, ","), 80)), c)
	}
}

// checkHistory: the tables are a function of (seed, min, max, biased) alone — whatever was
// constructed before in the same process, through New or through Reset on a live instance.
// Every step is judged by the table oracle for ITS bounds and compared with the model.
func checkHistory(r *vlib.Run, d *vlib.Driver, c ccase) {
	type cfg struct {
		min, max int64
		biased   bool
	}
	live := map[cfg]*probdist.WeightedDist{}
	shared := new(drbg.Seed)
	configs := map[string]map[cfg]bool{}
	reuse := false
	r.Count("history-steps", strconv.Itoa(len(c.Hist)))
	for i, st := range c.Hist {
		k := cfg{st.Min, st.Max, st.Biased}
		if configs[st.Seed] == nil {
			configs[st.Seed] = map[cfg]bool{}
		}
		if len(configs[st.Seed]) > 0 && !configs[st.Seed][k] {
			reuse = true
		}
		configs[st.Seed][k] = true
		var w *probdist.WeightedDist
		via := "New"
		var pan string
		arg := mustSeed(st.Seed)
		if st.Alias {
			*shared = *arg // the same Seed object as in earlier steps, refilled in place
			arg = shared
			via = "(shared Seed object) New"
		}
		if st.Reset && live[k] != nil {
			via = strings.Replace(via, "New", "Reset", 1)
			w = live[k]
			pan = protect(func() { w.Reset(arg) })
		} else {
			w, pan = safeNew(arg, st.Min, st.Max, st.Biased)
		}
		if pan == "" && st.Scribble {
			for j := range arg {
				arg[j] ^= 0x5a // the caller owns the Seed: the tables must not depend on it any more
			}
		}
		if pan != "" {
			r.Violate("new-panics", "impl-oracle", fmt.Sprintf("history step %d: %s(%s, %d, %d, %v) panicked: %s", i, via, st.Seed, st.Min, st.Max, st.Biased, pan), c)
			return
		}
		live[k] = w
		t := getTables(w)
		r.Validated(1)
		if sig, txt := tableOracle(t, st.Min, st.Max); sig != "" {
			r.Violate(sig+"-after-history", "impl-oracle", fmt.Sprintf("history step %d of %d: %s(seed %s, bounds %d..%d, biased %v) after the same process built other configurations: %s", i, len(c.Hist), via, st.Seed, st.Min, st.Max, st.Biased, txt), c)
			return
		}
		// S: the tables are a function of the seed VALUE at the time of the call: a fresh object
		// built from a distinct, equal-valued Seed gives the same tables
		if ref, pr := safeNew(mustSeed(st.Seed), st.Min, st.Max, st.Biased); pr == "" {
			if rs := getTables(ref).String(); rs != t.String() {
				r.Violate("tables-depend-on-seed-object-or-history", "impl-oracle",
					fmt.Sprintf("history step %d of %d: %s(seed value %s, bounds %d..%d, biased %v) gives tables that differ from those of a fresh New with an equal-valued, distinct Seed object: %s", i, len(c.Hist), via, st.Seed, st.Min, st.Max, st.Biased, strings.Replace(firstDiff(t.String(), rs), "Lean model", "fresh New", 1)), c)
				return
			}
		}
		// S: equals a construction in a history-free way (fresh seed-equal object built first
		// thing for this configuration is not available here, so compare with the model)
		rep := d.Call("pd.new %s %d %d %d", st.Seed, st.Min, st.Max, b2i(st.Biased))
		if rep != t.String() {
			kind, sig := "correspondence", "table-model-impl-disagree-after-history"
			r.Violate(sig, kind, fmt.Sprintf("history step %d: %s(seed %s, bounds %d..%d, biased %v): %s", i, via, st.Seed, st.Min, st.Max, st.Biased, firstDiff(t.String(), rep)), c)
			return
		}
	}
	r.Case(c.key(), reuse)
}

// findTableSeed draws seeds until the table for the bounds has between lo and hi values.
func findTableSeed(rng *vlib.Rng, min, max int64, lo, hi int) string {
	for i := 0; i < 20000; i++ {
		h := hex.EncodeToString(rng.Bytes(24))
		if w, pn := safeNew(mustSeed(h), min, max, false); pn == "" {
			if n := len(getTables(w).values); n >= lo && n <= hi {
				return h
			}
		}
	}
	return ""
}

func runCase(r *vlib.Run, d *vlib.Driver, c ccase) {
	defer func() {
		if p := recover(); p != nil {
			r.Violate("panic-in-"+c.Op, "impl-oracle", fmt.Sprintf("case %s panicked: %v", c.key(), p), c)
		}
	}()
	switch c.Op {
	case "sip":
		checkSip(r, d, c)
	case "drbg":
		checkDrbg(r, d, c)
	case "table":
		checkTable(r, d, c)
	case "sample":
		checkSample(r, d, c)
	case "concurrent":
		checkConcurrent(r, c)
	case "history":
		checkHistory(r, d, c)
	case "intn":
		checkIntn(r, d, c)
	case "intrange":
		checkIntRange(r, d, c)
	case "rangecover":
		checkRangeCover(r, c)
	case "float64":
		checkFloat64(r, d, c)
	default:
		panic("unknown op " + c.Op)
	}
}

// ---------------------------------------------------------------- generators

var boundsList = [][2]int64{{0, 1448}, {0, 100}, {21, 1448}, {0, 1}, {0, 2}, {5, 7}, {-3, 4}, {0, 99}, {0, 98}}

func genTableCases(rng *vlib.Rng, n int) []ccase {
	var cs []ccase
	for i := 0; i < n; i++ {
		b := boundsList[i%len(boundsList)]
		if i%len(boundsList) >= 6 && rng.Intn(2) == 0 {
			b = boundsList[rng.Intn(3)] // keep the transports' bounds dominant
		}
		cs = append(cs, ccase{Op: "table", Seed: hex.EncodeToString(rng.Bytes(24)), Min: b[0], Max: b[1], Biased: i%2 == 1 != (i/len(boundsList)%2 == 1)})
	}
	return cs
}

// steerSample builds tape bytes for k samples from a table of n entries: a mix of
// in-range dice with heads (coin 0), tails (coin just below 1), rejected dice and
// coins that round to 1.0 (retry), followed by nothing (the PRNG continues).
func steerSample(rng *vlib.Rng, n, k int) []byte {
	var out []byte
	for i := 0; i < k; i++ {
		switch rng.Intn(6) {
		case 0: // die i, heads
			out = append(out, int63Bytes(uint64(rng.Intn(n))<<32)...)
			out = append(out, int63Bytes(0)...)
		case 1: // die i, tails unless prob = 1
			out = append(out, int63Bytes(uint64(rng.Intn(n))<<32)...)
			out = append(out, int63Bytes(1<<63-1024)...)
		case 2: // a rejected die first (only rejects for non powers of two)
			out = append(out, int63Bytes(1<<63-1)...)
			out = append(out, rng.Bytes(16)...)
		case 3: // coin that rounds to 1.0 first
			out = append(out, rng.Bytes(8)...)
			out = append(out, int63Bytes(1<<63-1-uint64(rng.Intn(512)))...)
			out = append(out, rng.Bytes(8)...)
		default:
			out = append(out, rng.Bytes(16)...)
		}
	}
	return out
}

func pickRange(rng *vlib.Rng) (int64, int64) {
	switch rng.Intn(9) {
	case 0:
		a := int64(rng.Range(-50, 50))
		return a, a + int64(rng.Intn(20))
	case 1:
		a := int64(rng.Range(-50, 50))
		return a, a - 1 - int64(rng.Intn(5)) // max < min: documented panic
	case 2:
		a := int64(rng.Range(-1000, 1000))
		return a, a + (1 << uint(rng.Intn(31))) - 1 // span a power of two
	case 3:
		a := int64(rng.Range(-1000, 1000))
		return a, a + int64(rng.U64()%(1<<31-1)) // 31-bit path
	case 4:
		a := -int64(rng.U64() % (1 << 61))
		return a, a + int64(rng.U64()%(1<<62)) // 63-bit path
	case 5:
		return 0, 1<<31 - 2 + int64(rng.Intn(3)) // around the Int31n/Int63n switch
	case 6:
		return 0, int64(vlib.Pick(rng, []int{8192 - 77, 8192 - 85, 1448, 100, 1427, 60}))
	case 7:
		a := int64(rng.Range(-5, 5))
		return a, a
	default:
		return int64(rng.Range(0, 100)), int64(rng.Range(100, 70000))
	}
}

func steerInt(rng *vlib.Rng) []byte {
	switch rng.Intn(5) {
	case 0:
		return append(int63Bytes(1<<63-1), rng.Bytes(8)...) // top value: rejected unless power of two
	case 1:
		return append(append(int63Bytes(1<<63-1-uint64(rng.Intn(1<<20))), int63Bytes(1<<63-1)...), rng.Bytes(8)...)
	case 2:
		return int63Bytes(uint64(rng.Intn(1<<16)) << 32)
	case 3:
		return int63Bytes(0)
	default:
		return rng.Bytes(8)
	}
}

func main() {
	r := vlib.NewRun("C12")
	r.Rule = "cases: (a) distribution tables for (seed, min, max, biased) over the transports' bounds 0..1448, 0..100, 21..1448 and small ranges; non-trivial = at least 2 values and at least one index with prob < 1 (an alias is in use); (b) DRBG runs of n blocks, non-trivial = n >= 3 (feedback of at least two outputs); (c) steered Sample / csrand helper calls, non-trivial = table of >= 2 values resp. a rejection/retry or n > 1; distinct by canonical case text"
	r.Assumptions = []string{
		"IEEE-754 rounding error of the float64 tables is measured (reconstruction within 1e-9), not proved",
		"weights summing to 0.0 (probability about 2^-53 per weight) are excluded",
		"math/rand derivations modelled from the sandbox's Go toolchain source (go1.23 math/rand v1)",
	}
	tape = vlib.InstallRandTape(r.Seed)
	csrand.Reader = tape
	d := r.Driver("dist")
	defer d.Close()

	if r.ReplayIn != "" {
		var c ccase
		if err := r.LoadReplay(&c); err != nil {
			panic(err)
		}
		runCase(r, d, c)
		r.Finish()
	}

	rng := vlib.NewRng(r.Seed)

	// --- SipHash and DRBG
	for i, n := 0, r.Scale(300, 3000); i < n; i++ {
		runCase(r, d, ccase{Op: "sip", Key: hex.EncodeToString(rng.Bytes(16)), Msg: vlib.Hex(rng.Bytes(rng.Intn(41)))})
	}
	for i, n := 0, r.Scale(300, 3000); i < n; i++ {
		runCase(r, d, ccase{Op: "drbg", Seed: hex.EncodeToString(rng.Bytes(24)), N: int64(rng.Range(1, 40))})
	}

	// --- tables (parallel: one Lean driver per worker)
	cases := genTableCases(rng.Fork(), r.Scale(6000, 200000))
	// the seed of defect F2 (its 0..1448 table contains the value 0) is always part of the run
	cases = append(cases, ccase{Op: "table", Seed: "7ef48387434acfdfad39600095080bec6908f8757e299b8d", Min: 0, Max: 1448, Biased: false})
	cases = append(cases, ccase{Op: "table", Seed: hex.EncodeToString(rng.Bytes(24)), Min: 3, Max: 3}, ccase{Op: "table", Seed: hex.EncodeToString(rng.Bytes(24)), Min: 4, Max: 2})
	workers := 8
	var wg sync.WaitGroup
	ch := make(chan ccase, 64)
	for wk := 0; wk < workers; wk++ {
		wg.Add(1)
		go func() {
			defer wg.Done()
			wd := r.Driver("dist")
			defer wd.Close()
			for c := range ch {
				runCase(r, wd, c)
			}
		}()
	}
	for _, c := range cases {
		ch <- c
	}
	close(ch)
	wg.Wait()

	// --- Sample with steered randomness
	srng := rng.Fork()
	for i, n := 0, r.Scale(400, 6000); i < n; i++ {
		b := boundsList[srng.Intn(len(boundsList))]
		seed := hex.EncodeToString(srng.Bytes(24))
		nv := 1
		if w, pn := safeNew(mustSeed(seed), b[0], b[1], i%2 == 0); pn == "" {
			nv = len(getTables(w).values)
		}
		k := srng.Range(1, 12)
		runCase(r, d, ccase{Op: "sample", Seed: seed, Min: b[0], Max: b[1], Biased: i%2 == 0, N: int64(k), Tape: vlib.Hex(steerSample(srng, nv, k))})
	}
	// every (die, coin side) of a few tables
	for i, n := 0, r.Scale(6, 60); i < n; i++ {
		b := boundsList[i%3]
		seed := hex.EncodeToString(srng.Bytes(24))
		nv := 1
		if w, pn := safeNew(mustSeed(seed), b[0], b[1], i%2 == 0); pn == "" {
			nv = len(getTables(w).values)
		}
		for die := 0; die < nv; die++ {
			for _, coin := range []uint64{0, 1 << 62, 1<<63 - 1024} {
				tp := append(int63Bytes(uint64(die)<<32), int63Bytes(coin)...)
				runCase(r, d, ccase{Op: "sample", Seed: seed, Min: b[0], Max: b[1], Biased: i%2 == 0, N: 1, Tape: vlib.Hex(tp)})
			}
		}
	}

	// --- csrand helpers
	hrng := rng.Fork()
	for i, n := 0, r.Scale(1500, 30000); i < n; i++ {
		mn, mx := pickRange(hrng)
		runCase(r, d, ccase{Op: "intrange", Min: mn, Max: mx, Tape: vlib.Hex(steerInt(hrng))})
	}
	for i, n := 0, r.Scale(800, 10000); i < n; i++ {
		var nn int64
		switch hrng.Intn(6) {
		case 0:
			nn = int64(hrng.Range(-2, 1))
		case 1:
			nn = 1 << uint(hrng.Intn(62))
		case 2:
			nn = int64(hrng.U64() % (1 << 62))
		case 3:
			nn = 1<<31 - 2 + int64(hrng.Intn(4))
		default:
			nn = int64(hrng.Range(1, 2000))
		}
		runCase(r, d, ccase{Op: "intn", N: nn, Tape: vlib.Hex(steerInt(hrng))})
	}
	for i, n := 0, r.Scale(500, 5000); i < n; i++ {
		var tp []byte
		switch hrng.Intn(4) {
		case 0:
			tp = append(int63Bytes(1<<63-1-uint64(hrng.Intn(512))), hrng.Bytes(8)...) // rounds to 1.0: retry
		case 1:
			tp = int63Bytes(1<<63 - 513 - uint64(hrng.Intn(2048))) // largest values below 1.0
		case 2:
			tp = int63Bytes(uint64(hrng.Intn(4)))
		default:
			tp = hrng.Bytes(8)
		}
		runCase(r, d, ccase{Op: "float64", Tape: vlib.Hex(tp)})
	}
	for i, n := 0, r.Scale(60, 400); i < n; i++ {
		mn := int64(hrng.Range(-20, 20))
		runCase(r, d, ccase{Op: "rangecover", Min: mn, Max: mn + int64(hrng.Intn(40))})
	}
	// --- histories: the same few seeds through New and Reset with several bound pairs and both
	// bias settings, in varying order, within one process
	hrng2 := rng.Fork()
	hcfg := []struct {
		min, max int64
		biased   bool
	}{{0, 1448, false}, {0, 100, false}, {21, 1448, true}, {0, 1448, true}, {5, 7, false}, {0, 100, true}, {21, 1448, false}, {0, 2, true}}
	for i, n := 0, r.Scale(40, 600); i < n; i++ {
		nseeds := hrng2.Range(1, 6)
		seeds := make([]string, nseeds)
		for j := range seeds {
			seeds[j] = hex.EncodeToString(hrng2.Bytes(24))
		}
		var hist []hstep
		for j, m := 0, hrng2.Range(4, 14); j < m; j++ {
			k := hcfg[hrng2.Intn(len(hcfg))]
			st := hstep{Seed: seeds[hrng2.Intn(nseeds)], Min: k.min, Max: k.max, Biased: k.biased, Reset: hrng2.Intn(2) == 0,
				Alias: hrng2.Intn(2) == 0, Scribble: hrng2.Intn(4) == 0}
			if i%2 == 1 {
				// one live instance, one Seed object refilled in place between the calls
				k0 := hcfg[i/2%len(hcfg)]
				st.Min, st.Max, st.Biased, st.Reset, st.Alias = k0.min, k0.max, k0.biased, true, hrng2.Intn(4) != 0
				if j > 0 && hrng2.Intn(3) == 0 {
					st.Seed = hist[j-1].Seed // the same value again: nothing may change either
				}
			}
			hist = append(hist, st)
		}
		runCase(r, d, ccase{Op: "history", Hist: hist})
	}

	// --- Reset vs Sample, truly concurrent (small fixed counts; many more when searching)
	qrng := rng.Fork()
	resets := int64(r.Scale(300, 3000))
	if r.Mode == "search" {
		resets = 20000
	}
	for i, b := range [][2]int64{{0, 1448}, {0, 100}, {21, 1448}} {
		big, small := findTableSeed(qrng, b[0], b[1], 80, 100), findTableSeed(qrng, b[0], b[1], 1, 2)
		if big == "" || small == "" {
			continue
		}
		runCase(r, d, ccase{Op: "concurrent", Seed: big, Seed2: small, Min: b[0], Max: b[1], Biased: i%2 == 1, N: resets})
	}
	r.Finish()
}
