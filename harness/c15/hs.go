package main

import (
	"bytes"
	"fmt"
	"math/big"
	"strconv"
	"sync"

	"gitlab.com/yawning/obfs4.git/common/uniformdh"
	"gitlab.com/yawning/obfs4.git/transports/scramblesuit"

	"verif/harness/vlib"
)

// modelFixed selects the variant of the Lean parser model that corresponds to the tree:
// "1" = length test includes uniformdh.Size (the repaired code), "0" = the code before the repair.
const modelFixed = "1"

func (e *env) padFor(padLen int) []byte {
	return vlib.NewRng(e.seed*1000003 + uint64(padLen)*7919 + 11).Bytes(padLen)
}

// ---------------------------------------------------------------- hello / password

func (e *env) helloCases() {
	n := e.r.Scale(6, 60)
	for i := 0; i < n; i++ {
		e.helloCase(Case{Kind: "hello", Seed: e.seed, Sub: uint64(i)})
	}
}

// helloCase: the client's UniformDH flight is what the model generates from the same key, padding
// and hour (C), verifies under the wire format (S) and is accepted by the reference server.
func (e *env) helloCase(c Case) {
	for try := 0; try < 3; try++ {
		h := curHour()
		dl := startDial(e.cf, e.ca, "10.0.0.1:1")
		if dl.sc.Wait(dl.op) {
			e.r.Violate("dial-returns-before-response", "impl-oracle",
				fmt.Sprintf("Dial returned (err=%v, panic=%v) before any server byte", dl.err, dl.op.Panic), c)
			return
		}
		hello := dl.sc.TakeWritten()
		dl.sc.FeedEOF()
		dl.sc.Wait(dl.op)
		if curHour() != h {
			continue
		}
		e.r.Case(fmt.Sprintf("hello/%d/%d", c.Sub, len(hello)), true)
		e.r.Count("kind", "hello")
		e.r.Count("client_pad", bucket(len(hello)-dhSize-2*macLen))
		if msg := checkFlightGo(e.kB, dhSize, hello, h); msg != "" {
			e.r.Violate("client-flight-not-conforming", "impl-oracle", "UniformDH flight: "+msg, c)
			return
		}
		if len(hello) >= dhSize && !bytes.Equal(hello[:dhSize], e.cliPub) {
			e.r.Violate("model-impl-disagree-public-key", "correspondence",
				"public key on the wire differs from the model's key for the recorded private bytes", c)
			return
		}
		pad := hello[dhSize : len(hello)-2*macLen]
		rep := e.call("hello.dh %s %s %s %d", vlib.Hex(e.kB), vlib.Hex(e.cliPriv), vlib.Hex(pad), h)
		e.r.Validated(1)
		if !bytes.Equal(vlib.UnHex(rep[1]), hello) {
			e.r.Violate("model-impl-disagree-hello", "correspondence", "client flight differs from the model's", c)
		}
		if acc := e.call("srv.accept.dh %s %s %d", vlib.Hex(e.kB), vlib.Hex(hello), h); acc[0] != "ok" {
			e.r.Violate("reference-server-rejects-flight", "impl-oracle", "the reference server rejects the client's UniformDH flight", c)
		}
		e.r.Sample(2, map[string]interface{}{"kind": "hello", "len": len(hello), "hour": h})
		return
	}
}

func bucket(n int) string {
	switch {
	case n <= 0:
		return "0"
	case n < 16:
		return "1-15"
	case n < 256:
		return "16-255"
	case n < 1024:
		return "256-1023"
	default:
		return ">=1024"
	}
}

func (e *env) passwordCases() {
	fixed := []string{e.pw, "", "MFRGG===", "MFRGGZDFMZTWQ2LKNNWG23TPOBYXE43U", "mfrggzdfmztwq2lknnwg23tpobyxe43u",
		"MFRGGZDFMZTWQ2LKNNWG23TPOBYXE43", "MFRGGZDFMZTWQ2LKNNWG23TPOBYXE43UOV3A====", "MFRGGZDFMZTWQ2LKNNWG23TPOBYXE41U",
		"MFRGGZDFMZTWQ2LK\nNNWG23TPOBYXE43U", "MFRGGZDFMZTWQ2LKNNWG23TPOBYXE43U========", "=FRGGZDFMZTWQ2LKNNWG23TPOBYXE43U",
		"MFRGGZDFMZTWQ2LKNNWG23TPOBYXE4==", "MFRGGZDFMZTWQ2LKNNWG23TPOBYXE43V"}
	for _, s := range fixed {
		e.passwordCase(Case{Kind: "password", Seed: e.seed, Str: s})
	}
	rng := vlib.NewRng(e.seed ^ 0x7077)
	n := e.r.Scale(20, 300)
	for i := 0; i < n; i++ {
		raw := rng.Bytes(vlib.Pick(rng, []int{20, 20, 20, 19, 21, 15, 25, 0, 1}))
		s := b32(raw)
		if rng.Intn(4) == 0 && len(s) > 0 {
			b := []byte(s)
			b[rng.Intn(len(b))] = vlib.Pick(rng, []byte{'a', '1', '=', '8', 'Z', '2', '!'})
			s = string(b)
		}
		e.passwordCase(Case{Kind: "password", Seed: e.seed, Str: s})
	}
}

// passwordCase: parsePasswordArg (through ParseArgs) against the base32 model.
func (e *env) passwordCase(c Case) {
	if bytes.ContainsAny([]byte(c.Str), " \t") {
		return
	}
	_, err := e.cf.ParseArgs(pwArgs(c.Str))
	impl := "ok"
	if err != nil {
		impl = "fail"
	}
	arg := c.Str
	if arg == "" {
		arg = "-"
	}
	// newlines cannot travel over the line protocol; base32 ignores them, so does the model when they are removed first
	arg = string(bytes.ReplaceAll(bytes.ReplaceAll([]byte(arg), []byte("\n"), nil), []byte("\r"), nil))
	if arg == "" {
		arg = "-"
	}
	rep := e.call("pw %s", arg)
	e.r.Case("pw/"+c.Str, impl == "fail")
	e.r.Count("kind", "password")
	e.r.Count("password", impl+"/"+rep[0])
	e.r.Validated(1)
	if rep[0] != impl {
		e.r.Violate("model-impl-disagree-password", "correspondence",
			fmt.Sprintf("password %q: implementation %s (%v), model %v", c.Str, impl, err, rep), c)
	}
}

// ---------------------------------------------------------------- response splits (real Dial)

type splitPre struct {
	ks    *keyset
	hour  int64
	pad   []byte
	resp  []byte
	w     []byte // resp ++ pkt1
	codes string // model outcome per split point 1..len(w)-1
	n     int    // model: bytes of the response consumed
}

var (
	splitData1 = []byte("first-bytes")
	splitData2 = []byte("second")
)

type splitPkts struct{ p1, p2 []byte }

// pkts: the two payload packets the server sends after the handshake (the same for every split
// case of a key set: same key pairs, hence same session keys and keystream offsets).
func (e *env) pkts(ks *keyset) splitPkts {
	e.rmu.Lock()
	pk := ks.pk
	e.rmu.Unlock()
	if pk != nil {
		return *pk
	}
	e.call("sess.new split-%s %s", ks.name, vlib.Hex(ks.seed))
	p1 := vlib.UnHex(e.call("srv.send split-%s %d %s 3", ks.name, flagData, vlib.Hex(splitData1))[1])
	p2 := vlib.UnHex(e.call("srv.send split-%s %d %s 0", ks.name, flagData, vlib.Hex(splitData2))[1])
	e.rmu.Lock()
	ks.pk = &splitPkts{p1, p2}
	e.rmu.Unlock()
	return splitPkts{p1, p2}
}

func (e *env) splitPrepare(padLen int, ks *keyset) *splitPre {
	pk := e.pkts(ks)
	p := &splitPre{ks: ks, hour: curHour(), pad: e.padFor(padLen)}
	p.resp = e.serverResp(e.kB, p.pad, p.hour)
	p.w = append(append([]byte(nil), p.resp...), pk.p1...)
	rep := e.call("cli.splits %s %s %s %d %s 1 %d", modelFixed, vlib.Hex(e.kB), vlib.Hex(ks.priv), p.hour, vlib.Hex(p.w), len(p.w))
	if rep[0] == "ok" {
		p.n, _ = strconv.Atoi(rep[2])
	}
	p.codes = rep[3]
	return p
}

func (e *env) splitCases() {
	rng := vlib.NewRng(e.seed ^ 0x5711)
	var pads []int
	if e.r.Thorough() {
		for p := 0; p <= maxPad; p++ {
			pads = append(pads, p)
		}
	} else {
		pads = []int{0, 1, 2, 15, 16, 17, 31, 100, 1307, 1308}
		for i := 0; i < 22; i++ {
			pads = append(pads, rng.Range(3, 1306))
		}
	}
	type job struct {
		pre    *splitPre
		padLen int
		splits []int
	}
	jobs := make(chan job, 4)
	var wg sync.WaitGroup
	workers := 1
	if e.r.Thorough() {
		workers = 14
	}
	for w := 0; w < workers; w++ {
		wg.Add(1)
		go func() {
			defer wg.Done()
			for j := range jobs {
				for _, s := range j.splits {
					e.splitCase(Case{Kind: "split", Seed: e.seed, PadLen: j.padLen, Split: s, Fast: j.pre.ks == e.fast}, j.pre)
				}
			}
		}()
	}
	for i, padLen := range pads {
		// bulk enumeration with the short-exponent client key; every 16th padding length (and the
		// whole quick tier) with the full-size key
		ks := e.full
		if e.r.Thorough() && i%16 != 0 {
			ks = e.fast
		}
		pre := e.splitPrepare(padLen, ks)
		var splits []int
		if e.r.Thorough() {
			for s := 1; s < len(pre.w); s++ {
				splits = append(splits, s)
			}
		} else {
			seen := map[int]bool{}
			for s := len(pre.resp) - 48; s <= len(pre.resp)+2 && s < len(pre.w); s++ {
				if s >= 1 && !seen[s] {
					seen[s] = true
					splits = append(splits, s)
				}
			}
			for i := 0; i < 50; i++ {
				s := rng.Range(1, len(pre.w)-1)
				if !seen[s] {
					seen[s] = true
					splits = append(splits, s)
				}
			}
		}
		jobs <- job{pre, padLen, splits}
	}
	close(jobs)
	wg.Wait()
	if e.r.Thorough() {
		e.r.Exhaustive = true
		e.r.Notes["exhaustive_space"] = fmt.Sprintf("every padding length 0..%d x every split point of (response ++ first packet)", maxPad)
	}
}

func splitSig(s int, pre *splitPre) string {
	if s >= len(pre.resp)-macLen && s < len(pre.resp) {
		return "split-inside-trailing-mac"
	}
	return "response-split-handshake-fails"
}

// splitCase: one Dial with the server stream (response ++ first packet) delivered in two
// segments cut at c.Split; a second packet follows once the handshake is done.
// S: the handshake completes, then exactly the two payloads are delivered. C: the model's code.
func (e *env) splitCase(c Case, pre *splitPre) {
	ks := e.full
	if c.Fast {
		ks = e.fast
	}
	if pre == nil {
		pre = e.splitPrepare(c.PadLen, ks)
	}
	pk := e.pkts(ks)
	s := c.Split
	if s < 1 || s >= len(pre.w) {
		return
	}
	if curHour() != pre.hour {
		// the hour changed since the response was computed: recompute for this case
		pre = e.splitPrepare(c.PadLen, ks)
	}
	dl := startDial(e.cf, ks.ca, "10.0.0.1:1")
	defer func() {
		if !dl.sc.Closed() {
			dl.sc.Close()
		}
		dl.sc.Wait(dl.op)
	}()
	if dl.sc.Wait(dl.op) {
		e.r.Violate("dial-returns-before-response", "impl-oracle", fmt.Sprintf("Dial returned (err=%v, panic=%v) before any server byte", dl.err, dl.op.Panic), c)
		return
	}
	hello := dl.sc.TakeWritten()
	if msg := checkFlightGo(e.kB, dhSize, hello, pre.hour); msg != "" {
		e.r.Violate("client-flight-not-conforming", "impl-oracle", "UniformDH flight: "+msg, c)
		return
	}
	e.r.Case(fmt.Sprintf("split/%d/%d", c.PadLen, s), s < len(pre.resp))
	e.r.Count("kind", "split")
	e.r.Count("split_client_key", ks.name)
	e.r.Count("server_pad", bucket(c.PadLen))
	switch {
	case s < dhSize:
		e.r.Count("split_in", "public-key")
	case s < len(pre.resp)-2*macLen:
		e.r.Count("split_in", "padding")
	case s < len(pre.resp)-macLen:
		e.r.Count("split_in", "mark")
	case s < len(pre.resp):
		e.r.Count("split_in", "trailing-mac")
	case s == len(pre.resp):
		e.r.Count("split_in", "exact-end")
	default:
		e.r.Count("split_in", "first-packet")
	}
	code := byte('?')
	if s-1 < len(pre.codes) {
		code = pre.codes[s-1]
	}
	impl := byte('k')
	desc := ""
	dl.sc.Feed(pre.w[:s])
	fedAll := false
	fin := dl.sc.Wait(dl.op)
	if fin && s < len(pre.resp) {
		if dl.op.Panic != nil {
			impl, desc = 'p', fmt.Sprintf("Dial panicked after the first %d of %d response bytes: %v", s, len(pre.resp), dl.op.Panic)
		} else if dl.err != nil {
			impl, desc = 'i', fmt.Sprintf("Dial failed after the first %d of %d response bytes: %v", s, len(pre.resp), dl.err)
		} else {
			impl, desc = 'e', fmt.Sprintf("Dial completed on a strict prefix (%d of %d bytes) of the response", s, len(pre.resp))
		}
	} else {
		if !fin {
			if s >= len(pre.resp) {
				impl, desc = 'b', "Dial still blocked although the whole response arrived"
			}
			dl.sc.Feed(pre.w[s:])
			fedAll = true
			fin = dl.sc.Wait(dl.op)
		}
		if impl == 'k' {
			switch {
			case !fin:
				impl, desc = 'b', "Dial still blocked although the whole response arrived"
			case dl.op.Panic != nil:
				impl, desc = 'p', fmt.Sprintf("Dial panicked on the complete response: %v", dl.op.Panic)
			case dl.err != nil:
				impl, desc = 'i', fmt.Sprintf("Dial failed on the complete response: %v", dl.err)
			}
		}
	}
	e.r.Validated(1)
	e.r.Count("outcome", string(impl))
	if impl != 'k' {
		e.r.Violate(splitSig(s, pre), "impl-oracle",
			fmt.Sprintf("server padding %d, response of %d bytes split after byte %d: %s", c.PadLen, len(pre.resp), s, desc), c)
	}
	if !(code == impl || (code == 'p' && impl == 'i')) {
		// model `p` = slice beyond len; the real code reads stale bytes inside the capacity instead and reports "invalid handshake"
		e.r.Violate("model-impl-disagree-split", "correspondence",
			fmt.Sprintf("server padding %d split %d: implementation %c, model %c", c.PadLen, s, impl, code), c)
	}
	if impl != 'k' {
		return
	}
	e.dialDone(c, dl.sc, false)
	// data phase: first packet was part of the stream, second one follows now
	want := append(append([]byte(nil), splitData1...), splitData2...)
	ss := &session{e: e, dl: dl, sc: dl.sc, conn: dl.conn}
	defer ss.close()
	if !fedAll {
		dl.sc.Feed(pre.w[s:])
	}
	got, err, blocked, pan := ss.read(len(splitData1), 4096)
	if blocked && len(got) == 0 {
		// the surplus left by the handshake is only decoded after the next segment arrives
		e.r.Count("surplus", "decoded-only-after-next-segment")
	} else {
		e.r.Count("surplus", "decoded-at-once")
	}
	if err == nil && pan == nil {
		dl.sc.Feed(pk.p2)
		var g2 []byte
		g2, err, blocked, pan = ss.read(len(want)-len(got), 4096)
		got = append(got, g2...)
	}
	if pan != nil || err != nil || !bytes.Equal(got, want) {
		e.r.Violate("stream-wrong-after-handshake", "impl-oracle",
			fmt.Sprintf("server padding %d split %d: after the handshake the client delivered %q (err=%v panic=%v blocked=%v), the server sent %q",
				c.PadLen, s, got, err, pan, blocked, want), c)
	}
	if rx, dec, ok := scramblesuit.VerifBufferSizes(dl.conn); ok && (rx >= 2*maxHsLen+mss || dec > 2*maxHsLen+mss) {
		e.r.Violate("buffer-over-bound", "impl-oracle", fmt.Sprintf("receive buffers hold %d/%d bytes", rx, dec), c)
	}
}

// ---------------------------------------------------------------- steered Diffie-Hellman values (leading zero bytes)

// modp is the UniformDH modulus, from the package constant (not from its code).
func modp() *big.Int {
	p, ok := new(big.Int).SetString(uniformdh.VerifConstants()["modpStr"], 16)
	if !ok {
		must(fmt.Errorf("modpStr unparsable"))
	}
	return p
}

func privBytes(k *big.Int) []byte { return k.FillBytes(make([]byte, dhSize)) }

// leadingZeros of the 192-byte big-endian encoding of v.
func leadingZeros(v *big.Int) int { return dhSize - len(v.Bytes()) }

var dhEdgeVariants = []string{"secret-1-zero-byte", "secret-2-zero-bytes", "server-public-zero-byte", "client-public-zero-byte-X", "client-public-zero-byte-p-X"}

func (e *env) dhEdgeCases() {
	for i, v := range dhEdgeVariants {
		if !e.r.Thorough() && v == "client-public-zero-byte-p-X" && e.seed%2 == 0 {
			continue
		}
		e.dhEdgeCase(Case{Kind: "dh-edge", Seed: e.seed, Target: v, Sub: uint64(i)})
	}
	if e.r.Thorough() {
		for i := 0; i < 6; i++ {
			e.dhEdgeCase(Case{Kind: "dh-edge", Seed: e.seed, Target: "secret-1-zero-byte", Sub: uint64(10 + i)})
		}
	}
}

// dhEdgeCase: key pairs are searched (plain math/big arithmetic over the group constant, independent of
// the package's helpers; the values the session then uses come from the Lean reference server) so
// that a 192-byte field starts with zero bytes: the shared secret (1 or 2 zero bytes), the server's
// public value, the client's public value (sent as X, or as p-X). Then: the complete handshake
// through the real client and data both ways.  S: stream exact (both sides derived the same keys).
func (e *env) dhEdgeCase(c Case) {
	p := modp()
	ca := e.ca
	cliPriv, cliPub := e.cliPriv, e.cliPub
	start := int64(2000 + 2*(int64(e.seed%500)+int64(c.Sub)*977))
	var srvPriv []byte
	switch c.Target {
	case "secret-1-zero-byte", "secret-2-zero-bytes":
		// server exponent y = 2k: the secret (X or p-X)^y = (X^2)^k, one modular multiplication per candidate
		want := 1
		if c.Target == "secret-2-zero-bytes" {
			want = 2
		}
		x := new(big.Int).SetBytes(cliPub)
		x2 := new(big.Int).Exp(x, big.NewInt(2), p)
		ss := new(big.Int).Exp(x2, big.NewInt(start/2), p)
		k := start / 2
		for tries := 0; leadingZeros(ss) < want; tries++ {
			if tries > 3000000 {
				e.r.Count("dh_edge", c.Target+"/not-found")
				return
			}
			ss.Mul(ss, x2).Mod(ss, p)
			k++
		}
		srvPriv = privBytes(big.NewInt(2 * k))
	case "server-public-zero-byte":
		// Y = g^y = 4^k for y = 2k (k large enough to wrap around the modulus)
		four := big.NewInt(4)
		k := start
		y := new(big.Int).Exp(four, big.NewInt(k), p)
		for leadingZeros(y) < 1 || leadingZeros(y) > 3 {
			y.Mul(y, four).Mod(y, p)
			k++
		}
		srvPriv = privBytes(big.NewInt(2 * k))
	case "client-public-zero-byte-X", "client-public-zero-byte-p-X":
		// the client's key pair: the tape is steered so that ParseArgs draws the private key 2k (sent: X)
		// or 2k+1 (low bit set: sent p-X)
		odd := c.Target == "client-public-zero-byte-p-X"
		four := big.NewInt(4)
		k := start
		x := new(big.Int).Exp(four, big.NewInt(k), p)
		sent := func() *big.Int {
			if odd {
				return new(big.Int).Sub(p, x)
			}
			return x
		}
		for leadingZeros(sent()) < 1 || leadingZeros(sent()) > 3 {
			x.Mul(x, four).Mod(x, p)
			k++
		}
		priv := big.NewInt(2 * k)
		if odd {
			priv.Add(priv, big.NewInt(1))
		}
		cliPriv = privBytes(priv)
		e.tape.Steer = append([]byte(nil), cliPriv...)
		var err error
		ca, err = e.cf.ParseArgs(pwArgs(e.pw))
		must(err)
		if len(e.tape.Steer) != 0 {
			must(fmt.Errorf("ParseArgs did not draw the steered private key"))
		}
		cliPub = vlib.UnHex(e.call("dh.pub %s", vlib.Hex(cliPriv))[1])
		if !bytes.Equal(cliPub, sent().FillBytes(make([]byte, dhSize))) {
			must(fmt.Errorf("the Lean reference computes another public value than the search"))
		}
		srvPriv = e.srvPriv
	default:
		must(fmt.Errorf("unknown dh-edge variant %q", c.Target))
	}
	srvPub := vlib.UnHex(e.call("dh.pub %s", vlib.Hex(srvPriv))[1])
	seedRep := e.call("dh.seed %s %s", vlib.Hex(srvPriv), vlib.Hex(cliPub))
	seed := vlib.UnHex(seedRep[1])
	// the reference's view of the field that was steered (for the evidence and as a guard of the search)
	ssRef := new(big.Int).Exp(new(big.Int).SetBytes(cliPub), new(big.Int).SetBytes(srvPriv), p)
	ssRef2 := new(big.Int).Exp(new(big.Int).SetBytes(cliPub), new(big.Int).Sub(new(big.Int).SetBytes(srvPriv), big.NewInt(int64(srvPriv[dhSize-1]&1))), p)
	_ = ssRef
	zeros := map[string]int{"secret": leadingZeros(ssRef2), "server-public": dhSize - len(bytes.TrimLeft(srvPub, "\x00")), "client-public": dhSize - len(bytes.TrimLeft(cliPub, "\x00"))}
	for try := 0; try < 3; try++ {
		hour := curHour()
		dl := startDial(e.cf, ca, fmt.Sprintf("10.5.0.%d:443", c.Sub%250))
		if dl.sc.Wait(dl.op) {
			e.r.Violate("dial-returns-before-response", "impl-oracle", fmt.Sprintf("Dial returned (err=%v, panic=%v) before any server byte", dl.err, dl.op.Panic), c)
			return
		}
		hello := dl.sc.TakeWritten()
		resp := e.serverRespFor(srvPriv, e.kB, e.padFor(int(c.Sub)%30), hour)
		dl.sc.Feed(resp)
		fin := dl.sc.Wait(dl.op)
		if curHour() != hour {
			dl.sc.Close()
			dl.sc.Wait(dl.op)
			continue
		}
		e.r.Case(fmt.Sprintf("dh-edge/%s/%x", c.Target, srvPriv[dhSize-8:]), true)
		e.r.Count("kind", "dh-edge")
		e.r.Count("dh_edge", fmt.Sprintf("%s/secret-zeros=%d,server-pub-zeros=%d,client-pub-zeros=%d", c.Target, zeros["secret"], zeros["server-public"], zeros["client-public"]))
		if msg := checkFlightGo(e.kB, dhSize, hello, hour); msg != "" {
			e.r.Violate("client-flight-not-conforming", "impl-oracle", c.Target+": UniformDH flight: "+msg, c)
			dl.sc.Close()
			return
		}
		if !bytes.Equal(hello[:dhSize], cliPub) {
			e.r.Violate("client-public-value-wrong", "impl-oracle",
				fmt.Sprintf("%s: the public value on the wire is not the 192-byte encoding the reference computes for the client's private key", c.Target), c)
			dl.sc.Close()
			return
		}
		if !fin || dl.op.Panic != nil || dl.err != nil {
			e.r.Violate("handshake-fails", "impl-oracle", fmt.Sprintf("%s: Dial on a conforming response: finished=%v err=%v panic=%v", c.Target, fin, dl.err, dl.op.Panic), c)
			if !dl.sc.Closed() {
				dl.sc.Close()
			}
			dl.sc.Wait(dl.op)
			return
		}
		e.dialDone(c, dl.sc, false)
		s := &session{e: e, dl: dl, sc: dl.sc, conn: dl.conn, mode: "dh", id: "dhedge"}
		e.call("sess.new %s %s", s.id, vlib.Hex(seed))
		rng := vlib.NewRng(e.seed*53 + c.Sub)
		ok := e.echo(s, rng, c, []string{c.Target}) && e.echo(s, rng, c, []string{c.Target})
		s.close()
		_ = ok
		return
	}
}

// ---------------------------------------------------------------- parser hook on valid and malformed responses

func (e *env) hsParseCases() {
	n := e.r.Scale(400, 2500)
	for i := 0; i < n; i++ {
		e.hsParseCase(Case{Kind: "hs-parse", Seed: e.seed, Sub: uint64(i)})
	}
}

func flipBit(b []byte, bit int) []byte {
	o := append([]byte(nil), b...)
	o[bit/8] ^= 1 << uint(bit%8)
	return o
}

// hsParseCase drives parseServerHandshake through the hook on a growing bytes.Buffer exactly as
// clientHandshake does, on a generated stream, and compares with the model's read loop.
func (e *env) hsParseCase(c Case) {
	rng := vlib.NewRng(e.seed*31 + c.Sub*977 + 5)
	key, err := uniformdh.VerifGenerateKey(e.cliPriv)
	must(err)
	hs, err := scramblesuit.VerifNewDHClientHandshake(e.kB, key)
	must(err)
	if _, err = hs.Generate(); err != nil {
		must(err)
	}
	hour, err := strconv.ParseInt(string(hs.EpochHour()), 10, 64)
	must(err)
	padLen := vlib.Pick(rng, []int{0, 1, 2, 15, 16, 17, 40, 300, 1291, 1292, 1293, 1307, 1308, rng.Range(0, maxPad)})
	pad := rng.Bytes(padLen)
	resp := e.serverResp(e.kB, pad, hour)
	surplus := rng.Bytes(vlib.Pick(rng, []int{0, 0, 1, 21, 50, 400}))
	variant := vlib.Pick(rng, []string{"valid", "valid", "valid", "valid+surplus", "valid+surplus", "false-mark", "bad-mac", "bad-mark",
		"bad-key", "wrong-hour", "wrong-secret", "garbage", "truncated", "overlong-pad"})
	var stream []byte
	valid := false
	switch variant {
	case "valid":
		stream, valid = resp, true
	case "valid+surplus":
		stream, valid = append(append([]byte(nil), resp...), surplus...), true
	case "false-mark":
		// the mark also occurs earlier, inside the padding: the parser must take the first hit and fail the MAC
		if padLen < 2*macLen {
			padLen = 100
			pad = rng.Bytes(padLen)
		}
		mark := resp[len(resp)-2*macLen : len(resp)-macLen] // depends on k_B and Y only
		at := rng.Intn(padLen - macLen + 1)
		copy(pad[at:], mark)
		stream = e.serverResp(e.kB, pad, hour)
		resp = stream
	case "bad-mac":
		stream = flipBit(resp, (len(resp)-macLen)*8+rng.Intn(macLen*8))
	case "bad-mark":
		stream = append(flipBit(resp, (len(resp)-2*macLen)*8+rng.Intn(macLen*8)), rng.Bytes(maxHsLen)...)
	case "bad-key":
		stream = append(flipBit(resp, rng.Intn(dhSize*8)), rng.Bytes(maxHsLen)...)
	case "wrong-hour":
		stream = e.serverResp(e.kB, pad, hour+int64(vlib.Pick(rng, []int{-1, 1, 24})))
	case "wrong-secret":
		stream = append(e.serverResp(flipBit(e.kB, rng.Intn(160)), pad, hour), rng.Bytes(maxHsLen)...)
	case "garbage":
		stream = rng.Bytes(vlib.Pick(rng, []int{1, 223, 224, 225, 1515, 1516, 1517, 1531, 1532, 1533, 3000}))
	case "truncated":
		stream = resp[:rng.Range(1, len(resp)-1)]
	case "overlong-pad":
		// 192 + pad + 32 > 1532: the mark lies beyond the search window
		stream = e.serverResp(e.kB, rng.Bytes(rng.Range(maxPad+1, maxPad+40)), hour)
	}
	var sizes []int
	switch rng.Intn(5) {
	case 0: // whole
	case 1:
		sizes = []int{rng.Range(1, len(stream))}
	case 2: // byte by byte over the end of the response
		start := len(resp) - 40 - rng.Intn(10)
		if start < 1 {
			start = 1
		}
		sizes = []int{start}
		for i := 0; i < 60; i++ {
			sizes = append(sizes, 1)
		}
	case 3:
		for i := 0; i < 12; i++ {
			sizes = append(sizes, rng.Range(1, 400))
		}
	case 4:
		sizes = []int{rng.Range(200, 230), rng.Range(1, 20), rng.Range(1, 1400)}
	}
	chunks := cutReads(chunkAt(stream, sizes), maxHsLen)
	c.Target = variant

	// implementation
	var rb bytes.Buffer
	var implRest, implSeed []byte
	implN := -1
	impl := ""
	var pan interface{}
	for i, ch := range chunks {
		rb.Write(ch)
		var n int
		var seed []byte
		var class string
		func() {
			defer func() { pan = recover() }()
			n, seed, class, _ = hs.Parse(rb.Bytes())
		}()
		if pan != nil {
			impl = "panic"
			break
		}
		if class == "notyet" {
			continue
		}
		if class == "ok" {
			rb.Next(n)
			implN = n
			implRest = append([]byte(nil), rb.Bytes()...)
			for _, u := range chunks[i+1:] {
				implRest = append(implRest, u...)
			}
			implSeed = seed
			impl = fmt.Sprintf("done %s %s %d", vlib.Hex(seed), vlib.Hex(rb.Bytes()), len(chunks)-i-1)
		} else {
			impl = class
		}
		break
	}
	if impl == "" {
		impl = fmt.Sprintf("blocked %d", rb.Len())
	}
	model := e.callRaw("cli.loop %s %s %s %d %s", modelFixed, vlib.Hex(e.kB), vlib.Hex(e.cliPriv), hour, hexList(chunks))
	e.r.Case(fmt.Sprintf("hs-parse/%s/%d/%s", variant, len(stream), intList(sizes)), len(chunks) >= 2)
	e.r.Validated(1)
	e.r.Count("kind", "hs-parse")
	e.r.Count("hs_variant", variant)
	e.r.Count("hs_outcome", firstWord(impl))
	e.r.Sample(4, map[string]interface{}{"kind": "hs-parse", "variant": variant, "len": len(stream), "chunks": len(chunks), "impl": trunc(impl, 60), "model": trunc(model, 60)})
	if pan != nil {
		sig := "parser-panic"
		if valid {
			sig = "split-inside-trailing-mac"
		}
		e.r.Violate(sig, "impl-oracle", fmt.Sprintf("parseServerHandshake panicked on a %s stream of %d bytes (server padding %d), chunks %s: %v",
			variant, len(stream), padLen, intList(sizes), pan), c)
	} else if valid {
		if !(implN == len(resp) && bytes.Equal(implSeed, e.dhSeed) && bytes.Equal(implRest, stream[len(resp):])) {
			sig := "response-split-handshake-fails"
			if impl == "invalid" {
				sig = "split-inside-trailing-mac"
			}
			e.r.Violate(sig, "impl-oracle", fmt.Sprintf("conforming response (server padding %d, %d bytes, surplus %d) in chunks %s: parser result %q instead of the server's seed and the surplus",
				padLen, len(resp), len(stream)-len(resp), intList(sizes), trunc(impl, 80)), c)
		}
	} else if firstWord(impl) == "done" {
		e.r.Violate("malformed-response-completes", "impl-oracle", fmt.Sprintf("%s stream completes the handshake", variant), c)
	}
	if impl != model && !(model == "panic" && (impl == "invalid" || impl == "panic")) {
		e.r.Violate("model-impl-disagree-parser", "correspondence",
			fmt.Sprintf("%s stream of %d bytes, chunks %s: implementation %q, model %q", variant, len(stream), intList(sizes), trunc(impl, 100), trunc(model, 100)), c)
	}
}

func firstWord(s string) string {
	for i := 0; i < len(s); i++ {
		if s[i] == ' ' {
			return s[:i]
		}
	}
	return s
}

// ---------------------------------------------------------------- wrong secret / tampered response (real Dial)

func (e *env) noCompleteCases() {
	rng := vlib.NewRng(e.seed ^ 0xbad)
	n := e.r.Scale(20, 200)
	for i := 0; i < n; i++ {
		e.noCompleteCase(Case{Kind: "wrong-secret", Seed: e.seed, PadLen: vlib.Pick(rng, []int{0, 1, 17, 300, 1308}), Bit: rng.Intn(160), Sub: uint64(i)})
	}
	for i := 0; i < e.r.Scale(3, 30); i++ {
		e.noCompleteCase(Case{Kind: "reflection", Seed: e.seed, Sub: uint64(i)})
	}
	padLen := 3
	total := (dhSize + padLen + 2*macLen) * 8
	step := 7
	if e.r.Thorough() {
		step = 1
	}
	for bit := int(e.seed % uint64(step)); bit < total; bit += step {
		e.noCompleteCase(Case{Kind: "tampered-response", Seed: e.seed, PadLen: padLen, Bit: bit})
	}
}

// noCompleteCase: a response made with another shared secret, or the genuine response with one
// bit flipped, followed by arbitrary bytes: Dial must fail (S), as the model says (C).
func (e *env) noCompleteCase(c Case) {
	rng := vlib.NewRng(e.seed*131 + c.Sub*31 + uint64(c.Bit))
	for try := 0; try < 3; try++ {
		h := curHour()
		pad := e.padFor(c.PadLen)
		var stream []byte
		switch c.Kind {
		case "wrong-secret":
			stream = e.serverResp(flipBit(e.kB, c.Bit%160), pad, h)
		case "tampered-response":
			stream = flipBit(e.serverResp(e.kB, pad, h), c.Bit)
		case "reflection":
			// filled in below with the client's own flight
		}
		stream = append(append([]byte(nil), stream...), rng.Bytes(maxHsLen+50)...)
		var sizes []int
		switch c.Sub % 3 {
		case 1:
			sizes = []int{rng.Range(1, 300), rng.Range(1, 300)}
		case 2:
			for i := 0; i < 8; i++ {
				sizes = append(sizes, rng.Range(100, 300))
			}
		}
		chunks := chunkAt(stream, sizes)
		dl := startDial(e.cf, e.ca, "10.0.0.1:1")
		fin := dl.sc.Wait(dl.op)
		hello := dl.sc.TakeWritten()
		if c.Kind == "reflection" {
			// the client's own flight sent back to it, followed by arbitrary bytes
			stream = append(append([]byte(nil), hello...), rng.Bytes(100)...)
			chunks = chunkAt(stream, sizes)
		}
		for _, ch := range chunks {
			if fin {
				break
			}
			dl.sc.Feed(ch)
			fin = dl.sc.Wait(dl.op)
		}
		blocked := !fin
		if blocked {
			dl.sc.FeedEOF()
			dl.sc.Wait(dl.op)
		}
		if !dl.sc.Closed() {
			dl.sc.Close()
		}
		if curHour() != h {
			continue
		}
		e.r.Case(fmt.Sprintf("%s/%d/%d/%d", c.Kind, c.PadLen, c.Bit, c.Sub%3), true)
		e.r.Count("kind", c.Kind)
		impl := "invalid"
		switch {
		case dl.op.Panic != nil:
			impl = "panic"
		case blocked:
			impl = "blocked"
		case dl.err == nil:
			impl = "done"
		}
		e.r.Count("nocomplete_outcome", impl)
		if c.Kind == "reflection" {
			// not a wrong secret and not a tampered response: the property is silent; the model
			// (theorem wrong_secret_never_completes, first alternative) says the client accepts it
			e.r.Count("reflection_outcome", impl)
		} else if impl == "done" {
			e.r.Violate(c.Kind+"-completes", "impl-oracle", fmt.Sprintf("Dial completed on a %s stream (bit %d, server padding %d)", c.Kind, c.Bit, c.PadLen), c)
		} else if impl == "panic" {
			e.r.Violate("parser-panic", "impl-oracle", fmt.Sprintf("Dial panicked on a %s stream: %v", c.Kind, dl.op.Panic), c)
		}
		model := firstWord(e.callRaw("cli.loop %s %s %s %d %s", modelFixed, vlib.Hex(e.kB), vlib.Hex(e.cliPriv), h, hexList(cutReads(chunks, maxHsLen))))
		e.r.Validated(1)
		if model != impl && !(model == "panic" && impl == "invalid") {
			e.r.Violate("model-impl-disagree-nocomplete", "correspondence",
				fmt.Sprintf("%s stream (bit %d, padding %d): implementation %s, model %s", c.Kind, c.Bit, c.PadLen, impl, model), c)
		}
		return
	}
}
