package main

import (
	"bytes"
	"encoding/json"
	"fmt"
	"os"
	"path/filepath"
	"strings"
	"time"

	"gitlab.com/yawning/obfs4.git/transports/base"
	"gitlab.com/yawning/obfs4.git/transports/scramblesuit"

	"verif/harness/vlib"
)

const ticketLifetime = 60 * 60 * 24 * 7

// TOp is one step of a ticket history.
//
//	connect  addr            Dial; the reference server answers whatever flight arrives
//	issue    addr            Dial, then the server issues a new ticket over that connection
//	restart                  new ClientFactory on the same state directory
//	age      addr delta      move the stored ticket's issue time delta seconds back (in memory)
//	agefile  addr delta      the same in the ticket file, then restart
//
// FaultGet / FaultPut: the ticket file cannot be written while the connect queries the store
// (the checkpoint after the removal of a redeemed ticket fails) / while the new ticket is stored.
type TOp struct {
	Op       string `json:"op"`
	Addr     int    `json:"addr,omitempty"`
	Delta    int64  `json:"delta,omitempty"`
	FaultGet bool   `json:"fault_get,omitempty"`
	FaultPut bool   `json:"fault_put,omitempty"`
	// StaleTmp: before this step a leftover temporary file of an interrupted checkpoint (arbitrary
	// content) lies next to the ticket file, as after a crash between its creation and the rename.
	// The history must behave exactly as without it.
	StaleTmp bool `json:"stale_tmp,omitempty"`
}

func (o TOp) String() string {
	switch o.Op {
	case "restart":
		return "restart"
	case "age", "agefile":
		return fmt.Sprintf("%s(%d,%d)", o.Op, o.Addr, o.Delta)
	}
	f := ""
	if o.StaleTmp {
		f += "~tmp"
	}
	if o.FaultGet {
		f += "!get"
	}
	if o.FaultPut {
		f += "!put"
	}
	return fmt.Sprintf("%s%s(%d)", o.Op, f, o.Addr)
}

// writeFault makes every write of the ticket file fail for the process (the harness runs as root,
// permissions would not): the file is moved aside and a non-empty directory takes its name, so
// neither an in-place write nor a rename onto it can succeed. clear() puts the old file back: the
// disk is then exactly as before the fault, as after any failed checkpoint.
type writeFault struct {
	file  string
	armed bool
	saved bool
}

func (w *writeFault) arm() {
	if w.armed {
		return
	}
	if _, err := os.Stat(w.file); err == nil {
		must(os.Rename(w.file, w.file+".aside"))
		w.saved = true
	}
	must(os.Mkdir(w.file, 0o700))
	must(os.WriteFile(filepath.Join(w.file, "blocker"), []byte("x"), 0o600))
	w.armed = true
}

func (w *writeFault) clear() {
	if !w.armed {
		return
	}
	must(os.RemoveAll(w.file))
	if w.saved {
		must(os.Rename(w.file+".aside", w.file))
	}
	w.armed, w.saved = false, false
}

func (e *env) ticketCases() {
	// fixed histories first: the textbook sequences of the property
	L := int64(ticketLifetime)
	fixed := [][]TOp{
		{{Op: "issue", Addr: 0}, {Op: "connect", Addr: 0}, {Op: "connect", Addr: 0}},
		{{Op: "issue", Addr: 0}, {Op: "restart"}, {Op: "connect", Addr: 0}, {Op: "restart"}, {Op: "connect", Addr: 0}},
		{{Op: "issue", Addr: 0}, {Op: "age", Addr: 0, Delta: L + 3600}, {Op: "connect", Addr: 0}, {Op: "connect", Addr: 0}},
		{{Op: "issue", Addr: 0}, {Op: "agefile", Addr: 0, Delta: L + 3600}, {Op: "connect", Addr: 0}},
		{{Op: "issue", Addr: 0}, {Op: "age", Addr: 0, Delta: L - 3600}, {Op: "connect", Addr: 0}},
		{{Op: "issue", Addr: 0}, {Op: "agefile", Addr: 0, Delta: L - 3600}, {Op: "connect", Addr: 0}, {Op: "restart"}, {Op: "connect", Addr: 0}},
		{{Op: "connect", Addr: 1}, {Op: "issue", Addr: 0}, {Op: "connect", Addr: 1}, {Op: "issue", Addr: 0}, {Op: "issue", Addr: 0}, {Op: "connect", Addr: 0}, {Op: "connect", Addr: 0}},
		{{Op: "issue", Addr: 0}, {Op: "issue", Addr: 1}, {Op: "restart"}, {Op: "connect", Addr: 1}, {Op: "restart"}, {Op: "connect", Addr: 0}, {Op: "connect", Addr: 1}},
		// a stale temporary file of an interrupted checkpoint: before the first store, before the redeeming connect
		{{Op: "issue", Addr: 0, StaleTmp: true}, {Op: "connect", Addr: 0}, {Op: "connect", Addr: 0}},
		{{Op: "issue", Addr: 0}, {Op: "connect", Addr: 0, StaleTmp: true}, {Op: "restart"}, {Op: "connect", Addr: 0}},
		{{Op: "issue", Addr: 0}, {Op: "restart", StaleTmp: true}, {Op: "connect", Addr: 0}, {Op: "issue", Addr: 0, StaleTmp: true}, {Op: "restart"}, {Op: "connect", Addr: 0}},
		// write faults: at the redeeming connect, at the storing of a new ticket, at both
		{{Op: "issue", Addr: 0}, {Op: "connect", Addr: 0, FaultGet: true}, {Op: "restart"}, {Op: "connect", Addr: 0}, {Op: "restart"}, {Op: "connect", Addr: 0}},
		{{Op: "issue", Addr: 0}, {Op: "connect", Addr: 0, FaultGet: true}, {Op: "connect", Addr: 0}, {Op: "restart"}, {Op: "connect", Addr: 0}, {Op: "connect", Addr: 0}},
		{{Op: "issue", Addr: 0, FaultPut: true}, {Op: "connect", Addr: 0}, {Op: "restart"}, {Op: "connect", Addr: 0}},
		{{Op: "issue", Addr: 0, FaultPut: true}, {Op: "restart"}, {Op: "connect", Addr: 0}},
		{{Op: "issue", Addr: 0}, {Op: "issue", Addr: 0, FaultGet: true, FaultPut: true}, {Op: "restart"}, {Op: "connect", Addr: 0}, {Op: "restart"}, {Op: "connect", Addr: 0}},
		{{Op: "issue", Addr: 0}, {Op: "issue", Addr: 1}, {Op: "connect", Addr: 0, FaultGet: true}, {Op: "connect", Addr: 1}, {Op: "restart"}, {Op: "connect", Addr: 0}, {Op: "connect", Addr: 1}, {Op: "restart"}, {Op: "connect", Addr: 0}},
		{{Op: "issue", Addr: 0}, {Op: "age", Addr: 0, Delta: L + 3600}, {Op: "connect", Addr: 0, FaultGet: true}, {Op: "restart"}, {Op: "connect", Addr: 0}},
	}
	for _, h := range fixed {
		e.ticketCase(Case{Kind: "tickets", Seed: e.seed, Ops: h})
	}
	rng := vlib.NewRng(e.seed ^ 0x71c4e7)
	n := e.r.Scale(30, 160)
	for i := 0; i < n; i++ {
		var h []TOp
		for j, m := 0, rng.Range(4, 14); j < m; j++ {
			a := rng.Intn(3)
			switch rng.Intn(10) {
			case 0, 1, 2:
				h = append(h, TOp{Op: "issue", Addr: a, FaultGet: rng.Intn(6) == 0, FaultPut: rng.Intn(6) == 0, StaleTmp: rng.Intn(5) == 0})
			case 3, 4, 5, 6:
				h = append(h, TOp{Op: "connect", Addr: a, FaultGet: rng.Intn(4) == 0, StaleTmp: rng.Intn(5) == 0})
			case 7:
				h = append(h, TOp{Op: "restart"})
			case 8:
				h = append(h, TOp{Op: "age", Addr: a, Delta: vlib.Pick(rng, []int64{L + 3600, L - 3600, 100, 2 * L})})
			case 9:
				h = append(h, TOp{Op: "agefile", Addr: a, Delta: vlib.Pick(rng, []int64{L + 3600, L - 3600, 100})})
			}
		}
		e.ticketCase(Case{Kind: "tickets", Seed: e.seed, Ops: h, Sub: uint64(i + 1)})
	}
}

func dumpStr(cf base.ClientFactory) string {
	d, err := scramblesuit.VerifTicketStoreDump(cf)
	must(err)
	var s []string
	for _, t := range d {
		s = append(s, fmt.Sprintf("%s/%x/%x/%d", t.Addr, t.Key, t.Ticket, t.IssuedAt))
	}
	return strings.Join(s, ",")
}

type issued struct {
	master []byte
	addr   string
	seen   int
}

// ticketCase runs one history on a fresh state directory with the real client and mirrors it on
// the Lean ticket-store model.
// S (from the property text): a ticket reaches the reference server at most once; a ticket the
// harness aged past its lifetime is never presented; with no ticket the client sends a UniformDH
// flight; whatever flight is sent verifies and the session then carries data both ways.
// C: flight kind and ticket bytes per connect, in-memory store, ticket file bytes, reload.
func (e *env) ticketCase(c Case) {
	dir, err := os.MkdirTemp("", "c15-tickets-")
	must(err)
	defer os.RemoveAll(dir)
	file := filepath.Join(dir, scramblesuit.VerifTicketFileName)
	cf, err := e.tr.ClientFactory(dir)
	must(err)
	e.call("st.reset")
	rng := vlib.NewRng(e.seed*8191 + c.Sub*127 + uint64(len(c.Ops)))
	addrs := []string{"192.0.2.1:443", "192.0.2.2:9001", "[2001:db8::1]:443"}
	tickets := map[string]*issued{} // by ticket hex
	var trace []string
	fault := &writeFault{file: file}
	defer fault.clear()
	presented, expiredSeen := 0, 0
	// once model and implementation disagree the correspondence part of this history is over
	// (one violation is recorded); the property oracle goes on to the end of the history
	diverged := false
	checkStore := func(where string) bool {
		if diverged {
			return true
		}
		impl := dumpStr(cf)
		model := e.call("st.dump")[1]
		if model == "-" {
			model = ""
		}
		e.r.Validated(1)
		if impl != model {
			e.r.Violate("model-impl-disagree-ticket-store", "correspondence",
				fmt.Sprintf("history %v, after %s: in-memory ticket store differs from the model (impl %d entries, model %q…)", trace, where, strings.Count(impl, ",")+1, trunc(model, 60)), c)
			diverged = true
		}
		return true
	}
	checkFile := func(where string) bool {
		if diverged {
			return true
		}
		b, err := os.ReadFile(file)
		rep := e.call("st.file")
		if err != nil {
			if rep[0] != "none" {
				e.r.Violate("ticket-file-missing", "correspondence", fmt.Sprintf("history %v, after %s: %v", trace, where, err), c)
				diverged = true
			}
			return true
		}
		if rep[0] != "ok" || !bytes.Equal(vlib.UnHex(rep[1]), b) {
			e.r.Violate("model-impl-disagree-ticket-file", "correspondence",
				fmt.Sprintf("history %v, after %s: ticket file differs from the model's serialisation: %q", trace, where, trunc(string(b), 120)), c)
			diverged = true
		}
		return true
	}
	restart := func() bool {
		now := time.Now().Unix()
		b, err := os.ReadFile(file)
		if err == nil {
			if rep := e.call("st.load %s %d", vlib.Hex(b), now); rep[0] != "ok" && !diverged {
				e.r.Violate("model-cannot-read-ticket-file", "correspondence", fmt.Sprintf("history %v: the ticket file is not of the shape serialize() writes: %q", trace, trunc(string(b), 200)), c)
				diverged = true
			}
		} else {
			e.call("st.reset")
		}
		cf, err = e.tr.ClientFactory(dir)
		if err != nil {
			e.r.Violate("restart-fails", "impl-oracle", fmt.Sprintf("history %v: ClientFactory on the state directory fails: %v", trace, err), c)
			return false
		}
		return checkStore("restart")
	}
	for i, op := range c.Ops {
		trace = append(trace, op.String())
		addr := addrs[op.Addr%len(addrs)]
		if op.StaleTmp {
			must(os.WriteFile(file+".tmp", rng.Bytes(rng.Range(0, 200)), 0o600))
			e.r.Count("ticket_op", "stale-tmp-present")
		}
		switch op.Op {
		case "restart":
			if !restart() {
				return
			}
		case "age":
			_, err := scramblesuit.VerifTicketStoreAge(cf, addr, op.Delta)
			must(err)
			e.call("st.age %s %d", addr, op.Delta)
			if !checkStore("age") {
				return
			}
		case "agefile":
			b, err := os.ReadFile(file)
			if err == nil {
				var m map[string]map[string]interface{}
				dec := json.NewDecoder(bytes.NewReader(b))
				dec.UseNumber()
				must(dec.Decode(&m))
				if ent, ok := m[addr]; ok {
					at, _ := ent["issuedAt"].(json.Number).Int64()
					ent["issuedAt"] = json.Number(fmt.Sprint(at - op.Delta))
					// same shape as the implementation writes: sorted keys, no white space
					var sb strings.Builder
					sb.WriteString("{")
					first := true
					for _, a := range sortedKeys(m) {
						if !first {
							sb.WriteString(",")
						}
						first = false
						fmt.Fprintf(&sb, "%q:{\"key-ticket\":%q,\"issuedAt\":%s}", a, m[a]["key-ticket"], m[a]["issuedAt"])
					}
					sb.WriteString("}")
					must(os.WriteFile(file, []byte(sb.String()), 0o600))
				}
			}
			if !restart() {
				return
			}
		case "connect", "issue":
			before := time.Now().Unix()
			// what the client holds for this bridge right now (observed, not derived)
			var held *scramblesuit.VerifTicket
			if d, err := scramblesuit.VerifTicketStoreDump(cf); err == nil {
				for k := range d {
					if d[k].Addr == addr {
						held = &d[k]
					}
				}
			}
			if op.FaultGet {
				fault.arm()
			}
			s, flight, hour, err := e.connect(c, cf, addr, int(rng.Intn(40)))
			fault.clear()
			wGet := "1"
			if op.FaultGet {
				wGet = "0"
				e.r.Count("write_fault", "at-connect")
			}
			model := e.call("st.connect %s %d %s", addr, before, wGet)
			if err != nil && op.FaultGet && held != nil {
				// the checkpoint after the removal of the held ticket failed and the client gave the
				// connection up: nothing may have been presented
				e.r.Count("flight", "none-checkpoint-error")
				if len(flight) != 0 {
					e.r.Violate("bytes-sent-by-failed-dial", "impl-oracle", fmt.Sprintf("history %v: Dial failed (%v) after writing %d bytes", trace, err, len(flight)), c)
					return
				}
				if !diverged && model[0] != "error" {
					e.r.Violate("model-impl-disagree-flight-kind", "correspondence",
						fmt.Sprintf("history %v: Dial failed with %v, model says %s", trace, err, model[0]), c)
					diverged = true
				}
				checkFile("connect under a write fault")
				checkStore("connect under a write fault")
				e.r.Count("ticket_op", op.Op)
				continue
			}
			if err != nil {
				e.r.Violate("handshake-fails", "impl-oracle", fmt.Sprintf("history %v: step %d handshake failed: %v", trace, i, err), c)
				return
			}
			if !diverged && model[0] == "error" {
				e.r.Violate("model-impl-disagree-flight-kind", "correspondence",
					fmt.Sprintf("history %v: the client went on (%s flight) although the checkpoint after the ticket removal failed; the model says the connection fails", trace, s.mode), c)
				diverged = true
			}
			id := "tk"
			if s.mode == "ticket" {
				presented++
				if len(flight) < 112+2*macLen {
					e.r.Violate("client-flight-not-conforming", "impl-oracle", "ticket flight too short", c)
					s.close()
					return
				}
				tk := fmt.Sprintf("%x", flight[:112])
				t := tickets[tk]
				if t == nil {
					e.r.Violate("unknown-ticket-presented", "impl-oracle", fmt.Sprintf("history %v: the client presented a ticket the server never issued", trace), c)
					s.close()
					return
				}
				t.seen++
				if t.seen > 1 {
					e.r.Violate("ticket-presented-twice", "impl-oracle",
						fmt.Sprintf("history %v: the ticket issued to %s reached the reference server in %d handshakes", trace, t.addr, t.seen), c)
					s.close()
					return
				}
				if held == nil || !bytes.Equal(held.Ticket, flight[:112]) {
					e.r.Violate("unknown-ticket-presented", "impl-oracle", fmt.Sprintf("history %v: the client presented a ticket it did not hold for %s", trace, addr), c)
					s.close()
					return
				}
				if held.IssuedAt+ticketLifetime <= before-5 {
					e.r.Violate("expired-ticket-presented", "impl-oracle",
						fmt.Sprintf("history %v: a ticket issued %d s ago (lifetime %d s) was presented", trace, before-held.IssuedAt, ticketLifetime), c)
					s.close()
					return
				}
				if t.addr != addr {
					e.r.Violate("ticket-for-other-bridge", "impl-oracle", fmt.Sprintf("history %v: ticket issued for %s presented to %s", trace, t.addr, addr), c)
					s.close()
					return
				}
				if acc := e.call("srv.accept.ticket %s %s %d", vlib.Hex(t.master), vlib.Hex(flight), hour); acc[0] != "ok" {
					e.r.Violate("reference-server-rejects-flight", "impl-oracle", fmt.Sprintf("history %v: the reference server rejects the ticket flight", trace), c)
					s.close()
					return
				}
				pad := flight[112 : len(flight)-2*macLen]
				mf := e.call("hello.ticket %s %s %s %d", vlib.Hex(t.master), vlib.Hex(flight[:112]), vlib.Hex(pad), hour)
				e.r.Validated(1)
				if !bytes.Equal(vlib.UnHex(mf[1]), flight) {
					e.r.Violate("model-impl-disagree-ticket-flight", "correspondence", "ticket flight differs from the model's", c)
				}
				if !diverged && (model[0] != "ticket" || model[2] != tk) {
					e.r.Violate("model-impl-disagree-flight-kind", "correspondence",
						fmt.Sprintf("history %v: client presented a ticket, model says %s", trace, model[0]), c)
					diverged = true
				}
				e.call("sess.new %s %s", id, vlib.Hex(t.master))
				e.r.Count("flight", "ticket")
			} else {
				if msg := checkFlightGo(e.kB, dhSize, flight, hour); msg != "" {
					e.r.Violate("client-flight-not-conforming", "impl-oracle", "UniformDH flight: "+msg, c)
					s.close()
					return
				}
				if held == nil {
					e.r.Count("fallback", "no-ticket")
				} else if held.IssuedAt+ticketLifetime <= before {
					expiredSeen++
					e.r.Count("fallback", "expired-ticket")
				} else {
					e.r.Count("fallback", "valid-ticket-not-used")
				}
				if !diverged && model[0] != "dh" {
					e.r.Violate("model-impl-disagree-flight-kind", "correspondence",
						fmt.Sprintf("history %v: client sent a UniformDH flight, model says %s", trace, model[0]), c)
					diverged = true
				}
				e.call("sess.new %s %s", id, vlib.Hex(e.dhSeed))
				e.r.Count("flight", "uniformdh")
			}
			s.id = id
			if held != nil {
				// getTicket rewrote the file without the ticket
				if !checkFile("connect") || !checkStore("connect") {
					s.close()
					return
				}
			}
			// the session must carry data both ways (both sides derived the same keys)
			if !e.echo(s, rng, c, trace) {
				s.close()
				return
			}
			if op.Op == "issue" {
				master, tk := rng.Bytes(32), rng.Bytes(112)
				raw := append(append([]byte(nil), master...), tk...)
				w := e.srvSend(id, spkt{flagTkt, raw, int(rng.Intn(30))})
				w = append(w, e.srvSend(id, spkt{flagData, []byte("ack"), 0})...)
				t0 := time.Now().Unix()
				wPut := "1"
				if op.FaultPut {
					fault.arm()
					wPut = "0"
					e.r.Count("write_fault", "at-store")
				}
				s.sc.Feed(w)
				got, rerr, _, pan := s.read(3, 100)
				fault.clear()
				t1 := time.Now().Unix()
				if pan != nil || rerr != nil || string(got) != "ack" {
					e.r.Violate("stream-not-exact-server-to-client", "impl-oracle",
						fmt.Sprintf("history %v: ticket packet followed by \"ack\": client delivered %q err=%v panic=%v", trace, got, rerr, pan), c)
					s.close()
					return
				}
				d, _ := scramblesuit.VerifTicketStoreDump(cf)
				at := int64(-1)
				for _, x := range d {
					if x.Addr == addr && bytes.Equal(x.Ticket, tk) && bytes.Equal(x.Key, master) {
						at = x.IssuedAt
					}
				}
				if at < t0 || at > t1 {
					e.r.Violate("issued-ticket-not-stored", "correspondence",
						fmt.Sprintf("history %v: after the new-ticket packet the store has no entry for %s with that ticket and an issue time in [%d,%d] (found %d)", trace, addr, t0, t1, at), c)
					s.close()
					return
				}
				tickets[fmt.Sprintf("%x", tk)] = &issued{master: master, addr: addr}
				e.call("st.store %s %s %d %s", addr, vlib.Hex(raw), at, wPut)
				if !checkFile("issue") || !checkStore("issue") {
					s.close()
					return
				}
				e.r.Count("ticket_op", "issued")
			}
			s.close()
		default:
			must(fmt.Errorf("unknown ticket op %q", op.Op))
		}
		e.r.Count("ticket_op", op.Op)
	}
	e.r.Case("tickets/"+strings.Join(trace, ","), presented > 0 || expiredSeen > 0)
	e.r.Count("kind", "tickets")
	e.r.Sample(8, map[string]interface{}{"kind": "tickets", "history": trace, "tickets_presented": presented, "expired_fallbacks": expiredSeen})
}

func sortedKeys(m map[string]map[string]interface{}) []string {
	var ks []string
	for k := range m {
		ks = append(ks, k)
	}
	for i := range ks {
		for j := i + 1; j < len(ks); j++ {
			if ks[j] < ks[i] {
				ks[i], ks[j] = ks[j], ks[i]
			}
		}
	}
	return ks
}

// echo sends a few bytes each way over an established session.
func (e *env) echo(s *session, rng *vlib.Rng, c Case, trace []string) bool {
	down := rng.Bytes(rng.Range(1, 50))
	s.sc.Feed(e.srvSend(s.id, spkt{flagData, down, int(rng.Intn(20))}))
	got, rerr, _, pan := s.read(len(down), 4096)
	if pan != nil || rerr != nil || !bytes.Equal(got, down) {
		e.r.Violate("stream-not-exact-server-to-client", "impl-oracle",
			fmt.Sprintf("history %v (%s handshake): client delivered %x err=%v panic=%v, server sent %x", trace, s.mode, got, rerr, pan, down), c)
		return false
	}
	up := rng.Bytes(rng.Range(1, 50))
	var werr error
	op := s.sc.Start(func() { _, werr = s.conn.Write(up) })
	waitDone(op)
	wire := s.sc.TakeWritten()
	if op.Panic != nil || werr != nil {
		e.r.Violate("client-write-fails", "impl-oracle", fmt.Sprintf("Write: %v / %v", werr, op.Panic), c)
		return false
	}
	rep := e.call("srv.feed %s %s", s.id, vlib.Hex(wire))
	if rep[0] != "ok" || !bytes.Equal(vlib.UnHex(rep[1]), up) {
		e.r.Violate("stream-not-exact-client-to-server", "impl-oracle",
			fmt.Sprintf("history %v (%s handshake): the reference server cannot decode the client's packets (%v)", trace, s.mode, rep[0]), c)
		return false
	}
	return true
}
