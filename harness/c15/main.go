// C15 — ScrambleSuit client: the real client (transports.Get("scramblesuit") → ClientFactory →
// ParseArgs → Dial → Read/Write) runs over an in-memory conn against the Lean reference server
// (driver `ssuit`); the Lean client model predicts what the client does (C), and oracles written
// from the property text judge the client itself (S).
package main

import (
	"bytes"
	"crypto/hmac"
	"crypto/sha256"
	"encoding/base32"
	"encoding/json"
	"fmt"
	"net"
	"os"
	"path/filepath"
	"sort"
	"strconv"
	"strings"
	"sync"
	"time"

	pt "gitlab.torproject.org/tpo/anti-censorship/pluggable-transports/goptlib"

	"gitlab.com/yawning/obfs4.git/common/csrand"
	"gitlab.com/yawning/obfs4.git/transports"
	"gitlab.com/yawning/obfs4.git/transports/base"

	"verif/harness/vlib"
)

const (
	dhSize    = 192
	macLen    = 16
	maxHsLen  = 1532
	maxPad    = 1308
	mss       = 1448
	pktOvh    = 21
	maxPktPay = 1427
	flagData  = 1
	flagTkt   = 2
	flagSeed  = 4
)

// Case is the replayable description of one evaluated case (every kind).
type Case struct {
	Kind   string `json:"kind"`
	Seed   uint64 `json:"seed"`             // run seed the environment derives from
	PadLen int    `json:"pad_len,omitempty"`
	Split  int    `json:"split,omitempty"`  // split point of the server stream (response ++ first packet)
	Sizes  []int  `json:"sizes,omitempty"`  // chunk sizes
	Bit    int    `json:"bit,omitempty"`    // flipped bit
	Target string `json:"target,omitempty"` // which packet / which part
	Hex    string `json:"hex,omitempty"`    // explicit stream
	Ops    []TOp  `json:"ops,omitempty"`    // ticket history
	Sub    uint64 `json:"sub,omitempty"`    // sub-seed of the case generator
	Fast   bool   `json:"fast,omitempty"`   // split cases: client key pair with a short private exponent
	Str    string `json:"str,omitempty"`
}

// env is everything one run shares: the shared secret, the client's arguments (one UniformDH
// key pair, recorded from the random tape) and one server key pair.
type env struct {
	r       *vlib.Run
	d       *vlib.Driver
	tape    *vlib.RandTape
	seed    uint64
	kB      []byte
	pw      string
	stateD  string
	tr      base.Transport
	cf      base.ClientFactory
	ca      any
	cliPriv []byte
	cliPub  []byte
	srvPriv []byte
	srvPub  []byte
	dhSeed  []byte // sha256(shared secret) as computed by the reference server
	respC   map[string][]byte
	dmu     sync.Mutex
	rmu     sync.Mutex
	traceC  map[string]string
	opTime  map[string]time.Duration
	opCount map[string]int
	full    *keyset // the client key pair ParseArgs drew (1536 random bits)
	fast    *keyset // a second client key pair with a 48-bit private exponent (cheap modexp; bulk split enumeration)
}

// keyset is one client UniformDH key pair (as ParseArgs result) with the session secret the
// reference server derives for it and the two packets the split cases send.
type keyset struct {
	ca   any
	priv []byte
	pub  []byte
	seed []byte
	pk   *splitPkts
	name string
}

func curHour() int64 { return time.Now().Unix() / 3600 }

func must(err error) {
	if err != nil {
		fmt.Fprintln(os.Stderr, "harness:", err)
		os.Exit(3)
	}
}

// call sends one op to the Lean driver and splits the reply.
func (e *env) call(format string, args ...interface{}) []string {
	rep := e.callRaw(format, args...)
	f := strings.Fields(rep)
	if len(f) == 0 || f[0] == "bad-op" || strings.HasPrefix(rep, "driver-error") {
		fmt.Fprintf(os.Stderr, "harness: driver refused %q: %q\n", trunc(fmt.Sprintf(format, args...), 200), trunc(rep, 200))
		os.Exit(3)
	}
	return f
}

func b32(b []byte) string { return base32.StdEncoding.EncodeToString(b) }

// callRaw serialises access to the driver (worker goroutines may need it when the hour changes).
func (e *env) callRaw(format string, args ...interface{}) string {
	e.dmu.Lock()
	defer e.dmu.Unlock()
	t0 := time.Now()
	rep := e.d.Call(format, args...)
	op := format
	if i := strings.IndexByte(op, ' '); i > 0 {
		op = op[:i]
	}
	if e.opTime == nil {
		e.opTime = map[string]time.Duration{}
		e.opCount = map[string]int{}
	}
	e.opTime[op] += time.Since(t0)
	e.opCount[op]++
	return rep
}

func trunc(s string, n int) string {
	if len(s) > n {
		return s[:n] + "…"
	}
	return s
}

func newEnv(r *vlib.Run, d *vlib.Driver, seed uint64) *env {
	e := &env{r: r, d: d, seed: seed, respC: map[string][]byte{}}
	e.tape = vlib.InstallRandTape(seed)
	csrand.Reader = e.tape
	rng := vlib.NewRng(seed ^ 0x55)
	e.kB = rng.Bytes(20)
	e.pw = base32.StdEncoding.EncodeToString(e.kB)
	must(transports.Init())
	e.tr = transports.Get("scramblesuit")
	if e.tr == nil {
		must(fmt.Errorf("scramblesuit transport not registered"))
	}
	var err error
	e.stateD, err = os.MkdirTemp("", "c15-state-")
	must(err)
	e.cf, err = e.tr.ClientFactory(e.stateD)
	must(err)
	m := e.tape.Mark()
	e.ca, err = e.cf.ParseArgs(pwArgs(e.pw))
	must(err)
	drawn := e.tape.Since(m)
	if len(drawn) < dhSize {
		must(fmt.Errorf("ParseArgs drew %d random bytes, expected the %d-byte UniformDH private key", len(drawn), dhSize))
	}
	e.cliPriv = drawn[:dhSize]
	e.cliPub = vlib.UnHex(e.call("dh.pub %s", vlib.Hex(e.cliPriv))[1])
	e.srvPriv = rng.Bytes(dhSize)
	e.srvPub = vlib.UnHex(e.call("dh.pub %s", vlib.Hex(e.srvPriv))[1])
	e.dhSeed = vlib.UnHex(e.call("dh.seed %s %s", vlib.Hex(e.srvPriv), vlib.Hex(e.cliPub))[1])
	e.full = &keyset{ca: e.ca, priv: e.cliPriv, pub: e.cliPub, seed: e.dhSeed, name: "full"}
	// second key pair: the tape is steered so that ParseArgs draws a private key with 48 random bits
	fp := make([]byte, dhSize)
	copy(fp[dhSize-6:], rng.Bytes(6))
	e.tape.Steer = append([]byte(nil), fp...)
	fca, err := e.cf.ParseArgs(pwArgs(e.pw))
	must(err)
	if len(e.tape.Steer) != 0 {
		must(fmt.Errorf("ParseArgs did not draw the steered private key"))
	}
	e.fast = &keyset{ca: fca, priv: fp, name: "fast"}
	e.fast.pub = vlib.UnHex(e.call("dh.pub %s", vlib.Hex(fp))[1])
	e.fast.seed = vlib.UnHex(e.call("dh.seed %s %s", vlib.Hex(e.srvPriv), vlib.Hex(e.fast.pub))[1])
	return e
}

func (e *env) cleanup() { os.RemoveAll(e.stateD) }

func pwArgs(pw string) *pt.Args {
	a := &pt.Args{}
	a.Add("password", pw)
	return a
}

// addrConn gives a ScriptConn a chosen remote address (the ticket store is keyed by it).
type addrConn struct {
	*vlib.ScriptConn
	addr string
}

type strAddr string

func (a strAddr) Network() string { return "tcp" }
func (a strAddr) String() string  { return string(a) }

func (c *addrConn) RemoteAddr() net.Addr { return strAddr(c.addr) }

// dial starts cf.Dial over a fresh ScriptConn.
type dialing struct {
	sc   *vlib.ScriptConn
	op   *vlib.Op
	conn net.Conn
	err  error
}

func startDial(cf base.ClientFactory, ca any, addr string) *dialing {
	dl := &dialing{sc: vlib.NewScriptConn()}
	dl.op = dl.sc.Start(func() {
		dl.conn, dl.err = cf.Dial("tcp", addr, func(string, string) (net.Conn, error) {
			return &addrConn{dl.sc, addr}, nil
		}, ca)
	})
	return dl
}

// serverResp returns (cached) the reference server's UniformDH response for a padding.
func (e *env) serverResp(kB []byte, pad []byte, hour int64) []byte {
	return e.serverRespFor(e.srvPriv, kB, pad, hour)
}

// serverRespFor: the same for a chosen server private key.
func (e *env) serverRespFor(srvPriv, kB []byte, pad []byte, hour int64) []byte {
	key := fmt.Sprintf("%x/%x/%x/%d", sha256.Sum256(srvPriv), kB, sha256.Sum256(pad), hour)
	e.rmu.Lock()
	r, ok := e.respC[key]
	e.rmu.Unlock()
	if ok {
		return r
	}
	r = vlib.UnHex(e.call("srv.resp %s %s %s %d", vlib.Hex(kB), vlib.Hex(srvPriv), vlib.Hex(pad), hour)[1])
	e.rmu.Lock()
	e.respC[key] = r
	e.rmu.Unlock()
	return r
}

// checkFlightGo is the property-level conformance test of a client first flight, written
// directly from the wire format  id | P | M | MAC(id | P | M | E)  (independent of the model).
func checkFlightGo(key []byte, idLen int, flight []byte, hour int64) string {
	if len(flight) < idLen+2*macLen || len(flight) > maxHsLen {
		return fmt.Sprintf("flight length %d outside [%d,%d]", len(flight), idLen+2*macLen, maxHsLen)
	}
	m := hmac.New(sha256.New, key)
	m.Write(flight[:idLen])
	mark := m.Sum(nil)[:macLen]
	if !bytes.Equal(flight[len(flight)-2*macLen:len(flight)-macLen], mark) {
		return "mark M is not at the end of the padding"
	}
	if i := bytes.Index(flight[idLen:len(flight)-macLen], mark); i != len(flight)-2*macLen-idLen {
		return "mark occurs inside the padding" // 2^-128; reported so that it is never silently skipped
	}
	m.Reset()
	m.Write(flight[:len(flight)-macLen])
	m.Write([]byte(strconv.FormatInt(hour, 10)))
	if !bytes.Equal(m.Sum(nil)[:macLen], flight[len(flight)-macLen:]) {
		return "MAC over id|P|M|E does not verify for the current hour"
	}
	return ""
}

func chunkAt(b []byte, sizes []int) [][]byte {
	var out [][]byte
	for _, n := range sizes {
		if n <= 0 || len(b) == 0 {
			continue
		}
		if n > len(b) {
			n = len(b)
		}
		out = append(out, b[:n])
		b = b[n:]
	}
	if len(b) > 0 {
		out = append(out, b)
	}
	return out
}

func hexList(cs [][]byte) string {
	if len(cs) == 0 {
		return "-"
	}
	s := make([]string, len(cs))
	for i, c := range cs {
		s[i] = vlib.Hex(c)
	}
	return strings.Join(s, ",")
}

func intList(xs []int) string {
	if len(xs) == 0 {
		return "-"
	}
	s := make([]string, len(xs))
	for i, x := range xs {
		s[i] = strconv.Itoa(x)
	}
	return strings.Join(s, ",")
}

// cutReads cuts fed chunks the way successive Reads into a buffer of `lim` bytes see them.
func cutReads(chunks [][]byte, lim int) [][]byte {
	var out [][]byte
	for _, c := range chunks {
		for len(c) > lim {
			out = append(out, c[:lim])
			c = c[lim:]
		}
		if len(c) > 0 {
			out = append(out, c)
		}
	}
	return out
}

func (e *env) runCase(c Case) {
	switch c.Kind {
	case "split":
		e.splitCase(c, nil)
	case "hs-parse":
		e.hsParseCase(c)
	case "wrong-secret", "tampered-response", "reflection":
		e.noCompleteCase(c)
	case "garbage":
		e.garbageCase(c)
	case "flipmix":
		e.flipMixCase(c)
	case "dh-edge":
		e.dhEdgeCase(c)
	case "reseed":
		e.reseedCase(c)
	case "eos":
		e.eosCase(c)
	case "recover":
		e.recoverCase(c)
	case "data":
		e.dataCase(c)
	case "flip":
		e.flipCase(c, nil)
	case "tickets":
		e.ticketCase(c)
	case "password":
		e.passwordCase(c)
	case "hello":
		e.helloCase(c)
	default:
		must(fmt.Errorf("unknown case kind %q", c.Kind))
	}
}

func corpusCases() []Case {
	dir := filepath.Join(os.Getenv("VERIF_DIR"), "corpus", "C15")
	files, _ := filepath.Glob(filepath.Join(dir, "*.json"))
	sort.Strings(files)
	var out []Case
	for _, f := range files {
		b, err := os.ReadFile(f)
		if err != nil {
			continue
		}
		var doc struct {
			Case Case `json:"case"`
		}
		if json.Unmarshal(b, &doc) == nil && doc.Case.Kind != "" {
			out = append(out, doc.Case)
		}
	}
	return out
}

func main() {
	r := vlib.NewRun("C15")
	r.Rule = "kinds: split (server response ++ first packet cut at one point, real Dial; non-trivial = cut strictly inside the response), dh-edge (full handshake + data both ways with key pairs steered so that the shared secret, the server's or the client's public value starts with zero bytes; all non-trivial), hs-parse (parser hook on valid/malformed responses under random chunkings; non-trivial = ≥2 chunks), wrong-secret / tampered-response (non-trivial = all), data (packet streams both directions under chunk/write-size classes; non-trivial = a chunk boundary falls inside a packet or ≥2 packets), flip (every bit of one packet of each legal edge shape incl. header-only; all non-trivial), flipmix (one bit of one packet of a mixed burst), eos (the last packets arrive in the same underlying read as EOF/reset/timeout, caller buffers 1..70000; all non-trivial), recover (a timeout of the underlying conn, alone or together with data, then more data; all non-trivial), reseed (many PRNG-seed packets processed by a Read while another goroutine Writes; all non-trivial), tickets (histories of connect/issue/restart/age; non-trivial = a ticket is presented or expires), password, hello; distinct by canonical case text"
	r.Assumptions = []string{
		"no false mark: the 16-byte mark does not occur in random padding (2^-128 per position); a generated case where it does is reported, not skipped",
		"the epoch hour does not change between the client's flight and the server's answer (re-read per case; a case straddling the hour is redone)",
	}
	d := r.Driver("ssuit")
	defer d.Close()

	if r.ReplayIn != "" {
		var c Case
		must(r.LoadReplay(&c))
		e := newEnv(r, d, c.Seed)
		e.runCase(c)
		e.cleanup()
		r.Finish()
	}

	e := newEnv(r, d, r.Seed)
	for _, c := range corpusCases() {
		// corpus cases re-create their own environment only when recorded under another seed
		if c.Seed == r.Seed {
			e.runCase(c)
		} else {
			r.Notes["corpus_other_seed"] = "corpus cases recorded under another seed are replayed with ./check C15 --replay"
			c2 := c
			c2.Seed = r.Seed // same structural case (pad length / split / bit) in this run's environment
			e.runCase(c2)
		}
		r.Count("kind", "corpus")
	}
	// C15_ONLY=<kind,...> restricts a development run to some sections (never set by ./check)
	only := os.Getenv("C15_ONLY")
	want := func(k string) bool { return only == "" || strings.Contains(","+only+",", ","+k+",") }
	if only != "" {
		r.Notes["restricted_to"] = only
	}
	sections := []struct {
		name string
		run  func()
	}{
		{"hello", e.helloCases}, {"password", e.passwordCases}, {"split", e.splitCases},
		{"dh-edge", e.dhEdgeCases}, {"hs-parse", e.hsParseCases}, {"nocomplete", e.noCompleteCases}, {"data", e.dataCases},
		{"garbage", e.garbageCases}, {"flip", e.flipCases}, {"flipmix", e.flipMixCases}, {"reseed", e.reseedCases}, {"eos", e.eosCases}, {"recover", e.recoverCases}, {"tickets", e.ticketCases},
	}
	for _, s := range sections {
		if want(s.name) {
			t0 := time.Now()
			s.run()
			r.Notes["section_wall_s_"+s.name] = fmt.Sprintf("%.1f", time.Since(t0).Seconds())
		}
	}
	drv := map[string]string{}
	for op, d := range e.opTime {
		drv[op] = fmt.Sprintf("%d calls, %.1f s", e.opCount[op], d.Seconds())
	}
	r.Notes["driver_ops"] = drv
	e.cleanup()
	r.Finish()
}
