package main

import (
	"bytes"
	"errors"
	"fmt"
	"io"
	"net"
	"syscall"
	"runtime"
	"strings"
	"sync"
	"time"

	"gitlab.com/yawning/obfs4.git/transports/base"
	"gitlab.com/yawning/obfs4.git/transports/scramblesuit"

	"verif/harness/vlib"
)

// session is one client connection and the reference server's side of it in the Lean driver.
type session struct {
	e    *env
	id   string
	dl   *dialing
	sc   *vlib.ScriptConn
	conn net.Conn
	pend *pendingRead
	mode string // "dh" | "ticket"
}

type pendingRead struct {
	op  *vlib.Op
	buf []byte
	n   int
	err error
}

// connect dials through cf. For a UniformDH flight the reference server answers (padding
// `padLen`, whole response in one segment); a ticket flight needs no answer. The caller tells
// the driver which master secret the session runs under (`sess.new`).
func (e *env) connect(c Case, cf base.ClientFactory, addr string, padLen int) (s *session, flight []byte, hour int64, err error) {
	for try := 0; try < 3; try++ {
		hour = curHour()
		dl := startDial(cf, e.ca, addr)
		fin := dl.sc.Wait(dl.op)
		flight = dl.sc.TakeWritten()
		s = &session{e: e, dl: dl, sc: dl.sc}
		if fin {
			if dl.op.Panic != nil {
				return nil, flight, hour, fmt.Errorf("Dial panicked: %v", dl.op.Panic)
			}
			if dl.err != nil {
				return nil, flight, hour, dl.err
			}
			if curHour() != hour {
				dl.sc.Close()
				continue
			}
			s.mode, s.conn = "ticket", dl.conn
			e.dialDone(c, dl.sc, true)
			return s, flight, hour, nil
		}
		resp := e.serverResp(e.kB, e.padFor(padLen), hour)
		dl.sc.Feed(resp)
		fin = dl.sc.Wait(dl.op)
		if curHour() != hour {
			dl.sc.Close()
			dl.sc.Wait(dl.op)
			continue
		}
		if !fin {
			dl.sc.Close()
			dl.sc.Wait(dl.op)
			return nil, flight, hour, fmt.Errorf("Dial blocked after the whole response")
		}
		if dl.op.Panic != nil {
			return nil, flight, hour, fmt.Errorf("Dial panicked: %v", dl.op.Panic)
		}
		if dl.err != nil {
			return nil, flight, hour, dl.err
		}
		s.mode, s.conn = "dh", dl.conn
		e.dialDone(c, dl.sc, false)
		return s, flight, hour, nil
	}
	return nil, nil, 0, fmt.Errorf("hour changed three times in a row")
}

func (s *session) close() {
	if !s.sc.Closed() {
		s.sc.Close()
	}
	if s.pend != nil {
		s.sc.Wait(s.pend.op)
		s.pend = nil
	}
}

// read collects up to `want` bytes from conn.Read (buffers of bufSize). It stops early on an
// error, a panic, or when the client blocks in its network read (blocked=true; the Read stays
// pending and is resumed by the next call).
func (s *session) read(want, bufSize int) (got []byte, err error, blocked bool, pan interface{}) {
	for len(got) < want || want == 0 {
		if s.pend == nil {
			p := &pendingRead{buf: make([]byte, bufSize)}
			p.op = s.sc.Start(func() { p.n, p.err = s.conn.Read(p.buf) })
			s.pend = p
		}
		p := s.pend
		if !s.sc.Wait(p.op) {
			return got, nil, true, nil
		}
		s.pend = nil
		if p.op.Panic != nil {
			return got, nil, false, p.op.Panic
		}
		got = append(got, p.buf[:p.n]...)
		if p.err != nil {
			return got, p.err, false, nil
		}
	}
	return got, nil, false, nil
}

type spkt struct {
	flag int
	data []byte
	pad  int
}

func (e *env) srvSend(id string, p spkt) []byte {
	rep := e.call("srv.send %s %d %s %d", id, p.flag, vlib.Hex(p.data), p.pad)
	if rep[0] != "ok" {
		must(fmt.Errorf("srv.send refused: %v", rep))
	}
	return vlib.UnHex(rep[1])
}

// chunker classes for a stream whose packet boundaries are known
func chunkSizes(rng *vlib.Rng, class string, total int, bounds []int) []int {
	var sizes []int
	switch class {
	case "whole":
	case "bytes":
		for i := 0; i < total; i++ {
			sizes = append(sizes, 1)
		}
	case "mss":
		for i := 0; i < total; i += mss {
			sizes = append(sizes, mss)
		}
	case "boundary+-1":
		// cut one byte before / at / after packet boundaries and inside MAC and header
		prev := 0
		for _, b := range bounds {
			cut := b + vlib.Pick(rng, []int{-1, 0, 1, macLen - 1, macLen, macLen + 1, pktOvh - 1, pktOvh, pktOvh + 1})
			if cut > prev && cut < total {
				sizes = append(sizes, cut-prev)
				prev = cut
			}
		}
	case "random":
		for left := total; left > 0; {
			n := rng.Range(1, 700)
			sizes = append(sizes, n)
			left -= n
		}
	}
	return sizes
}

var chunkClasses = []string{"whole", "bytes", "mss", "boundary+-1", "random"}

func (e *env) dataCases() {
	n := e.r.Scale(120, 700)
	for i := 0; i < n; i++ {
		e.dataCase(Case{Kind: "data", Seed: e.seed, Sub: uint64(i)})
	}
}

// dataCase: one UniformDH connection, then rounds of server→client packet bursts (payload, ticket,
// seed, empty and padded packets; every chunker) and client→server writes (size classes).
// S: both directions deliver exactly the bytes written, tickets/seeds never surface.
// C: the client packet-reader model and the client writer model agree with the implementation.
func (e *env) dataCase(c Case) {
	rng := vlib.NewRng(e.seed*977 + c.Sub*131 + 3)
	addr := fmt.Sprintf("10.1.%d.%d:443", c.Sub/250, c.Sub%250)
	s, _, _, err := e.connect(c, e.cf, addr, vlib.Pick(rng, []int{0, 5, 700}))
	if err != nil {
		e.r.Violate("handshake-fails", "impl-oracle", "plain UniformDH handshake failed: "+err.Error(), c)
		return
	}
	defer s.close()
	if s.mode != "dh" {
		e.r.Violate("unexpected-ticket-flight", "impl-oracle", "client sent a ticket flight to an address it never got a ticket for", c)
		return
	}
	s.id = "data"
	e.call("sess.new %s %s", s.id, vlib.Hex(e.dhSeed))
	rounds := rng.Range(2, 5)
	var trace []string
	nontrivial := false
	for round := 0; round < rounds; round++ {
		if rng.Intn(2) == 0 {
			// ---- server → client
			var wire, want []byte
			var bounds []int
			npk := rng.Range(1, 6)
			tickets, seeds := 0, 0
			for i := 0; i < npk; i++ {
				var p spkt
				switch rng.Intn(10) {
				case 0:
					p = spkt{flagTkt, rng.Bytes(144), vlib.Pick(rng, []int{0, 9})}
					tickets++
				case 1:
					p = spkt{flagSeed, rng.Bytes(32), vlib.Pick(rng, []int{0, 40})}
					seeds++
				case 2, 3:
					// legal edge shapes: header-only, padding only, maximal padding
					p = spkt{flagData, nil, vlib.Pick(rng, []int{0, 0, 0, 1, 500, maxPktPay})}
				default:
					dl := vlib.Pick(rng, []int{1, 2, 16, 21, 100, 1000, maxPktPay - 1, maxPktPay, rng.Range(1, maxPktPay)})
					pad := vlib.Pick(rng, []int{0, 0, 1, rng.Range(0, maxPktPay-dl)})
					if dl+pad > maxPktPay {
						pad = 0
					}
					p = spkt{flagData, rng.Bytes(dl), pad}
				}
				w := e.srvSend(s.id, p)
				wire = append(wire, w...)
				bounds = append(bounds, len(wire))
				if p.flag == flagData {
					want = append(want, p.data...)
				}
			}
			class := vlib.Pick(rng, chunkClasses)
			if class == "bytes" && len(wire) > 3000 {
				class = "random"
			}
			sizes := chunkSizes(rng, class, len(wire), bounds)
			chunks := cutReads(chunkAt(wire, sizes), mss)
			if len(chunks) > 1 || npk > 1 {
				nontrivial = true
			}
			for _, ch := range chunks {
				s.sc.Feed(ch)
			}
			rbuf := vlib.Pick(rng, []int{1, 7, 1500, 70000})
			if rbuf == 1 && len(want) > 1500 {
				rbuf = 7
			}
			got, rerr, _, pan := s.read(len(want), rbuf)
			if len(want) == 0 || true {
				// let the client drain whatever is queued (ticket/seed packets after the last payload)
				g2, e2, _, p2 := s.drain()
				got = append(got, g2...)
				if rerr == nil {
					rerr = e2
				}
				if pan == nil {
					pan = p2
				}
			}
			trace = append(trace, fmt.Sprintf("s>c %dpk/%dB %s", npk, len(wire), class))
			e.r.Count("chunker", class)
			e.r.Count("s2c_packets", fmt.Sprintf("%d", npk))
			if tickets > 0 {
				e.r.Count("s2c_special", "ticket")
			}
			if seeds > 0 {
				e.r.Count("s2c_special", "seed")
			}
			if pan != nil || rerr != nil || !bytes.Equal(got, want) {
				e.r.Violate("stream-not-exact-server-to-client", "impl-oracle",
					fmt.Sprintf("server sent %d packets (%d payload bytes, %d ticket, %d seed packets) in %q chunks: client delivered %d bytes (equal=%v) err=%v panic=%v",
						npk, len(want), tickets, seeds, class, len(got), bytes.Equal(got, want), rerr, pan), c)
				return
			}
			// model of the client's reader on the same reads
			var mdel []byte
			mt, ms := 0, 0
			if rep := e.call("cli.rxs %s %s", s.id, hexList(chunks)); rep[0] == "ok" {
				mdel = vlib.UnHex(rep[1])
				for _, ev := range strings.Split(rep[2], ",") {
					switch {
					case strings.HasPrefix(ev, "T"):
						mt++
					case strings.HasPrefix(ev, "S"):
						ms++
					case ev == "E":
						mt = -1000
					}
				}
			}
			e.r.Validated(1)
			if !bytes.Equal(mdel, got) || mt != tickets || ms != seeds {
				e.r.Violate("model-impl-disagree-reader", "correspondence",
					fmt.Sprintf("reader model delivered %d bytes, %d tickets, %d seeds; implementation %d bytes, server sent %d tickets, %d seeds",
						len(mdel), mt, ms, len(got), tickets, seeds), c)
				return
			}
			if rx, dec, ok := scramblesuit.VerifBufferSizes(s.conn); ok && (rx >= maxPktPay+mss || dec > 0) {
				e.r.Violate("buffer-over-bound", "impl-oracle", fmt.Sprintf("after draining: receive buffer %d bytes, decoded buffer %d bytes", rx, dec), c)
			}
		} else {
			// ---- client → server
			size := vlib.Pick(rng, []int{0, 1, 2, maxPktPay - 1, maxPktPay, maxPktPay + 1, 2*maxPktPay - 1, 2 * maxPktPay, 2*maxPktPay + 1, 5000, rng.Range(1, 4000)})
			if e.r.Thorough() && rng.Intn(40) == 0 {
				size = vlib.Pick(rng, []int{65535, 65536, 65537})
			}
			data := rng.Bytes(size)
			var n int
			var werr error
			op := s.sc.Start(func() { n, werr = s.conn.Write(data) })
			waitDone(op)
			writes := s.sc.TakeWrites()
			var wire []byte
			for _, w := range writes {
				wire = append(wire, w...)
			}
			trace = append(trace, fmt.Sprintf("c>s %dB→%dB", size, len(wire)))
			e.r.Count("write_size", sizeClass(size))
			if op.Panic != nil || werr != nil || n != size {
				e.r.Violate("client-write-fails", "impl-oracle", fmt.Sprintf("Write(%d bytes) = %d, %v, panic %v", size, n, werr, op.Panic), c)
				return
			}
			// reference server decodes the burst (fed in segments)
			var got []byte
			shapes := ""
			for _, ch := range chunkAt(wire, chunkSizes(rng, vlib.Pick(rng, []string{"whole", "mss", "random"}), len(wire), nil)) {
				rep := e.call("srv.feed %s %s", s.id, vlib.Hex(ch))
				if rep[0] != "ok" {
					e.r.Violate("reference-server-rejects-client-packets", "impl-oracle",
						fmt.Sprintf("the reference server rejects the packets of Write(%d bytes)", size), c)
					return
				}
				got = append(got, vlib.UnHex(rep[1])...)
				shapes += rep[2] + ";"
			}
			if !bytes.Equal(got, data) {
				e.r.Violate("stream-not-exact-client-to-server", "impl-oracle",
					fmt.Sprintf("Write(%d bytes): the reference server decoded %d bytes (equal=false)", size, len(got)), c)
				return
			}
			if len(wire) > maxPktPay {
				nontrivial = true
			}
			rep := e.call("cli.write %s %s %s", s.id, vlib.Hex(data), vlib.Hex(wire))
			e.r.Validated(1)
			if rep[0] != "ok" {
				e.r.Violate("model-impl-disagree-writer", "correspondence",
					fmt.Sprintf("Write(%d bytes) produced %d wire bytes in %d conn writes that the writer model reproduces for no sampled length in [21,1448] (%v)", size, len(wire), len(writes), rep), c)
				return
			}
			e.r.Count("sampled_tail", sampleBucket(rep[1]))
			if len(writes) != 1 {
				e.r.Count("conn_writes_per_write", fmt.Sprintf("%d", len(writes)))
			}
		}
	}
	e.r.Case("data/"+strings.Join(trace, "|"), nontrivial)
	e.r.Count("kind", "data")
	e.r.Sample(6, map[string]interface{}{"kind": "data", "trace": trace})
}

// drain lets the client consume everything queued on the conn: Read until it blocks in the
// network read with an empty queue.
func (s *session) drain() (got []byte, err error, blocked bool, pan interface{}) {
	for {
		g, e, b, p := s.read(0, 70000)
		got = append(got, g...)
		if e != nil || p != nil || b {
			return got, e, b, p
		}
	}
}

// waitDone waits for a call that cannot block on the conn (Write on a ScriptConn never blocks).
// ScriptConn.Wait would return early here when a Read of the same endpoint is parked.
func waitDone(op *vlib.Op) {
	for i := 0; !op.Done(); i++ {
		if i < 100 {
			runtime.Gosched()
		} else {
			time.Sleep(20 * time.Microsecond)
		}
	}
}

func sampleBucket(s string) string {
	n := 0
	fmt.Sscan(s, &n)
	switch {
	case n < 100:
		return "21-99"
	case n < 700:
		return "100-699"
	case n < 1400:
		return "700-1399"
	default:
		return "1400-1448"
	}
}

func sizeClass(n int) string {
	switch {
	case n == 0:
		return "0"
	case n < maxPktPay-1:
		return "<1426"
	case n <= maxPktPay+1:
		return "1426-1428"
	case n < 2*maxPktPay-1:
		return "1429-2852"
	case n <= 2*maxPktPay+1:
		return "2853-2855"
	case n < 65535:
		return "2856-65534"
	default:
		return "65535-65537"
	}
}

// deadlineState replays the conn's event log: which halves of the deadline are armed at the end
// (SetDeadline sets both halves; the zero time clears).
func deadlineState(ev []vlib.ConnEvent) (rd, wr time.Duration) {
	for _, x := range ev {
		switch x.Kind {
		case "deadline":
			rd, wr = x.Off, x.Off
		case "rdeadline":
			rd = x.Off
		case "wdeadline":
			wr = x.Off
		}
	}
	return
}

// dialDone is called after EVERY successful Dial (UniformDH and ticket handshake).
// S: Dial has returned a usable connection, so no half of the handshake deadline may still be armed
// (a conn that honours deadlines would fail every Read/Write 60 s later); and the timeout was armed
// before the first write. C: the sequence of deadline operations and writes is the model's dialTrace.
func (e *env) dialDone(c Case, sc *vlib.ScriptConn, ticket bool) {
	ev := sc.EventsCopy()
	kind := "uniformdh"
	if ticket {
		kind = "ticket"
	}
	rd, wr := deadlineState(ev)
	if rd != 0 || wr != 0 {
		half := "read and write"
		if rd == 0 {
			half = "write"
		} else if wr == 0 {
			half = "read"
		}
		e.r.Violate("deadline-left-armed-after-handshake", "impl-oracle",
			fmt.Sprintf("%s handshake: Dial succeeded but the %s deadline of the underlying conn is still armed (read +%.0fs, write +%.0fs): the session dies when the handshake timeout expires", kind, half, rd.Seconds(), wr.Seconds()), c)
		e.r.Count("deadline_after_dial", kind+"/armed")
		return
	}
	e.r.Count("deadline_after_dial", kind+"/clear")
	var trace []string
	for _, x := range ev {
		switch x.Kind {
		case "deadline", "rdeadline", "wdeadline":
			if x.Off == 0 {
				trace = append(trace, "clear")
			} else {
				trace = append(trace, "arm")
			}
		case "write":
			trace = append(trace, "write")
		}
	}
	if len(trace) == 0 || trace[0] != "arm" {
		e.r.Violate("handshake-without-timeout", "impl-oracle", fmt.Sprintf("%s handshake: the first operation on the conn is not the arming of the handshake timeout: %v", kind, trace), c)
		return
	}
	t := "0"
	if ticket {
		t = "1"
	}
	// the model's trace depends on the handshake kind only: asked once per kind
	e.rmu.Lock()
	want, ok := e.traceC[t]
	e.rmu.Unlock()
	if !ok {
		rep := e.call("dial.trace %s 0", t)
		want = rep[1]
		e.rmu.Lock()
		if e.traceC == nil {
			e.traceC = map[string]string{}
		}
		e.traceC[t] = want
		e.rmu.Unlock()
	}
	if got := strings.Join(trace, ","); want != got {
		e.r.Violate("model-impl-disagree-dial-trace", "correspondence", fmt.Sprintf("%s handshake: conn operations %s, model %s", kind, got, want), c)
	}
}

// ---------------------------------------------------------------- end of stream: last bytes and the error in ONE read

// modelReadFixed selects the Read model that corresponds to the tree: "1" = the error of the
// underlying conn is reported once the decoded bytes are drained (repaired), "0" = the code before.
const modelReadFixed = "1"

var eosErrs = []struct {
	name  string
	class int
	err   error
}{
	{"eof", 1, io.EOF},
	{"reset", 2, &net.OpError{Op: "read", Net: "tcp", Err: syscall.ECONNRESET}},
	{"timeout", 3, vlib.TimeoutError{}},
}

func (e *env) eosCases() {
	n := e.r.Scale(60, 800)
	for i := 0; i < n; i++ {
		e.eosCase(Case{Kind: "eos", Seed: e.seed, Sub: uint64(i)})
	}
}

// eosCase: after handshake and some data the server's last packets arrive in the SAME underlying
// read as the error that ends the connection (io.EOF, a reset, a timeout), and the application
// reads with a small or a large buffer, stopping at the first error like io.ReadAll / io.Copy.
// S (nothing lost): every payload byte the reference server wrote is delivered before the error
// surfaces, and the error is the conn's. C: the Read model.
func (e *env) eosCase(c Case) {
	rng := vlib.NewRng(e.seed*3571 + c.Sub*11 + 5)
	id := "eos"
	e.call("sess.new %s %s", id, vlib.Hex(e.dhSeed))
	bufSize := vlib.Pick(rng, []int{1, 7, 512, 512, 4096, 70000})
	ee := eosErrs[rng.Intn(len(eosErrs))]
	var pk [][]byte
	var all []byte
	npk := rng.Range(1, 5)
	for i := 0; i < npk; i++ {
		p := spkt{flagData, rng.Bytes(vlib.Pick(rng, []int{1, 30, 200, 600, 1000})), rng.Intn(20)}
		if rng.Intn(6) == 0 {
			p = spkt{flagSeed, rng.Bytes(32), 0}
		}
		pk = append(pk, e.srvSend(id, p))
		if p.flag == flagData {
			all = append(all, p.data...)
		}
	}
	// the last read carries the tail of the stream (at most one segment) and the error
	var stream []byte
	for _, w := range pk {
		stream = append(stream, w...)
	}
	tail := rng.Range(1, min(len(stream), mss))
	if rng.Intn(3) == 0 {
		tail = min(len(stream), mss)
	}
	head := stream[:len(stream)-tail]
	var sizes []int
	if len(head) > 0 && rng.Intn(2) == 0 {
		sizes = []int{rng.Range(1, len(head))}
	}
	chunks := cutReads(chunkAt(head, sizes), mss)
	s, _, _, err := e.connect(c, e.cf, "10.7.0.1:443", 0)
	if err != nil {
		e.r.Violate("handshake-fails", "impl-oracle", "plain UniformDH handshake failed: "+err.Error(), c)
		return
	}
	defer s.close()
	for _, ch := range chunks {
		s.sc.Feed(ch)
	}
	s.sc.FeedWithErr(stream[len(stream)-tail:], ee.err)
	var got []byte
	var rerr error
	var pan interface{}
	for rerr == nil && pan == nil {
		var g []byte
		var blocked bool
		g, rerr, blocked, pan = s.read(1, bufSize)
		got = append(got, g...)
		if blocked {
			break
		}
	}
	c.Target = fmt.Sprintf("%s/buf%d", ee.name, bufSize)
	e.r.Case(fmt.Sprintf("eos/%d/%s/%d/%d/%d", c.Sub, ee.name, bufSize, len(stream), tail), true)
	e.r.Count("kind", "eos")
	e.r.Count("eos_error", ee.name)
	e.r.Count("eos_caller_buffer", fmt.Sprint(bufSize))
	what := fmt.Sprintf("%d packets (%d payload bytes); the last %d wire bytes arrive in the same read as %s; the application reads with a %d-byte buffer until the first error", npk, len(all), tail, ee.name, bufSize)
	switch {
	case pan != nil:
		e.r.Violate("reader-panic", "impl-oracle", what+fmt.Sprintf(": Read panicked: %v", pan), c)
		return
	case !bytes.HasPrefix(all, got):
		e.r.Violate("altered-data-delivered", "impl-oracle", what+fmt.Sprintf(": %d bytes delivered that are not a prefix of what was sent", len(got)), c)
		return
	case len(got) < len(all):
		sig := "stream-tail-lost-at-read-error"
		if len(all)-len(got) > 0 && bufSize < len(all) && len(got) > 0 {
			sig = "decoded-bytes-dropped-by-error-with-small-buffer"
		}
		e.r.Violate(sig, "impl-oracle", what+fmt.Sprintf(": Read reported %v after %d of the %d payload bytes; the other %d are lost", rerr, len(got), len(all), len(all)-len(got)), c)
		return
	case rerr == nil || !(rerr == ee.err || errors.Is(rerr, ee.err)):
		e.r.Violate("read-error-not-reported", "impl-oracle", what+fmt.Sprintf(": the reader ended with %v instead of the conn's %v", rerr, ee.err), c)
		return
	}
	rep := e.call("cli.readall %s %s %d %d %s", modelReadFixed, vlib.Hex(e.dhSeed), bufSize, ee.class, hexList(append(append([][]byte(nil), chunks...), stream[len(stream)-tail:])))
	e.r.Validated(1)
	if rep[0] != "ok" || !bytes.Equal(vlib.UnHex(rep[1]), got) || rep[2] != fmt.Sprintf("net:%d", ee.class) {
		e.r.Violate("model-impl-disagree-read-error", "correspondence", what+fmt.Sprintf(": implementation delivered %d bytes then %v; model %d bytes then %s", len(got), rerr, len(vlib.UnHex(rep[1])), rep[2]), c)
	}
}

func (e *env) recoverCases() {
	n := e.r.Scale(30, 300)
	for i := 0; i < n; i++ {
		e.recoverCase(Case{Kind: "recover", Seed: e.seed, Sub: uint64(i)})
	}
}

// recoverCase: a temporary error of the underlying conn is recoverable.
// (a) the read deadline of the underlying conn fires while the peer is silent (virtual deadline):
// Read reports the timeout with nothing delivered; the deadline is cleared, the reference server
// writes, Read delivers exactly those bytes.  (b) a timeout arrives TOGETHER with data: the data is
// delivered first (any caller buffer), then the timeout exactly once, then later data still flows.
func (e *env) recoverCase(c Case) {
	rng := vlib.NewRng(e.seed*2713 + c.Sub*19 + 9)
	id := "recover"
	e.call("sess.new %s %s", id, vlib.Hex(e.dhSeed))
	bufSize := vlib.Pick(rng, []int{1, 7, 512, 4096})
	withData := c.Sub%2 == 1
	d1 := rng.Bytes(rng.Range(1, 900))
	d2 := rng.Bytes(rng.Range(1, 900))
	var w1 []byte
	if withData {
		w1 = e.srvSend(id, spkt{flagData, d1, rng.Intn(10)})
	} else {
		d1 = nil
	}
	w2 := e.srvSend(id, spkt{flagData, d2, rng.Intn(10)})
	s, _, _, err := e.connect(c, e.cf, "10.8.0.1:443", 0)
	if err != nil {
		e.r.Violate("handshake-fails", "impl-oracle", "plain UniformDH handshake failed: "+err.Error(), c)
		return
	}
	defer s.close()
	if withData {
		s.sc.FeedWithErr(w1, vlib.TimeoutError{})
	} else {
		// the owner of the underlying conn arms its read deadline; nothing arrives
		s.sc.FireDeadlines = true
		s.sc.SetReadDeadline(time.Now().Add(time.Second))
	}
	readTillErr := func() (got []byte, rerr error, blocked bool, pan interface{}) {
		for rerr == nil && pan == nil {
			var g []byte
			g, rerr, blocked, pan = s.read(1, bufSize)
			got = append(got, g...)
			if blocked {
				return
			}
		}
		return
	}
	got1, err1, _, pan := readTillErr()
	variant := "deadline-fires-while-silent"
	if withData {
		variant = "timeout-together-with-data"
	}
	c.Target = fmt.Sprintf("%s/buf%d", variant, bufSize)
	e.r.Case(fmt.Sprintf("recover/%d/%s/%d/%d/%d", c.Sub, variant, bufSize, len(d1), len(d2)), true)
	e.r.Count("kind", "recover")
	e.r.Count("recover_variant", variant)
	what := fmt.Sprintf("%s, caller buffer %d", variant, bufSize)
	if pan != nil {
		e.r.Violate("reader-panic", "impl-oracle", what+fmt.Sprintf(": Read panicked: %v", pan), c)
		return
	}
	if !bytes.Equal(got1, d1) {
		e.r.Violate("decoded-bytes-dropped-by-error-with-small-buffer", "impl-oracle",
			what+fmt.Sprintf(": %d payload bytes arrived with the timeout, Read delivered %d before reporting %v", len(d1), len(got1), err1), c)
		return
	}
	var te interface{ Timeout() bool }
	if err1 == nil || !errors.As(err1, &te) || !te.Timeout() {
		e.r.Violate("read-error-not-reported", "impl-oracle", what+fmt.Sprintf(": expected the conn's timeout, the reader ended with %v", err1), c)
		return
	}
	// the timeout is over: deadline cleared / error gone, the server writes
	s.sc.FireDeadlines = false
	s.sc.SetReadDeadline(time.Time{})
	s.sc.FeedErr(nil)
	s.sc.Feed(w2)
	got2, err2, blocked2, pan2 := readTillErr()
	if pan2 != nil {
		e.r.Violate("reader-panic", "impl-oracle", what+fmt.Sprintf(": Read after the timeout panicked: %v", pan2), c)
		return
	}
	if err2 != nil || !blocked2 || !bytes.Equal(got2, d2) {
		sig := "read-timeout-not-recoverable"
		if err2 == nil {
			sig = "stream-not-exact-server-to-client"
		}
		e.r.Violate(sig, "impl-oracle",
			what+fmt.Sprintf(": after the timeout was reported and the deadline cleared the server wrote %d bytes; Read delivered %d (equal=%v) and reported %v", len(d2), len(got2), bytes.Equal(got2, d2), err2), c)
		return
	}
	rep := e.call("cli.recover %s %s %d 3 %s %s", modelReadFixed, vlib.Hex(e.dhSeed), bufSize, vlib.Hex(w1), vlib.Hex(w2))
	e.r.Validated(1)
	if rep[0] != "ok" || !bytes.Equal(vlib.UnHex(rep[1]), got1) || rep[2] != "net:3" || !bytes.Equal(vlib.UnHex(rep[3]), got2) || rep[4] != "none" {
		e.r.Violate("model-impl-disagree-read-error", "correspondence", what+fmt.Sprintf(": implementation %d bytes, timeout, %d bytes; model %v", len(got1), len(got2), []string{rep[2], rep[4]}), c)
	}
}

func min(a, b int) int {
	if a < b {
		return a
	}
	return b
}

// ---------------------------------------------------------------- reseeding of the padding sampler under concurrency

func (e *env) reseedCases() {
	n := e.r.Scale(4, 40)
	for i := 0; i < n; i++ {
		e.reseedCase(Case{Kind: "reseed", Seed: e.seed, Sub: uint64(i)})
	}
}

// reseedCase: the reference server streams many PRNG-seed packets (different seeds, hence length
// tables of different sizes) which one goroutine's Read processes, while a second goroutine does
// small Writes on the same connection (each samples the distribution the reader is resetting).
// S: no panic in either goroutine, no error, every Write is one well-formed burst that the reference
// server decodes to exactly the bytes written, the reader ends with exactly the payload sent.
// C: every burst is what the writer model produces for some sampled length.
func (e *env) reseedCase(c Case) {
	rng := vlib.NewRng(e.seed*4099 + c.Sub*17 + 3)
	s, _, _, err := e.connect(c, e.cf, fmt.Sprintf("10.6.0.%d:443", c.Sub%250), 0)
	if err != nil {
		e.r.Violate("handshake-fails", "impl-oracle", "plain UniformDH handshake failed: "+err.Error(), c)
		return
	}
	defer s.close()
	s.id = "reseed"
	e.call("sess.new %s %s", s.id, vlib.Hex(e.dhSeed))
	nseeds := rng.Range(150, 300)
	var wire []byte
	for i := 0; i < nseeds; i++ {
		wire = append(wire, e.srvSend(s.id, spkt{flagSeed, rng.Bytes(32), int(rng.Intn(8))})...)
	}
	final := []byte("reseed-done")
	last := e.srvSend(s.id, spkt{flagData, final, 0})
	nwrites := rng.Range(150, 300)
	datas := make([][]byte, nwrites)
	for i := range datas {
		datas[i] = rng.Bytes(rng.Range(0, 40))
	}
	// reader: one Read that works through the seed packets as they arrive and returns with the final payload
	rbuf := make([]byte, 100)
	var rn int
	var rerr error
	rop := s.sc.Start(func() { rn, rerr = s.conn.Read(rbuf) })
	// writer
	type wres struct {
		n   int
		err error
		pan interface{}
	}
	res := make([]wres, nwrites)
	bursts := make([][]byte, nwrites)
	var tapMu sync.Mutex
	var cur []byte
	s.sc.OnWrite = func(b []byte) {
		tapMu.Lock()
		cur = append(cur, b...)
		tapMu.Unlock()
	}
	done := make(chan struct{})
	go func() {
		defer close(done)
		for i, d := range datas {
			func() {
				defer func() { res[i].pan = recover() }()
				res[i].n, res[i].err = s.conn.Write(d)
			}()
			tapMu.Lock()
			bursts[i], cur = cur, nil
			tapMu.Unlock()
			if res[i].pan != nil {
				return
			}
		}
	}()
	// the seed packets arrive in segments while the writer runs
	for _, ch := range chunkAt(wire, []int{len(wire) / 4, len(wire) / 4, len(wire) / 4}) {
		s.sc.Feed(ch)
		runtime.Gosched()
	}
	<-done
	s.sc.Feed(last)
	s.sc.Wait(rop)
	s.sc.OnWrite = nil
	s.sc.TakeWrites()
	e.r.Case(fmt.Sprintf("reseed/%d/%d/%d", c.Sub, nseeds, nwrites), true)
	e.r.Count("kind", "reseed")
	if rop.Panic != nil {
		e.r.Violate("reader-panic", "impl-oracle", fmt.Sprintf("Read panicked while %d seed packets were processed concurrently with Writes: %v", nseeds, rop.Panic), c)
		return
	}
	for i := range res {
		if res[i].pan != nil {
			e.r.Violate("writer-panic", "impl-oracle",
				fmt.Sprintf("Write #%d (%d bytes) panicked while the reader was reseeding the padding sampler (%d seed packets in flight): %v", i, len(datas[i]), nseeds, res[i].pan), c)
			return
		}
		if res[i].err != nil || res[i].n != len(datas[i]) {
			e.r.Violate("client-write-fails", "impl-oracle", fmt.Sprintf("Write #%d (%d bytes) = %d, %v", i, len(datas[i]), res[i].n, res[i].err), c)
			return
		}
	}
	if !rop.Done() || rerr != nil || string(rbuf[:rn]) != string(final) {
		e.r.Violate("stream-not-exact-server-to-client", "impl-oracle",
			fmt.Sprintf("%d seed packets then %q: Read returned %q, %v (finished=%v)", nseeds, final, rbuf[:rn], rerr, rop.Done()), c)
		return
	}
	for i, b := range bursts {
		rep := e.call("srv.feed %s %s", s.id, vlib.Hex(b))
		if rep[0] != "ok" || !bytes.Equal(vlib.UnHex(rep[1]), datas[i]) {
			e.r.Violate("reference-server-rejects-client-packets", "impl-oracle",
				fmt.Sprintf("Write #%d (%d bytes) under concurrent reseeding produced %d wire bytes the reference server does not decode to the bytes written (%v)", i, len(datas[i]), len(b), rep[0]), c)
			return
		}
		if len(b) < pktOvh || len(b) > 3*mss {
			e.r.Violate("burst-length-out-of-range", "impl-oracle", fmt.Sprintf("Write #%d produced a burst of %d bytes", i, len(b)), c)
			return
		}
		w := e.call("cli.write %s %s %s", s.id, vlib.Hex(datas[i]), vlib.Hex(b))
		e.r.Validated(1)
		if w[0] != "ok" {
			e.r.Violate("model-impl-disagree-writer", "correspondence",
				fmt.Sprintf("Write #%d (%d bytes) under concurrent reseeding: %d wire bytes that the writer model reproduces for no sampled length in [21,1448]", i, len(datas[i]), len(b)), c)
			return
		}
	}
	e.r.Count("reseed_seed_packets", bucket(nseeds))
}

// ---------------------------------------------------------------- malformed packet streams (C10)

func (e *env) garbageCases() {
	n := e.r.Scale(120, 600)
	for i := 0; i < n; i++ {
		e.garbageCase(Case{Kind: "garbage", Seed: e.seed, Sub: uint64(i)})
	}
}

// garbageCase: after a genuine handshake the client is fed bytes that are not an honest packet
// stream: random bytes, an honest packet with a damaged length field, a truncated packet, a
// packet with an unknown flag or a ticket/seed packet of the wrong size.
// S: Read never panics and never delivers a byte that was not sent as payload before the damage.
// C: the reader model predicts delivered bytes, error and residue.
func (e *env) garbageCase(c Case) {
	rng := vlib.NewRng(e.seed*7907 + c.Sub*13 + 1)
	id := "garbage"
	e.call("sess.new %s %s", id, vlib.Hex(e.dhSeed))
	head := rng.Bytes(rng.Range(1, 30))
	stream := e.srvSend(id, spkt{flagData, head, int(rng.Intn(10))})
	variant := vlib.Pick(rng, []string{"random", "random-long", "unknown-flag", "short-ticket", "long-seed", "truncated", "replayed-packet", "swapped-packets", "zero-bytes"})
	switch variant {
	case "random":
		stream = append(stream, rng.Bytes(rng.Range(1, 60))...)
	case "random-long":
		stream = append(stream, rng.Bytes(rng.Range(1500, 4000))...)
	case "unknown-flag":
		stream = append(stream, e.srvSend(id, spkt{vlib.Pick(rng, []int{0, 3, 5, 8, 255}), rng.Bytes(10), 0})...)
	case "short-ticket":
		stream = append(stream, e.srvSend(id, spkt{flagTkt, rng.Bytes(vlib.Pick(rng, []int{0, 143, 145})), 0})...)
	case "long-seed":
		stream = append(stream, e.srvSend(id, spkt{flagSeed, rng.Bytes(vlib.Pick(rng, []int{0, 24, 31, 33})), 0})...)
	case "truncated":
		p := e.srvSend(id, spkt{flagData, rng.Bytes(100), 5})
		stream = append(stream, p[:rng.Range(1, len(p)-1)]...)
	case "replayed-packet":
		stream = append(stream, stream...)
		stream = append(stream, rng.Bytes(1500)...)
	case "swapped-packets":
		a := e.srvSend(id, spkt{flagData, rng.Bytes(40), 0})
		b := e.srvSend(id, spkt{flagData, rng.Bytes(40), 0})
		stream = append(append(append(stream, b...), a...), rng.Bytes(1500)...)
	case "zero-bytes":
		stream = append(stream, make([]byte, rng.Range(21, 3000))...)
	}
	var sizes []int
	if rng.Intn(2) == 0 {
		for left := len(stream); left > 0; {
			n := rng.Range(1, 500)
			sizes = append(sizes, n)
			left -= n
		}
	}
	chunks := cutReads(chunkAt(stream, sizes), mss)
	s, _, _, err := e.connect(c, e.cf, "10.3.0.1:443", 0)
	if err != nil {
		e.r.Violate("handshake-fails", "impl-oracle", "plain UniformDH handshake failed: "+err.Error(), c)
		return
	}
	defer s.close()
	for _, ch := range chunks {
		s.sc.Feed(ch)
	}
	got, rerr, blocked, pan := s.read(len(stream), 4096)
	c.Target = variant
	e.r.Case(fmt.Sprintf("garbage/%s/%d/%d", variant, len(stream), len(chunks)), true)
	e.r.Count("kind", "garbage")
	e.r.Count("garbage_variant", variant)
	outcome := "error"
	if blocked {
		outcome = "blocked"
	}
	e.r.Count("garbage_outcome", outcome)
	if pan != nil {
		e.r.Violate("reader-panic", "impl-oracle", fmt.Sprintf("Read panicked on a %s stream of %d bytes: %v", variant, len(stream), pan), c)
		return
	}
	if bytes.HasPrefix(head, got) && len(got) < len(head) {
		e.r.Violate("payload-before-damage-not-delivered", "impl-oracle",
			fmt.Sprintf("%s stream: the honest packet before the damage carried %d payload bytes, Read delivered %d (err=%v)", variant, len(head), len(got), rerr), c)
		return
	}
	if !bytes.Equal(got, head) {
		e.r.Violate("altered-data-delivered", "impl-oracle",
			fmt.Sprintf("%s stream: Read delivered %d bytes %x, only %x was sent as payload (err=%v)", variant, len(got), trunc(string(got), 40), head, rerr), c)
		return
	}
	if rx, dec, ok := scramblesuit.VerifBufferSizes(s.conn); ok && rerr == nil && (rx >= maxPktPay+mss || dec > 0) {
		e.r.Violate("buffer-over-bound", "impl-oracle", fmt.Sprintf("receive buffer %d bytes, decoded buffer %d bytes", rx, dec), c)
	}
	rep := e.call("cli.rxall %s %s %s", vlib.Hex(e.dhSeed), vlib.Hex(stream), intList(lens(chunks)))
	e.r.Validated(1)
	mErr := rep[4] == "1"
	if rep[0] != "ok" || !bytes.Equal(vlib.UnHex(rep[1]), got) || mErr != (rerr != nil) {
		e.r.Violate("model-impl-disagree-garbage", "correspondence",
			fmt.Sprintf("%s stream of %d bytes: implementation delivered %d bytes, err=%v, blocked=%v; model %v", variant, len(stream), len(got), rerr, blocked, rep[2:]), c)
	}
}

// ---------------------------------------------------------------- single-bit packet modifications

type flipPre struct {
	target string
	stream []byte
	off    int // offset of the target packet
	tlen   int // its length on the wire
	head   []byte
	all    []byte // every payload byte of the honest stream
}

func (e *env) flipPrepare(target string) *flipPre {
	id := "flip-" + target
	e.call("sess.new %s %s", id, vlib.Hex(e.dhSeed))
	rng := vlib.NewRng(e.seed ^ 0xf11b)
	head := []byte("head-bytes")
	p := &flipPre{target: target, head: head}
	p.stream = e.srvSend(id, spkt{flagData, head, 2})
	p.off = len(p.stream)
	var t spkt
	switch target {
	case "payload":
		t = spkt{flagData, rng.Bytes(20), 7}
	case "ticket":
		t = spkt{flagTkt, rng.Bytes(144), 0}
	case "seed":
		t = spkt{flagSeed, rng.Bytes(32), 0}
	case "empty": // header-only: MAC ‖ header, total length 0
		t = spkt{flagData, nil, 0}
	case "pad-only": // payload 0, padding > 0
		t = spkt{flagData, nil, 5}
	case "no-pad": // padding 0, payload > 0
		t = spkt{flagData, rng.Bytes(9), 0}
	case "max": // maximal packet
		t = spkt{flagData, rng.Bytes(maxPktPay), 0}
	case "big":
		t = spkt{flagData, rng.Bytes(300), 10}
	default:
		must(fmt.Errorf("unknown flip target %q", target))
	}
	w := e.srvSend(id, t)
	p.tlen = len(w)
	p.stream = append(p.stream, w...)
	p.all = append([]byte(nil), head...)
	if t.flag == flagData {
		p.all = append(p.all, t.data...)
	}
	for i := 0; i < 3; i++ {
		fill := rng.Bytes(600)
		p.all = append(p.all, fill...)
		p.stream = append(p.stream, e.srvSend(id, spkt{flagData, fill, 0})...)
	}
	return p
}

func (e *env) flipCases() {
	// quick: every bit of a header-only packet, of a padding-only, a padding-free, a payload and a seed packet
	targets := []string{"empty", "pad-only", "no-pad", "payload", "seed"}
	if e.r.Thorough() {
		targets = []string{"empty", "pad-only", "no-pad", "payload", "ticket", "seed", "big", "max"}
	}
	for _, t := range targets {
		pre := e.flipPrepare(t)
		for bit := 0; bit < pre.tlen*8; bit++ {
			e.flipCase(Case{Kind: "flip", Seed: e.seed, Target: t, Bit: bit, Sub: uint64(bit % 3)}, pre)
		}
	}
}

// flipCase: an honest packet stream with one bit of one packet flipped (MAC, header or body).
// S: Read returns an error and delivers nothing but the bytes sent before that packet.
func (e *env) flipCase(c Case, pre *flipPre) {
	if pre == nil {
		pre = e.flipPrepare(c.Target)
	}
	if c.Bit < 0 || c.Bit >= pre.tlen*8 {
		return
	}
	stream := flipBit(pre.stream, pre.off*8+c.Bit)
	var sizes []int
	switch c.Sub % 3 {
	case 1:
		sizes = []int{pre.off + c.Bit/8} // cut right before the modified byte
	case 2:
		sizes = []int{pre.off + c.Bit/8 + 1, 1, 1}
	}
	chunks := cutReads(chunkAt(stream, sizes), mss)
	addr := "10.2.0.1:443"
	s, _, _, err := e.connect(c, e.cf, addr, 0)
	if err != nil {
		e.r.Violate("handshake-fails", "impl-oracle", "plain UniformDH handshake failed: "+err.Error(), c)
		return
	}
	defer s.close()
	for _, ch := range chunks {
		s.sc.Feed(ch)
	}
	s.sc.FeedEOF()
	got, rerr, blocked, pan := s.read(len(stream), 4096)
	part := "body"
	switch {
	case c.Bit < macLen*8:
		part = "mac"
	case c.Bit < (macLen+2)*8:
		part = "hdr-total-len"
	case c.Bit < (macLen+4)*8:
		part = "hdr-payload-len"
	case c.Bit < pktOvh*8:
		part = "hdr-flags"
	}
	e.r.Case(fmt.Sprintf("flip/%s/%d/%d", c.Target, c.Bit, c.Sub%3), true)
	e.r.Count("kind", "flip")
	e.r.Count("flip_part", part)
	e.r.Count("flip_target", c.Target)
	switch {
	case pan != nil:
		e.r.Violate("reader-panic", "impl-oracle", fmt.Sprintf("Read panicked on a packet with bit %d (%s) flipped: %v", c.Bit, part, pan), c)
		return
	case !bytes.HasPrefix(pre.all, got):
		e.r.Violate("altered-data-delivered", "impl-oracle",
			fmt.Sprintf("%s packet, bit %d (%s) flipped: Read delivered %d bytes that are not a prefix of what the server sent (err=%v)", c.Target, c.Bit, part, len(got), rerr), c)
		return
	case len(got) > len(pre.head):
		e.r.Violate("modified-packet-accepted", "impl-oracle",
			fmt.Sprintf("%s packet, bit %d (%s) flipped: Read went on past the modified packet and delivered %d bytes (err=%v)", c.Target, c.Bit, part, len(got), rerr), c)
		return
	case rerr == nil || rerr.Error() == "EOF":
		e.r.Violate("modified-packet-not-reported", "impl-oracle",
			fmt.Sprintf("%s packet, bit %d (%s) flipped: no error from Read (blocked=%v, delivered %d bytes) although %d more bytes followed", c.Target, c.Bit, part, blocked, len(got), len(stream)-pre.off-pre.tlen), c)
		return
	}
	rep := e.call("cli.rxall %s %s %s", vlib.Hex(e.dhSeed), vlib.Hex(stream), intList(lens(chunks)))
	e.r.Validated(1)
	if rep[0] != "ok" || !bytes.Equal(vlib.UnHex(rep[1]), got) || rep[4] != "1" {
		e.r.Violate("model-impl-disagree-flip", "correspondence",
			fmt.Sprintf("%s packet bit %d: implementation delivered %d bytes then %v; model %v", c.Target, c.Bit, len(got), rerr, rep[1:]), c)
	}
}

// ---------------------------------------------------------------- a modified packet anywhere in a mixed burst

func edgePacket(rng *vlib.Rng) spkt {
	switch rng.Intn(9) {
	case 0, 1, 2:
		return spkt{flagData, nil, 0} // header-only
	case 3:
		return spkt{flagData, nil, rng.Range(1, 40)}
	case 4:
		return spkt{flagData, rng.Bytes(rng.Range(1, 40)), 0}
	case 5:
		return spkt{flagSeed, rng.Bytes(32), 0}
	case 6:
		return spkt{flagTkt, rng.Bytes(144), 0}
	case 7:
		return spkt{flagData, rng.Bytes(maxPktPay), 0}
	default:
		return spkt{flagData, rng.Bytes(rng.Range(1, 200)), rng.Range(0, 30)}
	}
}

func (e *env) flipMixCases() {
	n := e.r.Scale(250, 4000)
	for i := 0; i < n; i++ {
		e.flipMixCase(Case{Kind: "flipmix", Seed: e.seed, Sub: uint64(i)})
	}
}

// flipMixCase: a burst of packets of mixed legal shapes (header-only packets prominent), one bit
// of one packet flipped (half of the time in its MAC), then enough honest packets.
// S: any modified packet ⇒ Read reports an error; what it delivered before is exactly the payload of
// the packets in front of the modified one - a modified packet is never silently accepted.
func (e *env) flipMixCase(c Case) {
	rng := vlib.NewRng(e.seed*6151 + c.Sub*29 + 7)
	id := "flipmix"
	e.call("sess.new %s %s", id, vlib.Hex(e.dhSeed))
	npk := rng.Range(2, 7)
	j := rng.Intn(npk)
	if rng.Intn(3) == 0 {
		j = npk - 1
	}
	var stream, before, all []byte
	off, tlen, shape := 0, 0, ""
	for i := 0; i < npk; i++ {
		p := edgePacket(rng)
		if i == j && rng.Intn(2) == 0 {
			p = spkt{flagData, nil, 0}
		}
		w := e.srvSend(id, p)
		if i == j {
			off, tlen = len(stream), len(w)
			shape = fmt.Sprintf("flag%d/payload%d/pad%d", p.flag, len(p.data), p.pad)
			before = append([]byte(nil), all...)
		}
		stream = append(stream, w...)
		if p.flag == flagData {
			all = append(all, p.data...)
		}
	}
	for i := 0; i < 3; i++ {
		fill := rng.Bytes(600)
		all = append(all, fill...)
		stream = append(stream, e.srvSend(id, spkt{flagData, fill, 0})...)
	}
	bit := rng.Intn(tlen * 8)
	if rng.Intn(2) == 0 {
		bit = rng.Intn(macLen * 8)
	}
	stream = flipBit(stream, off*8+bit)
	var sizes []int
	switch rng.Intn(3) {
	case 1:
		sizes = []int{off + bit/8, 1}
	case 2:
		for left := len(stream); left > 0; {
			n := rng.Range(1, 300)
			sizes = append(sizes, n)
			left -= n
		}
	}
	chunks := cutReads(chunkAt(stream, sizes), mss)
	// a fresh bridge address per case: ticket packets of the burst must not turn a later
	// handshake of this section into a ticket handshake
	s, _, _, err := e.connect(c, e.cf, fmt.Sprintf("10.4.%d.%d:443", c.Sub/250, c.Sub%250), 0)
	if err != nil {
		e.r.Violate("handshake-fails", "impl-oracle", "plain UniformDH handshake failed: "+err.Error(), c)
		return
	}
	defer s.close()
	for _, ch := range chunks {
		s.sc.Feed(ch)
	}
	// the server has nothing more to say: the stream ends
	s.sc.FeedEOF()
	got, rerr, blocked, pan := s.read(len(stream), 4096)
	part := "body"
	switch {
	case bit < macLen*8:
		part = "mac"
	case bit < pktOvh*8:
		part = "header"
	}
	c.Target = shape
	e.r.Case(fmt.Sprintf("flipmix/%d/%d/%s/%d", npk, j, shape, bit), true)
	e.r.Count("kind", "flipmix")
	e.r.Count("flipmix_part", part)
	if tlen == pktOvh {
		e.r.Count("flipmix_shape", "header-only")
	} else {
		e.r.Count("flipmix_shape", "other")
	}
	what := fmt.Sprintf("packet %d of %d (%s, %d wire bytes), bit %d (%s) flipped", j+1, npk, shape, tlen, bit, part)
	switch {
	case pan != nil:
		e.r.Violate("reader-panic", "impl-oracle", what+fmt.Sprintf(": Read panicked: %v", pan), c)
		return
	case !bytes.HasPrefix(all, got):
		e.r.Violate("altered-data-delivered", "impl-oracle", what+fmt.Sprintf(": Read delivered %d bytes that are not a prefix of what the server sent (err=%v)", len(got), rerr), c)
		return
	case len(got) > len(before):
		e.r.Violate("modified-packet-accepted", "impl-oracle", what+fmt.Sprintf(": Read went on past the modified packet: %d bytes delivered, %d were sent before it (err=%v)", len(got), len(before), rerr), c)
		return
	case rerr == nil || blocked || rerr.Error() == "EOF":
		e.r.Violate("modified-packet-not-reported", "impl-oracle", what+fmt.Sprintf(": Read reported %v instead of an invalid packet (delivered %d bytes)", rerr, len(got)), c)
		return
	case len(got) < len(before):
		e.r.Violate("payload-before-damage-not-delivered", "impl-oracle", what+fmt.Sprintf(": %d payload bytes were sent before it, Read delivered %d (err=%v)", len(before), len(got), rerr), c)
		return
	}
	rep := e.call("cli.rxall %s %s %s", vlib.Hex(e.dhSeed), vlib.Hex(stream), intList(lens(chunks)))
	e.r.Validated(1)
	if rep[0] != "ok" || !bytes.Equal(vlib.UnHex(rep[1]), got) || rep[4] != "1" {
		e.r.Violate("model-impl-disagree-flip", "correspondence",
			what+fmt.Sprintf(": implementation delivered %d bytes then %v; model %v", len(got), rerr, rep[2:]), c)
	}
}

func lens(cs [][]byte) []int {
	out := make([]int, len(cs))
	for i, c := range cs {
		out[i] = len(c)
	}
	return out
}
