// PRIMS — tie of the executable Lean primitives (lean/O4/Model/Crypto/*, driver `prim`) to the Go
// libraries the tree under test links against. Not a property: every other check whose model
// computes real bytes rests on this one.
//
// A case is one driver request line; the expected reply is computed from the line itself with the
// Go library (goEval), so the replay of a mismatch is just that line.
package main

import (
	"crypto/aes"
	"crypto/cipher"
	"crypto/hmac"
	"crypto/sha256"
	"crypto/sha512"
	"fmt"
	"io"
	"strconv"
	"strings"
	"time"

	"golang.org/x/crypto/hkdf"
	"golang.org/x/crypto/nacl/secretbox"
	"golang.org/x/crypto/poly1305"
	"golang.org/x/crypto/salsa20"
	"golang.org/x/crypto/salsa20/salsa"

	"verif/harness/vlib"
)

type pcase struct {
	Line string `json:"line"`
}

func atoi(s string) int {
	n, err := strconv.Atoi(s)
	if err != nil || n < 0 {
		panic("bad number in op: " + s)
	}
	return n
}

// goEval computes the reply the Go libraries give for one request line.
func goEval(line string) (rep string) {
	defer func() {
		// the Go libraries panic on wrong iv / block sizes; the driver answers `err`
		if e := recover(); e != nil {
			rep = "err"
		}
	}()
	w := strings.Fields(line)
	h := func(i int) []byte { return vlib.UnHex(w[i]) }
	switch w[0] {
	case "sha256":
		s := sha256.Sum256(h(1))
		return vlib.Hex(s[:])
	case "sha512":
		s := sha512.Sum512(h(1))
		return vlib.Hex(s[:])
	case "hmac":
		m := hmac.New(sha256.New, h(1))
		m.Write(h(2))
		return vlib.Hex(m.Sum(nil))
	case "hkdfx":
		return vlib.Hex(hkdf.Extract(sha256.New, h(2), h(1)))
	case "hkdfe":
		out := make([]byte, atoi(w[3]))
		if _, err := io.ReadFull(hkdf.Expand(sha256.New, h(1), h(2)), out); err != nil {
			return "err"
		}
		return vlib.Hex(out)
	case "hkdf":
		out := make([]byte, atoi(w[4]))
		if _, err := io.ReadFull(hkdf.New(sha256.New, h(1), h(2), h(3)), out); err != nil {
			return "err"
		}
		return vlib.Hex(out)
	case "hkdfr":
		// one reader, several reads: hkdfr <prk> <info> <n1> <n2> ... → pieces joined by ","
		rd := hkdf.Expand(sha256.New, h(1), h(2))
		var parts []string
		for _, s := range w[3:] {
			out := make([]byte, atoi(s))
			if _, err := io.ReadFull(rd, out); err != nil {
				return "err"
			}
			parts = append(parts, vlib.Hex(out))
		}
		return strings.Join(parts, ",")
	case "salsablk":
		// salsablk <key32> <in16>: one core invocation on (Sigma, key, in) = the keystream block whose
		// nonce ‖ counter is in16
		if len(h(1)) != 32 || len(h(2)) != 16 {
			return "err"
		}
		var in [16]byte
		var k [32]byte
		copy(k[:], h(1))
		copy(in[:], h(2))
		out := make([]byte, 64)
		salsa.XORKeyStream(out, out, &in, &k)
		return vlib.Hex(out)
	case "salsactr":
		// salsactr <key32> <nonce8> <ctr> <len>: keystream starting at block number ctr
		if len(h(1)) != 32 || len(h(2)) != 8 {
			return "err"
		}
		var in [16]byte
		var k [32]byte
		copy(k[:], h(1))
		copy(in[:8], h(2))
		ctr, err := strconv.ParseUint(w[3], 10, 64)
		if err != nil {
			panic(err)
		}
		for i := 0; i < 8; i++ {
			in[8+i] = byte(ctr >> (8 * uint(i)))
		}
		out := make([]byte, atoi(w[4]))
		salsa.XORKeyStream(out, out, &in, &k)
		return vlib.Hex(out)
	case "hsalsa":
		if len(h(1)) != 32 || len(h(2)) != 16 {
			return "err"
		}
		var k, out [32]byte
		var n [16]byte
		copy(k[:], h(1))
		copy(n[:], h(2))
		salsa.HSalsa20(&out, &n, &k, &salsa.Sigma)
		return vlib.Hex(out[:])
	case "salsa":
		// salsa <key32> <nonce 8|24> <off> <len>
		if len(h(1)) != 32 || (len(h(2)) != 8 && len(h(2)) != 24) {
			return "err"
		}
		var k [32]byte
		copy(k[:], h(1))
		off, n := atoi(w[3]), atoi(w[4])
		buf := make([]byte, off+n)
		salsa20.XORKeyStream(buf, buf, h(2), &k)
		return vlib.Hex(buf[off:])
	case "xsalsa":
		if len(h(1)) != 32 || len(h(2)) != 24 {
			return "err"
		}
		var k [32]byte
		copy(k[:], h(1))
		buf := make([]byte, atoi(w[3]))
		salsa20.XORKeyStream(buf, buf, h(2), &k)
		return vlib.Hex(buf)
	case "poly":
		if len(h(1)) != 32 {
			return "err"
		}
		var k [32]byte
		var tag [16]byte
		copy(k[:], h(1))
		poly1305.Sum(&tag, h(2), &k)
		return vlib.Hex(tag[:])
	case "sbseal":
		if len(h(1)) != 32 || len(h(2)) != 24 {
			return "err"
		}
		var k [32]byte
		var n [24]byte
		copy(k[:], h(1))
		copy(n[:], h(2))
		return vlib.Hex(secretbox.Seal(nil, h(3), &n, &k))
	case "sbopen":
		if len(h(1)) != 32 || len(h(2)) != 24 {
			return "err"
		}
		var k [32]byte
		var n [24]byte
		copy(k[:], h(1))
		copy(n[:], h(2))
		out, ok := secretbox.Open(nil, h(3), &n, &k)
		if !ok {
			return "none"
		}
		return vlib.Hex(out)
	case "aesblk":
		b, err := aes.NewCipher(h(1))
		if err != nil {
			return "err"
		}
		if len(h(2)) != 16 {
			return "err"
		}
		out := make([]byte, 16)
		b.Encrypt(out, h(2))
		return vlib.Hex(out)
	case "aesctr":
		// aesctr <key> <iv> <off> <data>: data XOR keystream[off, off+len)
		b, err := aes.NewCipher(h(1))
		if err != nil {
			return "err"
		}
		s := cipher.NewCTR(b, h(2)) // panics on a wrong iv size → err
		off := atoi(w[3])
		skip := make([]byte, off)
		s.XORKeyStream(skip, skip)
		out := make([]byte, len(h(4)))
		s.XORKeyStream(out, h(4))
		return vlib.Hex(out)
	case "aesks":
		b, err := aes.NewCipher(h(1))
		if err != nil {
			return "err"
		}
		s := cipher.NewCTR(b, h(2))
		off, n := atoi(w[3]), atoi(w[4])
		buf := make([]byte, off+n)
		s.XORKeyStream(buf, buf)
		return vlib.Hex(buf[off:])
	}
	panic("unknown op " + w[0])
}

type ctx struct {
	r *vlib.Run
	d *vlib.Driver
}

func short(s string) string {
	if len(s) > 160 {
		return s[:70] + "…(" + strconv.Itoa(len(s)) + " chars)…" + s[len(s)-40:]
	}
	return s
}

// check sends one line to the Lean driver and compares with the Go library.
func (c *ctx) check(class string, line string) {
	want := goEval(line)
	got := c.d.Call("%s", line)
	name := strings.Fields(line)[0]
	c.r.Case(line, true)
	c.r.Validated(1)
	c.r.Count("op", name)
	c.r.Count("class", name+":"+class)
	switch want {
	case "err", "none":
		c.r.Count("reply", name+":"+want)
	}
	if len(line) < 400 {
		c.r.Sample(8, map[string]string{"op": line, "go": want, "lean": got})
	}
	if got != want {
		c.r.Violate("prim-"+name+"-mismatch", "correspondence",
			fmt.Sprintf("%s [%s]: Go library %s, Lean %s", short(line), class, short(want), short(got)), pcase{line})
	}
}

var hashSizes = []int{0, 1, 2, 3, 31, 32, 33, 54, 55, 56, 57, 63, 64, 65, 111, 112, 113, 119, 120, 121, 127, 128, 129,
	183, 184, 191, 192, 193, 239, 240, 241, 255, 256, 257, 1024, 1500, 4096, 8192}

func sizeClass(n int) string {
	switch {
	case n == 0:
		return "empty"
	case n <= 64:
		return "le64"
	case n <= 256:
		return "le256"
	case n <= 2048:
		return "le2k"
	default:
		return "big"
	}
}

func hashes(c *ctx, rng *vlib.Rng) {
	for _, n := range hashSizes {
		m := rng.Bytes(n)
		c.check("structured-"+sizeClass(n), "sha256 "+vlib.Hex(m))
		c.check("structured-"+sizeClass(n), "sha512 "+vlib.Hex(m))
		for _, kl := range []int{0, 1, 16, 32, 63, 64, 65, 100, 200} {
			c.check(fmt.Sprintf("key%d-%s", kl, sizeClass(n)), "hmac "+vlib.Hex(rng.Bytes(kl))+" "+vlib.Hex(m))
		}
	}
	// fixed vectors: all-zero / all-ff messages (padding bit patterns)
	for _, n := range []int{55, 56, 64, 111, 112, 128} {
		z := make([]byte, n)
		f := make([]byte, n)
		for i := range f {
			f[i] = 0xff
		}
		c.check("zeros", "sha256 "+vlib.Hex(z))
		c.check("ones", "sha256 "+vlib.Hex(f))
		c.check("zeros", "sha512 "+vlib.Hex(z))
		c.check("ones", "sha512 "+vlib.Hex(f))
	}
	n := c.r.Scale(300, 6000)
	for i := 0; i < n; i++ {
		sz := rng.Intn(300)
		if i%20 == 0 {
			sz = rng.Intn(9000)
		}
		m := rng.Bytes(sz)
		c.check("random-"+sizeClass(sz), "sha256 "+vlib.Hex(m))
		c.check("random-"+sizeClass(sz), "sha512 "+vlib.Hex(m))
		c.check("random-"+sizeClass(sz), "hmac "+vlib.Hex(rng.Bytes(rng.Intn(140)))+" "+vlib.Hex(m))
	}
}

func hkdfs(c *ctx, rng *vlib.Rng) {
	lens := []int{0, 1, 16, 31, 32, 33, 63, 64, 65, 72, 144, 255, 256, 1000, 8159, 8160, 8161, 9000}
	for _, n := range lens {
		prk := rng.Bytes(32)
		for _, il := range []int{0, 1, 10, 40, 100} {
			c.check("expand", fmt.Sprintf("hkdfe %s %s %d", vlib.Hex(prk), vlib.Hex(rng.Bytes(il)), n))
		}
		c.check("expand-prk-odd", fmt.Sprintf("hkdfe %s - %d", vlib.Hex(rng.Bytes(rng.Range(1, 100))), n))
	}
	for _, sl := range []int{0, 1, 20, 32, 64, 65, 100} {
		for _, il := range []int{0, 1, 32, 64, 200} {
			c.check("extract", "hkdfx "+vlib.Hex(rng.Bytes(sl))+" "+vlib.Hex(rng.Bytes(il)))
		}
	}
	// the two shapes the tree uses: ntor.Kdf (salt = t_key, info = m_expand) and scramblesuit (expand only, 144 bytes)
	tKey := []byte("ntor-curve25519-sha256-1:key_extract")
	mExpand := []byte("ntor-curve25519-sha256-1:key_expand")
	n := c.r.Scale(100, 2000)
	for i := 0; i < n; i++ {
		c.check("ntor-kdf", fmt.Sprintf("hkdf %s %s %s %d", vlib.Hex(rng.Bytes(32)), vlib.Hex(tKey), vlib.Hex(mExpand), vlib.Pick(rng, []int{72, 144, 32, 1, 200})))
		c.check("ss-kdf", fmt.Sprintf("hkdfe %s - 144", vlib.Hex(rng.Bytes(32))))
		c.check("random", fmt.Sprintf("hkdf %s %s %s %d", vlib.Hex(rng.Bytes(rng.Intn(80))), vlib.Hex(rng.Bytes(rng.Intn(80))), vlib.Hex(rng.Bytes(rng.Intn(80))), rng.Intn(600)))
		// several reads from one reader = pieces of one output
		k := rng.Range(1, 5)
		line := fmt.Sprintf("hkdfr %s %s", vlib.Hex(rng.Bytes(32)), vlib.Hex(rng.Bytes(rng.Intn(20))))
		for j := 0; j < k; j++ {
			line += fmt.Sprintf(" %d", rng.Intn(100))
		}
		c.check("reader-pieces", line)
	}
	c.check("reader-limit", fmt.Sprintf("hkdfr %s - 8000 160 1", vlib.Hex(rng.Bytes(32))))
	c.check("reader-limit", fmt.Sprintf("hkdfr %s - 8000 160 0", vlib.Hex(rng.Bytes(32))))
}

func salsas(c *ctx, rng *vlib.Rng) {
	n := c.r.Scale(150, 3000)
	for i := 0; i < n; i++ {
		c.check("random", "hsalsa "+vlib.Hex(rng.Bytes(32))+" "+vlib.Hex(rng.Bytes(16)))
		c.check("random", "salsablk "+vlib.Hex(rng.Bytes(32))+" "+vlib.Hex(rng.Bytes(16)))
	}
	for _, ln := range []int{0, 1, 31, 32, 33, 63, 64, 65, 127, 128, 129, 1000, 1536, 8192} {
		c.check("structured", fmt.Sprintf("xsalsa %s %s %d", vlib.Hex(rng.Bytes(32)), vlib.Hex(rng.Bytes(24)), ln))
	}
	offs := []int{0, 1, 31, 32, 63, 64, 65, 100, 128, 1000, 16383, 16384}
	for _, off := range offs {
		for _, ln := range []int{0, 1, 63, 64, 65, 200} {
			c.check("offset-x", fmt.Sprintf("salsa %s %s %d %d", vlib.Hex(rng.Bytes(32)), vlib.Hex(rng.Bytes(24)), off, ln))
			c.check("offset-8", fmt.Sprintf("salsa %s %s %d %d", vlib.Hex(rng.Bytes(32)), vlib.Hex(rng.Bytes(8)), off, ln))
		}
	}
	for i := 0; i < n; i++ {
		c.check("random", fmt.Sprintf("salsa %s %s %d %d", vlib.Hex(rng.Bytes(32)), vlib.Hex(rng.Bytes(vlib.Pick(rng, []int{8, 24}))), rng.Intn(300), rng.Intn(300)))
	}
	// block counters around the 32-bit carry of the 64-bit counter and high counters
	for _, ctr := range []uint64{0xfffffffe, 0xffffffff, 0x100000000, 0x1ffffffff, 0x7fffffffffffffff, 0xfffffffffffffff0} {
		c.check("counter-carry", fmt.Sprintf("salsactr %s %s %d 200", vlib.Hex(rng.Bytes(32)), vlib.Hex(rng.Bytes(8)), ctr))
	}
	c.check("bad-size", fmt.Sprintf("xsalsa %s %s 10", vlib.Hex(rng.Bytes(31)), vlib.Hex(rng.Bytes(24))))
	c.check("bad-size", fmt.Sprintf("xsalsa %s %s 10", vlib.Hex(rng.Bytes(32)), vlib.Hex(rng.Bytes(23))))
	c.check("bad-size", fmt.Sprintf("hsalsa %s %s", vlib.Hex(rng.Bytes(32)), vlib.Hex(rng.Bytes(15))))
}

func polys(c *ctx, rng *vlib.Rng) {
	ff := func(n int) []byte {
		b := make([]byte, n)
		for i := range b {
			b[i] = 0xff
		}
		return b
	}
	for _, ln := range []int{0, 1, 15, 16, 17, 31, 32, 33, 47, 48, 49, 64, 100, 1024, 1536, 8192} {
		c.check("structured", "poly "+vlib.Hex(rng.Bytes(32))+" "+vlib.Hex(rng.Bytes(ln)))
		// extreme limbs: r and s all ones, message all ones (carries through 2^130-5 reduction)
		c.check("all-ones", "poly "+vlib.Hex(ff(32))+" "+vlib.Hex(ff(ln)))
		c.check("r-ones", "poly "+vlib.Hex(append(ff(16), rng.Bytes(16)...))+" "+vlib.Hex(ff(ln)))
		c.check("r-zero", "poly "+vlib.Hex(append(make([]byte, 16), rng.Bytes(16)...))+" "+vlib.Hex(rng.Bytes(ln)))
	}
	// accumulators near the modulus: r = 1 makes acc = sum of blocks; blocks of ff.. push acc across 2^130-5
	one := make([]byte, 32)
	one[0] = 1
	for _, ln := range []int{16, 32, 48, 64, 80, 96} {
		c.check("r-one-wrap", "poly "+vlib.Hex(one)+" "+vlib.Hex(ff(ln)))
		k := append([]byte{1, 0, 0, 0, 0, 0, 0, 0, 0, 0, 0, 0, 0, 0, 0, 0}, ff(16)...)
		c.check("r-one-s-ones", "poly "+vlib.Hex(k)+" "+vlib.Hex(ff(ln)))
	}
	n := c.r.Scale(300, 6000)
	for i := 0; i < n; i++ {
		c.check("random", "poly "+vlib.Hex(rng.Bytes(32))+" "+vlib.Hex(rng.Bytes(rng.Intn(200))))
	}
	c.check("bad-size", "poly "+vlib.Hex(rng.Bytes(31))+" "+vlib.Hex(rng.Bytes(5)))
}

func boxes(c *ctx, rng *vlib.Rng) {
	sizes := []int{0, 1, 15, 16, 17, 31, 32, 33, 63, 64, 65, 95, 96, 97, 1000, 1448, 1536, 8192}
	n := c.r.Scale(120, 3000)
	for i := 0; i < len(sizes)+n; i++ {
		var sz int
		class := "random"
		if i < len(sizes) {
			sz, class = sizes[i], "structured"
		} else {
			sz = rng.Intn(200)
		}
		key, nonce, msg := rng.Bytes(32), rng.Bytes(24), rng.Bytes(sz)
		kn := vlib.Hex(key) + " " + vlib.Hex(nonce) + " "
		c.check(class, "sbseal "+kn+vlib.Hex(msg))
		var k [32]byte
		var nn [24]byte
		copy(k[:], key)
		copy(nn[:], nonce)
		box := secretbox.Seal(nil, msg, &nn, &k)
		c.check(class+"-honest", "sbopen "+kn+vlib.Hex(box))
		// tampering: one bit anywhere (tag, first/last ciphertext byte), truncation, extension, wrong nonce/key
		flip := func(pos int) []byte {
			b := append([]byte(nil), box...)
			b[pos] ^= 1 << uint(rng.Intn(8))
			return b
		}
		c.check("tamper-tag", "sbopen "+kn+vlib.Hex(flip(rng.Intn(16))))
		if sz > 0 {
			c.check("tamper-ct", "sbopen "+kn+vlib.Hex(flip(16+rng.Intn(sz))))
			c.check("tamper-ct-last", "sbopen "+kn+vlib.Hex(flip(len(box)-1)))
			c.check("truncate", "sbopen "+kn+vlib.Hex(box[:len(box)-1]))
		}
		c.check("extend", "sbopen "+kn+vlib.Hex(append(append([]byte(nil), box...), byte(rng.Intn(256)))))
		n2 := append([]byte(nil), nonce...)
		n2[23]++ // the next frame's nonce
		c.check("wrong-nonce", "sbopen "+vlib.Hex(key)+" "+vlib.Hex(n2)+" "+vlib.Hex(box))
		k2 := append([]byte(nil), key...)
		k2[rng.Intn(32)] ^= 0x80
		c.check("wrong-key", "sbopen "+vlib.Hex(k2)+" "+vlib.Hex(nonce)+" "+vlib.Hex(box))
	}
	for _, ln := range []int{0, 1, 15, 16} {
		c.check("short-box", "sbopen "+vlib.Hex(rng.Bytes(32))+" "+vlib.Hex(rng.Bytes(24))+" "+vlib.Hex(rng.Bytes(ln)))
	}
	c.check("bad-size", "sbseal "+vlib.Hex(rng.Bytes(16))+" "+vlib.Hex(rng.Bytes(24))+" 00")
	c.check("bad-size", "sbopen "+vlib.Hex(rng.Bytes(32))+" "+vlib.Hex(rng.Bytes(8))+" "+vlib.Hex(rng.Bytes(20)))
}

func aeses(c *ctx, rng *vlib.Rng) {
	n := c.r.Scale(200, 5000)
	for _, kl := range []int{16, 24, 32} {
		c.check("zero", "aesblk "+vlib.Hex(make([]byte, kl))+" "+vlib.Hex(make([]byte, 16)))
		for i := 0; i < n; i++ {
			c.check(fmt.Sprintf("random-k%d", kl), "aesblk "+vlib.Hex(rng.Bytes(kl))+" "+vlib.Hex(rng.Bytes(16)))
		}
	}
	// FIPS-197 appendix C vectors (keys 00 01 02 …, block 00 11 22 …)
	blk := vlib.UnHex("00112233445566778899aabbccddeeff")
	for _, kl := range []int{16, 24, 32} {
		k := make([]byte, kl)
		for i := range k {
			k[i] = byte(i)
		}
		c.check("fips197", "aesblk "+vlib.Hex(k)+" "+vlib.Hex(blk))
	}
	for _, kl := range []int{0, 15, 17, 31, 33, 64} {
		c.check("bad-key", "aesblk "+vlib.Hex(rng.Bytes(kl))+" "+vlib.Hex(rng.Bytes(16)))
		c.check("bad-key", fmt.Sprintf("aesctr %s %s 0 0011", vlib.Hex(rng.Bytes(kl)), vlib.Hex(rng.Bytes(16))))
	}
	for _, bl := range []int{0, 15, 17} {
		c.check("bad-block", "aesblk "+vlib.Hex(rng.Bytes(16))+" "+vlib.Hex(rng.Bytes(bl)))
		c.check("bad-iv", fmt.Sprintf("aesctr %s %s 0 0011", vlib.Hex(rng.Bytes(16)), vlib.Hex(rng.Bytes(bl))))
	}
	// CTR: IVs whose low bytes are ff..ff so that the increment carries across 1..16 bytes (incl. full wrap)
	ivs := func() [][]byte {
		var out [][]byte
		for carry := 0; carry <= 16; carry++ {
			iv := rng.Bytes(16)
			for j := 0; j < carry; j++ {
				iv[15-j] = 0xff
			}
			if carry < 16 {
				iv[15-carry] &= 0xfe // the byte that absorbs the carry does not itself overflow
			}
			out = append(out, iv)
		}
		// scramblesuit: 8-byte prefix ++ 00..01
		ss := append(rng.Bytes(8), 0, 0, 0, 0, 0, 0, 0, 1)
		out = append(out, ss, make([]byte, 16))
		// ff..fe: wraps after two blocks
		w := make([]byte, 16)
		for i := range w {
			w[i] = 0xff
		}
		w[15] = 0xfe
		out = append(out, w)
		return out
	}
	offs := []int{0, 1, 15, 16, 17, 31, 32, 33, 47, 48, 255, 256, 4095, 4096, 4097}
	for _, kl := range []int{16, 32} {
		for _, iv := range ivs() {
			key := rng.Bytes(kl)
			for _, off := range offs {
				for _, ln := range []int{0, 1, 15, 16, 17, 40} {
					c.check(fmt.Sprintf("carry-k%d", kl), fmt.Sprintf("aesctr %s %s %d %s", vlib.Hex(key), vlib.Hex(iv), off, vlib.Hex(rng.Bytes(ln))))
				}
			}
			c.check(fmt.Sprintf("keystream-k%d", kl), fmt.Sprintf("aesks %s %s %d %d", vlib.Hex(key), vlib.Hex(iv), rng.Intn(40), 64))
		}
	}
	for _, ln := range []int{1024, 1448, 8192} {
		c.check("big", fmt.Sprintf("aesctr %s %s %d %s", vlib.Hex(rng.Bytes(32)), vlib.Hex(rng.Bytes(16)), rng.Intn(100), vlib.Hex(rng.Bytes(ln))))
		c.check("big", fmt.Sprintf("aesctr %s %s %d %s", vlib.Hex(rng.Bytes(16)), vlib.Hex(rng.Bytes(16)), rng.Intn(100), vlib.Hex(rng.Bytes(ln))))
	}
	for i := 0; i < n; i++ {
		c.check("random", fmt.Sprintf("aesctr %s %s %d %s", vlib.Hex(rng.Bytes(vlib.Pick(rng, []int{16, 24, 32}))), vlib.Hex(rng.Bytes(16)), rng.Intn(600), vlib.Hex(rng.Bytes(rng.Intn(120)))))
	}
}

// speed asks the driver to run each primitive in a loop and reports ms per call (compiled Lean).
func speed(c *ctx) {
	type b struct {
		prim        string
		size, iters int
	}
	res := map[string]string{}
	benches := []b{{"sha256", 64, 2000}, {"sha256", 8192, 50}, {"sha512", 8192, 50}, {"hmac", 8192, 50}, {"hmac", 64, 1000},
		{"hkdfe", 144, 200}, {"xsalsa", 1536, 100}, {"poly", 1536, 100}, {"poly", 8192, 30}, {"sbseal", 1536, 100}, {"sbseal", 8192, 30},
		{"sbopen", 1536, 100}, {"aesblk128", 16, 3000}, {"aesblk256", 16, 3000}, {"aesctr128", 1536, 100}, {"aesctr256", 1536, 100}, {"aesctr256", 8192, 30}}
	for _, x := range benches {
		t0 := time.Now()
		rep := c.d.Call("bench %s %d %d", x.prim, x.size, x.iters)
		el := time.Since(t0)
		if _, err := strconv.Atoi(rep); err != nil {
			c.r.Violate("prim-bench-failed", "correspondence", fmt.Sprintf("bench %s %d: reply %q", x.prim, x.size, rep), pcase{fmt.Sprintf("bench %s %d %d", x.prim, x.size, x.iters)})
			continue
		}
		res[fmt.Sprintf("%s/%dB", x.prim, x.size)] = fmt.Sprintf("%.3f ms", float64(el.Microseconds())/1000/float64(x.iters))
	}
	c.r.Notes["lean_ms_per_call"] = res
}

func main() {
	r := vlib.NewRun("PRIMS")
	r.Rule = "case = one request line of the prim driver (primitive, hex arguments); expected reply computed from the same line with the Go standard library / golang.org/x/crypto as linked by the tree under test; every case counts (distinct by line); sizes structured around block boundaries (0,1,55,56,63,64,65,119,120,…, 1 KiB, 8 KiB), CTR offsets crossing blocks and counter carries, tampered secretboxes"
	r.Assumptions = []string{"the Go libraries are the reference; agreement is sampled, not proved"}
	c := &ctx{r, r.Driver("prim")}
	defer c.d.Close()

	if r.ReplayIn != "" {
		var pc pcase
		if err := r.LoadReplay(&pc); err == nil && pc.Line != "" && !strings.HasPrefix(pc.Line, "bench") {
			c.check("replay", pc.Line)
		}
		r.Finish()
	}
	rng := vlib.NewRng(r.Seed)
	hashes(c, rng.Fork())
	hkdfs(c, rng.Fork())
	salsas(c, rng.Fork())
	polys(c, rng.Fork())
	boxes(c, rng.Fork())
	aeses(c, rng.Fork())
	speed(c)
	r.Finish()
}
