package o4pair

import (
	"bytes"
	"fmt"
	"sync"
	"time"

	"verif/harness/vlib"
)

// DuplexOpts describes a full-duplex exchange: both endpoints read and write at the same time
// from one reader and one writer goroutine each (what the relay's copy loop does), with the
// harness forwarding every Conn.Write of one side to the other side's read queue.
type DuplexOpts struct {
	Total   [2]int `json:"total"`     // bytes written client→server / server→client
	Seed    uint64 `json:"seed"`      // content and re-chunking
	WSizes  []int  `json:"w_sizes"`   // cycle of Write sizes
	RSizes  []int  `json:"r_sizes"`   // cycle of Read buffer sizes
	Rechunk bool   `json:"rechunk"`   // the middlebox cuts every Conn.Write into random pieces
	Timeout int    `json:"timeout_s"` // stall watchdog (generous; 0 = 90 s)
}

// DuplexData returns the position-dependent content of direction dir: independent random
// streams per direction, so a byte that leaks from one direction (or from the other role's
// plaintext) into the other is recognised.
func DuplexData(o DuplexOpts, dir int) []byte {
	return vlib.NewRng(o.Seed ^ (0xD0B1E * uint64(dir+1))).Bytes(o.Total[dir])
}

// Duplex runs the exchange on a freshly established pair (no Read outstanding). It returns an
// empty sig when each reader got exactly what its peer wrote, with no error and no panic.
func (p *Pair) Duplex(o DuplexOpts) (sig, desc string, stats map[string]int) {
	stats = map[string]int{}
	var data [2][]byte
	for d := 0; d < 2; d++ {
		data[d] = DuplexData(o, d)
	}
	// middlebox: forward as written, or in random pieces
	for d := 0; d < 2; d++ {
		dst := p.Conn[receiver(d)]
		rng := vlib.NewRng(o.Seed + uint64(d) + 17)
		rechunk := o.Rechunk
		p.Conn[sender(d)].OnWrite = func(b []byte) {
			if !rechunk {
				dst.Feed(b)
				return
			}
			for len(b) > 0 {
				n := rng.Range(1, 3000)
				if rng.Intn(4) == 0 {
					n = rng.Range(1, 40)
				}
				if n > len(b) {
					n = len(b)
				}
				dst.Feed(b[:n])
				b = b[n:]
			}
		}
	}
	type res struct {
		got      int
		err      error
		pan      interface{}
		mismatch int // offset of the first delivered byte that differs from what the peer wrote (-1 = none)
		sample   []byte
		done     bool
	}
	var rr, wr [2]res
	var wg sync.WaitGroup
	cyc := func(c []int, i int, def int) int {
		if len(c) == 0 {
			return def
		}
		return c[i%len(c)]
	}
	for d := 0; d < 2; d++ {
		d := d
		wg.Add(2)
		go func() { // writer of direction d
			defer wg.Done()
			defer func() {
				if pv := recover(); pv != nil {
					wr[d].pan = pv
				}
			}()
			w := p.EP[sender(d)]
			for off, i := 0, 0; off < len(data[d]); i++ {
				n := cyc(o.WSizes, i, 4096)
				if n <= 0 {
					n = 1
				}
				if off+n > len(data[d]) {
					n = len(data[d]) - off
				}
				if _, err := w.Write(data[d][off : off+n]); err != nil {
					wr[d].err = err
					return
				}
				off += n
				wr[d].got = off
			}
			wr[d].done = true
		}()
		go func() { // reader of direction d
			defer wg.Done()
			defer func() {
				if pv := recover(); pv != nil {
					rr[d].pan = pv
				}
			}()
			rr[d].mismatch = -1
			r := p.EP[receiver(d)]
			buf := make([]byte, 70000)
			for i := 0; rr[d].got < len(data[d]); i++ {
				n, err := r.Read(buf[:cyc(o.RSizes, i, 32768)])
				pos := rr[d].got
				if pos+n > len(data[d]) || !bytes.Equal(buf[:n], data[d][pos:pos+n]) {
					k := 0
					for k < n && pos+k < len(data[d]) && buf[k] == data[d][pos+k] {
						k++
					}
					rr[d].mismatch = pos + k
					e := k + 16
					if e > n {
						e = n
					}
					rr[d].sample = append([]byte(nil), buf[k:e]...)
					rr[d].got += n
					return
				}
				rr[d].got += n
				if err != nil {
					rr[d].err = err
					return
				}
			}
			rr[d].done = true
		}()
	}
	fin := make(chan struct{})
	go func() { wg.Wait(); close(fin) }()
	to := time.Duration(o.Timeout) * time.Second
	if to == 0 {
		to = 90 * time.Second
	}
	stalled := false
	select {
	case <-fin:
	case <-time.After(to):
		stalled = true
		for _, c := range p.Conn { // wake everybody
			if !c.Closed() {
				c.Close()
			}
		}
		select {
		case <-fin:
		case <-time.After(10 * time.Second):
		}
	}
	for d := 0; d < 2; d++ {
		p.Conn[d].OnWrite = nil
		p.Conn[d].TakeWrites()
		stats["delivered-"+DirName(d)] = rr[d].got
	}
	for d := 0; d < 2; d++ {
		dn := DirName(d)
		other := data[1-d]
		switch {
		case rr[d].pan != nil:
			return "duplex-panic-in-read", fmt.Sprintf("%s: Read panicked after %d bytes while the same endpoint was writing: %v", dn, rr[d].got, rr[d].pan), stats
		case wr[d].pan != nil:
			return "duplex-panic-in-write", fmt.Sprintf("%s: Write panicked after %d bytes while the same endpoint was reading: %v", dn, wr[d].got, wr[d].pan), stats
		case rr[d].mismatch >= 0:
			where := "neither stream"
			if len(rr[d].sample) >= 8 && bytes.Contains(other, rr[d].sample[:8]) {
				where = "the OTHER direction's plaintext (what this endpoint itself was writing)"
			} else if len(rr[d].sample) >= 8 && bytes.Contains(data[d], rr[d].sample[:8]) {
				where = "another position of the same stream"
			}
			return "duplex-delivered-not-a-prefix", fmt.Sprintf("%s: with both endpoints reading and writing at once, the reader got %d bytes of which the byte at offset %d is not what the peer wrote there; the foreign bytes %x… occur in %s",
				dn, rr[d].got, rr[d].mismatch, rr[d].sample, where), stats
		}
	}
	for d := 0; d < 2; d++ {
		dn := DirName(d)
		switch {
		case rr[d].err != nil && !stalled:
			return "duplex-read-error-on-honest-stream", fmt.Sprintf("%s: Read returned %v after %d of %d bytes (both endpoints reading and writing at once, nothing tampered)", dn, rr[d].err, rr[d].got, len(data[d])), stats
		case wr[d].err != nil && !stalled:
			return "duplex-write-error", fmt.Sprintf("%s: Write returned %v after %d bytes", dn, wr[d].err, wr[d].got), stats
		}
	}
	if stalled {
		return "duplex-stall", fmt.Sprintf("after %v: c2s written %d (done %v) delivered %d of %d; s2c written %d (done %v) delivered %d of %d",
			to, wr[0].got, wr[0].done, rr[0].got, len(data[0]), wr[1].got, wr[1].done, rr[1].got, len(data[1])), stats
	}
	return "", "", stats
}
