// Package o4pair: two REAL obfs4 endpoints (transports.Get("obfs4") client and server)
// connected through two vlib.ScriptConns with the harness as the middlebox. Shared by the
// C01 and C05 harnesses.
package o4pair

import (
	"bytes"
	"encoding/hex"
	"errors"
	"flag"
	"fmt"
	"io"
	"net"
	"os"
	"strings"
	"sync"
	"time"

	pt "gitlab.torproject.org/tpo/anti-censorship/pluggable-transports/goptlib"

	"gitlab.com/yawning/obfs4.git/common/csrand"
	"gitlab.com/yawning/obfs4.git/common/ntor"
	"gitlab.com/yawning/obfs4.git/transports"
	"gitlab.com/yawning/obfs4.git/transports/base"
	"gitlab.com/yawning/obfs4.git/transports/obfs4"
	"gitlab.com/yawning/obfs4.git/transports/obfs4/framing"

	"verif/harness/vlib"
)

// Direction indices.
const (
	C2S = 0
	S2C = 1
)

func DirName(d int) string {
	if d == C2S {
		return "c2s"
	}
	return "s2c"
}

// Params fixes everything random about one connection.
type Params struct {
	TapeSeed uint64 `json:"tape_seed"` // crypto/rand.Reader replacement seed
	IAT      int    `json:"iat"`
	Biased   bool   `json:"biased"`
	NodeID   string `json:"node_id"`
	PrivKey  string `json:"priv_key"`
	DrbgSeed string `json:"drbg_seed"`
}

func RandomParams(rng *vlib.Rng, iat int, biased bool) Params {
	return Params{TapeSeed: rng.U64(), IAT: iat, Biased: biased,
		NodeID: hex.EncodeToString(rng.Bytes(20)), PrivKey: hex.EncodeToString(rng.Bytes(32)),
		DrbgSeed: hex.EncodeToString(rng.Bytes(24))}
}

// Chunker describes how a byte string is cut into the chunks the receiving endpoint's
// net.Conn.Read calls return.
type Chunker struct {
	Kind  string `json:"kind"`            // one | whole | fixed | rand | bounds | at | sizes
	N     int    `json:"n,omitempty"`     // fixed: chunk size; bounds: delta (-1,0,+1); at: offset
	Seed  uint64 `json:"seed,omitempty"`  // rand
	Sizes []int  `json:"sizes,omitempty"` // sizes: explicit
}

func (c Chunker) String() string {
	switch c.Kind {
	case "fixed", "bounds", "at":
		return fmt.Sprintf("%s%+d", c.Kind, c.N)
	}
	return c.Kind
}

// Split returns chunk sizes covering total bytes. bounds are offsets of interest (frame
// boundaries), used by kind "bounds".
func (c Chunker) Split(total int, bounds []int) []int {
	var out []int
	switch c.Kind {
	case "one":
		out = make([]int, total)
		for i := range out {
			out[i] = 1
		}
	case "fixed":
		n := c.N
		if n <= 0 {
			n = 1448
		}
		for left := total; left > 0; left -= n {
			if left < n {
				out = append(out, left)
			} else {
				out = append(out, n)
			}
		}
	case "rand":
		rng := vlib.NewRng(c.Seed)
		for left := total; left > 0; {
			var n int
			switch rng.Intn(5) {
			case 0:
				n = rng.Range(1, 3)
			case 1:
				n = rng.Range(1, 64)
			case 2:
				n = rng.Range(1, 1500)
			case 3:
				n = rng.Range(1400, 1500)
			default:
				n = rng.Range(1, 6000)
			}
			if n > left {
				n = left
			}
			out = append(out, n)
			left -= n
		}
	case "bounds":
		prev := 0
		for _, b := range bounds {
			p := b + c.N
			if p <= prev || p >= total {
				continue
			}
			out = append(out, p-prev)
			prev = p
		}
		if total > prev {
			out = append(out, total-prev)
		}
	case "at":
		if c.N > 0 && c.N < total {
			out = []int{c.N, total - c.N}
		} else if total > 0 {
			out = []int{total}
		}
	case "sizes":
		left := total
		for _, n := range c.Sizes {
			if n <= 0 || left == 0 {
				continue
			}
			if n > left {
				n = left
			}
			out = append(out, n)
			left -= n
		}
		if left > 0 {
			out = append(out, left)
		}
	default: // whole
		if total > 0 {
			out = []int{total}
		}
	}
	return out
}

// Reader drives net.Conn.Read of one endpoint and accumulates what it delivered.
type Reader struct {
	Conn   net.Conn
	SC     *vlib.ScriptConn
	op     *vlib.Op
	buf    []byte
	bufLen int
	n      int
	err    error
	Got    []byte
	Err    error   // the error the last Drain stopped at
	Errs   []error // earlier errors (see Resume)
	ErrN   int     // bytes returned together with that error
	ErrBuf int     // len(buf) of the Read call that returned that error
	Panic  interface{}
	Stuck  bool // the call neither finished nor blocked in the underlying Read
	Reads  int
}

// Drain issues Read calls (buffer sizes from next) until one is blocked on the network with
// nothing to read (returns true), or an error / panic / stuck call ends the session (false).
func (r *Reader) Drain(next func() int) (blocked bool) {
	for {
		if r.Err != nil || r.Panic != nil || r.Stuck {
			return false
		}
		if r.op == nil {
			n := next()
			if cap(r.buf) < n {
				r.buf = make([]byte, n)
			}
			b := r.buf[:n]
			r.bufLen = n
			r.op = r.SC.Start(func() { r.n, r.err = r.Conn.Read(b) })
		}
		fin, stuck := r.SC.WaitT(r.op, 20*time.Second)
		if stuck {
			r.Stuck = true
			return false
		}
		if !fin {
			return true
		}
		op := r.op
		r.op = nil
		r.Reads++
		if op.Panic != nil {
			r.Panic = op.Panic
			return false
		}
		r.Got = append(r.Got, r.buf[:r.n]...)
		if r.err != nil {
			r.Err = r.err
			r.ErrN = r.n
			r.ErrBuf = r.bufLen
			return false
		}
	}
}

// ReadOnce issues exactly one Read with an n-byte buffer (unless one is already outstanding) and
// reports whether it returned; the result is accumulated like in Drain.
func (r *Reader) ReadOnce(n int) (finished bool) {
	if r.Err != nil || r.Panic != nil || r.Stuck {
		return true
	}
	if r.op == nil {
		if cap(r.buf) < n {
			r.buf = make([]byte, n)
		}
		b := r.buf[:n]
		r.bufLen = n
		r.op = r.SC.Start(func() { r.n, r.err = r.Conn.Read(b) })
	}
	fin, stuck := r.SC.WaitT(r.op, 20*time.Second)
	if stuck {
		r.Stuck = true
		return false
	}
	if !fin {
		return false
	}
	op := r.op
	r.op = nil
	r.Reads++
	if op.Panic != nil {
		r.Panic = op.Panic
		return true
	}
	r.Got = append(r.Got, r.buf[:r.n]...)
	if r.err != nil {
		r.Err, r.ErrN, r.ErrBuf = r.err, r.n, r.bufLen
	}
	return true
}

// Resume forgets the error the last Drain stopped at, so that a caller that keeps reading after
// an error can be simulated. The errors seen so far are kept in Errs.
func (r *Reader) Resume() {
	if r.Err != nil {
		r.Errs = append(r.Errs, r.Err)
		r.Err = nil
	}
}

// Busy reports whether a Read call is outstanding (blocked).
func (r *Reader) Busy() bool { return r.op != nil }

// Pair is an established client/server connection with the harness in the middle.
type Pair struct {
	P      Params
	Conn   [2]*vlib.ScriptConn // underlying conns: [C2S] = the client's, [S2C] = the server's
	EP     [2]net.Conn         // obfs4 endpoints: [0] client, [1] server
	Rd     [2]*Reader          // Rd[C2S] reads at the server, Rd[S2C] reads at the client
	Tape   *vlib.RandTape
	Keys   [2][]byte // 72-byte frame keys per direction (nil when the derivation failed)
	KeyErr string

	HelloLen  int    // client handshake request
	RespLen   int    // server handshake response without the inline seed frame
	PostResp  []byte // everything the server wrote after the response up to the client's release (seed frame ‖ early data)
	PostSent  []byte // what the middlebox actually delivered in its place (= PostResp unless TamperPost)
	ClientErr error  // the error Dial returned (only with AllowClientFail)
	// the public handshake transcript as seen on the wire, and the client's ntor inputs/outputs
	// (hook VerifClientArgs + exported ntor API), for the on-path oracles and the ntor tie
	HelloWire, RespWire []byte
	Ntor                struct {
		XPriv, X, Y, B, ID, KeySeed, Auth []byte
		OK                                bool
	}
	// Armed[role] (0 client, 1 server) describes the deadline halves of the underlying conn that
	// were still armed when Dial / WrapConn returned successfully ("" = none)
	Armed     [2]string
	Surplus   []byte   // the part of PostResp the client's handshake reads picked up (left in receiveBuffer)
	PostQueue [][]byte // the rest of PostResp, as the client's data-phase reads will see it
	EarlyWire [][]byte
	dir       string
}

// ErrF2 marks the known iat-mode=2 "iat length was 0" panic of the unchanged tree (defect F2,
// property C09): such connections are skipped and counted, never reported under C01/C05.
var ErrF2 = errors.New("paranoid-mode write panicked (iat length was 0)")

var initOnce sync.Once

// SetupOpts controls the handshake phase.
type SetupOpts struct {
	Hello Chunker  // chunking of the client's request towards the server
	Resp  Chunker  // chunking of everything the server has written when it is released to the client
	Early [][]byte // server-side Write calls issued right after WrapConn returned, before the release
	// TamperPost, when set, rewrites everything the server wrote after its handshake response
	// (inline seed frame ‖ early data) before the client sees any of it; pr.Keys are available.
	TamperPost      func(pr *Pair, post []byte) []byte
	AllowClientFail bool   // a failing client handshake is an outcome (Pair.ClientErr), not a setup error
	EndAfterPost    string // eof | other | timeout: network error queued right behind the released bytes
}

func sender(dir int) int   { return dir }     // endpoint index that writes direction dir
func receiver(dir int) int { return 1 - dir } // endpoint index that reads direction dir

// SafeWrite calls w.Write with recover.
func SafeWrite(w net.Conn, b []byte) (n int, err error, pan interface{}) {
	defer func() {
		if p := recover(); p != nil {
			pan = p
		}
	}()
	n, err = w.Write(b)
	return
}

func isF2(p interface{}) bool {
	s, ok := p.(string)
	return ok && s == "BUG: Write(), iat length was 0"
}

// Setup performs the handshake of two real endpoints. Randomness comes from a RandTape seeded
// with p.TapeSeed (crypto/rand.Reader and csrand.Reader are replaced; cases must run one at a time).
func Setup(p Params, o SetupOpts) (*Pair, error) {
	f, err := NewFactory(p)
	if err != nil {
		return nil, err
	}
	cargs, err := f.ParseArgs()
	if err != nil {
		f.Close()
		return nil, err
	}
	pr, err := f.Connect(cargs, o)
	if err != nil {
		f.Close()
		return nil, err
	}
	pr.dir = f.dir // the pair owns the factory's state directory
	return pr, nil
}

// Factory is one real obfs4 server factory (a bridge) with the matching client factory; several
// connections can be made through it in one process (cross-connection histories).
type Factory struct {
	P    Params
	Tape *vlib.RandTape
	sf   base.ServerFactory
	cf   base.ClientFactory
	dir  string
}

// NewFactory installs the rand tape of p (process-global) and creates the factories.
func NewFactory(p Params) (*Factory, error) {
	initOnce.Do(func() {
		if err := transports.Init(); err != nil {
			panic(err)
		}
	})
	if err := flag.Set("obfs4-distBias", fmt.Sprint(p.Biased)); err != nil {
		return nil, fmt.Errorf("cannot set obfs4-distBias: %v", err)
	}
	tape := vlib.InstallRandTape(p.TapeSeed)
	csrand.Reader = tape
	tr := transports.Get("obfs4")
	if tr == nil {
		return nil, errors.New("obfs4 transport not registered")
	}
	dir, err := os.MkdirTemp("", "o4pair")
	if err != nil {
		return nil, err
	}
	args := &pt.Args{}
	args.Add("node-id", p.NodeID)
	args.Add("private-key", p.PrivKey)
	args.Add("drbg-seed", p.DrbgSeed)
	args.Add("iat-mode", fmt.Sprint(p.IAT))
	sf, err := tr.ServerFactory(dir, args)
	if err != nil {
		os.RemoveAll(dir)
		return nil, fmt.Errorf("ServerFactory: %v", err)
	}
	cf, err := tr.ClientFactory(dir)
	if err != nil {
		os.RemoveAll(dir)
		return nil, err
	}
	return &Factory{P: p, Tape: tape, sf: sf, cf: cf, dir: dir}, nil
}

// ParseArgs parses the bridge line into a client args object (this draws the client's ntor
// session key pair); the same object may be dialled several times.
func (f *Factory) ParseArgs() (interface{}, error) {
	cargs, err := f.cf.ParseArgs(f.sf.Args())
	if err != nil {
		return nil, fmt.Errorf("ParseArgs: %v", err)
	}
	return cargs, nil
}

// Close removes the factory's state directory.
func (f *Factory) Close() {
	if f.dir != "" {
		os.RemoveAll(f.dir)
	}
}

// Connect makes one connection through the factory with the given client args object.
func (f *Factory) Connect(cargs interface{}, o SetupOpts) (*Pair, error) {
	p, tape, sf, cf := f.P, f.Tape, f.sf, f.cf
	pr := &Pair{P: p, Tape: tape}
	cc, sc := vlib.NewScriptConn(), vlib.NewScriptConn()
	pr.Conn = [2]*vlib.ScriptConn{cc, sc}

	var cl net.Conn
	var clErr error
	opC := cc.Start(func() {
		cl, clErr = cf.Dial("tcp", "192.0.2.1:443", func(string, string) (net.Conn, error) { return cc, nil }, cargs)
	})
	if cc.Wait(opC) {
		pr.Close()
		return nil, fmt.Errorf("client Dial returned before any response: %v panic=%v", clErr, opC.Panic)
	}
	hello := cc.TakeWritten()
	pr.HelloLen = len(hello)
	pr.HelloWire = append([]byte(nil), hello...)
	sc.FeedChunks(hello, o.Hello.Split(len(hello), nil))
	var srv net.Conn
	var srvErr error
	opS := sc.Start(func() { srv, srvErr = sf.WrapConn(sc) })
	if !sc.Wait(opS) {
		pr.Close()
		return nil, errors.New("server WrapConn blocked although the whole request was delivered")
	}
	if opS.Panic != nil || srvErr != nil {
		pr.Close()
		return nil, fmt.Errorf("server handshake: %v panic=%v", srvErr, opS.Panic)
	}
	pr.Armed[1] = armedDesc(sc)
	first := sc.TakeWritten()
	seedFrame := framing.FrameOverhead + 3 + 24
	if len(first) < seedFrame {
		pr.Close()
		return nil, fmt.Errorf("server response too short: %d", len(first))
	}
	pr.RespLen = len(first) - seedFrame
	all := append([]byte(nil), first...)
	for _, w := range o.Early {
		_, werr, pan := SafeWrite(srv, w)
		if pan != nil {
			pr.Close()
			if isF2(pan) {
				return nil, ErrF2
			}
			return nil, fmt.Errorf("server early Write panicked: %v", pan)
		}
		if werr != nil {
			pr.Close()
			return nil, fmt.Errorf("server early Write: %v", werr)
		}
		ws := sc.TakeWrites()
		for _, x := range ws {
			all = append(all, x...)
		}
		pr.EarlyWire = append(pr.EarlyWire, ws...)
	}
	pr.PostResp = append([]byte(nil), all[pr.RespLen:]...)

	// link keys: redo the client's ntor computation through the exported API (needs only the
	// client's session key pair and the server's public response)
	if nodeID, idPub, sess, _, ok := obfs4.VerifClientArgs(cargs); ok && len(first) >= 32 {
		var repr ntor.Representative
		copy(repr.Bytes()[:], first[:32])
		okh, seed, auth := ntor.ClientHandshake(sess, repr.ToPublic(), idPub, nodeID)
		pr.RespWire = append([]byte(nil), first[:pr.RespLen]...)
		cp := func(b []byte) []byte { return append([]byte(nil), b...) }
		pr.Ntor.XPriv, pr.Ntor.X = cp(sess.Private().Bytes()[:]), cp(sess.Public().Bytes()[:])
		pr.Ntor.Y, pr.Ntor.B, pr.Ntor.ID = cp(repr.ToPublic().Bytes()[:]), cp(idPub.Bytes()[:]), cp(nodeID.Bytes()[:])
		pr.Ntor.OK = okh
		if seed != nil && auth != nil {
			pr.Ntor.KeySeed, pr.Ntor.Auth = cp(seed.Bytes()[:]), cp(auth.Bytes()[:])
		}
		if okh {
			okm := ntor.Kdf(seed.Bytes()[:], framing.KeyLength*2)
			pr.Keys[C2S] = okm[:framing.KeyLength]
			pr.Keys[S2C] = okm[framing.KeyLength:]
			// cross-check against the server's live encoder/decoder state
			if enc, dec, ok := obfs4.VerifConnCrypto(srv); ok {
				ek, ep, _ := enc.VerifState()
				dk, dp, _, _, _ := dec.VerifState()
				if string(ek) != string(pr.Keys[S2C][:32]) || string(ep) != string(pr.Keys[S2C][32:48]) ||
					string(dk) != string(pr.Keys[C2S][:32]) || string(dp) != string(pr.Keys[C2S][32:48]) {
					pr.KeyErr = "derived link keys differ from the live encoder/decoder keys"
					pr.Keys = [2][]byte{}
				}
			}
		} else {
			pr.KeyErr = "ntor.ClientHandshake failed on the observed response"
		}
	} else {
		pr.KeyErr = "VerifClientArgs unavailable"
	}

	// the middlebox may rewrite what follows the response before the client sees any of it
	if o.TamperPost != nil {
		all = append(append([]byte(nil), all[:pr.RespLen]...), o.TamperPost(pr, pr.PostResp)...)
		pr.PostSent = append([]byte(nil), all[pr.RespLen:]...)
	} else {
		pr.PostSent = pr.PostResp
	}
	bounds := []int{pr.RespLen, pr.RespLen + seedFrame}
	var respSizes []int
	if o.Resp.Kind == "respat" { // one cut, N bytes after the end of the response
		respSizes = Chunker{Kind: "at", N: pr.RespLen + o.Resp.N}.Split(len(all), nil)
	} else {
		respSizes = o.Resp.Split(len(all), bounds)
	}
	pr.splitHandshakeReads(all, respSizes)
	cc.FeedChunks(all, respSizes)
	if o.EndAfterPost != "" {
		cc.FeedErr(netErr(o.EndAfterPost))
	}
	if !cc.Wait(opC) {
		pr.Close()
		return nil, errors.New("client Dial still blocked although the whole response was delivered")
	}
	pr.EP = [2]net.Conn{cl, srv}
	pr.Rd[C2S] = &Reader{Conn: srv, SC: sc}
	if opC.Panic != nil || clErr != nil {
		if o.AllowClientFail && opC.Panic == nil {
			pr.ClientErr = clErr
			pr.EP[0] = nil
			return pr, nil
		}
		pr.Close()
		return nil, fmt.Errorf("client handshake: %v panic=%v", clErr, opC.Panic)
	}
	pr.Rd[S2C] = &Reader{Conn: cl, SC: cc}
	pr.Armed[0] = armedDesc(cc)
	return pr, nil
}

// DeadlineState replays a ScriptConn's event log: the read and write deadline currently armed
// (relative to the conn's creation, 0 = none). SetDeadline sets both halves.
func DeadlineState(evs []vlib.ConnEvent) (rdl, wdl time.Duration) {
	for _, e := range evs {
		switch e.Kind {
		case "deadline":
			rdl, wdl = e.Off, e.Off
		case "rdeadline":
			rdl = e.Off
		case "wdeadline":
			wdl = e.Off
		}
	}
	return
}

func armedDesc(sc *vlib.ScriptConn) string {
	rdl, wdl := DeadlineState(sc.EventsCopy())
	switch {
	case rdl != 0 && wdl != 0:
		return fmt.Sprintf("read and write deadline still armed (+%.0fs / +%.0fs after the conn was made)", rdl.Seconds(), wdl.Seconds())
	case rdl != 0:
		return fmt.Sprintf("read deadline still armed (+%.0fs)", rdl.Seconds())
	case wdl != 0:
		return fmt.Sprintf("write deadline still armed (+%.0fs)", wdl.Seconds())
	}
	return ""
}

// splitHandshakeReads works out which bytes after the response the client's handshake loop
// reads (it reads into an 8192-byte buffer until the whole response is there: the first read
// boundary at or after RespLen) and what stays queued for the data phase.
func (p *Pair) splitHandshakeReads(all []byte, sizes []int) {
	const hsBuf = 8192
	pos, hsEnd := 0, -1
	for _, n := range sizes {
		if n <= 0 {
			continue
		}
		if pos+n > len(all) {
			n = len(all) - pos
		}
		if hsEnd < 0 {
			off := 0
			for off < n && hsEnd < 0 {
				piece := n - off
				if piece > hsBuf {
					piece = hsBuf
				}
				off += piece
				if pos+off >= p.RespLen {
					hsEnd = pos + off
				}
			}
			if hsEnd >= 0 && off < n {
				p.PostQueue = append(p.PostQueue, all[pos+off:pos+n])
			}
		} else {
			p.PostQueue = append(p.PostQueue, all[pos:pos+n])
		}
		pos += n
	}
	if pos < len(all) {
		if hsEnd < 0 {
			hsEnd = len(all) // (the final rest chunk; cannot happen with Split covering everything)
		} else {
			p.PostQueue = append(p.PostQueue, all[pos:])
		}
	}
	if hsEnd < 0 {
		hsEnd = p.RespLen
	}
	p.Surplus = append([]byte(nil), all[p.RespLen:hsEnd]...)
}

// ErrClass maps a Read error of an endpoint to the line protocol's error classes.
func ErrClass(err error) string {
	if err == nil {
		return "none"
	}
	var te interface{ Timeout() bool }
	s := err.Error()
	switch {
	case errors.Is(err, framing.ErrTagMismatch):
		return "tag"
	case errors.Is(err, framing.ErrNonceCounterWrapped):
		return "nonce"
	case errors.Is(err, io.EOF):
		return "net:eof"
	case errors.As(err, &te) && te.Timeout():
		return "net:timeout"
	case strings.HasPrefix(s, "packet: Invalid packet length"):
		return "pktlen"
	case strings.HasPrefix(s, "packet: Invalid payload length"):
		return "paylen"
	}
	return "net:other"
}

// Write makes the sender of direction dir Write(data) and returns the wire bytes it handed to
// its underlying conn (one entry per Conn.Write). f2 reports the known paranoid-mode panic.
func (p *Pair) Write(dir int, data []byte) (wire [][]byte, err error, pan interface{}) {
	_, err, pan = SafeWrite(p.EP[sender(dir)], data)
	wire = p.Conn[sender(dir)].TakeWrites()
	return
}

// Deliver queues wire bytes of direction dir at the receiver, cut into the given chunk sizes.
func (p *Pair) Deliver(dir int, wire []byte, sizes []int) {
	p.Conn[receiver(dir)].FeedChunks(wire, sizes)
}

// EOF makes the receiver of direction dir see io.EOF after the queued data.
func (p *Pair) EOF(dir int) { p.Conn[receiver(dir)].FeedEOF() }

// Fail makes the receiver of direction dir see a network error after the queued data:
// cls = eof | timeout | other (a connection reset).
func (p *Pair) Fail(dir int, cls string) {
	switch cls {
	case "timeout":
		p.Conn[receiver(dir)].FeedErr(vlib.TimeoutError{})
	case "other":
		p.Conn[receiver(dir)].FeedErr(&net.OpError{Op: "read", Net: "tcp", Err: errors.New("connection reset by peer")})
	default:
		p.Conn[receiver(dir)].FeedEOF()
	}
}

func netErr(cls string) error {
	switch cls {
	case "timeout":
		return vlib.TimeoutError{}
	case "other":
		return &net.OpError{Op: "read", Net: "tcp", Err: errors.New("connection reset by peer")}
	}
	return io.EOF
}

// FailWith makes ONE Read of the receiver of direction dir return the final chunk TOGETHER
// with the network error (n > 0 and err != nil from the same call), after the queued data.
func (p *Pair) FailWith(dir int, chunk []byte, cls string) {
	p.Conn[receiver(dir)].FeedWithErr(chunk, netErr(cls))
}

// ClearErr removes the network error queued for the receiver of direction dir: the error was
// temporary (a read deadline that fired, …) and the stream goes on.
func (p *Pair) ClearErr(dir int) { p.Conn[receiver(dir)].FeedErr(nil) }

// Reader returns the reader of direction dir.
func (p *Pair) Reader(dir int) *Reader { return p.Rd[dir] }

// Buffered returns the receiver's buffer sizes for direction dir (hook).
func (p *Pair) Buffered(dir int) (rxBuf, decoded int) {
	a, b, _ := obfs4.VerifBufferSizes(p.EP[receiver(dir)])
	return a, b
}

// CloseEndpoints calls Close() on both obfs4 endpoints (what the relay does when a connection
// ends), not merely on the harness's conns.
func (p *Pair) CloseEndpoints() {
	for _, e := range p.EP {
		if e != nil {
			func() {
				defer func() { _ = recover() }()
				e.Close()
			}()
		}
	}
}

// Close releases blocked goroutines and the state directory.
func (p *Pair) Close() {
	for _, c := range p.Conn {
		if c != nil && !c.Closed() {
			c.Close()
		}
	}
	if p.dir != "" {
		os.RemoveAll(p.dir)
	}
}

// ForgeFrame seals an arbitrary packet plaintext as frame number idx (0-based) of the direction
// with the real framing.Encoder and the direction key: what a *peer* (not an on-path attacker)
// could send. The encoder is synchronised by encoding idx dummy frames first.
func ForgeFrame(key []byte, idx int, pkt []byte) ([]byte, error) {
	enc := framing.NewEncoder(key)
	var buf [framing.MaximumSegmentLength]byte
	for i := 0; i < idx; i++ {
		if _, err := enc.Encode(buf[:], nil); err != nil {
			return nil, err
		}
	}
	n, err := enc.Encode(buf[:], pkt)
	if err != nil {
		return nil, err
	}
	return append([]byte(nil), buf[:n]...), nil
}

// DecoderState returns the real decoder's nonce counter and nextLengthInvalid flag of the
// receiver of direction dir (hook).
func (p *Pair) DecoderState(dir int) (counter uint64, nextLength int, invalid bool, ok bool) {
	_, dec, ok := obfs4.VerifConnCrypto(p.EP[receiver(dir)])
	if !ok || dec == nil {
		return 0, 0, false, false
	}
	_, _, c, nl, inv := dec.VerifState()
	return c, int(nl), inv, true
}

// Shadow is a real framing.Decoder run by the harness over an honest wire stream with the
// direction key: it yields the frame boundaries and packet plaintexts (used to choose chunk
// points and tamper targets, never to judge).
type Shadow struct {
	dec    *framing.Decoder
	buf    bytes.Buffer
	fed    int
	Frames []Frame
	Err    error
}

// Frame is one frame of a direction: [Start,End) offsets in the direction's wire stream
// (counted from the first byte after the handshake) and the packet plaintext.
type Frame struct {
	Start, End int
	Pkt        []byte
}

// PayloadLen returns the length of the application payload the packet carries (0 for padding,
// seed and unknown packets).
func (f Frame) PayloadLen() int {
	if len(f.Pkt) < 3 || f.Pkt[0] != 0 {
		return 0
	}
	n := int(f.Pkt[1])<<8 | int(f.Pkt[2])
	if n > len(f.Pkt)-3 {
		return 0
	}
	return n
}

func NewShadow(key []byte) *Shadow {
	if len(key) != framing.KeyLength {
		return nil
	}
	return &Shadow{dec: framing.NewDecoder(key)}
}

// Feed appends wire bytes and returns the frames completed by them.
func (s *Shadow) Feed(wire []byte) []Frame {
	if s == nil || s.Err != nil {
		return nil
	}
	s.buf.Write(wire)
	s.fed += len(wire)
	var out []Frame
	for s.buf.Len() > 0 {
		var pkt [framing.MaximumFramePayloadLength]byte
		n, err := s.dec.Decode(pkt[:], &s.buf)
		if errors.Is(err, framing.ErrAgain) {
			break
		}
		if err != nil {
			s.Err = err
			break
		}
		start := 0
		if len(s.Frames) > 0 {
			start = s.Frames[len(s.Frames)-1].End
		}
		f := Frame{Start: start, End: s.fed - s.buf.Len(), Pkt: append([]byte(nil), pkt[:n]...)}
		s.Frames = append(s.Frames, f)
		out = append(out, f)
	}
	return out
}
