package o4pair

import (
	"bytes"
	"errors"

	"gitlab.com/yawning/obfs4.git/common/ntor"
	"gitlab.com/yawning/obfs4.git/transports/obfs4/framing"
)

// OpensFirstFrame reports whether the 72-byte frame key opens `wire` as the FIRST frame(s) of a
// direction (real framing.Decoder from its initial state) and returns the packet plaintext.
func OpensFirstFrame(key, wire []byte) ([]byte, bool) {
	if len(key) != framing.KeyLength || len(wire) < framing.FrameOverhead {
		return nil, false
	}
	dec := framing.NewDecoder(key)
	buf := bytes.NewBuffer(append([]byte(nil), wire...))
	var pkt [framing.MaximumFramePayloadLength]byte
	n, err := dec.Decode(pkt[:], buf)
	if err != nil || errors.Is(err, framing.ErrAgain) {
		return nil, false
	}
	return append([]byte(nil), pkt[:n]...), true
}

// KeyCandidate is what an on-path observer can compute from 32 public bytes: the obfs4 key
// schedule (ntor.Kdf, 144 bytes, client→server key first) applied to them as if they were KEY_SEED.
func KeyCandidate(window []byte) (c2s, s2c []byte) {
	okm := ntor.Kdf(window, framing.KeyLength*2)
	return okm[:framing.KeyLength], okm[framing.KeyLength:]
}

// KeyHit is one successful key recovery.
type KeyHit struct {
	Flight string // "request" | "response"
	Off    int    // offset of the 32-byte window in that flight
	Opens  string // which direction's first frame the derived key opened, and in which role
	Key    []byte // the recovered 72-byte key of that direction
	Dir    int
}

// RecoverKeys tries EVERY 32-byte window of both public handshake flights as KEY_SEED, in both
// roles of the key split, against the first real frames of each direction.
func RecoverKeys(flights map[string][]byte, firstFrames [2][]byte) (hits []KeyHit, tried int) {
	for name, fl := range flights {
		for off := 0; off+32 <= len(fl); off++ {
			a, b := KeyCandidate(fl[off : off+32])
			tried++
			for dir := 0; dir < 2; dir++ {
				if len(firstFrames[dir]) == 0 {
					continue
				}
				for role, k := range [][]byte{a, b} {
					if _, ok := OpensFirstFrame(k, firstFrames[dir]); ok {
						hits = append(hits, KeyHit{Flight: name, Off: off, Dir: dir, Key: k,
							Opens: DirName(dir) + " first frame with okm half " + []string{"[0:72]", "[72:144]"}[role]})
					}
				}
			}
		}
	}
	return
}
