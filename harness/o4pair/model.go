package o4pair

import (
	"os"
	"path/filepath"

	"verif/harness/vlib"
)

// StartModelDriver starts the Lean model driver o4data if its executable was built
// (props/Cxx.json lists it under "drivers"); nil otherwise.
func StartModelDriver(r *vlib.Run) *vlib.Driver {
	if r.DriverBin == "" {
		return nil
	}
	if _, err := os.Stat(filepath.Join(r.DriverBin, "o4d_o4data")); err != nil {
		return nil
	}
	return r.Driver("o4data")
}

// Model is the Lean model receiver of both directions of one connection.
type Model struct {
	d  *vlib.Driver
	pr *Pair
}

func NewModel(d *vlib.Driver, pr *Pair) *Model                                { return &Model{d: d, pr: pr} }
func (m *Model) Start()                                                       {}
func (m *Model) Deliver(dir int, wire []byte, sizes []int)                    {}
func (m *Model) Compare(dir int, rd *Reader, blocked bool) (sig, desc string) { return "", "" }
func (m *Model) Close()                                                       {}
