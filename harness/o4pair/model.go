package o4pair

import (
	"bytes"
	"fmt"
	"os"
	"path/filepath"
	"strings"

	"verif/harness/vlib"
)

// StartModelDriver starts the Lean model driver o4data if its executable was built
// (props/Cxx.json lists it under "drivers"); nil otherwise.
func StartModelDriverAt(driverBin string) *vlib.Driver {
	if driverBin == "" {
		return nil
	}
	path := filepath.Join(driverBin, "o4d_o4data")
	if _, err := os.Stat(path); err != nil {
		return nil
	}
	d, err := vlib.StartDriver(path, "o4data")
	if err != nil {
		return nil
	}
	return d
}

// StartDriverAt starts the Lean driver module `mod` (executable o4d_<mod>) if it was built.
func StartDriverAt(driverBin, mod string) *vlib.Driver {
	if driverBin == "" {
		return nil
	}
	path := filepath.Join(driverBin, "o4d_"+mod)
	if _, err := os.Stat(path); err != nil {
		return nil
	}
	d, err := vlib.StartDriver(path, mod)
	if err != nil {
		return nil
	}
	return d
}

// Model is the Lean model (driver o4data, real link keys) of the receiver of both directions of
// one connection. All methods are no-ops on a nil *Model (driver not available).
type Model struct {
	d      *vlib.Driver
	pr     *Pair
	points int
	got    [2][]byte // what the model delivered so far per direction
	dead   [2]string // error class the model reported (the model's caller stops there, like the real reader)
	fault  string    // protocol problem with the driver
	encN   [2]int    // frames checked against the model encoder
	// the model client's handshake outcome on the surplus: error class ("" = completes) and whether
	// an out-of-range length field was met (then the real decoder's random replacement length
	// decides when the error surfaces)
	HandshakeErr string
	HandshakeInv bool
}

const consumeReadSize = 1448 * 16
const modelReadSize = 1 << 30

func sessName(dir int) string { return DirName(dir) }

// NewModelIf returns nil when the driver or the link keys are missing.
func NewModelIf(d *vlib.Driver, pr *Pair) *Model {
	if d == nil || pr.Keys[0] == nil || pr.Keys[1] == nil {
		return nil
	}
	return &Model{d: d, pr: pr}
}

func NewModel(d *vlib.Driver, pr *Pair) *Model { return NewModelIf(d, pr) }

func (m *Model) call(format string, args ...interface{}) string {
	rep := m.d.Call(format, args...)
	if rep == "bad-op" || strings.HasPrefix(rep, "model-error") || strings.HasPrefix(rep, "driver-error") {
		if m.fault == "" {
			op := fmt.Sprintf(format, args...)
			if len(op) > 60 {
				op = op[:60] + "…"
			}
			m.fault = fmt.Sprintf("driver replied %q to %q", rep, op)
		}
	}
	return rep
}

// Start creates the two receiver sessions: the server reads client→server with the c2s key,
// the client reads server→client with the s2c key and starts from what its handshake reads
// left over (decoded at once: the model of the repaired clientHandshake).
func (m *Model) Start() {
	if m == nil {
		return
	}
	m.call("new %s %s 1", sessName(C2S), vlib.Hex(m.pr.Keys[C2S]))
	m.call("new %s %s 0", sessName(S2C), vlib.Hex(m.pr.Keys[S2C]))
	if rep := m.call("surplus %s %s 1", sessName(S2C), vlib.Hex(m.pr.Surplus)); strings.HasPrefix(rep, "err ") {
		m.dead[S2C] = strings.TrimPrefix(rep, "err ")
		m.HandshakeErr = m.dead[S2C]
	}
	if f := strings.Fields(m.call("state %s", sessName(S2C))); len(f) >= 3 {
		m.HandshakeInv = f[2] == "1"
	}
	for _, q := range m.pr.PostQueue {
		m.feed(S2C, q)
	}
}

// effective splits chunk sizes the way the endpoint's data-phase reads will see them (its read
// buffer holds consumeReadSize bytes).
func effective(sizes []int, total int) []int {
	var out []int
	left := total
	add := func(n int) {
		for n > 0 {
			k := n
			if k > consumeReadSize {
				k = consumeReadSize
			}
			out = append(out, k)
			n -= k
		}
	}
	for _, n := range sizes {
		if n <= 0 || left == 0 {
			continue
		}
		if n > left {
			n = left
		}
		add(n)
		left -= n
	}
	add(left)
	return out
}

func sizesArg(sizes []int) string {
	var sb strings.Builder
	for i := 0; i < len(sizes); {
		j := i
		for j < len(sizes) && sizes[j] == sizes[i] {
			j++
		}
		if sb.Len() > 0 {
			sb.WriteByte(',')
		}
		if j-i > 1 {
			fmt.Fprintf(&sb, "%dx%d", sizes[i], j-i)
		} else {
			fmt.Fprintf(&sb, "%d", sizes[i])
		}
		i = j
	}
	return sb.String()
}

func (m *Model) feed(dir int, chunk []byte) {
	m.Deliver(dir, chunk, nil)
}

// Deliver queues the same network reads the real receiver will see.
func (m *Model) Deliver(dir int, wire []byte, sizes []int) {
	if m == nil || len(wire) == 0 {
		return
	}
	m.call("nets %s %s %s", sessName(dir), vlib.Hex(wire), sizesArg(effective(sizes, len(wire))))
}

// Fail queues a network error (eof | timeout | other).
func (m *Model) Fail(dir int, cls string) {
	if m == nil {
		return
	}
	m.call("fail %s %s", sessName(dir), cls)
}

// FailWith queues the final chunk together with the network error (`NetEv.fail chunk cls`), the
// way the endpoint's reads will see it: pieces that exceed its read buffer come first, alone.
func (m *Model) FailWith(dir int, chunk []byte, cls string) {
	if m == nil {
		return
	}
	for len(chunk) > consumeReadSize {
		m.Deliver(dir, chunk[:consumeReadSize], nil)
		chunk = chunk[consumeReadSize:]
	}
	m.call("failc %s %s %s", sessName(dir), vlib.Hex(chunk), cls)
}

// Resume: the model's caller keeps reading after the error the last Compare stopped at.
func (m *Model) Resume(dir int) {
	if m == nil {
		return
	}
	m.dead[dir] = ""
}

// Compare lets the model reader run until it blocks or fails and compares with the real
// reader rd at the same point: concatenation of everything delivered, error class, blocked or
// not (not the per-Read grouping). On an error the real Read hands over at most len(buf) of the
// decoded bytes; what stayed in receiveDecodedBuffer (hook VerifBufferSizes) is accounted for.
func (m *Model) Compare(dir int, rd *Reader, blocked bool) (sig, desc string) {
	if m == nil {
		return "", ""
	}
	inv := false
	mBlocked := false
	if m.dead[dir] == "" {
		rep := m.call("drain %s %d", sessName(dir), modelReadSize)
		f := strings.Fields(rep)
		switch {
		case len(f) >= 2 && f[0] == "blocked":
			mBlocked = true
			m.got[dir] = append(m.got[dir], vlib.UnHex(f[1])...)
			inv = len(f) > 2 && f[2] == "inv"
		case len(f) >= 3 && f[0] == "err":
			m.dead[dir] = f[1]
			m.got[dir] = append(m.got[dir], vlib.UnHex(f[2])...)
			inv = len(f) > 3 && f[3] == "inv"
		default:
			if m.fault == "" {
				m.fault = "unparsable drain reply " + rep
			}
		}
	}
	if m.fault != "" {
		return "model-driver-fault", m.fault
	}
	m.points++
	realCls := ErrClass(rd.Err)
	_, left := m.pr.Buffered(dir)
	if rd.Err == nil {
		left = 0
	}
	mg := m.got[dir]
	switch {
	case rd.Panic != nil || rd.Stuck:
		return "real-endpoint-crashed", fmt.Sprintf("model: %d bytes, class %q; implementation panicked/stuck: %v", len(mg), m.dead[dir], rd.Panic)
	case !bytes.HasPrefix(mg, rd.Got) || len(mg) != len(rd.Got)+left:
		return "delivered-bytes-differ", fmt.Sprintf("model delivered %d bytes, implementation %d (+%d left in receiveDecodedBuffer at the error); common prefix %d; model class %q, implementation %q",
			len(mg), len(rd.Got), left, commonPrefix(mg, rd.Got), m.dead[dir], realCls)
	case mBlocked != blocked:
		return "blocked-differs", fmt.Sprintf("model blocked=%v, implementation blocked=%v (error %q); %d bytes delivered", mBlocked, blocked, realCls, len(rd.Got))
	case !blocked && inv:
		// out-of-range length field: the implementation draws a random replacement length;
		// only "an error is reported" is compared
		if m.dead[dir] == "" || rd.Err == nil {
			return "error-differs", fmt.Sprintf("model class %q, implementation %q after an out-of-range length", m.dead[dir], realCls)
		}
	case !blocked && m.dead[dir] != realCls:
		return "error-differs", fmt.Sprintf("model reports %q, implementation %q (%v) after %d bytes", m.dead[dir], realCls, rd.Err, len(rd.Got))
	}
	// decoder state (C05 anchors: nonce counter advanced only by a successful open; invalid-length flag)
	if ctr, _, rinv, ok := m.pr.DecoderState(dir); ok {
		f := strings.Fields(m.call("state %s", sessName(dir)))
		if m.fault != "" || len(f) < 3 {
			return "model-driver-fault", m.fault + " (state)"
		}
		if f[0] != fmt.Sprint(ctr-1) || (f[2] == "1") != rinv {
			return "decoder-state-differs", fmt.Sprintf("model: %s frames accepted, invalid-length flag %s; implementation: nonce counter %d (= %d frames accepted), nextLengthInvalid %v", f[0], f[2], ctr, ctr-1, rinv)
		}
	}
	return "", ""
}

func commonPrefix(a, b []byte) int {
	i := 0
	for i < len(a) && i < len(b) && a[i] == b[i] {
		i++
	}
	return i
}

// CheckEnc compares the model encoder with the real one on the next frames of direction dir:
// frames must be the direction's frames in order from the first one not yet checked (packet
// plaintexts from the shadow decoder, wire bytes from the real sender).
func (m *Model) CheckEnc(dir int, frames []Frame, wire func(f Frame) []byte, max int) (sig, desc string) {
	if m == nil {
		return "", ""
	}
	for _, f := range frames {
		if m.encN[dir] >= max {
			return "", ""
		}
		rep := m.call("enc %s %s", sessName(dir), vlib.Hex(f.Pkt))
		if m.fault != "" {
			return "model-driver-fault", m.fault
		}
		want := "ok " + vlib.Hex(wire(f))
		if rep != want {
			return "encoded-frame-differs", fmt.Sprintf("%s frame #%d (%d-byte packet): model %.60s…, implementation %.60s…", DirName(dir), m.encN[dir], len(f.Pkt), rep, want)
		}
		m.encN[dir]++
		m.points++
	}
	return "", ""
}

// Points returns (and resets) the number of comparisons made since the last call.
func (m *Model) Points() int {
	if m == nil {
		return 0
	}
	n := m.points
	m.points = 0
	return n
}

func (m *Model) Close() {
	if m == nil {
		return
	}
	m.d.Call("drop %s", sessName(C2S))
	m.d.Call("drop %s", sessName(S2C))
}
