package o4pair

import (
	"bufio"
	"encoding/json"
	"fmt"
	"io"
	"os"
	"os/exec"
	"runtime"
	"sync"
)

// The real endpoints draw their randomness from process-global readers (crypto/rand.Reader,
// csrand.Reader), so one process can run only one deterministic connection at a time. To use
// the cores without giving up replayability the harness re-executes itself as worker
// processes: the parent generates cases and aggregates, each worker runs one case at a time
// (own rand tape, own Lean driver) and answers with a JSON outcome per case.

const workerEnv = "O4PAIR_WORKER"
const driverEnv = "O4PAIR_DRIVERBIN"

// WorkerMain must be called first thing in main(): in a worker process it serves cases from
// stdin with handle and never returns.
func WorkerMain(handle func(caseJSON []byte, driverBin string) []byte) {
	if os.Getenv(workerEnv) == "" {
		return
	}
	in := bufio.NewReaderSize(os.Stdin, 1<<20)
	out := bufio.NewWriter(os.Stdout)
	for {
		line, err := in.ReadBytes('\n')
		if len(line) > 1 {
			res := handle(line, os.Getenv(driverEnv))
			out.Write(res)
			out.WriteByte('\n')
			out.Flush()
		}
		if err != nil {
			break
		}
	}
	os.Exit(0)
}

type worker struct {
	cmd *exec.Cmd
	in  io.WriteCloser
	out *bufio.Reader
}

// Pool is a set of worker processes.
type Pool struct {
	ws []*worker
}

// NewPool starts n workers (0 = one per CPU, at most 16).
func NewPool(n int, driverBin string) (*Pool, error) {
	if n <= 0 {
		n = runtime.NumCPU()
		if n > 16 {
			n = 16
		}
	}
	p := &Pool{}
	for i := 0; i < n; i++ {
		cmd := exec.Command(os.Args[0])
		cmd.Env = append(os.Environ(), workerEnv+"=1", driverEnv+"="+driverBin)
		cmd.Stderr = os.Stderr
		in, err := cmd.StdinPipe()
		if err != nil {
			return nil, err
		}
		outp, err := cmd.StdoutPipe()
		if err != nil {
			return nil, err
		}
		if err := cmd.Start(); err != nil {
			return nil, err
		}
		p.ws = append(p.ws, &worker{cmd: cmd, in: in, out: bufio.NewReaderSize(outp, 1<<20)})
	}
	return p, nil
}

// Run executes the cases on the workers and returns the outcomes in case order. A worker that
// dies yields an outcome `{"worker_error": "..."}` for its case.
func (p *Pool) Run(cases [][]byte) [][]byte {
	res := make([][]byte, len(cases))
	var mu sync.Mutex
	next := 0
	var wg sync.WaitGroup
	for _, w := range p.ws {
		wg.Add(1)
		go func(w *worker) {
			defer wg.Done()
			for {
				mu.Lock()
				i := next
				next++
				mu.Unlock()
				if i >= len(cases) {
					return
				}
				line := append(append([]byte(nil), cases[i]...), '\n')
				if _, err := w.in.Write(line); err != nil {
					res[i] = workerErr(err)
					continue
				}
				out, err := w.out.ReadBytes('\n')
				if err != nil {
					res[i] = workerErr(err)
					continue
				}
				res[i] = out
			}
		}(w)
	}
	wg.Wait()
	return res
}

func workerErr(err error) []byte {
	b, _ := json.Marshal(map[string]string{"worker_error": fmt.Sprint(err)})
	return b
}

// Close stops the workers.
func (p *Pool) Close() {
	for _, w := range p.ws {
		w.in.Close()
		w.cmd.Wait()
	}
}
