package o4pair

import (
	"bufio"
	"encoding/json"
	"errors"
	"fmt"
	"io"
	"os"
	"os/exec"
	"runtime"
	"sync"
	"time"
)

// The real endpoints draw their randomness from process-global readers (crypto/rand.Reader,
// csrand.Reader), so one process can run only one deterministic connection at a time. To use
// the cores without giving up replayability the harness re-executes itself as worker
// processes: the parent generates cases and aggregates, each worker runs one case at a time
// (own rand tape, own Lean driver) and answers with a JSON outcome per case.

const workerEnv = "O4PAIR_WORKER"
const driverEnv = "O4PAIR_DRIVERBIN"

// WorkerMain must be called first thing in main(): in a worker process it serves cases from
// stdin with handle and never returns.
func WorkerMain(handle func(caseJSON []byte, driverBin string) []byte) {
	if os.Getenv(workerEnv) == "" {
		return
	}
	in := bufio.NewReaderSize(os.Stdin, 1<<20)
	out := bufio.NewWriter(os.Stdout)
	for {
		line, err := in.ReadBytes('\n')
		if len(line) > 1 {
			res := handle(line, os.Getenv(driverEnv))
			out.Write(res)
			out.WriteByte('\n')
			out.Flush()
		}
		if err != nil {
			break
		}
	}
	os.Exit(0)
}

type worker struct {
	cmd *exec.Cmd
	in  io.WriteCloser
	out *bufio.Reader
}

// Pool is a set of worker processes.
type Pool struct {
	ws        []*worker
	driverBin string
	// JobTimeout: a case that takes longer (IAT modes sleep for real; a pathological length table
	// can make one Write take minutes) is abandoned: the worker is killed and replaced and the
	// outcome is `{"worker_error":"timeout"}`.
	JobTimeout time.Duration
}

// NewPool starts n workers (0 = one per CPU, at most 16).
func NewPool(n int, driverBin string) (*Pool, error) {
	if n <= 0 {
		n = runtime.NumCPU()
		if n > 16 {
			n = 16
		}
	}
	p := &Pool{driverBin: driverBin, JobTimeout: 150 * time.Second}
	if v, err := time.ParseDuration(os.Getenv("O4PAIR_JOB_TIMEOUT")); err == nil && v > 0 {
		p.JobTimeout = v
	}
	for i := 0; i < n; i++ {
		w, err := p.spawn()
		if err != nil {
			return nil, err
		}
		p.ws = append(p.ws, w)
	}
	return p, nil
}

func (p *Pool) spawn() (*worker, error) {
	cmd := exec.Command(os.Args[0])
	cmd.Env = append(os.Environ(), workerEnv+"=1", driverEnv+"="+p.driverBin)
	cmd.Stderr = os.Stderr
	in, err := cmd.StdinPipe()
	if err != nil {
		return nil, err
	}
	outp, err := cmd.StdoutPipe()
	if err != nil {
		return nil, err
	}
	if err := cmd.Start(); err != nil {
		return nil, err
	}
	return &worker{cmd: cmd, in: in, out: bufio.NewReaderSize(outp, 1<<20)}, nil
}

// Run executes the cases on the workers and returns the outcomes in case order. A worker that
// dies yields an outcome `{"worker_error": "..."}` for its case.
func (p *Pool) Run(cases [][]byte) [][]byte {
	res := make([][]byte, len(cases))
	var mu sync.Mutex
	next := 0
	var wg sync.WaitGroup
	for wi := range p.ws {
		wg.Add(1)
		go func(wi int) {
			defer wg.Done()
			for {
				w := p.ws[wi]
				mu.Lock()
				i := next
				next++
				mu.Unlock()
				if i >= len(cases) {
					return
				}
				line := append(append([]byte(nil), cases[i]...), '\n')
				if _, err := w.in.Write(line); err != nil {
					res[i] = workerErr(err)
					continue
				}
				type rd struct {
					b   []byte
					err error
				}
				ch := make(chan rd, 1)
				go func() {
					b, err := w.out.ReadBytes('\n')
					ch <- rd{b, err}
				}()
				var got rd
				timedOut := false
				select {
				case got = <-ch:
				case <-time.After(p.JobTimeout):
					timedOut = true
				}
				if timedOut || got.err != nil {
					if timedOut {
						res[i] = workerErr(errors.New("timeout"))
					} else {
						res[i] = workerErr(got.err)
					}
					// replace the worker
					w.cmd.Process.Kill()
					w.in.Close()
					w.cmd.Wait()
					if nw, err := p.spawn(); err == nil {
						p.ws[wi] = nw
					} else {
						return
					}
					continue
				}
				res[i] = got.b
			}
		}(wi)
	}
	wg.Wait()
	return res
}

func workerErr(err error) []byte {
	b, _ := json.Marshal(map[string]string{"worker_error": fmt.Sprint(err)})
	return b
}

// Close stops the workers.
func (p *Pool) Close() {
	for _, w := range p.ws {
		w.in.Close()
		w.cmd.Wait()
	}
}
