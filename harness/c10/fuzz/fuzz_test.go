//go:build verif

package fuzz

import (
	"fmt"
	"os"
	"path/filepath"
	"testing"

	"gitlab.com/yawning/obfs4.git/common/csrand"
	"gitlab.com/yawning/obfs4.git/transports"

	"verif/harness/c10/lib"
	"verif/harness/vlib"
)

var run *vlib.Run

func TestMain(m *testing.M) {
	run = vlib.NewRun("C10")
	if err := transports.Init(); err != nil {
		fmt.Fprintln(os.Stderr, err)
		os.Exit(3)
	}
	// the bounds normally come from the Lean driver; the parent passes them in the environment
	for _, name := range []string{"obfs4-hs", "obfs4-settled", "obfs4-data", "obfs4-client-data", "obfs3", "obfs3-hs-consumed",
		"obfs2-hs-consumed", "ss-hs", "ss-data", "meek", "socks-consumed"} {
		var v int
		if _, err := fmt.Sscanf(os.Getenv("C10_BOUND_"+name), "%d", &v); err != nil {
			fmt.Fprintln(os.Stderr, "missing bound", name)
			os.Exit(3)
		}
		lib.Bounds[name] = v
	}
	code := m.Run()
	lib.CleanupState()
	os.Exit(code)
}

// one evaluates one raw input exactly as `--replay` would, with every oracle violation turned
// into a test failure (= a crasher file).
func one(t *testing.T, target string, data []byte) {
	cs := lib.FuzzCase(target, data)
	c := &cs
	tape := vlib.InstallRandTape(c.Seed)
	csrand.Reader = tape
	x := lib.NewCtx(run, c)
	x.ViolateHook = func(sig, kind, desc string) { t.Fatalf("%s: %s", sig, desc) }
	switch c.T {
	case "socks5":
		lib.RunSocks(x)
	case "obfs4":
		lib.RunO4Hs(x)
	case "obfs2", "obfs3":
		lib.RunSymHs(x)
	case "scramblesuit":
		lib.RunSSHs(x)
	}
	x.EndCase()
}

func seeds(f *testing.F, name string) {
	dir := os.Getenv("C10_FUZZ_SEEDS")
	if dir == "" {
		f.Add([]byte{5, 1, 0})
		return
	}
	files, _ := filepath.Glob(filepath.Join(dir, name, "*"))
	for _, fn := range files {
		if b, err := os.ReadFile(fn); err == nil {
			f.Add(b)
		}
	}
	f.Add([]byte{})
}

func target(f *testing.F, name string) {
	seeds(f, name)
	f.Fuzz(func(t *testing.T, data []byte) { one(t, name, data) })
}

func FuzzSocks5(f *testing.F)       { target(f, "FuzzSocks5") }
func FuzzObfs4Server(f *testing.F)  { target(f, "FuzzObfs4Server") }
func FuzzObfs4Client(f *testing.F)  { target(f, "FuzzObfs4Client") }
func FuzzObfs3(f *testing.F)        { target(f, "FuzzObfs3") }
func FuzzObfs2(f *testing.F)        { target(f, "FuzzObfs2") }
func FuzzScrambleSuit(f *testing.F) { target(f, "FuzzScrambleSuit") }
