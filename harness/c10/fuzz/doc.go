// Package fuzz holds the Go native fuzz targets of the C10 check (thorough tier only): an
// additional coverage-guided SEARCH for panics and hangs in the network-facing parsers.  A
// crasher is turned by harness/c10 into an ordinary replay case and re-judged by the S oracle;
// fuzzing is never the deciding technique.  The targets live in fuzz_test.go (build tag verif).
package fuzz
