package main

import "verif/harness/vlib"

func main() {
	r := vlib.NewRun("C10")
	r.Finish()
}
