// C10 — no peer input or network fault can crash, wedge or bloat an endpoint.
//
// Implementation-side machinery (S oracle written from the property text) for every transport
// and role, through the public factories over an instrumented in-memory net.Conn, plus two
// small model ties (Lean `parsePacket` and `findMarkMac` against the real code) and the buffer
// bounds read from the Lean driver (`O4.C10.table`, the expressions the theorems are about).
//
// The run is sharded: the parent process re-executes itself once per shard (C10_SHARD) so that
// shards run in parallel, each with its own deterministic crypto/rand tape, its own goroutine
// census and CPU clock; a shard that crashes (a panic in a goroutine the transport spawned) is
// reported with the case it was running.
package main

import (
	"encoding/json"
	"fmt"
	"hash/fnv"
	"os"
	"os/exec"
	"path/filepath"
	"sort"
	"strings"
	"sync"
	"time"

	"gitlab.com/yawning/obfs4.git/common/csrand"
	"gitlab.com/yawning/obfs4.git/transports"

	"verif/harness/c10/lib"
	"verif/harness/vlib"
)

type shard struct {
	Name     string
	T        string
	Roles    []string
	Stage    string
	Gens     []string
	Quick    int // random cases, quick tier
	Thorough int
	Run      func(x *lib.Ctx, d *deps)
	NeedsDrv bool
	Iats     bool
	CutAll   int // thorough: exhaustive cut positions for this many recorded exchanges per role
	NoCuts   bool
}

type deps struct {
	drv *vlib.Driver
}

func (d *deps) parsePkt(isServer bool, pkt []byte) string {
	s := "0"
	if isServer {
		s = "1"
	}
	return d.drv.Call("parsepkt %s %s", s, vlib.Hex(pkt))
}

func (d *deps) dd(kind, ok, ops string) string {
	return d.drv.Call("dd %s %s %s", kind, ok, ops)
}

func (d *deps) fmm(mark, buf []byte, start, max int, tail bool) string {
	t := "0"
	if tail {
		t = "1"
	}
	return d.drv.Call("fmm %s %s %d %d %s", vlib.Hex(mark), vlib.Hex(buf), start, max, t)
}

var both = []string{"client", "server"}

var shards = []shard{
	{Name: "obfs4-server-hs", T: "obfs4", Roles: []string{"server"}, NeedsDrv: true, Stage: "hs", Gens: lib.O4HsGens, Quick: 4800, Thorough: 60000, CutAll: 2,
		Run: func(x *lib.Ctx, d *deps) { lib.RunO4Hs(x) }},
	{Name: "obfs4-client-hs", T: "obfs4", Roles: []string{"client"}, NeedsDrv: true, Stage: "hs", Gens: lib.O4HsGens, Quick: 4800, Thorough: 60000, CutAll: 2,
		Run: func(x *lib.Ctx, d *deps) { lib.RunO4Hs(x) }},
	{Name: "obfs4-server-data", T: "obfs4", Roles: []string{"server"}, Stage: "data", Gens: lib.O4DataGens, Quick: 2800, Thorough: 48000, CutAll: 2, NeedsDrv: true, Iats: true,
		Run: func(x *lib.Ctx, d *deps) { lib.RunO4Data(x, d.parsePkt) }},
	{Name: "obfs4-client-data", T: "obfs4", Roles: []string{"client"}, Stage: "data", Gens: lib.O4DataGens, Quick: 2800, Thorough: 48000, CutAll: 2, NeedsDrv: true, Iats: true,
		Run: func(x *lib.Ctx, d *deps) { lib.RunO4Data(x, d.parsePkt) }},
	{Name: "obfs3-hs", T: "obfs3", Roles: both, NeedsDrv: true, Stage: "hs", Gens: append(append([]string{}, lib.SymHsGens...), lib.Obfs3KeyGens...), Quick: 3000, Thorough: 32000, CutAll: 1,
		Run: func(x *lib.Ctx, d *deps) { lib.RunSymHs(x) }},
	{Name: "obfs3-data", T: "obfs3", Roles: both, Stage: "data", Gens: lib.SymDataGens, Quick: 2000, Thorough: 24000, CutAll: 1,
		Run: func(x *lib.Ctx, d *deps) { lib.RunSymData(x) }},
	{Name: "obfs2-hs", T: "obfs2", Roles: both, NeedsDrv: true, Stage: "hs", Gens: append(append([]string{}, lib.SymHsGens...), lib.Obfs2CraftGens...), Quick: 6000, Thorough: 80000, CutAll: 1,
		Run: func(x *lib.Ctx, d *deps) { lib.RunSymHs(x) }},
	{Name: "obfs2-data", T: "obfs2", Roles: both, Stage: "data", Gens: lib.SymDataGens, Quick: 3000, Thorough: 40000, CutAll: 1,
		Run: func(x *lib.Ctx, d *deps) { lib.RunSymData(x) }},
	{Name: "scramblesuit-hs", T: "scramblesuit", Roles: []string{"client"}, NeedsDrv: true, Stage: "hs", Gens: lib.SSHsGens, Quick: 3000, Thorough: 32000, CutAll: 2,
		Run: func(x *lib.Ctx, d *deps) { lib.RunSSHs(x) }},
	{Name: "scramblesuit-data", T: "scramblesuit", Roles: []string{"client"}, NeedsDrv: true, Stage: "data", Gens: lib.SSDataGens, Quick: 2400, Thorough: 32000, CutAll: 2,
		Run: func(x *lib.Ctx, d *deps) { lib.RunSSData(x) }},
	{Name: "socks5", T: "socks5", Roles: []string{"server"}, NeedsDrv: true, Stage: "hs", Gens: lib.SocksGens, Quick: 12000, Thorough: 160000, CutAll: 20,
		Run: func(x *lib.Ctx, d *deps) { lib.RunSocks(x) }},
	{Name: "meek", T: "meek_lite", Roles: []string{"client"}, Stage: "data", Gens: lib.MeekGens, Quick: 90, Thorough: 600, NoCuts: true,
		Run: func(x *lib.Ctx, d *deps) { lib.RunMeek(x) }},
	{Name: "findmarkmac", T: "obfs4", Roles: []string{"both"}, Stage: "hs", Gens: []string{"findMarkMac"}, Quick: 4000, Thorough: 80000, NeedsDrv: true, NoCuts: true,
		Run: func(x *lib.Ctx, d *deps) { lib.RunFindMarkMac(x, d.fmm) }},
	{Name: "mem", Gens: []string{"mem-10MB"}, NoCuts: true, Run: func(x *lib.Ctx, d *deps) { lib.RunMem(x) }},
}

var memCases = []lib.Case{
	{T: "obfs4", Role: "server", Stage: "hs"}, {T: "obfs4", Role: "server", Stage: "data"}, {T: "obfs4", Role: "client", Stage: "data"},
	{T: "obfs2", Role: "client", Stage: "data"}, {T: "obfs2", Role: "server", Stage: "data"},
	{T: "obfs3", Role: "client", Stage: "data"}, {T: "obfs3", Role: "server", Stage: "data"},
	{T: "scramblesuit", Role: "client", Stage: "data"},
}

func findShard(name string) *shard {
	for i := range shards {
		if shards[i].Name == name {
			return &shards[i]
		}
	}
	return nil
}

func shardFor(c lib.Case) *shard {
	if c.Gen == "mem-10MB" {
		return findShard("mem")
	}
	if c.Gen == "findMarkMac" {
		return findShard("findmarkmac")
	}
	for i := range shards {
		s := &shards[i]
		if s.T != c.T || s.Stage != c.Stage || s.Name == "findmarkmac" {
			continue
		}
		for _, r := range s.Roles {
			if r == c.Role {
				return s
			}
		}
	}
	return nil
}

func hash64(s string) uint64 {
	h := fnv.New64a()
	h.Write([]byte(s))
	return h.Sum64()
}

var chunkers = []string{"whole", "whole", "one", "mss", "rand", "rand", "maxread:7", "bsplit", "bsplit", "bsplit"}
var cuts = []string{"", "", "eof", "eof", "reset"}

const rule = "a case counts as non-trivial when the endpoint under test consumed at least one byte of the malformed / cut / crafted input (or hit the injected fault) and the input is not a verbatim valid exchange; distinct = distinct (transport, role, stage, generator, seed, parameters, chunker, cut)"

var journalPath string

// violateHook, when set (parent process: fuzz crashers), receives the violations of a case
// instead of the vlib.Run.
var violateHook func(c *lib.Case) func(sig, kind, desc string)

func runCase(r *vlib.Run, s *shard, d *deps, c *lib.Case) (x *lib.Ctx) {
	if journalPath != "" {
		b, _ := json.Marshal(c)
		os.WriteFile(journalPath, b, 0o644)
	}
	tape := vlib.InstallRandTape(c.Seed)
	csrand.Reader = tape
	x = lib.NewCtx(r, c)
	if d != nil && d.drv != nil {
		x.DD = d.dd
	}
	if violateHook != nil {
		x.ViolateHook = violateHook(c)
	}
	s.Run(x, d)
	if c.T != "meek_lite" {
		x.EndCase()
	}
	pre := c.Prefix()
	r.Case(c.Key(), x.Nontrivial && c.Gen != "valid")
	r.Count(pre+"/gen", c.Gen)
	if !s.NoCuts {
		ch := c.Chunk
		if strings.HasPrefix(ch, "split:") {
			ch = "split"
		}
		r.Count(pre+"/chunker", ch)
		cut := c.Cut
		if cut == "" {
			cut = "silent"
		}
		r.Count(pre+"/cut", cut)
	}
	return x
}

func runShard(r *vlib.Run, s *shard) {
	d := &deps{}
	if s.NeedsDrv {
		d.drv = r.Driver("c10")
		defer d.drv.Close()
	}
	loadBounds(r)
	defer lib.CleanupState()
	rng := vlib.NewRng(r.Seed ^ hash64(s.Name))
	// corpus first: past failing inputs of this shard
	for _, c := range loadCorpus() {
		if cs := shardFor(c); cs != nil && cs.Name == s.Name {
			cc := c
			x := runCase(r, s, d, &cc)
			if x.Violated() {
				r.Count("corpus", "still-failing:"+c.Key())
			} else {
				r.Count("corpus", "passes-now")
			}
			if stuck(x) {
				return // a spinning goroutine is alive in this process: nothing measured later would be sound
			}
		}
	}
	if s.Name == "mem" {
		for _, mc := range memCases {
			c := mc
			c.Gen, c.Seed = "mem-10MB", rng.U64()>>1
			runCase(r, s, d, &c)
		}
		return
	}
	n := r.Scale(s.Quick, s.Thorough)
	aborted := false
	for i := 0; i < n && !aborted; i++ {
		c := lib.Case{T: s.T, Role: s.Roles[i%len(s.Roles)], Stage: s.Stage, Gen: s.Gens[(i/len(s.Roles))%len(s.Gens)],
			Seed: rng.U64() >> 1, A: rng.Intn(1 << 20), B: rng.Intn(1 << 20)}
		if !s.NoCuts {
			c.Chunk = chunkers[rng.Intn(len(chunkers))]
			c.Cut = cuts[rng.Intn(len(cuts))]
		}
		if s.Iats && rng.Intn(12) == 0 {
			c.Iat = 1 + rng.Intn(2)
		}
		x := runCase(r, s, d, &c)
		aborted = stuck(x)
	}
	// the known local-input crash F2 lies on the write path of paranoid mode: make sure it is looked at
	if s.Iats && !aborted {
		for i := 0; i < r.Scale(2, 6); i++ {
			c := lib.Case{T: s.T, Role: s.Roles[0], Stage: s.Stage, Gen: "iat2-known-seed", Seed: rng.U64() >> 1, Iat: 2}
			runCase(r, s, d, &c)
		}
	}
	// (the paranoid-mode livelock on a single-valued length table is a permanent recorded finding;
	// its two deterministic cases live in corpus/C10 and are replayed first on every run)
	// meek_lite: a Write blocked on the full queue while the round trip in flight stalls, then the
	// link fails (every kind of failure)
	if s.Name == "meek" && !aborted {
		for a := 0; a < len(lib.MeekBlockedWriteFaults)*r.Scale(1, 4); a++ {
			c := lib.Case{T: s.T, Role: "client", Stage: "data", Gen: "blocked-write-cut", Seed: rng.U64() >> 1, A: a}
			runCase(r, s, d, &c)
		}
	}
	// meek_lite: oversized 200 responses, every (size, framing) combination
	if s.Name == "meek" && !aborted {
		for a := 0; a < lib.MeekOversizedCombos; a++ {
			c := lib.Case{T: s.T, Role: "client", Stage: "data", Gen: "oversized", Seed: rng.U64() >> 1, A: a}
			runCase(r, s, d, &c)
		}
	}
	// ScrambleSuit: every padding-length boundary of the server response, followed by megabytes of
	// genuine packets resp. garbage
	if s.Name == "scramblesuit-hs" && !aborted {
		// (every boundary length with both kinds of trailing traffic, then random lengths)
		for a := 0; a < len(lib.SSPadBoundaries)+r.Scale(8, 60); a++ {
			for b := 0; b < 2; b++ {
				c := lib.Case{T: s.T, Role: "client", Stage: "hs", Gen: "pad-boundary", Seed: rng.U64() >> 1, A: a, B: b,
					Chunk: []string{"whole", "mss", "rand", "bsplit"}[rng.Intn(4)], Cut: []string{"", "eof"}[rng.Intn(2)]}
				runCase(r, s, d, &c)
			}
		}
	}
	// ScrambleSuit: the split inside the trailing MAC/mark at every offset, several padding lengths
	if s.Name == "scramblesuit-hs" && !aborted {
		for pad := 0; pad < r.Scale(4, 24); pad++ {
			b := rng.Intn(1 << 20)
			seed := rng.U64() >> 1
			for k := 0; k < 31; k++ {
				c := lib.Case{T: s.T, Role: "client", Stage: "hs", Gen: "split-in-tail", Seed: seed, A: k, B: b}
				runCase(r, s, d, &c)
			}
		}
	}
	// thorough: cut / EOF / reset at EVERY position of recorded valid exchanges
	if r.Thorough() && s.CutAll > 0 && !aborted {
		for _, role := range s.Roles {
			for e := 0; e < s.CutAll && !aborted; e++ {
				seed := rng.U64() >> 1
				cut := []string{"eof", "reset", ""}[e%3]
				total := 1
				for p := 0; p <= total && !aborted; p++ {
					c := lib.Case{T: s.T, Role: role, Stage: s.Stage, Gen: "cut-at", Seed: seed, A: p, B: 0, Chunk: "whole", Cut: cut}
					x := runCase(r, s, d, &c)
					if p == 0 {
						total = x.ValidLen
						if total > 20000 {
							total = 20000
						}
					}
					aborted = stuck(x)
				}
				r.Count(s.T+"-"+role+"-"+s.Stage+"/exhaustive-cut", fmt.Sprintf("%s-all-%s-positions", cut, lib.SizeClass(total)))
			}
		}
	}
}

// stuck: a spinning/wedged endpoint goroutine is still alive in this process: the CPU-time and
// goroutine observations of later cases would be polluted, so the shard stops here.
func stuck(x *lib.Ctx) bool { return x.Stuck }

func loadBounds(r *vlib.Run) {
	d := r.Driver("c10")
	defer d.Close()
	for _, name := range []string{"obfs4-hs", "obfs4-settled", "obfs4-data", "obfs4-client-data", "obfs3", "obfs3-hs-consumed", "obfs2-hs-consumed",
		"ss-hs", "ss-data", "meek", "socks-consumed"} {
		rep := d.Call("bound %s", name)
		var v int
		if _, err := fmt.Sscanf(rep, "%d", &v); err != nil {
			fmt.Fprintf(os.Stderr, "lean driver c10: bound %s → %q\n", name, rep)
			os.Exit(3)
		}
		lib.Bounds[name] = v
	}
}

func loadCorpus() []lib.Case {
	dir := filepath.Join(os.Getenv("VERIF_DIR"), "corpus", "C10")
	files, _ := filepath.Glob(filepath.Join(dir, "*.json"))
	sort.Strings(files)
	var out []lib.Case
	for _, f := range files {
		b, err := os.ReadFile(f)
		if err != nil {
			continue
		}
		var doc struct {
			Case lib.Case `json:"case"`
		}
		if json.Unmarshal(b, &doc) == nil && doc.Case.T != "" {
			out = append(out, doc.Case)
		}
	}
	return out
}

func main() {
	r := vlib.NewRun("C10")
	r.Rule = rule
	if err := transports.Init(); err != nil {
		fmt.Fprintln(os.Stderr, "transports.Init:", err)
		os.Exit(3)
	}
	if r.ReplayIn != "" {
		var c lib.Case
		if err := r.LoadReplay(&c); err != nil {
			fmt.Fprintln(os.Stderr, "cannot load replay:", err)
			os.Exit(3)
		}
		s := shardFor(c)
		if s == nil {
			fmt.Fprintln(os.Stderr, "replay names no known transport/role/stage:", c.Key())
			os.Exit(3)
		}
		d := &deps{}
		if s.NeedsDrv {
			d.drv = r.Driver("c10")
		}
		loadBounds(r)
		x := runCase(r, s, d, &c)
		r.Notes["replayed"] = c.Key()
		r.Notes["outcome"] = x.Outcome
		lib.CleanupState()
		r.Finish()
	}
	if name := os.Getenv("C10_SHARD"); name != "" {
		s := findShard(name)
		if s == nil {
			fmt.Fprintln(os.Stderr, "unknown shard", name)
			os.Exit(3)
		}
		journalPath = os.Getenv("C10_JOURNAL")
		runShard(r, s)
		r.Finish()
	}
	parent(r)
}

// ---------------------------------------------------------------- parent: run the shards, merge

type childResult struct {
	Evaluations int                       `json:"evaluations"`
	Distinct    int                       `json:"distinct_nontrivial"`
	Validated   int                       `json:"traces_validated_against_impl"`
	Samples     []interface{}             `json:"samples"`
	Dist        map[string]map[string]int `json:"input_distribution"`
	Violations  []vlib.Violation          `json:"violations"`
	Wall        float64                   `json:"harness_wall_s"`
}

func parent(r *vlib.Run) {
	t0 := time.Now()
	exe, err := os.Executable()
	if err != nil {
		fmt.Fprintln(os.Stderr, err)
		os.Exit(3)
	}
	tmp, err := os.MkdirTemp("", "c10-run-")
	if err != nil {
		fmt.Fprintln(os.Stderr, err)
		os.Exit(3)
	}
	defer os.RemoveAll(tmp)
	type res struct {
		s    *shard
		cr   *childResult
		err  string
		last *lib.Case
	}
	results := make([]res, len(shards))
	var wg sync.WaitGroup
	sem := make(chan struct{}, 14)
	only := os.Getenv("C10_ONLY") // debugging aid: comma-separated shard names and/or "fuzz"
	selected := func(name string) bool {
		if only == "" {
			return true
		}
		for _, n := range strings.Split(only, ",") {
			if n == name {
				return true
			}
		}
		return false
	}
	for i := range shards {
		if !selected(shards[i].Name) {
			results[i].s = &shards[i]
			results[i].cr = &childResult{}
			continue
		}
		wg.Add(1)
		go func(i int) {
			defer wg.Done()
			sem <- struct{}{}
			defer func() { <-sem }()
			s := &shards[i]
			out := filepath.Join(tmp, s.Name+".json")
			jr := filepath.Join(tmp, s.Name+".cur")
			cmd := exec.Command(exe, "-tier", r.Tier, "-seed", fmt.Sprint(r.Seed), "-mode", r.Mode, "-driver", r.DriverBin, "-out", out, "-replaydir", r.ReplayDir)
			cmd.Env = append(os.Environ(), "C10_SHARD="+s.Name, "C10_JOURNAL="+jr, "GOMAXPROCS=4")
			logf, _ := os.Create(filepath.Join(tmp, s.Name+".log"))
			cmd.Stdout, cmd.Stderr = logf, logf
			err := cmd.Run()
			logf.Close()
			results[i].s = s
			b, rerr := os.ReadFile(out)
			if err == nil && rerr == nil {
				var cr childResult
				if json.Unmarshal(b, &cr) == nil {
					results[i].cr = &cr
					return
				}
			}
			lg, _ := os.ReadFile(filepath.Join(tmp, s.Name+".log"))
			if len(lg) > 6000 {
				lg = append(append([]byte(nil), lg[:3000]...), lg[len(lg)-3000:]...)
			}
			results[i].err = fmt.Sprintf("shard %s ended without a result (%v):\n%s", s.Name, err, lg)
			if jb, e := os.ReadFile(jr); e == nil {
				var c lib.Case
				if json.Unmarshal(jb, &c) == nil {
					results[i].last = &c
				}
			}
		}(i)
	}
	wg.Wait()
	var fz *fuzzOutcome
	if r.Thorough() && selected("fuzz") {
		fz = runFuzz(r)
	}

	total := childResult{Dist: map[string]map[string]int{}}
	notes := map[string]interface{}{}
	walls := map[string]float64{}
	for _, rs := range results {
		if rs.cr == nil {
			// the shard process died: a panic outside any recovered call (a goroutine spawned by the
			// transport) or a runtime fatal error — the case it was running is the failing input
			if rs.last != nil {
				parentViolate(r, rs.last.Prefix()+"-process-crash", "impl-oracle", rs.last.Key()+": "+rs.err, rs.last)
			} else {
				fmt.Fprintln(os.Stderr, rs.err)
				os.RemoveAll(tmp)
				os.Exit(4)
			}
			continue
		}
		total.Evaluations += rs.cr.Evaluations
		total.Distinct += rs.cr.Distinct
		total.Validated += rs.cr.Validated
		for _, smp := range rs.cr.Samples {
			if len(total.Samples) < 40 {
				total.Samples = append(total.Samples, smp)
			}
		}
		for dim, m := range rs.cr.Dist {
			if total.Dist[dim] == nil {
				total.Dist[dim] = map[string]int{}
			}
			for k, v := range m {
				total.Dist[dim][k] += v
			}
		}
		total.Violations = append(total.Violations, rs.cr.Violations...)
		walls[rs.s.Name] = rs.cr.Wall
	}
	notes["shard_wall_s"] = walls
	notes["bounds_from_lean"] = "O4.C10.table via driver c10"
	if fz != nil {
		notes["fuzz"] = fz.Notes
		total.Violations = append(total.Violations, fz.Violations...)
		for k, v := range fz.Dist {
			total.Dist[k] = v
		}
	}
	// violations the parent itself recorded (crashed shards) come through r; merge by writing the
	// result by hand in the format vlib.Run.Finish produces
	pv := parentViolations(r)
	total.Violations = append(total.Violations, pv...)
	doc := map[string]interface{}{
		"property_id": "C10", "tier": r.Tier, "seed": r.Seed, "mode": r.Mode,
		"evaluations": total.Evaluations, "distinct_nontrivial": total.Distinct,
		"traces_validated_against_impl": total.Validated,
		"rule":                          rule, "samples": total.Samples, "exhaustive": false,
		"input_distribution": total.Dist, "violations": total.Violations,
		"assumptions": []string{}, "notes": notes,
		"harness_wall_s": time.Since(t0).Seconds(),
	}
	if total.Samples == nil {
		doc["samples"] = []interface{}{}
	}
	if total.Violations == nil {
		doc["violations"] = []vlib.Violation{}
	}
	b, _ := json.MarshalIndent(doc, "", " ")
	if r.OutPath == "" {
		os.Stdout.Write(b)
	} else if err := os.WriteFile(r.OutPath, b, 0o644); err != nil {
		fmt.Fprintln(os.Stderr, "cannot write result:", err)
		os.RemoveAll(tmp)
		os.Exit(3)
	}
	os.RemoveAll(tmp)
	os.Exit(0)
}

// parentViolate records a violation found by the parent itself (a crashed shard, a fuzz
// crasher) in the same format vlib.Run.Violate uses.
var parentViol []vlib.Violation

func parentViolate(r *vlib.Run, sig, kind, desc string, c *lib.Case) {
	for _, v := range parentViol {
		if v.Signature == sig {
			return
		}
	}
	name := fmt.Sprintf("C10-%s-seed%d-p.json", sanitize(sig), r.Seed)
	path := filepath.Join(r.ReplayDir, name)
	if r.ReplayDir != "" {
		os.MkdirAll(r.ReplayDir, 0o755)
		b, _ := json.MarshalIndent(map[string]interface{}{
			"property": "C10", "kind": kind, "signature": sig, "seed": r.Seed, "tier": r.Tier, "desc": desc, "case": c,
			"repro": fmt.Sprintf("./check C10 --replay %s", path)}, "", " ")
		os.WriteFile(path, b, 0o644)
	}
	parentViol = append(parentViol, vlib.Violation{Signature: sig, Kind: kind, Desc: desc, Replay: path})
}

func sanitize(s string) string {
	b := []byte(s)
	for i, c := range b {
		if !(c >= 'a' && c <= 'z' || c >= 'A' && c <= 'Z' || c >= '0' && c <= '9' || c == '-' || c == '_') {
			b[i] = '_'
		}
	}
	if len(b) > 60 {
		b = b[:60]
	}
	return string(b)
}

func parentViolations(r *vlib.Run) []vlib.Violation { return parentViol }
