package main

import "verif/harness/vlib"

type fuzzOutcome struct {
	Notes      map[string]interface{}
	Violations []vlib.Violation
	Dist       map[string]map[string]int
}

func runFuzz(r *vlib.Run) *fuzzOutcome { return nil }
