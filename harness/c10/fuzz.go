package main

// Thorough tier only: Go native fuzzing as an additional SEARCH for panics / hangs.  Every
// crasher `go test -fuzz` writes is converted into an ordinary replay case (Gen "raw"), re-run
// in this process through the normal S oracle and — only if the oracle confirms it — reported
// as an impl-oracle violation with that replay.

import (
	"fmt"
	"os"
	"os/exec"
	"path/filepath"
	"regexp"
	"strconv"
	"strings"
	"sync"
	"time"

	"gitlab.com/yawning/obfs4.git/common/csrand"

	"verif/harness/c10/lib"
	"verif/harness/vlib"
)

type fuzzOutcome struct {
	Notes      map[string]interface{}
	Violations []vlib.Violation
	Dist       map[string]map[string]int
}

type fuzzTarget struct {
	Name  string
	T     string
	Roles []string
}

var fuzzTargets = []fuzzTarget{
	{"FuzzSocks5", "socks5", []string{"server"}},
	{"FuzzObfs4Server", "obfs4", []string{"server"}},
	{"FuzzObfs4Client", "obfs4", []string{"client"}},
	{"FuzzObfs3", "obfs3", both},
	{"FuzzObfs2", "obfs2", both},
	{"FuzzScrambleSuit", "scramblesuit", []string{"client"}},
}

func (ft fuzzTarget) fuzzCase(data []byte) lib.Case { return lib.FuzzCase(ft.Name, data) }

// seedInputs derives the seed corpus of a target from the generators: the valid first flight
// recorded for the fuzz world plus mutations of it at structured positions, and random strings.
func (ft fuzzTarget) seedInputs(r *vlib.Run) [][]byte {
	rng := vlib.NewRng(r.Seed ^ hash64(ft.Name))
	var out [][]byte
	for _, role := range ft.Roles {
		c := lib.Case{T: ft.T, Role: role, Stage: "hs", Gen: "valid", Seed: lib.FuzzSeed, Chunk: "whole", Cut: "eof"}
		s := shardFor(c)
		tape := vlib.InstallRandTape(c.Seed)
		csrand.Reader = tape
		x := lib.NewCtx(r, &c)
		s.Run(x, &deps{})
		valid := lib.RawInput(&c)
		if ft.T == "socks5" {
			// the raw socks format carries the lengths of the first two messages in front
			valid = append([]byte{3, byte(len(valid) / 2)}, valid...)
		}
		enc := func(b []byte) []byte {
			split := 0
			if len(b) > 40 && rng.Intn(2) == 0 {
				split = len(b) - 1 - rng.Intn(32) // near the end: inside a trailing MAC / mark
			}
			return lib.FuzzEncode(ft.Name, role, split, b)
		}
		out = append(out, enc(valid), enc(valid), enc(valid))
		if ft.Name == "FuzzScrambleSuit" {
			for k := 1; k < 32 && k < len(valid); k++ {
				out = append(out, lib.FuzzEncode(ft.Name, role, len(valid)-k, valid))
			}
		}
		for _, op := range lib.MutOps {
			for k := 0; k < 3; k++ {
				m, _ := lib.Mutate(rng, op, valid, nil, rng.Intn(1<<20), rng.Intn(1<<20))
				out = append(out, enc(m))
			}
		}
		for _, n := range []int{1, 16, 64, 192, 1000, 8192} {
			out = append(out, enc(rng.Bytes(n)))
		}
	}
	return out
}

var reCrasher = regexp.MustCompile(`Failing input written to (\S+)`)

func goEnv() []string {
	env := os.Environ()
	env = append(env, "GOFLAGS=-mod=mod", "GOPROXY=off", "GOSUMDB=off", "GOTOOLCHAIN=local", "CGO_ENABLED=0")
	for k, v := range lib.Bounds {
		env = append(env, fmt.Sprintf("C10_BOUND_%s=%d", k, v))
	}
	return env
}

// parseCorpusFile reads a `go test fuzz v1` file with a single []byte argument.
func parseCorpusFile(path string) ([]byte, error) {
	b, err := os.ReadFile(path)
	if err != nil {
		return nil, err
	}
	lines := strings.Split(strings.TrimSpace(string(b)), "\n")
	if len(lines) < 2 || !strings.HasPrefix(lines[0], "go test fuzz v1") {
		return nil, fmt.Errorf("not a fuzz corpus file")
	}
	l := strings.TrimSpace(lines[1])
	if !strings.HasPrefix(l, "[]byte(") || !strings.HasSuffix(l, ")") {
		return nil, fmt.Errorf("unexpected corpus entry %q", l)
	}
	s, err := strconv.Unquote(l[len("[]byte(") : len(l)-1])
	if err != nil {
		return nil, err
	}
	return []byte(s), nil
}

func runFuzz(r *vlib.Run) *fuzzOutcome {
	fo := &fuzzOutcome{Notes: map[string]interface{}{}, Dist: map[string]map[string]int{"fuzz/result": {}}}
	harn := filepath.Join(os.Getenv("VERIF_DIR"), "harness")
	pkgDir := filepath.Join(harn, "c10", "fuzz")
	if _, err := os.Stat(pkgDir); err != nil {
		fo.Notes["skipped"] = "fuzz package not found: " + err.Error()
		return fo
	}
	loadBounds(r)
	seedDir, err := os.MkdirTemp("", "c10-fuzzseeds-")
	if err != nil {
		fo.Notes["skipped"] = err.Error()
		return fo
	}
	defer os.RemoveAll(seedDir)
	for _, ft := range fuzzTargets {
		d := filepath.Join(seedDir, ft.Name)
		os.MkdirAll(d, 0o755)
		for i, in := range ft.seedInputs(r) {
			os.WriteFile(filepath.Join(d, fmt.Sprintf("seed-%03d", i)), in, 0o644)
		}
	}
	lib.CleanupState()
	// build the instrumented test binary once
	bin := filepath.Join(seedDir, "fuzz.test")
	build := exec.Command("go", "test", "-tags", "verif", "-c", "-o", bin, "./c10/fuzz")
	build.Dir, build.Env = harn, goEnv()
	if out, err := build.CombinedOutput(); err != nil {
		fo.Notes["skipped"] = fmt.Sprintf("fuzz test binary does not build: %v\n%s", err, tail(string(out), 1500))
		fmt.Fprintln(os.Stderr, fo.Notes["skipped"])
		os.Exit(4) // a broken tie, not a pass
	}
	fuzzTime := 60 * time.Second
	if s := os.Getenv("C10_FUZZTIME"); s != "" {
		if d, err := time.ParseDuration(s); err == nil {
			fuzzTime = d
		}
	}
	type fres struct {
		out      string
		err      error
		crashers []string
	}
	res := make([]fres, len(fuzzTargets))
	var wg sync.WaitGroup
	sem := make(chan struct{}, 3)
	for i := range fuzzTargets {
		wg.Add(1)
		go func(i int) {
			defer wg.Done()
			sem <- struct{}{}
			defer func() { <-sem }()
			ft := fuzzTargets[i]
			// run the compiled test binary from the package directory (crashers go to testdata/fuzz/<Target>)
			cache := filepath.Join(seedDir, "cache-"+ft.Name)
			cmd := exec.Command(bin, "-test.run", "^$", "-test.fuzz", "^"+ft.Name+"$", "-test.fuzztime", fuzzTime.String(),
				"-test.parallel", "4", "-test.fuzzcachedir", cache, "-test.timeout", "10m")
			cmd.Dir = pkgDir
			cmd.Env = append(goEnv(), "C10_FUZZ_SEEDS="+seedDir, "GOMAXPROCS=5")
			out, err := cmd.CombinedOutput()
			res[i] = fres{out: string(out), err: err}
			for _, m := range reCrasher.FindAllStringSubmatch(string(out), -1) {
				res[i].crashers = append(res[i].crashers, filepath.Join(pkgDir, m[1]))
			}
		}(i)
	}
	wg.Wait()
	reExecs := regexp.MustCompile(`execs: (\d+)`)
	for i, ft := range fuzzTargets {
		execs := "0"
		if ms := reExecs.FindAllStringSubmatch(res[i].out, -1); len(ms) > 0 {
			execs = ms[len(ms)-1][1]
		}
		note := map[string]interface{}{"execs": execs, "fuzztime": fuzzTime.String(), "crashers": len(res[i].crashers)}
		if res[i].err != nil && len(res[i].crashers) == 0 {
			// the fuzz run failed without a crasher file (e.g. a seed input fails, a worker died)
			note["error"] = tail(res[i].out, 1200)
		}
		fo.Notes[ft.Name] = note
		cls := "no-crasher"
		for _, cf := range res[i].crashers {
			data, err := parseCorpusFile(cf)
			os.Remove(cf)
			if err != nil {
				note["error"] = "unreadable crasher " + cf + ": " + err.Error()
				continue
			}
			c := ft.fuzzCase(data)
			s := shardFor(c)
			confirmed := false
			violateHook = func(c *lib.Case) func(sig, kind, desc string) {
				return func(sig, kind, desc string) {
					confirmed = true
					parentViolate(r, sig, kind, c.Key()+" (found by go test -fuzz "+ft.Name+"): "+desc, c)
				}
			}
			runCase(r, s, &deps{}, &c)
			violateHook = nil
			if confirmed {
				cls = "crasher-confirmed-by-oracle"
			} else {
				cls = "crasher-not-reproduced"
				note["unreproduced"] = fmt.Sprintf("%s: %s", cf, tail(res[i].out, 800))
			}
		}
		if res[i].err != nil && len(res[i].crashers) == 0 {
			cls = "fuzz-run-error"
		}
		fo.Dist["fuzz/result"][ft.Name+":"+cls]++
	}
	os.RemoveAll(filepath.Join(pkgDir, "testdata"))
	lib.CleanupState()
	return fo
}

func tail(s string, n int) string {
	if len(s) > n {
		return "…" + s[len(s)-n:]
	}
	return s
}
