package lib

import (
	"errors"
	"fmt"
	"io"
	"net"
	"os"
	"regexp"
	"runtime"
	"runtime/debug"
	"strings"
	"syscall"
	"time"

	"verif/harness/vlib"
)

// Case is the JSON-serialisable description of one evaluated case; it is sufficient to
// re-execute the case (`--replay`): every random choice of the generator and of the real
// endpoints derives from Seed (the crypto/rand tape is re-seeded per case) and the explicit
// parameters.
type Case struct {
	T     string `json:"t"`                   // obfs2 | obfs3 | obfs4 | scramblesuit | meek_lite | socks5
	Role  string `json:"role"`                // client | server
	Stage string `json:"stage"`               // hs | data
	Gen   string `json:"gen"`                 // generator / mutation operator
	Seed  uint64 `json:"seed"`                // seeds the generator's Rng and the crypto/rand tape of the endpoints
	A     int    `json:"a"`                   // generator parameter (position, length, index ...)
	B     int    `json:"b"`                   // second generator parameter
	Chunk string `json:"chunk"`               // chunker: whole | one | mss | rand | split:<n> | maxread:<n>
	Cut   string `json:"cut"`                 // after the input: "" (peer goes silent) | eof | reset
	Iat   int    `json:"iat"`                 // obfs4 iat-mode
	Input string `json:"input_hex,omitempty"` // the bytes actually fed (informational; authoritative when Gen == "raw")
}

func (c Case) Key() string {
	return fmt.Sprintf("%s/%s/%s %s seed=%d a=%d b=%d chunk=%s cut=%s iat=%d", c.T, c.Role, c.Stage, c.Gen, c.Seed, c.A, c.B, c.Chunk, c.Cut, c.Iat)
}

func (c Case) Prefix() string { return c.T + "-" + c.Role + "-" + c.Stage }

// Ctx carries what the oracles need to report.
type Ctx struct {
	R    *vlib.Run
	Case *Case
	// per-case observations
	Nontrivial bool
	Outcome    string
	viol       bool
	Stuck      bool  // an endpoint goroutine of this case is spinning / wedged (still alive)
	ValidLen   int   // length of the recorded valid message (for exhaustive cut positions)
	Boundaries []int // structure offsets of the valid message (for boundary±1 splits and cuts)
	// knobs
	SpinCPU     time.Duration // CPU time without progress that counts as spinning
	WedgeWall   time.Duration // wall time without progress, not blocked in Read, that counts as wedged
	Quiet       bool
	ViolateHook func(sig, kind, desc string)      // for the fuzz targets: turn a violation into a test failure
	DD          func(kind, ok, ops string) string // Lean verdict of the deadline discipline on a trace (nil: not available)
}

func NewCtx(r *vlib.Run, c *Case) *Ctx {
	return &Ctx{R: r, Case: c, SpinCPU: 2 * time.Second, WedgeWall: 30 * time.Second}
}

// Violate reports an implementation-oracle violation for the current case.
func (x *Ctx) Violate(sig, desc string) {
	x.viol = true
	full := x.Case.Prefix() + "-" + sig
	if x.ViolateHook != nil {
		x.ViolateHook(full, "impl-oracle", desc)
		return
	}
	x.R.Violate(full, "impl-oracle", x.Case.Key()+": "+desc, x.Case)
}

func (x *Ctx) Violated() bool { return x.viol }

// CutPos is the cut position of a cut-at case in a valid message of length total: B even →
// position A (mod total+1), every position is reachable; B odd → a structure boundary ±1.
func (x *Ctx) CutPos(total int) int {
	c := x.Case
	m := total + 1
	if c.B%2 == 1 && len(x.Boundaries) > 0 {
		b := x.Boundaries[((c.A%len(x.Boundaries))+len(x.Boundaries))%len(x.Boundaries)] + (c.A/len(x.Boundaries))%3 - 1
		if b >= 0 && b <= total {
			return b
		}
	}
	return ((c.A % m) + m) % m
}

// ResolveChunk turns the chunker "bsplit" (split at a structure boundary ±1 of the valid
// message) into a concrete split for an input of length n.
func (x *Ctx) ResolveChunk(rng *vlib.Rng, n int) string {
	spec := x.Case.Chunk
	if spec != "bsplit" {
		return spec
	}
	if n < 2 {
		return "whole"
	}
	p := 1 + rng.Intn(n-1)
	if len(x.Boundaries) > 0 {
		b := x.Boundaries[rng.Intn(len(x.Boundaries))] + rng.Intn(3) - 1
		if b >= 1 && b < n {
			p = b
		}
	}
	return fmt.Sprintf("split:%d", p)
}

// Call is one endpoint call (Dial, WrapConn, Read, Write, Handshake ...) running in its own goroutine.
type Call struct {
	Name  string
	Op    *vlib.Op
	Err   error
	Panic interface{}
	Stack string
	Res   interface{}
}

// Go starts f on conn c with recover() around it.
func (x *Ctx) Go(c *Conn, name string, f func() (interface{}, error)) *Call {
	call := &Call{Name: name}
	call.Op = c.Start(func() {
		defer func() {
			if p := recover(); p != nil {
				call.Panic = p
				call.Stack = string(debug.Stack())
			}
		}()
		call.Res, call.Err = f()
	})
	return call
}

type State int

const (
	Finished State = iota // the call returned (or panicked)
	Blocked               // the endpoint is blocked in Read on the conn with nothing to read
	Stuck                 // neither: spinning or blocked elsewhere (already reported as a violation)
)

func cpuTime() time.Duration {
	var ru syscall.Rusage
	if err := syscall.Getrusage(syscall.RUSAGE_SELF, &ru); err != nil {
		return 0
	}
	return time.Duration(ru.Utime.Nano() + ru.Stime.Nano())
}

// Await waits until the call has finished or the endpoint is blocked in Read with nothing to
// read.  Both are observed structurally (vlib.ScriptConn), never inferred from a timeout.  An
// endpoint that is neither, makes no progress (consumes no input) and burns CPU is spinning;
// one that makes no progress without burning CPU for a long time is wedged somewhere else.
func (x *Ctx) Await(c *Conn, call *Call) State {
	lastConsumed := c.Consumed()
	cpu0 := cpuTime()
	t0 := time.Now()
	stop := make(chan struct{})
	defer close(stop)
	go func() {
		t := time.NewTicker(100 * time.Millisecond)
		defer t.Stop()
		for {
			select {
			case <-stop:
				return
			case <-t.C:
				c.Nudge()
			}
		}
	}()
	for {
		fin, stuck := c.WaitT(call.Op, 250*time.Millisecond)
		if fin {
			x.checkPanic(call)
			return Finished
		}
		if !stuck {
			return Blocked
		}
		if n := c.Consumed(); n != lastConsumed {
			lastConsumed, cpu0, t0 = n, cpuTime(), time.Now()
			continue
		}
		cpu := cpuTime() - cpu0
		if cpu >= x.SpinCPU {
			// retry once: a long GC or a slow big-number operation must not be mistaken
			if fin, stuck := c.WaitT(call.Op, time.Second); fin || !stuck {
				continue
			}
			if c.Consumed() != lastConsumed {
				continue
			}
			x.Violate("spin-"+sanitizeName(call.Name), fmt.Sprintf("(innermost site: "+stuckSite(false)+") %s neither returned nor blocked in Read and consumed no input during %.1fs of CPU time (consumed %d of %d fed bytes); log: %s; stacks:\n%s",
				call.Name, (cpuTime()-cpu0).Seconds(), c.Consumed(), c.Fed(), LogSummary(c.Log()), TransportStacks(4000)))
			x.Stuck = true
			MarkLeaked(TransportGoroutines())
			return Stuck
		}
		if time.Since(t0) >= x.WedgeWall {
			x.Violate("wedged-"+sanitizeName(call.Name), fmt.Sprintf("(innermost site: "+stuckSite(false)+") %s neither returned nor blocked in Read for %.0fs without consuming input (consumed %d of %d); log: %s; stacks:\n%s",
				call.Name, time.Since(t0).Seconds(), c.Consumed(), c.Fed(), LogSummary(c.Log()), TransportStacks(4000)))
			// (x.Stuck stays false: a parked goroutine does not disturb the CPU clock of later cases)
			MarkLeaked(TransportGoroutines())
			return Stuck
		}
	}
}

func (x *Ctx) checkPanic(call *Call) {
	if call.Panic == nil {
		return
	}
	site, class := PanicSite(call.Panic, call.Stack)
	x.Outcome = "panic"
	x.Violate("panic-"+site+"-"+class, fmt.Sprintf("%s panicked: %v\n%s", call.Name, call.Panic, trimStack(call.Stack, 1800)))
}

var reFrame = regexp.MustCompile(`(?m)^gitlab\.com/yawning/obfs4\.git/([^\s(]+(?:\(\*?[A-Za-z0-9_]+\))?[^\s(]*)\(`)

// PanicSite classifies a recovered panic: the innermost function of the code under test on the
// panicking stack, and a class of the panic value.
func PanicSite(p interface{}, stack string) (site, class string) {
	msg := fmt.Sprint(p)
	switch {
	case strings.Contains(msg, "slice bounds out of range"):
		class = "slice-bounds"
	case strings.Contains(msg, "index out of range"):
		class = "index-range"
	case strings.Contains(msg, "nil pointer"):
		class = "nil-deref"
	case strings.Contains(msg, "makeslice") || strings.Contains(msg, "len out of range"):
		class = "makeslice"
	case strings.Contains(msg, "close of closed channel") || strings.Contains(msg, "send on closed channel"):
		class = "channel"
	default:
		w := strings.FieldsFunc(msg, func(r rune) bool {
			return !(r >= 'a' && r <= 'z' || r >= 'A' && r <= 'Z')
		})
		if len(w) > 6 {
			w = w[:6]
		}
		class = "explicit-" + strings.Join(w, "-")
	}
	site = "unknown"
	// the stack of debug.Stack() inside the deferred recover: frames after "panic(" belong to the panicking call
	idx := strings.Index(stack, "\npanic(")
	s := stack
	if idx >= 0 {
		s = stack[idx:]
	}
	if m := reFrame.FindStringSubmatch(s); m != nil {
		f := m[1]
		if i := strings.LastIndex(f, "."); i >= 0 {
			f = f[i+1:]
		}
		site = f
	}
	return
}

func trimStack(s string, n int) string {
	if len(s) > n {
		return s[:n] + "…"
	}
	return s
}

// ErrClass maps an error to a small class (never compare strings of errors across runs).
func ErrClass(err error) string {
	if err == nil {
		return "nil"
	}
	var ne net.Error
	switch {
	case errors.Is(err, io.EOF):
		return "eof"
	case errors.Is(err, io.ErrUnexpectedEOF):
		return "unexpected-eof"
	case errors.Is(err, net.ErrClosed), errors.Is(err, io.ErrClosedPipe), errors.Is(err, os.ErrClosed):
		return "closed"
	case errors.Is(err, syscall.ECONNRESET):
		return "reset"
	case errors.Is(err, syscall.EPIPE):
		return "epipe"
	case errors.As(err, &ne) && ne.Timeout():
		return "timeout"
	}
	// a class from the message: the first words, without numbers / hex dumps
	w := strings.FieldsFunc(reHexNum.ReplaceAllString(err.Error(), " "), func(r rune) bool {
		return !(r >= 'a' && r <= 'z' || r >= 'A' && r <= 'Z' || r >= '0' && r <= '9' || r == '_')
	})
	var keep []string
	for _, s := range w {
		if strings.ContainsAny(s, "0123456789") || (len(s) >= 8 && isHex(s)) || len(s) > 24 {
			continue
		}
		keep = append(keep, strings.ToLower(s))
		if len(keep) == 4 {
			break
		}
	}
	return strings.Join(keep, "-")
}

var reHexNum = regexp.MustCompile(`0x[0-9a-fA-F]+`)

func isHex(s string) bool {
	for _, r := range s {
		if !(r >= '0' && r <= '9' || r >= 'a' && r <= 'f' || r >= 'A' && r <= 'F') {
			return false
		}
	}
	return true
}

var ErrReset = &net.OpError{Op: "read", Net: "tcp", Err: syscall.ECONNRESET}

// ApplyCut ends the input as the case says.
func (x *Ctx) ApplyCut(c *Conn) {
	switch x.Case.Cut {
	case "eof":
		c.FeedEOF()
	case "reset":
		c.FeedErr(ErrReset)
	}
}

const pkgPrefix = "gitlab.com/yawning/obfs4.git/"

// TransportGoroutines returns the stacks of all goroutines that are executing code of the
// tree under test (any frame in the module), except the calling goroutine.
func TransportGoroutines() []string {
	buf := make([]byte, 1<<20)
	for {
		n := runtime.Stack(buf, true)
		if n < len(buf) {
			buf = buf[:n]
			break
		}
		buf = make([]byte, 2*len(buf))
	}
	var out []string
	for i, g := range strings.Split(string(buf), "\n\n") {
		if i == 0 {
			continue // the caller
		}
		if strings.Contains(g, pkgPrefix) && !knownLeaked[goroutineID(g)] {
			out = append(out, g)
		}
	}
	return out
}

// knownLeaked: goroutines already reported as leaked by an earlier case of this process; they
// must not be attributed to later cases (nor make every later case wait for them).
var knownLeaked = map[string]bool{}

func goroutineID(stack string) string {
	f := strings.Fields(stack)
	if len(f) >= 2 && f[0] == "goroutine" {
		return f[1]
	}
	return ""
}

// MarkLeaked remembers reported goroutines.
func MarkLeaked(stacks []string) {
	for _, g := range stacks {
		knownLeaked[goroutineID(g)] = true
	}
}

func TransportStacks(limit int) string {
	s := strings.Join(TransportGoroutines(), "\n\n")
	return trimStack(s, limit)
}

// NoGoroutinesLeft checks that no goroutine is still running code of the tree under test; it
// allows a settle time (polling, generous) and reports what is left.
func NoGoroutinesLeft(settle time.Duration) (left []string) {
	deadline := time.Now().Add(settle)
	for {
		left = TransportGoroutines()
		if len(left) == 0 || time.Now().After(deadline) {
			return left
		}
		time.Sleep(2 * time.Millisecond)
	}
}

func sanitizeName(s string) string {
	f := strings.Fields(s)
	if len(f) == 0 {
		return "call"
	}
	return strings.Map(func(r rune) rune {
		if r >= 'a' && r <= 'z' || r >= 'A' && r <= 'Z' || r >= '0' && r <= '9' {
			return r
		}
		return '_'
	}, f[len(f)-1])
}

// stuckSite names where the stuck endpoint goroutine is: the innermost function of the tree
// on its stack (and, for a wedge, what it is parked on).
func stuckSite(withState bool) string {
	gs := TransportGoroutines()
	if len(gs) == 0 {
		return "unknown"
	}
	site := leakSite(gs[0])
	if !withState {
		if i := strings.Index(site, "-"); i >= 0 {
			site = site[:i]
		}
	}
	return site
}
