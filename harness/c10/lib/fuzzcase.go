package lib

import (
	"fmt"

	"verif/harness/vlib"
)

// FuzzSeed seeds the world of every fuzz execution (fixed: coverage guidance needs determinism).
const FuzzSeed = 20240917

// FuzzTargets: name of the fuzz function → transport.
var FuzzTargets = map[string]string{"FuzzSocks5": "socks5", "FuzzObfs4Server": "obfs4", "FuzzObfs4Client": "obfs4",
	"FuzzObfs3": "obfs3", "FuzzObfs2": "obfs2", "FuzzScrambleSuit": "scramblesuit"}

// FuzzCase turns the raw input of a fuzz target into the replay case that is evaluated (by the
// fuzz target itself and, for a crasher, by `--replay`).  Input layout: obfs2/obfs3: the first
// byte selects the role; ScrambleSuit: the first two bytes select where the response is split
// into two segments (0 = not split); then the bytes fed to the endpoint.
func FuzzCase(target string, data []byte) Case {
	c := Case{T: FuzzTargets[target], Role: "server", Stage: "hs", Gen: "raw", Seed: FuzzSeed, Chunk: "whole", Cut: "eof"}
	switch target {
	case "FuzzObfs4Client":
		c.Role = "client"
	case "FuzzObfs2", "FuzzObfs3":
		c.Role = "client"
		if len(data) > 0 {
			if data[0]&1 == 1 {
				c.Role = "server"
			}
			data = data[1:]
		}
	case "FuzzScrambleSuit":
		c.Role = "client"
		if len(data) >= 2 {
			split := int(data[0])<<8 | int(data[1])
			data = data[2:]
			if split > 0 && split < len(data) {
				c.Chunk = fmt.Sprintf("split:%d", split)
			}
		}
	}
	c.Input = vlib.Hex(data)
	return c
}

// FuzzEncode is the inverse for seed corpora: the raw input that FuzzCase maps to (role, split, data).
func FuzzEncode(target, role string, split int, data []byte) []byte {
	switch target {
	case "FuzzObfs2", "FuzzObfs3":
		b := byte(0)
		if role == "server" {
			b = 1
		}
		return append([]byte{b}, data...)
	case "FuzzScrambleSuit":
		return append([]byte{byte(split >> 8), byte(split)}, data...)
	}
	return data
}
