package lib

import (
	"fmt"
	"strings"

	"gitlab.com/yawning/obfs4.git/common/socks5"

	"verif/harness/vlib"
)

// SocksGens: generators for the SOCKS5 front end (the harness plays tor's SOCKS client).
var SocksGens = []string{"valid", "raw-random", "cut-at", "pipelined", "extreme",
	"mut:flip", "mut:trunc", "mut:extend", "mut:dup", "mut:splice-rand", "mut:insert", "mut:zero", "mut:ones", "mut:swap", "mut:dup-whole", "mut:drop"}

var socksArgStrings = []string{"k=v", "cert=AAAA;iat-mode=0", "a=b;c=d;e=f", "k=v\\;w;x=y", "k=\\=", "k", "=v", "k=v;", ";", "\\", "k=v\\", "",
	"url=https://example.com/;front=a.b", strings.Repeat("k=v;", 60) + "z=1"}

// socksValid builds the three client messages of a valid exchange and their regions (offsets
// relative to the concatenation).
func socksValid(rng *vlib.Rng) (msgs [][]byte, regions []Region) {
	auth := rng.Intn(4) != 0
	var m1 []byte
	switch rng.Intn(4) {
	case 0:
		m1 = []byte{5, 1, 0}
		auth = false
	case 1:
		m1 = []byte{5, 1, 2}
		auth = true
	case 2:
		m1 = []byte{5, 2, 0, 2}
		auth = true
	default:
		n := 1 + rng.Intn(255)
		m1 = append([]byte{5, byte(n)}, rng.Bytes(n)...)
		m1[2+rng.Intn(n)] = 2
		auth = true
	}
	msgs = append(msgs, m1)
	off := 0
	regions = append(regions, Region{"m1.ver", 0, 1}, Region{"m1.nmethods", 1, 1}, Region{"m1.methods", 2, len(m1) - 2})
	off += len(m1)
	if auth {
		arg := socksArgStrings[rng.Intn(len(socksArgStrings))]
		if arg == "" || !strings.Contains(arg, "=") || strings.HasSuffix(arg, ";") || strings.HasSuffix(arg, "\\") || strings.HasPrefix(arg, "=") {
			arg = "k=v" // the valid exchange carries valid arguments
		}
		u, p := arg, "\x00"
		if len(u) > 255 {
			u, p = arg[:255], arg[255:]
		} else if rng.Intn(3) == 0 && len(arg) > 1 {
			cut := 1 + rng.Intn(len(arg)-1)
			u, p = arg[:cut], arg[cut:]
		}
		m2 := append([]byte{1, byte(len(u))}, u...)
		m2 = append(append(m2, byte(len(p))), p...)
		msgs = append(msgs, m2)
		regions = append(regions, Region{"m2.ver", off, 1}, Region{"m2.ulen", off + 1, 1}, Region{"m2.uname", off + 2, len(u)},
			Region{"m2.plen", off + 2 + len(u), 1}, Region{"m2.passwd", off + 3 + len(u), len(p)})
		off += len(m2)
	}
	var m3 []byte
	switch rng.Intn(3) {
	case 0:
		m3 = append([]byte{5, 1, 0, 1}, rng.Bytes(4)...)
	case 1:
		n := 1 + rng.Intn(255)
		host := make([]byte, n)
		for i := range host {
			host[i] = "abcdefghijklmnopqrstuvwxyz0123456789.-"[rng.Intn(38)]
		}
		m3 = append([]byte{5, 1, 0, 3, byte(n)}, host...)
	default:
		m3 = append([]byte{5, 1, 0, 4}, rng.Bytes(16)...)
	}
	m3 = append(m3, rng.Bytes(2)...)
	msgs = append(msgs, m3)
	regions = append(regions, Region{"m3.ver", off, 1}, Region{"m3.cmd", off + 1, 1}, Region{"m3.rsv", off + 2, 1}, Region{"m3.atyp", off + 3, 1},
		Region{"m3.addr", off + 4, len(m3) - 6}, Region{"m3.port", off + len(m3) - 2, 2})
	return
}

// socksExtreme builds exchanges with extreme length fields / invalid arguments.
func socksExtreme(rng *vlib.Rng, a int) (msgs [][]byte, desc string) {
	kinds := []string{"nmethods-0", "nmethods-255", "ulen-0", "ulen-255", "plen-0", "plen-255", "alen-0", "alen-255", "atyp-bad", "cmd-bad",
		"ver-4", "auth-ver-bad", "bad-args", "no-acceptable-method", "rsv-bad", "args-510"}
	k := kinds[((a%len(kinds))+len(kinds))%len(kinds)]
	m1 := []byte{5, 1, 2}
	m2 := []byte{1, 3, 'k', '=', 'v', 1, 0}
	m3 := []byte{5, 1, 0, 1, 1, 2, 3, 4, 0, 80}
	switch k {
	case "nmethods-0":
		m1 = []byte{5, 0}
	case "nmethods-255":
		m1 = append([]byte{5, 255}, rng.Bytes(255)...)
	case "ulen-0":
		m2 = []byte{1, 0, 1, 0}
	case "ulen-255":
		m2 = append(append([]byte{1, 255}, []byte(strings.Repeat("a=bcd;", 42)+"e=f")...), 1, 0)
	case "plen-0":
		m2 = []byte{1, 3, 'k', '=', 'v', 0}
	case "plen-255":
		m2 = append(append([]byte{1, 3, 'k', '=', 'v', 255}, []byte(";"+strings.Repeat("a=bcd;", 42)+"e")...), '=', 'f')
	case "alen-0":
		m3 = []byte{5, 1, 0, 3, 0, 0, 80}
	case "alen-255":
		m3 = append(append([]byte{5, 1, 0, 3, 255}, rng.Bytes(255)...), 0, 80)
	case "atyp-bad":
		m3 = []byte{5, 1, 0, byte(5 + rng.Intn(250)), 1, 2, 3, 4, 0, 80}
	case "cmd-bad":
		m3 = []byte{5, byte(2 + rng.Intn(250)), 0, 1, 1, 2, 3, 4, 0, 80}
	case "ver-4":
		m1 = []byte{4, 1, 0, 80, 1, 2, 3, 4, 0}
	case "auth-ver-bad":
		m2[0] = byte(2 + rng.Intn(250))
	case "bad-args":
		arg := []string{"k", "=v", "k=v;", ";", "\\", "k=v\\", "k=v;;w=x", "\x00"}[rng.Intn(8)]
		m2 = append(append([]byte{1, byte(len(arg))}, arg...), 1, 0)
	case "no-acceptable-method":
		m1 = []byte{5, 3, 1, 3, 0x80}
	case "rsv-bad":
		m3[2] = byte(1 + rng.Intn(255))
	case "args-510":
		u := strings.Repeat("a=bcd;", 42) + "e=f"
		p := ";" + strings.Repeat("g=hij;", 42) + "k="
		m2 = append(append(append([]byte{1, byte(len(u))}, u...), byte(len(p))), p...)
	}
	return [][]byte{m1, m2, m3}, k
}

// RunSocks runs one SOCKS5 front-end case.
func RunSocks(x *Ctx) {
	c := x.Case
	rng := vlib.NewRng(c.Seed)
	msgs, regions := socksValid(rng)
	var all []byte
	for _, m := range msgs {
		all = append(all, m...)
	}
	desc := c.Gen
	isValid := false
	segs := msgs
	switch {
	case c.Gen == "valid":
		isValid = true
	case c.Gen == "pipelined":
		segs = [][]byte{all}
	case c.Gen == "raw":
		// fuzz inputs: the first two bytes give the lengths of the first two client messages
		raw := RawInput(c)
		segs = nil
		if len(raw) >= 2 {
			l1, l2 := int(raw[0]), int(raw[1])
			rest := raw[2:]
			for _, l := range []int{l1, l2} {
				if l > len(rest) {
					l = len(rest)
				}
				if l > 0 {
					segs = append(segs, rest[:l])
				}
				rest = rest[l:]
			}
			if len(rest) > 0 {
				segs = append(segs, rest)
			}
		}
		if len(segs) == 0 {
			segs = [][]byte{{}}
		}
		desc = fmt.Sprintf("raw[%d]", len(raw))
	case c.Gen == "extreme":
		segs, desc = socksExtreme(rng, c.A)
	case c.Gen == "raw-random":
		lens := LengthClasses(4096, 3, 257, 515, 1032)
		n := lens[((c.A%len(lens))+len(lens))%len(lens)]
		segs = [][]byte{rng.Bytes(n)}
		if c.B%2 == 1 && n > 0 {
			segs[0][0] = 5 // looks like SOCKS5 at first
		}
		desc = fmt.Sprintf("random[%d]", n)
	case c.Gen == "cut-at":
		x.ValidLen = len(all)
		x.Boundaries = Boundaries(regions, len(all))
		p := x.CutPos(len(all))
		segs = nil
		rest := p
		for _, m := range msgs {
			if rest <= 0 {
				break
			}
			if len(m) > rest {
				m = m[:rest]
			}
			segs = append(segs, m)
			rest -= len(m)
		}
		desc = fmt.Sprintf("exchange cut after %d of %d client bytes, cut=%q", p, len(all), c.Cut)
		isValid = p == len(all)
	case strings.HasPrefix(c.Gen, "mut:"):
		mutated, d := Mutate(rng, c.Gen[4:], all, regions, c.A, c.B)
		desc = d
		// keep the message boundaries of the valid exchange where they still exist
		segs = nil
		off := 0
		for i, m := range msgs {
			end := off + len(m)
			if i == len(msgs)-1 || end > len(mutated) {
				end = len(mutated)
			}
			if off < end {
				segs = append(segs, mutated[off:end])
			}
			off = end
		}
	default:
		panic("unknown generator " + c.Gen)
	}
	ec := NewConn()
	var fedAll []byte
	call := x.Go(ec, "socks5.Handshake", func() (interface{}, error) {
		req, err := socks5.Handshake(ec)
		if err != nil {
			return nil, err
		}
		return req, nil
	})
	// feed message by message: the client waits for each reply (the endpoint is then blocked in Read)
	early := false
	for i, s := range segs {
		sizes, maxRead := ChunkSizes(rng, x.ResolveChunk(rng, len(s)), len(s))
		ec.ScriptConn.MaxRead = maxRead
		ec.FeedAll(s, sizes)
		fedAll = append(fedAll, s...)
		if i == len(segs)-1 {
			break
		}
		if st := x.Await(ec, call); st != Blocked {
			early = true
			break
		}
	}
	_ = early
	x.ApplyCut(ec)
	if c.Gen != "raw" {
		c.Input = hexTrunc(fedAll, 1<<14)
	}
	x.R.Count(c.Prefix()+"/input-size", SizeClass(len(fedAll)))
	good := x.FinishHandshake(ec, call, HsOpts{ConsumedBound: B("socks-consumed"), Kind: "socks", ExpectSuccess: isValid && c.Cut != "reset"})
	x.R.Count(c.Prefix()+"/outcome", x.Outcome)
	x.R.Sample(3, map[string]interface{}{"case": c.Key(), "input": desc, "outcome": x.Outcome, "log": LogSummary(ec.Log())})
	if good {
		req := call.Res.(*socks5.Request)
		if n, ok := socks5.VerifC10Buffered(req); ok && n != 0 {
			x.Violate("trailing-data-accepted", fmt.Sprintf("Handshake succeeded with %d unread bytes in its buffer", n))
		}
		// the reply path, with and without a failing network
		var werr error
		if c.B%3 == 0 {
			werr = ErrReset
		}
		ec.ScriptConn.WriteErr = werr
		rc := x.Go(ec, "Request.Reply", func() (interface{}, error) { return nil, req.Reply(socks5.ReplySucceeded) })
		x.Await(ec, rc)
		ec.ScriptConn.WriteErr = nil
	}
	ec.ScriptConn.Close()
}
