package lib

import (
	"fmt"
	"strconv"
	"strings"

	"verif/harness/vlib"
)

// Region names a structured part of a valid message (length field, mark, MAC, ...).
type Region struct {
	Name     string
	Off, Len int
}

// Boundaries returns the offsets where regions start/end.
func Boundaries(rs []Region, total int) []int {
	seen := map[int]bool{}
	var out []int
	add := func(p int) {
		if p >= 0 && p <= total && !seen[p] {
			seen[p] = true
			out = append(out, p)
		}
	}
	for _, r := range rs {
		add(r.Off)
		add(r.Off + r.Len)
	}
	add(total)
	return out
}

// MutOps are the mutation operators applied to a recorded valid message.
var MutOps = []string{"flip", "trunc", "extend", "dup", "splice-rand", "insert", "zero", "ones", "swap", "dup-whole", "drop"}

// Mutate applies operator op to valid at a position derived from (a, b): a selects the region
// (a % len(regions)), b the offset inside it (b % region length); for operators that need a
// length it is derived from rng.  It returns the mutated message and a description.
func Mutate(rng *vlib.Rng, op string, valid []byte, regions []Region, a, b int) ([]byte, string) {
	v := append([]byte(nil), valid...)
	if len(regions) == 0 {
		regions = []Region{{"all", 0, len(v)}}
	}
	r := regions[((a%len(regions))+len(regions))%len(regions)]
	if r.Len <= 0 {
		r = Region{"all", 0, len(v)}
	}
	if r.Off+r.Len > len(v) {
		r.Len = len(v) - r.Off
	}
	if r.Len <= 0 || len(v) == 0 {
		return append(v, rng.Bytes(1+rng.Intn(32))...), op + "@empty→extend"
	}
	pos := r.Off + ((b%r.Len)+r.Len)%r.Len
	desc := fmt.Sprintf("%s@%s+%d(abs %d of %d)", op, r.Name, pos-r.Off, pos, len(v))
	switch op {
	case "flip":
		v[pos] ^= 1 << uint(rng.Intn(8))
	case "trunc":
		v = v[:pos]
	case "extend":
		v = append(v, rng.Bytes(1+rng.Intn(64))...)
	case "dup":
		// duplicate the region in place
		v = append(v[:r.Off+r.Len:r.Off+r.Len], append(append([]byte(nil), valid[r.Off:r.Off+r.Len]...), valid[r.Off+r.Len:]...)...)
	case "splice-rand":
		v = append(v[:pos:pos], rng.Bytes(len(valid)-pos+rng.Intn(64))...)
	case "insert":
		ins := rng.Bytes(1 + rng.Intn(48))
		v = append(v[:pos:pos], append(ins, valid[pos:]...)...)
	case "zero":
		for i := r.Off; i < r.Off+r.Len; i++ {
			v[i] = 0
		}
	case "ones":
		for i := r.Off; i < r.Off+r.Len; i++ {
			v[i] = 0xff
		}
	case "swap":
		r2 := regions[rng.Intn(len(regions))]
		n := r.Len
		if r2.Len < n {
			n = r2.Len
		}
		if r2.Off+n <= len(v) && n > 0 {
			tmp := append([]byte(nil), v[r.Off:r.Off+n]...)
			copy(v[r.Off:r.Off+n], v[r2.Off:r2.Off+n])
			copy(v[r2.Off:r2.Off+n], tmp)
		}
	case "dup-whole":
		v = append(v, valid...)
	case "drop":
		v = append(v[:r.Off:r.Off], valid[r.Off+r.Len:]...)
	default:
		panic("unknown mutation op " + op)
	}
	return v, desc
}

// Chunkers known to ChunkSizes.
var Chunkers = []string{"whole", "one", "mss", "rand", "split", "maxread:1", "maxread:7"}

// ChunkSizes returns the chunk sizes for feeding total bytes, and the MaxRead cap to set on
// the conn (0 = none).  spec: whole | one (1-byte chunks) | mss | rand | split:<n> (two chunks)
// | maxread:<n> (whole, but every Read returns at most n bytes).
func ChunkSizes(rng *vlib.Rng, spec string, total int) (sizes []int, maxRead int) {
	switch {
	case spec == "whole" || spec == "":
		return nil, 0
	case spec == "one":
		// equivalent to 1-byte segments, without queueing millions of chunks
		return nil, 1
	case spec == "mss":
		for n := 0; n < total; n += 1448 {
			sizes = append(sizes, 1448)
		}
		return sizes, 0
	case spec == "rand":
		for n := 0; n < total; {
			var k int
			switch rng.Intn(4) {
			case 0:
				k = 1 + rng.Intn(3)
			case 1:
				k = 1 + rng.Intn(64)
			case 2:
				k = 1 + rng.Intn(1500)
			default:
				k = 1 + rng.Intn(9000)
			}
			sizes = append(sizes, k)
			n += k
		}
		return sizes, 0
	case strings.HasPrefix(spec, "split:"):
		n, _ := strconv.Atoi(spec[6:])
		if n <= 0 || n >= total {
			return nil, 0
		}
		return []int{n}, 0
	case strings.HasPrefix(spec, "maxread:"):
		n, _ := strconv.Atoi(spec[8:])
		return nil, n
	}
	panic("unknown chunker " + spec)
}

// PickChunker chooses a chunker; boundaries (structure offsets of the message) make the
// boundary±1 splits likely.
func PickChunker(rng *vlib.Rng, total int, boundaries []int) string {
	switch rng.Intn(10) {
	case 0, 1:
		return "whole"
	case 2:
		if total <= 20000 {
			return "one"
		}
		return "mss"
	case 3:
		return "mss"
	case 4, 5:
		return "rand"
	case 6:
		return "maxread:7"
	default:
		if len(boundaries) > 0 && total > 1 {
			p := boundaries[rng.Intn(len(boundaries))] + rng.Intn(3) - 1
			if p >= 1 && p < total {
				return fmt.Sprintf("split:%d", p)
			}
		}
		if total > 1 {
			return fmt.Sprintf("split:%d", 1+rng.Intn(total-1))
		}
		return "whole"
	}
}

// LengthClasses returns the interesting lengths around a handshake maximum m (up to 3m).
func LengthClasses(m int, others ...int) []int {
	ls := []int{0, 1, 2, 15, 16, 17, 31, 32, 33, 63, 64, 65, 100, 255, 256, 1000, 1447, 1448, 1449, 4096,
		m/2 - 1, m / 2, m - 1, m, m + 1, 2*m - 1, 2 * m, 2*m + 1, 3*m - 1, 3 * m}
	for _, o := range others {
		ls = append(ls, o-1, o, o+1)
	}
	var out []int
	seen := map[int]bool{}
	for _, l := range ls {
		if l >= 0 && !seen[l] {
			seen[l] = true
			out = append(out, l)
		}
	}
	return out
}

// SizeClass buckets a length for the measured input distribution.
func SizeClass(n int) string {
	switch {
	case n == 0:
		return "0"
	case n < 16:
		return "1-15"
	case n < 100:
		return "16-99"
	case n < 1000:
		return "100-999"
	case n < 8192:
		return "1000-8191"
	case n < 16384:
		return "8192-16383"
	case n < 65536:
		return "16384-65535"
	default:
		return ">=65536"
	}
}

func hexTrunc(b []byte, max int) string {
	if len(b) > max {
		return vlib.Hex(b[:max]) + fmt.Sprintf("…(+%d bytes)", len(b)-max)
	}
	return vlib.Hex(b)
}
