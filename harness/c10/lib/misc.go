package lib

import (
	"fmt"
	"net"
	"runtime"
	"runtime/debug"

	"gitlab.com/yawning/obfs4.git/transports/obfs4"

	"verif/harness/vlib"
)

// RunFindMarkMac compares the real findMarkMac with the Lean model on one structured input and
// checks the range fact the no-panic theorem is about.
func RunFindMarkMac(x *Ctx, model func(mark, buf []byte, start, max int, tail bool) string) {
	c := x.Case
	rng := vlib.NewRng(c.Seed)
	mark := rng.Bytes(16)
	n := []int{0, 1, 15, 16, 31, 32, 33, 63, 64, 96, 109, 141, 200, 1000, 8191, 8192, 8193, 9000}[rng.Intn(18)]
	if rng.Intn(3) == 0 {
		n = rng.Intn(9000)
	}
	buf := rng.Bytes(n)
	start := []int{0, 32, 64, 109, n - 32, n - 31, n, n + 1, rng.Intn(n + 2)}[rng.Intn(9)]
	if start < 0 {
		start = 0
	}
	if rng.Intn(2) == 0 {
		start = []int{0, 32, 64, 109}[rng.Intn(4)] // the call sites' values
	}
	max := []int{8192, 8192, 8192, n, n - 1, n + 1, start + 31, start + 32, start + 33, 0, rng.Intn(n + 10)}[rng.Intn(11)]
	if max < 0 {
		max = 0
	}
	end := n
	if max < end {
		end = max
	}
	// plant the mark: where a hit is possible, at the tail position, straddling the end, or anywhere
	places := rng.Intn(3)
	for i := 0; i < places && n > 0; i++ {
		p := rng.Intn(n)
		switch rng.Intn(6) {
		case 0, 1:
			if end-32 > start {
				p = start + rng.Intn(end-32-start+1)
			}
		case 2:
			p = end - 32
		case 3:
			p = end - 32 + rng.Intn(20) - 3
		case 4:
			p = 8192 - 32 + rng.Intn(5) - 2
		}
		if p >= 0 && p < n {
			copy(buf[p:], mark)
		}
	}
	tail := rng.Bool()
	var got int
	var pv interface{}
	var stack string
	func() {
		defer func() {
			if p := recover(); p != nil {
				pv, stack = p, string(debug.Stack())
			}
		}()
		got = obfs4.VerifC10FindMarkMac(mark, buf, start, max, tail)
	}()
	x.Nontrivial = places > 0
	c.Input = fmt.Sprintf("mark=%s buf=%s start=%d max=%d tail=%v", vlib.Hex(mark), hexTrunc(buf, 1<<14), start, max, tail)
	if pv != nil {
		site, class := PanicSite(pv, stack)
		x.Violate("panic-"+site+"-"+class, fmt.Sprintf("findMarkMac(len(buf)=%d, start=%d, max=%d, tail=%v) panicked: %v", n, start, max, tail, pv))
		return
	}
	if got != -1 && (got < start || got+32 > n || got+32 > max) {
		x.Violate("findMarkMac-out-of-range", fmt.Sprintf("findMarkMac(len(buf)=%d, start=%d, max=%d, tail=%v) = %d: mark+MAC do not lie inside the buffer", n, start, max, tail, got))
	}
	x.Outcome = "found"
	if got == -1 {
		x.Outcome = "not-found"
	}
	x.R.Count(c.Prefix()+"/outcome", x.Outcome)
	if model != nil {
		want := model(mark, buf, start, max, tail)
		x.R.Validated(1)
		if want != fmt.Sprint(got) {
			x.R.Violate(c.Prefix()+"-findMarkMac-model-impl-disagree", "correspondence",
				fmt.Sprintf("findMarkMac(len(buf)=%d, start=%d, max=%d, tail=%v): implementation %d, Lean model %s", n, start, max, tail, got, want), c)
		}
	}
}

func heapNow() uint64 {
	runtime.GC()
	runtime.GC()
	var m runtime.MemStats
	runtime.ReadMemStats(&m)
	return m.HeapAlloc
}

const memStream = 10 << 20
const memLimit = 5 << 20

// RunMem feeds a 10 MB stream to an endpoint that keeps consuming (data phase with a genuine
// stream of the right keys, or the obfs4 server discarding after a failed handshake) and
// cross-checks with the Go heap that what was consumed is not retained.
func RunMem(x *Ctx) {
	c := x.Case
	rng := vlib.NewRng(c.Seed)
	x.Nontrivial = true
	report := func(before uint64, what string, consumed int) {
		after := heapNow()
		delta := int64(after) - int64(before)
		x.R.Count(c.Prefix()+"/heap-delta", SizeClass(int(max64(delta, 0))))
		x.R.Sample(8, map[string]interface{}{"case": c.Key(), "consumed": consumed, "heap_delta": delta})
		if consumed < memStream/2 {
			x.R.Count(c.Prefix()+"/anomaly", "stream-not-consumed")
			return
		}
		if delta > memLimit {
			x.Violate("memory-retained", fmt.Sprintf("%s: after consuming %d bytes the heap grew by %d bytes (limit %d)", what, consumed, delta, memLimit))
		}
	}
	switch c.T + "/" + c.Role + "/" + c.Stage {
	case "obfs4/server/hs":
		w, err := NewO4World(rng, 0, "")
		if err != nil {
			panic(err)
		}
		sc := NewConn()
		scall := x.o4StartServer(w, sc)
		before := heapNow()
		// feed chunk by chunk, each only after the previous one was consumed: a long queue inside
		// the harness conn would itself keep consumed chunks reachable (its backing array) and
		// be mistaken for memory held by the endpoint
		st := Blocked
		for fed := 0; fed < memStream && st == Blocked; fed += 65536 {
			sc.FeedAll(rng.Bytes(65536), nil)
			st = x.Await(sc, scall)
		}
		if st == Blocked {
			report(before, "obfs4 server discarding after a failed handshake", sc.Consumed())
		}
		x.FinishHandshake(sc, scall, HsOpts{ConsumedBound: B("obfs4-hs"), ClosesOnFail: true, DiscardsOnFail: true})
	case "obfs4/server/data", "obfs4/client/data":
		w, err := NewO4World(rng, 0, "")
		if err != nil {
			panic(err)
		}
		p, ok := x.o4Handshake(w)
		if !ok {
			return
		}
		rxC, rx, txC, tx := p.SC, p.Server, p.CC, p.Client
		if c.Role == "client" {
			rxC, rx, txC, tx = p.CC, p.Client, p.SC, p.Server
		}
		defer func() { rx.Close(); tx.Close() }()
		before := heapNow()
		x.streamThrough(rxC, rx, func() []byte { b, _ := x.send(txC, tx, rng.Bytes(60000)); return b }, obfs4BufferedFn(rx), o4Bound(c.Role == "server"))
		report(before, "obfs4 data phase", rxC.Consumed())
	case "obfs2/client/data", "obfs2/server/data", "obfs3/client/data", "obfs3/server/data":
		ec, pc := NewConn(), NewConn()
		ecall := x.startSym(c.T, c.Role, ec)
		x.Await(ec, ecall)
		eblob := ec.TakeWritten()
		pcall := x.startSym(c.T, otherRole(c.Role), pc)
		x.Await(pc, pcall)
		pblob := pc.TakeWritten()
		pc.FeedAll(eblob, nil)
		ec.FeedAll(pblob, nil)
		if x.Await(pc, pcall) != Finished || pcall.Err != nil || x.Await(ec, ecall) != Finished || ecall.Err != nil {
			x.abandon(pc, pcall)
			x.abandon(ec, ecall)
			return
		}
		ep, pp := ecall.Res.(net.Conn), pcall.Res.(net.Conn)
		defer func() { ep.Close(); pp.Close() }()
		ec.ScriptConn.FireDeadlines = true
		before := heapNow()
		x.streamThrough(ec, ep, func() []byte { b, _ := x.send(pc, pp, rng.Bytes(60000)); return b }, symBuffered(c.T, ep), symBound(c.T))
		report(before, c.T+" data phase", ec.Consumed())
	case "scramblesuit/client/data":
		w := newSSWorld(rng, true)
		cc, call := x.ssStartClient(w)
		if x.Await(cc, call) != Blocked {
			x.abandon(cc, call)
			return
		}
		srv := &SSServer{KB: w.KB}
		if err := srv.Respond(rng, cc.TakeWritten(), 100); err != nil {
			panic(err)
		}
		cc.FeedAll(srv.Resp, nil)
		if x.Await(cc, call) != Finished || call.Err != nil {
			x.abandon(cc, call)
			return
		}
		ep := call.Res.(net.Conn)
		defer ep.Close()
		cc.ScriptConn.FireDeadlines = true
		before := heapNow()
		x.streamThrough(cc, ep, func() []byte { return srv.Payload(rng, rng.Bytes(60000)) }, ssBuffered(ep), B("ss-data"))
		report(before, "scramblesuit data phase", cc.Consumed())
	default:
		panic("no memory scenario for " + c.Prefix())
	}
	x.Outcome = "streamed"
	x.R.Count(c.Prefix()+"/outcome", x.Outcome)
}

func obfs4BufferedFn(ep net.Conn) func() (int, bool) {
	return func() (int, bool) { return obfs4.VerifC10Buffered(ep) }
}

func max64(a, b int64) int64 {
	if a > b {
		return a
	}
	return b
}

// streamThrough pushes 10 MB of genuine traffic through the receiving endpoint, reading it all,
// checking the buffer bound at every quiescent point.
func (x *Ctx) streamThrough(c *Conn, ep net.Conn, next func() []byte, buffered func() (int, bool), bound int) {
	buf := make([]byte, 32768)
	for c.Fed() < memStream && !x.Violated() {
		c.FeedAll(next(), nil)
		for {
			call := x.Go(c, "Read", func() (interface{}, error) {
				n, err := ep.Read(buf)
				return n, err
			})
			st := x.Await(c, call)
			if n, ok := buffered(); ok && n > bound {
				x.Violate("buffer-unbounded", fmt.Sprintf("%d bytes buffered while streaming, bound %d", n, bound))
			}
			if st == Blocked {
				// everything fed so far was consumed; the pending Read picks up the next burst
				c.FeedAll(next(), nil)
				if x.Await(c, call) != Finished {
					return
				}
			}
			if st == Stuck || call.Panic != nil || call.Err != nil {
				return
			}
			if c.Pending() == 0 {
				break
			}
		}
	}
}
