package lib

import (
	"crypto/aes"
	"crypto/cipher"
	"crypto/hmac"
	"crypto/sha256"
	"encoding/base32"
	"encoding/binary"
	"fmt"
	"hash"
	"io"
	"net"
	"os"
	"path/filepath"
	"strconv"
	"strings"
	"time"

	pt "gitlab.torproject.org/tpo/anti-censorship/pluggable-transports/goptlib"
	"golang.org/x/crypto/hkdf"

	"gitlab.com/yawning/obfs4.git/common/uniformdh"
	"gitlab.com/yawning/obfs4.git/transports"
	"gitlab.com/yawning/obfs4.git/transports/base"
	"gitlab.com/yawning/obfs4.git/transports/scramblesuit"

	"verif/harness/vlib"
)

// SSServer is the harness's own (permissive, key-holding) ScrambleSuit server: the tree has
// no server implementation.  It answers a client's UniformDH handshake and seals packets with
// the session keys, valid or deliberately malformed.
type SSServer struct {
	KB              []byte
	s               cipher.Stream
	mac             hash.Hash
	Resp            []byte // the handshake response it produced
	PadOff, MarkOff int
}

// Respond builds Y | P_S | M_S | MAC(Y | P_S | M_S | E) for the client handshake blob and
// derives the server→client link keys.
func (s *SSServer) Respond(rng *vlib.Rng, clientBlob []byte, padLen int) error {
	if len(clientBlob) < uniformdh.Size {
		return fmt.Errorf("client blob too short")
	}
	priv, err := uniformdh.GenerateKey(rng)
	if err != nil {
		return err
	}
	y, _ := priv.PublicKey.Bytes()
	var cpub uniformdh.PublicKey
	if err := cpub.SetBytes(clientBlob[:uniformdh.Size]); err != nil {
		return err
	}
	ss, err := uniformdh.Handshake(priv, &cpub)
	if err != nil {
		return err
	}
	m := hmac.New(sha256.New, s.KB)
	m.Write(y)
	mark := m.Sum(nil)[:16]
	pad := rng.Bytes(padLen)
	m.Write(pad)
	m.Write(mark)
	m.Write([]byte(strconv.FormatInt(time.Now().Unix()/3600, 10)))
	mac := m.Sum(nil)[:16]
	s.Resp = append(append(append(append([]byte(nil), y...), pad...), mark...), mac...)
	s.PadOff, s.MarkOff = uniformdh.Size, uniformdh.Size+padLen
	seed := sha256.Sum256(ss)
	return s.initKeys(seed[:])
}

func (s *SSServer) initKeys(seed []byte) error {
	okm := make([]byte, 144)
	if _, err := io.ReadFull(hkdf.Expand(sha256.New, seed, nil), okm); err != nil {
		return err
	}
	// the client's rx state: key okm[40:72], IV prefix okm[72:80], MAC key okm[112:144]
	blk, err := aes.NewCipher(okm[40:72])
	if err != nil {
		return err
	}
	iv := append(append([]byte(nil), okm[72:80]...), 0, 0, 0, 0, 0, 0, 0, 1)
	s.s = cipher.NewCTR(blk, iv)
	s.mac = hmac.New(sha256.New, okm[112:144])
	return nil
}

// Packet seals one packet with arbitrary header fields: MAC | E(totalLen | payloadLen | flags | body).
func (s *SSServer) Packet(totalLen, payloadLen int, flags byte, body []byte) []byte {
	pkt := make([]byte, 5, 5+len(body))
	binary.BigEndian.PutUint16(pkt[0:], uint16(totalLen))
	binary.BigEndian.PutUint16(pkt[2:], uint16(payloadLen))
	pkt[4] = flags
	pkt = append(pkt, body...)
	s.s.XORKeyStream(pkt, pkt)
	s.mac.Reset()
	s.mac.Write(pkt)
	return append(s.mac.Sum(nil)[:16], pkt...)
}

// Payload seals data as genuine payload packets with some padding.
func (s *SSServer) Payload(rng *vlib.Rng, data []byte) []byte {
	var out []byte
	for len(data) > 0 {
		n := len(data)
		if n > 1427 {
			n = 1427
		}
		pad := 0
		if n < 1427 {
			pad = rng.Intn(1427 - n + 1)
			if pad > 64 {
				pad = rng.Intn(64)
			}
		}
		body := append(append([]byte(nil), data[:n]...), make([]byte, pad)...)
		out = append(out, s.Packet(n+pad, n, 1, body)...)
		data = data[n:]
	}
	return out
}

type ssWorld struct {
	CF   base.ClientFactory
	Args interface{}
	KB   []byte
	Dir  string
}

func newSSWorld(rng *vlib.Rng, fresh bool) *ssWorld {
	dir := filepath.Join(StateDir(), "ss")
	os.MkdirAll(dir, 0o700)
	if fresh {
		os.Remove(filepath.Join(dir, "scramblesuit_tickets.json"))
	}
	t := transports.Get("scramblesuit")
	if t == nil {
		panic("scramblesuit not registered")
	}
	cf, err := t.ClientFactory(dir)
	if err != nil {
		panic(err)
	}
	kb := rng.Bytes(20)
	args := &pt.Args{}
	args.Add("password", base32.StdEncoding.EncodeToString(kb))
	ca, err := cf.ParseArgs(args)
	if err != nil {
		panic(err)
	}
	return &ssWorld{CF: cf, Args: ca, KB: kb, Dir: dir}
}

func (x *Ctx) ssStartClient(w *ssWorld) (*Conn, *Call) {
	cc := NewConn()
	call := x.Go(cc, "scramblesuit Dial", func() (interface{}, error) {
		ep, err := w.CF.Dial("tcp", "192.0.2.1:443", dialTo(cc), w.Args)
		if err != nil {
			return nil, err
		}
		return ep, nil
	})
	return cc, call
}

// SSHsGens: generators of the ScrambleSuit client handshake stage.
var SSHsGens = []string{"valid", "raw-random", "valid-prefix+garbage", "cut-at", "mark-at-boundary", "split-in-tail",
	"mut:flip", "mut:trunc", "mut:extend", "mut:dup", "mut:splice-rand", "mut:insert", "mut:zero", "mut:ones", "mut:swap", "mut:dup-whole", "mut:drop"}

var ssHsLens = LengthClasses(1532, 192, 224, 1516)

func ssBuffered(ep net.Conn) func() (int, bool) {
	return func() (int, bool) { return scramblesuit.VerifC10Buffered(ep) }
}

// RunSSHs runs one ScrambleSuit client handshake-stage case.
func RunSSHs(x *Ctx) {
	c := x.Case
	rng := vlib.NewRng(c.Seed)
	w := newSSWorld(rng, true)
	cc, call := x.ssStartClient(w)
	defer func() { x.abandon(cc, call); closeIf(call.Res) }()
	if st := x.Await(cc, call); st != Blocked {
		return
	}
	blob := cc.TakeWritten()
	srv := &SSServer{KB: w.KB}
	hour0 := time.Now().Unix() / 3600
	heap0 := uint64(0)
	padLen := rng.Intn(1309)
	if c.Gen == "pad-boundary" {
		// the legal server padding range is 0..1308: both ends, and the lengths whose response
		// reaches past maxHandshakeLength-macLength (1293..1308), always; random otherwise
		if c.A >= 0 && c.A < len(SSPadBoundaries) {
			padLen = SSPadBoundaries[c.A]
		}
		heap0 = heapNow()
	}
	if c.Gen == "split-in-tail" {
		padLen = 1 + (c.B % 1308) // F3 needs padding >= 1; vary the buffer size classes
	}
	if err := srv.Respond(rng, blob, padLen); err != nil {
		panic(err)
	}
	resp := srv.Resp
	regions := []Region{{"pubkey", 0, 192}, {"pad", 192, padLen}, {"mark", srv.MarkOff, 16}, {"mac", srv.MarkOff + 16, 16}}
	var in []byte
	var desc string
	isValid := false
	if c.Gen == "split-in-tail" {
		// the whole valid response, split k bytes before its end (inside the trailing MAC or the mark)
		k := 1 + c.A%31
		in, desc, isValid = resp, fmt.Sprintf("valid response (pad %d) split %d bytes before its end", padLen, k), true
		c.Chunk = fmt.Sprintf("split:%d", len(resp)-k)
	} else if c.Gen == "pad-boundary" {
		// a conforming response followed by MORE traffic in the same stream: a long genuine packet
		// stream, or megabytes of garbage
		var more []byte
		kind := "genuine packet stream"
		scale := 1 // megabytes for the boundary lengths, a few hundred KB for the random ones
		if c.A < 0 || c.A >= len(SSPadBoundaries) {
			scale = 8
		}
		if c.B%2 == 0 {
			more = srv.Payload(rng, rng.Bytes((1500000+rng.Intn(1000000))/scale))
		} else {
			more = rng.Bytes((2000000 + rng.Intn(2000000)) / scale)
			kind = "garbage"
		}
		in = append(append([]byte(nil), resp...), more...)
		desc = fmt.Sprintf("valid response with padding %d (%d bytes) followed by %d bytes of %s", padLen, len(resp), len(more), kind)
		isValid = true
		x.ValidLen = len(resp)
		x.Boundaries = Boundaries(regions, len(resp))
		if c.Cut == "reset" {
			c.Cut = "eof"
		}
	} else {
		in, desc, isValid = hsInput(x, rng, resp, nil, regions, 192, ssHsLens, 1532)
	}
	x.feed(cc, rng, in)
	if c.Gen == "pad-boundary" {
		c.Input = hexTrunc(resp, 4096) // the response; the megabytes that follow are derived from the seed
		// whatever the handshake makes of it, the client must not be holding the stream: heap after
		// GC, minus what is still queued inside the harness conn
		x.Await(cc, call)
		// (`in` itself is still referenced here, so its size is subtracted as well)
		delta := int64(heapNow()) - int64(heap0) - int64(len(in)) - int64(cc.Pending())
		x.R.Count(c.Prefix()+"/pad-boundary-heap-delta", SizeClass(int(max64(delta, 0))))
		if delta > 3<<20 {
			x.Violate("memory-retained", fmt.Sprintf("%s: the handshake holds on to the stream: heap grew by %d bytes (input copy and harness queue subtracted), consumed %d of %d", desc, delta, cc.Consumed(), cc.Fed()))
		}
	}
	good := x.FinishHandshake(cc, call, HsOpts{ConsumedBound: B("ss-hs"), ClosesOnFail: true, Kind: "plain", ExpectSuccess: isValid && c.Cut != "reset"})
	x.R.Count(c.Prefix()+"/outcome", x.Outcome)
	x.R.Sample(3, map[string]interface{}{"case": c.Key(), "input": desc, "outcome": x.Outcome, "log": LogSummary(cc.Log())})
	if c.Gen == "pad-boundary" {
		x.R.Count(c.Prefix()+"/pad-boundary", fmt.Sprintf("pad-%s:%s", padClass(padLen), x.Outcome))
		// a conforming response must complete the handshake (the MAC covers the epoch hour: skip the
		// verdict if the hour changed under the case)
		if !good && !x.Violated() && call.Panic == nil && hour0 == time.Now().Unix()/3600 {
			x.Violate("conforming-handshake-not-completed", fmt.Sprintf("%s: Dial did not succeed (%s) although the whole conforming response had arrived; consumed %d bytes; log: %s", desc, x.Outcome, cc.Consumed(), LogSummary(cc.Log())))
		}
	}
	if good {
		ep := call.Res.(net.Conn)
		cc.ScriptConn.FireDeadlines = true
		o := DataOpts{Buffered: ssBuffered(ep), Bound: B("ss-data"), ReadSize: 512, MaxReads: 2000}
		if c.Gen == "pad-boundary" {
			o.ReadSize, o.MaxReads = 65536, 100000
		}
		x.ReadLoop(cc, ep, o)
		ep.Close()
	}
}

// SSPadBoundaries: server padding lengths always exercised by the generator "pad-boundary".
var SSPadBoundaries = []int{0, 1, 1292, 1293, 1307, 1308}

func padClass(n int) string {
	switch {
	case n <= 1:
		return fmt.Sprint(n)
	case n < 1292:
		return "2-1291"
	default:
		return fmt.Sprint(n)
	}
}

// SSDataGens: generators of the ScrambleSuit data stage (the fake server holds the session keys).
var SSDataGens = []string{"valid", "raw-random", "cut-at", "big-valid", "write-fail", "ticket-redial",
	"craft:total-gt-max", "craft:total-max+1", "craft:paylen-gt-total", "craft:paylen-max", "craft:flags-unknown", "craft:flags-zero",
	"craft:empty", "craft:pad-only", "craft:ticket-ok", "craft:ticket-short", "craft:ticket-long", "craft:seed-ok", "craft:seed-short",
	"craft:seed-long", "craft:body-short", "craft:bad-mac", "craft:max-payload",
	"mut:flip", "mut:trunc", "mut:extend", "mut:dup", "mut:splice-rand", "mut:insert", "mut:zero", "mut:ones", "mut:swap", "mut:dup-whole", "mut:drop"}

// ssCraft returns the bytes of one crafted packet.
func ssCraft(rng *vlib.Rng, s *SSServer, kind string) []byte {
	switch kind {
	case "total-gt-max":
		return s.Packet(1428+rng.Intn(60000), 0, 1, rng.Bytes(rng.Intn(1500)))
	case "total-max+1":
		return s.Packet(1428, 1428, 1, rng.Bytes(1428))
	case "paylen-gt-total":
		n := rng.Intn(1400)
		return s.Packet(n, n+1+rng.Intn(100), 1, rng.Bytes(n))
	case "paylen-max":
		n := rng.Intn(1427)
		return s.Packet(n, 65535, 1, rng.Bytes(n))
	case "flags-unknown":
		n := rng.Intn(200)
		return s.Packet(n, n, []byte{3, 5, 6, 7, 8, 0x10, 0x80, 0xff}[rng.Intn(8)], rng.Bytes(n))
	case "flags-zero":
		n := rng.Intn(200)
		return s.Packet(n, n, 0, rng.Bytes(n))
	case "empty":
		return s.Packet(0, 0, 1, nil)
	case "pad-only":
		n := 1 + rng.Intn(1427)
		return s.Packet(n, 0, 1, make([]byte, n))
	case "ticket-ok":
		return s.Packet(144, 144, 2, rng.Bytes(144))
	case "ticket-short":
		return s.Packet(143, 143, 2, rng.Bytes(143))
	case "ticket-long":
		return s.Packet(200, 145, 2, rng.Bytes(200))
	case "seed-ok":
		return s.Packet(32, 32, 4, rng.Bytes(32))
	case "seed-short":
		return s.Packet(31, 31, 4, rng.Bytes(31))
	case "seed-long":
		return s.Packet(40, 33, 4, rng.Bytes(40))
	case "body-short":
		// the header announces more than is ever sent
		n := 100 + rng.Intn(1300)
		p := s.Packet(n, n, 1, rng.Bytes(n))
		return p[:len(p)-1-rng.Intn(50)]
	case "bad-mac":
		n := rng.Intn(500)
		p := s.Packet(n, n, 1, rng.Bytes(n))
		p[rng.Intn(16)] ^= 0x40
		return p
	case "max-payload":
		return s.Packet(1427, 1427, 1, rng.Bytes(1427))
	}
	panic("unknown ss craft kind " + kind)
}

// RunSSData runs one ScrambleSuit data-stage case.
func RunSSData(x *Ctx) {
	c := x.Case
	rng := vlib.NewRng(c.Seed)
	w := newSSWorld(rng, true)
	cc, call := x.ssStartClient(w)
	if st := x.Await(cc, call); st != Blocked {
		x.abandon(cc, call)
		return
	}
	srv := &SSServer{KB: w.KB}
	if err := srv.Respond(rng, cc.TakeWritten(), rng.Intn(1309)); err != nil {
		panic(err)
	}
	payload := rng.Bytes([]int{1, 100, 1427, 1428, 5000}[rng.Intn(5)])
	if c.Gen == "big-valid" {
		payload = rng.Bytes(30000 + rng.Intn(60000))
	}
	// sometimes the first packets ride in the same segment as the response (handshake surplus)
	first := cc.Fed()
	_ = first
	together := rng.Intn(3) == 0
	if together {
		burst := srv.Payload(rng, rng.Bytes(2000))
		cc.FeedAll(append(append([]byte(nil), srv.Resp...), burst...), nil)
	} else {
		cc.FeedAll(srv.Resp, nil)
	}
	if st := x.Await(cc, call); st != Finished || call.Err != nil {
		x.abandon(cc, call)
		x.R.Count(c.Prefix()+"/anomaly", "handshake-failed:"+ErrClass(call.Err))
		return
	}
	ep := call.Res.(net.Conn)
	defer ep.Close()
	cc.ScriptConn.FireDeadlines = true
	opts := DataOpts{Buffered: ssBuffered(ep), Bound: B("ss-data"), ReadSize: []int{1, 16, 512, 4096, 65536}[rng.Intn(5)], MaxReads: 200000}
	var in []byte
	desc := c.Gen
	expect := -1
	switch {
	case c.Gen == "valid", c.Gen == "big-valid":
		in = srv.Payload(rng, payload)
		expect = len(payload)
		if together {
			expect += 2000
		}
	case c.Gen == "write-fail":
		werr, ok := x.WriteProbe(cc, ep, payload, ErrReset)
		if ok {
			x.R.Count(c.Prefix()+"/write-fail", "write-err:"+ErrClass(werr))
		}
		in = srv.Payload(rng, payload)
	case c.Gen == "raw-random":
		lens := LengthClasses(1448, 16, 21, 1427, 3063)
		n := lens[((c.A%len(lens))+len(lens))%len(lens)]
		in = rng.Bytes(n)
		desc = fmt.Sprintf("random[%d]", n)
	case c.Gen == "cut-at":
		v := srv.Payload(rng, payload)
		x.ValidLen = len(v)
		x.Boundaries = Boundaries([]Region{{"p0-mac", 0, 16}, {"p0-total", 16, 2}, {"p0-paylen", 18, 2}, {"p0-flags", 20, 1}}, len(v))
		p := x.CutPos(len(v))
		in = v[:p]
		desc = fmt.Sprintf("valid burst[:%d] of %d then cut=%q", p, len(v), c.Cut)
	case c.Gen == "ticket-redial":
		// a genuine NewTicket, then the client redials: ticket handshake (nothing to read), then data
		// under the keys derived from the ticket's master key
		tk := rng.Bytes(144)
		in = append(srv.Packet(144, 144, 2, tk), srv.Payload(rng, payload)...)
		x.feed(cc, rng, in)
		x.ReadLoop(cc, ep, opts)
		ep.Close()
		w2 := &ssWorld{CF: w.CF, Args: w.Args, KB: w.KB, Dir: w.Dir}
		a2 := &pt.Args{}
		a2.Add("password", base32.StdEncoding.EncodeToString(w.KB))
		w2.Args, _ = w.CF.ParseArgs(a2)
		c2, call2 := x.ssStartClient(w2)
		good := x.FinishHandshake(c2, call2, HsOpts{ConsumedBound: 0, ClosesOnFail: true, Kind: "plain"})
		x.R.Count(c.Prefix()+"/ticket-redial", x.Outcome)
		if good {
			ep2 := call2.Res.(net.Conn)
			c2.ScriptConn.FireDeadlines = true
			s2 := &SSServer{KB: w.KB}
			if err := s2.initKeys(tk[:32]); err != nil {
				panic(err)
			}
			sent := c2.TakeWritten()
			x.R.Count(c.Prefix()+"/ticket-redial", fmt.Sprintf("client-sent-ticket:%v", len(sent) >= 112+32 && string(sent[:112]) == string(tk[32:])))
			var in2 []byte
			if c.A%2 == 0 {
				in2 = s2.Payload(rng, payload)
			} else {
				in2 = rng.Bytes(3000)
			}
			c2.FeedAll(in2, nil)
			x.ApplyCut(c2)
			x.ReadLoop(c2, ep2, DataOpts{Buffered: ssBuffered(ep2), Bound: B("ss-data"), ReadSize: 512, MaxReads: 100000})
			ep2.Close()
		} else {
			x.abandon(c2, call2)
		}
		x.R.Count(c.Prefix()+"/outcome", x.Outcome)
		return
	case strings.HasPrefix(c.Gen, "craft:"):
		in = append(ssCraft(rng, srv, c.Gen[6:]), srv.Payload(rng, payload)...)
		desc = "crafted packet " + c.Gen[6:] + " then a genuine burst"
	case strings.HasPrefix(c.Gen, "mut:"):
		v := srv.Payload(rng, payload)
		regions := []Region{{"p0-mac", 0, 16}, {"p0-total", 16, 2}, {"p0-paylen", 18, 2}, {"p0-flags", 20, 1}, {"rest", 21, len(v) - 21}}
		in, desc = Mutate(rng, c.Gen[4:], v, regions, c.A, c.B)
		in = append(in, rng.Bytes(3000)...)
	default:
		panic("unknown generator " + c.Gen)
	}
	x.feed(cc, rng, in)
	res := x.ReadLoop(cc, ep, opts)
	if expect >= 0 && res.Delivered != expect && !x.Violated() {
		x.R.Count(c.Prefix()+"/anomaly", "valid-stream-not-fully-delivered")
	}
	x.R.Count(c.Prefix()+"/outcome", x.Outcome)
	x.R.Count(c.Prefix()+"/max-buffered", SizeClass(res.MaxBuf))
	x.R.Sample(2, map[string]interface{}{"case": c.Key(), "input": desc, "outcome": x.Outcome, "delivered": res.Delivered, "max_buffered": res.MaxBuf})
}
